/-
  SymmModel.Proofs.Graded — helper lemmas for the main theorem of property C03,
  `tensordotF_refines_graded` (Props/C03b.lean): the fermionic contraction of the model
  (`Arr.tensordotF`, Model/Fermi.lean, blockwise mode) equals an explicit graded-tensor
  specification that does not mention the lazy sign table.

  Nothing here changes a model definition.  Everything lives in `namespace SymmModel.GradedP`.
  * `SignRing`                         : the scalar laws used (negation vs. `+`, `*`)
  * position lemmas                    : where axes end up after the two transposes
  * `Prepared`, `contract_transport`   : if `X`, `Y` are re-indexed, sign-twisted copies of `a`, `b`
                                          in canonical layout, their abelian blockwise contraction
                                          (C02) is the sign-twisted pair sum over `a`, `b`
  * `gradedSign`, `gradedContract`     : the specification
  * `Twist`, `prepared_of_twist`, `ket_sign_left/right`, `reversal_sign_right`, `shapes_match`,
    `prepared_pair`                    : the sign bookkeeping of `tensordot_fermionic`, both branches
  * `tensordotF_graded`                : the main theorem
  * `traceA_elem`, `traceF_graded`, `resolve_tail`, `prepared_of_twist_id`, `matmulF_graded` : the
                                          corollaries for `trace` and `a @ b`
-/
import SymmModel.Proofs.Koszul
import SymmModel.Proofs.Oddpos
import SymmModel.Proofs.LazyLemmas
import SymmModel.Proofs.TdotDense
import SymmModel.Proofs.ValidTdotF

namespace SymmModel
namespace GradedP
open TdotP
set_option linter.unusedSectionVars false

/-! ### scalars -/

/-- the laws of negation the graded contraction needs (on top of `AddMonoid`) -/
class SignRing (R : Type) [AddMonoid R] [Mul R] [Neg R] : Prop where
  neg_neg : ∀ x : R, - -x = x
  neg_zero : -(0 : R) = 0
  neg_add : ∀ x y : R, -(x + y) = -x + -y
  neg_mul : ∀ x y : R, (-x) * y = -(x * y)
  mul_neg : ∀ x y : R, x * (-y) = -(x * y)

instance {R : Type} [AddMonoid R] [Mul R] [Neg R] [SignRing R] : Lazy.LawfulNeg R :=
  ⟨SignRing.neg_neg, SignRing.neg_zero⟩

instance : SignRing Int :=
  ⟨Int.neg_neg, Int.neg_zero, fun x y => by omega, Int.neg_mul, Int.mul_neg⟩

section scalars
variable {R : Type} [AddMonoid R] [Mul R] [Neg R] [SignRing R]
open Lazy (sgnI)

theorem sgnI_mul_mul {σ τ : Int} (hσ : σ = 1 ∨ σ = -1) (hτ : τ = 1 ∨ τ = -1) (x y : R) :
    sgnI σ x * sgnI τ y = sgnI (σ * τ) (x * y) := by
  rcases hσ with rfl | rfl <;> rcases hτ with rfl | rfl <;>
    simp [sgnI, SignRing.neg_mul, SignRing.mul_neg, SignRing.neg_neg]

theorem sgnI_sum (σ : Int) {α : Type} (f : α → R) (l : List α) :
    (l.map (fun k => sgnI σ (f k))).sum = sgnI σ (l.map f).sum := by
  induction l with
  | nil => simp [Lazy.sgnI_zero]
  | cons a l ih =>
    simp only [List.map_cons, List.sum_cons, ih]
    unfold sgnI
    split
    · exact (SignRing.neg_add _ _).symm
    · rfl

theorem sgnI_comp {σ τ : Int} (hσ : σ = 1 ∨ σ = -1) (hτ : τ = 1 ∨ τ = -1) (x : R) :
    sgnI σ (sgnI τ x) = sgnI (σ * τ) x := (Lazy.sgnI_mul hσ hτ x).symm

end scalars

/-! ### positions after the two transposes -/

section positions
variable {α : Type}

theorem freeAxes_length {n : Nat} {ax : List Nat} (hn : ax.Nodup) (hlt : ∀ i ∈ ax, i < n) :
    (freeAxes n ax).length + ax.length = n := by
  have := (ValidP.without_append_perm hn hlt).length_eq
  rw [without_range, List.length_append, List.length_range] at this
  exact this

theorem freeAxes_drop (n k : Nat) (hk : k ≤ n) :
    freeAxes n ((List.range n).drop k) = List.range k := by
  unfold freeAxes
  have e : n = k + (n - k) := by omega
  have hr : List.range n = List.range k ++ (List.range (n - k)).map (k + ·) := by
    conv => lhs; rw [e]
    exact List.range_add
  have hd : (List.range n).drop k = (List.range (n - k)).map (k + ·) := by
    rw [hr, List.drop_left' (by simp)]
  rw [hd]
  conv => lhs; arg 2; rw [hr]
  rw [List.filter_append]
  have h1 : (List.range k).filter (fun ax => !((List.range (n - k)).map (k + ·)).contains ax)
      = List.range k := by
    rw [List.filter_eq_self]
    intro x hx
    have := List.mem_range.mp hx
    simp only [Bool.not_eq_true', List.contains_eq_mem, decide_eq_false_iff_not, List.mem_map,
      List.mem_range, not_exists, not_and]
    intro y _; omega
  have h2 : ((List.range (n - k)).map (k + ·)).filter
      (fun ax => !((List.range (n - k)).map (k + ·)).contains ax) = [] := by
    rw [List.filter_eq_nil_iff]
    intro x hx
    simp [hx]
  rw [h1, h2, List.append_nil]

theorem freeAxes_range (m k : Nat) (hk : k ≤ m) :
    freeAxes m (List.range k) = (List.range m).drop k := by
  unfold freeAxes
  have e : m = k + (m - k) := by omega
  have hr : List.range m = List.range k ++ (List.range (m - k)).map (k + ·) := by
    conv => lhs; rw [e]
    exact List.range_add
  rw [hr, List.drop_left' (by simp), List.filter_append]
  have h1 : (List.range k).filter (fun ax => !(List.range k).contains ax) = [] := by
    rw [List.filter_eq_nil_iff]
    intro x hx
    simp [hx]
  have h2 : ((List.range (m - k)).map (k + ·)).filter (fun ax => !(List.range k).contains ax)
      = (List.range (m - k)).map (k + ·) := by
    rw [List.filter_eq_self]
    intro x hx
    obtain ⟨y, _, rfl⟩ := List.mem_map.mp hx
    simp
  rw [h1, h2, List.nil_append]

/-- canonical layout of the left operand: free axes first, contracted axes last -/
theorem perm_left {n : Nat} {ax : List Nat} (hn : ax.Nodup) (hlt : ∀ i ∈ ax, i < n) :
    (freeAxes n ax ++ ax).Perm (List.range n) := by
  have := ValidP.without_append_perm hn hlt
  rwa [without_range] at this

theorem perm_right {n : Nat} {ax : List Nat} (hn : ax.Nodup) (hlt : ∀ i ∈ ax, i < n) :
    (ax ++ freeAxes n ax).Perm (List.range n) :=
  List.perm_append_comm.trans (perm_left hn hlt)

variable {n : Nat} {ax : List Nat} (hn : ax.Nodup) (hlt : ∀ i ∈ ax, i < n)
  (z : List α) (hz : z.length = n)
include hn hlt hz

theorem len_free : (permuted z (freeAxes n ax)).length = n - ax.length := by
  rw [permuted_length _ _ (by intro x hx; rw [hz]; exact (mem_freeAxes.mp hx).1)]
  have := freeAxes_length hn hlt; omega

theorem len_ax : (permuted z ax).length = ax.length :=
  permuted_length _ _ (by intro x hx; rw [hz]; exact hlt x hx)

theorem left_lengths : (permuted z (freeAxes n ax ++ ax)).length = n := by
  rw [ValidP.permuted_append, List.length_append, len_free hn hlt z hz, len_ax hn hlt z hz]
  have := freeAxes_length hn hlt; omega

/-- the contracted part sits at the last `|ax|` positions of the left operand … -/
theorem left_newA :
    permuted (permuted z (freeAxes n ax ++ ax)) ((List.range n).drop (n - ax.length))
      = permuted z ax := by
  have hl := left_lengths hn hlt z hz
  have := ValidP.permuted_range_drop (permuted z (freeAxes n ax ++ ax)) (n - ax.length)
  rw [hl] at this
  rw [this, ValidP.permuted_append, List.drop_left' (len_free hn hlt z hz)]

/-- … and the free part at the first positions -/
theorem left_free :
    permuted (permuted z (freeAxes n ax ++ ax)) (freeAxes n ((List.range n).drop (n - ax.length)))
      = permuted z (freeAxes n ax) := by
  rw [freeAxes_drop n (n - ax.length) (by omega), ValidP.permuted_range_take,
    ValidP.permuted_append, List.take_left' (len_free hn hlt z hz)]

theorem right_lengths : (permuted z (ax ++ freeAxes n ax)).length = n := by
  rw [ValidP.permuted_append, List.length_append, len_free hn hlt z hz, len_ax hn hlt z hz]
  have := freeAxes_length hn hlt; omega

/-- the contracted part sits at the first `|ax|` positions of the right operand … -/
theorem right_newB :
    permuted (permuted z (ax ++ freeAxes n ax)) (List.range ax.length) = permuted z ax := by
  rw [ValidP.permuted_range_take, ValidP.permuted_append, List.take_left' (len_ax hn hlt z hz)]

/-- … and the free part behind it -/
theorem right_free :
    permuted (permuted z (ax ++ freeAxes n ax)) (freeAxes n (List.range ax.length))
      = permuted z (freeAxes n ax) := by
  have hl := right_lengths hn hlt z hz
  have hk : ax.length ≤ n := by have := freeAxes_length hn hlt; omega
  rw [freeAxes_range n ax.length hk]
  have := ValidP.permuted_range_drop (permuted z (ax ++ freeAxes n ax)) ax.length
  rw [hl] at this
  rw [this, ValidP.permuted_append, List.drop_left' (len_ax hn hlt z hz)]

end positions

/-! ### transport of the abelian contraction through a re-indexing with sector signs -/

theorem shape_of_mem {R : Type} {a : Arr R} (hs : a.shapesOk) {s : Sector} (h : s ∈ a.sectors) :
    ∃ shp, Arr.blockShape? a.indices s = some shp ∧ Arr.blockShapeD a.indices s = shp
      ∧ shp.length = a.ndim ∧ s.length = a.ndim := by
  obtain ⟨p, hp, rfl⟩ := List.mem_map.mp h
  have h1 := hs p hp
  exact ⟨p.2.shape, h1, by rw [Arr.blockShapeD, h1]; rfl, (blockShape?_length h1).2,
    (blockShape?_length h1).1⟩

section transport
variable {R : Type} [AddMonoid R] [Mul R] [Neg R] [SignRing R]
open Lazy (sgnI)

/-- `X` is `a` brought to the axis order `p`, with every stored sector `s` multiplied by the sign
    `τ s`, and with no pending signs left -/
structure Prepared (a X : Arr R) (p : List Nat) (τ : Sector → Int) : Prop where
  phases : X.phases = []
  sectors : X.sectors = a.sectors.map (fun s => permuted s p)
  indices : X.indices = permuted a.indices p
  distinct : allDistinct X.sectors = true
  shapes : X.shapesOk
  pm : ∀ s, τ s = 1 ∨ τ s = -1
  elem : ∀ s ∈ a.sectors, ∀ off, inBox (Arr.blockShapeD a.indices s) off = true →
      X.elem (permuted s p) (permuted off p) = sgnI (τ s) (a.elem s off)

/-- the stored pairs of the prepared operands are the images of the stored pairs of `a`, `b` -/
theorem storedPairs_transport (a b X Y : Arr R) (xa xb : List Nat)
    (hsa : a.shapesOk) (hsb : b.shapesOk)
    (hnA : xa.Nodup) (hA : ∀ i ∈ xa, i < a.ndim) (hnB : xb.Nodup) (hB : ∀ i ∈ xb, i < b.ndim)
    (hlen : xa.length = xb.length)
    (hX : X.sectors = a.sectors.map (fun s => permuted s (freeAxes a.ndim xa ++ xa)))
    (hY : Y.sectors = b.sectors.map (fun s => permuted s (xb ++ freeAxes b.ndim xb)))
    (s : Sector) :
    storedPairs X Y (freeAxes a.ndim ((List.range a.ndim).drop (a.ndim - xa.length)))
        ((List.range a.ndim).drop (a.ndim - xa.length)) (List.range xa.length)
        (freeAxes b.ndim (List.range xa.length)) s
      = (storedPairs a b (freeAxes a.ndim xa) xa xb (freeAxes b.ndim xb) s).map
          (fun p => (permuted p.1 (freeAxes a.ndim xa ++ xa), permuted p.2 (xb ++ freeAxes b.ndim xb))) := by
  unfold storedPairs
  rw [hX, hY]
  simp only [List.flatMap_map, List.filter_map, List.map_flatMap, List.map_map]
  apply flatMap_congr_mem
  intro sa hsa'
  have hla := Arr.sector_length hsa hsa'
  congr 1
  apply List.filter_congr
  intro sb hsb'
  have hlb := Arr.sector_length hsb hsb'
  simp only [Function.comp]
  rw [left_newA hnA hA sa hla, left_free hnA hA sa hla, hlen, right_newB hnB hB sb hlb,
    right_free hnB hB sb hlb]

/-- the contraction of one image pair is the signed contraction of the original pair -/
theorem pair_transport (a b X Y : Arr R) (xa xb : List Nat) (τA τB : Sector → Int)
    (hsa : a.shapesOk) (hsb : b.shapesOk)
    (hnA : xa.Nodup) (hA : ∀ i ∈ xa, i < a.ndim) (hnB : xb.Nodup) (hB : ∀ i ∈ xb, i < b.ndim)
    (hlen : xa.length = xb.length)
    (hmatch : ∀ sa ∈ a.sectors, ∀ sb ∈ b.sectors, permuted sb xb = permuted sa xa →
      permuted (Arr.blockShapeD b.indices sb) xb = permuted (Arr.blockShapeD a.indices sa) xa)
    (PX : Prepared a X (freeAxes a.ndim xa ++ xa) τA)
    (PY : Prepared b Y (xb ++ freeAxes b.ndim xb) τB)
    (s : Sector) (oL oR : List Nat) (hoL : oL.length = (freeAxes a.ndim xa).length)
    (ho : inBox (Arr.blockShapeD (without a.indices xa ++ without b.indices xb) s) (oL ++ oR) = true)
    (sa sb : Sector)
    (hp : (sa, sb) ∈ storedPairs a b (freeAxes a.ndim xa) xa xb (freeAxes b.ndim xb) s) :
    contractPair X Y ((List.range a.ndim).drop (a.ndim - xa.length)) (List.range xa.length) oL oR
        (permuted sa (freeAxes a.ndim xa ++ xa), permuted sb (xb ++ freeAxes b.ndim xb))
      = sgnI (τA sa * τB sb) (contractPair a b xa xb oL oR (sa, sb)) := by
  obtain ⟨hsa', hsb', hal, hs⟩ := mem_storedPairs.mp hp
  obtain ⟨shpA, hA1, hA2, hA3, hA4⟩ := shape_of_mem hsa hsa'
  obtain ⟨shpB, hB1, hB2, hB3, hB4⟩ := shape_of_mem hsb hsb'
  have hXn : X.ndim = a.ndim := by
    show X.indices.length = _
    rw [PX.indices]; exact left_lengths hnA hA a.indices rfl
  have hYn : Y.ndim = b.ndim := by
    show Y.indices.length = _
    rw [PY.indices]; exact right_lengths hnB hB b.indices rfl
  have hfl := freeAxes_length hnA hA
  have hfr := freeAxes_length hnB hB
  have hleftlt : ∀ x ∈ freeAxes a.ndim xa, x < a.ndim := fun x hx => (mem_freeAxes.mp hx).1
  have hrightlt : ∀ x ∈ freeAxes b.ndim xb, x < b.ndim := fun x hx => (mem_freeAxes.mp hx).1
  -- the box of the contracted offsets
  have hboxX : permuted (Arr.blockShapeD X.indices (permuted sa (freeAxes a.ndim xa ++ xa)))
      ((List.range a.ndim).drop (a.ndim - xa.length)) = permuted shpA xa := by
    have hpl : ∀ x ∈ freeAxes a.ndim xa ++ xa, x < a.indices.length := by
      intro x hx
      rcases List.mem_append.mp hx with h | h
      · exact hleftlt x h
      · exact hA x h
    rw [PX.indices, Arr.blockShapeD, blockShape?_permuted hA1 _ hpl]
    exact left_newA hnA hA shpA hA3
  have hmatch' : permuted shpB xb = permuted shpA xa := by
    have := hmatch sa hsa' sb hsb' hal
    rwa [hA2, hB2] at this
  -- the free offsets lie in the free boxes
  have hfree : inBox (permuted shpA (freeAxes a.ndim xa)) oL = true
      ∧ inBox (permuted shpB (freeAxes b.ndim xb)) oR = true := by
    have e : Arr.blockShapeD (without a.indices xa ++ without b.indices xb) s
        = permuted shpA (freeAxes a.ndim xa) ++ permuted shpB (freeAxes b.ndim xb) := by
      have ea : a.indices.length = a.ndim := rfl
      have eb : b.indices.length = b.ndim := rfl
      rw [← hs, without_eq_permuted_freeAxes, without_eq_permuted_freeAxes, ea, eb, Arr.blockShapeD,
        blockShape?_append (blockShape?_permuted hA1 _ hleftlt) (blockShape?_permuted hB1 _ hrightlt)]
      rfl
    rw [e, inBox_append (by
      rw [hoL, permuted_length _ _ (by intro x hx; rw [hA3]; exact hleftlt x hx)])] at ho
    simpa using ho
  unfold contractPair
  rw [hboxX, hA2, ← sgnI_sum]
  congr 1
  apply List.map_congr_left
  intro k hk
  have hkbox : inBox (permuted shpA xa) k = true := mem_allIdx_iff.mp hk
  have hklen : k.length = xa.length := by
    rw [inBox_length hkbox, permuted_length _ _ (by intro x hx; rw [hA3]; exact hA x hx)]
  unfold contractTerm
  -- left operand
  have hM : inBox shpA (mergeIdx 0 a.ndim xa (freeAxes a.ndim xa) k oL) = true := by
    have := inBox_mergeIdx (shape := shpA) (axes := xa) (k := k) (f := oL)
      (by intro x hx; rw [hA3]; exact hA x hx) hkbox (by rw [hA3]; exact hfree.1)
    rwa [hA3] at this
  have hMperm : mergeIdx 0 X.ndim ((List.range a.ndim).drop (a.ndim - xa.length))
        (freeAxes X.ndim ((List.range a.ndim).drop (a.ndim - xa.length))) k oL
      = permuted (mergeIdx 0 a.ndim xa (freeAxes a.ndim xa) k oL) (freeAxes a.ndim xa ++ xa) := by
    rw [hXn]
    have hml : (mergeIdx 0 a.ndim xa (freeAxes a.ndim xa) k oL).length = a.ndim := mergeIdx_length _ _ _ _ _ _
    have e1 := left_newA hnA hA (mergeIdx 0 a.ndim xa (freeAxes a.ndim xa) k oL) hml
    have e2 := left_free hnA hA (mergeIdx 0 a.ndim xa (freeAxes a.ndim xa) k oL) hml
    rw [permuted_mergeIdx_axes 0 hnA hA hklen] at e1
    rw [permuted_mergeIdx_free 0 (freeAxes_nodup _ _) hleftlt
      (fun x hx => (mem_freeAxes.mp hx).2) hoL] at e2
    have := mergeIdx_permuted 0
      (x := permuted (mergeIdx 0 a.ndim xa (freeAxes a.ndim xa) k oL) (freeAxes a.ndim xa ++ xa))
      (n := a.ndim) (axes := (List.range a.ndim).drop (a.ndim - xa.length))
      (free := freeAxes a.ndim ((List.range a.ndim).drop (a.ndim - xa.length)))
      (left_lengths hnA hA _ hml)
      (by intro y hy; exact List.mem_range.mp (List.mem_of_mem_drop hy))
      (fun y hy => (mem_freeAxes.mp hy).1)
      (by
        intro y hy
        by_cases h : y ∈ (List.range a.ndim).drop (a.ndim - xa.length)
        · exact Or.inl h
        · exact Or.inr (mem_freeAxes.mpr ⟨hy, h⟩))
    rw [e1, e2] at this
    exact this
  -- right operand
  have hN : inBox shpB (mergeIdx 0 b.ndim xb (freeAxes b.ndim xb) k oR) = true := by
    have := inBox_mergeIdx (shape := shpB) (axes := xb) (k := k) (f := oR)
      (by intro x hx; rw [hB3]; exact hB x hx) (by rw [hmatch']; exact hkbox)
      (by rw [hB3]; exact hfree.2)
    rwa [hB3] at this
  have hoR : oR.length = (freeAxes b.ndim xb).length := by
    rw [inBox_length hfree.2, permuted_length _ _ (by intro x hx; rw [hB3]; exact hrightlt x hx)]
  have hklen' : k.length = xb.length := by rw [hklen, hlen]
  have hNperm : mergeIdx 0 Y.ndim (List.range xa.length) (freeAxes Y.ndim (List.range xa.length)) k oR
      = permuted (mergeIdx 0 b.ndim xb (freeAxes b.ndim xb) k oR) (xb ++ freeAxes b.ndim xb) := by
    rw [hYn, hlen]
    have hml : (mergeIdx 0 b.ndim xb (freeAxes b.ndim xb) k oR).length = b.ndim := mergeIdx_length _ _ _ _ _ _
    have e1 := right_newB hnB hB (mergeIdx 0 b.ndim xb (freeAxes b.ndim xb) k oR) hml
    have e2 := right_free hnB hB (mergeIdx 0 b.ndim xb (freeAxes b.ndim xb) k oR) hml
    rw [permuted_mergeIdx_axes 0 hnB hB hklen'] at e1
    rw [permuted_mergeIdx_free 0 (freeAxes_nodup _ _) hrightlt
      (fun x hx => (mem_freeAxes.mp hx).2) hoR] at e2
    have := mergeIdx_permuted 0
      (x := permuted (mergeIdx 0 b.ndim xb (freeAxes b.ndim xb) k oR) (xb ++ freeAxes b.ndim xb))
      (n := b.ndim) (axes := List.range xb.length)
      (free := freeAxes b.ndim (List.range xb.length))
      (right_lengths hnB hB _ hml)
      (by intro y hy; have := List.mem_range.mp hy; omega)
      (fun y hy => (mem_freeAxes.mp hy).1)
      (by
        intro y hy
        by_cases h : y ∈ List.range xb.length
        · exact Or.inl h
        · exact Or.inr (mem_freeAxes.mpr ⟨hy, h⟩))
    rw [e1, e2] at this
    exact this
  rw [hMperm, hNperm, PX.elem sa hsa' _ (by rw [hA2]; exact hM), PY.elem sb hsb' _ (by rw [hB2]; exact hN),
    sgnI_mul_mul (PX.pm sa) (PY.pm sb)]

/-- **transport.**  The abelian blockwise contraction of the prepared operands `X`, `Y` in
    canonical layout is, address by address, the sum over the stored sector pairs of the
    ORIGINAL operands of the sign-twisted pair contractions. -/
theorem contract_transport (a b X Y : Arr R) (xa xb : List Nat) (τA τB : Sector → Int)
    (hsa : a.shapesOk) (hsb : b.shapesOk)
    (hnA : xa.Nodup) (hA : ∀ i ∈ xa, i < a.ndim) (hnB : xb.Nodup) (hB : ∀ i ∈ xb, i < b.ndim)
    (hlen : xa.length = xb.length)
    (hmatch : ∀ sa ∈ a.sectors, ∀ sb ∈ b.sectors, permuted sb xb = permuted sa xa →
      permuted (Arr.blockShapeD b.indices sb) xb = permuted (Arr.blockShapeD a.indices sa) xa)
    (PX : Prepared a X (freeAxes a.ndim xa ++ xa) τA)
    (PY : Prepared b Y (xb ++ freeAxes b.ndim xb) τB)
    (s : Sector) (oL oR : List Nat) (hoL : oL.length = (freeAxes a.ndim xa).length)
    (ho : inBox (Arr.blockShapeD (without a.indices xa ++ without b.indices xb) s) (oL ++ oR) = true) :
    (tensordotBlockwise X Y (freeAxes X.ndim ((List.range a.ndim).drop (a.ndim - xa.length)))
        ((List.range a.ndim).drop (a.ndim - xa.length)) (List.range xa.length)
        (freeAxes Y.ndim (List.range xa.length))).elem s (oL ++ oR)
      = ((storedPairs a b (freeAxes a.ndim xa) xa xb (freeAxes b.ndim xb) s).map (fun p =>
          sgnI (τA p.1 * τB p.2) (contractPair a b xa xb oL oR p))).sum := by
  have hXn : X.ndim = a.ndim := by
    show X.indices.length = _
    rw [PX.indices]; exact left_lengths hnA hA a.indices rfl
  have hYn : Y.ndim = b.ndim := by
    show Y.indices.length = _
    rw [PY.indices]; exact right_lengths hnB hB b.indices rfl
  have hfl := freeAxes_length hnA hA
  have ho' : inBox (Arr.blockShapeD (without X.indices ((List.range a.ndim).drop (a.ndim - xa.length))
      ++ without Y.indices (List.range xa.length)) s) (oL ++ oR) = true := by
    have e1 : without X.indices ((List.range a.ndim).drop (a.ndim - xa.length)) = without a.indices xa := by
      rw [without_eq_permuted_freeAxes, without_eq_permuted_freeAxes]
      have : X.indices.length = a.ndim := hXn
      rw [this, PX.indices]
      exact left_free hnA hA a.indices rfl
    have e2 : without Y.indices (List.range xa.length) = without b.indices xb := by
      rw [without_eq_permuted_freeAxes, without_eq_permuted_freeAxes]
      have : Y.indices.length = b.ndim := hYn
      rw [this, PY.indices, hlen]
      exact right_free hnB hB b.indices rfl
    rw [e1, e2]; exact ho
  rw [tensordotBlockwise_elem_pairs X Y _ _ PX.phases PY.phases PX.distinct PY.distinct PX.shapes
    PY.shapes s (oL ++ oR) ho', hXn, hYn]
  have hl' : (freeAxes a.ndim ((List.range a.ndim).drop (a.ndim - xa.length))).length = oL.length := by
    rw [freeAxes_drop a.ndim (a.ndim - xa.length) (by omega), List.length_range, hoL]; omega
  rw [hl', List.take_left' rfl, List.drop_left' rfl,
    storedPairs_transport a b X Y xa xb hsa hsb hnA hA hnB hB hlen PX.sectors PY.sectors s,
    List.map_map]
  congr 1
  apply List.map_congr_left
  rintro ⟨sa, sb⟩ hp
  exact pair_transport a b X Y xa xb τA τB hsa hsb hnA hA hnB hB hlen hmatch PX PY s oL oR hoL ho sa sb hp

end transport

/-! ### the sign operations of `tensordot_fermionic` as sector-wise twists -/

section prepare
variable {R : Type} [AddMonoid R] [Mul R] [Neg R] [SignRing R]
open Lazy (sgnI)

/-- `X` has the frame and the stored sectors of `a1`, and its value is the value of `a1` times the
    sector sign `φ` -/
structure Twist (a1 X : Arr R) (φ : Sector → Int) : Prop where
  sym : X.sym = a1.sym
  sectors : X.sectors = a1.sectors
  indices : X.indices = a1.indices
  sign : Lazy.SignOk X
  pm : ∀ s, φ s = 1 ∨ φ s = -1
  elem : ∀ s off, X.elem s off = sgnI (φ s) (a1.elem s off)

theorem Twist.refl {a1 : Arr R} (h : Lazy.SignOk a1) : Twist a1 a1 (fun _ => 1) :=
  ⟨rfl, rfl, rfl, h, fun _ => Or.inl rfl, fun _ _ => (Lazy.sgnI_one _).symm⟩

theorem Twist.phaseFlip {a1 X : Arr R} {φ : Sector → Int} (h : Twist a1 X φ) (axs : List Nat) :
    Twist a1 (X.phaseFlip axs) (fun s => Lazy.flipSign a1.sym axs s * φ s) := by
  refine ⟨?_, ?_, ?_, h.sign.phaseFlip axs, fun s => Lazy.mul_pm (Lazy.flipSign_pm _ _ _) (h.pm s), ?_⟩
  · rw [(ValidP.phaseFlip_fields X axs).2.1, h.sym]
  · unfold Arr.sectors; rw [Lazy.phaseFlip_blocks]; exact h.sectors
  · rw [(ValidP.phaseFlip_fields X axs).1, h.indices]
  · intro s off
    rw [Lazy.phaseFlip_elem X axs h.sign, h.elem, sgnI_comp (Lazy.flipSign_pm _ _ _) (h.pm s), h.sym]

theorem Twist.phaseTranspose {a1 X : Arr R} {φ : Sector → Int} (h : Twist a1 X φ)
    (axes : Option (List Nat)) :
    Twist a1 (X.phaseTranspose axes) (fun s => koszul (a1.parities s) axes * φ s) := by
  refine ⟨h.sym, h.sectors, h.indices, h.sign.phaseTranspose axes,
    fun s => Lazy.mul_pm (Lazy.koszul_pm _ _) (h.pm s), ?_⟩
  intro s off
  have hp : X.parities s = a1.parities s := by unfold Arr.parities; rw [h.sym]
  rw [Lazy.phaseTranspose_elem X axes h.sign, h.elem, sgnI_comp (Lazy.koszul_pm _ _) (h.pm s), hp]

/-- a twist of the transposed operand, synchronised, is a prepared copy of the operand -/
theorem prepared_of_twist (a X : Arr R) (p : List Nat) (φ : Sector → Int)
    (hfull : Lazy.Full a) (hshape : a.shapesOk) (hp : Arr.isPerm p a.ndim = true)
    (hT : Twist (a.transposeF p) X φ) (hv : X.phaseSync.shapesOk) :
    Prepared a X.phaseSync p (fun s => φ (permuted s p) * koszul (a.parities s) (some p)) := by
  have htr : Lazy.TrOk a p := hfull.trOk hp
  have hsec : X.phaseSync.sectors = a.sectors.map (fun s => permuted s p) := by
    rw [Lazy.phaseSync_sectors, hT.sectors, Lazy.transposeF_sectors htr]
  refine ⟨rfl, hsec, ?_, ?_, hv, fun s => Lazy.mul_pm (hT.pm _) (Lazy.koszul_pm _ _), ?_⟩
  · show X.indices = _
    rw [hT.indices]; rfl
  · rw [hsec, allDistinct_iff_nodup]; exact htr.nodup_keys
  · intro s hs off hoff
    obtain ⟨shp, h1, h2, h3, _⟩ := shape_of_mem hshape hs
    obtain ⟨b, hb⟩ := KoszulP.alookup_isSome_of_mem a.blocks s hs
    have hbs : b.shape = shp := by
      have := hshape (s, b) (Lazy.alookup_mem hb)
      rw [h1] at this
      exact (Option.some.inj this).symm
    rw [Lazy.phaseSync_elem, hT.elem, ← sgnI_comp (hT.pm _) (Lazy.koszul_pm _ _)]
    congr 1
    exact KoszulP.transposeF_elem SignRing.neg_neg a p
      (allDistinct_iff_nodup.mpr hfull.sign.sectors) hfull.len hp s b hb (by rw [hbs, h3])
      (hfull.sign.phases.phOf s) off (by rw [hbs, ← h2]; exact hoff)

end prepare

/-! ### the specification -/

section spec
variable {R : Type}

/-- number of odd charges among the contracted legs of the sector `sa` -/
def oddContracted (a : Arr R) (xa : List Nat) (sa : Sector) : Nat :=
  ((permuted sa xa).filter a.sym.parity).length

/-- number of contracted legs of `a` that are kets (not dual) and carry an odd charge in `sa`:
    these meet their partner as ket-then-bra -/
def ketOdd (a : Arr R) (xa : List Nat) (sa : Sector) : Nat :=
  ((xa.filter (fun ax => !(a.indices.getD ax default).dual)).filter
    (fun ax => a.sym.parity (sa.getD ax (0, 0)))).length

/-- the sign of one aligned sector pair in the graded contraction: bring `a` to (free, contracted)
    and `b` to (contracted, free) order [two Koszul signs], reverse the contracted block of `b` so
    that the pairs nest [`(-1)^(k(k-1)/2)`, `k` odd contracted charges], evaluate each pair with
    `-1` per odd ket-then-bra pair -/
def gradedSign (a b : Arr R) (xa xb : List Nat) (sa sb : Sector) : Int :=
  koszul (a.parities sa) (some (freeAxes a.ndim xa ++ xa))
    * koszul (b.parities sb) (some (xb ++ freeAxes b.ndim xb))
    * (-1) ^ (oddContracted a xa sa * (oddContracted a xa sa - 1) / 2)
    * (-1) ^ ketOdd a xa sa

theorem pow_pm (n : Nat) : ((-1 : Int) ^ n = 1) ∨ ((-1 : Int) ^ n = -1) := by
  rw [← KoszulP.sgn_eq_pow]; exact KoszulP.sgn_cases n

theorem gradedSign_pm (a b : Arr R) (xa xb : List Nat) (sa sb : Sector) :
    gradedSign a b xa xb sa sb = 1 ∨ gradedSign a b xa xb sa sb = -1 :=
  Lazy.mul_pm (Lazy.mul_pm (Lazy.mul_pm (Lazy.koszul_pm _ _) (Lazy.koszul_pm _ _)) (pow_pm _)) (pow_pm _)

/-- the graded contraction at the address `(s, oL ++ oR)`: the signed sum over the stored sector
    pairs with equal contracted parts whose free parts make up `s` -/
def gradedContract [AddMonoid R] [Mul R] [Neg R] (a b : Arr R) (xa xb : List Nat) (s : Sector)
    (oL oR : List Nat) : R :=
  ((storedPairs a b (freeAxes a.ndim xa) xa xb (freeAxes b.ndim xb) s).map (fun p =>
    Lazy.sgnI (gradedSign a b xa xb p.1 p.2) (contractPair a b xa xb oL oR p))).sum

end spec

/-! ### the signs produced by the model are the signs of the specification -/

section signs
variable {R : Type}

theorem flipSign_eq_pow (sym : Sym) (axs : List Nat) (s : Sector) :
    Lazy.flipSign sym axs s
      = (-1 : Int) ^ ((axs.filter (fun ax => sym.parity (s.getD ax (0, 0)))).length) := by
  rw [← KoszulP.sgn_eq_pow]
  unfold Lazy.flipSign Lazy.flipOdd KoszulP.sgn
  generalize (axs.filter (fun ax => sym.parity (s.getD ax (0, 0)))).length = c
  rcases Nat.mod_two_eq_zero_or_one c with h | h <;> simp [h]

theorem list_eq_map_getD (l : List Nat) : l = (List.range l.length).map (fun j => l.getD j 0) := by
  apply List.ext_getElem
  · simp
  · intro i h1 h2
    simp [List.getD_eq_getElem?_getD, List.getElem?_eq_getElem h1]

theorem drop_range_eq_map (n k : Nat) (hk : k ≤ n) :
    (List.range n).drop k = (List.range (n - k)).map (fun j => k + j) := by
  have e : n = k + (n - k) := by omega
  have hr : List.range n = List.range k ++ (List.range (n - k)).map (k + ·) := by
    conv => lhs; rw [e]
    exact List.range_add
  rw [hr, List.drop_left' (by simp)]

/-- counting through two enumerations of the same positions -/
theorem count_two_maps (nc : Nat) (f g : Nat → Nat) (P Q P' Q' : Nat → Bool)
    (h : ∀ j, j < nc → P (f j) = P' (g j) ∧ Q (f j) = Q' (g j)) :
    ((((List.range nc).map f).filter P).filter Q).length
      = ((((List.range nc).map g).filter P').filter Q').length := by
  simp only [List.filter_map, List.length_map, List.filter_filter]
  congr 1
  apply List.filter_congr
  intro j hj
  have := h j (List.mem_range.mp hj)
  simp [Function.comp, this.1, this.2]

variable {α : Type}

/-- entry `j` of the contracted part, read through `getD` -/
theorem getD_permuted_ax (z : List α) (ax : List Nat) (hlt : ∀ i ∈ ax, i < z.length) (j : Nat)
    (hj : j < ax.length) (d : α) : (permuted z ax).getD j d = z.getD (ax.getD j 0) d := by
  rw [List.getD_eq_getElem?_getD, permuted_getElem? z ax hlt, List.getElem?_eq_getElem hj,
    List.getD_eq_getElem?_getD, List.getD_eq_getElem?_getD, List.getElem?_eq_getElem hj]
  rfl

theorem getD_left {n : Nat} {ax : List Nat} (hn : ax.Nodup) (hlt : ∀ i ∈ ax, i < n)
    (z : List α) (hz : z.length = n) (j : Nat) (hj : j < ax.length) (d : α) :
    (permuted z (freeAxes n ax ++ ax)).getD (n - ax.length + j) d = z.getD (ax.getD j 0) d := by
  rw [ValidP.permuted_append, List.getD_eq_getElem?_getD,
    List.getElem?_append_right (by rw [len_free hn hlt z hz]; omega), len_free hn hlt z hz,
    ← List.getD_eq_getElem?_getD]
  have : n - ax.length + j - (n - ax.length) = j := by omega
  rw [this]
  exact getD_permuted_ax z ax (by rw [hz]; exact hlt) j hj d

theorem getD_right {n : Nat} {ax : List Nat} (hn : ax.Nodup) (hlt : ∀ i ∈ ax, i < n)
    (z : List α) (hz : z.length = n) (j : Nat) (hj : j < ax.length) (d : α) :
    (permuted z (ax ++ freeAxes n ax)).getD j d = z.getD (ax.getD j 0) d := by
  rw [ValidP.permuted_append, List.getD_eq_getElem?_getD,
    List.getElem?_append_left (by rw [len_ax hn hlt z hz]; exact hj), ← List.getD_eq_getElem?_getD]
  exact getD_permuted_ax z ax (by rw [hz]; exact hlt) j hj d

/-- what `contractibleB` says about the `j`-th contracted pair of legs -/
theorem contractible_at {a b : Arr R} {xa xb : List Nat}
    (hc : ValidP.contractibleB a b xa xb = true) (j : Nat) (hj : j < xa.length) :
    (a.indices.getD (xa.getD j 0) default).cm = (b.indices.getD (xb.getD j 0) default).cm
      ∧ (b.indices.getD (xb.getD j 0) default).dual = !(a.indices.getD (xa.getD j 0) default).dual := by
  unfold ValidP.contractibleB at hc
  simp only [Bool.and_eq_true, beq_iff_eq, List.all_eq_true] at hc
  obtain ⟨hl, hall⟩ := hc
  have hj' : j < xb.length := by omega
  have hmem : (xa.getD j 0, xb.getD j 0) ∈ xa.zip xb := by
    rw [List.mem_iff_getElem]
    refine ⟨j, by simp; omega, ?_⟩
    simp [List.getD_eq_getElem?_getD, List.getElem?_eq_getElem hj, List.getElem?_eq_getElem hj']
  have := hall _ hmem
  refine ⟨this.1, ?_⟩
  have h2 := this.2
  revert h2
  cases (a.indices.getD (xa.getD j 0) default).dual <;>
    cases (b.indices.getD (xb.getD j 0) default).dual <;> simp

theorem contractible_len {a b : Arr R} {xa xb : List Nat}
    (hc : ValidP.contractibleB a b xa xb = true) : xa.length = xb.length := by
  unfold ValidP.contractibleB at hc
  simp only [Bool.and_eq_true, beq_iff_eq] at hc
  exact hc.1

/-- branch `a.size ≤ b.size`: the flip of `a`'s ket legs among the contracted positions -/
theorem ket_sign_left (a : Arr R) (xa : List Nat) (hn : xa.Nodup) (hlt : ∀ i ∈ xa, i < a.ndim)
    (sa : Sector) (hsa : sa.length = a.ndim) :
    Lazy.flipSign a.sym
        (((List.range a.ndim).drop (a.ndim - xa.length)).filter (fun ax =>
          !((permuted a.indices (freeAxes a.ndim xa ++ xa)).getD ax default).dual))
        (permuted sa (freeAxes a.ndim xa ++ xa))
      = (-1 : Int) ^ ketOdd a xa sa := by
  rw [flipSign_eq_pow]
  congr 1
  have hk : xa.length ≤ a.ndim := by have := freeAxes_length hn hlt; omega
  have e1 := drop_range_eq_map a.ndim (a.ndim - xa.length) (by omega)
  have e3 : a.ndim - (a.ndim - xa.length) = xa.length := by omega
  rw [e3] at e1
  unfold ketOdd
  rw [e1]
  have e2 : ((xa.filter (fun ax => !(a.indices.getD ax default).dual)).filter
        (fun ax => a.sym.parity (sa.getD ax (0, 0)))).length
      = ((((List.range xa.length).map (fun j => xa.getD j 0)).filter
          (fun ax => !(a.indices.getD ax default).dual)).filter
        (fun ax => a.sym.parity (sa.getD ax (0, 0)))).length := by
    rw [← list_eq_map_getD xa]
  rw [e2]
  apply count_two_maps
  intro j hj
  rw [getD_left hn hlt a.indices rfl j hj, getD_left hn hlt sa hsa j hj]
  exact ⟨rfl, rfl⟩

/-- branch `a.size > b.size`: the flip of `b`'s bra legs among the contracted positions gives the
    same sign, because matched legs have opposite directions and equal charges -/
theorem ket_sign_right (a b : Arr R) (xa xb : List Nat) (hsym : a.sym = b.sym)
    (hc : ValidP.contractibleB a b xa xb = true)
    (hA : ∀ i ∈ xa, i < a.ndim) (hnB : xb.Nodup) (hB : ∀ i ∈ xb, i < b.ndim)
    (sa sb : Sector) (hsa : sa.length = a.ndim) (hsb : sb.length = b.ndim)
    (hal : permuted sb xb = permuted sa xa) :
    Lazy.flipSign b.sym
        ((List.range xa.length).filter (fun ax =>
          ((permuted b.indices (xb ++ freeAxes b.ndim xb)).getD ax default).dual))
        (permuted sb (xb ++ freeAxes b.ndim xb))
      = (-1 : Int) ^ ketOdd a xa sa := by
  have hlen := contractible_len hc
  rw [flipSign_eq_pow]
  congr 1
  unfold ketOdd
  have e2 : ((xa.filter (fun ax => !(a.indices.getD ax default).dual)).filter
        (fun ax => a.sym.parity (sa.getD ax (0, 0)))).length
      = ((((List.range xa.length).map (fun j => xa.getD j 0)).filter
          (fun ax => !(a.indices.getD ax default).dual)).filter
        (fun ax => a.sym.parity (sa.getD ax (0, 0)))).length := by
    rw [← list_eq_map_getD xa]
  have e1 : List.range xa.length = (List.range xa.length).map (fun j => j) := by simp
  rw [e2]
  conv => lhs; rw [e1]
  apply count_two_maps
  intro j hj
  have hj' : j < xb.length := by omega
  rw [getD_right hnB hB b.indices rfl j hj', getD_right hnB hB sb hsb j hj']
  refine ⟨(contractible_at hc j hj).2, ?_⟩
  have h1 := getD_permuted_ax sb xb (by rw [hsb]; exact hB) j hj' (0, 0)
  have h2 := getD_permuted_ax sa xa (by rw [hsa]; exact hA) j hj (0, 0)
  rw [← h1, ← h2, hal, hsym]

/-- the virtual reversal of the first `nc` axes costs `(-1)^(K(K-1)/2)`, `K` = number of odd
    entries among them -/
theorem reversal_sign (par : List Bool) (m nc : Nat) (hnc : nc ≤ m) (hm : nc ≤ par.length) :
    koszul par (some ((List.range nc).reverse ++ (List.range m).drop nc))
      = (-1 : Int) ^ (((par.take nc).filter id).length * (((par.take nc).filter id).length - 1) / 2) := by
  have hsplit : List.range nc ++ (List.range m).drop nc = List.range m := by
    have := List.take_append_drop nc (List.range m)
    rwa [List.take_range, Nat.min_eq_left hnc] at this
  have h : ([] ++ List.range nc ++ (List.range m).drop nc).Perm (List.range m) := by
    rw [List.nil_append, hsplit]
  have hk := KoszulP.koszul_reverse_block par [] (List.range nc) ((List.range m).drop nc) m h
  simp only [List.nil_append] at hk
  rw [hk, hsplit, KoszulP.koszul_id', Int.one_mul, KoszulP.sgn_eq_pow]
  have hcount : KoszulP.oddCount par (List.range nc) = ((par.take nc).filter id).length := by
    have h1 := KoszulP.oddCount_range (par.take nc)
    rw [List.length_take, Nat.min_eq_left hm] at h1
    rw [← h1]
    unfold KoszulP.oddCount
    congr 1
    apply List.filter_congr
    intro j hj
    have := List.mem_range.mp hj
    unfold isOdd
    rw [List.getD_eq_getElem?_getD, List.getD_eq_getElem?_getD, List.getElem?_take_of_lt this]
  rw [hcount]

/-- … for the transposed right operand: `K` is the number of odd contracted charges -/
theorem reversal_sign_right (a b : Arr R) (xa xb : List Nat) (hsym : a.sym = b.sym)
    (hlen : xa.length = xb.length) (hnB : xb.Nodup) (hB : ∀ i ∈ xb, i < b.ndim)
    (sa sb : Sector) (hsb : sb.length = b.ndim) (hal : permuted sb xb = permuted sa xa) :
    koszul ((permuted sb (xb ++ freeAxes b.ndim xb)).map b.sym.parity)
        (some ((List.range xa.length).reverse ++ (List.range b.ndim).drop xa.length))
      = (-1 : Int) ^ (oddContracted a xa sa * (oddContracted a xa sa - 1) / 2) := by
  have hk : xb.length ≤ b.ndim := by have := freeAxes_length hnB hB; omega
  have hl := right_lengths hnB hB sb hsb
  rw [reversal_sign _ b.ndim xa.length (by omega) (by rw [List.length_map, hl]; omega)]
  have : (((permuted sb (xb ++ freeAxes b.ndim xb)).map b.sym.parity).take xa.length).filter id
      = ((permuted sa xa).map a.sym.parity).filter id := by
    rw [← List.map_take, ValidP.permuted_append, hlen, List.take_left' (len_ax hnB hB sb hsb), hal,
      hsym]
  rw [this]
  unfold oddContracted
  simp only [List.filter_map, List.length_map]
  rfl

/-- matched legs have the same charge table, so aligned sectors have equal contracted sizes -/
theorem shapes_match {a b : Arr R} {xa xb : List Nat} (hsa : a.shapesOk) (hsb : b.shapesOk)
    (hc : ValidP.contractibleB a b xa xb = true)
    (hA : ∀ i ∈ xa, i < a.ndim) (hB : ∀ i ∈ xb, i < b.ndim) :
    ∀ sa ∈ a.sectors, ∀ sb ∈ b.sectors, permuted sb xb = permuted sa xa →
      permuted (Arr.blockShapeD b.indices sb) xb = permuted (Arr.blockShapeD a.indices sa) xa := by
  intro sa hsa' sb hsb' hal
  have hlen := contractible_len hc
  obtain ⟨shpA, hA1, hA2, hA3, hA4⟩ := shape_of_mem hsa hsa'
  obtain ⟨shpB, hB1, hB2, hB3, hB4⟩ := shape_of_mem hsb hsb'
  rw [hA2, hB2]
  apply List.ext_getElem?
  intro j
  rw [permuted_getElem? _ _ (by rw [hB3]; exact hB), permuted_getElem? _ _ (by rw [hA3]; exact hA)]
  by_cases hj : j < xa.length
  · have hj' : j < xb.length := by omega
    have hxa : xa[j] < a.ndim := hA _ (List.getElem_mem hj)
    have hxb : xb[j] < b.ndim := hB _ (List.getElem_mem hj')
    rw [List.getElem?_eq_getElem hj, List.getElem?_eq_getElem hj']
    simp only [Option.bind_some]
    -- sizes from the index tables
    have zA := ((blockShape?_eq_some_iff _ _ _).mp hA1).2
    have zB := ((blockShape?_eq_some_iff _ _ _).mp hB1).2
    have gA := congrArg (fun l => l[xa[j]]?) zA
    have gB := congrArg (fun l => l[xb[j]]?) zB
    have ia : xa[j] < a.indices.length := hxa
    have ib : xb[j] < b.indices.length := hxb
    simp only [List.getElem?_zipWith, List.getElem?_map, List.getElem?_eq_getElem ia,
      List.getElem?_eq_getElem ib, List.getElem?_eq_getElem (hA4 ▸ hxa),
      List.getElem?_eq_getElem (hB4 ▸ hxb), List.getElem?_eq_getElem (hA3 ▸ hxa),
      List.getElem?_eq_getElem (hB3 ▸ hxb), Option.map_some] at gA gB
    have hcm := (contractible_at hc j hj).1
    simp only [List.getD_eq_getElem?_getD, List.getElem?_eq_getElem hj, List.getElem?_eq_getElem hj',
      List.getElem?_eq_getElem ia, List.getElem?_eq_getElem ib, Option.getD_some] at hcm
    have hch : sb[xb[j]]'(hB4 ▸ hxb) = sa[xa[j]]'(hA4 ▸ hxa) := by
      have h1 := congrArg (fun l => l[j]?) hal
      simp only [permuted_getElem? sb xb (by rw [hB4]; exact hB),
        permuted_getElem? sa xa (by rw [hA4]; exact hA), List.getElem?_eq_getElem hj,
        List.getElem?_eq_getElem hj', Option.bind_some, List.getElem?_eq_getElem (hA4 ▸ hxa),
        List.getElem?_eq_getElem (hB4 ▸ hxb), Option.some.injEq] at h1
      exact h1
    rw [List.getElem?_eq_getElem (hB3 ▸ hxb), List.getElem?_eq_getElem (hA3 ▸ hxa)]
    unfold Index.sizeOf? at gA gB
    rw [hch, ← hcm, gA] at gB
    exact Option.some.inj gB.symm
  · rw [List.getElem?_eq_none (by omega), List.getElem?_eq_none (by omega)]; rfl

end signs

/-! ### assembling `tensordot_fermionic` -/

section main
variable {R : Type} [AddMonoid R] [Mul R] [Neg R] [SignRing R]
open Lazy (sgnI)

/-- the two operands just before `phase_sync`, in the two branches of the size test -/
theorem tdF34_cases (a b : Arr R) (xa xb : List Nat) :
    let a1 := a.transposeF (freeAxes a.ndim xa ++ xa)
    let b1 := b.transposeF (xb ++ freeAxes b.ndim xb)
    let b2 := b1.phaseTranspose (some ((List.range xa.length).reverse ++ (List.range b1.ndim).drop xa.length))
    ValidP.tdF34 a b xa xb
        = (a1.phaseFlip (((List.range a.ndim).drop (a.ndim - xa.length)).filter
            (fun ax => !(a1.indices.getD ax default).dual)), b2)
      ∨ ValidP.tdF34 a b xa xb
        = (a1, b2.phaseFlip ((List.range xa.length).filter (fun ax => (b2.indices.getD ax default).dual))) := by
  unfold ValidP.tdF34
  simp only [without_range]
  split
  · exact Or.inl rfl
  · exact Or.inr rfl

theorem transposeF_ndim_right (b : Arr R) (xb : List Nat) (hnB : xb.Nodup) (hB : ∀ i ∈ xb, i < b.ndim) :
    (b.transposeF (xb ++ freeAxes b.ndim xb)).ndim = b.ndim :=
  right_lengths hnB hB b.indices rfl

/-- both operands handed to the abelian kernel are prepared copies of `a`, `b` whose sector signs
    multiply, on every aligned pair, to the sign of the specification — in BOTH branches of the
    `a.size ≤ b.size` test -/
theorem prepared_pair (a b : Arr R) (xa xb : List Nat)
    (ha : a.validB = true) (hb : b.validB = true) (hfa : a.fermi = true) (hfb : b.fermi = true)
    (hsym : a.sym = b.sym) (hc : ValidP.contractibleB a b xa xb = true)
    (hnA : xa.Nodup) (hA : ∀ i ∈ xa, i < a.ndim) (hnB : xb.Nodup) (hB : ∀ i ∈ xb, i < b.ndim) :
    ∃ τA τB, Prepared a (ValidP.tdF34 a b xa xb).1.phaseSync (freeAxes a.ndim xa ++ xa) τA
      ∧ Prepared b (ValidP.tdF34 a b xa xb).2.phaseSync (xb ++ freeAxes b.ndim xb) τB
      ∧ ∀ sa ∈ a.sectors, ∀ sb ∈ b.sectors, permuted sb xb = permuted sa xa →
          τA sa * τB sb = gradedSign a b xa xb sa sb := by
  have hlen := contractible_len hc
  have fa := Lazy.Full.of_valid ha hfa
  have fb := Lazy.Full.of_valid hb hfb
  have hsa := Arr.shapesOk_of_validB ha
  have hsb := Arr.shapesOk_of_validB hb
  have hpA : Arr.isPerm (freeAxes a.ndim xa ++ xa) a.ndim = true :=
    ValidP.isPerm_of_perm (perm_left hnA hA)
  have hpB : Arr.isPerm (xb ++ freeAxes b.ndim xb) b.ndim = true :=
    ValidP.isPerm_of_perm (perm_right hnB hB)
  have props := ValidP.tdF34_props a b xa xb ((ValidP.validB_iff a).mp ha) ((ValidP.validB_iff b).mp hb)
    hfa hfb hnA hnB hA hB
  have hvX : (ValidP.tdF34 a b xa xb).1.phaseSync.shapesOk :=
    Arr.shapesOk_of_validB ((ValidP.validB_iff _).mpr (ValidP.phaseSync_valid _ props.va))
  have hvY : (ValidP.tdF34 a b xa xb).2.phaseSync.shapesOk :=
    Arr.shapesOk_of_validB ((ValidP.validB_iff _).mpr (ValidP.phaseSync_valid _ props.vb))
  have T1 : Twist (a.transposeF (freeAxes a.ndim xa ++ xa)) (a.transposeF (freeAxes a.ndim xa ++ xa))
      (fun _ => 1) := Twist.refl (Lazy.SignOk.transposeF a _)
  have U1 : Twist (b.transposeF (xb ++ freeAxes b.ndim xb)) (b.transposeF (xb ++ freeAxes b.ndim xb))
      (fun _ => 1) := Twist.refl (Lazy.SignOk.transposeF b _)
  have U2 := U1.phaseTranspose (some ((List.range xa.length).reverse
    ++ (List.range (b.transposeF (xb ++ freeAxes b.ndim xb)).ndim).drop xa.length))
  -- the two signs common to both branches
  have hrev : ∀ sa ∈ a.sectors, ∀ sb ∈ b.sectors, permuted sb xb = permuted sa xa →
      koszul ((b.transposeF (xb ++ freeAxes b.ndim xb)).parities (permuted sb (xb ++ freeAxes b.ndim xb)))
        (some ((List.range xa.length).reverse
          ++ (List.range (b.transposeF (xb ++ freeAxes b.ndim xb)).ndim).drop xa.length))
      = (-1 : Int) ^ (oddContracted a xa sa * (oddContracted a xa sa - 1) / 2) := by
    intro sa _ sb hsb' hal
    rw [transposeF_ndim_right b xb hnB hB]
    exact reversal_sign_right a b xa xb hsym hlen hnB hB sa sb (Arr.sector_length hsb hsb') hal
  rcases tdF34_cases a b xa xb with hcase | hcase
  · -- `a` receives the ket-bra flip
    rw [hcase] at hvX hvY ⊢
    have T2 := T1.phaseFlip (((List.range a.ndim).drop (a.ndim - xa.length)).filter
      (fun ax => !((a.transposeF (freeAxes a.ndim xa ++ xa)).indices.getD ax default).dual))
    refine ⟨_, _, prepared_of_twist a _ _ _ fa hsa hpA T2 hvX,
      prepared_of_twist b _ _ _ fb hsb hpB U2 hvY, ?_⟩
    intro sa hsa' sb hsb' hal
    have hk := ket_sign_left a xa hnA hA sa (Arr.sector_length hsa hsa')
    have hr := hrev sa hsa' sb hsb' hal
    show (Lazy.flipSign a.sym _ _ * 1 * _) * (_ * 1 * _) = _
    rw [hr]
    have hk' : Lazy.flipSign a.sym
        (((List.range a.ndim).drop (a.ndim - xa.length)).filter
          (fun ax => !((a.transposeF (freeAxes a.ndim xa ++ xa)).indices.getD ax default).dual))
        (permuted sa (freeAxes a.ndim xa ++ xa)) = (-1 : Int) ^ ketOdd a xa sa := hk
    rw [hk']
    unfold gradedSign
    ring
  · -- `b` receives the ket-bra flip
    rw [hcase] at hvX hvY ⊢
    have U3 := U2.phaseFlip ((List.range xa.length).filter (fun ax =>
      (((b.transposeF (xb ++ freeAxes b.ndim xb)).phaseTranspose (some ((List.range xa.length).reverse
        ++ (List.range (b.transposeF (xb ++ freeAxes b.ndim xb)).ndim).drop xa.length))).indices.getD
          ax default).dual))
    refine ⟨_, _, prepared_of_twist a _ _ _ fa hsa hpA T1 hvX,
      prepared_of_twist b _ _ _ fb hsb hpB U3 hvY, ?_⟩
    intro sa hsa' sb hsb' hal
    have hk := ket_sign_right a b xa xb hsym hc hA hnB hB sa sb (Arr.sector_length hsa hsa')
      (Arr.sector_length hsb hsb') hal
    have hr := hrev sa hsa' sb hsb' hal
    show (1 * _) * (Lazy.flipSign b.sym _ _ * (_ * 1) * _) = _
    rw [hr]
    have hk' : Lazy.flipSign b.sym
        ((List.range xa.length).filter (fun ax =>
          (((b.transposeF (xb ++ freeAxes b.ndim xb)).phaseTranspose (some ((List.range xa.length).reverse
            ++ (List.range (b.transposeF (xb ++ freeAxes b.ndim xb)).ndim).drop xa.length))).indices.getD
              ax default).dual))
        (permuted sb (xb ++ freeAxes b.ndim xb)) = (-1 : Int) ^ ketOdd a xa sa := hk
    rw [hk']
    unfold gradedSign
    ring

/-- **main theorem.**  `tensordot_fermionic` in blockwise mode on valid fermionic operands with
    contractible axes: the labels of the result are the merged labels, its charge the combined
    charge, and its value at every address is the label sign times the graded contraction. -/
theorem tensordotF_graded (a b c : Arr R) (xa xb : List Nat)
    (ha : a.validB = true) (hb : b.validB = true) (hfa : a.fermi = true) (hfb : b.fermi = true)
    (hadm : ValidP.tdotAdmissibleB a b xa xb = true)
    (h : a.tensordotF b (.pair (xa.map Int.ofNat) (xb.map Int.ofNat)) .blockwise = .ok c) :
    ∃ out ph, OddposP.mergeOddpos a.parity a.oddpos b.oddpos = .ok (out, ph)
      ∧ c.oddpos = out ∧ c.charge = a.sym.combine [a.charge, b.charge]
      ∧ ∀ s oL oR, oL.length = (freeAxes a.ndim xa).length →
          inBox (Arr.blockShapeD (without a.indices xa ++ without b.indices xb) s) (oL ++ oR) = true →
          c.elem s (oL ++ oR) = sgnI ph (gradedContract a b xa xb s oL oR) := by
  unfold ValidP.tdotAdmissibleB at hadm
  simp only [Bool.and_eq_true, decide_eq_true_eq, ValidP.allDistinct_iff, List.all_eq_true] at hadm
  obtain ⟨⟨⟨⟨⟨hsym, hc⟩, hnA⟩, hnB⟩, hA⟩, hB⟩ := hadm
  have hlen := contractible_len hc
  have hsa := Arr.shapesOk_of_validB ha
  have hsb := Arr.shapesOk_of_validB hb
  obtain ⟨τA, τB, PX, PY, hsign⟩ := prepared_pair a b xa xb ha hb hfa hfb hsym hc hnA hA hnB hB
  have props := ValidP.tdF34_props a b xa xb ((ValidP.validB_iff a).mp ha) ((ValidP.validB_iff b).mp hb)
    hfa hfb hnA hnB hA hB
  rw [ValidP.tensordotF_eq a b xa xb .blockwise hlen hA hB] at h
  generalize hX : (ValidP.tdF34 a b xa xb).1.phaseSync = X at h PX
  generalize hY : (ValidP.tdF34 a b xa xb).2.phaseSync = Y at h PY
  have hXn : X.ndim = a.ndim := by
    show X.indices.length = _
    rw [PX.indices]; exact left_lengths hnA hA a.indices rfl
  have hYn : Y.ndim = b.ndim := by
    show Y.indices.length = _
    rw [PY.indices]; exact right_lengths hnB hB b.indices rfl
  have hk : xa.length ≤ a.ndim := by have := freeAxes_length hnA hA; omega
  have hk' : xb.length ≤ b.ndim := by have := freeAxes_length hnB hB; omega
  rw [tensordotA_blockwise', ValidP.parseAxes_nat X.ndim Y.ndim _ _ (by simp; omega)
    (by intro i hi; rw [hXn]; exact List.mem_range.mp (List.mem_of_mem_drop hi))
    (by intro i hi; rw [hYn]; have := List.mem_range.mp hi; omega)] at h
  simp only [Except.map, bind, Except.bind] at h
  rw [OddposP.resolveCombinedOddpos_eq] at h
  -- the frame of the prepared operands
  have hXpar : X.parity = a.parity := by
    subst hX
    show Sym.parity (ValidP.tdF34 a b xa xb).1.sym (ValidP.tdF34 a b xa xb).1.charge = _
    rw [props.sa, props.ca]; rfl
  have hXodd : X.oddpos = a.oddpos := by subst hX; exact props.oa
  have hYodd : Y.oddpos = b.oddpos := by subst hY; exact props.ob
  have hXsym : X.sym = a.sym := by subst hX; exact props.sa
  have hXch : X.charge = a.charge := by subst hX; exact props.ca
  have hYch : Y.charge = b.charge := by subst hY; exact props.cb
  rw [hXpar, hXodd, hYodd] at h
  cases hm : OddposP.mergeOddpos a.parity a.oddpos b.oddpos with
  | error e => rw [hm] at h; cases h
  | ok r =>
    obtain ⟨out, ph⟩ := r
    rw [hm] at h
    simp only [Except.map, Except.ok.injEq] at h
    subst h
    refine ⟨out, ph, rfl, rfl, ?_, ?_⟩
    · show (if (ph == -1) = true then (tensordotBlockwise X Y _ _ _ _).phaseGlobal
        else tensordotBlockwise X Y _ _ _ _).charge = _
      split
      · show X.sym.combine [X.charge, Y.charge] = _
        rw [hXsym, hXch, hYch]
      · show X.sym.combine [X.charge, Y.charge] = _
        rw [hXsym, hXch, hYch]
    · intro s oL oR hoL ho
      have hT := contract_transport a b X Y xa xb τA τB hsa hsb hnA hA hnB hB hlen
        (shapes_match hsa hsb hc hA hB) PX PY s oL oR hoL ho
      have hgc : ((storedPairs a b (freeAxes a.ndim xa) xa xb (freeAxes b.ndim xb) s).map (fun p =>
          sgnI (τA p.1 * τB p.2) (contractPair a b xa xb oL oR p))).sum
          = gradedContract a b xa xb s oL oR := by
        unfold gradedContract
        congr 1
        apply List.map_congr_left
        rintro ⟨sa, sb⟩ hp
        obtain ⟨h1, h2, h3, _⟩ := mem_storedPairs.mp hp
        rw [hsign sa h1 sb h2 h3]
      rw [hgc] at hT
      have hTok : Lazy.SignOk (tensordotBlockwise X Y
          (freeAxes X.ndim ((List.range a.ndim).drop (a.ndim - xa.length)))
          ((List.range a.ndim).drop (a.ndim - xa.length)) (List.range xa.length)
          (freeAxes Y.ndim (List.range xa.length))) := by
        refine ⟨?_, ?_⟩
        · rw [tensordotBlockwise_sectors_eq]; exact nodup_eraseDups _
        · show Lazy.PhOk X.phases
          rw [PX.phases]; exact Lazy.PhOk.nil
      show (if (ph == -1) = true then (tensordotBlockwise X Y _ _ _ _).phaseGlobal
        else tensordotBlockwise X Y _ _ _ _).elem s (oL ++ oR) = _
      by_cases hph : ph = -1
      · subst hph
        simp only [beq_self_eq_true, if_true]
        rw [Lazy.phaseGlobal_elem _ hTok, hT, Lazy.sgnI_neg_one]
      · have : (ph == -1) = false := by simpa using hph
        simp only [this, Bool.false_eq_true, if_false]
        rw [hT]
        unfold sgnI
        rw [if_neg hph]

end main

/-! ### corollary: the fermionic trace -/

section trace
variable {R : Type} [AddMonoid R] [Mul R] [Neg R] [SignRing R]
open Lazy (sgnI)

/-- the plain trace of the diagonal sector `s = (c, c)` in the value view -/
def diagTrace (a : Arr R) (s : Sector) : R :=
  ((List.range (min ((Arr.blockShapeD a.indices s).getD 0 0) ((Arr.blockShapeD a.indices s).getD 1 0))).map
    (fun i => a.elem s [i, i])).sum

/-- graded trace of a matrix: a bra-ket pair is evaluated as it stands, a ket-bra pair costs `-1`
    for an odd charge -/
def gradedTrace (a : Arr R) : R :=
  ((a.sectors.filter (fun s => s[0]? == s[1]?)).map (fun s =>
    sgnI (if !(a.indices.getD 0 default).dual && a.sym.parity (s.getD 0 (0, 0)) then -1 else 1)
      (diagTrace a s))).sum

/-- the abelian trace of an array without pending signs, in the value view -/
theorem traceA_elem (X : Arr R) (hn : X.ndim = 2) (hp : X.phases = [])
    (hd : allDistinct X.sectors = true) (hs : X.shapesOk) :
    traceA X = .ok (((X.sectors.filter (fun s => s[0]? == s[1]?)).map (diagTrace X)).sum) := by
  unfold traceA
  have : (X.ndim != 2) = false := by simp [hn]
  simp only [this, Bool.false_eq_true, if_false]
  congr 1
  have hfold : ∀ (l : List (Sector × Blk R)) (x : R),
      l.foldl (fun acc (p : Sector × Blk R) => acc + p.2.traceK) x = x + (l.map (fun p => p.2.traceK)).sum :=
    fun l x => TdotP.Blk.foldl_add_eq_sum (fun p : Sector × Blk R => p.2.traceK) l x
  have e : (X.blocks.filter (fun (p : Sector × Blk R) => p.1[0]? == p.1[1]?)).foldl
      (fun acc (p : Sector × Blk R) => acc + p.2.traceK) 0
      = ((X.sectors.filter (fun s => s[0]? == s[1]?)).map (diagTrace X)).sum := by
    rw [hfold, zero_add]
    unfold Arr.sectors
    rw [List.filter_map, List.map_map]
    congr 1
    apply List.map_congr_left
    intro p hp'
    have hmem : p ∈ X.blocks := (List.mem_filter.mp hp').1
    have hsh : Arr.blockShapeD X.indices p.1 = p.2.shape := by
      rw [Arr.blockShapeD, hs p hmem]; rfl
    simp only [Function.comp, diagTrace, hsh]
    unfold Blk.traceK
    rw [TdotP.Blk.foldl_add_eq_sum (fun i => p.2.get [i, i]), zero_add]
    congr 1
    apply List.map_congr_left
    intro i _
    exact (Arr.elem_of_mem hd hp hmem [i, i]).symm
  exact e

/-- **trace.**  For a valid fermionic matrix with one bra and one ket leg the model's
    `FermionicArray.trace` is the graded trace of the value view. -/
theorem traceF_graded (a : Arr R) (l r : Index) (ha : a.validB = true) (hfa : a.fermi = true)
    (hidx : a.indices = [l, r]) (hlr : l.dual = !r.dual) :
    a.traceF = .ok (gradedTrace a) := by
  have fa := Lazy.Full.of_valid ha hfa
  have hva := (ValidP.validB_iff a).mp ha
  have hn : a.ndim = 2 := by show a.indices.length = 2; rw [hidx]; rfl
  have hl0 : (a.indices.getD 0 default).dual = l.dual := by rw [hidx]; rfl
  unfold Arr.traceF
  rw [hidx]
  simp only []
  cases hl : l.dual
  · -- ket-bra: flip the odd charges on leg 0
    have hr : r.dual = true := by rw [hl] at hlr; revert hlr; cases r.dual <;> simp
    simp only [hr, Bool.not_false, Bool.and_self, Bool.not_true, Bool.false_eq_true, if_false,
      if_true]
    have hv : Lazy.Full (a.phaseFlip [0]) := fa.phaseFlip [0]
    have hvalid := ValidP.phaseSync_valid _ (ValidP.phaseFlip_valid a [0] hva hfa)
    rw [traceA_elem (a.phaseFlip [0]).phaseSync (by
        show (a.phaseFlip [0]).indices.length = 2
        rw [(ValidP.phaseFlip_fields a [0]).1]; exact hn) rfl
      (by rw [Lazy.phaseSync_sectors, allDistinct_iff_nodup]; exact hv.sign.sectors)
      (Arr.shapesOk_of_validB ((ValidP.validB_iff _).mpr hvalid))]
    congr 1
    unfold gradedTrace
    have hsec : (a.phaseFlip [0]).phaseSync.sectors = a.sectors := by
      rw [Lazy.phaseSync_sectors]; unfold Arr.sectors; rw [Lazy.phaseFlip_blocks]
    rw [hsec]
    congr 1
    apply List.map_congr_left
    intro s _
    unfold diagTrace
    have hi : (a.phaseFlip [0]).phaseSync.indices = a.indices := (ValidP.phaseFlip_fields a [0]).1
    rw [hi, ← sgnI_sum]
    congr 1
    apply List.map_congr_left
    intro i _
    rw [Lazy.phaseSync_elem, Lazy.phaseFlip_elem a [0] fa.sign, hl0, hl]
    congr 1
    unfold Lazy.flipSign Lazy.flipOdd
    have hg : s.getD 0 (0, 0) = s[0]?.getD (0, 0) := List.getD_eq_getElem?_getD ..
    rw [hg]
    cases hpar : a.sym.parity (s[0]?.getD (0, 0)) <;> simp [hpar]
  · -- bra-ket: as it stands
    have hr : r.dual = false := by rw [hl] at hlr; revert hlr; cases r.dual <;> simp
    simp only [hr, Bool.not_false, Bool.and_self, if_true]
    have hvalid := ValidP.phaseSync_valid _ hva
    rw [traceA_elem a.phaseSync hn rfl
      (by rw [Lazy.phaseSync_sectors, allDistinct_iff_nodup]; exact fa.sign.sectors)
      (Arr.shapesOk_of_validB ((ValidP.validB_iff _).mpr hvalid))]
    congr 1
    unfold gradedTrace
    rw [Lazy.phaseSync_sectors]
    congr 1
    apply List.map_congr_left
    intro s _
    unfold diagTrace
    have hi : a.phaseSync.indices = a.indices := rfl
    rw [hi, hl0, hl]
    simp only [Bool.not_true, Bool.false_and, Bool.false_eq_true, if_false, Lazy.sgnI_one]
    congr 1
    apply List.map_congr_left
    intro i _
    rw [Lazy.phaseSync_elem]

end trace

/-! ### corollary: the fermionic matrix product -/

section matmul
variable {R : Type} [AddMonoid R] [Mul R] [Neg R] [SignRing R]
open Lazy (sgnI)

/-- the label step: `resolve_combined_oddpos` multiplies every value by the label sign -/
theorem resolve_tail (a b X Y T c : Arr R) (hXpar : X.parity = a.parity)
    (hXodd : X.oddpos = a.oddpos) (hYodd : Y.oddpos = b.oddpos) (hT : Lazy.SignOk T)
    (h : resolveCombinedOddpos X Y T = .ok c) :
    ∃ out ph, OddposP.mergeOddpos a.parity a.oddpos b.oddpos = .ok (out, ph)
      ∧ c.oddpos = out ∧ c.charge = T.charge ∧ ∀ s o, c.elem s o = sgnI ph (T.elem s o) := by
  rw [OddposP.resolveCombinedOddpos_eq, hXpar, hXodd, hYodd] at h
  cases hm : OddposP.mergeOddpos a.parity a.oddpos b.oddpos with
  | error e => rw [hm] at h; cases h
  | ok r =>
    obtain ⟨out, ph⟩ := r
    rw [hm] at h
    simp only [Except.map, Except.ok.injEq] at h
    subst h
    refine ⟨out, ph, rfl, rfl, ?_, ?_⟩
    · show (if (ph == -1) = true then T.phaseGlobal else T).charge = _
      split <;> rfl
    · intro s o
      show (if (ph == -1) = true then T.phaseGlobal else T).elem s o = _
      by_cases hph : ph = -1
      · subst hph
        simp only [beq_self_eq_true, if_true]
        rw [Lazy.phaseGlobal_elem _ hT, Lazy.sgnI_neg_one]
      · have : (ph == -1) = false := by simpa using hph
        simp only [this, Bool.false_eq_true, if_false]
        unfold sgnI
        rw [if_neg hph]

/-- a twist of the operand itself (no transposition needed: the axes are already in canonical
    order), synchronised, is a prepared copy -/
theorem prepared_of_twist_id (a X : Arr R) (p : List Nat) (φ : Sector → Int)
    (hfull : Lazy.Full a) (hshape : a.shapesOk) (hid : p = List.range a.ndim)
    (hT : Twist a X φ) (hv : X.phaseSync.shapesOk) :
    Prepared a X.phaseSync p φ := by
  subst hid
  have hperm : ∀ s ∈ a.sectors, permuted s (List.range a.ndim) = s := by
    intro s hs
    have := ValidP.permuted_range s
    rwa [hfull.len s hs] at this
  have hsec : X.phaseSync.sectors = a.sectors.map (fun s => permuted s (List.range a.ndim)) := by
    rw [Lazy.phaseSync_sectors, hT.sectors]
    conv => lhs; rw [← List.map_id a.sectors]
    apply List.map_congr_left
    intro s hs
    exact (hperm s hs).symm
  refine ⟨rfl, hsec, ?_, ?_, hv, hT.pm, ?_⟩
  · show X.indices = _
    rw [hT.indices]
    exact (ValidP.permuted_range a.indices).symm
  · rw [Lazy.phaseSync_sectors, hT.sectors, allDistinct_iff_nodup]; exact hfull.sign.sectors
  · intro s hs off hoff
    obtain ⟨shp, _, h2, h3, _⟩ := shape_of_mem hshape hs
    have hoffl : off.length = a.ndim := by rw [inBox_length hoff, h2, h3]
    have hpo : permuted off (List.range a.ndim) = off := by
      have := ValidP.permuted_range off
      rwa [hoffl] at this
    rw [hperm s hs, hpo, Lazy.phaseSync_elem, hT.elem]

theorem oddContracted_le_one (a : Arr R) (x : Nat) (sa : Sector) :
    oddContracted a [x] sa * (oddContracted a [x] sa - 1) / 2 = 0 := by
  have h1 : oddContracted a [x] sa ≤ 1 := by
    unfold oddContracted
    calc ((permuted sa [x]).filter a.sym.parity).length ≤ (permuted sa [x]).length :=
          List.length_filter_le _ _
      _ ≤ [x].length := permuted_length_le _ _
      _ = 1 := rfl
  have : oddContracted a [x] sa = 0 ∨ oddContracted a [x] sa = 1 := by omega
  rcases this with h | h <;> rw [h]

/-- **matrix product.**  `a @ b` for valid fermionic operands of rank 1 or 2 whose last resp.
    first legs are contractible is the graded contraction of `a`'s last with `b`'s first axis,
    labels and label sign as for `tensordot`. -/
theorem matmulF_graded (a b c : Arr R)
    (ha : a.validB = true) (hb : b.validB = true) (hfa : a.fermi = true) (hfb : b.fermi = true)
    (hna : a.ndim = 1 ∨ a.ndim = 2) (hnb : b.ndim = 1 ∨ b.ndim = 2)
    (hadm : ValidP.tdotAdmissibleB a b [a.ndim - 1] [0] = true)
    (h : a.matmulF b = .ok c) :
    ∃ out ph, OddposP.mergeOddpos a.parity a.oddpos b.oddpos = .ok (out, ph)
      ∧ c.oddpos = out ∧ c.charge = a.sym.combine [a.charge, b.charge]
      ∧ ∀ s oL oR, oL.length = (freeAxes a.ndim [a.ndim - 1]).length →
          inBox (Arr.blockShapeD (without a.indices [a.ndim - 1] ++ without b.indices [0]) s)
            (oL ++ oR) = true →
          c.elem s (oL ++ oR) = sgnI ph (gradedContract a b [a.ndim - 1] [0] s oL oR) := by
  unfold ValidP.tdotAdmissibleB at hadm
  simp only [Bool.and_eq_true, decide_eq_true_eq, ValidP.allDistinct_iff, List.all_eq_true] at hadm
  obtain ⟨⟨⟨⟨⟨hsym, hc⟩, hnA⟩, hnB⟩, hA⟩, hB⟩ := hadm
  have hA' : ∀ i ∈ [a.ndim - 1], i < a.ndim := fun i hi => by simpa using hA i hi
  have hB' : ∀ i ∈ [0], i < b.ndim := fun i hi => by simpa using hB i hi
  have hlen : [a.ndim - 1].length = [0].length := rfl
  have fa := Lazy.Full.of_valid ha hfa
  have fb := Lazy.Full.of_valid hb hfb
  have hva := (ValidP.validB_iff a).mp ha
  have hvb := (ValidP.validB_iff b).mp hb
  have hsa := Arr.shapesOk_of_validB ha
  have hsb := Arr.shapesOk_of_validB hb
  -- concrete axis bookkeeping for ranks 1 and 2
  have hpA : freeAxes a.ndim [a.ndim - 1] ++ [a.ndim - 1] = List.range a.ndim := by
    rcases hna with e | e <;> rw [e] <;> decide
  have hpB : [0] ++ freeAxes b.ndim [0] = List.range b.ndim := by
    rcases hnb with e | e <;> rw [e] <;> decide
  have hmm : ∀ X Y : Arr R, X.ndim = a.ndim → Y.ndim = b.ndim →
      matmulA X Y = .ok (tensordotBlockwise X Y
        (freeAxes X.ndim ((List.range a.ndim).drop (a.ndim - [a.ndim - 1].length)))
        ((List.range a.ndim).drop (a.ndim - [a.ndim - 1].length)) (List.range [a.ndim - 1].length)
        (freeAxes Y.ndim (List.range [a.ndim - 1].length))) := by
    intro X Y hX hY
    unfold matmulA
    rw [hX, hY]
    rcases hna with e | e <;> rcases hnb with e' | e' <;> rw [e, e'] <;> rfl
  -- the first leg of `b`
  obtain ⟨ix, hix⟩ : ∃ ix, b.indices[0]? = some ix := by
    have : 0 < b.indices.length := by
      show 0 < b.ndim
      rcases hnb with e | e <;> omega
    exact ⟨b.indices[0], List.getElem?_eq_getElem this⟩
  have hix0 : b.indices.getD 0 default = ix := by
    rw [List.getD_eq_getElem?_getD, hix]; rfl
  have hix0' : b.indices[0]?.getD default = ix := by rw [hix]; rfl
  unfold Arr.matmulF at h
  have hguard : (a.ndim > 2 || b.ndim > 2) = false := by
    rcases hna with e | e <;> rcases hnb with e' | e' <;> rw [e, e'] <;> decide
  rw [hix] at h
  simp only [hguard, Bool.false_eq_true, if_false, bind, Except.bind, pure, Except.pure] at h
  -- the operands handed to the abelian kernel
  have TA : Twist a a (fun _ => 1) := Twist.refl fa.sign
  obtain ⟨b1, φB, hb1, TB, hvb1, hφ⟩ : ∃ (b1 : Arr R) (φB : Sector → Int),
      b1 = (if ix.dual = true then b.phaseFlip [0] else b) ∧ Twist b b1 φB ∧ ValidP.Valid b1
      ∧ ∀ sb, φB sb = Lazy.flipSign b.sym
          ((List.range 1).filter (fun ax => (b.indices.getD ax default).dual)) sb := by
    cases hd : ix.dual
    · refine ⟨b, fun _ => 1, by simp, Twist.refl fb.sign, hvb, ?_⟩
      intro sb
      have : (List.range 1).filter (fun ax => (b.indices.getD ax default).dual) = [] := by
        simp [List.range_succ, hix0', hd]
      rw [this]; rfl
    · refine ⟨b.phaseFlip [0], _, by simp, (Twist.refl fb.sign).phaseFlip [0],
        ValidP.phaseFlip_valid b [0] hvb hfb, ?_⟩
      intro sb
      have : (List.range 1).filter (fun ax => (b.indices.getD ax default).dual) = [0] := by
        simp [List.range_succ, hix0', hd]
      rw [this, Int.mul_one]
  rw [← hb1] at h
  have PX := prepared_of_twist_id a a _ _ fa hsa hpA TA
    (Arr.shapesOk_of_validB ((ValidP.validB_iff _).mpr (ValidP.phaseSync_valid _ hva)))
  have PY := prepared_of_twist_id b b1 _ _ fb hsb hpB TB
    (Arr.shapesOk_of_validB ((ValidP.validB_iff _).mpr (ValidP.phaseSync_valid _ hvb1)))
  have hXn : a.phaseSync.ndim = a.ndim := rfl
  have hYn : b1.phaseSync.ndim = b.ndim := by
    show b1.indices.length = _
    rw [TB.indices]; rfl
  rw [hmm a.phaseSync b1.phaseSync hXn hYn] at h
  simp only [] at h
  have hTok : Lazy.SignOk (tensordotBlockwise a.phaseSync b1.phaseSync
      (freeAxes a.phaseSync.ndim ((List.range a.ndim).drop (a.ndim - [a.ndim - 1].length)))
      ((List.range a.ndim).drop (a.ndim - [a.ndim - 1].length)) (List.range [a.ndim - 1].length)
      (freeAxes b1.phaseSync.ndim (List.range [a.ndim - 1].length))) := by
    refine ⟨?_, ?_⟩
    · rw [tensordotBlockwise_sectors_eq]; exact nodup_eraseDups _
    · exact Lazy.PhOk.nil
  have hb1o : b1.oddpos = b.oddpos ∧ b1.charge = b.charge := by
    rw [hb1]; split
    · exact ⟨(ValidP.phaseFlip_fields b [0]).2.2.2.1, (ValidP.phaseFlip_fields b [0]).2.2.1⟩
    · exact ⟨rfl, rfl⟩
  obtain ⟨out, ph, h1, h2, h3, h4⟩ := resolve_tail a b a.phaseSync b1.phaseSync _ c rfl rfl hb1o.1 hTok h
  refine ⟨out, ph, h1, h2, ?_, ?_⟩
  · rw [h3]
    show a.sym.combine [a.charge, b1.charge] = _
    rw [hb1o.2]
  · intro s oL oR hoL ho
    rw [h4]
    congr 1
    have hT := contract_transport a b a.phaseSync b1.phaseSync [a.ndim - 1] [0] (fun _ => 1) φB
      hsa hsb hnA hA' hnB hB' hlen (shapes_match hsa hsb hc hA' hB') PX PY s oL oR hoL ho
    rw [hT]
    unfold gradedContract
    congr 1
    apply List.map_congr_left
    rintro ⟨sa, sb⟩ hp
    obtain ⟨m1, m2, m3, _⟩ := mem_storedPairs.mp hp
    congr 1
    have hk := ket_sign_right a b [a.ndim - 1] [0] hsym hc hA' hnB hB' sa sb
      (Arr.sector_length hsa m1) (Arr.sector_length hsb m2) m3
    have hbi : permuted b.indices (List.range b.ndim) = b.indices := ValidP.permuted_range b.indices
    rw [hpB, hbi] at hk
    have hsbp : permuted sb (List.range b.ndim) = sb := by
      have := ValidP.permuted_range sb
      rwa [Arr.sector_length hsb m2] at this
    rw [hsbp] at hk
    show 1 * φB sb = _
    rw [hφ sb, Int.one_mul]
    have hk' : Lazy.flipSign b.sym ((List.range 1).filter (fun ax => (b.indices.getD ax default).dual)) sb
        = (-1 : Int) ^ ketOdd a [a.ndim - 1] sa := hk
    rw [hk']
    unfold gradedSign
    rw [hpA, hpB, KoszulP.koszul_id', KoszulP.koszul_id', oddContracted_le_one]
    simp

end matmul

end GradedP
end SymmModel
