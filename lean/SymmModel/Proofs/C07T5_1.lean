/-
  SymmModel.Proofs.C07T5_1 — kernel-checked planner table, shapes with 5 axes whose first
  axis has size 1 (one chunk per size of the second axis; ~1 800 shape/target pairs each,
  every pair forward and back).  `decide +kernel` only.
-/
import SymmModel.Model.ReshapePlan
namespace SymmModel.C07

theorem table_5_1_1 : chunkOk [1, 1] 3 = true := by decide +kernel
theorem table_5_1_2 : chunkOk [1, 2] 3 = true := by decide +kernel
theorem table_5_1_3 : chunkOk [1, 3] 3 = true := by decide +kernel
theorem table_5_1_4 : chunkOk [1, 4] 3 = true := by decide +kernel
theorem table_5_1_6 : chunkOk [1, 6] 3 = true := by decide +kernel

end SymmModel.C07
