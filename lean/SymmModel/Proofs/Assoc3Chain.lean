/-
  SymmModel.Proofs.Assoc3Chain — S7 of property C04 as an `Eqv` statement, the by-products of a
  call needed to iterate it (validity, labels, guards of the next call), and the four-tensor chain.
  Namespace `SymmModel.Assoc3P`.
-/
import SymmModel.Proofs.Assoc3Eqv

namespace SymmModel
namespace Assoc3P
open TdotP GradedP RoutesP KoszulP AssocP
open Lazy (sgnI)
set_option linter.unusedSectionVars false

variable {R : Type}

/-- `X.tensordotF Y` on the axis lists `xa`, `xb`, blockwise -/
abbrev tdF [Zero R] [Add R] [Mul R] [Neg R] (X Y : Arr R) (xa xb : List Nat) : Except Err (Arr R) :=
  X.tensordotF Y (.pair (xa.map Int.ofNat) (xb.map Int.ofNat)) .blockwise

section
variable [AddCommMonoid R] [Mul R] [Neg R] [SignRing R] [AssocLaws R]

theorem admW_toB {a b : Arr R} {xa xb : List Nat} (W : AdmW a b xa xb) :
    tdotAdmissibleCommonB a b xa xb = true := by
  unfold tdotAdmissibleCommonB
  simp only [Bool.and_eq_true, decide_eq_true_eq, ValidP.allDistinct_iff, List.all_eq_true]
  exact ⟨⟨⟨⟨⟨W.sym, W.con⟩, W.nA⟩, W.nB⟩, W.ltA⟩, W.ltB⟩

/-- **S7 (chains and triangles, weak guards) as an equivalence of the two results** -/
theorem assoc_eqv_w (A B C : Arr R) (xa1 xa3 xb1 xb2 xc2 xc3 : List Nat)
    (WAB : AdmW A B xa1 xb1) (WBC : AdmW B C xb2 xc2)
    (h3 : contractibleCommonB A C xa3 xc3 = true)
    (hnA : (xa1 ++ xa3).Nodup) (hnB : (xb1 ++ xb2).Nodup) (hnC : (xc2 ++ xc3).Nodup)
    (hltA : ∀ i ∈ xa3, i < A.ndim) (hltC : ∀ i ∈ xc3, i < C.ndim)
    (hL : Assoc2P.LabelRoutes A.parity B.parity A.oddpos B.oddpos C.oddpos) :
    ∃ AB BC c1 c2 : Arr R,
      A.tensordotF B (.pair (xa1.map Int.ofNat) (xb1.map Int.ofNat)) .blockwise = .ok AB
      ∧ AB.tensordotF C (.pair ((Assoc2P.axesAB A.ndim B.ndim xa1 xa3 xb1 xb2).map Int.ofNat)
          ((xc3 ++ xc2).map Int.ofNat)) .blockwise = .ok c1
      ∧ B.tensordotF C (.pair (xb2.map Int.ofNat) (xc2.map Int.ofNat)) .blockwise = .ok BC
      ∧ A.tensordotF BC (.pair ((xa1 ++ xa3).map Int.ofNat)
          ((Assoc2P.axesBC B.ndim C.ndim xb1 xb2 xc2 xc3).map Int.ofNat)) .blockwise = .ok c2
      ∧ Eqv c2 c1 := by
  obtain ⟨AB, BC, c1, c2, d1, d2, d3, d4, r1, r2, r3, r4, r5, r6, r7, r8, r9⟩ :=
    tdotF_assoc_w A B C xa1 xa3 xb1 xb2 xc2 xc3 WAB.va WAB.vb WBC.vb WAB.fa WAB.fb WBC.fb
      (admW_toB WAB) (admW_toB WBC) h3 hnA hnB hnC hltA hltC hL
  refine ⟨AB, BC, c1, c2, d1, d2, d3, d4, r3, r4, r2, r1, r7, r6, ?_⟩
  intro s o ho
  exact Assoc2P.elem_eq_of_sector A B C c1 c2 xa1 xa3 xb1 xb2 xc2 xc3
    (Arr.shapesOk_of_validB WAB.va) (Arr.shapesOk_of_validB WAB.vb) (Arr.shapesOk_of_validB WBC.vb)
    r8 r5 r6 r9 s o (fun hs => by rw [← r7]; exact ho ((r6 s).mpr hs))

/-- the chain case with the axis lists of C04c -/
theorem chain_eqv_w (A B C : Arr R) (xa xb1 xb2 xc : List Nat)
    (WAB : AdmW A B xa xb1) (WBC : AdmW B C xb2 xc) (hnB : (xb1 ++ xb2).Nodup)
    (hL : Assoc2P.LabelRoutes A.parity B.parity A.oddpos B.oddpos C.oddpos) :
    ∃ AB BC c1 c2 : Arr R,
      A.tensordotF B (.pair (xa.map Int.ofNat) (xb1.map Int.ofNat)) .blockwise = .ok AB
      ∧ AB.tensordotF C (.pair ((AssocP.axesAB A.ndim B.ndim xa xb1 xb2).map Int.ofNat)
          (xc.map Int.ofNat)) .blockwise = .ok c1
      ∧ B.tensordotF C (.pair (xb2.map Int.ofNat) (xc.map Int.ofNat)) .blockwise = .ok BC
      ∧ A.tensordotF BC (.pair (xa.map Int.ofNat)
          ((AssocP.axesBC B.ndim xb1 xb2).map Int.ofNat)) .blockwise = .ok c2
      ∧ Eqv c2 c1 := by
  have := assoc_eqv_w A B C xa [] xb1 xb2 xc [] WAB WBC
    (by unfold contractibleCommonB; rfl) (by rw [List.append_nil]; exact WAB.nA) hnB
    (by rw [List.append_nil]; exact WBC.nB) (by simp) (by simp) hL
  have e1 : Assoc2P.axesAB A.ndim B.ndim xa [] xb1 xb2 = AssocP.axesAB A.ndim B.ndim xa xb1 xb2 := rfl
  have e2 : Assoc2P.axesBC B.ndim C.ndim xb1 xb2 xc [] = AssocP.axesBC B.ndim xb1 xb2 := by
    unfold Assoc2P.axesBC AssocP.axesBC
    show _ ++ List.map _ (positions _ []) = _
    simp [positions]
  rw [e1, e2, List.append_nil, List.nil_append] at this
  exact this

/-! ### by-products of a call -/

/-- a call under the weak guard with distinct labels: it succeeds, the result is an `Inter`
    (valid, fermionic, known frame and value) and carries a permutation of the labels -/
theorem call_pack (X Y : Arr R) (xa xb : List Nat) (W : AdmW X Y xa xb)
    (hd : OddposP.LabelsDistinct (X.oddpos ++ Y.oddpos)) :
    ∃ Z ph, X.tensordotF Y (.pair (xa.map Int.ofNat) (xb.map Int.ofNat)) .blockwise = .ok Z
      ∧ Inter X Y xa xb Z ph ∧ Z.oddpos.Perm (X.oddpos ++ Y.oddpos) := by
  obtain ⟨out, p1, _, m1⟩ := OddposP.mergeOddpos_spec X.parity X.oddpos Y.oddpos hd
  obtain ⟨c, I, o⟩ := inter_of_call_w X Y xa xb W _ m1 (sgn_cases _)
  exact ⟨_, _, c, I, by rw [o]; exact p1⟩

/-- the guard of `(A·B, C)` for a chain -/
theorem admW_after_left {A B C AB : Arr R} {xa xb1 xb2 xc : List Nat} {ph : Int}
    (I : Inter A B xa xb1 AB ph) (WAB : AdmW A B xa xb1) (WBC : AdmW B C xb2 xc)
    (h : Mid B.ndim xb1 xb2) : AdmW AB C (AssocP.axesAB A.ndim B.ndim xa xb1 xb2) xc := by
  refine ⟨I.valid, WBC.vb, I.fermi, WBC.fb, by rw [I.sym, WAB.sym, WBC.sym], conL_w I WBC.con h,
    AssocP.axesAB_nodup h, WBC.nB, ?_, WBC.ltB⟩
  rw [I.ndim]; exact AssocP.axesAB_lt h

/-- the guard of `(A, B·C)` for a chain -/
theorem admW_after_right {A B C BC : Arr R} {xa xb1 xb2 xc : List Nat} {ph : Int}
    (I : Inter B C xb2 xc BC ph) (WAB : AdmW A B xa xb1)
    (h : Mid B.ndim xb1 xb2) : AdmW A BC xa (AssocP.axesBC B.ndim xb1 xb2) := by
  refine ⟨WAB.va, I.valid, WAB.fa, I.fermi, by rw [I.sym]; exact WAB.sym, conR_w I WAB.con h,
    WAB.nA, h.symm.pos_nodup, WAB.ltA, ?_⟩
  intro i hi
  rw [I.ndim]
  have := h.symm.pos_lt i hi
  omega

theorem dist_of {L M : List (Int × Bool)} (hL : OddposP.LabelsDistinct L)
    (l : List (Int × Bool)) (hp : l.Perm M) (hs : l.Sublist L) : OddposP.LabelsDistinct M :=
  OddposP.LabelsDistinct.perm (List.Pairwise.sublist hs hL) hp

/-! ### four tensors in a chain -/

/-- **A·B·C·D: all five bracketings agree.** -/
theorem chain4 (A B C D : Arr R) (xa xb1 xb2 xc1 xc2 xd : List Nat)
    (WAB : AdmW A B xa xb1) (WBC : AdmW B C xb2 xc1) (WCD : AdmW C D xc2 xd)
    (hnB : (xb1 ++ xb2).Nodup) (hnC : (xc1 ++ xc2).Nodup)
    (hd : OddposP.LabelsDistinct (A.oddpos ++ B.oddpos ++ C.oddpos ++ D.oddpos)) :
    ∃ AB BC CD ABC1 ABC2 BCD1 BCD2 T1 T2 T3 T4 T5 : Arr R,
      tdF A B xa xb1 = .ok AB ∧ tdF B C xb2 xc1 = .ok BC ∧ tdF C D xc2 xd = .ok CD
      ∧ tdF AB C (AssocP.axesAB A.ndim B.ndim xa xb1 xb2) xc1 = .ok ABC1
      ∧ tdF A BC xa (AssocP.axesBC B.ndim xb1 xb2) = .ok ABC2
      ∧ tdF BC D (AssocP.axesAB B.ndim C.ndim xb2 xc1 xc2) xd = .ok BCD1
      ∧ tdF B CD xb2 (AssocP.axesBC C.ndim xc1 xc2) = .ok BCD2
      ∧ tdF ABC1 D (AssocP.axesAB AB.ndim C.ndim (AssocP.axesAB A.ndim B.ndim xa xb1 xb2) xc1 xc2) xd
          = .ok T1
      ∧ tdF ABC2 D (AssocP.axesAB AB.ndim C.ndim (AssocP.axesAB A.ndim B.ndim xa xb1 xb2) xc1 xc2) xd
          = .ok T2
      ∧ tdF AB CD (AssocP.axesAB A.ndim B.ndim xa xb1 xb2) (AssocP.axesBC C.ndim xc1 xc2) = .ok T3
      ∧ tdF A BCD1 xa (AssocP.axesBC B.ndim xb1 xb2) = .ok T4
      ∧ tdF A BCD2 xa (AssocP.axesBC B.ndim xb1 xb2) = .ok T5
      ∧ Eqv T2 T1 ∧ Eqv T3 T1 ∧ Eqv T4 T1 ∧ Eqv T5 T1 ∧ T1.validB = true := by
  have midB : Mid B.ndim xb1 xb2 := Mid.of hnB (by
    intro i hi
    rcases List.mem_append.mp hi with h | h
    · exact WAB.ltB i h
    · exact WBC.ltA i h)
  have midC : Mid C.ndim xc1 xc2 := Mid.of hnC (by
    intro i hi
    rcases List.mem_append.mp hi with h | h
    · exact WBC.ltB i h
    · exact WCD.ltA i h)
  -- label bookkeeping
  have e1 : A.oddpos ++ B.oddpos ++ C.oddpos ++ D.oddpos
      = A.oddpos ++ (B.oddpos ++ C.oddpos ++ D.oddpos) := by simp [List.append_assoc]
  have e2 : A.oddpos ++ B.oddpos ++ C.oddpos ++ D.oddpos
      = A.oddpos ++ B.oddpos ++ (C.oddpos ++ D.oddpos) := by simp [List.append_assoc]
  have s_abc : (A.oddpos ++ B.oddpos ++ C.oddpos).Sublist
      (A.oddpos ++ B.oddpos ++ C.oddpos ++ D.oddpos) := List.sublist_append_left _ _
  have s_bcd : (B.oddpos ++ C.oddpos ++ D.oddpos).Sublist
      (A.oddpos ++ B.oddpos ++ C.oddpos ++ D.oddpos) := by rw [e1]; exact List.sublist_append_right _ _
  have h_ab : OddposP.LabelsDistinct (A.oddpos ++ B.oddpos) :=
    dist_of hd _ (List.Perm.refl _) ((List.sublist_append_left _ _).trans s_abc)
  have h_bc : OddposP.LabelsDistinct (B.oddpos ++ C.oddpos) :=
    dist_of hd _ (List.Perm.refl _) ((List.sublist_append_left _ _).trans s_bcd)
  have h_cd : OddposP.LabelsDistinct (C.oddpos ++ D.oddpos) :=
    dist_of hd _ (List.Perm.refl _) (by rw [e2]; exact List.sublist_append_right _ _)
  have h_abc : OddposP.LabelsDistinct (A.oddpos ++ B.oddpos ++ C.oddpos) :=
    dist_of hd _ (List.Perm.refl _) s_abc
  have h_bcd : OddposP.LabelsDistinct (B.oddpos ++ C.oddpos ++ D.oddpos) :=
    dist_of hd _ (List.Perm.refl _) s_bcd
  -- first-level calls
  obtain ⟨AB, phAB, eAB, IAB, pAB⟩ := call_pack A B xa xb1 WAB h_ab
  obtain ⟨BC, phBC, eBC, IBC, pBC⟩ := call_pack B C xb2 xc1 WBC h_bc
  obtain ⟨CD, phCD, eCD, ICD, pCD⟩ := call_pack C D xc2 xd WCD h_cd
  have WABc := admW_after_left IAB WAB WBC midB
  have WaBC := admW_after_right IBC WAB midB
  have WBCd := admW_after_left IBC WBC WCD midC
  have WbCD := admW_after_right ICD WBC midC
  have h_ABc : OddposP.LabelsDistinct (AB.oddpos ++ C.oddpos) :=
    dist_of hd _ (pAB.symm.append_right _) s_abc
  have h_aBC : OddposP.LabelsDistinct (A.oddpos ++ BC.oddpos) :=
    dist_of hd (A.oddpos ++ (B.oddpos ++ C.oddpos)) (pBC.symm.append_left _)
      (by rw [← List.append_assoc]; exact s_abc)
  have h_BCd : OddposP.LabelsDistinct (BC.oddpos ++ D.oddpos) :=
    dist_of hd _ (pBC.symm.append_right _) s_bcd
  have h_bCD : OddposP.LabelsDistinct (B.oddpos ++ CD.oddpos) :=
    dist_of hd (B.oddpos ++ (C.oddpos ++ D.oddpos)) (pCD.symm.append_left _)
      (by rw [← List.append_assoc]; exact s_bcd)
  have h_ABcd : OddposP.LabelsDistinct (AB.oddpos ++ C.oddpos ++ D.oddpos) :=
    dist_of hd _ ((pAB.symm.append_right _).append_right _) (List.Sublist.refl _)
  have h_abCD : OddposP.LabelsDistinct (A.oddpos ++ B.oddpos ++ CD.oddpos) :=
    dist_of hd (A.oddpos ++ B.oddpos ++ (C.oddpos ++ D.oddpos)) (pCD.symm.append_left _)
      (by rw [← e2])
  -- second-level calls
  obtain ⟨ABC1, _, eABC1, IABC1, pABC1⟩ := call_pack AB C _ _ WABc h_ABc
  obtain ⟨ABC2, _, eABC2, IABC2, _⟩ := call_pack A BC _ _ WaBC h_aBC
  obtain ⟨BCD1, _, eBCD1, IBCD1, _⟩ := call_pack BC D _ _ WBCd h_BCd
  obtain ⟨BCD2, _, eBCD2, IBCD2, _⟩ := call_pack B CD _ _ WbCD h_bCD
  -- S7 for (A, B, C)
  obtain ⟨AB', BC', c1, c2, d1, d2, d3, d4, hABC⟩ := chain_eqv_w A B C xa xb1 xb2 xc1 WAB WBC hnB
    (Assoc2P.labelRoutes_of_distinct _ _ _ _ _ h_abc)
  rw [eAB] at d1
  obtain rfl := Except.ok.inj d1
  rw [eBC] at d3
  obtain rfl := Except.ok.inj d3
  rw [eABC1] at d2
  obtain rfl := Except.ok.inj d2
  rw [eABC2] at d4
  obtain rfl := Except.ok.inj d4
  -- S7 for (B, C, D)
  obtain ⟨BC', CD', c1, c2, d1, d2, d3, d4, hBCD⟩ := chain_eqv_w B C D xb2 xc1 xc2 xd WBC WCD hnC
    (Assoc2P.labelRoutes_of_distinct _ _ _ _ _ h_bcd)
  rw [eBC] at d1
  obtain rfl := Except.ok.inj d1
  rw [eCD] at d3
  obtain rfl := Except.ok.inj d3
  rw [eBCD1] at d2
  obtain rfl := Except.ok.inj d2
  rw [eBCD2] at d4
  obtain rfl := Except.ok.inj d4
  -- S7 for (A·B, C, D)
  obtain ⟨X1, CD', T1, T3, d1, eT1, d3, eT3, h31⟩ := chain_eqv_w AB C D _ xc1 xc2 xd WABc WCD hnC
    (Assoc2P.labelRoutes_of_distinct _ _ _ _ _ h_ABcd)
  rw [eABC1] at d1
  obtain rfl := Except.ok.inj d1
  rw [eCD] at d3
  obtain rfl := Except.ok.inj d3
  -- S7 for (A, B, C·D)
  obtain ⟨AB', X2, T3', T5, d1, d2, d3, eT5, h53⟩ := chain_eqv_w A B CD xa xb1 xb2 _ WAB WbCD hnB
    (Assoc2P.labelRoutes_of_distinct _ _ _ _ _ h_abCD)
  rw [eAB] at d1
  obtain rfl := Except.ok.inj d1
  rw [eBCD2] at d3
  obtain rfl := Except.ok.inj d3
  rw [eT3] at d2
  obtain rfl := Except.ok.inj d2
  -- the two remaining bracketings by congruence
  have WT1 := admW_after_left IABC1 WABc WCD midC
  obtain ⟨T2, eT2, h12⟩ := tdotF_congr WT1 hABC.symm (Eqv.refl D) IABC2.valid WCD.vb T1 eT1
  have WT5 := admW_after_right IBCD2 WAB midB
  obtain ⟨T4, eT4, h54⟩ := tdotF_congr WT5 (Eqv.refl A) hBCD WAB.va IBCD1.valid T5 eT5
  -- validity of the result
  have h_ABC1d : OddposP.LabelsDistinct (ABC1.oddpos ++ D.oddpos) :=
    dist_of hd _ (((pAB.symm.append_right _).trans pABC1.symm).append_right _) (List.Sublist.refl _)
  obtain ⟨T1', _, eT1', IT1, _⟩ := call_pack ABC1 D _ _ WT1 h_ABC1d
  have eT1'' := eT1
  unfold tdF at *
  rw [eT1'] at eT1''
  obtain rfl := Except.ok.inj eT1''
  exact ⟨AB, BC, CD, ABC1, ABC2, BCD1, BCD2, T1', T2, T3, T4, T5, eAB, eBC, eCD, eABC1, eABC2, eBCD1,
    eBCD2, eT1, eT2, eT3, eT4, eT5, h12.symm, h31, h54.symm.trans (h53.trans h31), h53.trans h31,
    IT1.valid⟩

end

end Assoc3P
end SymmModel
