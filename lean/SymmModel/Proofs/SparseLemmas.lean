/-
  SymmModel.Proofs.SparseLemmas — helper lemmas for Props/C08g.lean (sparsity management:
  `Arr.fillMissing`, `Arr.dropMissing`, `Arr.allclose`, `Arr.setParams` of Model/Sparse.lean).
  Nothing here changes a model definition.  Everything lives in `namespace SymmModel.SparseP`.
-/
import SymmModel.Model.Sparse
import SymmModel.Proofs.LazyLemmas
import SymmModel.Proofs.DenseLemmas

namespace SymmModel.SparseP
open SymmModel Arr
set_option linter.unusedSectionVars false
set_option linter.unusedSimpArgs false

/-! ## association lists -/

section alist
variable {κ β : Type} [BEq κ] [LawfulBEq κ]

/-- `d[k] = v` where `d[k]` already is `v` changes nothing -/
theorem ainsert_same {l : List (κ × β)} {k : κ} {v : β} (h : alookup l k = some v) :
    ainsert l k v = l := by
  induction l with
  | nil => simp [alookup] at h
  | cons p l ih =>
    obtain ⟨k1, v1⟩ := p
    rw [Lazy.alookup_cons] at h
    rw [Lazy.ainsert_cons]
    by_cases e : (k1 == k) = true
    · simp only [e, if_true, Option.some.injEq] at h ⊢
      rw [h]
    · simp only [e, if_false, Bool.false_eq_true] at h ⊢
      rw [ih h]

/-- filtering by a predicate on the entries, keys distinct -/
theorem alookup_filter_val {l : List (κ × β)} (hnd : (l.map (·.1)).Nodup) (P : κ × β → Bool) (k : κ) :
    alookup (l.filter P) k = (alookup l k).bind (fun v => if P (k, v) then some v else none) := by
  induction l with
  | nil => simp [alookup]
  | cons p l ih =>
    obtain ⟨k1, v1⟩ := p
    simp only [List.map_cons, List.nodup_cons] at hnd
    by_cases e : k1 = k
    · subst e
      have hnone : alookup l k1 = none := alookup_eq_none_iff.mpr hnd.1
      by_cases hp : P (k1, v1) = true
      · simp [List.filter_cons, hp]
      · have hp' : P (k1, v1) = false := by simpa using hp
        simp only [List.filter_cons, hp', Bool.false_eq_true, if_false, alookup_cons_self,
          Option.bind_some]
        rw [ih hnd.2, hnone]; rfl
    · by_cases hp : P (k1, v1) = true
      · simp only [List.filter_cons, hp, if_true, alookup_cons_ne e]
        exact ih hnd.2
      · have hp' : P (k1, v1) = false := by simpa using hp
        simp only [List.filter_cons, hp', Bool.false_eq_true, if_false, alookup_cons_ne e]
        exact ih hnd.2

theorem keys_filter_sublist (l : List (κ × β)) (P : κ × β → Bool) :
    ((l.filter P).map (·.1)).Sublist (l.map (·.1)) :=
  (List.filter_sublist (l := l)).map _

theorem nodup_keys_filter {l : List (κ × β)} (hnd : (l.map (·.1)).Nodup) (P : κ × β → Bool) :
    ((l.filter P).map (·.1)).Nodup :=
  (keys_filter_sublist l P).nodup hnd

theorem allDistinct_of_nodup {α : Type} [BEq α] [LawfulBEq α] {l : List α} (h : l.Nodup) :
    allDistinct l = true := by
  induction l with
  | nil => rfl
  | cons a l ih =>
    rw [List.nodup_cons] at h
    simp only [allDistinct, Bool.and_eq_true, Bool.not_eq_true', List.contains_eq_mem,
      decide_eq_false_iff_not]
    exact ⟨h.1, ih h.2⟩

end alist

/-! ## blocks -/

section blk
variable {R : Type} [Zero R]

theorem isZero_zeros [BEq R] [LawfulBEq R] (s : List Nat) : (Blk.zeros s : Blk R).isZero = true := by
  simp only [Blk.isZero, Blk.zeros, Blk.ofFn, Array.all_eq_true]
  intro i hi
  simp

theorem shape_zeros (s : List Nat) : (Blk.zeros s : Blk R).shape = s := rfl

theorem wf_zeros (s : List Nat) : (Blk.zeros s : Blk R).wf = true := Blk.wf_ofFn s _

theorem get_zeros (s i : List Nat) : (Blk.zeros s : Blk R).get i = 0 := by
  simp only [Blk.get, Blk.zeros, Blk.ofFn]
  rw [Array.getD_eq_getD_getElem?]
  cases h : (List.map (fun _ => (0 : R)) (allIdx s)).toArray[ravel s i]? with
  | none => rfl
  | some v =>
    simp only [List.getElem?_toArray, List.getElem?_map, Option.map_eq_some_iff] at h
    obtain ⟨_, _, rfl⟩ := h
    rfl

/-- every entry of an all-zero block is zero (also the default returned outside the data) -/
theorem get_of_isZero [BEq R] [LawfulBEq R] {b : Blk R} (h : b.isZero = true) (i : List Nat) :
    b.get i = 0 := by
  simp only [Blk.isZero, Array.all_eq_true] at h
  simp only [Blk.get]
  rw [Array.getD_eq_getD_getElem?]
  cases hv : b.data[ravel b.shape i]? with
  | none => rfl
  | some v =>
    obtain ⟨hlt, rfl⟩ := Array.getElem?_eq_some_iff.mp hv
    simpa using h _ hlt

/-- a well-formed block all of whose entries are zero is all-zero -/
theorem isZero_of_get [BEq R] [LawfulBEq R] {b : Blk R} (hw : b.wf = true)
    (h : ∀ i, inBox b.shape i = true → b.get i = 0) : b.isZero = true := by
  simp only [Blk.isZero, Array.all_eq_true]
  intro i hi
  simp only [Blk.wf, beq_iff_eq] at hw
  have hlt : i < prod b.shape := hw ▸ hi
  have := h (unravel b.shape i) (Lazy.unravel_inBox b.shape i hlt)
  simp only [Blk.get, Lazy.ravel_unravel b.shape i hlt] at this
  have h2 : b.data.getD i 0 = b.data[i] := by simp [Array.getD, hi]
  rw [h2] at this
  simp [this]

theorem blkClose_iff [BEq R] [LawfulBEq R] (x y : Blk R) : blkClose x y = true ↔ x = y := by
  obtain ⟨s, d⟩ := x
  obtain ⟨s', d'⟩ := y
  simp [blkClose]

end blk

/-! ## `fill_missing_blocks` -/

section fill
variable {R : Type} [Zero R]

theorem bind_ok {ε α β : Type} (x : α) (f : α → Except ε β) : (Except.ok x >>= f) = f x := rfl

theorem fillStep_present {idx : List Index} {bl : List (Sector × Blk R)} {s : Sector}
    (h : (alookup bl s).isSome = true) : fillStep idx bl s = .ok bl := by
  simp [fillStep, h]

theorem fillStep_absent {idx : List Index} {bl : List (Sector × Blk R)} {s : Sector} {shp : List Nat}
    (h : alookup bl s = none) (hs : blockShape? idx s = some shp) :
    fillStep idx bl s = .ok (bl ++ [(s, Blk.zeros shp)]) := by
  have hn : s ∉ bl.map (·.1) := alookup_eq_none_iff.mp h
  simp [fillStep, h, hs, ainsert_of_not_mem _ _ _ hn]

/-- the zero blocks appended for the sectors of `L` that are not among `keys`, in the order of `L` -/
def newBlocks (idx : List Index) (keys : List Sector) (L : List Sector) : List (Sector × Blk R) :=
  (L.filter (fun s => !keys.contains s)).map (fun s => (s, Blk.zeros ((blockShape? idx s).getD [])))

theorem newBlocks_zero {idx : List Index} {keys L : List Sector} {p : Sector × Blk R}
    (h : p ∈ newBlocks idx keys L) :
    p.1 ∈ L ∧ p.1 ∉ keys ∧ p.2 = Blk.zeros ((blockShape? idx p.1).getD []) := by
  simp only [newBlocks, List.mem_map, List.mem_filter, Bool.not_eq_true', List.contains_eq_mem,
    decide_eq_false_iff_not] at h
  obtain ⟨s, ⟨h1, h2⟩, rfl⟩ := h
  exact ⟨h1, h2, rfl⟩

theorem newBlocks_keys (idx : List Index) (keys L : List Sector) :
    (newBlocks (R := R) idx keys L).map (·.1) = L.filter (fun s => !keys.contains s) := by
  simp [newBlocks, List.map_map, Function.comp_def]

theorem newBlocks_cons_mem {idx : List Index} {keys : List Sector} {s : Sector} (L : List Sector)
    (h : s ∈ keys) : newBlocks (R := R) idx keys (s :: L) = newBlocks idx keys L := by
  unfold newBlocks
  rw [List.filter_cons_of_neg (by simpa using h)]

theorem newBlocks_cons_not_mem {idx : List Index} {keys : List Sector} {s : Sector} (L : List Sector)
    {shp : List Nat} (h : s ∉ keys) (hs : blockShape? idx s = some shp) :
    newBlocks (R := R) idx keys (s :: L) = (s, Blk.zeros shp) :: newBlocks idx keys L := by
  unfold newBlocks
  rw [List.filter_cons_of_pos (by simpa using h), List.map_cons, hs]; rfl

theorem newBlocks_snoc_key {idx : List Index} {keys : List Sector} {s : Sector} {L : List Sector}
    (h : s ∉ L) : newBlocks (R := R) idx (keys ++ [s]) L = newBlocks idx keys L := by
  unfold newBlocks
  congr 1
  apply List.filter_congr
  intro t ht
  have hts : t ≠ s := fun e => h (e ▸ ht)
  simp [hts]

/-- the loop of `fill_missing_blocks`: stored blocks first (untouched), then a zero block for every
    listed sector that was absent, in the order of the list -/
theorem fill_fold (idx : List Index) : ∀ (L : List Sector) (bl : List (Sector × Blk R)), L.Nodup →
    (∀ s ∈ L, (blockShape? idx s).isSome = true) →
    L.foldlM (fillStep idx) bl = .ok (bl ++ newBlocks idx (bl.map (·.1)) L) := by
  intro L
  induction L with
  | nil => intro bl _ _; simp [newBlocks]; rfl
  | cons s L ih =>
    intro bl hnd hsh
    rw [List.nodup_cons] at hnd
    rw [List.foldlM_cons]
    by_cases hm : s ∈ bl.map (·.1)
    · rw [fillStep_present (alookup_isSome_iff.mpr hm), bind_ok,
        ih bl hnd.2 (fun t ht => hsh t (List.mem_cons_of_mem _ ht)), newBlocks_cons_mem L hm]
    · obtain ⟨shp, hshp⟩ := Option.isSome_iff_exists.mp (hsh s List.mem_cons_self)
      rw [fillStep_absent (alookup_eq_none_iff.mpr hm) hshp, bind_ok,
        ih _ hnd.2 (fun t ht => hsh t (List.mem_cons_of_mem _ ht)),
        newBlocks_cons_not_mem L hm hshp]
      have : List.map (fun (x : Sector × Blk R) => x.1) (bl ++ [(s, Blk.zeros shp)])
          = bl.map (·.1) ++ [s] := by simp
      rw [this, newBlocks_snoc_key hnd.1]
      simp

/-- unconditional invariant of the loop: a lookup either is unchanged or was absent and is a zero
    block now -/
theorem fill_fold_lookup (idx : List Index) : ∀ (L : List Sector) (bl bl' : List (Sector × Blk R)),
    L.foldlM (fillStep idx) bl = .ok bl' →
    ∀ s, alookup bl' s = alookup bl s
      ∨ (alookup bl s = none ∧ ∃ shp, alookup bl' s = some (Blk.zeros shp)) := by
  intro L
  induction L with
  | nil =>
    intro bl bl' h s
    have : bl = bl' := by simpa [pure, Except.pure] using h
    subst this; exact Or.inl rfl
  | cons t L ih =>
    intro bl bl' h s
    rw [List.foldlM_cons] at h
    unfold fillStep at h
    split at h
    next hp => rw [bind_ok] at h; exact ih bl bl' h s
    next hp =>
      split at h
      next => cases h
      next shp hshp =>
        rw [bind_ok] at h
        have hnone : alookup bl t = none := by
          cases hx : alookup bl t with
          | none => rfl
          | some v => simp [hx] at hp
        rcases ih _ bl' h s with h1 | ⟨h1, shp', h2⟩
        · rw [Lazy.alookup_ainsert] at h1
          by_cases e : t = s
          · subst e
            simp only [beq_self_eq_true, if_true] at h1
            exact Or.inr ⟨hnone, shp, h1⟩
          · have : (t == s) = false := by simpa using e
            simp only [this, Bool.false_eq_true, if_false] at h1
            exact Or.inl h1
        · rw [Lazy.alookup_ainsert] at h1
          by_cases e : t = s
          · subst e; simp at h1
          · have : (t == s) = false := by simpa using e
            simp only [this, Bool.false_eq_true, if_false] at h1
            exact Or.inr ⟨h1, shp', h2⟩

/-- after the loop every listed sector is stored, and stored sectors stay stored -/
theorem fill_fold_present (idx : List Index) : ∀ (L : List Sector) (bl bl' : List (Sector × Blk R)),
    L.foldlM (fillStep idx) bl = .ok bl' →
    (∀ s ∈ L, (alookup bl' s).isSome = true)
      ∧ (∀ s, (alookup bl s).isSome = true → (alookup bl' s).isSome = true) := by
  intro L bl bl' h
  have hmono : ∀ s, (alookup bl s).isSome = true → (alookup bl' s).isSome = true := by
    intro s hs
    rcases fill_fold_lookup idx L bl bl' h s with h1 | ⟨h1, _⟩
    · rw [h1]; exact hs
    · rw [h1] at hs; cases hs
  refine ⟨?_, hmono⟩
  clear hmono
  induction L generalizing bl with
  | nil => intro s hs; cases hs
  | cons t L ih =>
    rw [List.foldlM_cons] at h
    cases hstep : fillStep idx bl t with
    | error e => rw [hstep] at h; cases h
    | ok bl1 =>
      rw [hstep, bind_ok] at h
      intro s hs
      rcases List.mem_cons.mp hs with rfl | hs
      · have h1 : (alookup bl1 s).isSome = true := by
          unfold fillStep at hstep
          split at hstep
          next hp => cases hstep; exact hp
          next hp =>
            split at hstep
            next => cases hstep
            next shp _ => cases hstep; rw [Lazy.alookup_ainsert]; simp
        rcases fill_fold_lookup idx L bl1 bl' h s with h2 | ⟨h2, _⟩
        · rw [h2]; exact h1
        · rw [h2] at h1; cases h1
      · exact ih bl1 h s hs

/-- when every listed sector is stored the loop does nothing -/
theorem fill_fold_noop (idx : List Index) : ∀ (L : List Sector) (bl : List (Sector × Blk R)),
    (∀ s ∈ L, (alookup bl s).isSome = true) → L.foldlM (fillStep idx) bl = .ok bl := by
  intro L
  induction L with
  | nil => intro bl _; rfl
  | cons t L ih =>
    intro bl h
    rw [List.foldlM_cons, fillStep_present (h t List.mem_cons_self), bind_ok]
    exact ih bl (fun s hs => h s (List.mem_cons_of_mem _ hs))

theorem fillMissing_ok_iff {a a' : Arr R} :
    a.fillMissing = .ok a' ↔
      ∃ bl, a.genValidSectors.foldlM (fillStep a.indices) a.blocks = .ok bl
        ∧ a' = { a with blocks := bl } := by
  unfold fillMissing
  cases h : a.genValidSectors.foldlM (fillStep a.indices) a.blocks with
  | error e => simp [Except.map]
  | ok bl =>
    simp only [Except.map, Except.ok.injEq]
    constructor
    · intro h'; exact ⟨bl, rfl, h'.symm⟩
    · rintro ⟨bl', h1, h2⟩; cases h1; exact h2.symm

end fill

/-! ## shapes of enumerated sectors -/

section shapes

theorem blockShape?_isSome_of_forall₂ {idx : List Index} {s : Sector}
    (h : List.Forall₂ (fun c (ix : Index) => c ∈ ix.charges) s idx) :
    (blockShape? idx s).isSome = true := by
  induction h with
  | nil => rfl
  | @cons c ix s idx hc _ ih =>
    rw [blockShape?_cons]
    have h1 : (ix.sizeOf? c).isSome = true := by
      unfold Index.sizeOf?
      exact alookup_isSome_iff.mpr hc
    obtain ⟨d, hd⟩ := Option.isSome_iff_exists.mp h1
    obtain ⟨shp, hshp⟩ := Option.isSome_iff_exists.mp ih
    simp [hd, hshp]

theorem forall₂_of_blockShape? {idx : List Index} {s : Sector} {shp : List Nat}
    (h : blockShape? idx s = some shp) :
    List.Forall₂ (fun c (ix : Index) => c ∈ ix.charges) s idx := by
  induction idx generalizing s shp with
  | nil =>
    cases s with
    | nil => exact List.Forall₂.nil
    | cons c s => simp [blockShape?] at h
  | cons ix idx ih =>
    cases s with
    | nil => simp [blockShape?] at h
    | cons c s =>
      rw [blockShape?_cons] at h
      cases hd : ix.sizeOf? c with
      | none => simp [hd] at h
      | some d =>
        cases hr : blockShape? idx s with
        | none => simp [hd, hr] at h
        | some shp' =>
          refine List.Forall₂.cons ?_ (ih hr)
          have : (alookup ix.cm c).isSome = true := by
            unfold Index.sizeOf? at hd; rw [hd]; rfl
          exact alookup_isSome_iff.mp this

end shapes

/-! ## the clauses of `Arr.validB` used here -/

section good
variable {R : Type}

/-- index tables with distinct valid charges, a valid total charge, distinct stored sectors, every
    stored sector of full length, charge-conserving, with a well-formed block of the prescribed shape -/
structure Good (a : Arr R) : Prop where
  keys : ∀ ix ∈ a.indices, (ix.cm.map (·.1)).Nodup
  cvalid : ∀ ix ∈ a.indices, ∀ c ∈ ix.charges, a.sym.valid c = true
  chvalid : a.sym.valid a.charge = true
  nodup : a.sectors.Nodup
  stored : ∀ p ∈ a.blocks, p.1.length = a.ndim ∧ a.isValidSector p.1 = true
    ∧ blockShape? a.indices p.1 = some p.2.shape ∧ p.2.wf = true

theorem cvalid_of_wfB {sym : Sym} {ix : Index} (h : Index.wfB sym ix = true) :
    ∀ c ∈ ix.charges, sym.valid c = true := by
  cases ix with
  | mk cm dual sub =>
    unfold Index.wfB at h
    rw [Bool.and_eq_true, Bool.and_eq_true, List.all_eq_true] at h
    intro c hc
    simp only [Index.charges, Index.cm, List.mem_map] at hc
    obtain ⟨cd, hcd, rfl⟩ := hc
    have := h.1.2 cd hcd
    simp only [Bool.and_eq_true, decide_eq_true_eq] at this
    exact this.2

theorem Good.of_valid {a : Arr R} (h : a.validB = true) : Good a := by
  obtain ⟨h1, h2, _, _, _, _⟩ := validB_facts a h
  have hw : Index.wfListB a.sym a.indices = true ∧ a.sym.valid a.charge = true := by
    simp only [Arr.validB, Bool.and_eq_true] at h
    exact ⟨h.1.1.1.1, h.1.1.1.2⟩
  have hb : ∀ p ∈ a.blocks, ((p.1.length = a.ndim ∧ a.isValidSector p.1 = true)
      ∧ blockShape? a.indices p.1 = some p.2.shape) ∧ p.2.wf = true := by
    simp only [Arr.validB, Bool.and_eq_true, List.all_eq_true, beq_iff_eq] at h
    exact h.1.2
  refine ⟨h1.1, fun ix hix => cvalid_of_wfB (wfB_of_wfListB hw.1 ix hix), hw.2, h2, fun p hp => ?_⟩
  have := hb p hp
  exact ⟨this.1.1.1, this.1.1.2, this.1.2, this.2⟩

theorem Good.gen_nodup {a : Arr R} (g : Good a) : a.genValidSectors.Nodup :=
  Arr.genValidSectors_nodup_aux a g.keys

theorem Good.mem_gen {a : Arr R} (g : Good a) (s : Sector) :
    s ∈ a.genValidSectors ↔
      List.Forall₂ (fun c (ix : Index) => c ∈ ix.charges) s a.indices ∧ a.isValidSector s = true :=
  Arr.mem_genValidSectors a g.cvalid g.chvalid s

theorem Good.gen_shape {a : Arr R} (g : Good a) {s : Sector} (h : s ∈ a.genValidSectors) :
    (blockShape? a.indices s).isSome = true :=
  blockShape?_isSome_of_forall₂ ((g.mem_gen s).mp h).1

theorem Good.stored_mem_gen {a : Arr R} (g : Good a) {s : Sector} (h : s ∈ a.sectors) :
    s ∈ a.genValidSectors := by
  obtain ⟨p, hp, rfl⟩ := List.mem_map.mp h
  obtain ⟨_, h2, h3, _⟩ := g.stored p hp
  exact (g.mem_gen p.1).mpr ⟨forall₂_of_blockShape? h3, h2⟩

/-- replacing the blocks of a valid array by a list that satisfies the block clauses gives a
    valid array -/
theorem validB_with_blocks {a : Arr R} (h : a.validB = true) (bl : List (Sector × Blk R))
    (hd : (bl.map (·.1)).Nodup)
    (hb : ∀ p ∈ bl, p.1.length = a.ndim ∧ a.isValidSector p.1 = true
      ∧ blockShape? a.indices p.1 = some p.2.shape ∧ p.2.wf = true) :
    ({ a with blocks := bl } : Arr R).validB = true := by
  simp only [Arr.validB, Bool.and_eq_true] at h ⊢
  obtain ⟨⟨⟨⟨h1, h2⟩, _⟩, _⟩, h5⟩ := h
  refine ⟨⟨⟨⟨h1, h2⟩, allDistinct_of_nodup hd⟩, ?_⟩, h5⟩
  rw [List.all_eq_true]
  intro p hp
  obtain ⟨q1, q2, q3, q4⟩ := hb p hp
  simp only [Bool.and_eq_true, beq_iff_eq]
  exact ⟨⟨⟨q1, q2⟩, q3⟩, q4⟩

end good

/-! ## value view and dense form -/

section elem
variable {R : Type} [Zero R] [Neg R]

/-- the dense form only depends on the index tables and the value view -/
theorem toDenseA_congr_elem {a b : Arr R} (hi : a.indices = b.indices)
    (he : ∀ s off, a.elem s off = b.elem s off) : a.toDenseA = b.toDenseA := by
  unfold Arr.toDenseA Arr.shape
  rw [hi]
  simp only [Bool.false_eq_true, if_false, he]

/-- the value view only depends on the lookups of blocks and signs -/
theorem elem_congr_lookup {a b : Arr R} (hp : a.phases = b.phases) (s : Sector)
    (hl : alookup a.blocks s = alookup b.blocks s) (off : List Nat) : a.elem s off = b.elem s off := by
  unfold Arr.elem
  rw [hl, hp]

theorem elem_zero_of_lookup_zero [Lazy.LawfulNeg R] {a : Arr R} {s : Sector} {b : Blk R}
    (hl : alookup a.blocks s = some b) (hz : ∀ off, b.get off = 0) (off : List Nat) :
    a.elem s off = 0 := by
  rw [Lazy.elem_eq, hl]
  simp only [hz off]
  exact Lazy.sgnI_zero _

theorem elem_none {a : Arr R} {s : Sector} (hl : alookup a.blocks s = none) (off : List Nat) :
    a.elem s off = 0 := by
  unfold Arr.elem; rw [hl]

/-- `fill_missing_blocks` leaves the value view unchanged — every array, no hypothesis -/
theorem fillMissing_elem [Lazy.LawfulNeg R] {a a' : Arr R} (h : a.fillMissing = .ok a')
    (s : Sector) (off : List Nat) : a'.elem s off = a.elem s off := by
  obtain ⟨bl, hf, rfl⟩ := fillMissing_ok_iff.mp h
  rcases fill_fold_lookup a.indices _ _ _ hf s with h1 | ⟨h1, shp, h2⟩
  · exact elem_congr_lookup (a := ({ a with blocks := bl } : Arr R)) (b := a) rfl s h1 off
  · rw [elem_none h1]
    exact elem_zero_of_lookup_zero (a := ({ a with blocks := bl } : Arr R)) h2 (get_zeros shp) off

end elem

/-! ## `drop_missing_blocks` -/

section drop
variable {R : Type} [Zero R] [BEq R]

theorem dropStep_eq_filter : ∀ (bl : List (Sector × Blk R)), (bl.map (·.1)).Nodup → ∀ k : Sector,
    dropStep bl k = bl.filter (fun p => !(p.1 == k && p.2.isZero)) := by
  intro bl
  induction bl with
  | nil => intro _ k; rfl
  | cons q bl ih =>
    intro hnd k
    obtain ⟨k0, v0⟩ := q
    simp only [List.map_cons, List.nodup_cons] at hnd
    by_cases e : k0 = k
    · subst e
      have hrest : bl.filter (fun p => !(p.1 == k0 && p.2.isZero)) = bl := by
        apply List.filter_eq_self.mpr
        intro p hp
        have : p.1 ≠ k0 := fun e => hnd.1 (e ▸ List.mem_map_of_mem (f := (·.1)) hp)
        simp [this]
      unfold dropStep
      simp only [alookup_cons_self, List.filter_cons, beq_self_eq_true, Bool.true_and]
      by_cases hz : v0.isZero = true
      · simp only [hz, if_true, Lazy.aerase_cons, beq_self_eq_true, Bool.not_true,
          Bool.false_eq_true, if_false]
        exact hrest.symm
      · have hz' : v0.isZero = false := by simpa using hz
        simp only [hz', Bool.false_eq_true, if_false, Bool.not_false, if_true]
        rw [hrest]
    · have hne : (k0 == k) = false := by simpa using e
      have hstep : dropStep ((k0, v0) :: bl) k = (k0, v0) :: dropStep bl k := by
        unfold dropStep
        rw [alookup_cons_ne e]
        cases alookup bl k with
        | none => rfl
        | some b =>
          simp only [Lazy.aerase_cons, hne, Bool.false_eq_true, if_false]
          split <;> rfl
      rw [hstep, ih hnd.2 k]
      simp [List.filter_cons, hne]

theorem drop_fold : ∀ (K : List Sector) (bl : List (Sector × Blk R)), (bl.map (·.1)).Nodup →
    K.foldl dropStep bl = bl.filter (fun p => !(K.contains p.1 && p.2.isZero)) := by
  intro K
  induction K with
  | nil => intro bl _; simp
  | cons k K ih =>
    intro bl hnd
    rw [List.foldl_cons, dropStep_eq_filter bl hnd k, ih _ (nodup_keys_filter hnd _), List.filter_filter]
    apply List.filter_congr
    intro p _
    by_cases e : p.1 = k
    · subst e; simp; cases p.2.isZero <;> simp
    · have h1 : (p.1 == k) = false := by simpa using e
      have h2 : (k == p.1) = false := by simpa using fun e' => e e'.symm
      simp [List.contains_cons, h1, h2, e]

/-- `drop_missing_blocks`: exactly the all-zero blocks are removed, the others keep their order -/
theorem dropMissing_blocks {a : Arr R} (hnd : a.sectors.Nodup) :
    a.dropMissing.blocks = a.blocks.filter (fun p => !p.2.isZero) := by
  unfold dropMissing
  simp only
  rw [drop_fold _ _ hnd]
  apply List.filter_congr
  intro p hp
  have hmem : p.1 ∈ a.sectors := List.mem_map_of_mem (f := (·.1)) hp
  simp [hmem]

theorem dropMissing_eq {a : Arr R} (hnd : a.sectors.Nodup) :
    a.dropMissing = { a with blocks := a.blocks.filter (fun p => !p.2.isZero) } := by
  have := dropMissing_blocks hnd
  unfold dropMissing at this ⊢
  simp only at this
  rw [this]

theorem dropMissing_elem [LawfulBEq R] [Neg R] [Lazy.LawfulNeg R] {a : Arr R} (hnd : a.sectors.Nodup)
    (s : Sector) (off : List Nat) : a.dropMissing.elem s off = a.elem s off := by
  rw [dropMissing_eq hnd]
  have hl := alookup_filter_val (l := a.blocks) hnd (fun p => !p.2.isZero) s
  cases hx : alookup a.blocks s with
  | none =>
    rw [hx] at hl
    rw [elem_none hx]
    exact elem_none (a := ({ a with blocks := a.blocks.filter (fun p => !p.2.isZero) } : Arr R)) hl off
  | some b =>
    rw [hx] at hl
    simp only [Option.bind_some] at hl
    by_cases hz : b.isZero = true
    · simp only [hz, Bool.not_true, Bool.false_eq_true, if_false] at hl
      rw [elem_zero_of_lookup_zero hx (get_of_isZero hz)]
      exact elem_none (a := ({ a with blocks := a.blocks.filter (fun p => !p.2.isZero) } : Arr R)) hl off
    · have hz' : b.isZero = false := by simpa using hz
      simp only [hz', Bool.not_false, if_true] at hl
      exact elem_congr_lookup
        (a := ({ a with blocks := a.blocks.filter (fun p => !p.2.isZero) } : Arr R)) (b := a)
        rfl s (hl.trans hx.symm) off

end drop

/-! ## `allclose` -/

section close
variable {R : Type} [Zero R] [BEq R]

/-- what `allclose` asks of one sector -/
def secClose (a b : Arr R) (s : Sector) : Bool :=
  match alookup a.blocks s, alookup b.blocks s with
  | some x, some y => blkClose x y
  | some x, none => x.isZero
  | none, some y => y.isZero
  | none, none => true

theorem mem_sectors_of_some {a : Arr R} {s : Sector} {x : Blk R} (h : alookup a.blocks s = some x) :
    s ∈ a.sectors := alookup_isSome_iff.mp (by rw [h]; rfl)

theorem not_mem_sectors_of_none {a : Arr R} {s : Sector} (h : alookup a.blocks s = none) :
    s ∉ a.sectors := alookup_eq_none_iff.mp h

theorem some_of_mem_sectors {a : Arr R} {s : Sector} (h : s ∈ a.sectors) :
    ∃ x, alookup a.blocks s = some x :=
  Option.isSome_iff_exists.mp (alookup_isSome_iff.mpr h)

/-- the three loops of `allclose` amount to the per-sector condition on every sector -/
theorem allcloseA_iff_sec (a b : Arr R) : allcloseA a b = true ↔ ∀ s, secClose a b s = true := by
  unfold allcloseA
  simp only [Bool.and_eq_true, List.all_eq_true, List.mem_filter, List.contains_eq_mem,
    decide_eq_true_eq, Bool.not_eq_true', decide_eq_false_iff_not]
  constructor
  · rintro ⟨⟨h1, h2⟩, h3⟩ s
    unfold secClose
    cases hx : alookup a.blocks s with
    | none =>
      cases hy : alookup b.blocks s with
      | none => rfl
      | some y =>
        have := h3 s ⟨mem_sectors_of_some hy, not_mem_sectors_of_none hx⟩
        rw [hy] at this; exact this
    | some x =>
      cases hy : alookup b.blocks s with
      | none =>
        have := h2 s ⟨mem_sectors_of_some hx, not_mem_sectors_of_none hy⟩
        rw [hx] at this; exact this
      | some y =>
        have := h1 s ⟨mem_sectors_of_some hx, mem_sectors_of_some hy⟩
        rw [hx, hy] at this; exact this
  · intro H
    refine ⟨⟨fun s hs => ?_, fun s hs => ?_⟩, fun s hs => ?_⟩
    · obtain ⟨x, hx⟩ := some_of_mem_sectors hs.1
      obtain ⟨y, hy⟩ := some_of_mem_sectors hs.2
      have := H s
      unfold secClose at this
      rw [hx, hy] at this ⊢
      exact this
    · obtain ⟨x, hx⟩ := some_of_mem_sectors hs.1
      have hy : alookup b.blocks s = none := alookup_eq_none_iff.mpr hs.2
      have := H s
      unfold secClose at this
      rw [hx, hy] at this
      rw [hx]; exact this
    · obtain ⟨y, hy⟩ := some_of_mem_sectors hs.1
      have hx : alookup a.blocks s = none := alookup_eq_none_iff.mpr hs.2
      have := H s
      unfold secClose at this
      rw [hx, hy] at this
      rw [hy]; exact this

/-- the stored blocks have the shapes the index tables `idx` prescribe and `prod shape` entries -/
def Shaped (idx : List Index) (bl : List (Sector × Blk R)) : Prop :=
  ∀ p ∈ bl, blockShape? idx p.1 = some p.2.shape ∧ p.2.wf = true

variable [LawfulBEq R] [Neg R]

/-- for abelian arrays over the same index tables the per-sector condition is equality of the
    value view on that sector -/
theorem secClose_iff_elem {a b : Arr R} (hpa : a.phases = []) (hpb : b.phases = [])
    {idx : List Index} (hsa : Shaped idx a.blocks) (hsb : Shaped idx b.blocks) (s : Sector) :
    secClose a b s = true ↔ ∀ off, a.elem s off = b.elem s off := by
  unfold secClose
  simp only [Arr.elem_abelian a hpa, Arr.elem_abelian b hpb]
  cases hx : alookup a.blocks s with
  | none =>
    cases hy : alookup b.blocks s with
    | none => simp
    | some y =>
      have hy' := hsb _ (alookup_eq_some_mem hy)
      simp only
      constructor
      · intro h off; exact (get_of_isZero h off).symm
      · intro h; exact isZero_of_get hy'.2 (fun i _ => (h i).symm)
  | some x =>
    have hx' := hsa _ (alookup_eq_some_mem hx)
    cases hy : alookup b.blocks s with
    | none =>
      simp only
      constructor
      · intro h off; exact get_of_isZero h off
      · intro h; exact isZero_of_get hx'.2 (fun i _ => h i)
    | some y =>
      have hy' := hsb _ (alookup_eq_some_mem hy)
      simp only
      rw [blkClose_iff]
      constructor
      · intro h off; rw [h]
      · intro h
        have hsh : x.shape = y.shape := by
          have := hx'.1.symm.trans hy'.1
          exact Option.some.inj this
        exact Lazy.Blk.ext_get hsh hx'.2 hy'.2 h

theorem allcloseA_iff_elem {a b : Arr R} (hpa : a.phases = []) (hpb : b.phases = [])
    {idx : List Index} (hsa : Shaped idx a.blocks) (hsb : Shaped idx b.blocks) :
    allcloseA a b = true ↔ ∀ s off, a.elem s off = b.elem s off := by
  rw [allcloseA_iff_sec]
  exact forall_congr' (fun s => secClose_iff_elem hpa hpb hsa hsb s)

theorem shaped_phaseSync {idx : List Index} {a : Arr R} (h : Shaped idx a.blocks) :
    Shaped idx a.phaseSync.blocks := by
  intro p hp
  rw [Lazy.phaseSync_blocks_eq] at hp
  obtain ⟨q, hq, rfl⟩ := List.mem_map.mp hp
  obtain ⟨h1, h2⟩ := h q hq
  simp only [Lazy.syncBlk]
  split
  · refine ⟨h1, ?_⟩
    simpa [Blk.negK, Blk.map, Blk.wf] using h2
  · exact ⟨h1, h2⟩

theorem allcloseF_iff_elem [Lazy.LawfulNeg R] {a b : Arr R} {idx : List Index}
    (hsa : Shaped idx a.blocks) (hsb : Shaped idx b.blocks) :
    allcloseF a b = true ↔ ∀ s off, a.elem s off = b.elem s off := by
  unfold allcloseF
  rw [allcloseA_iff_elem (Lazy.phaseSync_phases a) (Lazy.phaseSync_phases b)
    (shaped_phaseSync hsa) (shaped_phaseSync hsb)]
  simp only [Lazy.phaseSync_elem]

theorem Good.shaped {a : Arr R} (g : Good a) : Shaped a.indices a.blocks :=
  fun p hp => ⟨(g.stored p hp).2.2.1, (g.stored p hp).2.2.2⟩

end close

/-! ## `set_params` -/

section params
variable {R : Type}

theorem setParams_noop : ∀ (ps bl : List (Sector × Blk R)),
    (∀ p ∈ ps, alookup bl p.1 = some p.2) → ps.foldl (fun bl p => ainsert bl p.1 p.2) bl = bl := by
  intro ps
  induction ps with
  | nil => intro bl _; rfl
  | cons p ps ih =>
    intro bl h
    rw [List.foldl_cons, ainsert_same (h p List.mem_cons_self)]
    exact ih bl (fun q hq => h q (List.mem_cons_of_mem _ hq))

/-- `dict.update`: the last given value of a key wins, other keys keep their value -/
theorem setParams_lookup : ∀ (ps bl : List (Sector × Blk R)) (k : Sector),
    alookup (ps.foldl (fun bl p => ainsert bl p.1 p.2) bl) k
      = (alookup ps.reverse k).or (alookup bl k) := by
  intro ps
  induction ps with
  | nil => intro bl k; simp [alookup]
  | cons p ps ih =>
    intro bl k
    obtain ⟨k1, v1⟩ := p
    rw [List.foldl_cons, ih, Lazy.alookup_ainsert, List.reverse_cons, alookup_append]
    cases alookup ps.reverse k with
    | some v => simp
    | none =>
      by_cases e : k1 = k
      · subst e; simp
      · have : (k1 == k) = false := by simpa using e
        simp [this, alookup_cons_ne e]

/-- `dict.update` keeps the existing keys in place and appends the new ones -/
theorem setParams_keys : ∀ (ps bl : List (Sector × Blk R)),
    ∃ extra, (ps.foldl (fun bl p => ainsert bl p.1 p.2) bl).map (·.1) = bl.map (·.1) ++ extra
      ∧ ∀ k ∈ extra, k ∈ ps.map (·.1) ∧ k ∉ bl.map (·.1) := by
  intro ps
  induction ps with
  | nil => intro bl; exact ⟨[], by simp, by simp⟩
  | cons p ps ih =>
    intro bl
    obtain ⟨k1, v1⟩ := p
    rw [List.foldl_cons]
    obtain ⟨extra, h1, h2⟩ := ih (ainsert bl k1 v1)
    rcases keys_ainsert bl k1 v1 with ⟨hm, hk⟩ | ⟨hm, hk⟩
    · refine ⟨extra, by rw [h1, hk], fun k hk' => ?_⟩
      obtain ⟨q1, q2⟩ := h2 k hk'
      rw [hk] at q2
      exact ⟨List.mem_cons_of_mem _ q1, q2⟩
    · refine ⟨k1 :: extra, by rw [h1, hk]; simp, fun k hk' => ?_⟩
      rcases List.mem_cons.mp hk' with rfl | hk'
      · exact ⟨by simp, hm⟩
      · obtain ⟨q1, q2⟩ := h2 k hk'
        rw [hk] at q2
        exact ⟨List.mem_cons_of_mem _ q1, fun hmem => q2 (List.mem_append_left _ hmem)⟩

end params

end SymmModel.SparseP
