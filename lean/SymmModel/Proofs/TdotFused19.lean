/-
  SymmModel.Proofs.TdotFused19 — `AbOk` (fused = blockwise) when exactly one operand is contracted
  completely: the model's control flow and the assembled statement.  Namespace `SymmModel.TdotP`.
-/
import SymmModel.Proofs.TdotFused18

namespace SymmModel
namespace TdotP
variable {R : Type}

/-- control flow: left and contracted groups non-empty, right group empty -/
theorem tensordotViaFused_mv [Zero R] [Add R] [Mul R] (a b : Arr R) (l xa xb : List Nat)
    (hl : l ≠ []) (hxa : xa ≠ []) (hxb : xb ≠ [])
    (hbl : ((dropMisaligned a b xa xb).1.blocks.isEmpty || (dropMisaligned a b xa xb).2.blocks.isEmpty) = false)
    (af bf : Arr R) (haf : fuseCore (dropMisaligned a b xa xb).1 [l, xa] .insert = .ok af)
    (hbf : fuseCore (dropMisaligned a b xa xb).2 [xb] .insert = .ok bf) :
    tensordotViaFused a b l xa xb [] =
      (if (l.length != 1) = true then unfuseA (tensordotBlockwise af bf [0] [1] [0] []) 0
        else pure (tensordotBlockwise af bf [0] [1] [0] [])) := by
  have hfA : [l, xa].filter (fun g => !g.isEmpty) = [l, xa] := by
    cases l <;> cases xa <;> simp_all
  have hfB : [xb, []].filter (fun g => !g.isEmpty) = [xb] := by
    cases xb <;> simp_all
  have hlE : l.isEmpty = false := by cases l <;> simp_all
  have hxaE : xa.isEmpty = false := by cases xa <;> simp_all
  have hxbE : xb.isEmpty = false := by cases xb <;> simp_all
  unfold tensordotViaFused
  simp only [hbl, C05.fuseA_noexpand, hfA, hfB, haf, hbf, hlE, hxaE, hxbE, Bool.not_false,
    Bool.true_and, List.isEmpty_cons, List.isEmpty_nil, Bool.not_true, Bool.false_and,
    Bool.false_eq_true, if_false, bind, Except.bind, pure, Except.pure]
  by_cases h2 : (l.length != 1) = true
  · simp only [h2, if_true]; cases unfuseA (tensordotBlockwise af bf [0] [1] [0] []) 0 <;> rfl
  · simp only [h2, Bool.false_eq_true, if_false]

/-- control flow: left group empty, contracted and right groups non-empty -/
theorem tensordotViaFused_vm [Zero R] [Add R] [Mul R] (a b : Arr R) (xa xb r : List Nat)
    (hxa : xa ≠ []) (hxb : xb ≠ []) (hr : r ≠ [])
    (hbl : ((dropMisaligned a b xa xb).1.blocks.isEmpty || (dropMisaligned a b xa xb).2.blocks.isEmpty) = false)
    (af bf : Arr R) (haf : fuseCore (dropMisaligned a b xa xb).1 [xa] .insert = .ok af)
    (hbf : fuseCore (dropMisaligned a b xa xb).2 [xb, r] .insert = .ok bf) :
    tensordotViaFused a b [] xa xb r =
      (if (r.length != 1) = true then unfuseA (tensordotBlockwise af bf [] [0] [0] [1]) 0
        else pure (tensordotBlockwise af bf [] [0] [0] [1])) := by
  have hfA : [[], xa].filter (fun g => !g.isEmpty) = [xa] := by
    cases xa <;> simp_all
  have hfB : [xb, r].filter (fun g => !g.isEmpty) = [xb, r] := by
    cases xb <;> cases r <;> simp_all
  have hxaE : xa.isEmpty = false := by cases xa <;> simp_all
  have hxbE : xb.isEmpty = false := by cases xb <;> simp_all
  have hrE : r.isEmpty = false := by cases r <;> simp_all
  unfold tensordotViaFused
  simp only [hbl, C05.fuseA_noexpand, hfA, hfB, haf, hbf, hxaE, hxbE, hrE, Bool.not_false,
    Bool.true_and, List.isEmpty_cons, List.isEmpty_nil, Bool.not_true, Bool.false_and,
    Bool.false_eq_true, if_false, if_true, bind, Except.bind, pure, Except.pure]
  by_cases h2 : (r.length != 1) = true
  · simp only [h2, if_true]; cases unfuseA (tensordotBlockwise af bf [] [0] [0] [1]) 0 <;> rfl
  · simp only [h2, Bool.false_eq_true, if_false]

/-- right operand contracted completely -/
theorem abOk_mv_ctx [AddCommMonoid R] [Mul R] [Neg R]
    (hz1 : ∀ x : R, 0 * x = 0) (hz2 : ∀ x : R, x * 0 = 0) (a b : Arr R) (xa xb : List Nat)
    (ha : a.validB = true) (hfa : a.fermi = false)
    (h : Ctx0 (dropMisaligned a b xa xb).1 (dropMisaligned a b xa xb).2 xa xb)
    (hneK : xa ≠ []) (hneL : freeAxes a.ndim xa ≠ []) (hR : freeAxes b.ndim xb = [])
    (hbl : ((dropMisaligned a b xa xb).1.blocks.isEmpty || (dropMisaligned a b xa xb).2.blocks.isEmpty) = false) :
    AbOk a b xa xb := by
  obtain ⟨n1, n2⟩ := dropMisaligned_ndim a b xa xb
  have hneKb : xb ≠ [] := by
    intro e; have := h.len; rw [e] at this; exact hneK (List.eq_nil_of_length_eq_zero this)
  have hL' : freeAxes (dropMisaligned a b xa xb).1.ndim xa ≠ [] := by rw [n1]; exact hneL
  have hR' : freeAxes (dropMisaligned a b xa xb).2.ndim xb = [] := by rw [n2]; exact hR
  obtain ⟨c, hc_ok, hcv, f1, f2, f3, f4, f5, hrank, hval, hsec, hshape⟩ := h.mv hz1 hz2 hneK hL' hR'
  have hpA := pair_of_free h.nA h.rA hneK hL'
  have hpB := solo_of_free_nil h.nB h.rB hneKb hR'
  have hfA := FuseP.fuseCore_multi_eq h.vaA hpA.groupsOk
  have hfB := FuseP.fuseCore_multi_eq h.vaB hpB.groupsOk
  rw [n1] at hfA
  unfold cfMV at hc_ok
  rw [n1] at hc_ok
  rw [n1, n2] at hrank hval hsec hshape
  have hflow := tensordotViaFused_mv a b (freeAxes a.ndim xa) xa xb hneL hneK hneKb hbl _ _ hfA hfB
  exact abOk_of_aligned a b xa xb ha hfa c (by rw [hR]; exact hflow.trans hc_ok) hcv f1 f2 f3 f4 f5
    hrank hval hsec hshape

/-- right operand contracted completely -/
theorem abOk_mv [AddCommMonoid R] [Mul R] [Neg R]
    (hz1 : ∀ x : R, 0 * x = 0) (hz2 : ∀ x : R, x * 0 = 0) (a b : Arr R) (xa xb : List Nat)
    (ha : a.validB = true) (hb : b.validB = true) (hfa : a.fermi = false) (hfb : b.fermi = false)
    (hsym : a.sym = b.sym) (hc : ValidP.contractibleB a b xa xb = true)
    (hnA : xa.Nodup) (hnB : xb.Nodup) (hA : ∀ x ∈ xa, x < a.ndim) (hB : ∀ x ∈ xb, x < b.ndim)
    (hneK : xa ≠ []) (hneL : freeAxes a.ndim xa ≠ []) (hR : freeAxes b.ndim xb = [])
    (hbl : ((dropMisaligned a b xa xb).1.blocks.isEmpty || (dropMisaligned a b xa xb).2.blocks.isEmpty) = false) :
    AbOk a b xa xb :=
  abOk_mv_ctx hz1 hz2 a b xa xb ha hfa
    (ctx0_of_dropMisaligned a b xa xb ha hb hfa hfb hsym hc hnA hnB hA hB) hneK hneL hR hbl


/-- left operand contracted completely -/
theorem abOk_vm_ctx [AddCommMonoid R] [Mul R] [Neg R]
    (hz1 : ∀ x : R, 0 * x = 0) (hz2 : ∀ x : R, x * 0 = 0) (a b : Arr R) (xa xb : List Nat)
    (ha : a.validB = true) (hfa : a.fermi = false)
    (h : Ctx0 (dropMisaligned a b xa xb).1 (dropMisaligned a b xa xb).2 xa xb)
    (hneK : xa ≠ []) (hL : freeAxes a.ndim xa = []) (hneR : freeAxes b.ndim xb ≠ [])
    (hbl : ((dropMisaligned a b xa xb).1.blocks.isEmpty || (dropMisaligned a b xa xb).2.blocks.isEmpty) = false) :
    AbOk a b xa xb := by
  obtain ⟨n1, n2⟩ := dropMisaligned_ndim a b xa xb
  have hneKb : xb ≠ [] := by
    intro e; have := h.len; rw [e] at this; exact hneK (List.eq_nil_of_length_eq_zero this)
  have hL' : freeAxes (dropMisaligned a b xa xb).1.ndim xa = [] := by rw [n1]; exact hL
  have hR' : freeAxes (dropMisaligned a b xa xb).2.ndim xb ≠ [] := by rw [n2]; exact hneR
  obtain ⟨c, hc_ok, hcv, f1, f2, f3, f4, f5, hrank, hval, hsec, hshape⟩ := h.vm hz1 hz2 hneK hL' hR'
  have hpA := solo_of_free_nil h.nA h.rA hneK hL'
  have hpB := pair_of_free' h.nB h.rB hneKb hR'
  have hfA := FuseP.fuseCore_multi_eq h.vaA hpA.groupsOk
  have hfB := FuseP.fuseCore_multi_eq h.vaB hpB.groupsOk
  rw [n2] at hfB
  unfold cfVM at hc_ok
  rw [n2] at hc_ok
  rw [n1, n2] at hrank hval hsec hshape
  have hflow := tensordotViaFused_vm a b xa xb (freeAxes b.ndim xb) hneK hneKb hneR hbl _ _ hfA hfB
  exact abOk_of_aligned a b xa xb ha hfa c (by rw [hL]; exact hflow.trans hc_ok) hcv f1 f2 f3 f4 f5
    hrank hval hsec hshape

/-- left operand contracted completely -/
theorem abOk_vm [AddCommMonoid R] [Mul R] [Neg R]
    (hz1 : ∀ x : R, 0 * x = 0) (hz2 : ∀ x : R, x * 0 = 0) (a b : Arr R) (xa xb : List Nat)
    (ha : a.validB = true) (hb : b.validB = true) (hfa : a.fermi = false) (hfb : b.fermi = false)
    (hsym : a.sym = b.sym) (hc : ValidP.contractibleB a b xa xb = true)
    (hnA : xa.Nodup) (hnB : xb.Nodup) (hA : ∀ x ∈ xa, x < a.ndim) (hB : ∀ x ∈ xb, x < b.ndim)
    (hneK : xa ≠ []) (hL : freeAxes a.ndim xa = []) (hneR : freeAxes b.ndim xb ≠ [])
    (hbl : ((dropMisaligned a b xa xb).1.blocks.isEmpty || (dropMisaligned a b xa xb).2.blocks.isEmpty) = false) :
    AbOk a b xa xb :=
  abOk_vm_ctx hz1 hz2 a b xa xb ha hfa
    (ctx0_of_dropMisaligned a b xa xb ha hb hfa hfb hsym hc hnA hnB hA hB) hneK hL hneR hbl


/-- **fused = blockwise for every non-empty contraction** (abelian operands, aligned blocks) -/
theorem abOk_contract_ctx [AddCommMonoid R] [Mul R] [Neg R]
    (hz1 : ∀ x : R, 0 * x = 0) (hz2 : ∀ x : R, x * 0 = 0) (a b : Arr R) (xa xb : List Nat)
    (ha : a.validB = true) (hfa : a.fermi = false)
    (h : Ctx0 (dropMisaligned a b xa xb).1 (dropMisaligned a b xa xb).2 xa xb)
    (hneK : xa ≠ [])
    (hbl : ((dropMisaligned a b xa xb).1.blocks.isEmpty || (dropMisaligned a b xa xb).2.blocks.isEmpty) = false) :
    AbOk a b xa xb := by
  by_cases hL : freeAxes a.ndim xa = []
  · by_cases hR : freeAxes b.ndim xb = []
    · exact abOk_scalar_ctx hz1 hz2 a b xa xb ha hfa h hneK hL hR hbl
    · exact abOk_vm_ctx hz1 hz2 a b xa xb ha hfa h hneK hL hR hbl
  · by_cases hR : freeAxes b.ndim xb = []
    · exact abOk_mv_ctx hz1 hz2 a b xa xb ha hfa h hneK hL hR hbl
    · exact abOk_general_ctx hz1 hz2 a b xa xb ha hfa h hneK hL hR hbl

/-- **fused = blockwise for every non-empty contraction** (abelian operands, aligned blocks) -/
theorem abOk_contract [AddCommMonoid R] [Mul R] [Neg R]
    (hz1 : ∀ x : R, 0 * x = 0) (hz2 : ∀ x : R, x * 0 = 0) (a b : Arr R) (xa xb : List Nat)
    (ha : a.validB = true) (hb : b.validB = true) (hfa : a.fermi = false) (hfb : b.fermi = false)
    (hsym : a.sym = b.sym) (hc : ValidP.contractibleB a b xa xb = true)
    (hnA : xa.Nodup) (hnB : xb.Nodup) (hA : ∀ x ∈ xa, x < a.ndim) (hB : ∀ x ∈ xb, x < b.ndim)
    (hneK : xa ≠ [])
    (hbl : ((dropMisaligned a b xa xb).1.blocks.isEmpty || (dropMisaligned a b xa xb).2.blocks.isEmpty) = false) :
    AbOk a b xa xb := by
  by_cases hL : freeAxes a.ndim xa = []
  · by_cases hR : freeAxes b.ndim xb = []
    · exact abOk_scalar hz1 hz2 a b xa xb ha hb hfa hfb hsym hc hnA hnB hA hB hneK hL hR hbl
    · exact abOk_vm hz1 hz2 a b xa xb ha hb hfa hfb hsym hc hnA hnB hA hB hneK hL hR hbl
  · by_cases hR : freeAxes b.ndim xb = []
    · exact abOk_mv hz1 hz2 a b xa xb ha hb hfa hfb hsym hc hnA hnB hA hB hneK hL hR hbl
    · exact abOk_general hz1 hz2 a b xa xb ha hb hfa hfb hsym hc hnA hnB hA hB hneK hL hR hbl

end TdotP
end SymmModel
