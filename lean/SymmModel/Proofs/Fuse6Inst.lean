/-
  SymmModel.Proofs.Fuse6Inst — `unfuseF` on valid fermionic arrays and `unfuseA` on valid abelian
  arrays are unfuse steps in the sense of `StepOK`.
-/
import SymmModel.Proofs.Fuse6Step
import SymmModel.Proofs.Fuse6Sign
namespace SymmModel
namespace FuseP
set_option linter.unusedSectionVars false
open SymmModel.Lazy

variable {R : Type} [Zero R] [Neg R] [LawfulNeg R]

theorem unfVal_sgn_congr (sym : Sym) (ix : Index) (subs : List Index) (exts : Extents) (p : Nat)
    (sgn sgn' : Sector → Int) (v : Sector → List Nat → R) (K : Sector) (J : List Nat) (h : sgn K = sgn' K) :
    unfVal sym ix subs exts p sgn v K J = unfVal sym ix subs exts p sgn' v K J := by
  unfold unfVal
  rw [h]

/-- `unfuseF` on valid fermionic arrays -/
theorem stepOK_F : StepOK (R := R) Arr.unfuseF (fun a => a.validB = true ∧ a.fermi = true) segSign where
  valid := fun a h => validArr_of_validB h.1
  step := by
    intro a p ix subs exts ⟨hv, hf⟩ hix hsub
    obtain ⟨y, hy, hyi, hyv⟩ := unfuseF_val a p ix subs exts hv hix hsub
    obtain ⟨hVy, hfy⟩ := ValidP.unfuseF_valid' a y p ((ValidP.validB_iff a).1 hv) hf hy
    obtain ⟨f1, f2, f3⟩ := unfuseF_frame a p hv hix hsub hy
    refine ⟨y, hy, ⟨(ValidP.validB_iff y).2 hVy, hfy⟩, hyi, f1, by rw [hfy, hf], f2, f3, ?_⟩
    intro K shp hK J hJ
    rw [hyv K shp hK J hJ]
    apply unfVal_sgn_congr
    have hp : p < a.indices.length := getElem?_lt hix
    have hKl : p + subs.length ≤ K.length := by
      have := (blockShape?_length hK).1
      rw [hyi, replaceWithSeq_split] at this
      simp only [List.length_append, List.length_take, List.length_drop] at this
      omega
    obtain ⟨A, S, X, rfl, hA, hS⟩ := exists_parts K p subs.length hKl
    rw [unfuseSign_seg a ix subs p hp hA hS]
    unfold sgS
    rw [seg_parts hA hS]

/-- `unfuseA` on valid abelian arrays -/
theorem stepOK_A : StepOK (R := R) unfuseA (fun a => a.validB = true ∧ a.fermi = false) (fun _ _ _ _ => 1) where
  valid := fun a h => validArr_of_validB h.1
  step := by
    intro a p ix subs exts ⟨hv, hf⟩ hix hsub
    have hva := validArr_of_validB hv
    have hph : a.phases = [] := by
      have := ((ValidP.validB_iff a).1 hv).sgn
      unfold ValidP.SignsOk at this
      simp only [hf, Bool.false_eq_true, if_false] at this
      exact this.1
    obtain ⟨y, hy, hyi, hys, hyf, hyc, hyp, hyo, hA, hB⟩ := unfuseU hva hix hsub
    have hyph : y.phases = [] := by rw [hyp]; exact hph
    have hyV := ValidP.unfuseA_validB a y p hv hf hy
    refine ⟨y, hy, ⟨hyV, by rw [hyf]; exact hf⟩, hyi, hys, hyf, hyc, hyo, ?_⟩
    intro K shp hK J hJ
    have hcert := val_of_cert (a := a) (y := y) (fun _ => (1 : Int)) hva hix hsub hyi ?_ ?_ hK hJ
    · rw [hcert]; rfl
    · intro ns B hm e ss st d he hst
      obtain ⟨subshape, h1, h2, h3, h4⟩ := hA (ns, B) hm e ss st d he hst
      refine ⟨subshape, h1, h2, ?_⟩
      intro J hJ
      rw [elem_of_synced _ hyph, h3, elem_of_synced _ hph, alookup_of_mem_nodup hva.nodup hm]
      simp only [sgnI_one]
      exact h4 J hJ
    · intro K hK J
      rw [elem_of_synced _ hyph]
      cases hl : alookup y.blocks K with
      | none => rfl
      | some V =>
        exfalso
        obtain ⟨nsB, hm, e, ss, st, d, h3, h4, h5, _⟩ := hB K V hl
        exact hK nsB.1 nsB.2 e ss st d hm h3 h4 h5

end FuseP
end SymmModel
