/-
  SymmModel.Proofs.ValidMore2Construct — the constructors of Model/Construct.lean return valid
  arrays (property C01, item "construction").

  (a) `construct_valid`     guard `constructOkB`   (Prop form `ConstructOk`,  `construct_valid'`)
  (b) `fromBlocks_valid`    guard `fromBlocksOkB`  (Prop form `FromBlocksOk`, `fromBlocks_valid'`)
  (c) `fromDense_valid`     guard `fromDenseOkB`   (Prop form `FromDenseOk`,  `fromDense_valid'`)
  (d) `fromFillFn_valid`    guard `fromFillFnOkB` + the contract `FillOk` of the fill function

  Every guard is a decidable `Bool`; each section ends with concrete instances (the constructor
  succeeds and the result passes `validB`, by evaluation) and, for every clause of the guard, a
  theorem exhibiting inputs on which the constructor succeeds but the result is NOT valid.

  FINDING recorded here (`construct_odd_even_labels_invalid` and its siblings): the model's
  `construct` (Python `oddpos_parse`) only rejects `fermionic ∧ odd charge ∧ no label`; an odd
  array given an even number ≥ 2 of labels, an even array given an odd number of labels, and an
  abelian array given labels are all accepted and fail `validB` ("oddpos-parity" /
  "abelian-with-signs").  Hence the label clause `oddposOkB` is an explicit hypothesis.

  Nothing here changes a model definition.
-/
import SymmModel.Proofs.ValidLinalg
import SymmModel.Proofs.ValidMore
import SymmModel.Model.Construct

namespace SymmModel
namespace ValidP
open Sym

variable {R : Type}

/-! ## (a) `construct` -/

/-- the charge `construct` gives to the array (copy of the model text) -/
def constructCharge (sym : Sym) (indices : List Index) (charge : Option Charge)
    (blocks : List (Sector × Blk R)) : Charge :=
  match charge with
  | some c => c
  | none => match adict blocks with
    | (s, _) :: _ => Arr.sectorCharge sym (indices.map Index.dual) s
    | [] => sym.zero

/-- the array `construct` returns when it does not throw -/
def constructArr (sym : Sym) (fermi : Bool) (indices : List Index) (charge : Option Charge)
    (blocks : List (Sector × Blk R)) (oddpos : List (Int × Bool)) : Arr R :=
  { sym, fermi, indices, charge := constructCharge sym indices charge blocks,
    blocks := adict blocks, phases := [], oddpos := oddpos }

theorem construct_eq_ite (sym : Sym) (fermi : Bool) (indices : List Index) (charge : Option Charge)
    (blocks : List (Sector × Blk R)) (oddpos : List (Int × Bool)) :
    construct sym fermi indices charge blocks oddpos =
      if (fermi && sym.parity (constructCharge sym indices charge blocks) && oddpos.isEmpty) = true
      then .error Err.value
      else .ok (constructArr sym fermi indices charge blocks oddpos) := by
  unfold construct constructArr constructCharge
  split <;> rfl

theorem construct_ok {sym : Sym} {fermi : Bool} {indices : List Index} {charge : Option Charge}
    {blocks : List (Sector × Blk R)} {oddpos : List (Int × Bool)} {a : Arr R}
    (h : construct sym fermi indices charge blocks oddpos = .ok a) :
    a = constructArr sym fermi indices charge blocks oddpos := by
  rw [construct_eq_ite] at h
  split at h
  · cases h
  · cases h; rfl

/-! ### the first key of `dict(pairs)` is the first key of `pairs` -/

theorem ainsert_head {κ β : Type} [BEq κ] (k : κ) (v : β) (rest : List (κ × β)) (k0 : κ) (v0 : β) :
    ∃ v' rest', ainsert ((k, v) :: rest) k0 v0 = (k, v') :: rest' := by
  simp only [ainsert]
  split
  · exact ⟨_, _, rfl⟩
  · exact ⟨_, _, rfl⟩

theorem foldl_ainsert_head {κ β : Type} [BEq κ] (ps : List (κ × β)) (k : κ) (v : β)
    (rest : List (κ × β)) :
    ∃ v' rest', ps.foldl (fun acc p => ainsert acc p.1 p.2) ((k, v) :: rest) = (k, v') :: rest' := by
  induction ps generalizing v rest with
  | nil => exact ⟨v, rest, rfl⟩
  | cons p ps ih =>
    simp only [List.foldl_cons]
    obtain ⟨v', rest', h⟩ := ainsert_head k v rest p.1 p.2
    rw [h]
    exact ih v' rest'

theorem adict_cons_head {κ β : Type} [BEq κ] (k : κ) (v : β) (ps : List (κ × β)) :
    ∃ v' rest', adict ((k, v) :: ps) = (k, v') :: rest' := by
  unfold adict
  simp only [List.foldl_cons, ainsert]
  exact foldl_ainsert_head ps k v []

/-- with `charge = none` the charge is the signed combination of the FIRST given sector -/
theorem constructCharge_none_cons (sym : Sym) (indices : List Index) (s : Sector) (b : Blk R)
    (rest : List (Sector × Blk R)) :
    constructCharge sym indices none ((s, b) :: rest)
      = Arr.sectorCharge sym (indices.map Index.dual) s := by
  obtain ⟨v', rest', h⟩ := adict_cons_head s b rest
  simp only [constructCharge, h]

theorem constructCharge_none_nil (sym : Sym) (indices : List Index) :
    constructCharge sym indices none ([] : List (Sector × Blk R)) = sym.zero := rfl

theorem constructCharge_some (sym : Sym) (indices : List Index) (c : Charge)
    (blocks : List (Sector × Blk R)) : constructCharge sym indices (some c) blocks = c := rfl

/-- the sign bookkeeping a constructor is handed: a fermionic array carries an odd number of
    labels exactly when its charge is odd; an abelian array carries none.  (`construct` itself
    only rejects `fermi ∧ odd ∧ no label`.) -/
def oddposOkB (sym : Sym) (fermi : Bool) (ch : Charge) (oddpos : List (Int × Bool)) : Bool :=
  if fermi then (oddpos.length % 2 == 1) == sym.parity ch else oddpos.isEmpty

/-- one given block fits the index tables and conserves the charge `ch` -/
def blockOkB (sym : Sym) (indices : List Index) (ch : Charge) (sb : Sector × Blk R) : Bool :=
  sb.1.length == indices.length
  && Arr.blockShape? indices sb.1 == some sb.2.shape
  && sb.2.wf
  && Arr.sectorCharge sym (indices.map Index.dual) sb.1 == ch

/-- the decidable precondition of `construct` (what `AbelianArray.check()` would verify of the
    arguments).  For `charge = none` the clause on sector charges says that all given sectors
    have the signed combination of the first one. -/
def constructOkB (sym : Sym) (fermi : Bool) (indices : List Index) (charge : Option Charge)
    (blocks : List (Sector × Blk R)) (oddpos : List (Int × Bool)) : Bool :=
  Index.wfListB sym indices
  && (match charge with
      | some c => sym.valid c
      | none => true)
  && blocks.all (blockOkB sym indices (constructCharge sym indices charge blocks))
  && oddposOkB sym fermi (constructCharge sym indices charge blocks) oddpos

/-- the same precondition as a `Prop` -/
structure ConstructOk (sym : Sym) (fermi : Bool) (indices : List Index) (charge : Option Charge)
    (blocks : List (Sector × Blk R)) (oddpos : List (Int × Bool)) : Prop where
  idx : ∀ i ∈ indices, Index.wfB sym i = true
  chg : ∀ c, charge = some c → sym.valid c = true
  blk : ∀ sb ∈ blocks, sb.1.length = indices.length
    ∧ Arr.blockShape? indices sb.1 = some sb.2.shape
    ∧ sb.2.wf = true
    ∧ Arr.sectorCharge sym (indices.map Index.dual) sb.1 = constructCharge sym indices charge blocks
  odd : if fermi = true
    then (oddpos.length % 2 == 1) = sym.parity (constructCharge sym indices charge blocks)
    else oddpos = []

theorem constructOkB_iff (sym : Sym) (fermi : Bool) (indices : List Index) (charge : Option Charge)
    (blocks : List (Sector × Blk R)) (oddpos : List (Int × Bool)) :
    constructOkB sym fermi indices charge blocks oddpos = true
      ↔ ConstructOk sym fermi indices charge blocks oddpos := by
  unfold constructOkB oddposOkB
  simp only [Bool.and_eq_true, wfListB_iff, List.all_eq_true, blockOkB, beq_iff_eq]
  constructor
  · rintro ⟨⟨⟨h1, h2⟩, h3⟩, h4⟩
    refine ⟨h1, ?_, ?_, ?_⟩
    · rintro c rfl; exact h2
    · intro sb hsb
      obtain ⟨⟨⟨a1, a2⟩, a3⟩, a4⟩ := h3 sb hsb
      exact ⟨a1, a2, a3, a4⟩
    · split
      · rename_i hf; simpa [hf] using h4
      · rename_i hf; simpa [hf] using h4
  · rintro ⟨h1, h2, h3, h4⟩
    refine ⟨⟨⟨h1, ?_⟩, ?_⟩, ?_⟩
    · cases charge with
      | none => rfl
      | some c => exact h2 c rfl
    · intro sb hsb
      obtain ⟨a1, a2, a3, a4⟩ := h3 sb hsb
      exact ⟨⟨⟨a1, a2⟩, a3⟩, a4⟩
    · split at h4
      · rename_i hf; simpa [hf] using h4
      · rename_i hf; simpa [hf] using h4

theorem constructCharge_valid {sym : Sym} {indices : List Index} {charge : Option Charge}
    {blocks : List (Sector × Blk R)} (h : ∀ c, charge = some c → sym.valid c = true) :
    sym.valid (constructCharge sym indices charge blocks) = true := by
  unfold constructCharge
  cases charge with
  | some c => exact h c rfl
  | none =>
    simp only
    split
    · exact Sym.combine_valid _ _
    · exact Sym.combine_valid _ _

/-- **`construct` returns a valid array** (Prop-level hypotheses) -/
theorem construct_valid' {sym : Sym} {fermi : Bool} {indices : List Index} {charge : Option Charge}
    {blocks : List (Sector × Blk R)} {oddpos : List (Int × Bool)} {a : Arr R}
    (hok : ConstructOk sym fermi indices charge blocks oddpos)
    (h : construct sym fermi indices charge blocks oddpos = .ok a) : Valid a := by
  rw [construct_ok h]
  refine ⟨hok.idx, constructCharge_valid hok.chg, adict_keys_nodup _, ?_, ?_⟩
  · intro sb hsb
    obtain ⟨a1, a2, a3, a4⟩ := hok.blk sb (mem_adict hsb)
    exact ⟨⟨a1, a4⟩, a2, a3⟩
  · show SignsOk sym fermi indices _ [] oddpos
    unfold SignsOk
    have := hok.odd
    split
    · rename_i hf
      simp only [hf, if_true] at this
      exact ⟨phasesOk_nil, this⟩
    · rename_i hf
      simp only [hf] at this
      exact ⟨rfl, by simpa using this⟩

/-- **`construct` returns a valid array** (decidable guard) -/
theorem construct_valid {sym : Sym} {fermi : Bool} {indices : List Index} {charge : Option Charge}
    {blocks : List (Sector × Blk R)} {oddpos : List (Int × Bool)} {a : Arr R}
    (hok : constructOkB sym fermi indices charge blocks oddpos = true)
    (h : construct sym fermi indices charge blocks oddpos = .ok a) : a.validB = true :=
  (validB_iff a).mpr (construct_valid' ((constructOkB_iff _ _ _ _ _ _).mp hok) h)

/-! ### (a) examples: the guard is satisfiable, and each clause is needed -/

section ExamplesA

/-- U1 tables with mixed directions -/
def exIdxU1 : List Index :=
  [Index.mk [((0, 0), 2), ((1, 0), 1)] false none, Index.mk [((0, 0), 1), ((1, 0), 3)] true none]

def exBlocksU1 : List (Sector × Blk Int) :=
  [([(0, 0), (0, 0)], ⟨[2, 1], #[1, 2]⟩), ([(1, 0), (1, 0)], ⟨[1, 3], #[3, 4, 5]⟩)]

/-- Z2 tables with mixed directions -/
def exIdxZ2 : List Index :=
  [Index.mk [((0, 0), 2), ((1, 0), 3)] true none, Index.mk [((0, 0), 1), ((1, 0), 2)] false none]

/-- two odd blocks -/
def exBlocksZ2 : List (Sector × Blk Int) :=
  [([(0, 0), (1, 0)], ⟨[2, 2], #[1, 2, 3, 4]⟩), ([(1, 0), (0, 0)], ⟨[3, 1], #[5, 6, 7]⟩)]

-- abelian U1, inferred charge, two blocks, with a repeated key (the later block wins)
example : constructOkB .U1 false exIdxU1 none (exBlocksU1 ++ [([(0, 0), (0, 0)], ⟨[2, 1], #[7, 8]⟩)]) [] = true := by
  decide
example : ∃ a, construct .U1 false exIdxU1 none (exBlocksU1 ++ [([(0, 0), (0, 0)], ⟨[2, 1], #[7, 8]⟩)]) [] = .ok a
    ∧ a.validB = true ∧ a.sectors = [[(0, 0), (0, 0)], [(1, 0), (1, 0)]] :=
  ⟨_, rfl, by decide, by decide⟩
-- fermionic Z2, odd explicit charge, one label
example : constructOkB .Z2 true exIdxZ2 (some (1, 0)) exBlocksZ2 [(0, false)] = true := by decide
example : ∃ a, construct .Z2 true exIdxZ2 (some (1, 0)) exBlocksZ2 [(0, false)] = .ok a
    ∧ a.validB = true := ⟨_, rfl, by decide⟩
-- fermionic Z2, odd inferred charge, three labels
example : constructOkB .Z2 true exIdxZ2 none exBlocksZ2 [(0, false), (1, true), (2, false)] = true := by
  decide
-- no blocks, no charge: the identity charge
example : constructOkB .U1 true exIdxU1 none ([] : List (Sector × Blk Int)) [] = true := by decide
-- the theorem applied
example (a : Arr Int) (h : construct .Z2 true exIdxZ2 none exBlocksZ2 [(0, false)] = .ok a) :
    a.validB = true := construct_valid (by decide) h

/-- FINDING (model = Python `oddpos_parse`): `construct` only rejects an odd fermionic array with
    NO label; an odd array with an even number ≥ 2 of labels is accepted and is invalid -/
theorem construct_odd_even_labels_invalid :
    ∃ a, construct .Z2 true exIdxZ2 (some (1, 0)) exBlocksZ2 [(0, false), (1, false)] = .ok a
      ∧ a.validB = false ∧ a.invalidReason = "oddpos-parity" := ⟨_, rfl, by decide, by decide⟩

/-- … and an even fermionic array with one label is accepted too -/
theorem construct_even_one_label_invalid :
    ∃ a, construct .Z2 true exIdxZ2 (some (0, 0)) ([] : List (Sector × Blk Int)) [(0, false)] = .ok a
      ∧ a.validB = false := ⟨_, rfl, by decide⟩

/-- an abelian array must not be given labels -/
theorem construct_abelian_labels_invalid :
    ∃ a, construct .U1 false exIdxU1 none exBlocksU1 [(0, false)] = .ok a ∧ a.validB = false :=
  ⟨_, rfl, by decide⟩

/-- `charge = none`: sectors of different signed charge are accepted (charge of the first) -/
theorem construct_mixed_charges_invalid :
    ∃ a, construct .U1 false exIdxU1 none
        (exBlocksU1 ++ [([(1, 0), (0, 0)], ⟨[1, 1], #[9]⟩)]) [] = .ok a
      ∧ a.validB = false ∧ a.invalidReason = "sector-charge" := ⟨_, rfl, by decide, by decide⟩

/-- a block whose shape disagrees with the tables -/
theorem construct_bad_shape_invalid :
    ∃ a, construct .U1 false exIdxU1 none [([(0, 0), (0, 0)], (⟨[2, 2], #[1, 2, 3, 4]⟩ : Blk Int))] []
        = .ok a ∧ a.validB = false := ⟨_, rfl, by decide⟩

/-- a block whose data does not fill its shape -/
theorem construct_bad_data_invalid :
    ∃ a, construct .U1 false exIdxU1 none [([(0, 0), (0, 0)], (⟨[2, 1], #[1]⟩ : Blk Int))] []
        = .ok a ∧ a.validB = false := ⟨_, rfl, by decide⟩

/-- an explicit charge outside the group -/
theorem construct_bad_charge_invalid :
    ∃ a, construct .Z2 false exIdxZ2 (some (2, 0)) ([] : List (Sector × Blk Int)) [] = .ok a
      ∧ a.validB = false := ⟨_, rfl, by decide⟩

/-- an unsorted index table -/
theorem construct_bad_index_invalid :
    ∃ a, construct .U1 false [Index.mk [((1, 0), 1), ((0, 0), 2)] false none] none
        ([] : List (Sector × Blk Int)) [] = .ok a ∧ a.validB = false := ⟨_, rfl, by decide⟩

end ExamplesA


/-! ## (b) `fromBlocks` -/

/-- `forIn_yield_inv` with the membership of the current element available -/
theorem forIn_yield_inv_mem {α β ε : Type} (f : α → β → Except ε (ForInStep β))
    (I : List α → β → Prop) (l : List α)
    (hstep : ∀ pre x b r, x ∈ l → I pre b → f x b = .ok r → ∃ b', r = .yield b' ∧ I (pre ++ [x]) b') :
    ∀ (pre : List α) (b r : β), I pre b → forIn l b f = .ok r → I (pre ++ l) r := by
  suffices H : ∀ (l' : List α), (∀ x ∈ l', x ∈ l) → ∀ (pre : List α) (b r : β), I pre b →
      forIn l' b f = .ok r → I (pre ++ l') r from H l (fun _ h => h)
  intro l'
  induction l' with
  | nil =>
    intro _ pre b r hI h
    simp only [List.forIn_nil, pure, Except.pure, Except.ok.injEq] at h
    subst h; simpa using hI
  | cons x xs ih =>
    intro hsub pre b r hI h
    rw [List.forIn_cons] at h
    cases hfx : f x b with
    | error e => rw [hfx] at h; cases h
    | ok st =>
      rw [hfx] at h
      obtain ⟨b', rfl, hI'⟩ := hstep pre x b st (hsub x (by simp)) hI hfx
      have := ih (fun y hy => hsub y (by simp [hy])) (pre ++ [x]) b' r hI' h
      simpa using this

theorem alookup_append_match {κ β : Type} [BEq κ] (l l' : List (κ × β)) (k : κ) :
    alookup (l ++ l') k = match alookup l k with
      | some v => some v
      | none => alookup l' k := by
  induction l with
  | nil => rfl
  | cons p rest ih =>
    obtain ⟨k', v'⟩ := p
    simp only [List.cons_append, alookup]
    split
    · rfl
    · exact ih

/-- the per-axis tables during the loops: `n` tables, distinct keys, entries satisfying `Q` -/
def MInv (n : Nat) (Q : Charge × Nat → Prop) (maps : List (List (Charge × Nat))) : Prop :=
  maps.length = n ∧ ∀ m ∈ maps, (m.map (·.1)).Nodup ∧ ∀ p ∈ m, Q p

/-- recorded sizes are never changed later -/
def MExt (maps maps' : List (List (Charge × Nat))) : Prop :=
  ∀ i c d, alookup (maps.getD i []) c = some d → alookup (maps'.getD i []) c = some d

theorem MExt.refl (maps : List (List (Charge × Nat))) : MExt maps maps := fun _ _ _ h => h
theorem MExt.trans {m1 m2 m3 : List (List (Charge × Nat))} (h1 : MExt m1 m2) (h2 : MExt m2 m3) :
    MExt m1 m3 := fun i c d h => h2 i c d (h1 i c d h)

/-- the sizes of a list of `((charge, size), axis)` entries are recorded in the tables -/
def MRec (maps : List (List (Charge × Nat))) (L : List ((Charge × Nat) × Nat)) : Prop :=
  ∀ x ∈ L, alookup (maps.getD x.2 []) x.1.1 = some x.1.2

theorem MRec.ext {maps maps' : List (List (Charge × Nat))} {L : List ((Charge × Nat) × Nat)}
    (h : MRec maps L) (he : MExt maps maps') : MRec maps' L := fun x hx => he _ _ _ (h x hx)

theorem fb_step_none {n : Nat} {Q : Charge × Nat → Prop} {maps : List (List (Charge × Nat))}
    {c : Charge} {d i : Nat} (hI : MInv n Q maps) (hi : i < n) (hQ : Q (c, d))
    (hnone : alookup (maps.getD i []) c = none) :
    MInv n Q (maps.set i (maps.getD i [] ++ [(c, d)]))
    ∧ MExt maps (maps.set i (maps.getD i [] ++ [(c, d)]))
    ∧ alookup ((maps.set i (maps.getD i [] ++ [(c, d)])).getD i []) c = some d := by
  obtain ⟨hl, hm⟩ := hI
  have hil : i < maps.length := by omega
  have hget : maps.getD i [] = maps[i] := by simp [List.getD_eq_getElem?_getD, hil]
  have hmem : maps[i] ∈ maps := List.getElem_mem hil
  have hself : (maps.set i (maps.getD i [] ++ [(c, d)])).getD i [] = maps.getD i [] ++ [(c, d)] := by
    simp [List.getD_eq_getElem?_getD, hil]
  refine ⟨⟨by simpa using hl, ?_⟩, ?_, ?_⟩
  · intro m hmm
    rcases List.mem_or_eq_of_mem_set hmm with h | h
    · exact hm m h
    · subst h
      rw [hget]
      obtain ⟨h1, h2⟩ := hm _ hmem
      refine ⟨?_, ?_⟩
      · rw [List.map_append]
        refine List.nodup_append.mpr ⟨h1, by simp, ?_⟩
        intro a ha b' hb'
        simp only [List.map_cons, List.map_nil, List.mem_singleton] at hb'
        subst hb'
        intro hab; subst hab
        rw [hget] at hnone
        exact (alookup_eq_none_iff.mp hnone) ha
      · intro p hp
        rcases List.mem_append.mp hp with hp | hp
        · exact h2 p hp
        · simp only [List.mem_singleton] at hp
          subst hp; exact hQ
  · intro j c' d' hj
    by_cases hji : j = i
    · subst hji
      rw [hself, alookup_append_match, hj]
    · have : (maps.set i (maps.getD i [] ++ [(c, d)])).getD j [] = maps.getD j [] := by
        simp [List.getD_eq_getElem?_getD, Ne.symm hji]
      rw [this]; exact hj
  · rw [hself, alookup_append_match, hnone]
    simp [alookup]

/-- the rank `from_blocks` reads off the first sector -/
def fbNdim (blocks : List (Sector × Blk R)) : Nat :=
  match blocks with
  | (s, _) :: _ => s.length
  | [] => 0

/-- what the loops of `from_blocks` establish -/
def FbPost (Q : Charge × Nat → Prop) (blocks : List (Sector × Blk R))
    (maps : List (List (Charge × Nat))) : Prop :=
  MInv (fbNdim blocks) Q maps ∧ ∀ sb ∈ blocks, MRec maps (sb.1.zip sb.2.shape).zipIdx

theorem fromBlocks_inv {sym : Sym} {fermi : Bool} {blocks : List (Sector × Blk R)}
    {duals : List Bool} {charge : Option Charge} {oddpos : List (Int × Bool)} {a : Arr R}
    (Q : Charge × Nat → Prop)
    (hlen : ∀ sb ∈ blocks, sb.1.length = fbNdim blocks)
    (hQ : ∀ sb ∈ blocks, ∀ p ∈ sb.1.zip sb.2.shape, Q p)
    (h : fromBlocks sym fermi blocks duals charge oddpos = .ok a) :
    ∃ maps, blocks ≠ [] ∧ FbPost Q blocks maps ∧ duals.length = fbNdim blocks
      ∧ construct sym fermi (List.zipWith (fun m d => Index.plain m d) maps duals)
          (some (charge.getD sym.zero)) blocks oddpos = .ok a := by
  unfold fromBlocks at h
  cases blocks with
  | nil => simp only [bind, Except.bind, throw, throwThe, MonadExceptOf.throw] at h; cases h
  | cons sb rest =>
    obtain ⟨s, b⟩ := sb
    simp only [bind, Except.bind, pure, Except.pure] at h
    split at h
    · cases h
    · rename_i maps hloop
      have hn : fbNdim ((s, b) :: rest) = s.length := rfl
      have hdl : duals.length = s.length := by
        by_contra hne
        have : (duals.length != s.length) = true := by simpa using hne
        simp only [this, if_true, throw, throwThe, MonadExceptOf.throw] at h
        cases h
      have hc : (duals.length != s.length) = false := by simpa using hdl
      simp only [hc, Bool.false_eq_true, if_false] at h
      refine ⟨maps, by simp, ?_, hdl, h⟩
      rw [hn] at hlen
      unfold FbPost
      rw [hn]
      generalize (s, b) :: rest = bl at hlen hQ hloop ⊢
      generalize s.length = n at hlen hloop ⊢
      have := forIn_yield_inv_mem _
        (fun pre m => MInv n Q m ∧ ∀ sb ∈ pre, MRec m (sb.1.zip sb.2.shape).zipIdx) bl ?_
        [] (List.replicate n []) maps ⟨⟨by simp, ?_⟩, by simp⟩ hloop
      · simpa using this
      · -- one block
        rintro pre x st r hx ⟨hI, hrec⟩ hr
        split at hr
        · cases hr
        · rename_i v hinner
          simp only [Except.ok.injEq] at hr
          refine ⟨v, hr.symm, ?_⟩
          have hJ := forIn_yield_inv_mem _
            (fun pre' m => MInv n Q m ∧ MExt st m ∧ MRec m pre') (x.1.zip x.2.shape).zipIdx ?_
            [] st v ⟨hI, MExt.refl _, by simp [MRec]⟩ hinner
          · simp only [List.nil_append] at hJ
            obtain ⟨j1, j2, j3⟩ := hJ
            refine ⟨j1, ?_⟩
            intro sb hsb
            rcases List.mem_append.mp hsb with hsb | hsb
            · exact (hrec sb hsb).ext j2
            · simp only [List.mem_singleton] at hsb
              subst hsb; exact j3
          · -- one axis of the block
            rintro pre' y m r' hy ⟨k1, k2, k3⟩ hr'
            obtain ⟨⟨c, d⟩, i⟩ := y
            have hy' := List.mem_zipIdx_iff_getElem?.mp hy
            simp only at hy'
            have hi : i < n := by
              have h1 := (List.getElem?_eq_some_iff.mp hy').1
              have h2 := hlen x hx
              simp only [List.length_zip] at h1
              omega
            have hq : Q (c, d) := hQ x hx _ (List.mem_of_getElem? hy')
            simp only at hr'
            split at hr'
            · rename_i hnone
              simp only [Except.ok.injEq] at hr'
              obtain ⟨s1, s2, s3⟩ := fb_step_none k1 hi hq hnone
              refine ⟨_, hr'.symm, s1, k2.trans s2, ?_⟩
              intro z hz
              rcases List.mem_append.mp hz with hz | hz
              · exact (k3.ext s2) z hz
              · simp only [List.mem_singleton] at hz
                subst hz; exact s3
            · rename_i d0 hsome
              split at hr'
              · simp only [throw, throwThe, MonadExceptOf.throw] at hr'; cases hr'
              · rename_i hdd
                simp only [Except.ok.injEq] at hr'
                have hd : d = d0 := by simpa using hdd
                subst hd
                refine ⟨_, hr'.symm, k1, k2, ?_⟩
                intro z hz
                rcases List.mem_append.mp hz with hz | hz
                · exact k3 z hz
                · simp only [List.mem_singleton] at hz
                  subst hz; exact hsome
      · intro m hm
        have := List.eq_of_mem_replicate hm
        subst this
        simp

/-- `get_block_shape` axis by axis -/
theorem blockShape?_of_getElem {idx : List Index} {s : Sector} {shp : List Nat}
    (hs : s.length = idx.length) (hp : shp.length = idx.length)
    (h : ∀ i (h1 : i < idx.length), idx[i].sizeOf? (s[i]'(by omega)) = some (shp[i]'(by omega))) :
    Arr.blockShape? idx s = some shp := by
  rw [blockShape?_iff]
  refine ⟨idx.zip (s.zip shp), ?_, ?_, ?_, ?_⟩
  · intro t ht
    obtain ⟨i, hi, rfl⟩ := List.getElem_of_mem ht
    simp only [List.length_zip] at hi
    simp only [List.getElem_zip]
    exact h i (by omega)
  · rw [List.map_fst_zip]; simp only [List.length_zip]; omega
  · apply List.ext_getElem
    · simp only [List.length_map, List.length_zip]; omega
    · intro i h1 h2
      simp only [List.getElem_map, List.getElem_zip]
  · apply List.ext_getElem
    · simp only [List.length_map, List.length_zip]; omega
    · intro i h1 h2
      simp only [List.getElem_map, List.getElem_zip]

theorem map_dual_zipWith_plain (maps : List (List (Charge × Nat))) (duals : List Bool)
    (h : maps.length = duals.length) :
    (List.zipWith (fun m d => Index.plain m d) maps duals).map Index.dual = duals := by
  induction maps generalizing duals with
  | nil => cases duals with
    | nil => rfl
    | cons d ds => simp at h
  | cons m ms ih =>
    cases duals with
    | nil => simp at h
    | cons d ds =>
      simp only [List.zipWith_cons_cons, List.map_cons, Index.plain, Index.dual, List.cons.injEq,
        true_and]
      exact ih ds (by simpa using h)

/-- the decidable precondition of `from_blocks`: all sectors as long as the first one, made of
    valid charges and conserving the charge w.r.t. `duals`; blocks well formed, of the rank of
    their sector, with positive sizes.  Validity of the total charge is NOT a clause: `from_blocks`
    throws without blocks, and a conserved charge is a `combine`, hence valid (`Sym.combine_valid`).
    `duals.length = rank` is checked by `from_blocks` itself. -/
def fromBlocksOkB (sym : Sym) (fermi : Bool) (blocks : List (Sector × Blk R)) (duals : List Bool)
    (charge : Option Charge) (oddpos : List (Int × Bool)) : Bool :=
  blocks.all (fun sb =>
      sb.1.length == fbNdim blocks
      && sb.1.all sym.valid
      && sb.2.wf
      && sb.2.shape.length == sb.1.length
      && sb.2.shape.all (fun d => decide (0 < d))
      && Arr.sectorCharge sym duals sb.1 == charge.getD sym.zero)
  && oddposOkB sym fermi (charge.getD sym.zero) oddpos

structure FromBlocksOk (sym : Sym) (fermi : Bool) (blocks : List (Sector × Blk R))
    (duals : List Bool) (charge : Option Charge) (oddpos : List (Int × Bool)) : Prop where
  blk : ∀ sb ∈ blocks, sb.1.length = fbNdim blocks
    ∧ (∀ c ∈ sb.1, sym.valid c = true)
    ∧ sb.2.wf = true
    ∧ sb.2.shape.length = sb.1.length
    ∧ (∀ d ∈ sb.2.shape, 0 < d)
    ∧ Arr.sectorCharge sym duals sb.1 = charge.getD sym.zero
  odd : if fermi = true
    then (oddpos.length % 2 == 1) = sym.parity (charge.getD sym.zero)
    else oddpos = []

theorem fromBlocksOkB_iff (sym : Sym) (fermi : Bool) (blocks : List (Sector × Blk R))
    (duals : List Bool) (charge : Option Charge) (oddpos : List (Int × Bool)) :
    fromBlocksOkB sym fermi blocks duals charge oddpos = true
      ↔ FromBlocksOk sym fermi blocks duals charge oddpos := by
  unfold fromBlocksOkB oddposOkB
  simp only [Bool.and_eq_true, List.all_eq_true, beq_iff_eq, decide_eq_true_eq]
  constructor
  · rintro ⟨h2, h3⟩
    refine ⟨?_, ?_⟩
    · intro sb hsb
      obtain ⟨⟨⟨⟨⟨a1, a2⟩, a3⟩, a4⟩, a5⟩, a6⟩ := h2 sb hsb
      exact ⟨a1, a2, a3, a4, a5, a6⟩
    · split
      · rename_i hf; simpa [hf] using h3
      · rename_i hf; simpa [hf] using h3
  · rintro ⟨h2, h3⟩
    refine ⟨?_, ?_⟩
    · intro sb hsb
      obtain ⟨a1, a2, a3, a4, a5, a6⟩ := h2 sb hsb
      exact ⟨⟨⟨⟨⟨a1, a2⟩, a3⟩, a4⟩, a5⟩, a6⟩
    · split at h3
      · rename_i hf; simpa [hf] using h3
      · rename_i hf; simpa [hf] using h3

/-- **`from_blocks` returns a valid array** (Prop-level hypotheses) -/
theorem fromBlocks_valid' {sym : Sym} {fermi : Bool} {blocks : List (Sector × Blk R)}
    {duals : List Bool} {charge : Option Charge} {oddpos : List (Int × Bool)} {a : Arr R}
    (hok : FromBlocksOk sym fermi blocks duals charge oddpos)
    (h : fromBlocks sym fermi blocks duals charge oddpos = .ok a) : Valid a := by
  obtain ⟨maps, hne, ⟨⟨hml, hmm⟩, hrec⟩, hdl, hc⟩ :=
    fromBlocks_inv (fun p => 0 < p.2 ∧ sym.valid p.1 = true)
      (fun sb hsb => (hok.blk sb hsb).1)
      (fun sb hsb p hp => by
        obtain ⟨_, a2, _, _, a5, _⟩ := hok.blk sb hsb
        exact ⟨a5 _ (List.of_mem_zip hp).2, a2 _ (List.of_mem_zip hp).1⟩) h
  refine construct_valid' ⟨?_, ?_, ?_, ?_⟩ hc
  · intro i hi
    obtain ⟨k, hk, rfl⟩ := List.getElem_of_mem hi
    have hk' : k < maps.length := by simp only [List.length_zipWith] at hk; omega
    simp only [List.getElem_zipWith, Index.plain]
    obtain ⟨m1, m2⟩ := hmm _ (List.getElem_mem hk')
    exact (wfB_none _ _ _).mpr (cmOk_sortCm m1 m2)
  · rintro c hc'; cases hc'
    cases blocks with
    | nil => exact absurd rfl hne
    | cons sb rest =>
      rw [← (hok.blk sb (by simp)).2.2.2.2.2]
      exact Sym.combine_valid _ _
  · intro sb hsb
    obtain ⟨a1, a2, a3, a4, a5, a6⟩ := hok.blk sb hsb
    have hil : (List.zipWith (fun m d => Index.plain m d) maps duals).length = fbNdim blocks := by
      simp only [List.length_zipWith]; omega
    refine ⟨by rw [hil]; exact a1, ?_, a3, ?_⟩
    · apply blockShape?_of_getElem (by rw [hil]; exact a1) (by rw [hil]; omega)
      intro i hi
      simp only [List.getElem_zipWith, Index.plain, Index.sizeOf?, Index.cm]
      rw [hil] at hi
      have hmem : maps[i]'(by omega) ∈ maps := List.getElem_mem _
      apply alookup_sortCm (hmm _ hmem).1
      have hz : ((sb.1[i]'(by omega), sb.2.shape[i]'(by omega)), i) ∈ (sb.1.zip sb.2.shape).zipIdx := by
        rw [List.mem_zipIdx_iff_getElem?]
        simp only
        rw [List.getElem?_eq_getElem (by simp only [List.length_zip]; omega)]
        simp only [List.getElem_zip]
      have := hrec sb hsb _ hz
      simp only at this
      have hg : maps.getD i [] = maps[i]'(by omega) := by
        simp [List.getD_eq_getElem?_getD, show i < maps.length by omega]
      rw [hg] at this
      exact alookup_some_mem this
    · rw [map_dual_zipWith_plain _ _ (by omega)]
      exact a6
  · exact hok.odd

/-- **`from_blocks` returns a valid array** (decidable guard) -/
theorem fromBlocks_valid {sym : Sym} {fermi : Bool} {blocks : List (Sector × Blk R)}
    {duals : List Bool} {charge : Option Charge} {oddpos : List (Int × Bool)} {a : Arr R}
    (hok : fromBlocksOkB sym fermi blocks duals charge oddpos = true)
    (h : fromBlocks sym fermi blocks duals charge oddpos = .ok a) : a.validB = true :=
  (validB_iff a).mpr (fromBlocks_valid' ((fromBlocksOkB_iff _ _ _ _ _ _).mp hok) h)

/-! ### (b) examples -/

section ExamplesB

/-- U1 blocks given with the larger charge first, so the chargemaps get sorted -/
def exFbU1 : List (Sector × Blk Int) :=
  [([(1, 0), (1, 0)], ⟨[1, 3], #[3, 4, 5]⟩), ([(0, 0), (0, 0)], ⟨[2, 1], #[1, 2]⟩),
   ([(-1, 0), (-1, 0)], ⟨[2, 2], #[6, 7, 8, 9]⟩)]

example : fromBlocksOkB .U1 false exFbU1 [false, true] none [] = true := by decide
example : ∃ a, fromBlocks .U1 false exFbU1 [false, true] none [] = .ok a ∧ a.validB = true
    ∧ a.indices.map Index.cm = [[((-1, 0), 2), ((0, 0), 2), ((1, 0), 1)],
                                [((-1, 0), 2), ((0, 0), 1), ((1, 0), 3)]] :=
  ⟨_, rfl, by decide, by decide⟩
-- fermionic Z2, odd charge, one label; the second block repeats the charges of the first axis
example : fromBlocksOkB .Z2 true exBlocksZ2 [true, false] (some (1, 0)) [(5, true)] = true := by decide
example : ∃ a, fromBlocks .Z2 true exBlocksZ2 [true, false] (some (1, 0)) [(5, true)] = .ok a
    ∧ a.validB = true := ⟨_, rfl, by decide⟩
example (a : Arr Int) (h : fromBlocks .Z2 true exBlocksZ2 [true, false] (some (1, 0)) [(5, true)] = .ok a) :
    a.validB = true := fromBlocks_valid (by decide) h
-- inconsistent sizes are rejected by the loops themselves
example : fromBlocks .U1 false
    [([(0, 0), (0, 0)], (⟨[2, 1], #[1, 2]⟩ : Blk Int)), ([(0, 0), (1, 0)], ⟨[3, 1], #[1, 2, 3]⟩)]
    [false, false] none [] = .error Err.value := rfl

/-- a charge label outside the group is accepted (U1 ignores the second component) -/
theorem fromBlocks_bad_label_invalid :
    ∃ a, fromBlocks .U1 false [([(0, 1), (0, 0)], (⟨[2, 1], #[1, 2]⟩ : Blk Int))] [false, true] none []
        = .ok a ∧ a.validB = false ∧ a.invalidReason = "index-table" := ⟨_, rfl, by decide, by decide⟩

/-- an empty block gives a table with a size-zero charge -/
theorem fromBlocks_zero_size_invalid :
    ∃ a, fromBlocks .U1 false [([(0, 0), (0, 0)], (⟨[0, 1], #[]⟩ : Blk Int))] [false, true] none []
        = .ok a ∧ a.validB = false ∧ a.invalidReason = "index-table" := ⟨_, rfl, by decide, by decide⟩

/-- a sector that does not conserve the charge -/
theorem fromBlocks_bad_sector_invalid :
    ∃ a, fromBlocks .U1 false (exFbU1 ++ [([(1, 0), (0, 0)], ⟨[1, 1], #[9]⟩)]) [false, true] none []
        = .ok a ∧ a.validB = false ∧ a.invalidReason = "sector-charge" := ⟨_, rfl, by decide, by decide⟩

/-- a block whose data does not fill its shape -/
theorem fromBlocks_bad_data_invalid :
    ∃ a, fromBlocks .U1 false [([(0, 0), (0, 0)], (⟨[2, 1], #[1]⟩ : Blk Int))] [false, true] none []
        = .ok a ∧ a.validB = false ∧ a.invalidReason = "block-shape" := ⟨_, rfl, by decide, by decide⟩

/-- a block of lower rank than its sector -/
theorem fromBlocks_bad_rank_invalid :
    ∃ a, fromBlocks .U1 false [([(0, 0), (0, 0)], (⟨[2], #[1, 2]⟩ : Blk Int))] [false, true] none []
        = .ok a ∧ a.validB = false := ⟨_, rfl, by decide⟩

/-- a later sector shorter than the first -/
theorem fromBlocks_short_sector_invalid :
    ∃ a, fromBlocks .U1 false
        [([(0, 0), (0, 0)], (⟨[2, 1], #[1, 2]⟩ : Blk Int)), ([(0, 0)], ⟨[2], #[1, 2]⟩)] [false, true] none []
        = .ok a ∧ a.validB = false := ⟨_, rfl, by decide⟩

/-- the label bookkeeping is not checked by `from_blocks` either -/
theorem fromBlocks_odd_even_labels_invalid :
    ∃ a, fromBlocks .Z2 true exBlocksZ2 [true, false] (some (1, 0)) [(5, true), (6, false)] = .ok a
      ∧ a.validB = false ∧ a.invalidReason = "oddpos-parity" := ⟨_, rfl, by decide, by decide⟩

end ExamplesB


/-! ## (c) `fromDense` -/

/-- the groups of one dense axis: distinct charges, all occurring among the labels, none empty -/
theorem chargeGroups_spec (labels : List Charge) :
    ((chargeGroups labels).map (·.1)).Nodup
    ∧ ∀ p ∈ chargeGroups labels, p.1 ∈ labels ∧ 0 < p.2.length := by
  unfold chargeGroups
  apply foldl_inv (fun acc : List (Charge × List Nat) =>
    (acc.map (·.1)).Nodup ∧ ∀ p ∈ acc, p.1 ∈ labels ∧ 0 < p.2.length)
  · simp
  · rintro acc ⟨c, i⟩ hx ⟨h1, h2⟩
    have hc : c ∈ labels := by
      have := List.mem_zipIdx_iff_getElem?.mp hx
      exact List.mem_of_getElem? this
    simp only
    split
    · rename_i hnone
      refine ⟨?_, ?_⟩
      · rw [List.map_append]
        refine List.nodup_append.mpr ⟨h1, by simp, ?_⟩
        intro a ha b' hb'
        simp only [List.map_cons, List.map_nil, List.mem_singleton] at hb'
        subst hb'
        intro hab; subst hab
        exact (alookup_eq_none_iff.mp hnone) ha
      · intro p hp
        rcases List.mem_append.mp hp with hp | hp
        · exact h2 p hp
        · simp only [List.mem_singleton] at hp
          subst hp; exact ⟨hc, by simp⟩
    · rename_i l hl
      refine ⟨ainsert_keys_nodup _ _ h1, ?_⟩
      intro p hp
      rcases mem_ainsert hp with rfl | hp
      · exact ⟨hc, by simp⟩
      · exact h2 p hp


theorem map_dual_zipWith_plain' {α : Type} (f : α → List (Charge × Nat)) (xs : List α)
    (duals : List Bool) (h : xs.length = duals.length) :
    (List.zipWith (fun x d => Index.plain (f x) d) xs duals).map Index.dual = duals := by
  induction xs generalizing duals with
  | nil => cases duals with
    | nil => rfl
    | cons d ds => simp at h
  | cons m ms ih =>
    cases duals with
    | nil => simp at h
    | cons d ds =>
      simp only [List.zipWith_cons_cons, List.map_cons, Index.plain, Index.dual, List.cons.injEq,
        true_and]
      exact ih ds (by simpa using h)

/-- one axis' groups: distinct valid charges, no empty group -/
def DenseGroupsOk (sym : Sym) (g : List (Charge × List Nat)) : Prop :=
  (g.map (·.1)).Nodup ∧ ∀ p ∈ g, sym.valid p.1 = true ∧ 0 < p.2.length

/-- the array `from_dense` assembles from position groups, for any way `F` of filling the blocks -/
theorem dense_construct_valid {sym : Sym} {fermi : Bool} (groups : List (List (Charge × List Nat)))
    (duals : List Bool) (ch : Charge) (oddpos : List (Int × Bool)) (F : Sector → List Nat → R)
    {a : Arr R}
    (hg : ∀ g ∈ groups, DenseGroupsOk sym g) (hl : duals.length = groups.length)
    (hch : sym.valid ch = true)
    (hodd : if fermi = true then (oddpos.length % 2 == 1) = sym.parity ch else oddpos = [])
    (h : construct sym fermi
          (List.zipWith (fun g d => Index.plain (List.map (fun x => (x.fst, x.snd.length)) g) d)
            groups duals)
          (some ch)
          (List.filterMap
            (fun x =>
              if (Arr.sectorCharge sym duals x == ch) = true then
                some (x, Blk.ofFn
                      (List.map List.length (List.zipWith (fun g c => (alookup g c).getD []) groups x))
                      (F x))
              else none)
            (cartesian (List.map (fun g => List.map (fun x => x.fst) g) groups)))
          oddpos = .ok a) : Valid a := by
  have hkeys : ∀ g : List (Charge × List Nat),
      (g.map (fun x => (x.1, x.2.length))).map (·.1) = g.map (·.1) := by
    intro g; rw [List.map_map]; rfl
  refine construct_valid' ⟨?_, ?_, ?_, hodd⟩ h
  · intro i hi
    obtain ⟨k, hk, rfl⟩ := List.getElem_of_mem hi
    have hk' : k < groups.length := by simp only [List.length_zipWith] at hk; omega
    simp only [List.getElem_zipWith, Index.plain]
    obtain ⟨g1, g2⟩ := hg _ (List.getElem_mem hk')
    refine (wfB_none _ _ _).mpr (cmOk_sortCm (by rw [hkeys]; exact g1) ?_)
    intro p hp
    obtain ⟨q, hq, rfl⟩ := List.mem_map.mp hp
    exact ⟨(g2 q hq).2, (g2 q hq).1⟩
  · rintro c hc; cases hc; exact hch
  · intro sb hsb
    obtain ⟨x, hx, hsome⟩ := List.mem_filterMap.mp hsb
    split at hsome
    · rename_i hcons
      cases hsome
      have hF := mem_cartesian.mp hx
      have hxl : x.length = groups.length := by simpa using hF.length_eq
      have hil : (List.zipWith (fun g d => Index.plain (List.map (fun x => (x.fst, x.snd.length)) g) d)
            groups duals).length = groups.length := by
        simp only [List.length_zipWith]; omega
      refine ⟨by rw [hil]; exact hxl, ?_, ofFn_wf _ _, ?_⟩
      · simp only [ofFn_shape]
        apply blockShape?_of_getElem (by rw [hil]; exact hxl)
          (by rw [hil]; simp only [List.length_map, List.length_zipWith]; omega)
        intro i hi
        rw [hil] at hi
        simp only [List.getElem_zipWith, List.getElem_map, Index.plain, Index.sizeOf?, Index.cm]
        have hmem : x[i]'(by omega) ∈ (groups[i]'hi).map (·.1) := by
          have := hF.get (i := i) (by omega) (by simpa using hi)
          simpa using this
        obtain ⟨g1, g2⟩ := hg _ (List.getElem_mem hi)
        obtain ⟨q, hq, hqe⟩ := List.mem_map.mp hmem
        have hlk : alookup (groups[i]'hi) (x[i]'(by omega)) = some q.2 := by
          apply alookup_of_mem_nodup g1
          rw [← hqe]; exact hq
        rw [hlk]
        simp only [Option.getD_some]
        apply alookup_sortCm (by rw [hkeys]; exact g1)
        exact List.mem_map.mpr ⟨q, hq, by rw [← hqe]⟩
      · rw [map_dual_zipWith_plain' _ _ _ (by omega)]
        exact eq_of_beq hcons
    · cases hsome


/-- the decidable precondition of `from_dense` (the dense array itself need not be well formed) -/
def fromDenseOkB (sym : Sym) (fermi : Bool) (maps : List (List Charge))
    (charge : Option Charge) (oddpos : List (Int × Bool)) : Bool :=
  maps.all (fun m => m.all sym.valid)
  && sym.valid (charge.getD sym.zero)
  && oddposOkB sym fermi (charge.getD sym.zero) oddpos

structure FromDenseOk (sym : Sym) (fermi : Bool) (maps : List (List Charge))
    (charge : Option Charge) (oddpos : List (Int × Bool)) : Prop where
  lbl : ∀ m ∈ maps, ∀ c ∈ m, sym.valid c = true
  chg : sym.valid (charge.getD sym.zero) = true
  odd : if fermi = true
    then (oddpos.length % 2 == 1) = sym.parity (charge.getD sym.zero)
    else oddpos = []

theorem fromDenseOkB_iff (sym : Sym) (fermi : Bool) (maps : List (List Charge))
    (charge : Option Charge) (oddpos : List (Int × Bool)) :
    fromDenseOkB sym fermi maps charge oddpos = true ↔ FromDenseOk sym fermi maps charge oddpos := by
  unfold fromDenseOkB oddposOkB
  simp only [Bool.and_eq_true, List.all_eq_true]
  constructor
  · rintro ⟨⟨h1, h2⟩, h3⟩
    refine ⟨h1, h2, ?_⟩
    split
    · rename_i hf; simpa [hf] using h3
    · rename_i hf; simpa [hf] using h3
  · rintro ⟨h1, h2, h3⟩
    refine ⟨⟨h1, h2⟩, ?_⟩
    split at h3
    · rename_i hf; simpa [hf] using h3
    · rename_i hf; simpa [hf] using h3

/-- **`from_dense` returns a valid array** (Prop-level hypotheses; `dense.wf` is not needed) -/
theorem fromDense_valid' [Zero R] {sym : Sym} {fermi : Bool} {dense : Blk R}
    {maps : List (List Charge)} {duals : List Bool} {charge : Option Charge}
    {oddpos : List (Int × Bool)} {a : Arr R}
    (hok : FromDenseOk sym fermi maps charge oddpos)
    (h : fromDense sym fermi dense maps duals charge oddpos = .ok a) : Valid a := by
  unfold fromDense at h
  simp only [bind, Except.bind, throw, throwThe, MonadExceptOf.throw] at h
  split at h
  · cases h
  · rename_i hlen
    split at h
    · cases h
    · simp only [Bool.or_eq_true, bne_iff_ne, ne_eq, not_or, Decidable.not_not] at hlen
      refine dense_construct_valid (List.map chargeGroups maps) duals (charge.getD sym.zero) oddpos _
        ?_ (by simp only [List.length_map]; omega) hok.chg hok.odd h
      intro g hg
      obtain ⟨m, hm, rfl⟩ := List.mem_map.mp hg
      obtain ⟨s1, s2⟩ := chargeGroups_spec m
      exact ⟨s1, fun p hp => ⟨hok.lbl m hm _ (s2 p hp).1, (s2 p hp).2⟩⟩

/-- **`from_dense` returns a valid array** (decidable guard) -/
theorem fromDense_valid [Zero R] {sym : Sym} {fermi : Bool} {dense : Blk R}
    {maps : List (List Charge)} {duals : List Bool} {charge : Option Charge}
    {oddpos : List (Int × Bool)} {a : Arr R}
    (hok : fromDenseOkB sym fermi maps charge oddpos = true)
    (h : fromDense sym fermi dense maps duals charge oddpos = .ok a) : a.validB = true :=
  (validB_iff a).mpr (fromDense_valid' ((fromDenseOkB_iff _ _ _ _ _).mp hok) h)

/-! ### (c) examples -/

section ExamplesC

def exDense34 : Blk Int := ⟨[3, 4], #[1, 2, 3, 4, 5, 6, 7, 8, 9, 10, 11, 12]⟩
/-- interleaved labels, the larger charge first on the second axis -/
def exMapsU1 : List (List Charge) := [[(0, 0), (1, 0), (0, 0)], [(1, 0), (0, 0), (1, 0), (1, 0)]]

example : fromDenseOkB .U1 false exMapsU1 none [] = true := by decide
example : ∃ a, fromDense .U1 false exDense34 exMapsU1 [false, true] none [] = .ok a
    ∧ a.validB = true
    ∧ a.blocks.map (fun sb => (sb.1, sb.2.shape)) =
        [([(0, 0), (0, 0)], [2, 1]), ([(1, 0), (1, 0)], [1, 3])] :=
  ⟨_, rfl, by decide, by decide⟩
-- fermionic Z2, odd charge, one label
def exDense23 : Blk Int := ⟨[2, 3], #[1, 2, 3, 4, 5, 6]⟩
def exMapsZ2 : List (List Charge) := [[(0, 0), (1, 0)], [(1, 0), (0, 0), (0, 0)]]
example : fromDenseOkB .Z2 true exMapsZ2 (some (1, 0)) [(3, false)] = true := by decide
example : ∃ a, fromDense .Z2 true exDense23 exMapsZ2 [true, false] (some (1, 0)) [(3, false)] = .ok a
    ∧ a.validB = true ∧ a.sectors = [[(0, 0), (1, 0)], [(1, 0), (0, 0)]] :=
  ⟨_, rfl, by decide, by decide⟩
example (a : Arr Int)
    (h : fromDense .Z2 true exDense23 exMapsZ2 [true, false] (some (1, 0)) [(3, false)] = .ok a) :
    a.validB = true := fromDense_valid (by decide) h
-- the dense data need not fill the shape: the blocks are tabulated
example : ∃ a, fromDense .Z2 false (⟨[2, 3], #[1]⟩ : Blk Int) exMapsZ2 [true, false] none [] = .ok a
    ∧ a.validB = true := ⟨_, rfl, by decide⟩

/-- a label outside the group -/
theorem fromDense_bad_label_invalid :
    ∃ a, fromDense .U1 false exDense23 [[(0, 0), (0, 1)], [(0, 0), (0, 0), (0, 0)]] [false, true] none []
        = .ok a ∧ a.validB = false ∧ a.invalidReason = "index-table" := ⟨_, rfl, by decide, by decide⟩

/-- a total charge outside the group: no block matches, the array is empty and invalid -/
theorem fromDense_bad_charge_invalid :
    ∃ a, fromDense .Z2 false exDense23 exMapsZ2 [true, false] (some (2, 0)) [] = .ok a
      ∧ a.validB = false ∧ a.invalidReason = "charge-invalid" := ⟨_, rfl, by decide, by decide⟩

/-- the label bookkeeping is not checked -/
theorem fromDense_odd_even_labels_invalid :
    ∃ a, fromDense .Z2 true exDense23 exMapsZ2 [true, false] (some (1, 0)) [(3, false), (4, true)]
        = .ok a ∧ a.validB = false ∧ a.invalidReason = "oddpos-parity" := ⟨_, rfl, by decide, by decide⟩

theorem fromDense_abelian_labels_invalid :
    ∃ a, fromDense .U1 false exDense34 exMapsU1 [false, true] none [(0, false)] = .ok a
      ∧ a.validB = false := ⟨_, rfl, by decide⟩

end ExamplesC


/-! ## (d) `fromFillFn` -/

theorem except_bind_ok {α β ε : Type} {x : Except ε α} {f : α → Except ε β} {r : β}
    (h : x >>= f = .ok r) : ∃ a, x = .ok a ∧ f a = .ok r := by
  cases x with
  | error e => cases h
  | ok a => exact ⟨a, rfl, h⟩

theorem exceptMapM_forall₂ {α β ε : Type} (f : α → Except ε β) :
    ∀ (l : List α) (r : List β), l.mapM f = .ok r → List.Forall₂ (fun x y => f x = .ok y) l r := by
  intro l
  induction l with
  | nil =>
    intro r h
    simp only [List.mapM_nil, pure, Except.pure, Except.ok.injEq] at h
    subst h; exact List.Forall₂.nil
  | cons x xs ih =>
    intro r h
    rw [List.mapM_cons] at h
    obtain ⟨y, hy, h⟩ := except_bind_ok h
    obtain ⟨ys, hys, h⟩ := except_bind_ok h
    simp only [pure, Except.pure, Except.ok.injEq] at h
    subst h
    exact List.Forall₂.cons hy (ih ys hys)

/-- the contract of the fill function: a well-formed block of the requested shape -/
def FillOk (indices : List Index) (fill : Sector → List Nat → Blk R) : Prop :=
  ∀ s shp, Arr.blockShape? indices s = some shp → (fill s shp).shape = shp ∧ (fill s shp).wf = true

/-- the decidable part of the precondition of `from_fill_fn` -/
def fromFillFnOkB (sym : Sym) (fermi : Bool) (indices : List Index) (charge : Option Charge)
    (oddpos : List (Int × Bool)) : Bool :=
  Index.wfListB sym indices
  && sym.valid (charge.getD sym.zero)
  && oddposOkB sym fermi (charge.getD sym.zero) oddpos

theorem fromFillFnOkB_construct {sym : Sym} {fermi : Bool} {indices : List Index}
    {charge : Option Charge} {oddpos : List (Int × Bool)}
    (h : fromFillFnOkB sym fermi indices charge oddpos = true) :
    ConstructOk sym fermi indices (some (charge.getD sym.zero)) ([] : List (Sector × Blk R)) oddpos := by
  rw [← constructOkB_iff]
  unfold fromFillFnOkB at h
  simp only [Bool.and_eq_true] at h
  simp only [constructOkB, Bool.and_eq_true, List.all_nil, Bool.and_true]
  exact ⟨⟨h.1.1, h.1.2⟩, h.2⟩

/-- **`from_fill_fn` returns a valid array** -/
theorem fromFillFn_valid' {sym : Sym} {fermi : Bool} {indices : List Index} {charge : Option Charge}
    {fill : Sector → List Nat → Blk R} {oddpos : List (Int × Bool)} {a : Arr R}
    (hok : fromFillFnOkB sym fermi indices charge oddpos = true) (hfill : FillOk indices fill)
    (h : fromFillFn sym fermi indices charge fill oddpos = .ok a) : Valid a := by
  unfold fromFillFn at h
  obtain ⟨a0, h0, h1⟩ := except_bind_ok h
  obtain ⟨blocks, hb, h2⟩ := except_bind_ok h1
  simp only [pure, Except.pure, Except.ok.injEq] at h2
  subst h2
  clear h h1
  have hv0 : Valid a0 := construct_valid' (fromFillFnOkB_construct hok) h0
  have ha0 := construct_ok h0
  have e2 : a0.indices = indices := by rw [ha0]; rfl
  have hF := exceptMapM_forall₂ _ _ _ hb
  have hcm : ∀ ix ∈ a0.indices, CmOk a0.sym ix.cm := fun ix hix => wfB_cmOk (hv0.idx ix hix)
  have hspec : blocks.map (·.1) = a0.genValidSectors
      ∧ ∀ sb ∈ blocks, sb.1 ∈ a0.genValidSectors
          ∧ ∃ shp, Arr.blockShape? indices sb.1 = some shp ∧ sb.2 = fill sb.1 shp := by
    clear hb
    generalize a0.genValidSectors = secs at hF
    induction hF with
    | nil => simp
    | cons hxy _ ih =>
      rename_i x y xs ys
      obtain ⟨ih1, ih2⟩ := ih
      split at hxy
      · rename_i shp hshp
        simp only [pure, Except.pure, Except.ok.injEq] at hxy
        subst hxy
        refine ⟨by simp [ih1], ?_⟩
        intro sb hsb
        rcases List.mem_cons.mp hsb with rfl | hsb
        · exact ⟨by simp, shp, hshp, rfl⟩
        · obtain ⟨k1, k2⟩ := ih2 sb hsb
          exact ⟨List.mem_cons_of_mem _ k1, k2⟩
      · cases hxy
  obtain ⟨hkeys, hblk⟩ := hspec
  refine ⟨hv0.idx, hv0.chg, ?_, ?_, hv0.sgn⟩
  · show (blocks.map (·.1)).Nodup
    rw [hkeys]
    apply Arr.genValidSectors_nodup_aux
    intro ix hix
    exact sortedCharges_nodup (hcm ix hix).1
  · intro sb hsb
    obtain ⟨hmem, shp, hshp, hfl⟩ := hblk sb hsb
    have hm := (Arr.mem_genValidSectors a0
      (fun ix hix c hc => by
        obtain ⟨p, hp, rfl⟩ := List.mem_map.mp hc
        exact ((hcm ix hix).2 p hp).2) hv0.chg sb.1).mp hmem
    obtain ⟨f1, f2⟩ := hfill sb.1 shp hshp
    refine ⟨⟨hm.1.length_eq, ?_⟩, ?_, by rw [hfl]; exact f2⟩
    · simpa [Arr.isValidSector, Arr.duals] using hm.2
    · show Arr.blockShape? a0.indices sb.1 = some sb.2.shape
      rw [e2, hshp, hfl, f1]

/-- **`from_fill_fn` returns a valid array** (decidable guard plus the fill contract) -/
theorem fromFillFn_valid {sym : Sym} {fermi : Bool} {indices : List Index} {charge : Option Charge}
    {fill : Sector → List Nat → Blk R} {oddpos : List (Int × Bool)} {a : Arr R}
    (hok : fromFillFnOkB sym fermi indices charge oddpos = true) (hfill : FillOk indices fill)
    (h : fromFillFn sym fermi indices charge fill oddpos = .ok a) : a.validB = true :=
  (validB_iff a).mpr (fromFillFn_valid' hok hfill h)

/-- any tabulating fill function meets the contract -/
theorem fillOk_ofFn (indices : List Index) (f : Sector → List Nat → R) :
    FillOk indices (fun s shp => Blk.ofFn shp (f s)) := fun _ _ _ => ⟨rfl, ofFn_wf _ _⟩

/-! ### (d) examples -/

section ExamplesD

def exFill : Sector → List Nat → Blk Int := fun s shp => Blk.ofFn shp (fun i => (s.length + i.length : Nat))

example : fromFillFnOkB .U1 false exIdxU1 none [] = true := by decide
example : ∃ a, fromFillFn .U1 false exIdxU1 none exFill [] = .ok a ∧ a.validB = true
    ∧ a.sectors = [[(0, 0), (0, 0)], [(1, 0), (1, 0)]] := ⟨_, rfl, by decide, by decide⟩
example : ∃ a, fromFillFn .Z2 true exIdxZ2 (some (1, 0)) exFill [(0, true)] = .ok a ∧ a.validB = true
    ∧ a.sectors = [[(0, 0), (1, 0)], [(1, 0), (0, 0)]] := ⟨_, rfl, by decide, by decide⟩
example (a : Arr Int) (h : fromFillFn .Z2 true exIdxZ2 (some (1, 0)) exFill [(0, true)] = .ok a) :
    a.validB = true := fromFillFn_valid (by decide) (fillOk_ofFn _ _) h

/-- a fill function that ignores the requested shape -/
theorem fromFillFn_bad_fill_invalid :
    ∃ a, fromFillFn .U1 false exIdxU1 none (fun _ _ => (⟨[1], #[0]⟩ : Blk Int)) [] = .ok a
      ∧ a.validB = false ∧ a.invalidReason = "block-shape" := ⟨_, rfl, by decide, by decide⟩

/-- a total charge outside the group -/
theorem fromFillFn_bad_charge_invalid :
    ∃ a, fromFillFn .Z2 false exIdxZ2 (some (3, 0)) exFill [] = .ok a ∧ a.validB = false :=
  ⟨_, rfl, by decide⟩

/-- the label bookkeeping is not checked -/
theorem fromFillFn_odd_even_labels_invalid :
    ∃ a, fromFillFn .Z2 true exIdxZ2 (some (1, 0)) exFill [(0, true), (1, true)] = .ok a
      ∧ a.validB = false ∧ a.invalidReason = "oddpos-parity" := ⟨_, rfl, by decide, by decide⟩

end ExamplesD

end ValidP
end SymmModel
