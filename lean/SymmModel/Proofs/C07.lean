/-
  SymmModel.Proofs.C07 — helper lemmas of C07 (core Lean only).
-/
import SymmModel.Model.Reshape
namespace SymmModel.C07
open SymmModel SymmModel.Reshape

/-! ### helper lemmas -/

theorem beqNats_iff {a b : List Nat} : beqNats a b = true ↔ a = b := by
  induction a generalizing b with
  | nil => cases b <;> simp [beqNats]
  | cons x xs ih =>
    cases b with
    | nil => simp [beqNats]
    | cons y ys => simp [beqNats, ih]

theorem beqNats_refl (a : List Nat) : beqNats a a = true := beqNats_iff.mpr rfl

theorem zip_sizes_subs (st : SymShape) : (SymShape.sizes st).zip (SymShape.subs st) = st := by
  induction st with
  | nil => rfl
  | cons x xs ih =>
    simp only [SymShape.sizes, SymShape.subs, List.map_cons, List.zip_cons_cons] at ih ⊢
    rw [ih]

theorem sizes_length (st : SymShape) : (SymShape.sizes st).length = st.length := by
  simp [SymShape.sizes]

theorem subs_length (st : SymShape) : (SymShape.subs st).length = st.length := by
  simp [SymShape.subs]

theorem nones_length (shape : List Nat) : (nones shape).length = shape.length := by
  simp [nones]

theorem natbeq_refl (n : Nat) : Nat.beq n n = true := by simp

/-- the certificate in terms of the symbolic execution -/
theorem wfB_iff {shape subsizes newshape plan} :
    Plan.wfB shape subsizes newshape plan = true ↔
      shape.length = subsizes.length ∧
      ∃ r, plan.exec (shape.zip subsizes) = some r ∧ SymShape.sizes r = newshape := by
  unfold Plan.wfB
  cases h : plan.exec (shape.zip subsizes) with
  | none => simp
  | some r => simp [beqNats_iff]

theorem mem_dedup {t : List Nat} {l : List (List Nat)} : t ∈ dedup l ↔ t ∈ l := by
  induction l with
  | nil => simp [dedup]
  | cons u us ih =>
    simp only [dedup, List.mem_cons, List.mem_filter, ih]
    constructor
    · rintro (h | ⟨h, _⟩)
      · exact Or.inl h
      · exact Or.inr h
    · intro h
      by_cases e : t = u
      · exact Or.inl e
      · rcases h with h | h
        · exact absurd h e
        · refine Or.inr ⟨h, ?_⟩
          have : beqNats u t = false := by
            cases hb : beqNats u t with
            | false => rfl
            | true => exact absurd (beqNats_iff.mp hb).symm e
          simp [this]

theorem mem_shapesOfLen {n : Nat} {s : List Nat} :
    s ∈ shapesOfLen n ↔ s.length = n ∧ ∀ d ∈ s, d ∈ sizes5 := by
  induction n generalizing s with
  | zero =>
    simp only [shapesOfLen, List.mem_singleton]
    constructor
    · rintro rfl; simp
    · rintro ⟨h, _⟩; exact List.eq_nil_of_length_eq_zero h
  | succ n ih =>
    simp only [shapesOfLen, List.mem_flatMap, List.mem_map]
    constructor
    · rintro ⟨d, hd, r, hr, rfl⟩
      have := ih.mp hr
      refine ⟨by simp [this.1], ?_⟩
      intro x hx
      rcases List.mem_cons.mp hx with rfl | hx
      · exact hd
      · exact this.2 x hx
    · rintro ⟨hl, hs⟩
      cases s with
      | nil => simp at hl
      | cons d r =>
        refine ⟨d, hs d (List.mem_cons_self), r, ih.mpr ⟨by simpa using hl, ?_⟩, rfl⟩
        intro x hx
        exact hs x (List.mem_cons_of_mem _ hx)


/-! ### the table entry means the round-trip statement -/

theorem pairOk_roundTrip {shape target : List Nat} (h : pairOk shape target = true) :
    RoundTrip shape target := by
  unfold pairOk at h
  split at h
  · exact absurd h (by simp)
  · rename_i p hp
    split at h
    · exact absurd h (by simp)
    · rename_i st hst
      rw [Bool.and_eq_true] at h
      obtain ⟨h1, h⟩ := h
      have h1' := beqNats_iff.mp h1
      split at h
      · exact absurd h (by simp)
      · rename_i q hq
        split at h
        · exact absurd h (by simp)
        · rename_i st' hst'
          rw [Bool.and_eq_true] at h
          obtain ⟨h2, h3⟩ := h
          have h2' := beqNats_iff.mp h2
          refine ⟨p, st, hp, ?_, hst, h1', q, st', hq, ?_, hst', h2', ?_⟩
          · exact wfB_iff.mpr ⟨(nones_length shape).symm, st, hst, h1'⟩
          · refine wfB_iff.mpr ⟨by rw [sizes_length, subs_length], st', ?_, h2'⟩
            rw [zip_sizes_subs]; exact hst'
          · intro x hx
            have := (List.all_eq_true.mp h3) x hx
            simpa using this

theorem shapeOk_roundTrip {shape : List Nat} (h : shapeOk shape = true)
    {target : List Nat} (ht : target ∈ targets shape) (hne : target ≠ []) :
    RoundTrip shape target := by
  unfold shapeOk at h
  have := (List.all_eq_true.mp h) target
    (List.mem_filter.mpr ⟨mem_dedup.mpr ht, by cases target <;> simp_all⟩)
  exact pairOk_roundTrip this

theorem chunkOk_roundTrip {pre : List Nat} {n : Nat} (h : chunkOk pre n = true)
    {r : List Nat} (hr : r.length = n) (hs : ∀ d ∈ r, d ∈ sizes5)
    {target : List Nat} (ht : target ∈ targets (pre ++ r)) (hne : target ≠ []) :
    RoundTrip (pre ++ r) target := by
  unfold chunkOk at h
  exact shapeOk_roundTrip ((List.all_eq_true.mp h) r (mem_shapesOfLen.mpr ⟨hr, hs⟩)) ht hne


/-! ### the planner on `shape → shape` and on the empty target -/

theorem nones_getElem? (shape : List Nat) (i : Nat) (h : i < shape.length) :
    (nones shape)[i]? = some none := by
  simp [nones, h]

/-- the matching loop on `shape → shape` without fused axes only appends "o" labels -/
theorem mainLoop_self (shape : List Nat) :
    ∀ (rest pre : List Nat) (fuel k : Nat) (term : List Lbl) (sq us fs ex : List Nat) (a1 a2 : Bool),
      shape = pre ++ rest → rest.length ≤ fuel →
      mainLoop shape shape (nones shape) fuel ⟨pre.length, pre.length, k, term, sq, us, fs, ex, a1, a2⟩
        = .ok ⟨shape.length, shape.length, k + rest.length, term ++ List.replicate rest.length Lbl.o,
               sq, us, fs, ex, a1, a2⟩ := by
  intro rest
  induction rest with
  | nil =>
    intro pre fuel k term sq us fs ex a1 a2 hs _
    have hl : shape.length = pre.length := by simp [hs]
    cases fuel with
    | zero => simp [mainLoop, hl, pure, Except.pure]
    | succ f =>
      have : shape[pre.length]? = none := by simp [hl]
      simp [mainLoop, hl, pure, Except.pure]
  | cons d rest ih =>
    intro pre fuel k term sq us fs ex a1 a2 hs hf
    cases fuel with
    | zero => simp at hf
    | succ f =>
      have hlt : pre.length < shape.length := by simp [hs]
      have hget : shape[pre.length]? = some d := by simp [hs]
      have hs' : shape = (pre ++ [d]) ++ rest := by simp [hs]
      have := ih (pre ++ [d]) f (k + 1) (term ++ [Lbl.o]) sq us fs ex a1 a2 hs' (by simpa using hf)
      simp only [List.length_append, List.length_cons, List.length_nil] at this
      simp only [mainLoop, hget, nones_getElem? shape _ hlt, unfuseMatch]
      simp only [Nat.beq_refl, if_true]
      rw [this]
      simp [List.replicate_succ, Nat.add_comm, Nat.add_left_comm]

theorem reshape_self_id' (shape : List Nat) :
    calcReshapeArgs shape shape (nones shape) = .ok ([], [], []) := by
  have h := mainLoop_self shape shape [] (shape.length + shape.length) 0 [] [] [] [] [] false false
    (by simp) (by omega)
  simp only [List.length_nil] at h
  unfold calcReshapeArgs
  have : ({} : RState) = ⟨0, 0, 0, [], [], [], [], [], false, false⟩ := rfl
  rw [this, h]
  simp [unfusePhase, pure, Except.pure]



/-- scanning a list of "s" labels only for a non-"s" label runs off the end -/
theorem skipS_all_s (n : Nat) : ∀ (fuel i : Nat), i < n → n ≤ i + fuel →
    skipS (List.replicate n Lbl.s) fuel i = .error Err.index := by
  intro fuel
  induction fuel with
  | zero => intro i h1 h2; omega
  | succ f ih =>
    intro i h1 h2
    unfold skipS
    by_cases h : i + 1 < n
    · have : (List.replicate n Lbl.s)[i + 1]? = some Lbl.s := by simp [h]
      simp only [this, Lbl.isS, if_true]
      exact ih (i + 1) h (by omega)
    · have : (List.replicate n Lbl.s)[i + 1]? = none := by simp; omega
      simp only [this]
      rfl

theorem planner_empty_target_raises' (m : Nat) :
    calcReshapeArgs (List.replicate (m + 1) 1) [] (nones (List.replicate (m + 1) 1)) = .error Err.index := by
  unfold calcReshapeArgs
  have h0 : mainLoop (List.replicate (m + 1) 1) [] (nones (List.replicate (m + 1) 1))
      ((List.replicate (m + 1) 1).length + ([] : List Nat).length) {} = .ok {} := by
    simp [mainLoop, pure, Except.pure]
  rw [h0]
  have h1 := skipS_all_s (m + 1) (m + 1 + 1) 0 (by omega) (by omega)
  simp [unfusePhase, squeezePhase, Lbl.isS, h1, pure, Except.pure, throw, throwThe, MonadExceptOf.throw]




/-! ### data of the stored blocks -/

variable {R : Type}


theorem ainsert_fresh {κ β : Type} [BEq κ] (acc : List (κ × β)) (k : κ) (v : β)
    (h : ∀ p ∈ acc, (p.1 == k) = false) : ainsert acc k v = acc ++ [(k, v)] := by
  induction acc with
  | nil => rfl
  | cons p ps ih =>
    have hp := h p (List.mem_cons_self)
    simp only [ainsert, hp, List.cons_append]
    rw [ih (fun q hq => h q (List.mem_cons_of_mem _ hq))]
    simp

theorem foldl_ainsert_distinct {κ β : Type} [BEq κ] [LawfulBEq κ] :
    ∀ (l acc : List (κ × β)), allDistinct (l.map (·.1)) = true →
      (∀ p ∈ l, ∀ q ∈ acc, (q.1 == p.1) = false) →
      l.foldl (fun acc p => ainsert acc p.1 p.2) acc = acc ++ l := by
  intro l
  induction l with
  | nil => intro acc _ _; simp
  | cons p ps ih =>
    intro acc hd hacc
    simp only [List.map_cons, allDistinct, Bool.and_eq_true, Bool.not_eq_true'] at hd
    simp only [List.foldl_cons]
    rw [ainsert_fresh acc p.1 p.2 (fun q hq => hacc p (List.mem_cons_self) q hq)]
    rw [ih (acc ++ [(p.1, p.2)]) hd.2]
    · simp
    · intro p' hp' q hq
      rcases List.mem_append.mp hq with hq | hq
      · exact hacc p' (List.mem_cons_of_mem _ hp') q hq
      · simp only [List.mem_singleton] at hq
        subst hq
        have h1 := hd.1
        simp only [List.contains_eq_mem, List.mem_map, decide_eq_false_iff_not, not_exists, not_and] at h1
        have := h1 p' hp'
        simp only [beq_eq_false_iff_ne, ne_eq]
        exact fun e => this e.symm

theorem adict_distinct {κ β : Type} [BEq κ] [LawfulBEq κ] (l : List (κ × β))
    (h : allDistinct (l.map (·.1)) = true) : adict l = l := by
  unfold adict
  rw [foldl_ainsert_distinct l [] h (by simp)]
  simp



/-- the flat data of every stored block, in dict order -/
def storedData (a : Arr R) : List (Array R) := a.blocks.map (fun sb => sb.2.data)

theorem mapBlocks_data' (a : Arr R) (fs : Sector → Sector) (fb : Blk R → Blk R)
    (hfb : ∀ b, (fb b).data = b.data)
    (hd : allDistinct (a.blocks.map (fun sb => fs sb.1)) = true) :
    storedData (a.mapBlocks fs fb) = storedData a := by
  unfold storedData Arr.mapBlocks
  simp only
  rw [adict_distinct]
  · simp [List.map_map, Function.comp_def, hfb]
  · simpa [List.map_map, Function.comp_def] using hd

theorem allDistinct_map_of_injective {α β : Type} [BEq α] [LawfulBEq α] [BEq β] [LawfulBEq β]
    (f : α → β) (hf : ∀ x y, f x = f y → x = y) :
    ∀ l : List α, allDistinct l = true → allDistinct (l.map f) = true := by
  intro l
  induction l with
  | nil => intro _; rfl
  | cons a as ih =>
    intro h
    simp only [allDistinct, Bool.and_eq_true, Bool.not_eq_true', List.map_cons] at h ⊢
    refine ⟨?_, ih h.2⟩
    have h1 := h.1
    simp only [List.contains_eq_mem, decide_eq_false_iff_not, List.mem_map, not_exists, not_and] at h1 ⊢
    intro x hx e
    exact h1 (by rw [← hf x a e]; exact hx)

theorem insertAt_injective {α : Type} (ax : Nat) (c : α) (s t : List α)
    (h : s.take ax ++ [c] ++ s.drop ax = t.take ax ++ [c] ++ t.drop ax) : s = t := by
  have hl : s.length = t.length := by
    have := congrArg List.length h
    simp only [List.length_append, List.length_take, List.length_drop, List.length_cons,
      List.length_nil] at this
    omega
  have h' : s.take ax ++ ([c] ++ s.drop ax) = t.take ax ++ ([c] ++ t.drop ax) := by
    simpa [List.append_assoc] using h
  have hlen : (s.take ax).length = (t.take ax).length := by simp [hl]
  have ⟨h1, h2⟩ := List.append_inj h' hlen
  have h3 : s.drop ax = t.drop ax := by simpa using h2
  rw [← List.take_append_drop ax s, ← List.take_append_drop ax t, h1, h3]

theorem expandDims_blocks (a : Arr R) (axis : Nat) (c : Option Charge) (dual : Option Bool) :
    ∃ c', (a.expandDims axis c dual).blocks =
      (a.mapBlocks (fun s => s.take axis ++ [c'] ++ s.drop axis) (fun b => b.expandK axis)).blocks := by
  cases c with
  | none => exact ⟨a.sym.zero, rfl⟩
  | some c => exact ⟨c, rfl⟩

theorem expandDims_data' (a : Arr R) (axis : Nat) (c : Option Charge) (dual : Option Bool)
    (hd : allDistinct a.sectors = true) :
    storedData (a.expandDims axis c dual) = storedData a := by
  obtain ⟨c', hb⟩ := expandDims_blocks a axis c dual
  have h1 : storedData (a.expandDims axis c dual)
      = storedData (a.mapBlocks (fun s => s.take axis ++ [c'] ++ s.drop axis) (fun b => b.expandK axis)) := by
    unfold storedData; rw [hb]
  rw [h1]
  apply mapBlocks_data'
  · intro b; rfl
  · have := allDistinct_map_of_injective (fun s : Sector => s.take axis ++ [c'] ++ s.drop axis)
      (fun x y e => insertAt_injective axis c' x y e) a.sectors hd
    simpa [Arr.sectors, List.map_map, Function.comp_def] using this


theorem squeeze_blocks (a : Arr R) (axis : Option (List Nat)) (b : Arr R) (h : a.squeeze axis = .ok b) :
    ∃ keep, b.blocks = (a.mapBlocks (fun s => permuted s keep) (fun b => b.squeezeK keep)).blocks := by
  unfold Arr.squeeze at h
  simp only [bind, Except.bind] at h
  split at h
  · cases h
  · rename_i keep _
    simp only [pure, Except.pure] at h
    injection h with h
    subst h
    exact ⟨_, rfl⟩


theorem squeeze_data' (a : Arr R) (axis : Option (List Nat)) (b : Arr R) (h : a.squeeze axis = .ok b) :
    ∃ keep, b.blocks = (a.mapBlocks (fun s => permuted s keep) (fun b => b.squeezeK keep)).blocks ∧
      (allDistinct (a.blocks.map (fun sb => permuted sb.1 keep)) = true → storedData b = storedData a) := by
  obtain ⟨keep, hk⟩ := squeeze_blocks a axis b h
  refine ⟨keep, hk, fun hd => ?_⟩
  have : storedData b = storedData (a.mapBlocks (fun s => permuted s keep) (fun b => b.squeezeK keep)) := by
    unfold storedData; rw [hk]
  rw [this]
  exact mapBlocks_data' a _ _ (fun _ => rfl) hd


/-! ### a certified plan without unfusing keeps the dense size -/

theorem prod_append (a b : List Nat) : prod (a ++ b) = prod a * prod b := by
  induction a with
  | nil => simp [prod]
  | cons x xs ih => simp [prod, ih, Nat.mul_assoc]

theorem prod_flatten (l : List (List Nat)) : prod (l.map prod) = prod l.flatten := by
  induction l with
  | nil => rfl
  | cons x xs ih => simp [prod, prod_append, ih]

theorem sizes_append (a b : SymShape) : SymShape.sizes (a ++ b) = SymShape.sizes a ++ SymShape.sizes b := by
  simp [SymShape.sizes]

theorem symGroup_size (st : SymShape) (g : List Nat) :
    (symGroup st g).1 = prod (g.map (fun ax => (st.getD ax (0, none)).1)) := by
  unfold symGroup
  split
  · simp [prod]
  · rfl

theorem range'_map_getD (st : SymShape) : ∀ (n p : Nat), p + n ≤ st.length →
    (List.range' p n).map (fun ax => (st.getD ax (0, none)).1) = SymShape.sizes ((st.drop p).take n) := by
  intro n
  induction n with
  | zero => intro p _; simp [SymShape.sizes]
  | succ n ih =>
    intro p h
    have hp : p < st.length := by omega
    rw [List.range'_succ, List.map_cons, ih (p + 1) (by omega)]
    rw [List.drop_eq_getElem_cons hp, List.take_succ_cons]
    simp [SymShape.sizes, List.getD_eq_getElem?_getD, hp]

theorem symFuse_prod {st r : SymShape} {groups : List (List Nat)}
    (h : symFuse st groups = some r) : prod (SymShape.sizes r) = prod (SymShape.sizes st) := by
  unfold symFuse at h
  simp only at h
  split at h
  · cases h
  · rename_i p tl hflat
    split at h
    · rename_i hc
      simp only [Bool.and_eq_true] at hc
      obtain ⟨⟨_, hr⟩, hle⟩ := hc
      have hr' := beqNats_iff.mp hr
      have hle' : p + groups.flatten.length ≤ st.length := Nat.le_of_ble_eq_true hle
      injection h with h
      subst h
      have hmid : prod (SymShape.sizes (groups.map (symGroup st)))
          = prod (SymShape.sizes ((st.drop p).take groups.flatten.length)) := by
        have : SymShape.sizes (groups.map (symGroup st))
            = (groups.map (fun g => g.map (fun ax => (st.getD ax (0, none)).1))).map prod := by
          simp [SymShape.sizes, List.map_map, Function.comp_def, symGroup_size]
        rw [this, prod_flatten, ← List.map_flatten]
        conv => lhs; rw [hr']
        rw [range'_map_getD st _ p hle']
      have hst : st = st.take p ++ ((st.drop p).take groups.flatten.length
          ++ st.drop (p + groups.flatten.length)) := by
        rw [← List.drop_drop, List.take_append_drop, List.take_append_drop]
      conv => rhs; rw [hst]
      rw [hflat] at hmid ⊢
      simp only [sizes_append, prod_append, hmid, List.append_assoc]
    · cases h

theorem symExpand_prod {st r : SymShape} {ax : Nat} (h : symExpand st ax = some r) :
    prod (SymShape.sizes r) = prod (SymShape.sizes st) := by
  unfold symExpand at h
  split at h
  · injection h with h
    subst h
    have : prod (SymShape.sizes st) = prod (SymShape.sizes (st.take ax ++ st.drop ax)) := by
      rw [List.take_append_drop]
    rw [this]
    simp only [sizes_append, prod_append]
    simp [SymShape.sizes, prod]
  · cases h

theorem foldOpt_inv {α β : Type} (f : β → α → Option β) (P : β → Prop)
    (hf : ∀ b a b', f b a = some b' → P b → P b') :
    ∀ (l : List α) (b b' : β), foldOpt f l b = some b' → P b → P b' := by
  intro l
  induction l with
  | nil => intro b b' h hp; simp [foldOpt] at h; exact h ▸ hp
  | cons a as ih =>
    intro b b' h hp
    unfold foldOpt at h
    split at h
    · rename_i b1 h1
      exact ih b1 b' h (hf b a b1 h1 hp)
    · cases h

theorem sizes_zip (shape : List Nat) (subsizes : List (Option (List Nat)))
    (h : shape.length = subsizes.length) : SymShape.sizes (shape.zip subsizes) = shape := by
  simp only [SymShape.sizes]
  rw [List.map_fst_zip]
  omega

theorem wfB_prod {shape : List Nat} {subsizes : List (Option (List Nat))}
    {newshape : List Nat} {plan : Plan} (hu : plan.unfuse = [])
    (h : plan.wfB shape subsizes newshape = true) : prod newshape = prod shape := by
  obtain ⟨hl, r, hr, hs⟩ := wfB_iff.mp h
  unfold Plan.exec at hr
  rw [hu] at hr
  simp only [foldOpt] at hr
  split at hr
  · cases hr
  · rename_i s2 h2
    have e2 := foldOpt_inv symFuse (fun s => prod (SymShape.sizes s) = prod (SymShape.sizes (shape.zip subsizes)))
      (fun b a b' hb hp => (symFuse_prod hb).trans hp) _ _ _ h2 rfl
    have e3 := foldOpt_inv symExpand (fun s => prod (SymShape.sizes s) = prod (SymShape.sizes (shape.zip subsizes)))
      (fun b a b' hb hp => (symExpand_prod hb).trans hp) _ _ _ hr e2
    rw [hs, sizes_zip shape subsizes hl] at e3
    exact e3



end SymmModel.C07
