/-
  SymmModel.Proofs.FuseCommuteG5 — C06, first clause, FERMIONIC, public route, ARBITRARY contracted
  legs, BOTH contractions in an arbitrary mode (`fuse_contracted_fermi_gen_modes`): composition of
  `fuse_contracted_fermi_gen` (blockwise) with `tensordotF_any_mode_weak`.  Namespace `SymmModel.TdotP`.
-/
import SymmModel.Proofs.FuseCommuteG4
import SymmModel.Proofs.FuseCommuteF8
namespace SymmModel
namespace TdotP
open SymmModel.KoszulP SymmModel.Lazy SymmModel.GradedP SymmModel.RoutesP SymmModel.AssocP SymmModel.C06
variable {R : Type}
set_option linter.unusedSectionVars false

/-- the free-leg tables of the fermionic fuse of one group (any positions, any order) are those of
    the original array's free legs -/
theorem fused_free_tables_gen [AddCommMonoid R] [Mul R] [Neg R] [SignRing R] (A : Arr R) {g : List Nat}
    (hv : A.validB = true) (hf : A.fermi = true) (oA : OneOk A g) :
    without (FuseP.fusedArrM (FuseP.signAdj A [g]) [newG A g]).indices [bondPos A g]
      = permuted A.indices (freeAxes A.ndim g) := by
  have PX := prepared_signAdj A hv hf oA
  have LA := lay_one oA
  generalize FuseP.signAdj A [g] = X at *
  have hXn : X.ndim = A.ndim := by
    show X.indices.length = _; rw [PX.indices]; exact LA.plen A.indices rfl
  obtain ⟨oAX, hposA⟩ := newG_one (X' := X) oA hXn
  have hbA : bondPos X (newG A g) = bondPos A g := hposA
  have hfree := LA.free A.indices rfl
  clear LA hposA
  generalize newG A g = g' at *
  rw [without_eq_permuted_freeAxes, ← hbA]
  show permuted (FuseP.fusedArrM X [g']).indices
    (freeAxes (FuseP.fusedArrM X [g']).ndim [bondPos X g']) = _
  rw [one_ndim oAX]
  have := one_free_indices oAX
  rw [PX.indices, hXn, hfree] at this
  exact this

/-- **C06, first clause, fermionic, public route, ARBITRARY contracted legs, BOTH contractions in
    an arbitrary mode.** -/
theorem fuse_contracted_fermi_gen_modes [AddCommMonoid R] [Mul R] [Neg R] [SignRing R]
    (hz1 : ∀ x : R, 0 * x = 0) (hz2 : ∀ x : R, x * 0 = 0) (a b : Arr R) (xa xb : List Nat)
    (W : AdmW a b xa xb) (hne : xa ≠ []) (e1 e2 : Bool) (m1 m2 : TdotMode) :
    ∃ af bf, (dropMisaligned a b xa xb).1.fuseF [xa] .insert e1 = .ok af
      ∧ (dropMisaligned a b xa xb).2.fuseF [xb] .insert e2 = .ok bf
      ∧ (∀ e, a.tensordotF b (.pair (xa.map Int.ofNat) (xb.map Int.ofNat)) m1 = .error e →
          af.tensordotF bf (.pair [Int.ofNat (bondPos a xa)] [Int.ofNat (bondPos b xb)]) m2 = .error e)
      ∧ ∀ c, a.tensordotF b (.pair (xa.map Int.ofNat) (xb.map Int.ofNat)) m1 = .ok c →
        ∃ cf, af.tensordotF bf (.pair [Int.ofNat (bondPos a xa)] [Int.ofNat (bondPos b xb)]) m2 = .ok cf
          ∧ cf.oddpos = c.oddpos ∧ cf.charge = c.charge ∧ cf.sym = c.sym ∧ cf.fermi = c.fermi
          ∧ cf.ndim = c.ndim
          ∧ ∀ K V, alookup cf.blocks K = some V → ∀ J, inBox V.shape J = true → cf.elem K J = c.elem K J := by
  obtain ⟨n1, n2⟩ := dropMisaligned_ndim a b xa xb
  have h := fctxG_of_dropMisaligned a b xa xb W hne
  have W0 := h.W
  obtain ⟨f1', f2', _⟩ := bond_fuse_fermi_gen hz1 hz2 h e1 e2
  obtain ⟨af, bf, f1, f2, W', _, _, herr, hok⟩ :=
    fuse_contracted_fermi_gen hz1 hz2 a b xa xb W hne e1 e2
  have eaf : af = FuseP.fusedArrM (FuseP.signAdj (dropMisaligned a b xa xb).1 [xa])
      [newG (dropMisaligned a b xa xb).1 xa] := by
    rw [f1'] at f1; exact (Except.ok.inj f1).symm
  have ebf : bf = FuseP.fusedArrM (FuseP.signAdj (dropMisaligned a b xa xb).2 [xb])
      [newG (dropMisaligned a b xa xb).2 xb] := by
    rw [f2'] at f2; exact (Except.ok.inj f2).symm
  -- the free-leg tables of the fused operands are those of the aligned operands
  have iA : without af.indices [bondPos a xa]
      = permuted (dropMisaligned a b xa xb).1.indices (freeAxes a.ndim xa) := by
    have := fused_free_tables_gen (dropMisaligned a b xa xb).1 W0.va W0.fa h.oneA
    rw [n1, ← eaf] at this
    exact this
  have iB : without bf.indices [bondPos b xb]
      = permuted (dropMisaligned a b xa xb).2.indices (freeAxes b.ndim xb) := by
    have := fused_free_tables_gen (dropMisaligned a b xa xb).2 W0.vb W0.fb h.oneB
    rw [n2, ← ebf] at this
    exact this
  -- each call against its blockwise twin
  obtain ⟨E1, K1⟩ := tensordotF_any_mode_weak hz1 hz2 a b xa xb W m1
  obtain ⟨E2, K2⟩ := tensordotF_any_mode_weak hz1 hz2 af bf [bondPos a xa] [bondPos b xb] W' m2
  simp only [List.map_cons, List.map_nil] at E2 K2
  refine ⟨af, bf, f1, f2, ?_, ?_⟩
  · intro e he
    cases hm : OddposP.mergeOddpos a.parity a.oddpos b.oddpos with
    | ok r =>
      obtain ⟨rm, _, q1, _⟩ := K1 r hm
      rw [q1] at he; cases he
    | error e0 =>
      obtain ⟨q1, q2⟩ := E1 e0 hm
      rw [q1] at he
      obtain rfl : e0 = e := by injection he
      have hb := herr e0 q2
      cases hm' : OddposP.mergeOddpos af.parity af.oddpos bf.oddpos with
      | ok r' =>
        obtain ⟨_, rb', _, q2', _⟩ := K2 r' hm'
        rw [q2'] at hb; cases hb
      | error e' =>
        obtain ⟨q1', q2'⟩ := E2 e' hm'
        rw [q2'] at hb
        obtain rfl : e' = e0 := by injection hb
        exact q1'
  · intro c hc
    cases hm : OddposP.mergeOddpos a.parity a.oddpos b.oddpos with
    | error e0 =>
      rw [(E1 e0 hm).1] at hc; cases hc
    | ok r =>
    obtain ⟨rm, rb, q1, q2, g1, g2, g3, g4, g5, gsec, gshape, gel⟩ := K1 r hm
    rw [q1] at hc
    obtain rfl : rm = c := by injection hc
    obtain ⟨cfb, t1, k2, k3, k4, k5, k6, kE⟩ := hok rb q2
    cases hm' : OddposP.mergeOddpos af.parity af.oddpos bf.oddpos with
    | error e' =>
      rw [(E2 e' hm').2] at t1; cases t1
    | ok r' =>
    obtain ⟨cf, rb', p1, p2, j1, j2, j3, j4, j5, _, jshape, jel⟩ := K2 r' hm'
    rw [p2] at t1
    obtain rfl : rb' = cfb := by injection t1
    refine ⟨cf, p1, j1.trans (k2.trans g1.symm), j2.trans (k3.trans g2.symm), j3.trans (k4.trans g3.symm),
      j4.trans (k5.trans g4.symm), ?_, ?_⟩
    · show cf.indices.length = rm.indices.length
      rw [j5, g5]; exact k6
    · intro K V hK J hJ
      have hs := jshape K V hK
      rw [iA, iB] at hs
      rw [jel K V hK J hJ]
      have eA'n : (dropMisaligned a b xa xb).1.indices.length = a.ndim := n1
      have hLl : (permuted (dropMisaligned a b xa xb).1.indices (freeAxes a.ndim xa)).length
          = (freeAxes a.ndim xa).length :=
        permuted_length _ _ (fun x hx => by rw [eA'n]; exact mem_freeAxes_lt x hx)
      have hKl : K.length = (freeAxes a.ndim xa).length
          + (permuted (dropMisaligned a b xa xb).2.indices (freeAxes b.ndim xb)).length := by
        rw [(blockShape?_length hs).1, List.length_append, hLl]
      have hs2 := hs
      rw [← List.take_append_drop (freeAxes a.ndim xa).length K] at hs2
      obtain ⟨p, q, hpq, hp, hq⟩ := TdotP.blockShape?_split (by rw [List.length_take, hLl]; omega) hs2
      have hpl : p.length = (freeAxes a.ndim xa).length := by rw [(blockShape?_length hp).2, hLl]
      have hJ2 := hJ
      rw [hpq] at hJ2
      have hJl : J.length = p.length + q.length := by rw [inBox_length hJ2, List.length_append]
      rw [← List.take_append_drop p.length J, inBox_append (by rw [List.length_take]; omega)] at hJ2
      simp only [Bool.and_eq_true] at hJ2
      have hstep := kE _ _ _ _ _ _ hp hJ2.1 hq hJ2.2
      rw [List.take_append_drop, List.take_append_drop] at hstep
      rw [hstep]
      -- the shape of the stored block in the ORIGINAL free-leg tables
      have hshp : Arr.blockShape? (without a.indices xa ++ without b.indices xb) K = some V.shape := by
        rw [without_eq_permuted_freeAxes, without_eq_permuted_freeAxes]
        exact blockShape?_weaken
          (forall₂_append (forall₂_permuted (dropUnused_sizeLe a.indices _) _)
            (forall₂_permuted (dropUnused_sizeLe b.indices _) _)) K V.shape hs
      cases hl : alookup rm.blocks K with
      | some V' =>
        have hs' := gshape K V' hl
        rw [hshp] at hs'
        have e : V.shape = V'.shape := Option.some.inj hs'
        rw [e] at hJ
        exact (gel K V' hl J hJ).symm
      | none =>
        have hK1 : K ∉ rm.sectors := (LinalgLemmas.alookup_eq_none_iff _ _).mp hl
        have hK2 : K ∉ rb.sectors := fun hh => hK1 (gsec K hh)
        rw [Arr.elem_of_not_mem hK1, Arr.elem_of_not_mem hK2]

-- #print axioms SymmModel.TdotP.fused_free_tables_gen
-- #print axioms SymmModel.TdotP.fuse_contracted_fermi_gen_modes
-- both: [propext, Classical.choice, Quot.sound]

end TdotP
end SymmModel
