/-
  SymmModel.Proofs.ValidFuse2 — `fuse` (property C01, fuse/unfuse item, part B).

  B1  `accumExtents` over a list of `(sub-sector, charge, size)` with distinct sub-sectors builds
      a chargemap and extents satisfying the `extentOk` bookkeeping of `Index.wfB`
      (`fusedIndex_wf`).
  B2  `planSector` / `calcFuseBlockInfo`: every new index is well formed (`calcFuseBlockInfo_wf`).
  B3  `fuseInsert`: the fused array satisfies `Core` (`fuseCore_insert_core`).
-/
import SymmModel.Proofs.ValidFuse

namespace SymmModel
namespace ValidP
open Sym

variable {R : Type}

/-! ## B1 — `accumExtents` -/

/-- the loop body of `accumExtents` (copy of the model text) -/
def accStep (acc : List (Charge × Nat) × Extents) (x : Sector × Charge × Nat) :
    List (Charge × Nat) × Extents :=
  let (ss, c, d) := x
  match alookup acc.1 c with
  | none => (acc.1 ++ [(c, d)], acc.2 ++ [(c, [(ss, d)])])
  | some d0 => (ainsert acc.1 c (d0 + d),
                acc.2.map (fun (c', e) => if c' == c then (c', ainsert e ss d) else (c', e)))

theorem accumExtents_eq (L : List (Sector × Charge × Nat)) :
    accumExtents L = L.foldl accStep ([], []) := by
  cases L with
  | nil => rfl
  | cons x rest => obtain ⟨ss, c, d⟩ := x; rfl

/-- relation between a chargemap entry and the extent with the same key, after the elements
    `pre` have been processed -/
def ExtRel (pre : List (Sector × Charge × Nat)) (p : Charge × Nat) (q : Charge × Extent) : Prop :=
  p.1 = q.1 ∧ sumN (q.2.map (·.2)) = p.2 ∧ (q.2.map (·.1)).Nodup ∧ q.2 ≠ []
    ∧ ∀ x ∈ q.2, (x.1, q.1, x.2) ∈ pre

def AccInv (pre : List (Sector × Charge × Nat)) (acc : List (Charge × Nat) × Extents) : Prop :=
  (acc.1.map (·.1)).Nodup ∧ List.Forall₂ (ExtRel pre) acc.1 acc.2

theorem ExtRel.mono {pre pre' : List (Sector × Charge × Nat)} (h : ∀ x ∈ pre, x ∈ pre')
    {p : Charge × Nat} {q : Charge × Extent} (hr : ExtRel pre p q) : ExtRel pre' p q :=
  ⟨hr.1, hr.2.1, hr.2.2.1, hr.2.2.2.1, fun x hx => h _ (hr.2.2.2.2 x hx)⟩

theorem sumN_append (xs ys : List Nat) : sumN (xs ++ ys) = sumN xs + sumN ys := by
  induction xs with
  | nil => simp [sumN]
  | cons x xs ih => simp [sumN, ih, Nat.add_assoc]

theorem ainsert_of_not_mem {κ β : Type} [BEq κ] [LawfulBEq κ] {l : List (κ × β)} {k : κ} (v : β)
    (hk : k ∉ l.map (·.1)) : ainsert l k v = l ++ [(k, v)] := by
  induction l with
  | nil => simp [ainsert]
  | cons q rest ih =>
    obtain ⟨k', v'⟩ := q
    simp only [List.map_cons, List.mem_cons, not_or] at hk
    have hne : ¬ (k' == k) = true := fun hb => hk.1 (eq_of_beq hb).symm
    simp only [ainsert, hne, Bool.false_eq_true, ↓reduceIte, ih hk.2, List.cons_append]

/-- the extents update leaves entries with a different key alone -/
theorem upd_forall₂_notin {pre pre' : List (Sector × Charge × Nat)} (h : ∀ x ∈ pre, x ∈ pre')
    (c : Charge) (f : Extent → Extent) {cm : List (Charge × Nat)} {ex : Extents}
    (hf : List.Forall₂ (ExtRel pre) cm ex) (hc : c ∉ cm.map (·.1)) :
    List.Forall₂ (ExtRel pre') cm
      (ex.map (fun (c', e) => if c' == c then (c', f e) else (c', e))) := by
  induction hf with
  | nil => exact List.Forall₂.nil
  | @cons p q cm' ex' hpq _ ih =>
    obtain ⟨c', d'⟩ := p
    obtain ⟨c'', e'⟩ := q
    simp only [List.map_cons, List.mem_cons, not_or] at hc
    have hcc : c' = c'' := hpq.1
    have hne : ¬ (c'' == c) = true := fun hb => hc.1 (by rw [hcc]; exact (eq_of_beq hb).symm)
    simp only [List.map_cons, hne, Bool.false_eq_true, if_false]
    exact List.Forall₂.cons (hpq.mono h) (ih hc.2)

theorem upd_forall₂ {pre : List (Sector × Charge × Nat)} {ss : Sector} {c : Charge} {d : Nat}
    (hss : ss ∉ pre.map (·.1)) {cm : List (Charge × Nat)} {ex : Extents}
    (hf : List.Forall₂ (ExtRel pre) cm ex) (hn : (cm.map (·.1)).Nodup) {d0 : Nat}
    (hl : alookup cm c = some d0) :
    List.Forall₂ (ExtRel (pre ++ [(ss, c, d)])) (ainsert cm c (d0 + d))
      (ex.map (fun (c', e) => if c' == c then (c', ainsert e ss d) else (c', e))) := by
  have hmono : ∀ x ∈ pre, x ∈ pre ++ [(ss, c, d)] := fun x hx => List.mem_append_left _ hx
  induction hf with
  | nil => simp [alookup] at hl
  | @cons p q cm' ex' hpq htl ih =>
    obtain ⟨c', d'⟩ := p
    obtain ⟨c'', e'⟩ := q
    have hcc : c' = c'' := hpq.1
    subst hcc
    simp only [List.map_cons, List.nodup_cons] at hn
    simp only [alookup] at hl
    by_cases hk : (c' == c) = true
    · have hceq : c' = c := eq_of_beq hk
      subst hceq
      simp only [beq_self_eq_true, if_true, Option.some.injEq] at hl
      subst hl
      simp only [ainsert, beq_self_eq_true, if_true, List.map_cons]
      refine List.Forall₂.cons ?_ (upd_forall₂_notin hmono c' (fun e => ainsert e ss d) htl hn.1)
      obtain ⟨_, h2, h3, h4, h5⟩ := hpq
      simp only at h2 h3 h4 h5
      have hnot : ss ∉ e'.map (·.1) := by
        intro hm
        obtain ⟨x, hx, rfl⟩ := List.mem_map.mp hm
        exact hss (List.mem_map.mpr ⟨_, h5 x hx, rfl⟩)
      refine ⟨rfl, ?_, ainsert_keys_nodup _ _ h3, ?_, ?_⟩
      · simp only
        rw [ainsert_of_not_mem _ hnot, List.map_append, sumN_append, h2]
        simp [sumN]
      · simp only
        rw [ainsert_of_not_mem _ hnot]
        simp
      · intro x hx
        simp only at hx ⊢
        rcases mem_ainsert hx with rfl | hx
        · simp
        · exact List.mem_append_left _ (h5 x hx)
    · simp only [hk, Bool.false_eq_true, if_false] at hl
      simp only [ainsert, hk, Bool.false_eq_true, if_false, List.map_cons]
      exact List.Forall₂.cons (hpq.mono hmono) (ih hn.2 hl)

theorem forall₂_keys {pre : List (Sector × Charge × Nat)} {cm : List (Charge × Nat)} {ex : Extents}
    (hf : List.Forall₂ (ExtRel pre) cm ex) : cm.map (·.1) = ex.map (·.1) := by
  induction hf with
  | nil => rfl
  | cons hpq _ ih => simp only [List.map_cons, ih, hpq.1]

theorem accStep_inv {pre : List (Sector × Charge × Nat)} {acc : List (Charge × Nat) × Extents}
    (x : Sector × Charge × Nat) (hx : x.1 ∉ pre.map (·.1)) (h : AccInv pre acc) :
    AccInv (pre ++ [x]) (accStep acc x) := by
  obtain ⟨ss, c, d⟩ := x
  obtain ⟨hn, hf⟩ := h
  have hmono : ∀ y ∈ pre, y ∈ pre ++ [(ss, c, d)] := fun y hy => List.mem_append_left _ hy
  unfold accStep
  simp only
  cases hl : alookup acc.1 c with
  | none =>
    have hc : c ∉ acc.1.map (·.1) := alookup_eq_none_iff.mp hl
    refine ⟨?_, ?_⟩
    · simp only [List.map_append, List.map_cons, List.map_nil]
      refine List.nodup_append.mpr ⟨hn, by simp, ?_⟩
      intro a ha b hb
      simp only [List.mem_singleton] at hb
      subst hb
      intro hab; subst hab; exact hc ha
    · refine List.rel_append (hf.imp (fun _ _ hr => hr.mono hmono)) ?_
      refine List.Forall₂.cons ⟨rfl, by simp [sumN], by simp, by simp, ?_⟩ List.Forall₂.nil
      intro y hy
      simp only [List.mem_singleton] at hy
      subst hy
      simp
  | some d0 =>
    exact ⟨ainsert_keys_nodup _ _ hn, upd_forall₂ hx hf hn hl⟩

theorem foldl_accStep_inv (rest : List (Sector × Charge × Nat)) :
    ∀ (pre : List (Sector × Charge × Nat)) (acc : List (Charge × Nat) × Extents),
      AccInv pre acc → ((pre ++ rest).map (·.1)).Nodup →
      AccInv (pre ++ rest) (rest.foldl accStep acc) := by
  induction rest with
  | nil => intro pre acc h _; simpa using h
  | cons x rest ih =>
    intro pre acc h hn
    simp only [List.foldl_cons]
    have hx : x.1 ∉ pre.map (·.1) := by
      intro hm
      rw [List.map_append, List.map_cons] at hn
      exact (List.nodup_append.mp hn).2.2 _ hm x.1 (by simp) rfl
    have := ih (pre ++ [x]) (accStep acc x) (accStep_inv x hx h) (by simpa using hn)
    simpa using this

theorem accumExtents_inv (L : List (Sector × Charge × Nat)) (hn : (L.map (·.1)).Nodup) :
    AccInv L (accumExtents L) := by
  rw [accumExtents_eq]
  have := foldl_accStep_inv L [] ([], []) ⟨by simp, List.Forall₂.nil⟩ (by simpa using hn)
  simpa using this


/-! ### sorting a chargemap with distinct keys -/

theorem insertSorted_perm' {α : Type} (lt : α → α → Bool) (a : α) (l : List α) :
    (insertSorted lt a l).Perm (a :: l) := by
  induction l with
  | nil => simp [insertSorted]
  | cons b bs ih =>
    simp only [insertSorted]
    split
    · exact (List.Perm.cons b ih).trans (List.Perm.swap a b bs)
    · exact List.Perm.refl _

theorem isort_perm' {α : Type} (lt : α → α → Bool) (l : List α) : (isort lt l).Perm l := by
  induction l with
  | nil => simp [isort]
  | cons a as ih =>
    simp only [isort]
    exact (insertSorted_perm' lt a _).trans (List.Perm.cons a ih)

theorem insertSorted_pairwise_fuse (a : Charge × Nat) (l : List (Charge × Nat))
    (hl : l.Pairwise (fun x y => Charge.lt x.1 y.1 = true)) (ha : ∀ x ∈ l, x.1 ≠ a.1) :
    (insertSorted (fun a b => Charge.lt a.1 b.1) a l).Pairwise
      (fun x y => Charge.lt x.1 y.1 = true) := by
  induction l with
  | nil => simp [insertSorted]
  | cons b bs ih =>
    simp only [insertSorted]
    obtain ⟨hb, hbs⟩ := List.pairwise_cons.mp hl
    split
    · rename_i hlt
      refine List.pairwise_cons.mpr ⟨?_, ih hbs (fun x hx => ha x (by simp [hx]))⟩
      intro y hy
      rcases List.mem_cons.mp ((insertSorted_perm' _ a bs).mem_iff.mp hy) with rfl | hy
      · exact hlt
      · exact hb y hy
    · rename_i hlt
      have hab : Charge.lt a.1 b.1 = true := by
        rcases Charge.lt_total' a.1 b.1 with h | h | h
        · exact h
        · exact absurd h.symm (ha b (by simp))
        · exact absurd h hlt
      refine List.pairwise_cons.mpr ⟨?_, hl⟩
      intro y hy
      rcases List.mem_cons.mp hy with rfl | hy
      · exact hab
      · exact Charge.lt_trans' hab (hb y hy)

theorem sortCm_perm_fuse (cm : List (Charge × Nat)) : (Index.sortCm cm).Perm cm := isort_perm' _ cm

theorem sortCm_sorted_fuse (cm : List (Charge × Nat)) (hn : (cm.map (·.1)).Nodup) :
    isSortedStrict Charge.lt ((Index.sortCm cm).map (·.1)) = true := by
  rw [sortedCharges_iff, List.pairwise_map]
  unfold Index.sortCm
  induction cm with
  | nil => simp [isort]
  | cons a as ih =>
    simp only [List.map_cons, List.nodup_cons] at hn
    simp only [isort]
    refine insertSorted_pairwise_fuse a _ (ih hn.2) ?_
    intro x hx heq
    have hx' : x ∈ as := (isort_perm' _ as).mem_iff.mp hx
    exact hn.1 (heq ▸ List.mem_map.mpr ⟨x, hx', rfl⟩)

theorem forall₂_mem_left {α β : Type} {Q : α → β → Prop} {l : List α} {r : List β}
    (h : List.Forall₂ Q l r) {x : α} (hx : x ∈ l) : ∃ y ∈ r, Q x y := by
  induction h with
  | nil => cases hx
  | cons hq _ ih =>
    rcases List.mem_cons.mp hx with rfl | hx
    · exact ⟨_, by simp, hq⟩
    · obtain ⟨y, hy, hq'⟩ := ih hx
      exact ⟨y, by simp [hy], hq'⟩

/-- what `planSector` guarantees about one `(sub-sector, fused charge, size)` entry -/
def PieceOk (sym : Sym) (D : Bool) (subs : List Index) (x : Sector × Charge × Nat) : Prop :=
  x.1.length = subs.length
  ∧ (∃ shp, Arr.blockShape? subs x.1 = some shp ∧ prod shp = x.2.2)
  ∧ sym.combine (List.zipWith (fun c' (sub : Index) => sym.sign c' (D != sub.dual)) x.1 subs) = x.2.1
  ∧ 0 < x.2.2 ∧ sym.valid x.2.1 = true

/-- the index `calc_fuse_block_info` builds from the sorted sub-sector table is well formed -/
theorem fusedIndex_wf (sym : Sym) (D : Bool) (subs : List Index)
    (L : List (Sector × Charge × Nat)) (hn : (L.map (·.1)).Nodup)
    (hsubs : Index.wfListB sym subs = true) (hL : ∀ x ∈ L, PieceOk sym D subs x) :
    Index.wfB sym (.mk (Index.sortCm (accumExtents L).1) D (some (subs, (accumExtents L).2))) = true := by
  obtain ⟨hnod, hf⟩ := accumExtents_inv L hn
  generalize accumExtents L = acc at hnod hf
  obtain ⟨cm, ex⟩ := acc
  simp only at hnod hf ⊢
  have hperm := sortCm_perm_fuse cm
  have hkeys := forall₂_keys hf
  -- facts about one chargemap entry
  have entry : ∀ p ∈ cm, ∃ e, (p.1, e) ∈ ex ∧ extentOk sym D subs p.1 p.2 e = true
      ∧ 0 < p.2 ∧ sym.valid p.1 = true := by
    intro p hp
    obtain ⟨q, hq, h1, h2, h3, h4, h5⟩ := forall₂_mem_left hf hp
    obtain ⟨c, e⟩ := q
    simp only at h1 h2 h3 h4 h5
    subst h1
    have hall : ∀ x ∈ e, PieceOk sym D subs (x.1, p.1, x.2) := fun x hx => hL _ (h5 x hx)
    refine ⟨e, hq, ?_, ?_, ?_⟩
    · refine (extentOk_iff _ _ _ _ _ _).mpr ⟨h2, h3, ?_⟩
      intro x hx
      obtain ⟨a1, a2, a3, _, _⟩ := hall x hx
      exact ⟨a1, a2, a3⟩
    · cases e with
      | nil => exact absurd rfl h4
      | cons x e' =>
        obtain ⟨_, _, _, a4, _⟩ := hall x (by simp)
        simp only [List.map_cons, sumN] at h2
        simp only at a4
        omega
    · cases e with
      | nil => exact absurd rfl h4
      | cons x e' =>
        obtain ⟨_, _, _, _, a5⟩ := hall x (by simp)
        exact a5
  refine (wfB_some sym _ D subs ex).mpr ⟨⟨sortCm_sorted_fuse cm hnod, ?_⟩, hsubs, hkeys ▸ hnod, ?_, ?_⟩
  · intro p hp
    obtain ⟨_, _, _, h3, h4⟩ := entry p (hperm.mem_iff.mp hp)
    exact ⟨h3, h4⟩
  · intro p hp
    obtain ⟨e, he, hok, _, _⟩ := entry p (hperm.mem_iff.mp hp)
    exact ⟨e, alookup_of_mem_nodup (hkeys ▸ hnod) he, hok⟩
  · intro e he
    rw [alookup_isSome_iff]
    have : e.1 ∈ cm.map (·.1) := by rw [hkeys]; exact List.mem_map.mpr ⟨e, he, rfl⟩
    exact (hperm.map _).mem_iff.mpr this


/-! ## B2 — `planSector` and `calcFuseBlockInfo` -/

/-- `cd` of `planSector` (copy of the model text) -/
def planCd (indices : List Index) (sector : Sector) (ax : Nat) : Except Err (Charge × Nat × Bool) :=
  match indices[ax]?, sector[ax]? with
  | some ix, some c => match ix.sizeOf? c with
    | some d => pure (c, d, ix.dual)
    | none => throw Err.key
  | _, _ => throw Err.index

/-- the per-group part of `planSector` (copy of the model text) -/
def planMid (sym : Sym) (indices : List Index) (gi : FuseGroupInfo) (sector : Sector) :
    List Nat × Nat → Except Err (Charge × Nat × List Charge) :=
  fun (gaxes, g) => do
    let cds ← gaxes.mapM (planCd indices sector)
    let gdual := gi.groupDuals.getD g false
    if gaxes.length == 1 then
      match cds with
      | [(c, d, _)] => pure (c, d, [c])
      | _ => throw Err.other
    else
      let signed := cds.map (fun (c, _, dl) => sym.sign c (gdual != dl))
      pure (sym.combine signed, prod (cds.map (fun x => x.2.1)), cds.map (·.1))

def planSector' (sym : Sym) (indices : List Index) (groups : List (List Nat)) (gi : FuseGroupInfo)
    (sector : Sector) : Except Err BlockPlan := do
  let before ← gi.axesBefore.mapM (planCd indices sector)
  let after ← gi.axesAfter.mapM (planCd indices sector)
  let mids ← groups.zipIdx.mapM (planMid sym indices gi sector)
  pure { newShape := before.map (·.2.1) ++ mids.map (·.2.1) ++ after.map (·.2.1),
         newSector := before.map (·.1) ++ mids.map (·.1) ++ after.map (·.1),
         subsectors := mids.map (·.2.2) }

theorem planSector_eq (sym : Sym) (indices : List Index) (groups : List (List Nat))
    (gi : FuseGroupInfo) (sector : Sector) :
    planSector sym indices groups gi sector = planSector' sym indices groups gi sector := rfl

theorem planCd_ok {indices : List Index} {sector : Sector} {ax : Nat} {y : Charge × Nat × Bool}
    (h : planCd indices sector ax = .ok y) :
    ∃ ix, indices[ax]? = some ix ∧ sector[ax]? = some y.1 ∧ ix.sizeOf? y.1 = some y.2.1
      ∧ y.2.2 = ix.dual := by
  unfold planCd at h
  split at h
  · rename_i ix c hi hc
    split at h
    · rename_i d hd
      cases h
      exact ⟨ix, hi, hc, hd, rfl⟩
    · cases h
  · cases h

theorem planMid_ok_fused {sym : Sym} {indices : List Index} {gi : FuseGroupInfo} {sector : Sector}
    {gaxes : List Nat} {g : Nat} {y : Charge × Nat × List Charge} (hlen : gaxes.length ≠ 1)
    (h : planMid sym indices gi sector (gaxes, g) = .ok y) :
    ∃ cds, gaxes.mapM (planCd indices sector) = .ok cds ∧
      y = (sym.combine (cds.map (fun x => sym.sign x.1 (gi.groupDuals.getD g false != x.2.2))),
           prod (cds.map (fun x => x.2.1)), cds.map (·.1)) := by
  unfold planMid at h
  simp only at h
  cases hc : gaxes.mapM (planCd indices sector) with
  | error e => rw [hc] at h; cases h
  | ok cds =>
    rw [hc] at h
    have : (gaxes.length == 1) = false := by simpa using hlen
    simp only [bind, Except.bind, this, Bool.false_eq_true, if_false] at h
    cases h
    exact ⟨cds, rfl, rfl⟩

theorem planMid_ok_single {sym : Sym} {indices : List Index} {gi : FuseGroupInfo} {sector : Sector}
    {gaxes : List Nat} {g : Nat} {y : Charge × Nat × List Charge} (hlen : gaxes.length = 1)
    (h : planMid sym indices gi sector (gaxes, g) = .ok y) :
    ∃ c d dl, planCd indices sector (gaxes.headD 0) = .ok (c, d, dl) ∧ y = (c, d, [c]) := by
  unfold planMid at h
  simp only at h
  cases hc : gaxes.mapM (planCd indices sector) with
  | error e => rw [hc] at h; cases h
  | ok cds =>
    rw [hc] at h
    have : (gaxes.length == 1) = true := by simpa using hlen
    simp only [bind, Except.bind, this, if_true] at h
    have hf := mapM_ok_forall₂ _ _ _ hc
    match gaxes, hlen, hf with
    | [ax], _, hf =>
      cases hf with
      | cons h1 h2 =>
        cases h2
        rename_i y0
        obtain ⟨c, d, dl⟩ := y0
        simp only at h
        cases h
        exact ⟨c, d, dl, h1, rfl⟩

theorem planSector_ok {sym : Sym} {indices : List Index} {groups : List (List Nat)}
    {gi : FuseGroupInfo} {sector : Sector} {p : BlockPlan}
    (h : planSector sym indices groups gi sector = .ok p) :
    ∃ before after mids, gi.axesBefore.mapM (planCd indices sector) = .ok before
      ∧ gi.axesAfter.mapM (planCd indices sector) = .ok after
      ∧ groups.zipIdx.mapM (planMid sym indices gi sector) = .ok mids
      ∧ p = { newShape := before.map (·.2.1) ++ mids.map (·.2.1) ++ after.map (·.2.1),
              newSector := before.map (·.1) ++ mids.map (·.1) ++ after.map (·.1),
              subsectors := mids.map (·.2.2) } := by
  rw [planSector_eq] at h
  unfold planSector' at h
  cases hb : gi.axesBefore.mapM (planCd indices sector) with
  | error e => rw [hb] at h; cases h
  | ok before =>
    rw [hb] at h
    cases ha : gi.axesAfter.mapM (planCd indices sector) with
    | error e => rw [ha] at h; cases h
    | ok after =>
      rw [ha] at h
      cases hm : groups.zipIdx.mapM (planMid sym indices gi sector) with
      | error e => rw [hm] at h; cases h
      | ok mids =>
        rw [hm] at h
        cases h
        exact ⟨before, after, mids, rfl, rfl, rfl, rfl⟩


/-! ### the position of the first fused axis -/

theorem foldl_min_le (l : List Nat) (init : Nat) :
    l.foldl min init ≤ init ∧ ∀ x ∈ l, l.foldl min init ≤ x := by
  induction l generalizing init with
  | nil => simp
  | cons a as ih =>
    simp only [List.foldl_cons]
    obtain ⟨h1, h2⟩ := ih (min init a)
    refine ⟨by omega, ?_⟩
    intro x hx
    rcases List.mem_cons.mp hx with rfl | hx
    · omega
    · exact h2 x hx

theorem position_le (groups : List (List Nat)) (duals : List Bool) :
    ∀ x ∈ groups.flatten, (calcFuseGroupInfo groups duals).position ≤ x :=
  (foldl_min_le groups.flatten (groups.flatten.headD 0)).2

theorem axesBefore_eq (groups : List (List Nat)) (duals : List Bool) :
    (calcFuseGroupInfo groups duals).axesBefore
      = List.range (calcFuseGroupInfo groups duals).position := by
  show List.filter _ (List.range (calcFuseGroupInfo groups duals).position) = _
  rw [List.filter_eq_self]
  intro x hx
  have hx' := List.mem_range.mp hx
  simp only [Bool.not_eq_true', ← Bool.not_eq_true, List.contains_iff_mem]
  intro hm
  have := position_le groups duals x hm
  omega

theorem axesBefore_length (groups : List (List Nat)) (duals : List Bool) :
    (calcFuseGroupInfo groups duals).axesBefore.length
      = (calcFuseGroupInfo groups duals).position := by
  rw [axesBefore_eq, List.length_range]

/-! ### one `(sub-sector, charge, size)` entry produced by `planSector` -/

theorem forall₂_length {α β : Type} {Q : α → β → Prop} {l : List α} {r : List β}
    (h : List.Forall₂ Q l r) : l.length = r.length := by
  induction h with
  | nil => rfl
  | cons _ _ ih => simp [ih]

theorem forall₂_getElem {α β : Type} {Q : α → β → Prop} {l : List α} {r : List β}
    (h : List.Forall₂ Q l r) (i : Nat) (h1 : i < l.length) (h2 : i < r.length) : Q l[i] r[i] := by
  induction h generalizing i with
  | nil => simp at h1
  | cons hq _ ih =>
    cases i with
    | zero => exact hq
    | succ i => exact ih i (by simpa using h1) (by simpa using h2)

theorem getD_mid {α : Type} (A M C : List α) (g : Nat) (hg : g < M.length) (d : α) :
    (A ++ M ++ C).getD (A.length + g) d = M[g] := by
  rw [List.getD_eq_getElem?_getD, List.append_assoc, List.getElem?_append_right (by omega)]
  simp [List.getElem?_append_left hg, List.getElem?_eq_getElem hg]

theorem prod_pos {l : List Nat} (h : ∀ x ∈ l, 0 < x) : 0 < prod l := by
  induction l with
  | nil => simp [prod]
  | cons a as ih =>
    simp only [prod]
    exact Nat.mul_pos (h a (by simp)) (ih (fun x hx => h x (by simp [hx])))

theorem wfB_default (sym : Sym) : Index.wfB sym default = true := by
  show Index.wfB sym (.mk [] false none) = true
  exact (wfB_none sym [] false).mpr ⟨by simp [isSortedStrict], by simp⟩

theorem wfB_getD {sym : Sym} {indices : List Index} (h : ∀ i ∈ indices, Index.wfB sym i = true)
    (ax : Nat) : Index.wfB sym (indices.getD ax default) = true := by
  rw [List.getD_eq_getElem?_getD]
  cases hi : indices[ax]? with
  | none => exact wfB_default sym
  | some ix => exact h ix (List.mem_of_getElem? hi)

/-- the charges, sizes and directions `cd` collects for a group of axes -/
theorem cds_facts {sym : Sym} {indices : List Index} {sector : Sector} (D : Bool)
    (hwf : ∀ i ∈ indices, Index.wfB sym i = true) {gaxes : List Nat}
    {cds : List (Charge × Nat × Bool)}
    (h : List.Forall₂ (fun ax y => planCd indices sector ax = .ok y) gaxes cds) :
    Arr.blockShape? (gaxes.map (fun ax => indices.getD ax default)) (cds.map (·.1))
        = some (cds.map (·.2.1))
      ∧ List.zipWith (fun c' (sub : Index) => sym.sign c' (D != sub.dual)) (cds.map (·.1))
          (gaxes.map (fun ax => indices.getD ax default))
        = cds.map (fun x => sym.sign x.1 (D != x.2.2))
      ∧ ∀ y ∈ cds, 0 < y.2.1 := by
  induction h with
  | nil => exact ⟨by simp [Arr.blockShape?], rfl, by simp⟩
  | @cons ax y gaxes' cds' hy _ ih =>
    obtain ⟨ix, h1, _, h3, h4⟩ := planCd_ok hy
    obtain ⟨i1, i2, i3⟩ := ih
    have hget : indices.getD ax default = ix := by
      rw [List.getD_eq_getElem?_getD, h1]; rfl
    refine ⟨?_, ?_, ?_⟩
    · have h0 : Arr.blockShape? [indices.getD ax default] [y.1] = some [y.2.1] := by
        rw [hget]
        exact blockShape?_iff.mpr ⟨[(ix, y.1, y.2.1)], by simpa [TOk] using h3, rfl, rfl, rfl⟩
      exact blockShape?_append h0 i1
    · simp only [List.map_cons, List.zipWith_cons_cons, i2, hget, h4]
    · intro z hz
      rcases List.mem_cons.mp hz with rfl | hz
      · exact (wfB_sizeOf (hwf ix (List.mem_of_getElem? h1)) h3).1
      · exact i3 z hz

/-- the entry group `g` of a plan contributes to the sub-sector table is as `fusedIndex_wf` needs -/
theorem plan_piece {sym : Sym} {indices : List Index} {groups : List (List Nat)}
    {gi : FuseGroupInfo} {sector : Sector} {p : BlockPlan}
    (hwf : ∀ i ∈ indices, Index.wfB sym i = true)
    (hpos : gi.axesBefore.length = gi.position)
    (hp : planSector sym indices groups gi sector = .ok p)
    {gaxes : List Nat} {g : Nat} (hg : (gaxes, g) ∈ groups.zipIdx) (hlen : gaxes.length ≠ 1) :
    PieceOk sym (gi.groupDuals.getD g false) (gaxes.map (fun ax => indices.getD ax default))
      (p.subsectors.getD g [], p.newSector.getD (gi.position + g) (0, 0),
       p.newShape.getD (gi.position + g) 0) := by
  obtain ⟨before, after, mids, hb, _, hm, rfl⟩ := planSector_ok hp
  have hbl : before.length = gi.position := by
    rw [← forall₂_length (mapM_ok_forall₂ _ _ _ hb), hpos]
  have hmf := mapM_ok_forall₂ _ _ _ hm
  have hml := forall₂_length hmf
  obtain ⟨hg0, hg1, hg2⟩ := List.mem_zipIdx hg
  simp only [Nat.zero_add, Nat.sub_zero] at hg1 hg2
  rw [List.length_zipIdx] at hml
  have hgm : g < mids.length := by omega
  have hq := forall₂_getElem hmf g (by simpa using hg1) hgm
  have hz : groups.zipIdx[g]'(by simpa using hg1) = (gaxes, g) := by
    simp [hg2]
  rw [hz] at hq
  obtain ⟨cds, hc, hy⟩ := planMid_ok_fused hlen hq
  have hcf := mapM_ok_forall₂ _ _ _ hc
  obtain ⟨f1, f2, f3⟩ := cds_facts (sym := sym) (gi.groupDuals.getD g false) hwf hcf
  have e1 : (mids.map (·.2.2)).getD g [] = mids[g].2.2 := by
    simp [List.getD_eq_getElem?_getD, hgm]
  have e2 : (before.map (·.1) ++ mids.map (·.1) ++ after.map (·.1)).getD (gi.position + g) (0, 0)
      = mids[g].1 := by
    have := getD_mid (before.map (·.1)) (mids.map (·.1)) (after.map (·.1)) g (by simpa using hgm) (0, 0)
    rw [List.length_map, hbl] at this
    rw [this]; simp
  have e3 : (before.map (·.2.1) ++ mids.map (·.2.1) ++ after.map (·.2.1)).getD (gi.position + g) 0
      = mids[g].2.1 := by
    have := getD_mid (before.map (·.2.1)) (mids.map (·.2.1)) (after.map (·.2.1)) g
      (by simpa using hgm) 0
    rw [List.length_map, hbl] at this
    rw [this]; simp
  simp only [e1, e2, e3, hy]
  refine ⟨?_, ⟨_, f1, rfl⟩, ?_, ?_, Sym.combine_valid _ _⟩
  · simp only [List.length_map]; exact (forall₂_length hcf).symm
  · simp only; rw [f2]
  · apply prod_pos
    intro x hx
    obtain ⟨y, hy', rfl⟩ := List.mem_map.mp hx
    exact f3 y hy'


/-! ### `calcFuseBlockInfo` -/

/-- the sub-sector table of group `g` (copy of the model text) -/
def fuseSubTable (gi : FuseGroupInfo) (blockmap : List (Sector × BlockPlan)) (g : Nat) :
    List (Sector × Charge × Nat) :=
  adict (blockmap.map (fun (_, p) =>
    (p.subsectors.getD g [], (p.newSector.getD (gi.position + g) (0, 0),
                              p.newShape.getD (gi.position + g) 0))))

/-- the new index of group `g` (copy of the model text) -/
def fuseMidIndex (a : Arr R) (gi : FuseGroupInfo) (blockmap : List (Sector × BlockPlan)) :
    List Nat × Nat → Index :=
  fun (gaxes, g) =>
    if gaxes.length == 1 then a.indices.getD (gaxes.headD 0) default
    else
      let sub : List (Sector × Charge × Nat) := fuseSubTable gi blockmap g
      let sorted := isort (fun x y => sectorLt x.1 y.1) sub
      let (cmap, ext) := accumExtents sorted
      Index.mk (Index.sortCm cmap) (gi.groupDuals.getD g false)
        (some (gaxes.map (fun ax => a.indices.getD ax default), ext))

def planOf (a : Arr R) (groups : List (List Nat)) (gi : FuseGroupInfo) :
    Sector × Blk R → Except Err (Sector × BlockPlan) :=
  fun (sector, _) => do
    let p ← planSector a.sym a.indices groups gi sector
    pure (sector, p)

def calcFuseBlockInfo' (a : Arr R) (groups : List (List Nat)) : Except Err FuseInfo := do
  let gi := calcFuseGroupInfo groups a.duals
  let blockmap ← a.blocks.mapM (planOf a groups gi)
  pure { gi := gi,
         newIndices := permuted a.indices gi.axesBefore ++ groups.zipIdx.map (fuseMidIndex a gi blockmap)
           ++ permuted a.indices gi.axesAfter,
         blockmap := blockmap }

theorem calcFuseBlockInfo_eq (a : Arr R) (groups : List (List Nat)) :
    calcFuseBlockInfo a groups = calcFuseBlockInfo' a groups := rfl

theorem planOf_ok {a : Arr R} {groups : List (List Nat)} {gi : FuseGroupInfo}
    {sb : Sector × Blk R} {sp : Sector × BlockPlan} (h : planOf a groups gi sb = .ok sp) :
    sp.1 = sb.1 ∧ planSector a.sym a.indices groups gi sb.1 = .ok sp.2 := by
  obtain ⟨sector, b⟩ := sb
  unfold planOf at h
  simp only at h
  cases hp : planSector a.sym a.indices groups gi sector with
  | error e => rw [hp] at h; cases h
  | ok p => rw [hp] at h; cases h; exact ⟨rfl, rfl⟩

theorem calcFuseBlockInfo_ok {a : Arr R} {groups : List (List Nat)} {fi : FuseInfo}
    (h : calcFuseBlockInfo a groups = .ok fi) :
    ∃ blockmap, a.blocks.mapM (planOf a groups (calcFuseGroupInfo groups a.duals)) = .ok blockmap
      ∧ fi = { gi := calcFuseGroupInfo groups a.duals,
               newIndices := permuted a.indices (calcFuseGroupInfo groups a.duals).axesBefore
                 ++ groups.zipIdx.map (fuseMidIndex a (calcFuseGroupInfo groups a.duals) blockmap)
                 ++ permuted a.indices (calcFuseGroupInfo groups a.duals).axesAfter,
               blockmap := blockmap } := by
  rw [calcFuseBlockInfo_eq] at h
  unfold calcFuseBlockInfo' at h
  simp only at h
  cases hb : a.blocks.mapM (planOf a groups (calcFuseGroupInfo groups a.duals)) with
  | error e => rw [hb] at h; cases h
  | ok blockmap => rw [hb] at h; cases h; exact ⟨blockmap, rfl, rfl⟩

/-- every plan in the block map comes from `planSector` on a stored sector -/
theorem blockmap_mem {a : Arr R} {groups : List (List Nat)} {gi : FuseGroupInfo}
    {blockmap : List (Sector × BlockPlan)} (hb : a.blocks.mapM (planOf a groups gi) = .ok blockmap)
    {sp : Sector × BlockPlan} (hsp : sp ∈ blockmap) :
    (∃ b, (sp.1, b) ∈ a.blocks) ∧ planSector a.sym a.indices groups gi sp.1 = .ok sp.2 := by
  obtain ⟨sb, hsb, hq⟩ := forall₂_mem_right (mapM_ok_forall₂ _ _ _ hb) hsp
  obtain ⟨h1, h2⟩ := planOf_ok hq
  rw [h1]
  exact ⟨⟨sb.2, hsb⟩, h2⟩

theorem fuseMidIndex_wf {a : Arr R} {groups : List (List Nat)}
    {blockmap : List (Sector × BlockPlan)}
    (hwf : ∀ i ∈ a.indices, Index.wfB a.sym i = true)
    (hb : a.blocks.mapM (planOf a groups (calcFuseGroupInfo groups a.duals)) = .ok blockmap)
    {x : List Nat × Nat} (hx : x ∈ groups.zipIdx) :
    Index.wfB a.sym (fuseMidIndex a (calcFuseGroupInfo groups a.duals) blockmap x) = true := by
  obtain ⟨gaxes, g⟩ := x
  unfold fuseMidIndex
  simp only
  split
  · exact wfB_getD hwf _
  · rename_i hlen
    have hlen' : gaxes.length ≠ 1 := by simpa using hlen
    set gi := calcFuseGroupInfo groups a.duals with hgi
    set sorted := isort (fun x y : Sector × Charge × Nat => sectorLt x.1 y.1)
      (fuseSubTable gi blockmap g) with hsorted
    have hperm : sorted.Perm (fuseSubTable gi blockmap g) := isort_perm' _ _
    apply fusedIndex_wf
    · exact (hperm.map _).nodup_iff.mpr (adict_keys_nodup _)
    · rw [wfListB_iff]
      intro i hi
      obtain ⟨ax, _, rfl⟩ := List.mem_map.mp hi
      exact wfB_getD hwf ax
    · intro y hy
      have hy' : y ∈ fuseSubTable gi blockmap g := hperm.mem_iff.mp hy
      obtain ⟨sp, hsp, rfl⟩ := List.mem_map.mp (mem_adict hy')
      obtain ⟨_, hplan⟩ := blockmap_mem hb hsp
      exact plan_piece hwf (axesBefore_length groups a.duals) hplan hx hlen'

/-- B2: every index of the fused array is well formed, including the `extentOk` bookkeeping of
    the fused ones.  No admissibility of `groups` is needed for this part. -/
theorem calcFuseBlockInfo_wf (a : Arr R) (groups : List (List Nat)) (fi : FuseInfo)
    (hwf : ∀ i ∈ a.indices, Index.wfB a.sym i = true)
    (h : calcFuseBlockInfo a groups = .ok fi) :
    ∀ i ∈ fi.newIndices, Index.wfB a.sym i = true := by
  obtain ⟨blockmap, hb, rfl⟩ := calcFuseBlockInfo_ok h
  intro i hi
  simp only [List.mem_append] at hi
  rcases hi with (hi | hi) | hi
  · exact hwf i (mem_permuted hi)
  · obtain ⟨x, hx, rfl⟩ := List.mem_map.mp hi
    exact fuseMidIndex_wf hwf hb hx
  · exact hwf i (mem_permuted hi)


/-! ## B3 — the blocks of `fuse` (insert mode) -/

/-! ### charge conservation of the new sector -/

/-- `sign_rel_combine` for (charge, direction) pairs -/
theorem sign_rel_combine' (s : Sym) (D : Bool) (L : List (Charge × Nat × Bool)) :
    s.sign (s.combine (L.map (fun x => s.sign x.1 (D != x.2.2)))) D
      = s.combine (L.map (fun x => s.sign x.1 x.2.2)) := by
  have := sign_rel_combine s D (L.map (fun x => (Index.mk [] x.2.2 none, x.1)))
  unfold sgn at this
  simpa [List.map_map, Function.comp_def, Index.dual] using this

theorem combine_single_pair (s : Sym) (x : Charge) (Y : List Charge) :
    s.combine (x :: Y) = s.combine [s.combine [x], s.combine Y] := by
  obtain ⟨x1, x2⟩ := x
  cases s <;> sym_arith

/-- replacing every element by a list with the same combination does not change the total -/
theorem combine_zipWith_flat (s : Sym) {α β : Type} {Q : α → β → Prop} (f : β → α → Charge)
    (G : α → List Charge) {xs : List α} {ys : List β} (h : List.Forall₂ Q xs ys)
    (hq : ∀ x y, x ∈ xs → Q x y → s.combine [f y x] = s.combine (G x)) :
    s.combine (List.zipWith f ys xs) = s.combine (xs.flatMap G) := by
  induction h with
  | nil => rfl
  | @cons x y xs' ys' hxy _ ih =>
    simp only [List.zipWith_cons_cons, List.flatMap_cons]
    rw [combine_single_pair, Sym.combine_append, hq x y (by simp) hxy,
      ih (fun x' y' hx' => hq x' y' (by simp [hx']))]

theorem permuted_flatten {α : Type} (l : List α) (groups : List (List Nat)) :
    permuted l groups.flatten = groups.flatMap (permuted l) := by
  induction groups with
  | nil => rfl
  | cons g gs ih => simp only [List.flatten_cons, List.flatMap_cons, permuted_append, ih]

/-- what `cd` collects, in terms of the joint list of (index, charge) pairs -/
theorem cds_sgn (sym : Sym) (P : List (Index × Charge)) {axes : List Nat}
    {cds : List (Charge × Nat × Bool)}
    (h : List.Forall₂ (fun ax y => planCd (P.map (·.1)) (P.map (·.2)) ax = .ok y) axes cds) :
    (permuted (P.map (·.1)) axes).map Index.dual = cds.map (·.2.2)
      ∧ cds.map (fun y => sym.sign y.1 y.2.2) = sgn sym (permuted P axes) := by
  induction h with
  | nil => exact ⟨rfl, rfl⟩
  | @cons ax y axes' cds' hy _ ih =>
    obtain ⟨ix, h1, h2, _, h4⟩ := planCd_ok hy
    have hax : ax < P.length := by
      have := (List.getElem?_eq_some_iff.mp h1).1
      simpa using this
    have e1 : P[ax].1 = ix := by
      have := (List.getElem?_eq_some_iff.mp h1).2
      simpa using this
    have e2 : P[ax].2 = y.1 := by
      have := (List.getElem?_eq_some_iff.mp h2).2
      simpa using this
    obtain ⟨i1, i2⟩ := ih
    rw [permuted_cons _ _ _ (by simpa using hax), permuted_cons _ _ _ hax]
    refine ⟨?_, ?_⟩
    · simp only [List.map_cons, i1, List.getElem_map, e1, h4]
    · unfold sgn at i2 ⊢
      simp only [List.map_cons, i2, e1, e2, h4]

theorem getD_dual (indices : List Index) (ax : Nat) :
    (indices.map Index.dual).getD ax false = (indices.getD ax default).dual := by
  simp only [List.getD_eq_getElem?_getD, List.getElem?_map]
  cases indices[ax]? <;> rfl

theorem groupDuals_getD {groups : List (List Nat)} {duals : List Bool} {gaxes : List Nat} {g : Nat}
    (hg : (gaxes, g) ∈ groups.zipIdx) :
    (calcFuseGroupInfo groups duals).groupDuals.getD g false = duals.getD (gaxes.headD 0) false := by
  obtain ⟨_, hg1, hg2⟩ := List.mem_zipIdx hg
  simp only [Nat.zero_add, Nat.sub_zero] at hg1 hg2
  show (groups.map (fun g => duals.getD (g.headD 0) false)).getD g false = _
  simp [List.getD_eq_getElem?_getD, hg1, hg2]

theorem fuseMidIndex_dual (a : Arr R) (groups : List (List Nat))
    (blockmap : List (Sector × BlockPlan)) {x : List Nat × Nat} (hx : x ∈ groups.zipIdx) :
    (fuseMidIndex a (calcFuseGroupInfo groups a.duals) blockmap x).dual
      = (calcFuseGroupInfo groups a.duals).groupDuals.getD x.2 false := by
  obtain ⟨gaxes, g⟩ := x
  unfold fuseMidIndex
  simp only
  split
  · rw [groupDuals_getD hx]
    exact (getD_dual a.indices _).symm
  · generalize accumExtents _ = r
    obtain ⟨c, e⟩ := r
    rfl

/-- the signed combination of the new sector over the new indices is the old total charge -/
theorem plan_charge {a : Arr R} {groups : List (List Nat)} (blockmap : List (Sector × BlockPlan))
    {sector : Sector} {p : BlockPlan}
    (hsec : SecOk a.sym a.indices a.charge sector)
    (hp : planSector a.sym a.indices groups (calcFuseGroupInfo groups a.duals) sector = .ok p)
    (hperm : (calcFuseGroupInfo groups a.duals).perm.Perm (List.range a.ndim)) :
    Arr.sectorCharge a.sym
      ((permuted a.indices (calcFuseGroupInfo groups a.duals).axesBefore
        ++ groups.zipIdx.map (fuseMidIndex a (calcFuseGroupInfo groups a.duals) blockmap)
        ++ permuted a.indices (calcFuseGroupInfo groups a.duals).axesAfter).map Index.dual)
      p.newSector = a.charge := by
  obtain ⟨before, after, mids, hb, ha, hm, rfl⟩ := planSector_ok hp
  obtain ⟨P, hidx, rfl, hch⟩ := secOk_iff.mp hsec
  set gi := calcFuseGroupInfo groups a.duals with hgi
  rw [hidx] at hb ha hm ⊢
  have hbf := mapM_ok_forall₂ _ _ _ hb
  have haf := mapM_ok_forall₂ _ _ _ ha
  have hmf := mapM_ok_forall₂ _ _ _ hm
  obtain ⟨b1, b2⟩ := cds_sgn a.sym P hbf
  obtain ⟨a1, a2⟩ := cds_sgn a.sym P haf
  unfold Arr.sectorCharge
  simp only [List.map_append]
  rw [b1, a1]
  have hml : mids.length = groups.length := by
    rw [← forall₂_length hmf, List.length_zipIdx]
  rw [List.zipWith_append (by simp; exact hml), List.zipWith_append (by simp)]
  rw [zipWith_map_map, zipWith_map_map, b2, a2, combine3]
  -- the fused groups
  have hmid : a.sym.combine (List.zipWith (fun c d => a.sym.sign c d) (mids.map (·.1))
      ((groups.zipIdx.map (fuseMidIndex a gi blockmap)).map Index.dual))
        = a.sym.combine (sgn a.sym (permuted P groups.flatten)) := by
    rw [List.map_map, List.zipWith_map_left, List.zipWith_map_right]
    rw [combine_zipWith_flat a.sym _ (fun x => sgn a.sym (permuted P x.1)) hmf]
    · rw [permuted_flatten]
      unfold sgn
      rw [List.map_flatMap]
      conv_rhs => rw [← List.zipIdx_map_fst 0 groups, List.flatMap_map]
    · rintro ⟨gaxes, g⟩ y hx hq
      simp only [Function.comp_apply]
      rw [fuseMidIndex_dual a groups blockmap hx]
      simp only
      by_cases hlen : gaxes.length = 1
      · obtain ⟨c, d, dl, hcd, rfl⟩ := planMid_ok_single hlen hq
        have hf : List.Forall₂ (fun ax y => planCd (P.map (·.1)) (P.map (·.2)) ax = .ok y)
            gaxes [(c, d, dl)] := by
          match gaxes, hlen with
          | [ax], _ => exact List.Forall₂.cons hcd List.Forall₂.nil
        obtain ⟨_, f2⟩ := cds_sgn a.sym P hf
        rw [← f2]
        obtain ⟨ix, h1, _, _, h4⟩ := planCd_ok hcd
        simp only at h4
        rw [groupDuals_getD hx]
        have : a.duals.getD (gaxes.headD 0) false = dl := by
          show (a.indices.map Index.dual).getD _ false = dl
          rw [getD_dual, hidx, List.getD_eq_getElem?_getD, h1, h4]; rfl
        rw [this]
        rfl
      · obtain ⟨cds, hc, rfl⟩ := planMid_ok_fused hlen hq
        obtain ⟨_, f2⟩ := cds_sgn a.sym P (mapM_ok_forall₂ _ _ _ hc)
        simp only
        rw [sign_rel_combine', combine_combine, f2]
  rw [hmid, ← combine3]
  unfold sgn
  rw [← List.map_append, ← List.map_append, ← permuted_append, ← permuted_append]
  have hperm' : (gi.axesBefore ++ groups.flatten ++ gi.axesAfter).Perm (List.range P.length) := by
    have : a.ndim = P.length := by
      show a.indices.length = P.length
      rw [hidx]; simp
    rw [← this]; exact hperm
  rw [combine_perm' a.sym (List.Perm.map _ (permuted_perm hperm'))]
  exact hch


/-! ### admissible axes groups -/

/-- the documented precondition of `fuse`: the grouped axes are distinct and in range -/
def fuseAdmissibleB (groups : List (List Nat)) (ndim : Nat) : Bool :=
  allDistinct groups.flatten && groups.flatten.all (fun ax => decide (ax < ndim))

theorem foldl_min_head_le (l : List Nat) (n : Nat) (h : ∀ x ∈ l, x < n) :
    l.foldl min (l.headD 0) ≤ n := by
  cases l with
  | nil => simp
  | cons a as =>
    have := (foldl_min_le (a :: as) ((a :: as).headD 0)).2 a (by simp)
    have := h a (by simp)
    omega

theorem perm_of_admissible {groups : List (List Nat)} {duals : List Bool}
    (h : fuseAdmissibleB groups duals.length = true) :
    (calcFuseGroupInfo groups duals).perm.Perm (List.range duals.length) := by
  unfold fuseAdmissibleB at h
  simp only [Bool.and_eq_true, allDistinct_iff, List.all_eq_true, decide_eq_true_eq] at h
  obtain ⟨hnd, hlt⟩ := h
  have hple := position_le groups duals
  have hpn : (calcFuseGroupInfo groups duals).position ≤ duals.length :=
    foldl_min_head_le groups.flatten duals.length hlt
  set pos := (calcFuseGroupInfo groups duals).position with hpos
  show (List.filter (fun ax => !groups.flatten.contains ax) (List.range pos) ++ groups.flatten
    ++ List.filter (fun ax => !groups.flatten.contains ax)
        (List.filter (fun ax => decide (pos ≤ ax)) (List.range duals.length))).Perm _
  have hb : ∀ x, x ∈ List.filter (fun ax => !groups.flatten.contains ax) (List.range pos)
      ↔ x < pos ∧ x ∉ groups.flatten := by
    intro x; simp [List.mem_filter]
  have ha : ∀ x, x ∈ List.filter (fun ax => !groups.flatten.contains ax)
        (List.filter (fun ax => decide (pos ≤ ax)) (List.range duals.length))
      ↔ (x < duals.length ∧ pos ≤ x) ∧ x ∉ groups.flatten := by
    intro x
    simp only [List.mem_filter, List.mem_range, decide_eq_true_eq, Bool.not_eq_true',
      ← Bool.not_eq_true, List.contains_iff_mem]
  rw [List.perm_ext_iff_of_nodup ?_ List.nodup_range]
  · intro x
    simp only [List.mem_append, hb, ha, List.mem_range]
    constructor
    · rintro ((⟨h1, _⟩ | h1) | ⟨⟨h1, _⟩, _⟩)
      · omega
      · exact hlt x h1
      · exact h1
    · intro hx
      by_cases hg : x ∈ groups.flatten
      · exact Or.inl (Or.inr hg)
      · by_cases hp : x < pos
        · exact Or.inl (Or.inl ⟨hp, hg⟩)
        · exact Or.inr ⟨⟨hx, by omega⟩, hg⟩
  · refine List.nodup_append.mpr ⟨List.nodup_append.mpr ⟨List.Nodup.filter _ List.nodup_range, hnd, ?_⟩,
      List.Nodup.filter _ (List.Nodup.filter _ List.nodup_range), ?_⟩
    · intro x hx y hy hxy
      subst hxy
      exact ((hb x).mp hx).2 hy
    · intro x hx y hy hxy
      subst hxy
      rcases List.mem_append.mp hx with hx | hx
      · have := ((hb x).mp hx).1
        have := ((ha x).mp hy).1.2
        omega
      · exact ((ha x).mp hy).2 hx

/-! ### `fuseInsert` -/

/-- start offsets of a block inside its fused target (copy of the model text) -/
def fiStarts (fi : FuseInfo) (p : BlockPlan) : Except Err (List Nat) :=
  (List.range fi.newIndices.length).mapM (fun ax =>
    if fi.gi.position ≤ ax && ax < fi.gi.position + fi.gi.numGroups
        && !fi.gi.singlets.contains (ax - fi.gi.position) then
      match extentStart? (fi.newIndices.getD ax default) (p.newSector.getD ax (0, 0))
              (p.subsectors.getD (ax - fi.gi.position) []) with
      | some (st, _) => pure st
      | none => throw Err.key
    else pure 0)

/-- the loop body of `fuseInsert` (copy of the model text) -/
def fiStep [Zero R] (fi : FuseInfo) (acc : List (Sector × Blk R)) (sb : Sector × Blk R) :
    Except Err (List (Sector × Blk R)) := do
  let (sector, array) := sb
  let p ← match alookup fi.blockmap sector with
    | some p => pure p
    | none => throw Err.key
  let newArray := (array.transposeK fi.gi.perm).reshapeK p.newShape
  let starts ← fiStarts fi p
  let target ← match alookup acc p.newSector with
    | some t => pure t
    | none => match Arr.blockShape? fi.newIndices p.newSector with
      | some shp => pure (Blk.zeros shp)
      | none => throw Err.key
  pure (ainsert acc p.newSector (target.setSliceK starts newArray))

theorem fuseInsert_eq [Zero R] (blocks : List (Sector × Blk R)) (fi : FuseInfo) :
    fuseInsert blocks fi = blocks.foldlM (fiStep fi) [] := rfl

theorem fiStep_ok [Zero R] {fi : FuseInfo} {acc acc' : List (Sector × Blk R)} {sb : Sector × Blk R}
    (h : fiStep fi acc sb = .ok acc') :
    ∃ p starts target, alookup fi.blockmap sb.1 = some p
      ∧ (alookup acc p.newSector = some target
          ∨ (alookup acc p.newSector = none
              ∧ ∃ shp, Arr.blockShape? fi.newIndices p.newSector = some shp ∧ target = Blk.zeros shp))
      ∧ acc' = ainsert acc p.newSector
          (target.setSliceK starts ((sb.2.transposeK fi.gi.perm).reshapeK p.newShape)) := by
  obtain ⟨sector, array⟩ := sb
  unfold fiStep at h
  simp only at h
  cases hp : alookup fi.blockmap sector with
  | none => rw [hp] at h; cases h
  | some p =>
    rw [hp] at h
    simp only [pure_bind] at h
    cases hs : fiStarts fi p with
    | error e => rw [hs] at h; cases h
    | ok starts =>
      rw [hs] at h
      cases ht : alookup acc p.newSector with
      | some t =>
        rw [ht] at h
        cases h
        exact ⟨p, starts, t, rfl, Or.inl ht, rfl⟩
      | none =>
        rw [ht] at h
        cases hb : Arr.blockShape? fi.newIndices p.newSector with
        | none => rw [hb] at h; cases h
        | some shp =>
          rw [hb] at h
          cases h
          exact ⟨p, starts, Blk.zeros shp, rfl, Or.inr ⟨ht, shp, hb, rfl⟩, rfl⟩

/-- B3: fusing (insert mode) a `Core`-valid array over admissible groups gives a `Core`-valid
    array -/
theorem fuseCore_insert_core [Zero R] (a r : Arr R) (groups : List (List Nat)) (hv : Core a)
    (hadm : fuseAdmissibleB groups a.ndim = true)
    (h : fuseCore a groups .insert = .ok r) : Core r := by
  unfold fuseCore at h
  cases hfi : calcFuseBlockInfo a groups with
  | error e => rw [hfi] at h; cases h
  | ok fi =>
    rw [hfi] at h
    simp only [bind, Except.bind] at h
    cases hnb : fuseInsert a.blocks fi with
    | error e => rw [hnb] at h; cases h
    | ok nb =>
      rw [hnb] at h
      cases h
      have hidxwf := calcFuseBlockInfo_wf a groups fi hv.idx hfi
      obtain ⟨blockmap, hb, hfieq⟩ := calcFuseBlockInfo_ok hfi
      have hnew : fi.newIndices
          = permuted a.indices (calcFuseGroupInfo groups a.duals).axesBefore
            ++ groups.zipIdx.map (fuseMidIndex a (calcFuseGroupInfo groups a.duals) blockmap)
            ++ permuted a.indices (calcFuseGroupInfo groups a.duals).axesAfter := by rw [hfieq]
      have hbm : fi.blockmap = blockmap := by rw [hfieq]
      have hperm : (calcFuseGroupInfo groups a.duals).perm.Perm (List.range a.ndim) := by
        have : a.ndim = a.duals.length := by simp [Arr.ndim, Arr.duals]
        rw [this] at hadm ⊢
        exact perm_of_admissible hadm
      rw [fuseInsert_eq] at hnb
      have inv := foldlM_ok_inv
        (fun acc : List (Sector × Blk R) => (acc.map (·.1)).Nodup ∧
          ∀ sb ∈ acc, BlockOk a.sym fi.newIndices a.charge sb)
        (fiStep fi) a.blocks [] nb ⟨by simp, by simp⟩ ?_ hnb
      · exact ⟨hidxwf, hv.chg, inv.1, inv.2⟩
      · rintro acc ⟨sector, array⟩ acc' hsb ⟨hn, hall⟩ hstep
        obtain ⟨p, starts, target, hp, htgt, rfl⟩ := fiStep_ok hstep
        simp only at hp
        refine ⟨ainsert_keys_nodup _ _ hn, ?_⟩
        intro sb' hsb'
        rcases mem_ainsert hsb' with rfl | hsb'
        · rcases htgt with ht | ⟨_, shp, hshp, rfl⟩
          · obtain ⟨c1, c2, _⟩ := hall _ (alookup_some_mem ht)
            exact ⟨c1, c2, ofFn_wf _ _⟩
          · refine ⟨⟨(blockShape?_length hshp).2, ?_⟩, hshp, ofFn_wf _ _⟩
            rw [hbm] at hp
            obtain ⟨_, hplan⟩ := blockmap_mem hb (alookup_some_mem hp)
            simp only at hplan
            rw [hnew]
            exact plan_charge blockmap (hv.blk _ hsb).1 hplan hperm
        · exact hall sb' hsb'

theorem fuseCore_fields [Zero R] {a r : Arr R} {groups : List (List Nat)} {mode : FuseMode}
    (h : fuseCore a groups mode = .ok r) :
    r.sym = a.sym ∧ r.fermi = a.fermi ∧ r.charge = a.charge ∧ r.phases = a.phases
      ∧ r.oddpos = a.oddpos := by
  unfold fuseCore at h
  cases hfi : calcFuseBlockInfo a groups with
  | error e => rw [hfi] at h; cases h
  | ok fi =>
    rw [hfi] at h
    simp only [bind, Except.bind] at h
    cases mode with
    | insert =>
      simp only at h
      cases hnb : fuseInsert a.blocks fi with
      | error e => rw [hnb] at h; cases h
      | ok nb => rw [hnb] at h; cases h; exact ⟨rfl, rfl, rfl, rfl, rfl⟩
    | concat =>
      simp only at h
      cases hnb : fuseConcat a.indices a.blocks fi with
      | error e => rw [hnb] at h; cases h
      | ok nb => rw [hnb] at h; cases h; exact ⟨rfl, rfl, rfl, rfl, rfl⟩

/-- abelian arrays: `_fuse_core` in insert mode returns a valid array -/
theorem fuseCore_insert_valid [Zero R] (a r : Arr R) (groups : List (List Nat)) (hv : Valid a)
    (hf : a.fermi = false) (hadm : fuseAdmissibleB groups a.ndim = true)
    (h : fuseCore a groups .insert = .ok r) : Valid r := by
  refine Valid.of (fuseCore_insert_core a r groups hv.core hadm h) ?_
  obtain ⟨_, e2, _, e4, e5⟩ := fuseCore_fields h
  have := hv.sgn
  unfold SignsOk at this ⊢
  simp only [hf, Bool.false_eq_true, if_false] at this
  rw [e2, e4, e5]
  simp only [hf, Bool.false_eq_true, if_false]
  exact this

/-- `AbelianArray.fuse` without empty groups is `_fuse_core` (an empty group makes `fuse`
    continue with `expand_dims`, whose validity is a separate lemma) -/
theorem fuseA_of_nonempty [Zero R] (a : Arr R) (groups : List (List Nat)) (mode : FuseMode)
    (expandEmpty : Bool) (hne : groups.all (fun g => !g.isEmpty) = true) :
    fuseA a groups mode expandEmpty = if groups.isEmpty then .ok a else fuseCore a groups mode := by
  unfold fuseA
  have h1 : groups.filter (fun g => !g.isEmpty) = groups := List.filter_eq_self.mpr (by simpa using hne)
  have h2 : (groups.zipIdx.filter (fun p => p.1.isEmpty)) = [] := by
    rw [List.filter_eq_nil_iff]
    intro p hp
    obtain ⟨_, h3, h4⟩ := List.mem_zipIdx hp
    have := (List.all_eq_true.mp hne) p.1 (h4 ▸ List.getElem_mem _)
    simpa using this
  simp only [h1, h2, List.map_nil, List.isEmpty_nil, Bool.not_true, Bool.and_false,
    Bool.false_eq_true, if_false]
  cases groups.isEmpty <;> simp
  cases fuseCore a groups mode <;> rfl

theorem fuseA_insert_valid [Zero R] (a r : Arr R) (groups : List (List Nat)) (expandEmpty : Bool)
    (hv : Valid a) (hf : a.fermi = false) (hadm : fuseAdmissibleB groups a.ndim = true)
    (hne : groups.all (fun g => !g.isEmpty) = true)
    (h : fuseA a groups .insert expandEmpty = .ok r) : Valid r := by
  rw [fuseA_of_nonempty a groups .insert expandEmpty hne] at h
  split at h
  · cases h; exact hv
  · exact fuseCore_insert_valid a r groups hv hf hadm h

theorem fuseCore_insert_validB [Zero R] (a r : Arr R) (groups : List (List Nat))
    (hv : a.validB = true) (hf : a.fermi = false) (hadm : fuseAdmissibleB groups a.ndim = true)
    (h : fuseCore a groups .insert = .ok r) : r.validB = true :=
  (validB_iff r).mpr (fuseCore_insert_valid a r groups ((validB_iff a).mp hv) hf hadm h)

/-! ### the hypotheses are satisfiable -/

/-- a Z2 array with three indices, total charge 1, all four sectors stored -/
def exArr3 : Arr Int :=
  { sym := .Z2, fermi := false,
    indices := [.mk [((0, 0), 1), ((1, 0), 2)] false none, .mk [((0, 0), 2), ((1, 0), 1)] true none,
                .mk [((0, 0), 1), ((1, 0), 1)] false none],
    charge := (1, 0),
    blocks := [([(0, 0), (0, 0), (1, 0)], ⟨[1, 2, 1], #[1, 2]⟩),
               ([(0, 0), (1, 0), (0, 0)], ⟨[1, 1, 1], #[3]⟩),
               ([(1, 0), (0, 0), (0, 0)], ⟨[2, 2, 1], #[4, 5, 6, 7]⟩),
               ([(1, 0), (1, 0), (1, 0)], ⟨[2, 1, 1], #[8, 9]⟩)] }

example : exArr3.validB = true ∧ exArr3.fermi = false
    ∧ fuseAdmissibleB [[0, 1]] exArr3.ndim = true ∧ fuseAdmissibleB [[2, 0]] exArr3.ndim = true := by
  decide

example : (match fuseCore exArr3 [[0, 1]] .insert with
    | .ok r => r.validB && r.sectors == [[(0, 0), (1, 0)], [(1, 0), (0, 0)]]
        && (match unfuseA r 0 with
            | .ok u => u.validB && u.sectors.length == 4
            | .error _ => false)
    | .error _ => false) = true := by decide +kernel

example : (match fuseCore exArr3 [[0, 1]] .insert with
    | .ok r => (match unfuseAllA r with
        | .ok u => u.validB && u.ndim == 3
        | .error _ => false)
    | .error _ => false) = true := by decide +kernel

example : (match fuseCore exArr3 [[2, 0]] .insert with
    | .ok r => r.validB && r.ndim == 2
    | .error _ => false) = true := by decide +kernel

/-
  PLANNED (not proved here): the concat mode,

    theorem fuseCore_concat_core [Zero R] (a r : Arr R) (groups : List (List Nat)) (hv : Core a)
        (hadm : fuseAdmissibleB groups a.ndim = true)
        (h : fuseCore a groups .concat = .ok r) : Core r

  Index part: already covered by `calcFuseBlockInfo_wf` (mode independent).  Sector part:
  `plan_charge` (mode independent) plus `p.newSector.length = fi.newIndices.length`.  Missing is
  the shape of `recurseConcat`: by induction on the fuel, the block returned at level `g` with
  sub-key `subkey` has shape  before-sizes ++ (sizes of the sub-sectors in `subkey`) ++ (full
  sizes of the fused indices `≥ g`) ++ after-sizes, using `extentOk` (sizes add up, the size of a
  sub-sector is the product of its sub-sizes, hence a function of the sub-sector) and that the
  leaves are `reshapeK _ p.newShape` of plans with `p.newSector = newSector`,
  `p.subsectors = subkey`; for all-singlet groups also
  `prod p.newShape = prod (permuted array.shape fi.gi.perm)` (well-formedness of the leaf).

  Also out of scope: `fuseA` with empty groups (continues with `expandDims none none`, compose
  `fuseCore_insert_valid` with the `expandDims` validity lemma) and the fermionic fuse.
-/

end ValidP
end SymmModel
