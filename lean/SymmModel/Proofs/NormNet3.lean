/-
  SymmModel.Proofs.NormNet3 — network form of the norm (property C10), part 3:
  the sign identity of one aligned sector pair in terms of the model's signs, and the labels of
  the bra contraction.
-/
import SymmModel.Proofs.NormNet2
import SymmModel.Proofs.NormNetLabels
namespace SymmModel.NormNet
open SymmModel SymmModel.Lazy SymmModel.Norm SymmModel.TdotP SymmModel.GradedP SymmModel.RoutesP
open SymmModel.KoszulP (sgn tri sgn_add sgn_congr sgn_cases sgn_eq_pow tri_eq)
set_option linter.unusedSectionVars false

section pairsign
variable {R : Type} [AddMonoid R] [Mul R] [Neg R] [Conj R]

theorem gradedSign_sgn (a b : Arr R) (xa xb : List Nat) (sa sb : Sector) :
    gradedSign a b xa xb sa sb
      = koszul (a.parities sa) (some (freeAxes a.ndim xa ++ xa))
        * koszul (b.parities sb) (some (xb ++ freeAxes b.ndim xb))
        * sgn (tri (oddContracted a xa sa)) * sgn (ketOdd a xa sa) := by
  unfold gradedSign
  rw [sgn_eq_pow, sgn_eq_pow, tri_eq]

/-- **the sign identity of one aligned stored sector pair** -/
theorem bra_pair_sign {a b K : Arr R} {xa xb : List Nat} (h : Adm a b xa xb) (S : List Sector)
    (hKs : K.sym = a.sym)
    (hKi : K.indices = dropUnused (without a.indices xa ++ without b.indices xb) S)
    (hKp : K.parity = xor a.parity b.parity)
    (hKl : (K.oddpos.length % 2 == 1) = K.parity)
    {sa sb : Sector} (hsa : sa ∈ a.sectors) (hsb : sb ∈ b.sectors)
    (hal : permuted sb xb = permuted sa xa)
    (ph ph' : Int) (hph' : ph' = ph * sgB (a.parity && b.parity)) :
    ph' * (gradedSign (braOf a xa) (braOf b xb) xa xb sa sb * (braSign a xa sa * braSign b xb sb))
      = conjTotSign K true true (permuted sa (freeAxes a.ndim xa) ++ permuted sb (freeAxes b.ndim xb))
          * (ph * gradedSign a b xa xb sa sb) := by
  obtain ⟨ha, hb, hfa, hfb, hsym, hc, hnA, hnB, hA, hB⟩ := h
  have hla : sa.length = a.ndim := SecLen.of_valid ha sa hsa
  have hlb : sb.length = b.ndim := SecLen.of_valid hb sb hsb
  have hva := SecValid.of_valid ha sa hsa
  have hvb := SecValid.of_valid hb sb hsb
  have hlabA := (NormOk.of_valid ha hfa).labels
  have hlabB := (NormOk.of_valid hb hfb).labels
  -- the counts
  have hkB : oddN b.sym (permuted sb xb) = oddN a.sym (permuted sa xa) := by rw [hal, hsym]
  have hpA : ((oddN a.sym (permuted sa (freeAxes a.ndim xa)) + oddN a.sym (permuted sa xa)) % 2 == 1)
      = a.parity := by
    rw [← oddN_split a.sym sa hla hnA hA, ← oddN_parities]
    exact odd_count_sector hla hva
  have hpB : ((oddN a.sym (permuted sb (freeAxes b.ndim xb)) + oddN a.sym (permuted sa xa)) % 2 == 1)
      = b.parity := by
    rw [← hkB, hsym, ← oddN_split b.sym sb hlb hnB hB, ← oddN_parities]
    exact odd_count_sector hlb hvb
  -- the five signs
  have e_g := gradedSign_sgn a b xa xb sa sb
  have e_gb : gradedSign (braOf a xa) (braOf b xb) xa xb sa sb
      = koszul (a.parities sa) (some (freeAxes a.ndim xa ++ xa))
        * koszul (b.parities sb) (some (xb ++ freeAxes b.ndim xb))
        * sgn (tri (oddContracted a xa sa)) * sgn (ketOdd (braOf a xa) xa sa) := by
    rw [gradedSign_sgn, braOf_parities, braOf_parities, braOf_ndim, braOf_ndim]
    have : oddContracted (braOf a xa) xa sa = oddContracted a xa sa := by
      unfold oddContracted; rw [(braOf_frame a xa).1]
    rw [this]
  have e_a := braSign_eq a xa sa hlabA
  have e_b := braSign_eq b xb sb hlabB
  rw [oddN_split a.sym sa hla hnA hA] at e_a
  rw [oddN_split b.sym sb hlb hnB hB, hkB, ← hsym] at e_b
  have e_K : conjTotSign K true true
        (permuted sa (freeAxes a.ndim xa) ++ permuted sb (freeAxes b.ndim xb))
      = sgB (xor a.parity b.parity) * (sgn (dangOdd a xa sa + dangOdd b xb sb)
          * sgn (tri (oddN a.sym (permuted sa (freeAxes a.ndim xa))
              + oddN a.sym (permuted sb (freeAxes b.ndim xb))))) := by
    unfold conjTotSign conjSign
    rw [conjGlob_valid hKl, hKp, dualOdd_result a b K xa xb S hKs hsym hKi sa sb hla hlb]
    unfold Arr.parities
    rw [koszul_none_oddN, hKs, oddN_append]
    simp only [Bool.true_and, if_true]
    congr 1
    congr 1
    unfold sgn
    rcases Nat.mod_two_eq_zero_or_one (dangOdd a xa sa + dangOdd b xb sb) with h | h <;> simp [h]
  rw [e_gb, e_g, e_a, e_b, e_K]
  exact sign_algebra _ _ _ _ _ _ _ _ _ _ _ _ _ hpA hpB (ketOdd_bra a xa sa hA hla) hph'

end pairsign

/-! ## labels -/
section labels

/-- no label, or one non-dual label (what a freshly created array carries) -/
def OneKet (o : List (Int × Bool)) : Prop := o = [] ∨ ∃ l, o = [(l, false)]

/-- the labels of the bra contraction are the conjugated labels of the ket contraction; the two
    label signs differ by `-1` exactly when both operands carry a label -/
theorem merge_bra (pA : Bool) (oA oB : List (Int × Bool)) (hA : OneKet oA) (hB : OneKet oB)
    (hd : (oA ++ oB).Pairwise (fun x y => x.1 ≠ y.1)) (hpA : (oA.length % 2 == 1) = pA) :
    ∃ out ph, OddposP.mergeOddpos pA oA oB = .ok (out, ph)
      ∧ OddposP.mergeOddpos pA (Arr.oddposDag oA) (Arr.oddposDag oB)
          = .ok (Arr.oddposDag out, ph * sgB (pA && (oB.length % 2 == 1)))
      ∧ (ph = 1 ∨ ph = -1)
      ∧ (∀ x ∈ out, x.2 = false)
      ∧ out.Pairwise (fun x y => oddLt x y = true)
      ∧ out.Pairwise (fun x y => x.1 ≠ y.1) := by
  subst hpA
  rcases hA with rfl | ⟨la, rfl⟩ <;> rcases hB with rfl | ⟨lb, rfl⟩
  · exact ⟨[], 1, rfl, rfl, Or.inl rfl, by simp, List.Pairwise.nil, List.Pairwise.nil⟩
  · exact ⟨[(lb, false)], 1, rfl, rfl, Or.inl rfl, by simp, List.pairwise_singleton _ _, List.pairwise_singleton _ _⟩
  · exact ⟨[(la, false)], 1, rfl, rfl, Or.inl rfl, by simp, List.pairwise_singleton _ _, List.pairwise_singleton _ _⟩
  · have hne : la ≠ lb := by simpa using hd
    rcases Int.lt_or_gt_of_ne hne with hlt | hgt
    · refine ⟨[(la, false), (lb, false)], -1, ?_, ?_, Or.inr rfl, by simp, ?_, by simpa using hne⟩
      · have h1 : ¬ lb < la := by omega
        simp [OddposP.mergeOddpos, resolveScan, oddLt, hne, h1]
        rfl
      · have h1 : ¬ la > lb := by omega
        simp [OddposP.mergeOddpos, resolveScan, oddLt, hne, h1, Arr.oddposDag, sgB, hlt]
        rw [if_neg hne.symm]; rfl
      · simp [oddLt, hlt]
    · refine ⟨[(lb, false), (la, false)], 1, ?_, ?_, Or.inl rfl, by simp, ?_, by simpa using hne.symm⟩
      · have h1 : lb < la := hgt
        have h2 : ¬ la < lb := by omega
        simp [OddposP.mergeOddpos, resolveScan, oddLt, hne, hne.symm, h1, h2]
        rfl
      · have h1 : ¬ lb > la := by omega
        simp [OddposP.mergeOddpos, resolveScan, oddLt, hne, h1, Arr.oddposDag, sgB]
        rfl
      · simp [oddLt]; exact hgt

/-! ### any sorted list of non-dual labels -/
section general
open SymmModel.KoszulP (crossR invR invR_append crossR_perm_left crossR_perm_right crossR_add_swap
  crossR_cons_right)
open SymmModel.OddposP (oddR oddR_ex invR_oddR_sorted mergeOddpos_spec oddSorted_unique OddSorted
  LabelsDistinct)

/-- a sorted list of non-dual labels (what a product of freshly created odd arrays carries) -/
def KetLabels (o : List (Int × Bool)) : Prop :=
  (∀ x ∈ o, x.2 = false) ∧ o.Pairwise (fun x y => oddLt x y = true)

theorem OneKet.ketLabels {o : List (Int × Bool)} (h : OneKet o) : KetLabels o := by
  rcases h with rfl | ⟨l, rfl⟩
  · exact ⟨by simp, List.Pairwise.nil⟩
  · exact ⟨by simp, List.pairwise_singleton _ _⟩

theorem crossR_map {α β : Type} (r : β → β → Bool) (f : α → β) (l m : List α) :
    crossR r (l.map f) (m.map f) = crossR (fun a b => r (f a) (f b)) l m := by
  induction l with
  | nil => rfl
  | cons a l ih =>
    simp only [List.map_cons, crossR, ih, List.filter_map, List.length_map]
    rfl

theorem crossR_congr {α : Type} (r r' : α → α → Bool) (l m : List α)
    (h : ∀ a ∈ l, ∀ b ∈ m, r a b = r' a b) : crossR r l m = crossR r' l m := by
  induction l with
  | nil => rfl
  | cons a l ih =>
    simp only [crossR]
    rw [ih (fun x hx => h x (List.mem_cons_of_mem _ hx)),
      List.filter_congr (fun b hb => h a List.mem_cons_self b hb)]

theorem crossR_flip {α : Type} (r : α → α → Bool) (l m : List α) :
    crossR (fun a b => r b a) l m = crossR r m l := by
  induction l with
  | nil => simp
  | cons a l ih => rw [crossR_cons_right, ← ih]; rfl

theorem oddposDag_perm_map (o : List (Int × Bool)) : (Arr.oddposDag o).Perm (o.map bar) := by
  rw [oddposDag_eq_bar]; exact (List.reverse_perm o).map bar

theorem oddposDag_append (x y : List (Int × Bool)) :
    Arr.oddposDag (x ++ y) = Arr.oddposDag y ++ Arr.oddposDag x := by
  simp [oddposDag_eq_bar, List.reverse_append]

/-- the cross inversions of the conjugated label lists are the cross inversions in the other
    direction -/
theorem crossR_dag (oA oB : List (Int × Bool)) (hA : ∀ x ∈ oA, x.2 = false)
    (hB : ∀ x ∈ oB, x.2 = false) :
    crossR oddR (Arr.oddposDag oA) (Arr.oddposDag oB) = crossR oddR oB oA := by
  rw [crossR_perm_left oddR (oddposDag_perm_map oA), crossR_perm_right oddR _ (oddposDag_perm_map oB),
    crossR_map, ← crossR_flip]
  apply crossR_congr
  intro a ha b hb
  have e1 : a.2 = false := hB _ ha
  have e2 : b.2 = false := hA _ hb
  obtain ⟨a1, a2⟩ := a
  obtain ⟨b1, b2⟩ := b
  simp only at e1 e2
  subst e1 e2
  simp [oddR, oddLt, bar]

/-- `merge_bra` for any sorted lists of non-dual labels -/
theorem merge_bra_gen (pA : Bool) (oA oB : List (Int × Bool)) (hA : KetLabels oA) (hB : KetLabels oB)
    (hd : (oA ++ oB).Pairwise (fun x y => x.1 ≠ y.1)) (hpA : (oA.length % 2 == 1) = pA) :
    ∃ out ph, OddposP.mergeOddpos pA oA oB = .ok (out, ph)
      ∧ OddposP.mergeOddpos pA (Arr.oddposDag oA) (Arr.oddposDag oB)
          = .ok (Arr.oddposDag out, ph * sgB (pA && (oB.length % 2 == 1)))
      ∧ (ph = 1 ∨ ph = -1)
      ∧ (∀ x ∈ out, x.2 = false)
      ∧ out.Pairwise (fun x y => oddLt x y = true)
      ∧ out.Pairwise (fun x y => x.1 ≠ y.1) := by
  obtain ⟨out, p1, s1, m1⟩ := mergeOddpos_spec pA oA oB hd
  have hnd : ∀ x ∈ out, x.2 = false := by
    intro x hx
    rcases List.mem_append.mp (p1.mem_iff.mp hx) with h | h
    · exact hA.1 x h
    · exact hB.1 x h
  have hd' : LabelsDistinct (Arr.oddposDag oA ++ Arr.oddposDag oB) := by
    rw [← oddposDag_append]
    apply oddposDag_distinct
    have : (oB ++ oA).Perm (oA ++ oB) := List.perm_append_comm
    exact (LabelsDistinct.perm (l := oA ++ oB) hd this.symm)
  obtain ⟨out', p1', s1', m1'⟩ := mergeOddpos_spec pA (Arr.oddposDag oA) (Arr.oddposDag oB) hd'
  have hout : out' = Arr.oddposDag out := by
    apply oddSorted_unique s1' (oddposDag_sorted_of_nondual out hnd s1)
    refine p1'.trans ?_
    rw [← oddposDag_append]
    refine (oddposDag_perm_map _).trans (List.Perm.trans ?_ (oddposDag_perm_map out).symm)
    exact ((List.perm_append_comm).trans p1.symm).map bar
  have hsum : invR oddR (oA ++ oB) + invR oddR (Arr.oddposDag oA ++ Arr.oddposDag oB)
      = oA.length * oB.length := by
    rw [invR_append, invR_append, invR_oddR_sorted _ hA.2, invR_oddR_sorted _ hB.2,
      invR_oddR_sorted _ (oddposDag_sorted_of_nondual oA hA.1 hA.2),
      invR_oddR_sorted _ (oddposDag_sorted_of_nondual oB hB.1 hB.2), crossR_dag oA oB hA.1 hB.1]
    simp only [Nat.zero_add]
    apply crossR_add_swap
    intro a ha b hb
    apply oddR_ex
    intro hab
    have := (List.pairwise_append.mp hd).2.2 a ha b hb
    exact this (by rw [hab])
  refine ⟨out, _, m1, ?_, sgn_cases _, hnd, s1, LabelsDistinct.perm (l := oA ++ oB) hd p1.symm⟩
  rw [m1', hout, ValidP.oddposDag_length]
  congr 2
  have hpar : oA.length % 2 = pA.toNat := (toNat_of_beq hpA).symm
  have hs : sgB (pA && (oB.length % 2 == 1)) = sgn (oA.length * oB.length) := by
    unfold sgn sgB
    rw [mul_mod_two, hpar]
    rcases Nat.mod_two_eq_zero_or_one oB.length with h | h <;> cases pA <;> simp [h]
  rw [hs, ← sgn_add]
  apply sgn_congr
  generalize oA.length * oB.length = P at hsum
  omega

end general

end labels

end SymmModel.NormNet
