/-
  SymmModel.Proofs.TwoStepSec — "several pairs at once or one after another" (C04): per-sector facts.
  For a stored sector pair aligned on all pairs: the block shape of its intermediate sector read in the
  einsum order, and the assembled intermediate offset read in the einsum order; boxes.
  Namespace `SymmModel.TwoStepP`.
-/
import SymmModel.Proofs.TwoStepInter
import SymmModel.Proofs.TwoStepOrder2

namespace SymmModel
namespace TwoStepP
open TdotP GradedP RoutesP AssocP KoszulP Assoc3P
open Lazy (sgnI)
set_option linter.unusedSectionVars false

/-- every entry twice -/
def dbl (L : List Nat) (m : Nat) : List Nat := (List.range m).flatMap (fun i => [L.getD i 0, L.getD i 0])

theorem dbl_length (L : List Nat) (m : Nat) : (dbl L m).length = 2 * m := by
  unfold dbl
  rw [KoszulP.length_flatMap_uniform (g := fun i => [L.getD i 0, L.getD i 0]) (L := 2) (fun _ => rfl) m]
  omega

theorem dbl_getD (L : List Nat) (m k : Nat) (hk : k < 2 * m) : (dbl L m).getD k 0 = L.getD (k / 2) 0 := by
  unfold dbl
  have e : k = (k / 2) * 2 + k % 2 := by omega
  rw [List.getD_eq_getElem?_getD]
  conv => lhs; rw [e]
  rw [KoszulP.getElem?_flatMap_uniform (g := fun i => [L.getD i 0, L.getD i 0]) (L := 2) (fun _ => rfl)
    m (k / 2) (k % 2) (by omega) (by omega)]
  rcases Nat.mod_two_eq_zero_or_one k with h | h <;> simp [h]

theorem inBox_dbl (V t : List Nat) (m : Nat) (hV : V.length = m) (h : inBox V t = true) :
    inBox (dbl V m) (dbl t m) = true := by
  rw [inBox_iff] at h ⊢
  rw [dbl_length, dbl_length]
  refine ⟨rfl, fun k hk => ?_⟩
  rw [dbl_getD _ _ _ hk, dbl_getD _ _ _ hk]
  exact h.2 _ (by omega)

/-- a box can be checked after permuting shape and index alike -/
theorem inBox_of_permuted (s i p : List Nat) (n : Nat) (hp : p.Perm (List.range n))
    (hs : s.length = n) (hi : i.length = n) (h : inBox (permuted s p) (permuted i p) = true) :
    inBox s i = true := by
  rw [inBox_iff] at h ⊢
  have hps : ∀ x ∈ p, x < s.length := by rw [hs]; exact perm_range_mem_lt hp
  have hpi : ∀ x ∈ p, x < i.length := by rw [hi]; exact perm_range_mem_lt hp
  refine ⟨by rw [hs, hi], fun k hk => ?_⟩
  have hkp : k ∈ p := hp.mem_iff.mpr (List.mem_range.mpr (hs ▸ hk))
  obtain ⟨j, hj, rfl⟩ := List.getElem_of_mem hkp
  have := h.2 j (by rw [length_permuted s p hps]; exact hj)
  rwa [getD_permuted i p hpi j hj, getD_permuted s p hps j hj] at this

variable {R : Type}

section shapes
variable [AddCommMonoid R] [Mul R] [Neg R] [SignRing R]
variable {a b c : Arr R} {xa xb ya yb : List Nat} {ph : Int}

/-- reading a list at a position list, entrywise -/
theorem getD_of_permuted_eq {X V : List Nat} {P : List Nat} (hP : ∀ i ∈ P, i < X.length)
    (h : permuted X P = V) (i : Nat) (hi : i < P.length) : X.getD (P.getD i 0) 0 = V.getD i 0 := by
  rw [← h, getD_permuted_ax X P hP i hi 0]

/-- **shape of an intermediate sector in the einsum order** -/
theorem shape_ord (W : AdmW a b (xa ++ ya) (xb ++ yb)) (hlx : xa.length = xb.length)
    (hly : ya.length = yb.length) {sa sb : Sector} (hsa : sa ∈ a.sectors) (hsb : sb ∈ b.sectors)
    (hal : permuted sb (xb ++ yb) = permuted sa (xa ++ ya)) :
    (permuted (Arr.blockShapeD a.indices sa) (freeAxes a.ndim xa)
        ++ permuted (Arr.blockShapeD b.indices sb) (freeAxes b.ndim xb)).length = tsN a.ndim b.ndim xa xb
    ∧ (permuted (Arr.blockShapeD a.indices sa) ya).length = ya.length
    ∧ permuted (permuted (Arr.blockShapeD a.indices sa) (freeAxes a.ndim xa)
        ++ permuted (Arr.blockShapeD b.indices sb) (freeAxes b.ndim xb)) (tsOrder a b.ndim xa xb ya yb)
      = dbl (permuted (Arr.blockShapeD a.indices sa) ya) ya.length
        ++ (permuted (Arr.blockShapeD a.indices sa) (freeAxes a.ndim (xa ++ ya))
          ++ permuted (Arr.blockShapeD b.indices sb) (freeAxes b.ndim (xb ++ yb))) := by
  have hA : Mid a.ndim xa ya := Mid.of W.nA W.ltA
  have hB : Mid b.ndim xb yb := Mid.of W.nB W.ltB
  obtain ⟨shpA, _, e1, lA, _⟩ := shape_of_mem (Arr.shapesOk_of_validB W.va) hsa
  obtain ⟨shpB, _, e2, lB, _⟩ := shape_of_mem (Arr.shapesOk_of_validB W.vb) hsb
  rw [← e1] at lA
  rw [← e2] at lB
  have hsy := shapes_y W hlx hsa hsb hal
  clear e1 e2
  generalize Arr.blockShapeD a.indices sa = shA at *
  generalize Arr.blockShapeD b.indices sb = shB at *
  have g := geo_ts W.nA W.ltA W.nB W.ltB hly
  have lFA : (permuted shA (freeAxes a.ndim xa)).length = (freeAxes a.ndim xa).length :=
    TdotP.permuted_length _ _ (by rw [lA]; exact hA.flt)
  have lFB : (permuted shB (freeAxes b.ndim xb)).length = (freeAxes b.ndim xb).length :=
    TdotP.permuted_length _ _ (by rw [lB]; exact hB.flt)
  have hZ : (permuted shA (freeAxes a.ndim xa) ++ permuted shB (freeAxes b.ndim xb)).length
      = tsN a.ndim b.ndim xa xb := by
    rw [List.length_append, lFA, lFB]; rfl
  have hV : (permuted shA ya).length = ya.length :=
    TdotP.permuted_length _ _ (by rw [lA]; exact hA.lt2)
  have pA := permuted_tsPA hA shA (permuted shB (freeAxes b.ndim xb)) lA
  have pB := permuted_tsPB (na := a.ndim) (xa := xa) hB (permuted shA (freeAxes a.ndim xa)) shB lFA lB
  rw [hsy] at pB
  have hPA : ∀ i ∈ tsPA a.ndim xa ya,
      i < (permuted shA (freeAxes a.ndim xa) ++ permuted shB (freeAxes b.ndim xb)).length := by
    intro i hi; rw [hZ]; exact g.ltA hi
  have hPB : ∀ i ∈ tsPB a.ndim b.ndim xa xb yb,
      i < (permuted shA (freeAxes a.ndim xa) ++ permuted shB (freeAxes b.ndim xb)).length := by
    intro i hi; rw [hZ]; exact g.ltB hi
  refine ⟨hZ, hV, ?_⟩
  rw [permuted_tsOrder_sym 0 _ a b.ndim xa xb ya yb W.nA W.ltA W.nB W.ltB hly hZ (by
      intro i hi
      rw [getD_of_permuted_eq hPA pA i (by rw [g.lenA]; exact hi),
        getD_of_permuted_eq hPB pB i (by rw [g.lenB]; exact hi)]),
    permuted_tsRhs hA hB shA shB lA lB]
  congr 1
  unfold dbl
  apply List.flatMap_congr
  intro i hi
  rw [getD_of_permuted_eq hPA pA i (by rw [g.lenA]; exact List.mem_range.mp hi)]

/-- **the assembled intermediate offset in the einsum order** -/
theorem asm_ord (a : Arr R) {nb : Nat} (hnA : (xa ++ ya).Nodup) (hltA : ∀ i ∈ xa ++ ya, i < a.ndim)
    (hnB : (xb ++ yb).Nodup) (hltB : ∀ i ∈ xb ++ yb, i < nb) (hly : ya.length = yb.length)
    (t fL fR : List Nat) (ht : t.length = ya.length)
    (hfL : fL.length = (freeAxes a.ndim (xa ++ ya)).length)
    (hfR : fR.length = (freeAxes nb (xb ++ yb)).length) :
    (asmSide (freeAxes a.ndim xa) ya (freeAxes a.ndim (xa ++ ya)) t fL
        ++ asmSide (freeAxes nb xb) yb (freeAxes nb (xb ++ yb)) t fR).length = tsN a.ndim nb xa xb
    ∧ permuted (asmSide (freeAxes a.ndim xa) ya (freeAxes a.ndim (xa ++ ya)) t fL
        ++ asmSide (freeAxes nb xb) yb (freeAxes nb (xb ++ yb)) t fR) (tsOrder a nb xa xb ya yb)
      = dbl t ya.length ++ (fL ++ fR) := by
  have hA : Mid a.ndim xa ya := Mid.of hnA hltA
  have hB : Mid nb xb yb := Mid.of hnB hltB
  have g := geo_ts hnA hltA hnB hltB hly
  have hZ : (asmSide (freeAxes a.ndim xa) ya (freeAxes a.ndim (xa ++ ya)) t fL
        ++ asmSide (freeAxes nb xb) yb (freeAxes nb (xb ++ yb)) t fR).length = tsN a.ndim nb xa xb := by
    rw [List.length_append, asmSide_length, asmSide_length]; rfl
  have pA := permuted_asm_tsPA hA t fL
    (asmSide (freeAxes nb xb) yb (freeAxes nb (xb ++ yb)) t fR) ht
  have pB := permuted_asm_tsPB (na := a.ndim) (xa := xa) hB t fR
    (asmSide (freeAxes a.ndim xa) ya (freeAxes a.ndim (xa ++ ya)) t fL) (asmSide_length _ _ _ _ _)
    (ht.trans hly)
  have hPA : ∀ i ∈ tsPA a.ndim xa ya,
      i < (asmSide (freeAxes a.ndim xa) ya (freeAxes a.ndim (xa ++ ya)) t fL
        ++ asmSide (freeAxes nb xb) yb (freeAxes nb (xb ++ yb)) t fR).length := by
    intro i hi; rw [hZ]; exact g.ltA hi
  have hPB : ∀ i ∈ tsPB a.ndim nb xa xb yb,
      i < (asmSide (freeAxes a.ndim xa) ya (freeAxes a.ndim (xa ++ ya)) t fL
        ++ asmSide (freeAxes nb xb) yb (freeAxes nb (xb ++ yb)) t fR).length := by
    intro i hi; rw [hZ]; exact g.ltB hi
  refine ⟨hZ, ?_⟩
  rw [permuted_tsOrder_sym 0 _ a nb xa xb ya yb hnA hltA hnB hltB hly hZ (by
      intro i hi
      rw [getD_of_permuted_eq hPA pA i (by rw [g.lenA]; exact hi),
        getD_of_permuted_eq hPB pB i (by rw [g.lenB]; exact hi)]),
    permuted_asm_tsRhs hA hB t fL fR hfL hfR]
  congr 1
  unfold dbl
  apply List.flatMap_congr
  intro i hi
  rw [getD_of_permuted_eq hPA pA i (by rw [g.lenA]; exact List.mem_range.mp hi)]

end shapes

end TwoStepP
end SymmModel
