/-
  SymmModel.Proofs.Reshape5a — the planner on the way back, any number of fused axes: the old shape
  is described by a symbolic shape `st` (kept axes `(d, none)`, fused axes `(D, some subs)` of any —
  also sparse — size `D`), the target is `st` with every fused axis replaced by its sub-sizes.  The
  plan unfuses the fused axes LEFT TO RIGHT (axis numbers shifted by what was expanded before).
-/
import SymmModel.Proofs.Reshape4a
namespace SymmModel.Reshape5
open SymmModel SymmModel.Reshape SymmModel.C07 SymmModel.Reshape4

/-- what one symbolic axis becomes in the target -/
def tgt1 (e : Nat × Option (List Nat)) : List Nat :=
  match e.2 with
  | none => [e.1]
  | some subs => subs

/-- the target shape -/
def tgt (st : SymShape) : List Nat := st.flatMap tgt1

/-- the axes to unfuse, left to right; `off` = number of axes before `st` in the expanded shape -/
def backAxes : SymShape → Nat → List Nat
  | [], _ => []
  | (_, none) :: r, off => backAxes r (off + 1)
  | (_, some subs) :: r, off => off :: backAxes r (off + subs.length)

/-- the labels the first loop appends: "o" for a kept axis, f"u{k}" for the k-th fused axis -/
def lbls : Nat → SymShape → List Lbl
  | _, [] => []
  | k, (_, none) :: r => Lbl.o :: lbls k r
  | k, (_, some _) :: r => Lbl.u k :: lbls (k + 1) r

def lens : SymShape → List Nat
  | [] => []
  | (_, none) :: r => lens r
  | (_, some subs) :: r => subs.length :: lens r

def FusedOk (st : SymShape) : Prop := ∀ e ∈ st, ∀ subs, e.2 = some subs → subs ≠ []

@[simp] theorem tgt_nil : tgt [] = [] := rfl
@[simp] theorem tgt_append (a b : SymShape) : tgt (a ++ b) = tgt a ++ tgt b := by simp [tgt]
@[simp] theorem tgt_cons (e : Nat × Option (List Nat)) (b : SymShape) : tgt (e :: b) = tgt1 e ++ tgt b := by
  simp [tgt]

theorem sizes_getElem (pre : SymShape) (e : Nat × Option (List Nat)) (rest : SymShape) :
    (SymShape.sizes (pre ++ e :: rest))[pre.length]? = some e.1 := by
  simp [SymShape.sizes]

theorem subs_getElem (pre : SymShape) (e : Nat × Option (List Nat)) (rest : SymShape) :
    (SymShape.subs (pre ++ e :: rest))[pre.length]? = some e.2 := by
  simp [SymShape.subs]

/-- the first loop on the way back -/
theorem mainLoop_back (st : SymShape) :
    ∀ (rest pre : SymShape) (fuel : Nat) (term : List Lbl) (us : List Nat),
      st = pre ++ rest → rest.length ≤ fuel → FusedOk rest →
      mainLoop (SymShape.sizes st) (tgt st) (SymShape.subs st) fuel
          ⟨pre.length, (tgt pre).length, (tgt pre).length, term, [], us, [], [], false, false⟩
        = .ok ⟨st.length, (tgt st).length, (tgt st).length, term ++ lbls us.length rest, [],
               us ++ lens rest, [], [], false, false⟩ := by
  intro rest
  induction rest with
  | nil =>
    intro pre fuel term us hs _ _
    have : st = pre := by simp [hs]
    subst this
    rw [mainLoop_done _ _ _ _ _ (by simp [SymShape.sizes])]
    simp [lbls, lens]
  | cons e rest ih =>
    intro pre fuel term us hs hf hok
    cases fuel with
    | zero => simp at hf
    | succ f =>
      have hs' : st = (pre ++ [e]) ++ rest := by simp [hs]
      have hokr : FusedOk rest := fun e' he' => hok e' (by simp [he'])
      have g1 := sizes_getElem pre e rest
      have g3 := subs_getElem pre e rest
      rw [← hs] at g1 g3
      obtain ⟨d, o⟩ := e
      cases o with
      | none =>
        have g2 : (tgt st)[(tgt pre).length]? = some d := by
          rw [hs]; simp [tgt1]
        have := ih (pre ++ [(d, none)]) f (term ++ [Lbl.o]) us hs' (by simpa using hf) hokr
        simp only [List.length_append, List.length_cons, List.length_nil, tgt_append, tgt_cons,
          tgt_nil, tgt1, List.append_nil, Nat.zero_add] at this
        simp only [mainLoop, g1, g2, g3, unfuseMatch, Nat.beq_refl, if_true]
        rw [this]
        simp [lbls, lens]
      | some subs =>
        have hne : subs ≠ [] := hok (d, some subs) (by simp) subs rfl
        obtain ⟨m0, mid', rfl⟩ := List.exists_cons_of_ne_nil hne
        have g2 : (tgt st)[(tgt pre).length]? = some m0 := by
          rw [hs]; simp [tgt1]
        have hwin : ((tgt st).drop (tgt pre).length).take (m0 :: mid').length = m0 :: mid' := by
          rw [hs]
          simp only [tgt_append, tgt_cons, tgt1]
          rw [List.drop_left' rfl, List.take_left' rfl]
        have g4 : unfuseMatch (tgt st) (tgt pre).length (some (m0 :: mid')) = some (m0 :: mid') := by
          simp only [unfuseMatch, hwin, beqNats_refl, if_true]
        have := ih (pre ++ [(d, some (m0 :: mid'))]) f (term ++ [Lbl.u us.length])
          (us ++ [(m0 :: mid').length]) hs' (by simpa using hf) hokr
        simp only [List.length_append, List.length_cons, List.length_nil, tgt_append, tgt_cons,
          tgt_nil, tgt1, List.append_nil, Nat.zero_add] at this
        simp only [mainLoop, g1, g2, g3, g4,
          unfuseCheck_match _ _ 0 (tgt pre).length (tgt pre).length hwin]
        simp only [List.length_cons, Nat.zero_add] at this ⊢
        rw [this]
        simp [lbls, lens]

/-- the unfuse phase on the labels of the way back -/
theorem unfusePhase_back : ∀ (rest : SymShape) (k c : Nat) (axs : List Nat),
    unfusePhase (lens rest) k (List.replicate c Lbl.o ++ lbls k rest) axs
      = .ok (List.replicate (c + (tgt rest).length) Lbl.o, axs ++ backAxes rest c) := by
  intro rest
  induction rest with
  | nil => intro k c axs; simp [lens, lbls, backAxes, unfusePhase, pure, Except.pure]
  | cons e rest ih =>
    intro k c axs
    obtain ⟨d, o⟩ := e
    cases o with
    | none =>
      have e1 : List.replicate c Lbl.o ++ lbls k ((d, none) :: rest)
          = List.replicate (c + 1) Lbl.o ++ lbls k rest := by
        simp [lbls, List.replicate_succ']
      simp only [lens, backAxes]
      rw [e1, ih k (c + 1) axs]
      simp [tgt1]; omega
    | some subs =>
      simp only [lens, lbls, backAxes, unfusePhase, indexOf?_replicate_o]
      have e1 : (List.replicate c Lbl.o ++ Lbl.u k :: lbls (k + 1) rest).take c = List.replicate c Lbl.o := by
        rw [List.take_left' (by simp)]
      have e2 : (List.replicate c Lbl.o ++ Lbl.u k :: lbls (k + 1) rest).drop (c + 1) = lbls (k + 1) rest := by
        have : List.replicate c Lbl.o ++ Lbl.u k :: lbls (k + 1) rest
            = (List.replicate c Lbl.o ++ [Lbl.u k]) ++ lbls (k + 1) rest := by simp
        rw [this, List.drop_left' (by simp)]
      rw [e1, e2, List.replicate_append_replicate, ih (k + 1) (c + subs.length) (axs ++ [c])]
      simp [tgt1, Nat.add_assoc]

/-- **the plan of the way back, several fused axes** -/
theorem back_plan_multi (st : SymShape) (hok : FusedOk st) :
    calcReshapeArgs (SymShape.sizes st) (tgt st) (SymShape.subs st) = .ok (backAxes st 0, [], []) := by
  have hmain := mainLoop_back st st [] ((SymShape.sizes st).length + (tgt st).length) [] [] rfl
    (by simp [SymShape.sizes]) hok
  simp only [List.length_nil, tgt_nil, List.nil_append] at hmain
  unfold calcReshapeArgs
  have e0 : ({} : RState) = ⟨0, 0, 0, [], [], [], [], [], false, false⟩ := rfl
  rw [e0, hmain]
  have e1 : (SymShape.sizes st).length - st.length = 0 := by simp [SymShape.sizes]
  simp only [e1, Nat.sub_self, List.replicate_zero, List.append_nil, Nat.blt]
  have := unfusePhase_back st 0 0 []
  simp only [List.replicate_zero, List.nil_append, Nat.zero_add] at this
  rw [this]
  simp [pure, Except.pure]

example : backAxes [(6, some [2, 3]), (7, none), (20, some [4, 5])] 0 = [0, 3]
    ∧ tgt [(6, some [2, 3]), (7, none), (20, some [4, 5])] = [2, 3, 7, 4, 5] := by decide

end SymmModel.Reshape5
