/-
  SymmModel.Proofs.Fuse5Conj3 — `conj` commutes with `unfuse`: the sub-index table travels through
  `conj` with its directions flipped (`Index.conj` recurses through `sub`), so unfusing the conjugate
  gives the conjugate of the unfused array exactly.
-/
import SymmModel.Proofs.Fuse5Conj2
namespace SymmModel
namespace FuseP
set_option linter.unusedSectionVars false
open SymmModel.LinalgLemmas SymmModel.Lazy

variable {R : Type} [Zero R] [Neg R] [Conj R] [LawfulNegConj R]

theorem conjK_sliceK (b : Blk R) (starts lens : List Nat) :
    (b.conjK).sliceK starts lens = (b.sliceK starts lens).conjK := by
  unfold Blk.sliceK
  rw [conjK_ofFn]
  exact ofFn_congr (fun i _ => Blk.get_conjK b _)

theorem piecesOf_cj (subs : List Index) (exts : Extents) (p : Nat) (sb : Sector × Blk R) :
    piecesOf (subs.map Index.conj) exts p (cjBlk sb) = (piecesOf subs exts p sb).map cjBlk := by
  simp only [piecesOf, cjBlk, conjK_shape, List.map_map, ← conjList_eq_map, blockShape?_conjList]
  apply List.map_congr_left
  intro q _
  simp only [Function.comp, cjBlk]
  rw [conjK_sliceK, conjK_reshapeK]

theorem ainsertAll_cj (acc l : List (Sector × Blk R)) :
    ainsertAll (acc.map cjBlk) (l.map cjBlk) = (ainsertAll acc l).map cjBlk := by
  induction l generalizing acc with
  | nil => rfl
  | cons q l ih =>
    show ainsertAll (ainsert (acc.map cjBlk) (cjBlk q).1 (cjBlk q).2) (l.map cjBlk) = _
    have : ainsert (acc.map cjBlk) (cjBlk q).1 (cjBlk q).2 = (ainsert acc q.1 q.2).map cjBlk :=
      ainsert_map_cj acc q.1 q.2
    rw [this, ih]
    rfl

theorem adict_cj (l : List (Sector × Blk R)) : adict (l.map cjBlk) = (adict l).map cjBlk := by
  have := ainsertAll_cj [] l
  simpa [adict_eq] using this

theorem conj_sub (ix : Index) {subs : List Index} {exts : Extents} (h : ix.sub = some (subs, exts)) :
    ix.conj.sub = some (subs.map Index.conj, exts) := by
  obtain ⟨c, d, s⟩ := ix
  simp only [Index.sub] at h
  subst h
  simp only [Index.conj, Index.sub, conjList_eq_map]

theorem replaceWithSeq_map {α β : Type} (f : α → β) (l : List α) (p : Nat) (seq : List α) :
    replaceWithSeq (l.map f) p (seq.map f) = (replaceWithSeq l p seq).map f := by
  simp [replaceWithSeq, List.map_take, List.map_drop]

/-- **unfuse ∘ conj = conj ∘ unfuse** -/
theorem unfuseA_conjA (x : Arr R) (p : Nat) (ix : Index) (subs : List Index) (exts : Extents)
    (hvx : ValidArr x) (hix : x.indices[p]? = some ix) (hsub : ix.sub = some (subs, exts)) :
    unfuseA x.conjA p = (unfuseA x p).map Arr.conjA := by
  have h3 : ∀ sb ∈ x.blocks, ∃ ext, alookup exts (sb.1.getD p (0, 0)) = some ext
      ∧ ∀ q ∈ ext, ∃ shp, Arr.blockShape? subs q.1 = some shp := by
    intro sb hsb
    obtain ⟨_, _, _, e, he, hok⟩ := block_at_axis hvx hix hsub hsb
    refine ⟨e, he, ?_⟩
    intro q hq
    obtain ⟨_, ⟨shp, hshp, _⟩, _⟩ := hok.entry q.1 q.2 hq
    exact ⟨shp, hshp⟩
  have hfl := conjA_fields x
  have hixc : x.conjA.indices[p]? = some ix.conj := by
    rw [hfl.2.1, List.getElem?_map, hix]; rfl
  have h3c : ∀ sb ∈ x.conjA.blocks, ∃ ext, alookup exts (sb.1.getD p (0, 0)) = some ext
      ∧ ∀ q ∈ ext, ∃ shp, Arr.blockShape? (subs.map Index.conj) q.1 = some shp := by
    intro sb hsb
    rw [hfl.2.2.1] at hsb
    obtain ⟨sb0, hsb0, rfl⟩ := List.mem_map.1 hsb
    obtain ⟨e, he, hq⟩ := h3 sb0 hsb0
    refine ⟨e, he, fun q hqm => ?_⟩
    rw [← conjList_eq_map, blockShape?_conjList]
    exact hq q hqm
  rw [unfuseA_eq x p ix subs exts hix hsub h3,
    unfuseA_eq x.conjA p ix.conj (subs.map Index.conj) exts hixc (conj_sub ix hsub) h3c]
  simp only [Except.map]
  congr 1
  have hb : adict (x.conjA.blocks.flatMap (piecesOf (subs.map Index.conj) exts p))
      = (adict (x.blocks.flatMap (piecesOf subs exts p))).map cjBlk := by
    rw [← adict_cj, hfl.2.2.1, List.flatMap_map, List.map_flatMap]
    congr 1
    apply List.flatMap_congr
    intro sb _
    exact piecesOf_cj subs exts p sb
  rw [hb, hfl.2.1, replaceWithSeq_map]
  rfl

end FuseP
end SymmModel
