/-
  SymmModel.Proofs.FuseConcat3 — target 6 of property C05 (one multi-axis group): the insert and
  the concat strategy produce, for every new sector, blocks with the same shape and the same
  entries.
-/
import SymmModel.Proofs.FuseConcat2
namespace SymmModel
namespace FuseP
set_option linter.unusedSectionVars false

variable {R : Type}

section One
variable {a : Arr R} {gaxes : List Nat} [Zero R]

/-- inside the range of a stored block the fused block holds that block (reshaped) -/
theorem fused_get_hit (hv : ValidArr a) (hok : GroupsOk [gaxes] a.ndim) (hlen : gaxes.length ≠ 1)
    {sb : Sector × Blk R} (hsb : sb ∈ a.blocks) {B : Blk R}
    (hB : alookup (fusedBlocks a gaxes) (nsOf a gaxes sb.1) = some B) {i : List Nat}
    (hi : inBox B.shape i = true)
    (hr : stOf a gaxes sb.1 ≤ i.getD (gi1 a gaxes).position 0
      ∧ i.getD (gi1 a gaxes).position 0 < stOf a gaxes sb.1 + prod (shMid gaxes sb.2.shape)) :
    B.get i = (toItem a gaxes sb).2.2.get
      (i.set (gi1 a gaxes).position (i.getD (gi1 a gaxes).position 0 - stOf a gaxes sb.1)) := by
  have hinv := fusedBlocks_inv hv hok hlen
  have hbox : inBox (shapeOf1 a gaxes (nsOf a gaxes sb.1)) i = true := by
    rw [← hinv.shape _ B hB]; exact hi
  have hreg := (toItem_region hv hok hlen hsb hbox).2 hr
  rw [hinv.hit _ B hB (toItem a gaxes sb) (List.mem_map.2 ⟨sb, hsb, rfl⟩) rfl i hbox hreg]
  have hBl : B.shape.length = (newIndices1 a gaxes).length := by
    rw [hinv.shape _ B hB]
    simp only [shapeOf1, shapeOf1_stored hv hok hlen hsb, Option.getD_some]
    exact fusedShape_length hok _ _
  have hil : i.length = (newIndices1 a gaxes).length := by rw [inBox_length hi, hBl]
  show (toItem a gaxes sb).2.2.get (List.zipWith (· - ·) i
    ((List.replicate (newIndices1 a gaxes).length 0).set (gi1 a gaxes).position (stOf a gaxes sb.1))) = _
  rw [zipWith_sub_set hil]

/-- outside the ranges of all stored blocks the fused block is zero -/
theorem fused_get_miss (hv : ValidArr a) (hok : GroupsOk [gaxes] a.ndim) (hlen : gaxes.length ≠ 1)
    {ns : Sector} {B : Blk R} (hB : alookup (fusedBlocks a gaxes) ns = some B) {i : List Nat}
    (hi : inBox B.shape i = true)
    (hno : ∀ sb ∈ a.blocks, nsOf a gaxes sb.1 = ns →
      ¬ (stOf a gaxes sb.1 ≤ i.getD (gi1 a gaxes).position 0
        ∧ i.getD (gi1 a gaxes).position 0 < stOf a gaxes sb.1 + prod (shMid gaxes sb.2.shape))) :
    B.get i = 0 := by
  have hinv := fusedBlocks_inv hv hok hlen
  have hbox : inBox (shapeOf1 a gaxes ns) i = true := by rw [← hinv.shape _ B hB]; exact hi
  apply hinv.miss _ B hB i hbox
  intro it hit hkey
  obtain ⟨sb, hsb, rfl⟩ := List.mem_map.1 hit
  have hkey' : nsOf a gaxes sb.1 = ns := hkey
  cases hreg : inRegion (toItem a gaxes sb).2.1 (toItem a gaxes sb).2.2.shape i with
  | false => rfl
  | true =>
    exfalso
    exact hno sb hsb hkey' ((toItem_region hv hok hlen hsb (by rw [hkey']; exact hbox)).1 hreg)

theorem set_set_same {α : Type} (l : List α) (p : Nat) (u v : α) : (l.set p u).set p v = l.set p v := by
  simp

theorem mid_set_self {α : Type} (x y : List α) (u : α) : (x ++ [u] ++ y).set x.length u = x ++ [u] ++ y := by
  rw [set_mid]

theorem setSliceK_wf (dest src : Blk R) (starts : List Nat) : (dest.setSliceK starts src).wf = true :=
  ofFn_wf _ _

theorem insFold_wf (shapeOf : Sector → List Nat) (items : List (Item R)) :
    ∀ kB ∈ insFold shapeOf items, kB.2.wf = true := by
  unfold insFold
  suffices h : ∀ acc : List (Sector × Blk R), (∀ kB ∈ acc, kB.2.wf = true) →
      ∀ kB ∈ items.foldl (insStep shapeOf) acc, kB.2.wf = true from h [] (by simp)
  induction items with
  | nil => intro acc h; exact h
  | cons it items ih =>
    intro acc h
    apply ih
    intro kB hkB
    rcases mem_ainsert hkB with h1 | h1
    · exact h kB h1
    · rw [h1]; exact setSliceK_wf _ _ _

/-- blocks with the same shape and the same entries on the box are equal -/
theorem blk_ext_of_get {B C : Blk R} (hB : B.wf = true) (hC : C.wf = true) (hs : B.shape = C.shape)
    (hg : ∀ i, inBox B.shape i = true → B.get i = C.get i) : B = C := by
  rw [← ofFn_get_self B hB, ← ofFn_get_self C hC, ← hs]
  exact ofFn_congr hg

/-- **both strategies agree** (one multi-axis group): same stored sectors, same shapes, same entries -/
theorem insert_eq_concat (hv : ValidArr a) (hok : GroupsOk [gaxes] a.ndim) (hlen : gaxes.length ≠ 1)
    (ns : Sector) :
    (alookup (fusedBlocks a gaxes) ns = none ∧ alookup (concatBlocks a gaxes) ns = none)
    ∨ ∃ B C, alookup (fusedBlocks a gaxes) ns = some B ∧ alookup (concatBlocks a gaxes) ns = some C
        ∧ B.shape = C.shape ∧ (∀ i, inBox B.shape i = true → B.get i = C.get i) ∧ B = C := by
  have hinv := fusedBlocks_inv hv hok hlen
  have hg := grouped1_inv hv hok
  have hcl : ∀ ns, alookup (concatBlocks a gaxes) ns
      = (alookup (grouped1 a gaxes) ns).map (fun sub =>
          Blk.concatK (arraysOf a gaxes ns sub) (gi1 a gaxes).position) := by
    intro ns
    exact alookup_map_val (fun k v => Blk.concatK (arraysOf a gaxes k v) (gi1 a gaxes).position) _ ns
  by_cases hk : ns ∈ a.blocks.map (fun sb => nsOf a gaxes sb.1)
  · right
    obtain ⟨sb0, hsb0, rfl⟩ := List.mem_map.1 hk
    have hkB : nsOf a gaxes sb0.1 ∈ (fusedBlocks a gaxes).map (·.1) := by
      rw [hinv.keys]; simp only [List.map_map]; exact List.mem_map.2 ⟨sb0, hsb0, rfl⟩
    obtain ⟨B, hB⟩ := Option.isSome_iff_exists.1 (alookup_isSome_iff.2 hkB)
    have hkG : nsOf a gaxes sb0.1 ∈ (grouped1 a gaxes).map (·.1) := by
      rw [hg.keys]; simp only [List.map_map]; exact List.mem_map.2 ⟨sb0, hsb0, rfl⟩
    obtain ⟨sub, hsub⟩ := Option.isSome_iff_exists.1 (alookup_isSome_iff.2 hkG)
    suffices hmain : B.shape = (Blk.concatK (arraysOf a gaxes (nsOf a gaxes sb0.1) sub) (gi1 a gaxes).position).shape
        ∧ (∀ i, inBox B.shape i = true →
            B.get i = (Blk.concatK (arraysOf a gaxes (nsOf a gaxes sb0.1) sub) (gi1 a gaxes).position).get i)
        ∧ (Blk.concatK (arraysOf a gaxes (nsOf a gaxes sb0.1) sub) (gi1 a gaxes).position).wf = true by
      refine ⟨B, _, hB, by rw [hcl, hsub]; rfl, hmain.1, hmain.2.1, ?_⟩
      exact blk_ext_of_get (insFold_wf _ _ _ (alookup_some_mem hB)) hmain.2.2 hmain.1 hmain.2.1
    -- the table
    obtain ⟨e, D, st0, h1, h2, h3, h4⟩ := stored_in_table hv hok hlen hsb0
    obtain ⟨_, _, hext⟩ := fix1_extent hv hok hlen h1
    have hD : DOf a gaxes (cOf a gaxes sb0.1) = D := by simp [DOf, h3]
    have hBs : B.shape = shPre a gaxes sb0.2.shape ++ [D] ++ shPost a gaxes sb0.2.shape := by
      rw [hinv.shape _ B hB]; simp [shapeOf1, shapeOf1_stored hv hok hlen hsb0, hD]
    have hSh : shapeOf1 a gaxes (nsOf a gaxes sb0.1) = B.shape := (hinv.shape _ B hB).symm
    have hBl : B.shape.length = (newIndices1 a gaxes).length := by rw [hBs, fusedShape_length hok]
    have hpos : (gi1 a gaxes).position < B.shape.length := by rw [hBl, newIndices1_length hok]; omega
    have hBpos : B.shape.getD (gi1 a gaxes).position 0 = D := by
      rw [hBs, ← shPre_length hok sb0.2.shape]; simp
    have hBset : B.shape.set (gi1 a gaxes).position D = B.shape := by
      rw [hBs, ← shPre_length hok sb0.2.shape, set_mid]
    -- what the grouped dictionary holds
    have hsubmem : ∀ ss b, alookup sub [ss] = some b →
        ∃ sb ∈ a.blocks, nsOf a gaxes sb.1 = nsOf a gaxes sb0.1 ∧ ssOf gaxes sb.1 = ss
          ∧ b = (toItem a gaxes sb).2.2 := by
      intro ss b hb
      have := (hg.sub _ sub hsub [ss] b).1 hb
      obtain ⟨sb, hsb, heq⟩ := List.mem_map.1 this
      simp only [toGItem, Prod.mk.injEq, List.cons.injEq, and_true] at heq
      exact ⟨sb, hsb, heq.1, heq.2.1, heq.2.2.symm⟩
    -- the arrays
    let g : Sector × Nat → Blk R := fun q => match alookup sub [q.1] with
      | some b => b
      | none => Blk.zeros ((shapeOf1 a gaxes (nsOf a gaxes sb0.1)).set (gi1 a gaxes).position q.2)
    have harr : arraysOf a gaxes (nsOf a gaxes sb0.1) sub = e.map g := by
      simp only [arraysOf, extOfNs, nsOf_getD_pos hok, h1, Option.getD_some]; rfl
    have hgshape : ∀ q ∈ e, (g q).shape = B.shape.set (gi1 a gaxes).position q.2 := by
      intro q hq
      obtain ⟨ss, d⟩ := q
      simp only [g]
      cases hl : alookup sub [ss] with
      | none => simp only [hSh]; rfl
      | some b =>
        obtain ⟨sb, hsb, hns, hss, rfl⟩ := hsubmem ss b hl
        simp only
        obtain ⟨e', D', st', h1', h2', _, _⟩ := stored_in_table hv hok hlen hsb
        rw [cOf_of_ns hok hns, h1] at h1'
        simp only [Option.some.injEq] at h1'; subst h1'
        obtain ⟨st, hst⟩ := startOf_of_mem_nodup hext.nodup hq
        rw [hss, hst] at h2'
        simp only [Option.some.injEq, Prod.mk.injEq] at h2'
        show newShapeOf a gaxes sb.2.shape = _
        rw [newShapeOf_eq_set hok _ (DOf a gaxes (cOf a gaxes sb.1)), ← h2'.2]
        have e1 := shapeOf1_stored hv hok hlen hsb
        have : shPre a gaxes sb.2.shape ++ [DOf a gaxes (cOf a gaxes sb.1)] ++ shPost a gaxes sb.2.shape
            = B.shape := by
          rw [← hSh, ← hns]; simp [shapeOf1, e1]
        rw [this]
    have hsizes : (e.map g).map (fun b => b.shape.getD (gi1 a gaxes).position 0) = e.map (·.2) := by
      rw [List.map_map]
      apply List.map_congr_left
      intro q hq
      simp only [Function.comp, hgshape q hq, getD_set, hpos, and_self, if_true]
    -- the extent is not empty
    cases he : e with
    | nil => rw [he] at h2; simp [startOf] at h2
    | cons q0 rest =>
      have hq0 : q0 ∈ e := by rw [he]; simp
      have hC : arraysOf a gaxes (nsOf a gaxes sb0.1) sub = g q0 :: rest.map g := by rw [harr, he]; rfl
      have hsz : ((g q0 :: rest.map g).map (fun b => b.shape.getD (gi1 a gaxes).position 0)) = e.map (·.2) := by
        rw [← hsizes, he]; rfl
      have hCshape : (Blk.concatK (arraysOf a gaxes (nsOf a gaxes sb0.1) sub) (gi1 a gaxes).position).shape
          = B.shape := by
        rw [hC, concatK_shape, hsz, h4, hgshape q0 hq0, set_set_same, hBset]
      refine ⟨hCshape.symm, ?_, by rw [hC]; exact ofFn_wf _ _⟩
      intro i hi
      have hip : i.getD (gi1 a gaxes).position 0 < D := by
        have := (inBox_iff.1 hi).2 _ hpos
        rwa [hBpos] at this
      show B.get i = (Blk.concatK (arraysOf a gaxes (nsOf a gaxes sb0.1) sub) (gi1 a gaxes).position).get i
      rw [hC, concatK_get _ _ _ (by rw [hsz, h4, hgshape q0 hq0, set_set_same, hBset]; exact hi), hsz]
      obtain ⟨k, o, hko⟩ := locatePiece_some (sizes := e.map (·.2)) (p := i.getD (gi1 a gaxes).position 0)
        (by rw [h4]; exact hip)
      obtain ⟨ss, d, hek, hso⟩ := locatePiece_splitOffset hko
      obtain ⟨st, d', hst, hod, hio⟩ := splitOffset_startOf hext.nodup hso
      have hgk : (g q0 :: rest.map g)[k]? = some (g (ss, d)) := by
        have : (g q0 :: rest.map g) = e.map g := by rw [he]; rfl
        rw [this, List.getElem?_map, hek]; rfl
      simp only [hko, hgk]
      -- compare
      simp only [g]
      cases hl : alookup sub [ss] with
      | some b =>
        obtain ⟨sb, hsb, hns, hss, rfl⟩ := hsubmem ss b hl
        simp only
        obtain ⟨e', D', st', h1', h2', _, _⟩ := stored_in_table hv hok hlen hsb
        rw [cOf_of_ns hok hns, h1] at h1'
        simp only [Option.some.injEq] at h1'; subst h1'
        rw [hss, hst] at h2'
        simp only [Option.some.injEq, Prod.mk.injEq] at h2'
        have hstq : stOf a gaxes sb.1 = st := by simp [stOf, cOf_of_ns hok hns, h1, hss, hst]
        rw [fused_get_hit hv hok hlen hsb (by rw [hns]; exact hB) hi (by rw [hstq, ← h2'.2]; omega), hstq]
        congr 2
        omega
      | none =>
        simp only
        rw [zeros_get]
        apply fused_get_miss hv hok hlen hB hi
        intro sb hsb hns hrange
        obtain ⟨e', D', st', h1', h2', _, _⟩ := stored_in_table hv hok hlen hsb
        rw [cOf_of_ns hok hns, h1] at h1'
        simp only [Option.some.injEq] at h1'; subst h1'
        have hstq : stOf a gaxes sb.1 = st' := by simp [stOf, cOf_of_ns hok hns, h1, h2']
        rw [hstq] at hrange
        have hsseq : ssOf gaxes sb.1 = ss := by
          by_cases hq : ssOf gaxes sb.1 = ss
          · exact hq
          · have := startOf_disjoint h2' hst hq; omega
        have hin : (nsOf a gaxes sb0.1, [ss], (toItem a gaxes sb).2.2) ∈ a.blocks.map (toGItem a gaxes) := by
          refine List.mem_map.2 ⟨sb, hsb, ?_⟩
          simp only [toGItem, hns, hsseq]; rfl
        have := (hg.sub _ sub hsub [ss] _).2 hin
        rw [hl] at this; cases this
  · left
    constructor
    · rw [alookup_eq_none_iff, hinv.keys, List.map_map]; exact hk
    · rw [hcl]
      have : alookup (grouped1 a gaxes) ns = none := by
        rw [alookup_eq_none_iff, hg.keys, List.map_map]; exact hk
      rw [this]; rfl

/-- the fused array of the concat strategy -/
def fusedArrC (a : Arr R) (gaxes : List Nat) : Arr R :=
  { a with indices := newIndices1 a gaxes, blocks := concatBlocks a gaxes }

theorem fuseCore_one_concat_eq (hv : ValidArr a) (hok : GroupsOk [gaxes] a.ndim) (hlen : gaxes.length ≠ 1) :
    fuseCore a [gaxes] .concat = .ok (fusedArrC a gaxes) := by
  unfold fuseCore
  rw [calcFuseBlockInfo_eq hv hok]
  simp only [bind, Except.bind, fuseConcat_one_eq hv hok hlen, pure, Except.pure, newIndices_one hok hlen]
  rfl

theorem concatBlocks_nodup (hv : ValidArr a) (hok : GroupsOk [gaxes] a.ndim) :
    ((concatBlocks a gaxes).map (·.1)).Nodup := by
  have := (grouped1_inv hv hok).nodup
  simp only [concatBlocks, List.map_map]
  exact this

end One

end FuseP
end SymmModel
