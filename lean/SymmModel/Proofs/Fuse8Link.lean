/-
  SymmModel.Proofs.Fuse8Link — facts about the extents of a new sector, well-formedness of the
  nested concatenation, the shapes of its leaves.
-/
import SymmModel.Proofs.Fuse8Dec
namespace SymmModel
namespace FuseP
set_option linter.unusedSectionVars false

variable {R : Type} [Zero R]

theorem nest_wf (leaf : List Sector → Blk R) (hleaf : ∀ k, (leaf k).wf = true) :
    ∀ (lv : List Lvl) (key : List Sector) (b : List Nat), LvOk lv b → (nest leaf lv key).wf = true := by
  intro lv
  induction lv with
  | nil => intro key _ _; exact hleaf key
  | cons l r ih =>
    intro key b hok
    cases l with
    | single k => exact ih _ b hok
    | multi ax ext =>
      simp only [nest]
      cases ext with
      | nil => exact absurd rfl hok.2.2.1
      | cons q rest => exact ofFn_wf _ _

section
variable {a : Arr R} {groups : List (List Nat)}

/-- the extent of a stored sector's fused charge at a multi-axis group -/
theorem ext_facts (hv : ValidArr a) (hok : GroupsOk groups a.ndim) {g : Nat} {gaxes : List Nat}
    (hgx : groups[g]? = some gaxes) (hlen : gaxes.length ≠ 1) {sb : Sector × Blk R} (hsb : sb ∈ a.blocks) :
    ((extM a groups (planM a groups sb).newSector g).map (·.1)).Nodup
    ∧ startOf (extM a groups (planM a groups sb).newSector g) (ssM (a := a) (groups := groups) sb g)
        = some (stM a groups sb g, dM (a := a) (groups := groups) sb g)
    ∧ sumN ((extM a groups (planM a groups sb).newSector g).map (·.2)) = DM a groups sb g
    ∧ extM a groups (planM a groups sb).newSector g ≠ [] := by
  obtain ⟨e, D, he, hst, _, hsum, hDM⟩ := stored_tableM hv hok hgx hlen hsb
  have he' : alookup (extsM a groups g) ((planM a groups sb).newSector.getD ((giM a groups).position + g) (0, 0))
      = some e := he
  have hext : extM a groups (planM a groups sb).newSector g = e := by simp only [extM, he', Option.getD_some]
  obtain ⟨_, _, hx⟩ := wfB_extent (ixM_wf hv hok hgx hlen) (ixM_sub hok hgx hlen) he'
  rw [hext]
  refine ⟨hx.nodup, hst, by rw [hsum, hDM], ?_⟩
  intro h; rw [h] at hst; simp [startOf] at hst

/-- the reshaped block of a stored sector is well formed -/
theorem srcM_wf (hv : ValidArr a) (hok : GroupsOk groups a.ndim) {sb : Sector × Blk R} (hsb : sb ∈ a.blocks) :
    ((sb.2.transposeK (giM a groups).perm).reshapeK (planM a groups sb).newShape).wf = true := by
  have hshl : sb.2.shape.length = a.ndim := by
    have := blockShape?_length (hv.blk sb hsb).2.1
    rw [this.2, (hv.blk sb hsb).1]
  have h1 : (sb.2.transposeK (giM a groups).perm).wf = true := ofFn_wf _ _
  have h2 : (sb.2.transposeK (giM a groups).perm).shape = permuted sb.2.shape (giM a groups).perm := rfl
  simp only [Blk.wf, beq_iff_eq] at h1 ⊢
  show (sb.2.transposeK (giM a groups).perm).data.size = prod (planM a groups sb).newShape
  rw [h1, h2, permutedM_eq hok sb.2.shape 0 hshl, nshM_parts hok sb, prod_append, prod_append, prod_append,
    prod_append, prod_flatten_map]

end

end FuseP
end SymmModel
