/-
  SymmModel.Proofs.TwoStepFinal — "several pairs at once or one after another" (C04), VALUES:
  the final assembly.  Namespace `SymmModel.TwoStepP`.
-/
import SymmModel.Proofs.TwoStepMain

namespace SymmModel
namespace TwoStepP
open TdotP GradedP RoutesP AssocP KoszulP Assoc3P
open Lazy (sgnI einOrder einOperand transposedElem)
set_option linter.unusedSectionVars false

variable {R : Type} [AddCommMonoid R] [Mul R] [Neg R] [SignRing R]

/-- the einsum with the canonical labels succeeds on the intermediate -/
theorem two_step_einsum_ok {a b c : Arr R} {xa xb ya yb : List Nat} {ph : Int}
    (C : Ctx a b c xa xb ya yb ph) :
    ∃ e, c.einsumF (tsLhs a.ndim b.ndim xa xb ya yb) (tsRhs a.ndim b.ndim xa xb ya yb) = .ok e := by
  have hlen : (tsLhs a.ndim b.ndim xa xb ya yb).length = c.ndim := by
    rw [C.I.ndim]; simp [tsLhs, tsN]
  rw [Lazy.einsumF_eq]
  have : ((tsLhs a.ndim b.ndim xa xb ya yb).length != c.ndim) = false := by simp [hlen]
  rw [this]
  simp only [Bool.false_eq_true, if_false]
  rw [C.lhsEq]
  exact ⟨_, einsumA_eq _ _ _ _ (einPerm?_canon (tsRhs_lt _ _ _ _ _ _) (tsRhs_nodup _ _ _ _ _ _))
    (by rw [einTracedPos_canon (tsRhs_lt _ _ _ _ _ _)]; simp)⟩

/-- **two_step_elem.** -/
theorem two_step_elem (a b c e c' : Arr R) (xa xb ya yb : List Nat)
    (ha : a.validB = true) (hb : b.validB = true) (hfa : a.fermi = true) (hfb : b.fermi = true)
    (g1 : tdotAdmissibleCommonB a b xa xb = true)
    (g2 : tdotAdmissibleCommonB a b (xa ++ ya) (xb ++ yb) = true)
    (h1 : a.tensordotF b (.pair (xa.map Int.ofNat) (xb.map Int.ofNat)) .blockwise = .ok c)
    (h2 : c.einsumF (tsLhs a.ndim b.ndim xa xb ya yb) (tsRhs a.ndim b.ndim xa xb ya yb) = .ok e)
    (h3 : a.tensordotF b (.pair ((xa ++ ya).map Int.ofNat) ((xb ++ yb).map Int.ofNat)) .blockwise
      = .ok c')
    (s' : Sector) (fL fR : List Nat)
    (hfL : fL.length = (freeAxes a.ndim (xa ++ ya)).length)
    (hbox : inBox (Arr.blockShapeD (without a.indices (xa ++ ya) ++ without b.indices (xb ++ yb)) s')
      (fL ++ fR) = true) :
    e.elem s' (fL ++ fR) = c'.elem s' (fL ++ fR) := by
  have W1 := AdmW.of ha hb hfa hfb g1
  have W2 := AdmW.of ha hb hfa hfb g2
  obtain ⟨r, hm, _, I⟩ := inter_norm W1 h1
  obtain ⟨r', hm', _, I'⟩ := inter_norm W2 h3
  rw [hm] at hm'
  obtain rfl := Except.ok.inj hm'
  generalize (if r.2 = -1 then (-1 : Int) else 1) = ph at I I'
  have C : Ctx a b c xa xb ya yb ph := ⟨W1, W2, I⟩
  have hph := I.pm
  rw [I'.elem s' fL fR hfL hbox]
  have hlen : (tsLhs a.ndim b.ndim xa xb ya yb).length = c.ndim := by
    rw [I.ndim]; simp [tsLhs, tsN]
  have hperm : einPerm? (permuted (tsLhs a.ndim b.ndim xa xb ya yb)
      (einOrder c (tsLhs a.ndim b.ndim xa xb ya yb) (tsRhs a.ndim b.ndim xa xb ya yb)))
      (tsRhs a.ndim b.ndim xa xb ya yb)
      = .ok ((List.range (tsRhs a.ndim b.ndim xa xb ya yb).length).map (2 * ya.length + ·)) := by
    rw [C.lhsEq]
    exact einPerm?_canon (tsRhs_lt _ _ _ _ _ _) (tsRhs_nodup _ _ _ _ _ _)
  have htp : (einTracedPos (permuted (tsLhs a.ndim b.ndim xa xb ya yb)
      (einOrder c (tsLhs a.ndim b.ndim xa xb ya yb) (tsRhs a.ndim b.ndim xa xb ya yb)))
      (tsRhs a.ndim b.ndim xa xb ya yb)).any (fun js => js.length != 2) = false := by
    rw [C.lhsEq, einTracedPos_canon (tsRhs_lt _ _ _ _ _ _)]; simp
  obtain ⟨e', he', _, hval⟩ := Lazy.einsumF_elem SignRing.neg_add c _ _ _ I.valid I.fermi hlen hperm htp
    s' (fL ++ fR) (by
      intro s1 hs1 hk hp
      rw [C.lhsEq] at hk ⊢
      rw [Lazy.einOperand_sectors _ _ (Lazy.Full.of_valid I.valid I.fermi), C.ordEq] at hs1
      obtain ⟨s, hs, rfl⟩ := List.mem_map.mp hs1
      obtain ⟨sa, hsa, sb, hsb, halx, rfl⟩ := I.mem_sectors.mp hs
      have haly := (C.keepIff hsa hsb).mp hk
      have hal := (C.alignIff hsa hsb).mpr ⟨halx, haly⟩
      rw [C.keptPart hsa hsb] at hp
      subst hp
      rw [C.outBox hsa hsb hal]
      exact hbox)
  rw [he'] at h2
  obtain rfl := Except.ok.inj h2
  rw [hval, C.lhsEq, C.ordEq]
  -- the core identity
  have key := two_step_core a b xa xb ya yb
    (c.sectors.filter (fun s =>
      einKeep (dblFront (tsN a.ndim b.ndim xa xb) ya.length ++ tsRhs a.ndim b.ndim xa xb ya yb)
        (tsRhs a.ndim b.ndim xa xb ya yb) (permuted s (tsOrder a b.ndim xa xb ya yb))
      && permuted (permuted s (tsOrder a b.ndim xa xb ya yb))
          ((List.range (tsRhs a.ndim b.ndim xa xb ya yb).length).map (2 * ya.length + ·)) == s'))
    s'
    (fun s => (einTraced (dblFront (tsN a.ndim b.ndim xa xb) ya.length ++ tsRhs a.ndim b.ndim xa xb ya yb)
        (tsRhs a.ndim b.ndim xa xb ya yb)).map
      (einSize (Arr.blockShapeD (einOperand c (tsLhs a.ndim b.ndim xa xb ya yb)
          (tsRhs a.ndim b.ndim xa xb ya yb)).indices (permuted s (tsOrder a b.ndim xa xb ya yb)))
        (dblFront (tsN a.ndim b.ndim xa xb) ya.length ++ tsRhs a.ndim b.ndim xa xb ya yb)))
    (fun s => koszul (c.parities s) (some (tsOrder a b.ndim xa xb ya yb))) ph
    (fun p => gradedSign a b xa xb p.1 p.2) fL fR
    (fun _ => Lazy.koszul_pm _ _) hph (fun _ => gradedSign_pm _ _ _ _ _ _)
    (List.Nodup.filter _ (KoszulP.nodup_of_allDistinct _ (Arr.allDistinct_of_validB I.valid)))
    (KoszulP.nodup_of_allDistinct _ (Arr.allDistinct_of_validB ha))
    (KoszulP.nodup_of_allDistinct _ (Arr.allDistinct_of_validB hb))
    (by
      intro sa hsa sb hsb halx
      rw [List.mem_filter]
      simp only [Bool.and_eq_true, beq_iff_eq]
      rw [C.keepIff hsa hsb, C.keptPart hsa hsb, C.alignIff hsa hsb]
      constructor
      · rintro ⟨_, h1, h2⟩; exact ⟨⟨halx, h1⟩, h2⟩
      · rintro ⟨⟨_, h1⟩, h2⟩
        exact ⟨I.mem_sectors.mpr ⟨sa, hsa, sb, hsb, halx, rfl⟩, h1, h2⟩)
    (fun sa hsa sb hsb h => C.alX hsa hsb h)
    (by
      intro s hs p hp
      obtain ⟨hsa, hsb, halx, rfl⟩ := mem_storedPairs.mp hp
      have hk := (List.mem_filter.mp hs).2
      simp only [Bool.and_eq_true, beq_iff_eq] at hk
      have haly := (C.keepIff hsa hsb).mp hk.1
      exact C.tracedBox hsa hsb ((C.alignIff hsa hsb).mpr ⟨halx, haly⟩))
    (by
      intro sa hsa i hi
      obtain ⟨shp, _, e2, e3, _⟩ := shape_of_mem (Arr.shapesOk_of_validB ha) hsa
      rw [e2, e3]; exact W1.ltA i hi)
    W1.len
  have step : ∀ s ∈ c.sectors.filter (fun s =>
      einKeep (dblFront (tsN a.ndim b.ndim xa xb) ya.length ++ tsRhs a.ndim b.ndim xa xb ya yb)
        (tsRhs a.ndim b.ndim xa xb ya yb) (permuted s (tsOrder a b.ndim xa xb ya yb))
      && permuted (permuted s (tsOrder a b.ndim xa xb ya yb))
          ((List.range (tsRhs a.ndim b.ndim xa xb ya yb).length).map (2 * ya.length + ·)) == s'),
      ∀ t ∈ allIdx ((einTraced (dblFront (tsN a.ndim b.ndim xa xb) ya.length
            ++ tsRhs a.ndim b.ndim xa xb ya yb) (tsRhs a.ndim b.ndim xa xb ya yb)).map
          (einSize (Arr.blockShapeD (einOperand c (tsLhs a.ndim b.ndim xa xb ya yb)
              (tsRhs a.ndim b.ndim xa xb ya yb)).indices (permuted s (tsOrder a b.ndim xa xb ya yb)))
            (dblFront (tsN a.ndim b.ndim xa xb) ya.length ++ tsRhs a.ndim b.ndim xa xb ya yb))),
      transposedElem c (tsOrder a b.ndim xa xb ya yb) s
          (einIdx (dblFront (tsN a.ndim b.ndim xa xb) ya.length ++ tsRhs a.ndim b.ndim xa xb ya yb)
            (tsRhs a.ndim b.ndim xa xb ya yb) (fL ++ fR) t)
        = sgnI ph (((storedPairs a b (freeAxes a.ndim xa) xa xb (freeAxes b.ndim xb) s).map (fun p =>
          sgnI (gradedSign a b xa xb p.1 p.2) (contractPair a b xa xb
            (asmSide (freeAxes a.ndim xa) ya (freeAxes a.ndim (xa ++ ya)) t fL)
            (asmSide (freeAxes b.ndim xb) yb (freeAxes b.ndim (xb ++ yb)) t fR) p))).sum) := by
    intro s hs t ht
    obtain ⟨hsc, hk⟩ := List.mem_filter.mp hs
    simp only [Bool.and_eq_true, beq_iff_eq] at hk
    obtain ⟨sa, hsa, sb, hsb, halx, rfl⟩ := I.mem_sectors.mp hsc
    have haly := (C.keepIff hsa hsb).mp hk.1
    have hal := (C.alignIff hsa hsb).mpr ⟨halx, haly⟩
    have hs' := hk.2
    rw [C.keptPart hsa hsb] at hs'
    subst hs'
    rw [C.tracedBox hsa hsb hal] at ht
    exact C.term hsa hsb hal t fL fR ht hfL hbox
  rw [show _ = _ from sum_map_congr (fun s hs => by
    rw [sum_map_congr (step s hs)])]
  rw [key]
  congr 1
  unfold gradedContract
  apply sum_map_congr
  intro p hp
  obtain ⟨hsa, hsb, hal, _⟩ := mem_storedPairs.mp hp
  congr 1
  show koszul ((permuted p.1 (freeAxes a.ndim xa) ++ permuted p.2 (freeAxes b.ndim xb)).map c.sym.parity)
      (some (tsOrder a b.ndim xa xb ya yb)) * gradedSign a b xa xb p.1 p.2 = _
  rw [I.sym]
  exact two_step_sign a b xa xb ya yb p.1 p.2 W2.sym W2.nA W2.ltA W2.nB W2.ltB C.hlx C.hly
    (C.lenA hsa hsb) (C.lenB hsa hsb) hal

end TwoStepP
end SymmModel
