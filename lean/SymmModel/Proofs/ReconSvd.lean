/-
  SymmModel.Proofs.ReconSvd — fermionic `@` of the factors of `qr`, `svd`, `svd_truncated`
  (all absorb options) for inputs carrying a sorted list of labels.  Namespace `SymmModel.ReconP`.
  Nothing here changes a model definition.
-/
import SymmModel.Proofs.ReconLabels

namespace SymmModel
namespace ReconP
open LinalgLemmas OddposP

variable {R : Type}

/-- diagonal sector of the column charge -/
abbrev diagOf (s : Sector) : Sector := [colOf s, colOf s]

/-- `V` is a right factor of a decomposition of the fermionic matrix `x`: no label, the bond index
    first (direction opposite to `x`'s column index), and the sign table `qr_fermionic` /
    `svd_fermionic` leave on it.  Says nothing about the blocks. -/
structure RightOf (x V : Arr R) : Prop where
  hsym : V.sym = x.sym
  hodd : V.oddpos = []
  hidx : ∃ j0 j1, V.indices = [j0, j1] ∧ j0.dual = !(x.indices.getD 1 default).dual
  hph : V.phases = if !(x.indices.getD 1 default).dual then
      ((x.sectors.map diagOf).filter (fun s => x.sym.parity (s.getD 0 (0, 0)))).map
        (fun s => (s, (-1 : Int)))
    else []

theorem rightF_rightOf {x : Arr R} (hv : x.validB = true) (h2 : x.ndim = 2) (hf : x.fermi = true)
    (L Rt : Blk R → Blk R) : RightOf x (rightF x L Rt) := by
  obtain ⟨i0, i1, hi⟩ := ndim_two h2
  obtain ⟨f1, _, f3, _, _, f6⟩ := rightF_fields (x := x) (L := L) (Rt := Rt)
  have hi1 : x.indices.getD 1 default = i1 := by simp [hi]
  refine ⟨f1, f6, ⟨_, _, f3, ?_⟩, ?_⟩
  · rw [bondIx_eq hi, hi1]; simp [Index.conj]
  · rw [rightF_phases hv h2 hi, hi1, hf]; rfl

theorem RightOf.withBlocks {x V : Arr R} (h : RightOf x V) (B : List (Sector × Blk R)) :
    RightOf x { V with blocks := B } := ⟨h.hsym, h.hodd, h.hidx, h.hph⟩

theorem withCm_dual (i : Index) (c : List (Charge × Nat)) : (i.withCm c).dual = i.dual := by
  cases i; rfl

theorem truncV_rightOf [Zero R] {x : Arr R} (hv : x.validB = true) (h2 : x.ndim = 2)
    (hf : x.fermi = true) (L Rt : Blk R → Blk R) (counts : List Nat) :
    RightOf x (truncV x L Rt counts) := by
  obtain ⟨g1, g2, ⟨j0, j1, g3, g4⟩, g5⟩ := rightF_rightOf hv h2 hf L Rt
  obtain ⟨i0, i1, hi⟩ := ndim_two h2
  refine ⟨g1, g2, ⟨_, _, rfl, ?_⟩, g5⟩
  rw [withCm_dual]
  have f3 := (rightF_fields (x := x) (L := L) (Rt := Rt)).2.2.1
  rw [g3] at f3
  have : j0 = (bondIx x L).conj := (List.cons.inj f3).1
  rw [← this]; exact g4

theorem diag_nodup {x : Arr R} (hv : x.validB = true) (h2 : x.ndim = 2) :
    (x.sectors.map diagOf).Nodup := by
  have := rightF0_sectors_nodup (L := id) (Rt := id) hv h2
  rwa [rightF0_sectors] at this

/-! ### `a @ V` for factors aligned with items of `x` -/

/-- `matmulF_items` with the right-factor hypotheses packaged as `RightOf x b` -/
theorem matmulF_rightOf [Zero R] [Add R] [Mul R] [Neg R] {x : Arr R} (hv : x.validB = true)
    (h2 : x.ndim = 2) {α : Type} (l : List α) (sec : α → Sector)
    (hlen : ∀ p ∈ l, (sec p).length = 2) (hsec : (l.map sec).Nodup)
    (hcol : (l.map (fun p => colOf (sec p))).Nodup)
    (hin : ∀ p ∈ l, sec p ∈ x.sectors) (fA fB : α → Blk R) (a b : Arr R)
    (ha : a.blocks = l.map (fun p => (sec p, fA p)))
    (hb : b.blocks = l.map (fun p => (diagOf (sec p), fB p)))
    (hand : a.ndim = 2) (hlab : SortedLabels a.oddpos) (RO : RightOf x b) :
    ∃ y, Arr.matmulF a b = .ok y ∧ y.phases = [] ∧ y.oddpos = a.oddpos
      ∧ y.blocks = l.map (fun p =>
          (sec p, (if alookup a.phases (sec p) == some (-1) then (fA p).negK else fA p).tensordotK
                    (fB p) [1] [0]))
      ∧ y.sym = a.sym ∧ y.fermi = a.fermi
      ∧ y.charge = a.sym.combine [a.charge, b.charge]
      ∧ y.indices = dropUnused (without a.indices [1] ++ without b.indices [0]) (l.map sec) := by
  obtain ⟨j0, j1, hbi, hd⟩ := RO.hidx
  refine matmulF_items l sec hlen hsec hcol fA fB a b ha hb hand hlab RO.hodd j0 j1 hbi
    (x.sectors.map diagOf) (diag_nodup hv h2) ?_ ?_
  · intro p hp
    exact List.mem_map.mpr ⟨sec p, hin p hp, rfl⟩
  · rw [RO.hph, hd, RO.hsym]

/-! ### qr, svd with labels -/

theorem matmulF_factors_labels [Zero R] [Add R] [Mul R] [Neg R] {x : Arr R} (hv : x.validB = true)
    (h2 : x.ndim = 2) (hf : x.fermi = true) (hlab : SortedLabels x.oddpos)
    (a : Arr R) (fU : Blk R → Blk R)
    (hab : a.blocks = x.blocks.map (fun p => (p.1, fU p.2))) (haph : a.phases = x.phases)
    (hand : a.ndim = 2) (haodd : a.oddpos = x.oddpos) (L Rt : Blk R → Blk R) :
    ∃ y, Arr.matmulF a (rightF x L Rt) = .ok y ∧ y.phases = [] ∧ y.oddpos = x.oddpos
      ∧ y.blocks = x.blocks.map (fun p =>
          (p.1, (if alookup x.phases p.1 == some (-1) then (fU p.2).negK else fU p.2).tensordotK
                  (Rt p.2) [1] [0])) := by
  obtain ⟨i0, i1, hi⟩ := ndim_two h2
  have hlen : ∀ p ∈ x.blocks, p.1.length = 2 := by
    intro p hp
    obtain ⟨r, c, m, n, B⟩ := mat_block hv hi (s := p.1) (b := p.2) hp
    rw [B.hs]; rfl
  have hcol : (x.blocks.map (fun p => colOf p.1)).Nodup := by
    have := colCharges_nodup hv h2
    simpa [Arr.sectors, List.map_map, Function.comp_def, colOf] using this
  obtain ⟨y, h1, h2', h3, h4, _⟩ := matmulF_rightOf hv h2 x.blocks (·.1) hlen (sectors_nodup hv) hcol
    (fun p hp => List.mem_map.mpr ⟨p, hp, rfl⟩) (fun p => fU p.2) (fun p => Rt p.2) a
    (rightF x L Rt) hab rightF_fields.2.2.2.2.1 hand (by rw [haodd]; exact hlab)
    (rightF_rightOf hv h2 hf L Rt)
  rw [haph] at h4
  exact ⟨y, h1, h2', h3.trans haodd, h4⟩

theorem qr_recon_fermi_labels [Zero R] [Add R] [Mul R] [Neg R] [NegLaws R] {K : Kernels R}
    (hK : K.ShapeOk) (hC : K.QRContract) {x : Arr R} (hv : x.validB = true) (h2 : x.ndim = 2)
    (hf : x.fermi = true) (hlab : SortedLabels x.oddpos) :
    ∃ y, Arr.matmulF (leftF x (fun b => (K.qr b).1))
        (rightF x (fun b => (K.qr b).1) (fun b => (K.qr b).2)) = .ok y
      ∧ y.oddpos = x.oddpos ∧ y.phases = []
      ∧ ∀ s off, AddrOf x s off → y.elem s off = x.elem s off := by
  obtain ⟨i0, i1, hi⟩ := ndim_two h2
  obtain ⟨y, hy, hyp, hyo, hyb⟩ := matmulF_factors_labels hv h2 hf hlab
    (leftF x (fun b => (K.qr b).1))
    (fun b => (K.qr b).1) rfl rfl rfl rfl (fun b => (K.qr b).1) (fun b => (K.qr b).2)
  refine ⟨y, hy, hyo, hyp, fun s off ha => ?_⟩
  apply elem_of_blocks_map_signed hv h2 y _ hyb hyp _ s off ha
  intro p hp i j hi' hj'
  obtain ⟨s0, b⟩ := p
  obtain ⟨r, c, m, n, B⟩ := mat_block hv hi hp
  obtain ⟨a1, _, a3, _⟩ := hK.qr b m n B.hshape B.hwf
  simp only [B.hshape, List.getD_cons_zero, List.getD_cons_succ] at hi' hj'
  have := signed_matmul_get (alookup x.phases s0 == some (-1)) (K.qr b).1 (K.qr b).2 a1 a3 hi' hj'
  simp only at this ⊢
  rw [this, hC b m n B.hshape B.hwf i j hi' hj']

/-! ### absorbing the singular values, fermionic product -/

theorem absU_shape [Zero R] [Mul R] (mode : Absorb) (sqrtK : Blk R → Blk R) (ub sb : Blk R) :
    (absU mode sqrtK ub sb).shape = ub.shape := by
  cases mode <;> rfl

theorem absV_shape [Zero R] [Mul R] (mode : Absorb) (sqrtK : Blk R → Blk R) (vb sb : Blk R) :
    (absV mode sqrtK vb sb).shape = vb.shape := by
  cases mode <;> rfl

/-- For factors `u, sv, vh` aligned with items of the fermionic matrix `x` (the svd factors, or the
    truncated ones), `u` a rank-2 array with a sorted label list, `vh` a right factor of `x`:
    whatever the absorb mode, the fermionic product `U @ VH` of the absorbed factors succeeds,
    has no pending signs, `u`'s labels, the items' sectors, and at every offset of every item's
    `m × n` box the entry `± Σ_t (u[i,t] · s[t]) · vh[t,j]` (sign = `u`'s pending sign) — the
    element of the abelian blockwise product of `absorb_product`. -/
theorem absorb_matmulF [CommRing R] {x : Arr R} (hv : x.validB = true) (h2 : x.ndim = 2)
    {α : Type} {l : List α} {sec : α → Sector} {ub sb vb : α → Blk R} {u : Arr R} {sv : BVec R}
    {vh : Arr R} (A : Aligned l sec ub sb vb u sv vh) (hin : ∀ p ∈ l, sec p ∈ x.sectors)
    (hu2 : u.ndim = 2) (hlab : SortedLabels u.oddpos) (RO : RightOf x vh)
    (sqrtK : Blk R → Blk R) (dims : α → Nat × Nat × Nat)
    (hsh : ∀ p ∈ l, ItemShape (ub p) (sb p) (vb p) (dims p).1 (dims p).2.1 (dims p).2.2)
    (mode : Absorb)
    (hsq : mode = .both → ∀ p ∈ l, (sqrtK (sb p)).shape = [(dims p).2.1]
      ∧ ∀ t, t < (dims p).2.1 → (sqrtK (sb p)).get [t] * (sqrtK (sb p)).get [t] = (sb p).get [t]) :
    ∃ y, Arr.matmulF (absorbA mode sqrtK u sv vh).1 (absorbA mode sqrtK u sv vh).2 = .ok y
      ∧ y.phases = [] ∧ y.oddpos = u.oddpos ∧ y.sectors = l.map sec
      ∧ y.sym = u.sym ∧ y.fermi = u.fermi ∧ y.charge = u.sym.combine [u.charge, vh.charge]
      ∧ y.indices = dropUnused (without u.indices [1] ++ without vh.indices [0]) (l.map sec)
      ∧ (∀ p ∈ l, ∀ i j, i < (dims p).1 → j < (dims p).2.2 →
          y.elem (sec p) [i, j]
            = (if alookup u.phases (sec p) == some (-1) then
                - (List.range (dims p).2.1).foldl
                    (fun acc t => acc + ((ub p).get [i, t] * (sb p).get [t]) * (vb p).get [t, j]) 0
               else (List.range (dims p).2.1).foldl
                    (fun acc t => acc + ((ub p).get [i, t] * (sb p).get [t]) * (vb p).get [t, j]) 0))
      ∧ (∀ s, s ∉ l.map sec → ∀ off, y.elem s off = 0) := by
  have : NegLaws R := negLaws_of_ring
  obtain ⟨q1, q2, q3⟩ := absorb_product A sqrtK dims hsh mode hsq
  have hE := absorbA_eq A mode sqrtK
  obtain ⟨y, hy, hyp, hyo, hyb, g1, g2, g3, g4⟩ := matmulF_rightOf hv h2 l sec A.hlen A.hsec A.hcol
    hin (fun p => absU mode sqrtK (ub p) (sb p)) (fun p => absV mode sqrtK (vb p) (sb p))
    (absorbA mode sqrtK u sv vh).1 (absorbA mode sqrtK u sv vh).2
    (by rw [hE]) (by rw [hE]) (by rw [hE]; exact hu2) (by rw [hE]; exact hlab)
    (by rw [hE]; exact RO.withBlocks _)
  obtain ⟨e1, e2, e3⟩ := matmulF_items_elem l sec A.hlen A.hsec A.hcol
    (fun p => absU mode sqrtK (ub p) (sb p)) (fun p => absV mode sqrtK (vb p) (sb p))
    (absorbA mode sqrtK u sv vh).1 (absorbA mode sqrtK u sv vh).2 y (by rw [hE]) (by rw [hE]) hyp hyb
    dims (fun p hp => by
      obtain ⟨s1, _, s3⟩ := hsh p hp
      exact ⟨by rw [absU_shape]; exact s1, by rw [absV_shape]; exact s3⟩)
  have hfields : (absorbA mode sqrtK u sv vh).1.oddpos = u.oddpos
      ∧ (absorbA mode sqrtK u sv vh).1.sym = u.sym ∧ (absorbA mode sqrtK u sv vh).1.fermi = u.fermi
      ∧ (absorbA mode sqrtK u sv vh).1.charge = u.charge
      ∧ (absorbA mode sqrtK u sv vh).1.indices = u.indices
      ∧ (absorbA mode sqrtK u sv vh).2.charge = vh.charge
      ∧ (absorbA mode sqrtK u sv vh).2.indices = vh.indices := by
    rw [hE]; exact ⟨rfl, rfl, rfl, rfl, rfl, rfl, rfl⟩
  obtain ⟨k1, k2, k3, k4, k5, k6, k7⟩ := hfields
  refine ⟨y, hy, hyp, hyo.trans k1, by rw [e1]; exact q2, g1.trans k2, g2.trans k3,
    by rw [g3, k2, k4, k6], by rw [g4, k5, k7], ?_, ?_⟩
  · intro p hp i j hi hj
    rw [e2 p hp i j hi hj]
    exact q3 p hp i j hi hj
  · intro s hs off
    rw [e3 s hs off]
    have hnone : alookup (tensordotBlockwise (absorbA mode sqrtK u sv vh).1
        (absorbA mode sqrtK u sv vh).2 [0] [1] [0] [1]).blocks s = none := by
      rw [alookup_eq_none_iff]
      show s ∉ (tensordotBlockwise _ _ [0] [1] [0] [1]).sectors
      rw [q2]; exact hs
    simp only [Arr.elem, hnone]

/-! ### `absorb=None`: `multiply_diagonal` -/

theorem multiplyDiagonal1_items [Zero R] [Mul R] {α : Type} {l : List α} {sec : α → Sector}
    {ub sb vb : α → Blk R} {u : Arr R} {sv : BVec R} {vh : Arr R}
    (A : Aligned l sec ub sb vb u sv vh) :
    (multiplyDiagonal u sv 1).blocks = l.map (fun p => (sec p, (ub p).mulAxisK (sb p) 1)) := by
  have hskeys : (sv.blocks.map (·.1)).Nodup := by
    rw [A.hs, List.map_map]; exact A.hcol
  unfold multiplyDiagonal
  simp only []
  rw [A.hu, List.filterMap_map]
  conv => rhs; rw [← List.filterMap_eq_map]
  apply List.filterMap_congr
  intro p hp
  have hl : alookup sv.blocks (colOf (sec p)) = some (sb p) := by
    apply alookup_of_mem_nodup hskeys
    rw [A.hs]; exact List.mem_map.mpr ⟨p, hp, rfl⟩
  simp only [Function.comp, colOf] at hl ⊢
  rw [hl]

theorem multiplyDiagonal0_items [Zero R] [Mul R] {α : Type} {l : List α} {sec : α → Sector}
    {ub sb vb : α → Blk R} {u : Arr R} {sv : BVec R} {vh : Arr R}
    (A : Aligned l sec ub sb vb u sv vh) :
    (multiplyDiagonal vh sv 0).blocks = l.map (fun p => (diagOf (sec p), (vb p).mulAxisK (sb p) 0)) := by
  have hskeys : (sv.blocks.map (·.1)).Nodup := by
    rw [A.hs, List.map_map]; exact A.hcol
  unfold multiplyDiagonal
  simp only []
  rw [A.hv, List.filterMap_map]
  conv => rhs; rw [← List.filterMap_eq_map]
  apply List.filterMap_congr
  intro p hp
  have hl : alookup sv.blocks (colOf (sec p)) = some (sb p) := by
    apply alookup_of_mem_nodup hskeys
    rw [A.hs]; exact List.mem_map.mpr ⟨p, hp, rfl⟩
  simp only [Function.comp, List.getD_cons_zero]
  rw [hl]

/-- absorbing to the left is `U.multiply_diagonal(s, 1)`, `VH` untouched -/
theorem absorb_left_eq [Zero R] [Mul R] {α : Type} {l : List α} {sec : α → Sector}
    {ub sb vb : α → Blk R} {u : Arr R} {sv : BVec R} {vh : Arr R}
    (A : Aligned l sec ub sb vb u sv vh) (sqrtK : Blk R → Blk R) :
    absorbA .left sqrtK u sv vh = (multiplyDiagonal u sv 1, vh) := by
  rw [absorbA_eq A .left sqrtK]
  have h1 : multiplyDiagonal u sv 1
      = { u with blocks := l.map (fun p => (sec p, (ub p).mulAxisK (sb p) 1)) } := by
    rw [← multiplyDiagonal1_items A]; rfl
  have h2 : vh = { vh with blocks := l.map (fun p => (diagOf (sec p), vb p)) } := by
    rw [← A.hv]
  rw [h1]
  conv => rhs; rw [h2]
  rfl

/-- absorbing to the right is `VH.multiply_diagonal(s, 0)`, `U` untouched -/
theorem absorb_right_eq [Zero R] [Mul R] {α : Type} {l : List α} {sec : α → Sector}
    {ub sb vb : α → Blk R} {u : Arr R} {sv : BVec R} {vh : Arr R}
    (A : Aligned l sec ub sb vb u sv vh) (sqrtK : Blk R → Blk R) :
    absorbA .right sqrtK u sv vh = (u, multiplyDiagonal vh sv 0) := by
  rw [absorbA_eq A .right sqrtK]
  have h1 : multiplyDiagonal vh sv 0
      = { vh with blocks := l.map (fun p => (diagOf (sec p), (vb p).mulAxisK (sb p) 0)) } := by
    rw [← multiplyDiagonal0_items A]; rfl
  have h2 : u = { u with blocks := l.map (fun p => (sec p, ub p)) } := by
    rw [← A.hu]
  rw [h1]
  conv => rhs; rw [h2]
  rfl

end ReconP
end SymmModel
