/-
  SymmModel.Proofs.FuseMultiR2 — the general round trip, stage 0: the fused array described in
  "forward" form (every stored element sits at its joined address; nothing else is non-zero).
-/
import SymmModel.Proofs.FuseMultiR1
import SymmModel.Proofs.ValidFuse2
namespace SymmModel
namespace FuseP
set_option linter.unusedSectionVars false

variable {R : Type}

theorem validArr_of_core {x : Arr R} (h : ValidP.Core x) : ValidArr x :=
  ⟨h.idx, h.nodup, fun sb hsb => ⟨(h.blk sb hsb).1.1, (h.blk sb hsb).2.1, (h.blk sb hsb).2.2⟩⟩

theorem admissible_of_groupsOk {groups : List (List Nat)} {n : Nat} (h : GroupsOk groups n) :
    ValidP.fuseAdmissibleB groups n = true := by
  simp only [ValidP.fuseAdmissibleB, Bool.and_eq_true, List.all_eq_true, decide_eq_true_eq]
  exact ⟨(allDistinct_iff _).2 h.nodup, h.lt⟩

section Multi
variable {a : Arr R} {groups : List (List Nat)} [Zero R]

/-! ### segments of a stored block -/

variable (groups) in
def segS (sb : Sector × Blk R) (g : Nat) : Sector := (groups.getD g []).map (fun ax => sb.1.getD ax (0, 0))
variable (groups) in
def segSh (sb : Sector × Blk R) (g : Nat) : List Nat := (groups.getD g []).map (fun ax => sb.2.shape.getD ax 0)
variable (groups) in
def segO (offs : List Nat) (g : Nat) : List Nat := (groups.getD g []).map (fun ax => offs.getD ax 0)
variable (a groups) in
def segIx (g : Nat) : List Index := (groups.getD g []).map (fun ax => a.indices.getD ax default)

variable (a groups) in
/-- sector, shape, offsets and indices after the last `j` groups have been unfused -/
def KM (sb : Sector × Blk R) (j : Nat) : Sector :=
  partG (planM a groups sb).newSector (segS groups sb) (giM a groups).position groups.length j
variable (a groups) in
def SM (sb : Sector × Blk R) (j : Nat) : List Nat :=
  partG (BshM a groups sb) (segSh groups sb) (giM a groups).position groups.length j
variable (a groups) in
def IM (sb : Sector × Blk R) (offs : List Nat) (j : Nat) : List Nat :=
  partG (joinI a groups sb offs) (segO groups offs) (giM a groups).position groups.length j
variable (a groups) in
def idxStage (j : Nat) : List Index :=
  partG (newIdxM a groups) (segIx a groups) (giM a groups).position groups.length j

variable (a groups) in
/-- description of the array after the last `j` groups have been unfused -/
structure StageInv (j : Nat) (X : Arr R) : Prop where
  core : ValidP.Core X
  sym : X.sym = a.sym
  idx : X.indices = idxStage a groups j
  here : ∀ sb ∈ a.blocks, ∃ V, alookup X.blocks (KM a groups sb j) = some V ∧ V.shape = SM a groups sb j
    ∧ ∀ offs, inBox sb.2.shape offs = true → V.get (IM a groups sb offs j) = sb.2.get offs
  only : ∀ K V, alookup X.blocks K = some V → ∀ J, inBox V.shape J = true →
    (∃ sb ∈ a.blocks, ∃ offs, inBox sb.2.shape offs = true ∧ K = KM a groups sb j ∧ J = IM a groups sb offs j)
    ∨ V.get J = 0

/-- the support of a fused block: a non-zero entry is the image of a stored element -/
theorem fused_support (hv : ValidArr a) (hok : GroupsOk groups a.ndim) {ns : Sector} {B : Blk R}
    (hB : alookup (fusedBlocksM a groups) ns = some B) {i : List Nat} (hi : inBox B.shape i = true) :
    (∃ sb ∈ a.blocks, ∃ offs, inBox sb.2.shape offs = true ∧ ns = (planM a groups sb).newSector
      ∧ i = joinI a groups sb offs) ∨ B.get i = 0 := by
  have hinv := fusedBlocksM_inv hv hok
  obtain ⟨sb0, hsb0, hns0, hBs⟩ := fusedBlockM_info hv hok hB
  subst hns0
  have hShape0 : shapeOfM a groups (planM a groups sb0).newSector = BshM a groups sb0 := by
    simp [shapeOfM, shape_storedM hv hok hsb0]
  by_cases hex : ∃ sb ∈ a.blocks, (planM a groups sb).newSector = (planM a groups sb0).newSector
      ∧ inRegion (toItemM a groups sb).2.1 (toItemM a groups sb).2.2.shape i = true
  · left
    obtain ⟨sb, hsb, hnsb, hreg⟩ := hex
    have hBsb : BshM a groups sb = BshM a groups sb0 := by
      have e1 := shape_storedM hv hok hsb
      rw [hnsb, shape_storedM hv hok hsb0] at e1
      simpa using e1.symm
    have hib' : inBox (BshM a groups sb) i = true := by rw [hBsb, ← hBs]; exact hi
    have hil : i.length = ndimM a groups := by rw [inBox_length hib', BshM_length]
    have hrg := (regionM hok sb hib').1 hreg
    have hshape := blockShape?_length (hv.blk sb hsb).2.1
    have hshl : sb.2.shape.length = a.ndim := by rw [hshape.2]; exact (hv.blk sb hsb).1
    -- relative offsets per group
    let r : Nat → Nat := fun g => i.getD ((giM a groups).position + g) 0 - stM a groups sb g
    let ms : Nat → List Nat := fun g => (groups.getD g []).map (fun ax => sb.2.shape.getD ax 0)
    have hgle : ∀ g, g < groups.length → stM a groups sb g ≤ i.getD ((giM a groups).position + g) 0 := by
      intro g hg
      by_cases hm : multiB groups g = true
      · exact (hrg g hg hm).1
      · have hm' : multiB groups g = false := by simpa using hm
        have hs0 : stM a groups sb g = 0 := by
          simp only [stM, startM, axMulti_mid hg, hm', Bool.false_eq_true, if_false]
        omega
    have hrlt : ∀ g, g < groups.length → r g < prod (ms g) := by
      intro g hg
      have hgg : groups[g]? = some groups[g] := List.getElem?_eq_getElem hg
      have hgd : groups.getD g [] = groups[g] := by simp [List.getD_eq_getElem?_getD, hgg]
      have hd := dM_eq (a := a) hok hgg sb
      simp only [r, ms, hgd]
      rw [← hd]
      by_cases hm : multiB groups g = true
      · have := hrg g hg hm; omega
      · have hm' : multiB groups g = false := by simpa using hm
        have hax : (giM a groups).position + g < ndimM a groups := by simp only [ndimM]; omega
        have := (inBox_iff.1 hib').2 _ (by rw [BshM_length]; exact hax)
        rw [BshM_getD sb hax, axMulti_mid hg, hm'] at this
        simp only [Bool.false_eq_true, if_false] at this
        have hd' : (planM a groups sb).newShape.getD ((giM a groups).position + g) 0
            = dM (a := a) (groups := groups) sb g := rfl
        rw [hd'] at this
        omega
    -- the expanded offsets, in the transposed box
    have hTshape := permutedM_eq hok sb.2.shape 0 hshl
    have hJbox : inBox (permuted sb.2.shape (giM a groups).perm)
        ((List.range (giM a groups).position).map (fun x => i.getD x 0)
          ++ ((List.range groups.length).map (fun g => unravel (ms g) (r g))).flatten
          ++ (List.range (giM a groups).axesAfter.length).map
              (fun j => i.getD ((giM a groups).position + groups.length + j) 0)) = true := by
      rw [hTshape, inBox_append (by
          rw [List.length_append, List.length_append, List.length_map, List.length_map,
            flatten_map_length_eq (List.range groups.length) (fun g => unravel (ms g) (r g)) ms
              (fun g _ => unravel_length _ _)]),
        inBox_append (by simp)]
      have h1 : inBox ((List.range (giM a groups).position).map (fun x => sb.2.shape.getD x 0))
          ((List.range (giM a groups).position).map (fun x => i.getD x 0)) = true := by
        apply inBox_range_map
        intro x hx
        have hax : x < ndimM a groups := by simp only [ndimM]; omega
        have := (inBox_iff.1 hib').2 x (by rw [BshM_length]; exact hax)
        rw [BshM_getD sb hax, axMulti_before hx] at this
        simp only [Bool.false_eq_true, if_false, planM] at this
        rw [planOf_newShape_before _ _ _ _ (hokD hok) hx] at this
        exact this
      have h2 : inBox ((List.range groups.length).map ms).flatten
          ((List.range groups.length).map (fun g => unravel (ms g) (r g))).flatten = true :=
        inBox_flatten_map _ _ _ (fun g hg => unravel_inBox (hrlt g (List.mem_range.1 hg)))
      have h3 : inBox ((List.range (giM a groups).axesAfter.length).map
            (fun j => sb.2.shape.getD ((giM a groups).axesAfter.getD j 0) 0))
          ((List.range (giM a groups).axesAfter.length).map
            (fun j => i.getD ((giM a groups).position + groups.length + j) 0)) = true := by
        apply inBox_range_map
        intro j hj
        have hax : (giM a groups).position + groups.length + j < ndimM a groups := by simp only [ndimM]; omega
        have := (inBox_iff.1 hib').2 _ (by rw [BshM_length]; exact hax)
        rw [BshM_getD sb hax, axMulti_after] at this
        simp only [Bool.false_eq_true, if_false, planM] at this
        rw [planOf_newShape_after _ _ _ _ (hokD hok) hj] at this
        exact this
      rw [h1, h2, h3]; rfl
    obtain ⟨offs, hol, hperm, hobox⟩ := exists_unpermute (perm_nodup (hokD hok))
      (by rw [perm_length (hokD hok), duals_length])
      (fun p hp => by rw [← duals_length]; exact (mem_perm (hokD hok)).1 hp)
      (fun ax hax => by rw [mem_perm (hokD hok), duals_length]; exact hax) hshl hJbox
    refine ⟨sb, hsb, offs, hobox, hnsb.symm, ?_⟩
    -- `i` is the joined address of `offs`
    rw [permutedM_eq hok offs 0 hol] at hperm
    obtain ⟨e1, e2, e3⟩ := parts_inj hperm (by simp) (by simp)
    have hE2 := flatten_map_inj (List.range groups.length) _ _ (by
      intro g _
      simp only [List.length_map, unravel_length, ms]) e2
    apply list_ext_getD 0 (by rw [hil, joinI_length])
    intro ax hax
    rw [hil] at hax
    rcases axis_cases ax hax with h | ⟨g, hg, rfl⟩ | ⟨j, hj, rfl⟩
    · rw [joinI_before sb offs h]; exact (range_map_inj e1 ax h).symm
    · rw [joinI_mid sb offs hg]
      have := hE2 g (List.mem_range.2 hg)
      rw [this, ravel_unravel (hrlt g hg)]
      have := hgle g hg
      simp only [r]; omega
    · rw [joinI_after sb offs hj]; exact (range_map_inj e3 j hj).symm
  · right
    apply hinv.miss _ B hB i (by rw [hShape0, ← hBs]; exact hi)
    intro it hit hkey
    obtain ⟨sb, hsb, rfl⟩ := List.mem_map.1 hit
    cases hreg : inRegion (toItemM a groups sb).2.1 (toItemM a groups sb).2.2.shape i with
    | false => rfl
    | true => exact absurd ⟨sb, hsb, hkey, hreg⟩ hex

/-- **stage 0**: the fused array -/
theorem stage_zero (hc : ValidP.Core a) (hok : GroupsOk groups a.ndim) :
    StageInv a groups 0 (fusedArrM a groups) := by
  have hv := validArr_of_core hc
  refine ⟨?_, rfl, ?_, ?_, ?_⟩
  · exact ValidP.fuseCore_insert_core a _ groups hc (admissible_of_groupsOk hok) (fuseCore_multi_eq hv hok)
  · simp only [idxStage, partG_zero]; rfl
  · intro sb hsb
    obtain ⟨B, hB, hBs⟩ := fusedBlockM_exists hv hok hsb
    refine ⟨B, by simp only [KM, partG_zero]; exact hB, by simp only [SM, partG_zero]; exact hBs, ?_⟩
    intro offs ho
    obtain ⟨B', h1, h2, _, h4, h5⟩ := fused_ontoM hv hok hsb ho
    rw [hB] at h1; simp only [Option.some.injEq] at h1; subst h1
    obtain ⟨_, hget⟩ := fused_getM hv hok hB h2
    have hshape := blockShape?_length (hv.blk sb hsb).2.1
    have hshl : sb.2.shape.length = a.ndim := by rw [hshape.2]; exact (hv.blk sb hsb).1
    have := (hget sb.1 offs (hv.blk sb hsb).1 (by rw [inBox_length ho, hshl]) h4 h5).1
    rw [alookup_of_mem_nodup hv.nodup hsb] at this
    simp only [IM, partG_zero]
    exact this
  · intro K V hl J hJ
    have hl' : alookup (fusedBlocksM a groups) K = some V := hl
    rcases fused_support hv hok hl' hJ with ⟨sb, hsb, offs, ho, hK, hJ'⟩ | h0
    · left
      exact ⟨sb, hsb, offs, ho, by simp only [KM, partG_zero]; exact hK, by simp only [IM, partG_zero]; exact hJ'⟩
    · exact Or.inr h0

end Multi

end FuseP
end SymmModel
