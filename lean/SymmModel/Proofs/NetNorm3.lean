/-
  SymmModel.Proofs.NetNorm3 — network form of the norm (property C10), continuation part 3:
  the sequential bracketing with mixed orders `((ā·b̄)·b)·a` with EVERY call in its own mode:
  the generic step `(Xm·q)·p` (first the SECOND factor of the half, then the first) from the
  blockwise `(X·q)·p`, and the network statement.
-/
import SymmModel.Proofs.NetNorm2
namespace SymmModel.NormNet
open SymmModel SymmModel.Lazy SymmModel.Norm SymmModel.TdotP SymmModel.GradedP SymmModel.RoutesP
open SymmModel.AssocP
set_option linter.unusedSectionVars false

section anymode
variable {R : Type} [AddCommMonoid R] [Mul R] [Neg R] [SignRing R]

/-- `(Xm·q)·p` in modes `m1`, `m2` from the blockwise `(X·q)·p` -/
theorem tw_cross_any (hz1 : ∀ x : R, 0 * x = 0) (hz2 : ∀ x : R, x * 0 = 0)
    (p q X Xm AB c : Arr R) (xp xq : List Nat)
    (hp : p.validB = true) (hq : q.validB = true) (hfp : p.fermi = true) (hfq : q.fermi = true)
    (hadm : ValidP.tdotAdmissibleB p q xp xq = true) (H : HalfPair X Xm p q xp xq)
    (e1 : X.tensordotF q (.pair
        (((List.range (freeAxes q.ndim xq).length).map ((freeAxes p.ndim xp).length + ·)).map
          Int.ofNat) ((freeAxes q.ndim xq).map Int.ofNat)) .blockwise = .ok AB)
    (e2 : AB.tensordotF p (.pair ((Assoc2P.axesAB
          ((freeAxes p.ndim xp).length + (freeAxes q.ndim xq).length) q.ndim
          ((List.range (freeAxes q.ndim xq).length).map ((freeAxes p.ndim xp).length + ·))
          (List.range (freeAxes p.ndim xp).length) (freeAxes q.ndim xq) xq).map Int.ofNat)
        ((freeAxes p.ndim xp ++ xp).map Int.ofNat)) .blockwise = .ok c)
    (hc : c.ndim = 0) (m1 m2 : TdotMode) :
    ∃ ABm cm, Xm.tensordotF q (.pair
          (((List.range (freeAxes q.ndim xq).length).map ((freeAxes p.ndim xp).length + ·)).map
            Int.ofNat) ((freeAxes q.ndim xq).map Int.ofNat)) m1 = .ok ABm
      ∧ ABm.tensordotF p (.pair ((Assoc2P.axesAB
            ((freeAxes p.ndim xp).length + (freeAxes q.ndim xq).length) q.ndim
            ((List.range (freeAxes q.ndim xq).length).map ((freeAxes p.ndim xp).length + ·))
            (List.range (freeAxes p.ndim xp).length) (freeAxes q.ndim xq) xq).map Int.ofNat)
          ((freeAxes p.ndim xp ++ xp).map Int.ofNat)) m2 = .ok cm
      ∧ cm.ndim = 0 ∧ cm.oddpos = c.oddpos ∧ cm.elem [] [] = c.elem [] [] := by
  have h := Adm.of hp hq hfp hfq hadm
  have h' : Adm q p xq xp := h.swap
  have nX := keys_nodup_of_validB H.vX
  have nXm := keys_nodup_of_validB H.vXm
  have hXn := halfS_ndim X p q xp xq H.frX nX
  have hXmn := halfS_ndim Xm p q xp xq H.frXm nXm
  have ltR : ∀ (Y : Arr R), Y.ndim = (freeAxes p.ndim xp).length + (freeAxes q.ndim xq).length →
      ∀ i ∈ List.range (freeAxes p.ndim xp).length, i < Y.ndim := by
    intro Y hY i hi; have := List.mem_range.mp hi; omega
  have ltS : ∀ (Y : Arr R), Y.ndim = (freeAxes p.ndim xp).length + (freeAxes q.ndim xq).length →
      ∀ i ∈ (List.range (freeAxes q.ndim xq).length).map ((freeAxes p.ndim xp).length + ·),
        i < Y.ndim := by
    intro Y hY i hi
    obtain ⟨j, hj, rfl⟩ := List.mem_map.mp hi
    have := List.mem_range.mp hj; omega
  have W1q : AdmW X q
      ((List.range (freeAxes q.ndim xq).length).map ((freeAxes p.ndim xp).length + ·))
      (freeAxes q.ndim xq) :=
    ⟨H.vX, hq, H.fX, hfq, by rw [H.sX, h.sym], (commonS_Xq X p q xp xq H.frX nX hq).1,
      shift_nodup _ _, freeAxes_nodup _ _, ltS X hXn, fun i hi => mem_freeAxes_lt i hi⟩
  have W1p : AdmW Xm q
      ((List.range (freeAxes q.ndim xq).length).map ((freeAxes p.ndim xp).length + ·))
      (freeAxes q.ndim xq) :=
    ⟨H.vXm, hq, H.fXm, hfq, by rw [H.sXm, h.sym], (commonS_Xq Xm p q xp xq H.frXm nXm hq).1,
      shift_nodup _ _, freeAxes_nodup _ _, ltS Xm hXmn, fun i hi => mem_freeAxes_lt i hi⟩
  obtain ⟨zp, ezp, pz, oz, cz⟩ :=
    pad_blockwise hz1 hz2 H.pad (Pad.refl hq) W1p W1q H.odd H.chg rfl rfl AB e1
  obtain ⟨ABm, e1m, pABm, IABm, _, oABm, cABm⟩ := call_any2 hz1 hz2 Xm q _ _ W1p m1 zp ezp
  obtain ⟨_, _, _, _, IAB, _, _⟩ := call_any2 hz1 hz2 X q _ _ W1q .blockwise AB e1
  have mids : ∀ (Y : Arr R), Y.ndim = (freeAxes p.ndim xp).length + (freeAxes q.ndim xq).length →
      Mid Y.ndim ((List.range (freeAxes q.ndim xq).length).map ((freeAxes p.ndim xp).length + ·))
        (List.range (freeAxes p.ndim xp).length) := by
    intro Y hY
    refine Mid.of ?_ ?_
    · have : ((List.range (freeAxes q.ndim xq).length).map ((freeAxes p.ndim xp).length + ·)
          ++ List.range (freeAxes p.ndim xp).length).Perm
          (List.range ((freeAxes p.ndim xp).length + (freeAxes q.ndim xq).length)) := by
        rw [← range_split]; exact List.perm_append_comm
      exact this.nodup_iff.mpr List.nodup_range
    · intro i hi
      rcases List.mem_append.mp hi with h1 | h1
      · exact ltS Y hY i h1
      · exact ltR Y hY i h1
  have mB : Mid q.ndim (freeAxes q.ndim xq) xq :=
    Mid.of ((perm_left h.nB h.ltB).nodup_iff.mpr List.nodup_range) (by
      intro i hi
      rcases List.mem_append.mp hi with h1 | h1
      · exact mem_freeAxes_lt i h1
      · exact h.ltB i h1)
  have mC : Mid p.ndim xp (freeAxes p.ndim xp) :=
    Mid.of ((perm_right h.nA h.ltA).nodup_iff.mpr List.nodup_range) (by
      intro i hi
      rcases List.mem_append.mp hi with h1 | h1
      · exact h.ltA i h1
      · exact mem_freeAxes_lt i h1)
  have Tm : Assoc3P.TriW Xm q p
      ((List.range (freeAxes q.ndim xq).length).map ((freeAxes p.ndim xp).length + ·))
      (List.range (freeAxes p.ndim xp).length) (freeAxes q.ndim xq) xq xp (freeAxes p.ndim xp) :=
    ⟨W1p, AdmW.ofAdm h', mids Xm hXmn, mB, mC, (commonS_Xp Xm p q xp xq H.frXm nXm hp).1⟩
  have Tb : Assoc3P.TriW X q p
      ((List.range (freeAxes q.ndim xq).length).map ((freeAxes p.ndim xp).length + ·))
      (List.range (freeAxes p.ndim xp).length) (freeAxes q.ndim xq) xq xp (freeAxes p.ndim xp) :=
    ⟨W1q, AdmW.ofAdm h', mids X hXn, mB, mC, (commonS_Xp X p q xp xq H.frX nX hp).1⟩
  have W2p := admW_left_tri_w IABm Tm
  have W2q := admW_left_tri_w IAB Tb
  rw [hXmn] at W2p
  rw [hXn] at W2q
  obtain ⟨zp2, ezp2, pz2, oz2, _⟩ := pad_blockwise hz1 hz2 (pABm.trans pz) (Pad.refl hp) W2p W2q
    (oABm.trans oz) (cABm.trans cz) rfl rfl c e2
  obtain ⟨cm, e2m, pcm, _, ocm, _⟩ := call_any hz1 hz2 ABm p _ _ W2p m2 zp2 ezp2
  have n1 : cm.ndim = 0 := pcm.ndim.trans (pz2.ndim.trans hc)
  exact ⟨ABm, cm, e1m, e2m, n1, ocm.trans oz2,
    by rw [pad_elem_nil pcm n1, pad_elem_nil pz2 (pz2.ndim.trans hc)]⟩

end anymode

section seqM
variable {R : Type} [AddCommMonoid R] [Mul R] [Neg R] [Conj R] [NetLaws R] [AssocLaws R]

/-- the conclusion of `network_norm_mixed_seq_any_mode` -/
def MixedSeqM (a b : Arr R) (xa xb : List Nat) (mKb m1 m2 : TdotMode) : Prop :=
  ∃ K Kbm, a.tensordotF b (.pair (xa.map Int.ofNat) (xb.map Int.ofNat)) .blockwise = .ok K
    ∧ (braOf a xa).tensordotF (braOf b xb) (.pair (xa.map Int.ofNat) (xb.map Int.ofNat)) mKb
        = .ok Kbm
    ∧ ∃ T c, Kbm.tensordotF b (.pair
          (((List.range (freeAxes b.ndim xb).length).map ((freeAxes a.ndim xa).length + ·)).map
            Int.ofNat) ((freeAxes b.ndim xb).map Int.ofNat)) m1 = .ok T
      ∧ T.tensordotF a (.pair ((Assoc2P.axesAB
            ((freeAxes a.ndim xa).length + (freeAxes b.ndim xb).length) b.ndim
            ((List.range (freeAxes b.ndim xb).length).map ((freeAxes a.ndim xa).length + ·))
            (List.range (freeAxes a.ndim xa).length) (freeAxes b.ndim xb) xb).map Int.ofNat)
          ((freeAxes a.ndim xa ++ xa).map Int.ofNat)) m2 = .ok c
      ∧ c.ndim = 0 ∧ c.oddpos = [] ∧ c.elem [] [] = normSq K

/-- **`((ā·b̄)·b)·a` with every call in any mode** -/
theorem network_norm_mixed_seqM (hmul : ∀ x y : R, x * y = y * x) (a b : Arr R) (xa xb : List Nat)
    (ha : a.validB = true) (hb : b.validB = true) (hfa : a.fermi = true) (hfb : b.fermi = true)
    (hadm : ValidP.tdotAdmissibleB a b xa xb = true)
    (hoA : KetLabels a.oddpos) (hoB : KetLabels b.oddpos)
    (hd : (a.oddpos ++ b.oddpos).Pairwise (fun x y => x.1 ≠ y.1))
    (hlab' : netLabelsB b.parity a.parity b.oddpos a.oddpos = true) (mKb m1 m2 : TdotMode) :
    MixedSeqM a b xa xb mKb m1 m2 := by
  have hz1 : ∀ x : R, 0 * x = 0 := AssocLaws.zero_mul
  have hz2 : ∀ x : R, x * 0 = 0 := AssocLaws.mul_zero
  have h := Adm.of ha hb hfa hfb hadm
  have hB := braOf_adm h
  obtain ⟨K, Kb, eK, eKb, T, c, e1, e2, cn, co, cv⟩ :=
    network_norm_mixed_seq hmul a b xa xb ha hb hfa hfb hadm hoA hoB hd hlab'
  obtain ⟨Kbm, eKbm, pKb, IKbm, IKb, oKb, cKb⟩ :=
    call_any2 hz1 hz2 (braOf a xa) (braOf b xb) xa xb (AdmW.ofAdm hB) mKb Kb eKb
  have hwi : without (braOf a xa).indices xa ++ without (braOf b xb).indices xb
      = (without a.indices xa ++ without b.indices xb).map Index.conj := by
    rw [(braOf_frame a xa).2.2.1, (braOf_frame b xb).2.2.1, without_map, without_map,
      List.map_append]
  have H1 : HalfPair Kb Kbm a b xa xb :=
    ⟨pKb, IKb.valid, IKbm.valid, IKb.fermi, IKbm.fermi, IKb.sym.trans (braOf_frame a xa).1,
      IKbm.sym.trans (braOf_frame a xa).1, oKb, cKb,
      by have := IKb.frame; rwa [hwi] at this, by have := IKbm.frame; rwa [hwi] at this⟩
  have hXn := halfS_ndim Kb a b xa xb H1.frX (keys_nodup_of_validB H1.vX)
  rw [hXn] at e2
  obtain ⟨Tm, cm, g1, g2, g3, g4, g5⟩ := tw_cross_any hz1 hz2 a b Kb Kbm T c xa xb ha hb hfa hfb
    hadm H1 e1 e2 cn m1 m2
  exact ⟨K, Kbm, eK, eKbm, Tm, cm, g1, g2, g3, g4.trans co, g5.trans cv⟩

end seqM

end SymmModel.NormNet
