/-
  SymmModel.Proofs.NetNormM2 — network form of the norm (property C10), mirror images of the
  ket-bra-first bracketings, part 2: the KET-first pieces `X' = a·ā`, `Y' = b·b̄` (contracted over all
  dangling legs).  `X'` carries no label and is the block transpose of `X = ā·a` with NO extra sign
  (`MPiece`, `mpiece_of`: S5 for the pair `(a, ā)`, whose labels coincide — `swap_eqv_gen`); hence
        `X'·Y`,  `X'·Y'`,  `Y·X'`,  `Y'·X'`
  are the scalar of the hub (`mirror_half`): S6 on the left operand + congruence, S5 for a full
  contraction to reach the right operand.
-/
import SymmModel.Proofs.NetNormM1

namespace SymmModel.NormNet
open SymmModel SymmModel.Lazy SymmModel.Norm SymmModel.TdotP SymmModel.GradedP SymmModel.RoutesP
open SymmModel.AssocP SymmModel.Assoc3P SymmModel.Assoc4P SymmModel.Assoc5P SymmModel.Net4P
open SymmModel.OddposP (mergeOddpos)
open SymmModel.KoszulP (sgn)
set_option linter.unusedSectionVars false

/-! ## lists -/

/-- the legs of `a·ā` in the order "bonded to `b̄`, bonded to `b`": `ā`'s bond legs are the SECOND block -/
def kbM (n : Nat) (xa : List Nat) : List Nat := (kbQ n xa).map (xa.length + ·) ++ kbQ n xa

theorem kbM_perm {n : Nat} {xa : List Nat} (hn : xa.Nodup) (hlt : ∀ i ∈ xa, i < n) :
    (kbM n xa).Perm (List.range (xa.length + xa.length)) :=
  List.perm_append_comm.trans (kbP_perm hn hlt)

theorem kbM_free {n : Nat} {xa : List Nat} (hn : xa.Nodup) (hlt : ∀ i ∈ xa, i < n) :
    freeAxes (xa.length + xa.length) (kbM n xa) = [] :=
  freeAxes_all _ _ (fun _ hi => (kbM_perm hn hlt).mem_iff.mpr (List.mem_range.mpr hi))

/-- re-listing along the exchange of two blocks of equal length -/
theorem permuted_rot_mirror (k : Nat) (q : List Nat) (hq : ∀ i ∈ q, i < k) :
    permuted (rotB k k) (q.map (k + ·) ++ q) = q ++ q.map (k + ·) := by
  have h1 := permuted_rotB_axes k k q [] hq (by simp)
  have h2 := permuted_rotB_axes k k [] q (by simp) hq
  simp only [List.map_nil, List.append_nil, List.nil_append] at h1 h2
  rw [ValidP.permuted_append, h1, h2]

theorem kbM_rot {n : Nat} {xa : List Nat} (hn : xa.Nodup) (hlt : ∀ i ∈ xa, i < n) :
    permuted (rotB xa.length xa.length) (kbM n xa) = kbP n xa :=
  permuted_rot_mirror _ _ (kbQ_lt hn hlt)

/-! ## generic step: S6 on the left operand of a full contraction, then congruence -/

section gen
variable {R : Type} [AddCommMonoid R] [Mul R] [Neg R] [SignRing R] [AssocLaws R]

theorem scal_pre_congr {P P' Y c : Arr R} {u u' v p : List Nat} {x : R} (W : AdmW P Y u v)
    (hp : p.Perm (List.range P.ndim)) (hu : freeAxes P.ndim u = []) (hv : freeAxes Y.ndim v = [])
    (hU' : u'.Perm (List.range P.ndim)) (hx : permuted p u' = u)
    (hE : Eqv (P.transposeF p) P') (hv' : P'.validB = true)
    (e : tdF P Y u v = .ok c) (S : Scal c x) :
    ∃ c', tdF P' Y u' v = .ok c' ∧ Scal c' x ∧ AdmW P' Y u' v := by
  obtain ⟨c1, e1, W1, n1, o1, v1⟩ := scalar_pre W hp hu hv (hU'.nodup_iff.mpr List.nodup_range)
    (fun i hi => List.mem_range.mp (hU'.mem_iff.mp hi)) hx
    (freeAxes_all _ _ (fun i hi => hU'.mem_iff.mpr (List.mem_range.mpr hi))) e
  obtain ⟨c2, e2, n2, o2, v2⟩ := scalar_congr W1 hE hv' e1 n1
  exact ⟨c2, e2, ⟨n2, (o2.trans o1).trans S.2.1, (v2.trans v1).trans S.2.2⟩,
    admW_congr W1 hE (Eqv.refl Y) hv' W.vb⟩

end gen

section main
variable {R : Type} [AddCommMonoid R] [Mul R] [Neg R] [Conj R] [NetLaws R] [AssocLaws R]

/-- `X' = a·ā`: the call, no label, rank `2·|xa|`, valid, and the block transpose of `X = ā·a` -/
structure MPiece (a : Arr R) (xa : List Nat) (X' : Arr R) : Prop where
  call : tdF a (braOf a xa) (freeAxes a.ndim xa) (freeAxes a.ndim xa) = .ok X'
  odd : X'.oddpos = []
  nd : X'.ndim = xa.length + xa.length
  valid : X'.validB = true
  eqv : ∀ X, Piece a xa X → Eqv (X.transposeF (rotB xa.length xa.length)) X'

theorem mpiece_of (hmul : ∀ x y : R, x * y = y * x) (a : Arr R) (xa : List Nat)
    (ha : a.validB = true) (hfa : a.fermi = true)
    (hn : xa.Nodup) (hlt : ∀ i ∈ xa, i < a.ndim) (hoA : KetLabels a.oddpos)
    (hdA : a.oddpos.Pairwise (fun x y => x.1 ≠ y.1)) : ∃ X', MPiece a xa X' := by
  have WAa := admW_bra_self a xa ha hfa
  have W := admW_swap WAa
  have hob : (braOf a xa).oddpos = Arr.oddposDag a.oddpos := (braOf_frame a xa).2.2.2.2.1
  have m1 : mergeOddpos a.parity a.oddpos (braOf a xa).oddpos
      = .ok ([], ph0 a.parity a.oddpos.length * (if a.oddpos.length % 2 = 1 then -1 else 1)) := by
    rw [hob]; exact merge_ket_bra _ _ hoA hdA
  have m2 : mergeOddpos (braOf a xa).parity (braOf a xa).oddpos a.oddpos
      = .ok ([], ph0 a.parity a.oddpos.length) := by
    rw [hob, braOf_parity]; exact merge_bra_ket _ _ hoA hdA
  have hs2 := ph0_pm a.parity a.oddpos.length
  have hs1 : ph0 a.parity a.oddpos.length * (if a.oddpos.length % 2 = 1 then -1 else 1) = 1
      ∨ ph0 a.parity a.oddpos.length * (if a.oddpos.length % 2 = 1 then -1 else 1) = -1 := by
    rcases hs2 with h | h <;> rw [h] <;> split <;> simp
  have m3 : ph0 a.parity a.oddpos.length
      = ph0 a.parity a.oddpos.length * (if a.oddpos.length % 2 = 1 then -1 else 1)
        * sgn (a.parity.toNat * (braOf a xa).parity.toNat) := by
    rw [braOf_parity]
    exact merge_mirror_sign _ _ (oddpos_parity ha hfa)
  obtain ⟨X', eX', IX', oX'⟩ := call_of_merge a (braOf a xa) _ _ W [] _ m1 hs1
  obtain ⟨c', ec', _, _, hE⟩ := swap_eqv_gen hmul W [] _ _ m1 m2 hs1 hs2 m3 X' eX'
  have hk : (freeAxes a.ndim (freeAxes a.ndim xa)).length = xa.length := sorted_len hn hlt
  rw [braOf_ndim, hk] at hE
  refine ⟨X', eX', oX', ?_, IX'.valid, ?_⟩
  · have := IX'.ndim
    rw [braOf_ndim, hk] at this
    exact this
  · intro X PX
    obtain rfl : X = c' := by
      have := PX.call
      unfold tdF at ec'
      rw [this] at ec'
      exact Except.ok.inj ec'
    exact hE

/-- the routes through the ket-first pieces -/
structure MirrorHalf (a b : Arr R) (xa xb : List Nat) (X' Y Y' : Arr R) (v : R) : Prop where
  /-- `(a·ā)·(b̄·b)` -/
  rMY : ∃ c, tdF X' Y (kbM a.ndim xa) (kbP b.ndim xb) = .ok c ∧ Scal c v
  /-- `(b̄·b)·(a·ā)` -/
  rYM : ∃ c, tdF Y X' (kbP b.ndim xb) (kbM a.ndim xa) = .ok c ∧ Scal c v
  /-- `(b·b̄)·(a·ā)` -/
  rMM' : ∃ c, tdF Y' X' (kbM b.ndim xb) (kbM a.ndim xa) = .ok c ∧ Scal c v
  /-- `(a·ā)·(b·b̄)`, the legs bonded to the bra side listed first -/
  rMM : ∃ c, tdF X' Y' (kbM a.ndim xa) (kbM b.ndim xb) = .ok c ∧ Scal c v
  /-- `(a·ā)·(b·b̄)`, the legs bonded to the ket side listed first -/
  rMMk : ∃ c, tdF X' Y' (kbP a.ndim xa) (kbP b.ndim xb) = .ok c ∧ Scal c v

theorem mirror_half (hmul : ∀ x y : R, x * y = y * x) {a b : Arr R} {xa xb : List Nat}
    {X Y X' Y' : Arr R} {v : R} (h : Adm a b xa xb) (PX : Piece a xa X) (PY : Piece b xb Y)
    (H : HubHalf a b xa xb X Y v) (MX : MPiece a xa X') (MY : MPiece b xb Y') :
    MirrorHalf a b xa xb X' Y Y' v := by
  obtain ⟨c, ec, Sc⟩ := H.rXY
  have hrotA : (rotB xa.length xa.length).Perm (List.range X.ndim) := by
    rw [PX.nd]; exact KoszulP.perm_of_isPerm (rotB_isPerm _ _)
  have hrotB : (rotB xb.length xb.length).Perm (List.range Y.ndim) := by
    rw [PY.nd]; exact KoszulP.perm_of_isPerm (rotB_isPerm _ _)
  have fXp : freeAxes X.ndim (kbP a.ndim xa) = [] := by rw [PX.nd]; exact kbP_free h.nA h.ltA
  have fYp : freeAxes Y.ndim (kbP b.ndim xb) = [] := by rw [PY.nd]; exact kbP_free h.nB h.ltB
  have fX'm : freeAxes X'.ndim (kbM a.ndim xa) = [] := by rw [MX.nd]; exact kbM_free h.nA h.ltA
  have fY'm : freeAxes Y'.ndim (kbM b.ndim xb) = [] := by rw [MY.nd]; exact kbM_free h.nB h.ltB
  -- X·Y → X'·Y
  obtain ⟨c1, e1, S1, W1⟩ := scal_pre_congr H.wXY hrotA fXp fYp
    (by rw [PX.nd]; exact kbM_perm h.nA h.ltA) (kbM_rot h.nA h.ltA) (MX.eqv X PX) MX.valid ec Sc
  -- X'·Y → Y·X'
  obtain ⟨c2, e2, S2⟩ := scalar_swap hmul W1 (by rw [MX.odd, PY.odd]; exact List.Pairwise.nil)
    fX'm fYp e1 S1
  have W2 := admW_swap W1
  -- Y·X' → Y'·X'
  obtain ⟨c3, e3, S3, W3⟩ := scal_pre_congr W2 hrotB fYp fX'm
    (by rw [PY.nd]; exact kbM_perm h.nB h.ltB) (kbM_rot h.nB h.ltB) (MY.eqv Y PY) MY.valid e2 S2
  -- Y'·X' → X'·Y'
  obtain ⟨c4, e4, S4⟩ := scalar_swap hmul W3 (by rw [MY.odd, MX.odd]; exact List.Pairwise.nil)
    fY'm fX'm e3 S3
  have W4 := admW_swap W3
  -- S4: the two blocks of pairs exchanged
  have hl : ((kbQ a.ndim xa).map (xa.length + ·)).length = ((kbQ b.ndim xb).map (xb.length + ·)).length := by
    rw [List.length_map, List.length_map, kbQ_len h.nA h.ltA, kbQ_len h.nB h.ltB]
    exact h.len
  have hc := tdotF_axes_comm_w X' Y' _ _ _ _ hl W4
  exact ⟨⟨c1, e1, S1⟩, ⟨c2, e2, S2⟩, ⟨c3, e3, S3⟩, ⟨c4, e4, S4⟩, ⟨c4, hc.trans e4, S4⟩⟩

/-- the hub together with all routes through the ket-first pieces, common value `v` -/
def MirrorHub (a b : Arr R) (xa xb : List Nat) (X Y X' Y' : Arr R) (v : R) : Prop :=
  KetBraHub a b xa xb X Y v ∧ MPiece a xa X' ∧ MPiece b xb Y'
    ∧ MirrorHalf a b xa xb X' Y Y' v ∧ MirrorHalf b a xb xa Y' X X' v

theorem mirror_hub_of (hmul : ∀ x y : R, x * y = y * x) {a b : Arr R} {xa xb : List Nat}
    {X Y : Arr R} {v : R} (h : Adm a b xa xb) (hoA : KetLabels a.oddpos) (hoB : KetLabels b.oddpos)
    (hdA : a.oddpos.Pairwise (fun x y => x.1 ≠ y.1))
    (hdB : b.oddpos.Pairwise (fun x y => x.1 ≠ y.1)) (K : KetBraHub a b xa xb X Y v) :
    ∃ X' Y', MirrorHub a b xa xb X Y X' Y' v := by
  obtain ⟨PX, PY, H, H'⟩ := K
  obtain ⟨X', MX⟩ := mpiece_of hmul a xa h.va h.fa h.nA h.ltA hoA hdA
  obtain ⟨Y', MY⟩ := mpiece_of hmul b xb h.vb h.fb h.nB h.ltB hoB hdB
  exact ⟨X', Y', ⟨PX, PY, H, H'⟩, MX, MY, mirror_half hmul h PX PY H MX MY,
    mirror_half hmul (adm_swap h) PY PX H' MY MX⟩

/-- all routes through `a·ā`, `b·b̄` give `Σ|K|²` -/
def MirrorAll (a b : Arr R) (xa xb : List Nat) : Prop :=
  ∃ K X Y X' Y', a.tensordotF b (.pair (xa.map Int.ofNat) (xb.map Int.ofNat)) .blockwise = .ok K
    ∧ MirrorHub a b xa xb X Y X' Y' (normSq K)

theorem mirror_all_of (hmul : ∀ x y : R, x * y = y * x) {a b : Arr R} {xa xb : List Nat}
    (h : Adm a b xa xb) (hoA : KetLabels a.oddpos) (hoB : KetLabels b.oddpos)
    (hdA : a.oddpos.Pairwise (fun x y => x.1 ≠ y.1))
    (hdB : b.oddpos.Pairwise (fun x y => x.1 ≠ y.1)) (A : KetBraAll a b xa xb) :
    MirrorAll a b xa xb := by
  obtain ⟨K, X, Y, eK, Hub⟩ := A
  obtain ⟨X', Y', M⟩ := mirror_hub_of hmul h hoA hoB hdA hdB Hub
  exact ⟨K, X, Y, X', Y', eK, M⟩

end main

end SymmModel.NormNet
