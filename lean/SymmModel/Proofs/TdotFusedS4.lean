/-
  SymmModel.Proofs.TdotFusedS4 — S7 for fused / auto mode: the table frames of the second-level
  calls on a fused / auto intermediate result are prunings of the frame of the three operands'
  free legs; hence an address of the original operands' tables (`Assoc2P.FreeAddr`) lies in the
  own box of every block the final result stores at that key.  Namespace `SymmModel.TdotP`.
-/
import SymmModel.Proofs.TdotFusedS3

namespace SymmModel
namespace TdotP
open GradedP RoutesP AssocP Assoc2P
variable {R : Type}

/-- splitting a block shape along a split of the index list -/
theorem blockShape?_split {X Y : List Index} :
    ∀ {sx sy : Sector} {shp : List Nat}, sx.length = X.length →
      Arr.blockShape? (X ++ Y) (sx ++ sy) = some shp →
      ∃ p q, shp = p ++ q ∧ Arr.blockShape? X sx = some p ∧ Arr.blockShape? Y sy = some q := by
  induction X with
  | nil =>
    intro sx sy shp hl h
    have : sx = [] := List.eq_nil_of_length_eq_zero hl
    subst this
    exact ⟨[], shp, rfl, rfl, h⟩
  | cons ix X ih =>
    intro sx sy shp hl h
    cases sx with
    | nil => simp at hl
    | cons c sx =>
      rw [List.cons_append, List.cons_append, Arr.blockShape?_cons] at h
      cases hd : ix.sizeOf? c with
      | none => rw [hd] at h; cases h
      | some d =>
        rw [hd] at h
        simp only [Option.bind_some] at h
        cases hr : Arr.blockShape? (X ++ Y) (sx ++ sy) with
        | none => rw [hr] at h; cases h
        | some t =>
          rw [hr] at h
          simp only [Option.map_some, Option.some.injEq] at h
          obtain ⟨p, q, rfl, h1, h2⟩ := ih (by simpa using hl) hr
          refine ⟨d :: p, q, by rw [← h]; rfl, ?_, h2⟩
          rw [Arr.blockShape?_cons, hd, h1]; rfl

section frames
variable [AddMonoid R] [Mul R] [Neg R] [SignRing R]
variable {A B C ABm BCm : Arr R} {xa1 xa3 xb1 xb2 xc2 xc3 : List Nat}

/-- the table frame of `(A·B)·C` on an intermediate of any mode is a pruning of the frame of the
    three operands' free legs -/
theorem frame_left (I : InterW A B xa1 xb1 ABm) (T : Tri A B C xa1 xa3 xb1 xb2 xc2 xc3) :
    List.Forall₂ SizeLe
      (without ABm.indices (Assoc2P.axesAB A.ndim B.ndim xa1 xa3 xb1 xb2) ++ without C.indices (xc3 ++ xc2))
      (permuted A.indices (freeAxes A.ndim (xa1 ++ xa3)) ++ (permuted B.indices (freeAxes B.ndim (xb1 ++ xb2))
        ++ permuted C.indices (freeAxes C.ndim (xc2 ++ xc3)))) := by
  have e5 : ABm.indices.length = ABm.ndim := rfl
  have e6 : A.indices.length = A.ndim := rfl
  have e7 : B.indices.length = B.ndim := rfl
  have e8 : C.indices.length = C.ndim := rfl
  have hfree : ∀ i ∈ freeAxes ABm.ndim (Assoc2P.axesAB A.ndim B.ndim xa1 xa3 xb1 xb2),
      i < ABm.indices.length := fun i hi => (mem_freeAxes.mp hi).1
  have h1 := forall₂_permuted I.frame (freeAxes ABm.ndim (Assoc2P.axesAB A.ndim B.ndim xa1 xa3 xb1 xb2))
  rw [without_eq_permuted_freeAxes A.indices, without_eq_permuted_freeAxes B.indices, e6, e7, I.ndim,
    readAB_free T.mA T.mB A.indices B.indices rfl rfl, ← I.ndim] at h1
  rw [without_eq_permuted_freeAxes ABm.indices, e5, without_eq_permuted_freeAxes C.indices, e8,
    freeM_comm C.ndim xc3 xc2, ← List.append_assoc]
  exact forall₂_append h1 (forall₂_refl SizeLe.refl _)

/-- the same for `A·(B·C)` -/
theorem frame_right (I : InterW B C xb2 xc2 BCm) (T : Tri A B C xa1 xa3 xb1 xb2 xc2 xc3) :
    List.Forall₂ SizeLe
      (without A.indices (xa1 ++ xa3) ++ without BCm.indices (Assoc2P.axesBC B.ndim C.ndim xb1 xb2 xc2 xc3))
      (permuted A.indices (freeAxes A.ndim (xa1 ++ xa3)) ++ (permuted B.indices (freeAxes B.ndim (xb1 ++ xb2))
        ++ permuted C.indices (freeAxes C.ndim (xc2 ++ xc3)))) := by
  have e5 : BCm.indices.length = BCm.ndim := rfl
  have e6 : A.indices.length = A.ndim := rfl
  have e7 : B.indices.length = B.ndim := rfl
  have e8 : C.indices.length = C.ndim := rfl
  have hfree : ∀ i ∈ freeAxes BCm.ndim (Assoc2P.axesBC B.ndim C.ndim xb1 xb2 xc2 xc3),
      i < BCm.indices.length := fun i hi => (mem_freeAxes.mp hi).1
  have h1 := forall₂_permuted I.frame (freeAxes BCm.ndim (Assoc2P.axesBC B.ndim C.ndim xb1 xb2 xc2 xc3))
  rw [without_eq_permuted_freeAxes B.indices, without_eq_permuted_freeAxes C.indices, e7, e8, I.ndim,
    readBC_free T.mB T.mC B.indices C.indices rfl rfl, ← I.ndim] at h1
  rw [without_eq_permuted_freeAxes BCm.indices, e5, without_eq_permuted_freeAxes A.indices, e6]
  exact forall₂_append (forall₂_refl SizeLe.refl _) h1

end frames

/-! ### addresses of the original operands' tables -/

section addr
variable {A B C : Arr R} {xa1 xa3 xb1 xb2 xc2 xc3 : List Nat}

/-- an address of the original operands' tables lies in the box that the frame of the three
    operands' free legs gives for its key (when it gives one) -/
theorem freeAddr_inBox {LA LM LC : Sector} {oA oM oC : List Nat}
    (fa : FreeAddr A B C xa1 xa3 xb1 xb2 xc2 xc3 LA LM LC oA oM oC) {shp : List Nat}
    (h : Arr.blockShape? (permuted A.indices (freeAxes A.ndim (xa1 ++ xa3))
      ++ (permuted B.indices (freeAxes B.ndim (xb1 ++ xb2))
        ++ permuted C.indices (freeAxes C.ndim (xc2 ++ xc3)))) (LA ++ LM ++ LC) = some shp) :
    inBox shp (oA ++ oM ++ oC) = true := by
  have hlA : LA.length = (permuted A.indices (freeAxes A.ndim (xa1 ++ xa3))).length := by
    rw [fa.lA]; exact (permuted_length _ _ (fun x hx => (mem_freeAxes.mp hx).1)).symm
  have hlM : LM.length = (permuted B.indices (freeAxes B.ndim (xb1 ++ xb2))).length := by
    rw [fa.lM]; exact (permuted_length _ _ (fun x hx => (mem_freeAxes.mp hx).1)).symm
  rw [List.append_assoc] at h
  obtain ⟨pA, q, rfl, hA', hq⟩ := blockShape?_split hlA h
  obtain ⟨pM, pC, rfl, hM', hC'⟩ := blockShape?_split hlM hq
  have bA := fa.bA
  have bM := fa.bM
  have bC := fa.bC
  rw [Arr.blockShapeD, hA'] at bA
  rw [Arr.blockShapeD, hM'] at bM
  rw [Arr.blockShapeD, hC'] at bC
  rw [← List.append_assoc]
  exact inBox3 (inBox_length bA) (inBox_length bM) bA bM bC

/-- … in particular in the own box of a block whose shape a pruned frame gives -/
theorem ownBox_of_freeAddr {tbl : List Index}
    (hfr : List.Forall₂ SizeLe tbl (permuted A.indices (freeAxes A.ndim (xa1 ++ xa3))
      ++ (permuted B.indices (freeAxes B.ndim (xb1 ++ xb2))
        ++ permuted C.indices (freeAxes C.ndim (xc2 ++ xc3)))))
    {LA LM LC : Sector} {oA oM oC : List Nat}
    (fa : FreeAddr A B C xa1 xa3 xb1 xb2 xc2 xc3 LA LM LC oA oM oC) {shp : List Nat}
    (h : Arr.blockShape? tbl (LA ++ LM ++ LC) = some shp) :
    inBox shp (oA ++ oM ++ oC) = true :=
  freeAddr_inBox fa (blockShape?_weaken hfr _ _ h)

/-- the key of a stored aligned triple has a block shape in the frame of the free legs -/
theorem triple_shape (hsa : A.shapesOk) (hsb : B.shapesOk) (hsc : C.shapesOk) {s : Sector}
    {t : Sector × Sector × Sector} (ht : IsTriple A B C xa1 xa3 xb1 xb2 xc2 xc3 s t) :
    ∃ shp, Arr.blockShape? (permuted A.indices (freeAxes A.ndim (xa1 ++ xa3))
      ++ (permuted B.indices (freeAxes B.ndim (xb1 ++ xb2))
        ++ permuted C.indices (freeAxes C.ndim (xc2 ++ xc3)))) s = some shp := by
  obtain ⟨sa, sb, sc⟩ := t
  obtain ⟨hA, hB, hC, _, _, _, h3⟩ := ht
  simp only at hA hB hC h3
  obtain ⟨shpA, hA1, _, _, _⟩ := shape_of_mem hsa hA
  obtain ⟨shpB, hB1, _, _, _⟩ := shape_of_mem hsb hB
  obtain ⟨shpC, hC1, _, _, _⟩ := shape_of_mem hsc hC
  have qA := blockShape?_permuted hA1 (freeAxes A.ndim (xa1 ++ xa3)) (fun x hx => (mem_freeAxes.mp hx).1)
  have qB := blockShape?_permuted hB1 (freeAxes B.ndim (xb1 ++ xb2)) (fun x hx => (mem_freeAxes.mp hx).1)
  have qC := blockShape?_permuted hC1 (freeAxes C.ndim (xc2 ++ xc3)) (fun x hx => (mem_freeAxes.mp hx).1)
  refine ⟨permuted shpA (freeAxes A.ndim (xa1 ++ xa3)) ++ (permuted shpB (freeAxes B.ndim (xb1 ++ xb2))
    ++ permuted shpC (freeAxes C.ndim (xc2 ++ xc3))), ?_⟩
  rw [← h3, List.append_assoc]
  exact blockShape?_append qA (blockShape?_append qB qC)

end addr

/-! ### S7 with all four calls in fused / auto mode -/

/-- everything that is proved about the two routes in fused / auto mode (`c1b`: the blockwise
    result of route 1, `ABb` its intermediate) -/
structure AssocCore [Zero R] [Add R] [Mul R] [Neg R] (A B C : Arr R) (xa1 xa3 xb1 xb2 xc2 xc3 : List Nat)
    (mode : TdotMode) (ABm BCm c1m c2m ABb c1b : Arr R) : Prop where
  call1 : A.tensordotF B (.pair (xa1.map Int.ofNat) (xb1.map Int.ofNat)) mode = .ok ABm
  call2 : ABm.tensordotF C (.pair ((Assoc2P.axesAB A.ndim B.ndim xa1 xa3 xb1 xb2).map Int.ofNat)
      ((xc3 ++ xc2).map Int.ofNat)) mode = .ok c1m
  call3 : B.tensordotF C (.pair (xb2.map Int.ofNat) (xc2.map Int.ofNat)) mode = .ok BCm
  call4 : A.tensordotF BCm (.pair ((xa1 ++ xa3).map Int.ofNat)
      ((Assoc2P.axesBC B.ndim C.ndim xb1 xb2 xc2 xc3).map Int.ofNat)) mode = .ok c2m
  callb1 : A.tensordotF B (.pair (xa1.map Int.ofNat) (xb1.map Int.ofNat)) .blockwise = .ok ABb
  callb2 : ABb.tensordotF C (.pair ((Assoc2P.axesAB A.ndim B.ndim xa1 xa3 xb1 xb2).map Int.ofNat)
      ((xc3 ++ xc2).map Int.ofNat)) .blockwise = .ok c1b
  oddpos : c2m.oddpos = c1m.oddpos
  charge : c2m.charge = c1m.charge
  sym : c2m.sym = c1m.sym
  fermi : c2m.fermi = c1m.fermi
  oddb : c1m.oddpos = c1b.oddpos
  chargeb : c1m.charge = c1b.charge
  secs : ∀ s ∈ c1b.sectors, s ∈ c1m.sectors ∧ s ∈ c2m.sectors
  stored : ∀ s ∈ c1b.sectors, ∀ o, inBox (Arr.blockShapeD c1b.indices s) o = true →
    c2m.elem s o = c1m.elem s o ∧ c1m.elem s o = c1b.elem s o
  zero1 : ∀ s, s ∉ c1b.sectors → ∀ o, (∀ V, alookup c1m.blocks s = some V → inBox V.shape o = true) →
    c1m.elem s o = 0
  zero2 : ∀ s, s ∉ c1b.sectors → ∀ o, (∀ V, alookup c2m.blocks s = some V → inBox V.shape o = true) →
    c2m.elem s o = 0
  shape1 : ∀ K V, alookup c1m.blocks K = some V →
    Arr.blockShape? (permuted A.indices (freeAxes A.ndim (xa1 ++ xa3))
      ++ (permuted B.indices (freeAxes B.ndim (xb1 ++ xb2))
        ++ permuted C.indices (freeAxes C.ndim (xc2 ++ xc3)))) K = some V.shape
  shape2 : ∀ K V, alookup c2m.blocks K = some V →
    Arr.blockShape? (permuted A.indices (freeAxes A.ndim (xa1 ++ xa3))
      ++ (permuted B.indices (freeAxes B.ndim (xb1 ++ xb2))
        ++ permuted C.indices (freeAxes C.ndim (xc2 ++ xc3)))) K = some V.shape
  idxb : c1b.indices = dropUnused (permuted A.indices (freeAxes A.ndim (xa1 ++ xa3))
      ++ (permuted B.indices (freeAxes B.ndim (xb1 ++ xb2))
        ++ permuted C.indices (freeAxes C.ndim (xc2 ++ xc3)))) c1b.sectors
  secb : ∀ s, s ∈ c1b.sectors ↔ ∃ t, IsTriple A B C xa1 xa3 xb1 xb2 xc2 xc3 s t

theorem assoc_core [AddCommMonoid R] [Mul R] [Neg R] [SignRing R] [AssocLaws R]
    (hz1 : ∀ x : R, 0 * x = 0) (hz2 : ∀ x : R, x * 0 = 0)
    (A B C : Arr R) (xa1 xa3 xb1 xb2 xc2 xc3 : List Nat)
    (hA : A.validB = true) (hB : B.validB = true) (hC : C.validB = true)
    (hfA : A.fermi = true) (hfB : B.fermi = true) (hfC : C.fermi = true)
    (h1 : ValidP.tdotAdmissibleB A B xa1 xb1 = true) (h2 : ValidP.tdotAdmissibleB B C xb2 xc2 = true)
    (h3 : ValidP.contractibleB A C xa3 xc3 = true)
    (hnA : (xa1 ++ xa3).Nodup) (hnB : (xb1 ++ xb2).Nodup) (hnC : (xc2 ++ xc3).Nodup)
    (hltA : ∀ i ∈ xa3, i < A.ndim) (hltC : ∀ i ∈ xc3, i < C.ndim)
    (hL : LabelRoutes A.parity B.parity A.oddpos B.oddpos C.oddpos)
    (mode : TdotMode) (hmode : mode = .fused ∨ mode = .auto) :
    ∃ ABm BCm c1m c2m ABb c1b : Arr R,
      AssocCore A B C xa1 xa3 xb1 xb2 xc2 xc3 mode ABm BCm c1m c2m ABb c1b := by
  obtain ⟨ABb, BCb, c1b, c2b, d1, d2, d3, d4, r1, r2, r3, r4, r5, r6, r7, r8, r9⟩ :=
    tdotF_assoc_tri A B C xa1 xa3 xb1 xb2 xc2 xc3 hA hB hC hfA hfB hfC h1 h2 h3 hnA hnB hnC
      hltA hltC hL
  have hat := elem_eq_of_sector A B C c1b c2b xa1 xa3 xb1 xb2 xc2 xc3
    (Arr.shapesOk_of_validB hA) (Arr.shapesOk_of_validB hB) (Arr.shapesOk_of_validB hC) r8 r5 r6 r9
  have hAB := Adm.of hA hB hfA hfB h1
  have hBC := Adm.of hB hC hfB hfC h2
  have T : Tri A B C xa1 xa3 xb1 xb2 xc2 xc3 :=
    ⟨hAB, hBC,
      Mid.of hnA (by
        intro i hi
        rcases List.mem_append.mp hi with h | h
        · exact hAB.ltA i h
        · exact hltA i h),
      Mid.of hnB (by
        intro i hi
        rcases List.mem_append.mp hi with h | h
        · exact hAB.ltB i h
        · exact hBC.ltA i h),
      Mid.of hnC (by
        intro i hi
        rcases List.mem_append.mp hi with h | h
        · exact hBC.ltB i h
        · exact hltC i h), h3⟩
  obtain ⟨ABm, e1⟩ := call_exists hz1 hz2 A B xa1 xb1 hAB mode hmode ABb d1
  obtain ⟨BCm, e3⟩ := call_exists hz1 hz2 B C xb2 xc2 hBC mode hmode BCb d3
  obtain ⟨ABb', d1', pAB, IABm, IABb, oAB, cAB, _, _, _⟩ :=
    first_call hz1 hz2 A B xa1 xb1 hA hB hfA hfB h1 mode hmode ABm e1
  rw [d1] at d1'
  obtain rfl := Except.ok.inj d1'
  obtain ⟨BCb', d3', pBC, IBCm, IBCb, oBC, cBC, _, _, _⟩ :=
    first_call hz1 hz2 B C xb2 xc2 hB hC hfB hfC h2 mode hmode BCm e3
  rw [d3] at d3'
  obtain rfl := Except.ok.inj d3'
  obtain ⟨c1m, e2, l1, l2, l3, l4, _, lsec, lst, lz, lsh⟩ := second_left hz1 hz2 pAB (admW_left_tri IABm T)
    (admW_left_tri IABb T) oAB cAB mode hmode c1b d2
  obtain ⟨c2m, e4, m1, m2, m3, m4, _, msec, mst, mz, msh⟩ := second_right hz1 hz2 pBC (admW_right_tri IBCm T)
    (admW_right_tri IBCb T) oBC cBC mode hmode c2b d4
  refine ⟨ABm, BCm, c1m, c2m, ABb, c1b, e1, e2, e3, e4, d1, d2,
    by rw [m1, l1, r1], by rw [m2, l2, r2], by rw [m3, l3, r3], by rw [m4, l4, r4], l1, l2,
    fun s hs => ⟨lsec s hs, msec s ((r6 s).mpr hs)⟩, ?_, lz,
    fun s hs o ho => mz s (fun h => hs ((r6 s).mp h)) o ho,
    fun K V hl => blockShape?_weaken (frame_left IABm T) K _ (lsh K V hl),
    fun K V hl => blockShape?_weaken (frame_right IBCm T) K _ (msh K V hl), r8, r5⟩
  intro s hs o ho
  have h1' := lst s hs o ho
  have h2' := mst s ((r6 s).mpr hs) o (by rw [r7]; exact ho)
  exact ⟨by rw [h2', h1']; exact hat s o (fun _ => ho), h1'⟩

end TdotP
end SymmModel
