/-
  SymmModel.Proofs.Net4M6 — the label check `NormNet.netLabelsB` of the doubled (norm) network for
  SYMBOLIC sorted ket labels with up to FOUR labels per tensor: for every interleaving pattern of
  the two sorted lists (`allPats4`, 251 patterns) and every strictly increasing list `G` of
  actual labels, by transfer (`Assoc5P.net_of_pattern`) from the pattern itself, which is decided.
  Namespace `SymmModel.Assoc5P`.
-/
import SymmModel.Proofs.Assoc5Two

namespace SymmModel
namespace Assoc5P
open OddposP NormNet
set_option linter.unusedSectionVars false

/-- the increasing sublists of length `k` -/
def subsetsOf : List Int → Nat → List (List Int)
  | _, 0 => [[]]
  | [], _ + 1 => []
  | x :: xs, k + 1 => (subsetsOf xs k).map (x :: ·) ++ subsetsOf xs (k + 1)

/-- the interleaving patterns of a sorted list of `a` labels with a sorted list of `b` labels: the
    ranks `0 … a+b-1` split into an increasing list of length `a` and its complement -/
def pats (a b : Nat) : List (List Int × List Int) :=
  let all : List Int := (List.range (a + b)).map Int.ofNat
  (subsetsOf all a).map (fun ca => (ca, all.filter (fun x => !ca.contains x)))

/-- all patterns with at most four labels on each side -/
def allPats4 : List (List Int × List Int) :=
  (List.range 5).flatMap (fun a => (List.range 5).flatMap (fun b => pats a b))

/-- the decided fact: ranks in range and the label check, for every pattern and parity -/
def patOk (p : List Int × List Int) : Bool :=
  (p.1 ++ p.2).all (fun i => decide (0 ≤ i) && decide (i < ((p.1.length + p.2.length : Nat) : Int)))
  && [(false, false), (false, true), (true, false), (true, true)].all
      (fun q => netLabelsB q.1 q.2 (ket p.1) (ket p.2))

theorem allPats4_ok : allPats4.all patOk = true := by decide +kernel

example : allPats4.length = 251 ∧ ([0, 2, 5], [1, 3, 4]) ∈ allPats4 := by decide +kernel

/-- **up to four symbolic labels per tensor.**  `G` strictly increasing (the actual labels, merged
    and sorted), `(ca, cb)` an interleaving pattern with at most four ranks on each side: the
    label check holds for the ket lists `G[ca]`, `G[cb]`, for every parity assignment. -/
theorem netLabelsB_pattern4 (G : List Int) (hG : G.Pairwise (· < ·)) (ca cb : List Int)
    (hp : (ca, cb) ∈ allPats4) (hl : G.length = ca.length + cb.length) (pA pB : Bool) :
    netLabelsB pA pB ((ket ca).map (relab (fun i => G.getD i.toNat 0)))
      ((ket cb).map (relab (fun i => G.getD i.toNat 0))) = true := by
  have h := List.all_eq_true.mp allPats4_ok (ca, cb) hp
  unfold patOk at h
  simp only [Bool.and_eq_true, List.all_eq_true, decide_eq_true_eq] at h
  obtain ⟨hr, hd⟩ := h
  refine net_of_pattern G ca cb hG (ca.length + cb.length) hl (fun i hi => hr i hi) ?_ pA pB
  intro pa pb
  cases pa <;> cases pb
  · exact hd (false, false) (by simp)
  · exact hd (false, true) (by simp)
  · exact hd (true, false) (by simp)
  · exact hd (true, true) (by simp)

end Assoc5P
end SymmModel
