/-
  SymmModel.Proofs.TwoStepOrder2 — continuation of TwoStepOrder: sizes of the canonical labels,
  the sector filter of the abelian einsum after the transposition to `tsOrder`, and
  `permuted · tsOrder` (helper for C04).
-/
import SymmModel.Proofs.TwoStepOrder

namespace SymmModel
namespace TwoStepP
open TdotP GradedP Lazy

/-! ## 1. the sector filter of the canonical labels -/

/-- **E3** -/
theorem einKeep_canon {N m : Nat} {rhs : List Nat} (hlt : ∀ q ∈ rhs, q < N) (s : Sector) :
    einKeep (dblFront N m ++ rhs) rhs s = (List.range m).all (fun i => s[2 * i]? == s[2 * i + 1]?) := by
  unfold einKeep
  rw [einTracedPos_canon hlt, List.all_map]
  rfl

/-! ## 2. `permuted · tsOrder` -/

section perm
variable {R : Type} {α : Type}

/-- **E4** -/
theorem permuted_tsOrder (X : List α) (a : Arr R) (nb : Nat) (xa xb ya yb : List Nat) :
    permuted X (tsOrder a nb xa xb ya yb) =
      ((List.range ya.length).flatMap (fun i =>
        if (a.indices.getD (ya.getD i 0) default).dual
        then permuted X [(tsPA a.ndim xa ya).getD i 0, (tsPB a.ndim nb xa xb yb).getD i 0]
        else permuted X [(tsPB a.ndim nb xa xb yb).getD i 0, (tsPA a.ndim xa ya).getD i 0]))
      ++ permuted X (tsRhs a.ndim nb xa xb ya yb) := by
  unfold tsOrder permuted
  rw [List.filterMap_append, List.filterMap_flatMap]
  congr 1
  apply List.flatMap_congr
  intro i _
  split <;> rfl

theorem permuted_pair (d : α) (X : List α) {p q : Nat} (hp : p < X.length) (hq : q < X.length) :
    permuted X [p, q] = [X.getD p d, X.getD q d] := by
  rw [permuted_eq_map X [p, q] (by intro x hx; simp at hx; rcases hx with rfl | rfl <;> assumption) d]
  rfl

/-- **E5** -/
theorem permuted_tsOrder_sym (d : α) (X : List α) (a : Arr R) (nb : Nat) (xa xb ya yb : List Nat)
    (hnA : (xa ++ ya).Nodup) (hA : ∀ i ∈ xa ++ ya, i < a.ndim)
    (hnB : (xb ++ yb).Nodup) (hB : ∀ i ∈ xb ++ yb, i < nb) (hly : ya.length = yb.length)
    (hX : X.length = tsN a.ndim nb xa xb)
    (hsym : ∀ i, i < ya.length →
      X.getD ((tsPA a.ndim xa ya).getD i 0) d = X.getD ((tsPB a.ndim nb xa xb yb).getD i 0) d) :
    permuted X (tsOrder a nb xa xb ya yb) =
      (List.range ya.length).flatMap (fun i =>
        [X.getD ((tsPA a.ndim xa ya).getD i 0) d, X.getD ((tsPA a.ndim xa ya).getD i 0) d])
      ++ permuted X (tsRhs a.ndim nb xa xb ya yb) := by
  have g := geo_ts hnA hA hnB hB hly
  rw [permuted_tsOrder]
  congr 1
  apply List.flatMap_congr
  intro i hi
  have hi := List.mem_range.1 hi
  have h1 : (tsPA a.ndim xa ya).getD i 0 < X.length := by rw [hX]; exact g.ltA (g.getA hi).1
  have h2 : (tsPB a.ndim nb xa xb yb).getD i 0 < X.length := by rw [hX]; exact g.ltB (g.getB hi).1
  split
  · rw [permuted_pair d X h1 h2, ← hsym i hi]
  · rw [permuted_pair d X h2 h1, ← hsym i hi]

/-- **E7** -/
theorem permuted_shift_range (l : List α) (d : Nat) (hd : d ≤ l.length) :
    permuted l ((List.range (l.length - d)).map (d + ·)) = l.drop d := by
  apply List.ext_getElem?
  intro j
  rw [KoszulP.getElem?_permuted l _ (by
    intro i hi
    obtain ⟨k, hk, rfl⟩ := List.mem_map.1 hi
    have := List.mem_range.1 hk
    omega), List.getElem?_drop]
  by_cases hj : j < l.length - d
  · simp [hj]
  · have : l.length ≤ d + j := by omega
    simp [hj, List.getElem?_eq_none this]

end perm

/-! ## 3. the sector filter after the transposition to `tsOrder` -/

theorem getElem?_of_getD {P : List Nat} {i : Nat} (h : i < P.length) : P[i]? = some (P.getD i 0) := by
  simp [List.getD_eq_getElem?_getD, h]

theorem permuted_eq_iff {α : Type} (l : List α) {P Q : List Nat} {m : Nat}
    (hP : ∀ x ∈ P, x < l.length) (hQ : ∀ x ∈ Q, x < l.length)
    (lP : P.length = m) (lQ : Q.length = m) :
    permuted l P = permuted l Q ↔ ∀ i, i < m → l[P.getD i 0]? = l[Q.getD i 0]? := by
  constructor
  · intro h i hi
    have := congrArg (·[i]?) h
    simp only [KoszulP.getElem?_permuted l P hP, KoszulP.getElem?_permuted l Q hQ,
      getElem?_of_getD (lP ▸ hi), getElem?_of_getD (lQ ▸ hi), Option.bind_some] at this
    exact this
  · intro h
    apply List.ext_getElem?
    intro i
    rw [KoszulP.getElem?_permuted l P hP, KoszulP.getElem?_permuted l Q hQ]
    by_cases hi : i < m
    · rw [getElem?_of_getD (lP ▸ hi), getElem?_of_getD (lQ ▸ hi)]
      exact h i hi
    · rw [List.getElem?_eq_none (by omega), List.getElem?_eq_none (by omega)]

/-- the entries `2i`, `2i+1` of `gFront` -/
theorem gFront_getElem? (d : Nat → Bool) (PA PB : List Nat) {m i : Nat} (hi : i < m) :
    (gFront d PA PB m)[2 * i]? = some (if d i then PA.getD i 0 else PB.getD i 0) ∧
    (gFront d PA PB m)[2 * i + 1]? = some (if d i then PB.getD i 0 else PA.getD i 0) := by
  have hL : ∀ j, (if d j then [PA.getD j 0, PB.getD j 0] else [PB.getD j 0, PA.getD j 0]).length = 2 := by
    intro j; split <;> rfl
  have h0 := KoszulP.getElem?_flatMap_uniform _ 2 hL m i 0 hi (by omega)
  have h1 := KoszulP.getElem?_flatMap_uniform _ 2 hL m i 1 hi (by omega)
  have e0 : i * 2 + 0 = 2 * i := by omega
  have e1 : i * 2 + 1 = 2 * i + 1 := by omega
  rw [e0] at h0
  rw [e1] at h1
  unfold gFront
  rw [h0, h1]
  cases d i <;> simp

/-- **E6** -/
theorem einKeep_tsOrder {R : Type} (a : Arr R) (nb : Nat) (xa xb ya yb : List Nat) (s0 : Sector)
    (hnA : (xa ++ ya).Nodup) (hA : ∀ i ∈ xa ++ ya, i < a.ndim)
    (hnB : (xb ++ yb).Nodup) (hB : ∀ i ∈ xb ++ yb, i < nb) (hly : ya.length = yb.length)
    (hs : s0.length = tsN a.ndim nb xa xb) :
    einKeep (dblFront (tsN a.ndim nb xa xb) ya.length ++ tsRhs a.ndim nb xa xb ya yb)
        (tsRhs a.ndim nb xa xb ya yb) (permuted s0 (tsOrder a nb xa xb ya yb)) = true
      ↔ permuted s0 (tsPA a.ndim xa ya) = permuted s0 (tsPB a.ndim nb xa xb yb) := by
  have g := geo_ts hnA hA hnB hB hly
  have hord : ∀ x ∈ tsOrder a nb xa xb ya yb, x < s0.length := by
    intro x hx
    rw [hs]
    exact List.mem_range.1 ((tsOrder_permH a nb xa xb ya yb hnA hA hnB hB hly).mem_iff.1 hx)
  rw [einKeep_canon (tsRhs_lt _ _ _ _ _ _), List.all_eq_true,
    permuted_eq_iff s0 (fun x hx => hs ▸ g.ltA hx) (fun x hx => hs ▸ g.ltB hx) g.lenA g.lenB]
  have key : ∀ i, i < ya.length →
      (((permuted s0 (tsOrder a nb xa xb ya yb))[2 * i]?
          == (permuted s0 (tsOrder a nb xa xb ya yb))[2 * i + 1]?) = true
        ↔ s0[(tsPA a.ndim xa ya).getD i 0]? = s0[(tsPB a.ndim nb xa xb yb).getD i 0]?) := by
    intro i hi
    rw [KoszulP.getElem?_permuted s0 _ hord, KoszulP.getElem?_permuted s0 _ hord, tsOrder_eq_gOrder,
      List.getElem?_append_left (by rw [gFront_length]; omega),
      List.getElem?_append_left (by rw [gFront_length]; omega),
      (gFront_getElem? _ _ _ hi).1, (gFront_getElem? _ _ _ hi).2, beq_iff_eq]
    simp only [Option.bind_some]
    split
    · exact Iff.rfl
    · exact eq_comm
  constructor
  · intro h i hi
    exact (key i hi).1 (h i (List.mem_range.2 hi))
  · intro h i hi
    exact (key i (List.mem_range.1 hi)).2 (h i (List.mem_range.1 hi))

/-! ## 4. sizes of the canonical labels -/

/-- the first position of the traced label `N + i` -/
theorem indexOf?_dblFront {N m : Nat} (tl : List Nat) {i : Nat} (hi : i < m) :
    indexOf? (dblFront N m ++ tl) (N + i) = some (2 * i) := by
  induction m generalizing tl with
  | zero => omega
  | succ m ih =>
    rw [dblFront_succ, List.append_assoc]
    by_cases him : i < m
    · exact ih _ him
    · have e : i = m := by omega
      subst e
      have hnf : N + i ∉ dblFront N i := by
        intro h
        obtain ⟨j, hj, e⟩ := mem_dblFront.1 h
        omega
      rw [indexOf?_append_notMem _ _ _ hnf, dblFront_length]
      simp [indexOf?]

/-- the first position of an output label -/
theorem indexOf?_canon_rhs {N m : Nat} {rhs : List Nat} (hlt : ∀ q ∈ rhs, q < N) (hnd : rhs.Nodup)
    {j : Nat} (hj : j < rhs.length) :
    indexOf? (dblFront N m ++ rhs) rhs[j] = some (2 * m + j) := by
  rw [indexOf?_append_notMem _ _ _ (rhs_not_mem_dblFront hlt (List.getElem_mem hj)),
    indexOf?_getElem hnd hj, dblFront_length]
  rfl

/-- **E1** -/
theorem einSize_traced_canon {N m : Nat} {rhs : List Nat} (hlt : ∀ q ∈ rhs, q < N) (Z : List Nat) :
    (einTraced (dblFront N m ++ rhs) rhs).map (einSize Z (dblFront N m ++ rhs))
      = (List.range m).map (fun i => Z.getD (2 * i) 0) := by
  rw [einTraced_canon hlt, List.map_map]
  apply List.map_congr_left
  intro i hi
  simp only [Function.comp, einSize, indexOf?_dblFront rhs (List.mem_range.1 hi)]

/-- **E2** -/
theorem einSize_rhs_canon {N m : Nat} {rhs : List Nat} (hlt : ∀ q ∈ rhs, q < N) (hnd : rhs.Nodup)
    (Z : List Nat) :
    rhs.map (einSize Z (dblFront N m ++ rhs))
      = (List.range rhs.length).map (fun j => Z.getD (2 * m + j) 0) := by
  apply List.ext_getElem
  · simp
  · intro n h1 h2
    have hn : n < rhs.length := by simpa using h1
    simp only [List.getElem_map, List.getElem_range, einSize, indexOf?_canon_rhs hlt hnd hn]

/-- **E2, corollary** -/
theorem einSize_rhs_canon_drop {N m : Nat} {rhs : List Nat} (hlt : ∀ q ∈ rhs, q < N)
    (hnd : rhs.Nodup) (Z : List Nat) (hZ : Z.length = 2 * m + rhs.length) :
    rhs.map (einSize Z (dblFront N m ++ rhs)) = Z.drop (2 * m) := by
  rw [einSize_rhs_canon hlt hnd]
  apply List.ext_getElem
  · simp [hZ]
  · intro n h1 h2
    have hn : n < rhs.length := by simpa using h1
    have : 2 * m + n < Z.length := by omega
    simp [List.getD_eq_getElem?_getD, this]

end TwoStepP
end SymmModel
