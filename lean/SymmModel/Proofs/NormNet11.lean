/-
  SymmModel.Proofs.NormNet11 — network form of the norm (property C10), part 11:
  the four sequential bracketings of the two-tensor norm network that start from a contracted half,
  `((ā·b̄)·a)·b`, `ā·(b̄·(a·b))`, `((a·b)·ā)·b̄`, `a·(b·(ā·b̄))`, for networks whose contracted ket half has
  un-pruned index tables; and the operand-swapped network.
-/
import SymmModel.Proofs.NormNet10
namespace SymmModel.NormNet
open SymmModel SymmModel.Lazy SymmModel.Norm SymmModel.TdotP SymmModel.GradedP SymmModel.RoutesP
open SymmModel.AssocP
set_option linter.unusedSectionVars false

section setup
variable {R : Type} [AddCommMonoid R] [Mul R] [Neg R] [Conj R] [NetLaws R] [AssocLaws R]

/-- everything the sequential routes use about the two halves -/
structure NetSetup (a b K Kb r r' : Arr R) (xa xb : List Nat) : Prop where
  eK : a.tensordotF b (.pair (xa.map Int.ofNat) (xb.map Int.ofNat)) .blockwise = .ok K
  eKb : (braOf a xa).tensordotF (braOf b xb) (.pair (xa.map Int.ofNat) (xb.map Int.ofNat)) .blockwise
      = .ok Kb
  Kv : K.validB = true
  Kf : K.fermi = true
  Kbv : Kb.validB = true
  Kbf : Kb.fermi = true
  nd : Kb.ndim = K.ndim
  hr : Kb.tensordotF K (allAxes K.ndim) .blockwise = .ok r
  r0 : r.ndim = 0 ∧ r.oddpos = [] ∧ r.elem [] [] = normSq K
  hr' : K.tensordotF Kb (allAxes K.ndim) .blockwise = .ok r'
  r0' : r'.ndim = 0 ∧ r'.oddpos = [] ∧ r'.elem [] [] = normSq' K
  Ks : K.sym = a.sym
  Kbs : Kb.sym = a.sym
  Kbi : Kb.indices = K.indices.map Index.conj
  Kp : K.parity = xor a.parity b.parity
  Kbp : Kb.parity = xor a.parity b.parity
  Kbo : Kb.oddpos = Arr.oddposDag K.oddpos
  lr : Assoc2P.LabelRoutes (xor a.parity b.parity) a.parity
        K.oddpos (Arr.oddposDag a.oddpos) (Arr.oddposDag b.oddpos)
      ∧ Assoc2P.LabelRoutes a.parity b.parity a.oddpos b.oddpos (Arr.oddposDag K.oddpos)
      ∧ Assoc2P.LabelRoutes a.parity b.parity (Arr.oddposDag a.oddpos) (Arr.oddposDag b.oddpos)
          K.oddpos
      ∧ Assoc2P.LabelRoutes (xor a.parity b.parity) a.parity (Arr.oddposDag K.oddpos)
          a.oddpos b.oddpos

theorem net_setup (a b : Arr R) (xa xb : List Nat)
    (ha : a.validB = true) (hb : b.validB = true) (hfa : a.fermi = true) (hfb : b.fermi = true)
    (hadm : ValidP.tdotAdmissibleB a b xa xb = true)
    (hoA : OneKet a.oddpos) (hoB : OneKet b.oddpos)
    (hd : (a.oddpos ++ b.oddpos).Pairwise (fun x y => x.1 ≠ y.1)) :
    ∃ K Kb r r', NetSetup a b K Kb r r' xa xb := by
  obtain ⟨K, Kb, eK, eKb, hobs, hKv, hKf, hKbv, hKbf, _, _, _⟩ :=
    conj_tensordot a b xa xb ha hb hfa hfb hadm hoA.ketLabels hoB.ketLabels hd
  obtain ⟨K', Kb', r, r', eK', eKb', hnd, h1, h2, h3, h4, g1, g2, g3, g4⟩ :=
    network_norm_halves a b xa xb ha hb hfa hfb hadm hoA.ketLabels hoB.ketLabels hd
  obtain rfl : K' = K := by rw [eK] at eK'; exact (Except.ok.inj eK').symm
  obtain rfl : Kb' = Kb := by rw [eKb] at eKb'; exact (Except.ok.inj eKb').symm
  have h := Adm.of ha hb hfa hfb hadm
  obtain ⟨hKs, hKc, ph, hm⟩ := tdot_fields h eK
  have hlabA := (NormOk.of_valid ha hfa).labels
  have hlabB := (NormOk.of_valid hb hfb).labels
  obtain ⟨c1, c2, c3, c4, c5, c6⟩ := conjF_frame K' true true
  have hKp : K'.parity = xor a.parity b.parity := by
    unfold Arr.parity
    rw [hKs, hKc, ValidP.parity_combine_pair', h.sym]
  have hXp : Kb'.parity = xor a.parity b.parity := by
    rw [← hKp]
    unfold Arr.parity
    rw [hobs.sym, hobs.charge, c1, c4, C17.parity_sign]
  have hm' : OddposP.mergeOddpos (a.oddpos.length % 2 == 1) a.oddpos b.oddpos = .ok (K'.oddpos, ph) := by
    rw [hlabA]; exact hm
  obtain ⟨l1, l2, l3⟩ := labelRoutes_net a.oddpos b.oddpos K'.oddpos ph hoA hoB hd hm'
  have l4 := labelRoutes_bra_ket a.oddpos b.oddpos K'.oddpos ph hoA hoB hd hm'
  rw [hlabA, hlabB] at l1 l2 l3 l4
  exact ⟨K', Kb', r, r', eK, eKb, hKv, hKf, hKbv, hKbf, hnd, h1, ⟨h2, h3, h4⟩, g1, ⟨g2, g3, g4⟩, hKs,
    by rw [hobs.sym, c1, hKs], by rw [hobs.indices, c3], hKp, hXp, by rw [hobs.oddpos, c5],
    l1, l2, l3, l4⟩

end setup

section routes
variable {R : Type} [AddCommMonoid R] [Mul R] [Neg R] [Conj R] [NetLaws R] [AssocLaws R]

theorem ndim0_of {c r : Arr R} (h : c.indices = r.indices) (hr : r.ndim = 0) : c.ndim = 0 := by
  unfold Arr.ndim at hr ⊢; rw [h]; exact hr

/-- **the four sequential bracketings that start from a contracted half.**  If the index tables of
    `K = a·b` are not pruned, then
    (1) `((ā·b̄)·a)·b`, (2) `ā·(b̄·(a·b))` give `normSq K`, and
    (3) `((a·b)·ā)·b̄`, (4) `a·(b·(ā·b̄))` give `normSq' K`; rank 0, no labels. -/
theorem network_norm_sequential (a b : Arr R) (xa xb : List Nat)
    (ha : a.validB = true) (hb : b.validB = true) (hfa : a.fermi = true) (hfb : b.fermi = true)
    (hadm : ValidP.tdotAdmissibleB a b xa xb = true)
    (hoA : OneKet a.oddpos) (hoB : OneKet b.oddpos)
    (hd : (a.oddpos ++ b.oddpos).Pairwise (fun x y => x.1 ≠ y.1)) :
    ∃ K Kb, a.tensordotF b (.pair (xa.map Int.ofNat) (xb.map Int.ofNat)) .blockwise = .ok K
      ∧ (braOf a xa).tensordotF (braOf b xb) (.pair (xa.map Int.ofNat) (xb.map Int.ofNat)) .blockwise
          = .ok Kb
      ∧ (K.indices = without a.indices xa ++ without b.indices xb →
        -- (1) ((ā·b̄)·a)·b
        (∃ T c, Kb.tensordotF a (.pair ((List.range (freeAxes a.ndim xa).length).map Int.ofNat)
              ((freeAxes a.ndim xa).map Int.ofNat)) .blockwise = .ok T
          ∧ T.tensordotF b (.pair ((axesTW a.ndim b.ndim xa xb).map Int.ofNat)
              ((freeAxes b.ndim xb ++ xb).map Int.ofNat)) .blockwise = .ok c
          ∧ c.ndim = 0 ∧ c.oddpos = [] ∧ c.elem [] [] = normSq K)
        -- (2) ā·(b̄·(a·b))
        ∧ (∃ T c, (braOf b xb).tensordotF K (.pair ((freeAxes b.ndim xb).map Int.ofNat)
              (((List.range (freeAxes b.ndim xb).length).map ((freeAxes a.ndim xa).length + ·)).map
                Int.ofNat)) .blockwise = .ok T
          ∧ (braOf a xa).tensordotF T (.pair ((xa ++ freeAxes a.ndim xa).map Int.ofNat)
              ((axesTWr a.ndim b.ndim xa xb).map Int.ofNat)) .blockwise = .ok c
          ∧ c.ndim = 0 ∧ c.oddpos = [] ∧ c.elem [] [] = normSq K)
        -- (3) ((a·b)·ā)·b̄
        ∧ (∃ T c, K.tensordotF (braOf a xa) (.pair ((List.range (freeAxes a.ndim xa).length).map Int.ofNat)
              ((freeAxes a.ndim xa).map Int.ofNat)) .blockwise = .ok T
          ∧ T.tensordotF (braOf b xb) (.pair ((axesTW a.ndim b.ndim xa xb).map Int.ofNat)
              ((freeAxes b.ndim xb ++ xb).map Int.ofNat)) .blockwise = .ok c
          ∧ c.ndim = 0 ∧ c.oddpos = [] ∧ c.elem [] [] = normSq' K)
        -- (4) a·(b·(ā·b̄))
        ∧ (∃ T c, b.tensordotF Kb (.pair ((freeAxes b.ndim xb).map Int.ofNat)
              (((List.range (freeAxes b.ndim xb).length).map ((freeAxes a.ndim xa).length + ·)).map
                Int.ofNat)) .blockwise = .ok T
          ∧ a.tensordotF T (.pair ((xa ++ freeAxes a.ndim xa).map Int.ofNat)
              ((axesTWr a.ndim b.ndim xa xb).map Int.ofNat)) .blockwise = .ok c
          ∧ c.ndim = 0 ∧ c.oddpos = [] ∧ c.elem [] [] = normSq' K)) := by
  obtain ⟨K, Kb, r, r', S⟩ := net_setup a b xa xb ha hb hfa hfb hadm hoA hoB hd
  refine ⟨K, Kb, S.eK, S.eKb, ?_⟩
  intro hnp
  have h := Adm.of ha hb hfa hfb hadm
  have hB := braOf_adm h
  have hXi : Kb.indices = (without a.indices xa ++ without b.indices xb).map Index.conj := by
    rw [S.Kbi, hnp]
  have hKi : K.indices = (without (braOf a xa).indices xa ++ without (braOf b xb).indices xb).map
      Index.conj := by
    rw [(braOf_frame a xa).2.2.1, (braOf_frame b xb).2.2.1, without_map, without_map,
      ← List.map_append, Lazy.Index.map_conj_conj, hnp]
  have hrK : K.tensordotF Kb (allAxes Kb.ndim) .blockwise = .ok r' := by rw [S.nd]; exact S.hr'
  have hrKb : Kb.tensordotF K (allAxes Kb.ndim) .blockwise = .ok r := by rw [S.nd]; exact S.hr
  refine ⟨?_, ?_, ?_, ?_⟩
  · obtain ⟨T, c, e1, e2, q1, q2, q3⟩ := tw_left a b Kb K r xa xb ha hb S.Kbv hfa hfb S.Kbf hadm S.eK
      S.Kbs hXi S.nd.symm (by rw [S.Kbp, S.Kbo]; exact S.lr.2.2.2) S.hr
    exact ⟨T, c, e1, e2, ndim0_of q1 S.r0.1, q2.trans S.r0.2.1, q3.trans S.r0.2.2⟩
  · obtain ⟨T, c, e1, e2, q1, q2, q3⟩ := tw_right (braOf a xa) (braOf b xb) K Kb r xa xb hB.va hB.vb
      S.Kv hB.fa hB.fb S.Kf (admB_of_adm hB) S.eKb (S.Ks.trans (braOf_frame a xa).1.symm) hKi S.nd
      (by rw [braOf_parity, braOf_parity, (braOf_frame a xa).2.2.2.2.1,
        (braOf_frame b xb).2.2.2.2.1]; exact S.lr.2.2.1) hrKb
    simp only [braOf_ndim] at e1 e2
    exact ⟨T, c, e1, e2, ndim0_of q1 S.r0.1, q2.trans S.r0.2.1, q3.trans S.r0.2.2⟩
  · obtain ⟨T, c, e1, e2, q1, q2, q3⟩ := tw_left (braOf a xa) (braOf b xb) K Kb r' xa xb hB.va hB.vb
      S.Kv hB.fa hB.fb S.Kf (admB_of_adm hB) S.eKb (S.Ks.trans (braOf_frame a xa).1.symm) hKi S.nd
      (by rw [S.Kp, braOf_parity, (braOf_frame a xa).2.2.2.2.1,
        (braOf_frame b xb).2.2.2.2.1]; exact S.lr.1) hrK
    simp only [braOf_ndim] at e1 e2
    exact ⟨T, c, e1, e2, ndim0_of q1 S.r0'.1, q2.trans S.r0'.2.1, q3.trans S.r0'.2.2⟩
  · obtain ⟨T, c, e1, e2, q1, q2, q3⟩ := tw_right a b Kb K r' xa xb ha hb S.Kbv hfa hfb S.Kbf hadm S.eK
      S.Kbs hXi S.nd.symm (by rw [S.Kbo]; exact S.lr.2.1) S.hr'
    exact ⟨T, c, e1, e2, ndim0_of q1 S.r0'.1, q2.trans S.r0'.2.1, q3.trans S.r0'.2.2⟩

end routes

/-! ## the operand-swapped network -/
section swapnet
variable {R : Type}

theorem admB_swap [AddMonoid R] [Mul R] [Neg R] [SignRing R] {a b : Arr R} {xa xb : List Nat}
    (ha : a.validB = true) (hb : b.validB = true) (hfa : a.fermi = true) (hfb : b.fermi = true)
    (hadm : ValidP.tdotAdmissibleB a b xa xb = true) :
    ValidP.tdotAdmissibleB b a xb xa = true := by
  have h := Adm.of ha hb hfa hfb hadm
  have h' : Adm b a xb xa :=
    ⟨hb, ha, hfb, hfa, h.sym.symm, contractibleB_swap h.con, h.nB, h.nA, h.ltB, h.ltA⟩
  unfold ValidP.tdotAdmissibleB
  simp only [Bool.and_eq_true, decide_eq_true_eq, ValidP.allDistinct_iff, List.all_eq_true]
  exact ⟨⟨⟨⟨⟨h'.sym, h'.con⟩, h'.nA⟩, h'.nB⟩, h'.ltA⟩, h'.ltB⟩

theorem labels_swap {oA oB : List (Int × Bool)}
    (hd : (oA ++ oB).Pairwise (fun x y => x.1 ≠ y.1)) :
    (oB ++ oA).Pairwise (fun x y => x.1 ≠ y.1) :=
  OddposP.LabelsDistinct.perm (l := oA ++ oB) hd List.perm_append_comm

end swapnet

end SymmModel.NormNet
