/-
  SymmModel.Proofs.FuseSpec — targets 2 and 3 of property C05 for the value `fuseInfoOf a groups`
  of `calcFuseBlockInfo`: entries of the plan at the fused positions, direction and size of the
  fused index, well-formedness of the produced indices.
-/
import SymmModel.Proofs.FuseWf
namespace SymmModel
namespace FuseP
set_option linter.unusedSectionVars false

variable {R : Type}

theorem getD_mid {α : Type} (a b c : List α) (g : Nat) (d : α) (hg : g < b.length) :
    (a ++ b ++ c).getD (a.length + g) d = b.getD g d := by
  simp only [List.getD_eq_getElem?_getD]
  rw [List.append_assoc, List.getElem?_append_right (by omega), List.getElem?_append_left (by omega)]
  congr 2; omega

theorem getD_before {α : Type} (a b : List α) (k : Nat) (d : α) (hk : k < a.length) :
    (a ++ b).getD k d = a.getD k d := by
  simp only [List.getD_eq_getElem?_getD]
  rw [List.getElem?_append_left hk]

theorem getD_after {α : Type} (a b : List α) (k : Nat) (d : α) :
    (a ++ b).getD (a.length + k) d = b.getD k d := by
  simp only [List.getD_eq_getElem?_getD]
  rw [List.getElem?_append_right (by omega)]
  congr 2; omega

theorem zipIdx_map_getD {α β : Type} (l : List α) (f : α × Nat → β) (g : Nat) (x : α) (d : β)
    (h : l[g]? = some x) : (l.zipIdx.map f).getD g d = f (x, g) := by
  simp [List.getD_eq_getElem?_getD, List.getElem?_map, List.getElem?_zipIdx, h]

theorem getElem?_lt {α : Type} {l : List α} {g : Nat} {x : α} (h : l[g]? = some x) : g < l.length := by
  rw [List.getElem?_eq_some_iff] at h; exact h.1

theorem getElem?_mem' {α : Type} {l : List α} {g : Nat} {x : α} (h : l[g]? = some x) : x ∈ l := by
  rw [List.getElem?_eq_some_iff] at h; obtain ⟨h1, rfl⟩ := h; exact List.getElem_mem _

/-! ### the plan at the fused positions -/

section PlanAt
variable (sym : Sym) (indices : List Index) (groups : List (List Nat)) (sector : Sector)
  (shp : List Nat) (duals : List Bool)

theorem planOf_subsectors_getD {gi : FuseGroupInfo} {g : Nat} {gaxes : List Nat}
    (h : groups[g]? = some gaxes) :
    (planOf sym indices groups gi sector shp).subsectors.getD g []
      = (midOf sym indices sector shp gi (gaxes, g)).2.2 := by
  simp only [planOf, List.map_map]
  rw [zipIdx_map_getD _ _ _ _ _ h]; rfl

theorem planOf_newSector_getD {g : Nat} {gaxes : List Nat} (hok : GroupsOk groups duals.length)
    (h : groups[g]? = some gaxes) :
    (planOf sym indices groups (calcFuseGroupInfo groups duals) sector shp).newSector.getD
        ((calcFuseGroupInfo groups duals).position + g) (0, 0)
      = (midOf sym indices sector shp (calcFuseGroupInfo groups duals) (gaxes, g)).1 := by
  simp only [planOf, List.map_map]
  have hl : (List.map (fun ax => List.getD sector ax (0, 0)) (calcFuseGroupInfo groups duals).axesBefore).length
      = (calcFuseGroupInfo groups duals).position := by
    rw [List.length_map, axesBefore_length hok]
  rw [← hl, getD_mid _ _ _ _ _ (by simpa using getElem?_lt h), zipIdx_map_getD _ _ _ _ _ h]; rfl

theorem planOf_newShape_getD {g : Nat} {gaxes : List Nat} (hok : GroupsOk groups duals.length)
    (h : groups[g]? = some gaxes) :
    (planOf sym indices groups (calcFuseGroupInfo groups duals) sector shp).newShape.getD
        ((calcFuseGroupInfo groups duals).position + g) 0
      = (midOf sym indices sector shp (calcFuseGroupInfo groups duals) (gaxes, g)).2.1 := by
  simp only [planOf, List.map_map]
  have hl : (List.map (fun ax => List.getD shp ax 0) (calcFuseGroupInfo groups duals).axesBefore).length
      = (calcFuseGroupInfo groups duals).position := by
    rw [List.length_map, axesBefore_length hok]
  rw [← hl, getD_mid _ _ _ _ _ (by simpa using getElem?_lt h), zipIdx_map_getD _ _ _ _ _ h]; rfl

/-- untouched axes in front keep their charge -/
theorem planOf_newSector_before {k : Nat} (hok : GroupsOk groups duals.length)
    (hk : k < (calcFuseGroupInfo groups duals).position) :
    (planOf sym indices groups (calcFuseGroupInfo groups duals) sector shp).newSector.getD k (0, 0)
      = sector.getD k (0, 0) := by
  simp only [planOf]
  rw [List.append_assoc, getD_before _ _ _ _ (by rw [List.length_map, axesBefore_length hok]; exact hk)]
  rw [axesBefore_eq hok]
  simp [List.getD_eq_getElem?_getD, List.getElem?_map, List.getElem?_range hk]

/-- untouched axes behind keep their charge: new axis `position + #groups + k` is old axis
    `axesAfter[k]` -/
theorem planOf_newSector_after {k : Nat} (hok : GroupsOk groups duals.length)
    (hk : k < (calcFuseGroupInfo groups duals).axesAfter.length) :
    (planOf sym indices groups (calcFuseGroupInfo groups duals) sector shp).newSector.getD
        ((calcFuseGroupInfo groups duals).position + groups.length + k) (0, 0)
      = sector.getD ((calcFuseGroupInfo groups duals).axesAfter.getD k 0) (0, 0) := by
  simp only [planOf]
  have hl : (List.map (fun ax => List.getD sector ax (0, 0)) (calcFuseGroupInfo groups duals).axesBefore
      ++ List.map (fun x => x.1) (List.map (midOf sym indices sector shp (calcFuseGroupInfo groups duals))
          groups.zipIdx)).length = (calcFuseGroupInfo groups duals).position + groups.length := by
    simp [axesBefore_length hok]
  rw [← hl, getD_after]
  simp [List.getD_eq_getElem?_getD, List.getElem?_map, List.getElem?_eq_getElem hk]

end PlanAt

/-! ### consistency of the collected entries -/

theorem blockShape?_map {indices : List Index} {sector : Sector} {shp : List Nat}
    (h : Arr.blockShape? indices sector = some shp) (axes : List Nat)
    (hax : ∀ ax ∈ axes, ax < indices.length) :
    Arr.blockShape? (axes.map (fun ax => indices.getD ax default))
        (axes.map (fun ax => sector.getD ax (0, 0)))
      = some (axes.map (fun ax => shp.getD ax 0)) := by
  rw [blockShape?_some_iff]
  refine ⟨by simp, ?_⟩
  rw [List.zipWith_map, List.zipWith_self, List.map_map]
  apply List.map_congr_left
  intro ax h1
  obtain ⟨ix, c, _, _, h3, h4, h5⟩ := blockShape?_get h (hax ax h1)
  simp only [Function.comp, h4, h5, h3]

theorem sizeOf?_pos {sym : Sym} {ix : Index} (h : Index.wfB sym ix = true) {c : Charge} {d : Nat}
    (hc : ix.sizeOf? c = some d) : 0 < d := by
  obtain ⟨cm, dual, sub⟩ := ix
  rw [Index.wfB.eq_def] at h
  simp only [Bool.and_eq_true, List.all_eq_true, decide_eq_true_eq] at h
  have := h.1.2 (c, d) (alookup_some_mem hc)
  exact this.1

theorem blockShape?_pos {sym : Sym} {indices : List Index} {sector : Sector} {shp : List Nat}
    (hw : ∀ ix ∈ indices, Index.wfB sym ix = true)
    (h : Arr.blockShape? indices sector = some shp) {ax : Nat} (hax : ax < indices.length) :
    0 < shp.getD ax 0 := by
  obtain ⟨ix, c, h1, _, h3, _, _⟩ := blockShape?_get h hax
  exact sizeOf?_pos (hw ix (getElem?_mem' h1)) h3

/-- the entry a stored sector contributes to the table of a multi-axis group is consistent -/
theorem midOf_entryOk {sym : Sym} {indices : List Index} {sector : Sector} {shp : List Nat}
    (hw : ∀ ix ∈ indices, Index.wfB sym ix = true)
    (h : Arr.blockShape? indices sector = some shp) (gi : FuseGroupInfo) (gaxes : List Nat) (g : Nat)
    (hax : ∀ ax ∈ gaxes, ax < indices.length) (hlen : gaxes.length ≠ 1) :
    EntryOk sym (gi.groupDuals.getD g false) (gaxes.map (fun ax => indices.getD ax default))
      ((midOf sym indices sector shp gi (gaxes, g)).2.2,
       (midOf sym indices sector shp gi (gaxes, g)).1, (midOf sym indices sector shp gi (gaxes, g)).2.1) := by
  have hl : (gaxes.length == 1) = false := by simpa using hlen
  simp only [midOf, hl, Bool.false_eq_true, if_false, EntryOk]
  refine ⟨by simp, ⟨_, blockShape?_map h gaxes hax, rfl⟩, ?_, ?_⟩
  · rw [List.zipWith_map, List.zipWith_self]; rfl
  · apply prod_pos
    intro d hd
    obtain ⟨ax, h1, rfl⟩ := List.mem_map.1 hd
    exact blockShape?_pos hw h (hax ax h1)

theorem tableEntries_entryOk {a : Arr R} {groups : List (List Nat)} (hv : ValidArr a)
    (hok : GroupsOk groups a.ndim) {g : Nat} {gaxes : List Nat} (hg : groups[g]? = some gaxes)
    (hlen : gaxes.length ≠ 1) :
    ∀ x ∈ tableEntries (blockmapOf a groups) (calcFuseGroupInfo groups a.duals).position g,
      EntryOk a.sym ((calcFuseGroupInfo groups a.duals).groupDuals.getD g false)
        (gaxes.map (fun ax => a.indices.getD ax default)) x := by
  have hok' : GroupsOk groups a.duals.length := by rw [duals_length]; exact hok
  intro x hx
  simp only [tableEntries, blockmapOf, List.map_map, List.mem_map, Function.comp] at hx
  obtain ⟨sb, hsb, rfl⟩ := hx
  rw [planOf_subsectors_getD _ _ _ _ _ hg, planOf_newSector_getD _ _ _ _ _ _ hok' hg,
    planOf_newShape_getD _ _ _ _ _ _ hok' hg]
  apply midOf_entryOk hv.idx (hv.blk sb hsb).2.1
  · intro ax hax
    exact hok.lt ax (List.mem_flatten.2 ⟨gaxes, getElem?_mem' hg, hax⟩)
  · exact hlen

/-! ### the new indices -/

theorem newMidOf_length (a : Arr R) (groups : List (List Nat)) :
    (newMidOf a groups).length = groups.length := by simp [newMidOf]

theorem permuted_before_length {a : Arr R} {groups : List (List Nat)} (hok : GroupsOk groups a.ndim) :
    (permuted a.indices (calcFuseGroupInfo groups a.duals).axesBefore).length
      = (calcFuseGroupInfo groups a.duals).position := by
  have hok' : GroupsOk groups a.duals.length := by rw [duals_length]; exact hok
  rw [permuted_length, axesBefore_length hok']
  intro p hp
  rw [axesBefore_eq hok'] at hp
  have := position_lt hok'
  rw [duals_length] at this
  simp only [List.mem_range] at hp
  exact Nat.lt_trans hp this

theorem newIndices_getD {a : Arr R} {groups : List (List Nat)} (hok : GroupsOk groups a.ndim)
    {g : Nat} (hg : g < groups.length) :
    (fuseInfoOf a groups).newIndices.getD ((calcFuseGroupInfo groups a.duals).position + g) default
      = (newMidOf a groups).getD g default := by
  simp only [fuseInfoOf]
  have := getD_mid (permuted a.indices (calcFuseGroupInfo groups a.duals).axesBefore) (newMidOf a groups)
    (permuted a.indices (calcFuseGroupInfo groups a.duals).axesAfter) g default
    (by rw [newMidOf_length]; exact hg)
  rw [permuted_before_length hok] at this
  exact this

theorem newIndices_getD_mid {a : Arr R} {groups : List (List Nat)} (hok : GroupsOk groups a.ndim)
    {g : Nat} {gaxes : List Nat} (hg : groups[g]? = some gaxes) :
    (fuseInfoOf a groups).newIndices.getD ((calcFuseGroupInfo groups a.duals).position + g) default
      = if gaxes.length == 1 then a.indices.getD (gaxes.headD 0) default
        else fusedIndexOf (tableEntries (blockmapOf a groups) (calcFuseGroupInfo groups a.duals).position g)
          ((calcFuseGroupInfo groups a.duals).groupDuals.getD g false)
          (gaxes.map (fun ax => a.indices.getD ax default)) := by
  rw [newIndices_getD hok (getElem?_lt hg)]
  simp only [newMidOf]
  rw [zipIdx_map_getD _ _ _ _ _ hg]

/-- **table_wf**: the index produced for a multi-axis group is well formed -/
theorem fused_index_wf {a : Arr R} {groups : List (List Nat)} (hv : ValidArr a)
    (hok : GroupsOk groups a.ndim) {g : Nat} {gaxes : List Nat} (hg : groups[g]? = some gaxes)
    (hlen : gaxes.length ≠ 1) :
    Index.wfB a.sym
      ((fuseInfoOf a groups).newIndices.getD ((calcFuseGroupInfo groups a.duals).position + g) default)
      = true := by
  rw [newIndices_getD_mid hok hg]
  have hl : (gaxes.length == 1) = false := by simpa using hlen
  simp only [hl, Bool.false_eq_true, if_false]
  apply fusedIndexOf_wf
  · rw [wfListB_iff]
    intro ix hix
    obtain ⟨ax, hax, rfl⟩ := List.mem_map.1 hix
    have hlt : ax < a.indices.length := hok.lt ax (List.mem_flatten.2 ⟨gaxes, getElem?_mem' hg, hax⟩)
    apply hv.idx
    simp only [List.getD_eq_getElem?_getD, List.getElem?_eq_getElem hlt, Option.getD_some]
    exact List.getElem_mem _
  · exact tableEntries_entryOk hv hok hg hlen

/-- all indices of the fused array are well formed -/
theorem newIndices_wf {a : Arr R} {groups : List (List Nat)} (hv : ValidArr a)
    (hok : GroupsOk groups a.ndim) : ∀ ix ∈ (fuseInfoOf a groups).newIndices, Index.wfB a.sym ix = true := by
  have hok' : GroupsOk groups a.duals.length := by rw [duals_length]; exact hok
  have hperm : ∀ axes : List Nat, ∀ ix ∈ permuted a.indices axes, Index.wfB a.sym ix = true := by
    intro axes ix hix
    simp only [permuted, List.mem_filterMap] at hix
    obtain ⟨p, _, hp⟩ := hix
    exact hv.idx ix (getElem?_mem' hp)
  intro ix hix
  simp only [fuseInfoOf, List.mem_append] at hix
  rcases hix with (hix | hix) | hix
  · exact hperm _ ix hix
  · obtain ⟨g, hg1, hg2⟩ := List.mem_iff_getElem.1 hix
    rw [newMidOf_length] at hg1
    have hgg : groups[g]? = some groups[g] := List.getElem?_eq_getElem hg1
    have h1 := newIndices_getD_mid (a := a) hok hgg
    have h2 : (fuseInfoOf a groups).newIndices.getD ((calcFuseGroupInfo groups a.duals).position + g) default
        = ix := by
      rw [newIndices_getD hok hg1]
      simp [List.getD_eq_getElem?_getD, List.getElem?_eq_getElem (show g < (newMidOf a groups).length by
        rw [newMidOf_length]; exact hg1), hg2]
    by_cases hlen : groups[g].length = 1
    · rw [← h2, h1]
      simp only [hlen, BEq.rfl, if_true]
      have hne := hok.gne _ (List.getElem_mem hg1)
      have hlt : (groups[g]).headD 0 < a.indices.length := by
        apply hok.lt
        refine List.mem_flatten.2 ⟨groups[g], List.getElem_mem hg1, ?_⟩
        cases hgx : groups[g] with
        | nil => exact absurd hgx hne
        | cons x xs => simp
      apply hv.idx
      simp only [List.getD_eq_getElem?_getD, List.getElem?_eq_getElem hlt, Option.getD_some]
      exact List.getElem_mem _
    · rw [← h2]; exact fused_index_wf hv hok hgg hlen
  · exact hperm _ ix hix

/-- **fused_dual_spec**: the index of every group carries the direction of the group's first axis -/
theorem fused_dual {a : Arr R} {groups : List (List Nat)} (hok : GroupsOk groups a.ndim)
    {g : Nat} {gaxes : List Nat} (hg : groups[g]? = some gaxes) :
    ((fuseInfoOf a groups).newIndices.getD ((calcFuseGroupInfo groups a.duals).position + g) default).dual
      = (a.indices.getD (gaxes.headD 0) default).dual := by
  rw [newIndices_getD_mid hok hg]
  split
  · rfl
  · simp only [fusedIndexOf, Index.dual]
    rw [groupDuals_getD _ _ _ _ hg]
    simp only [Arr.duals, List.getD_eq_getElem?_getD, List.getElem?_map]
    cases a.indices[gaxes.headD 0]? <;> rfl

/-- chargemap and extents of the index of a multi-axis group -/
theorem fused_index_sub {a : Arr R} {groups : List (List Nat)} (hok : GroupsOk groups a.ndim)
    {g : Nat} {gaxes : List Nat} (hg : groups[g]? = some gaxes) (hlen : gaxes.length ≠ 1) :
    (fuseInfoOf a groups).newIndices.getD ((calcFuseGroupInfo groups a.duals).position + g) default
      = fusedIndexOf (tableEntries (blockmapOf a groups) (calcFuseGroupInfo groups a.duals).position g)
          ((calcFuseGroupInfo groups a.duals).groupDuals.getD g false)
          (gaxes.map (fun ax => a.indices.getD ax default)) := by
  rw [newIndices_getD_mid hok hg]
  have hl : (gaxes.length == 1) = false := by simpa using hlen
  simp [hl]

end FuseP
end SymmModel
