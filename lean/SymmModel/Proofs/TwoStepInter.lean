/-
  SymmModel.Proofs.TwoStepInter — "several pairs at once or one after another" (C04): what is known
  about the intermediate `c = a ·_{xa~xb} b` (sectors, index tables, block shapes, leg directions at
  the positions of the remaining pairs) and about stored sector pairs aligned on all pairs.
  Namespace `SymmModel.TwoStepP`.
-/
import SymmModel.Proofs.TwoStepGeom
import SymmModel.Proofs.TwoStepOrder
import SymmModel.Proofs.Assoc3Frame

namespace SymmModel
namespace TwoStepP
open TdotP GradedP RoutesP AssocP KoszulP Assoc3P
open Lazy (sgnI)
set_option linter.unusedSectionVars false

variable {R : Type}

section norm
variable [AddCommMonoid R] [Mul R] [Neg R] [SignRing R]

theorem sgnI_norm (σ : Int) (x : R) : sgnI σ x = sgnI (if σ = -1 then -1 else 1) x := by
  unfold sgnI; by_cases h : σ = -1 <;> simp [h]

/-- a successful blockwise call under the weak guard, with the label sign normalised to `±1` -/
theorem inter_norm {a b c : Arr R} {xa xb : List Nat} (W : AdmW a b xa xb)
    (h : a.tensordotF b (.pair (xa.map Int.ofNat) (xb.map Int.ofNat)) .blockwise = .ok c) :
    ∃ r, OddposP.mergeOddpos a.parity a.oddpos b.oddpos = .ok r ∧ c.oddpos = r.1
      ∧ Inter a b xa xb c (if r.2 = -1 then -1 else 1) := by
  have h0 := h
  rw [tensordotF_eq_core_w a b xa xb W] at h0
  cases hm : OddposP.mergeOddpos a.parity a.oddpos b.oddpos with
  | error e => rw [hm] at h0; cases h0
  | ok r =>
    rw [hm] at h0
    simp only [Except.map, Except.ok.injEq] at h0
    subst h0
    have F := coreT_frame_w a b xa xb W
    obtain ⟨f1, f2, f3, f4, f5, f6⟩ := finish_fields (coreT a b xa xb) r
    have hv := ValidP.tensordotF_valid_of_opposite .blockwise ValidP.tdotASpec_blockwise a b _ xa xb
      ((ValidP.validB_iff a).mp W.va) ((ValidP.validB_iff b).mp W.vb) W.fa W.fb W.sym
      (opposite_of_commonB W.con) W.nA W.nB W.ltA W.ltB h
    refine ⟨r, rfl, f6, ⟨(ValidP.validB_iff _).mpr hv, by rw [f3, F.fermi, W.fa], by rw [f2, F.sym],
      by rw [f1, F.charge], by rw [f4, f5, F.indices], by rw [f5, F.sectors], ?_, ?_⟩⟩
    · by_cases h : r.2 = -1 <;> simp [h]
    · intro s oL oR hoL ho
      rw [finish_elem _ _ (coreFrame_signOk F), F.elem s oL oR hoL ho, sgnI_norm]

end norm

/-! ### alignment on all pairs = alignment on the first and on the remaining pairs -/

theorem aligned_split {α : Type} (z z' : List α) (xa ya xb yb : List Nat)
    (hxa : ∀ i ∈ xa, i < z.length) (hxb : ∀ i ∈ xb, i < z'.length) (hlx : xa.length = xb.length) :
    permuted z' (xb ++ yb) = permuted z (xa ++ ya)
      ↔ permuted z' xb = permuted z xa ∧ permuted z' yb = permuted z ya := by
  rw [permuted_append', permuted_append']
  constructor
  · intro h
    exact List.append_inj h (by
      rw [TdotP.permuted_length _ _ hxb, TdotP.permuted_length _ _ hxa, hlx])
  · rintro ⟨h1, h2⟩; rw [h1, h2]

section pair
variable {a b : Arr R} {xa xb ya yb : List Nat}

/-- the block sizes on the remaining legs agree on an aligned stored pair -/
theorem shapes_y (W : AdmW a b (xa ++ ya) (xb ++ yb)) (hlx : xa.length = xb.length)
    {sa sb : Sector} (hsa : sa ∈ a.sectors) (hsb : sb ∈ b.sectors)
    (hal : permuted sb (xb ++ yb) = permuted sa (xa ++ ya)) :
    permuted (Arr.blockShapeD b.indices sb) yb = permuted (Arr.blockShapeD a.indices sa) ya := by
  have hA := Arr.shapesOk_of_validB W.va
  have hB := Arr.shapesOk_of_validB W.vb
  have h := shapes_match_w hA hB W.con W.ltA W.ltB sa hsa sb hsb hal
  obtain ⟨_, _, e1, l1, _⟩ := shape_of_mem hA hsa
  obtain ⟨_, _, e2, l2, _⟩ := shape_of_mem hB hsb
  exact ((aligned_split _ _ xa ya xb yb
    (by rw [e1, l1]; intro i hi; exact W.ltA i (List.mem_append_left _ hi))
    (by rw [e2, l2]; intro i hi; exact W.ltB i (List.mem_append_left _ hi)) hlx).mp h).2

end pair

/-! ### leg directions of the intermediate at the traced positions -/

section duals
variable [AddCommMonoid R] [Mul R] [Neg R] [SignRing R]
variable {a b c : Arr R} {xa xb ya yb : List Nat} {ph : Int}

theorem getD_map' {α β : Type} (f : α → β) (l : List α) (i : Nat) (d : α) (d' : β) (h : i < l.length) :
    (l.map f).getD i d' = f (l.getD i d) := by
  simp [List.getD_eq_getElem?_getD, List.getElem?_eq_getElem h]

theorem getD_mem' {α : Type} (l : List α) (i : Nat) (d : α) (h : i < l.length) : l.getD i d ∈ l := by
  rw [List.getD_eq_getElem?_getD, List.getElem?_eq_getElem h]; exact List.getElem_mem h

theorem dual_PA (I : Inter a b xa xb c ph) (hA : Mid a.ndim xa ya) (i : Nat) (hi : i < ya.length) :
    (c.indices.getD ((tsPA a.ndim xa ya).getD i 0) default).dual
      = (a.indices.getD (ya.getD i 0) default).dual := by
  unfold tsPA
  rw [getD_map' _ _ _ 0 0 hi]
  obtain ⟨h1, h2⟩ := posIn_lt_get (hA.sub _ (getD_mem' ya i 0 hi))
  have := (I.leg_left _ h1).1
  rw [this]
  congr 2
  rw [List.getD_eq_getElem?_getD, h2]; rfl

theorem dual_PB (I : Inter a b xa xb c ph) (hB : Mid b.ndim xb yb) (i : Nat) (hi : i < yb.length) :
    (c.indices.getD ((tsPB a.ndim b.ndim xa xb yb).getD i 0) default).dual
      = (b.indices.getD (yb.getD i 0) default).dual := by
  unfold tsPB
  rw [getD_map' _ _ _ 0 0 hi]
  obtain ⟨h1, h2⟩ := posIn_lt_get (hB.sub _ (getD_mem' yb i 0 hi))
  have := (I.leg_right _ h1).1
  rw [this]
  congr 2
  rw [List.getD_eq_getElem?_getD, h2]; rfl

/-- the partner legs have opposite directions -/
theorem dual_y (W : AdmW a b (xa ++ ya) (xb ++ yb)) (hlx : xa.length = xb.length) (i : Nat)
    (hi : i < ya.length) :
    (b.indices.getD (yb.getD i 0) default).dual = !(a.indices.getD (ya.getD i 0) default).dual := by
  have := (commonB_at W.con (xa.length + i) (by rw [List.length_append]; omega)).2
  have e1 : (xa ++ ya).getD (xa.length + i) 0 = ya.getD i 0 := by
    rw [List.getD_eq_getElem?_getD, List.getD_eq_getElem?_getD,
      List.getElem?_append_right (by omega)]
    congr 2; omega
  have e2 : (xb ++ yb).getD (xa.length + i) 0 = yb.getD i 0 := by
    rw [List.getD_eq_getElem?_getD, List.getD_eq_getElem?_getD,
      List.getElem?_append_right (by omega)]
    congr 2; omega
  rw [e1, e2] at this
  exact this

end duals

end TwoStepP
end SymmModel
