/-
  SymmModel.Proofs.FermiAction3 — the Fock matrix behind the operator array (property C18):
  dense form = D·H, the action matrix D·H·D and its Hermiticity, charge maps ⇒ nothing discarded.
-/
import SymmModel.Proofs.FermiAction2

namespace SymmModel
namespace FermiActP
open FermiOpsP

section fock
variable {α : Type} [AddCommGroup α]

theorem scaleInt_scaleInt (σ : Int) (hσ : σ = 1 ∨ σ = -1) (x : α) :
    scaleInt σ (scaleInt σ x) = x := by
  rcases hσ with rfl | rfl <;> simp [scaleInt]

theorem siteSign_cases (bases : List (List Word)) (is : List Nat) :
    siteSign bases is = 1 ∨ siteSign bases is = -1 := sgn_cases _

theorem mul_pm {a b : Int} (ha : a = 1 ∨ a = -1) (hb : b = 1 ∨ b = -1) : a * b = 1 ∨ a * b = -1 := by
  rcases ha with rfl | rfl <;> rcases hb with rfl | rfl <;> simp

/-- the documented bra `⟨i₁|⟨i₂|…` is `τ(i)` times the proper bra `(|i₁⟩|i₂⟩…)†` -/
theorem vev_bra_proper (bases : List (List Word)) (hd : SitesDisjoint bases) (is : List Nat)
    (w : Word) :
    vev (braOf bases is ++ w) = siteSign bases is * vev (dagWord (ketOf bases is) ++ w) := by
  rw [braOf_eq, ketOf_eq, dagWord_flatten, ← braBlocks_eq_map]
  have r := vev_reverse_blocks (braBlocks bases is) (pairwise_braBlocks bases hd is) [] w
  have l1 : (braBlocks bases is).map List.length = (ketBlocks bases is).map List.length := by
    rw [braBlocks_eq_map, List.map_map]
    congr 1
    funext w; exact dagWord_length w
  rw [l1] at r
  simpa [siteSign] using r

/-- the proper Fock matrix `⟨i|O|j⟩` of the operator, as a sum over the terms -/
theorem fockMatrixAt_eq (terms : List (α × Word)) (bases : List (List Word)) (is js : List Nat) :
    fockMatrixAt terms bases is js
      = sumA (terms.map (fun ct =>
          scaleInt (vev (dagWord (ketOf bases is) ++ ct.2 ++ ketOf bases js)) ct.1)) := rfl

/-- **dense form = D·H**: the specified element is `τ(i)` times the proper Fock matrix element -/
theorem specAt_eq_DH (terms : List (α × Word)) (bases : List (List Word)) (hd : SitesDisjoint bases)
    (is js : List Nat) (hi : is.length = bases.length)
    (hbox : inBox (bases.map List.length ++ bases.map List.length) (is ++ js) = true) :
    specAt terms bases (is ++ js)
      = scaleInt (siteSign bases is) (fockMatrixAt terms bases is js) := by
  rw [specAt_eq', if_pos hbox, List.take_left' hi, List.drop_left' hi, fockMatrixAt_eq]
  have hσ := siteSign_cases bases is
  have h := scale_sum_cancel (α := α) (siteSign bases is) hσ terms
    (fun ct => vev (dagWord (ketOf bases is) ++ ct.2 ++ ketOf bases js)) (fun ct => vev_cases _)
    (fun ct => ct.1)
  rw [← h, scaleInt_scaleInt _ hσ]
  congr 1
  apply List.map_congr_left
  intro ct _
  simp only [List.append_assoc]
  rw [vev_bra_proper bases hd is]

/-- the Fock matrix of a term set closed under dagger (with conjugated coefficients) is Hermitian -/
theorem fockMatrixAt_hermitian (cj : α → α) (hcj : ∀ a b, cj (a + b) = cj a + cj b)
    (terms : List (α × Word)) (bases : List (List Word))
    (hclosed : (terms.map (fun ct => (cj ct.1, dagWord ct.2))).Perm terms) (is js : List Nat) :
    fockMatrixAt terms bases is js = cj (fockMatrixAt terms bases js is) := by
  rw [fockMatrixAt_eq, fockMatrixAt_eq, cj_sumA cj hcj, List.map_map]
  simp only [Function.comp_def, cj_scaleInt cj hcj]
  have e : ∀ ct : α × Word, vev (dagWord (ketOf bases js) ++ ct.2 ++ ketOf bases is)
      = vev (dagWord (ketOf bases is) ++ dagWord ct.2 ++ ketOf bases js) := by
    intro ct
    rw [← vev_dagWord, dagWord_append, dagWord_append, dagWord_dagWord, List.append_assoc]
  simp only [e]
  have := sumA_perm ((hclosed.map (fun ct : α × Word =>
    scaleInt (vev (dagWord (ketOf bases is) ++ ct.2 ++ ketOf bases js)) ct.1)))
  rw [List.map_map] at this
  exact this.symm

/-- the matrix by which the operator array acts on state tensors: `D·H·D`, `D = diag τ` -/
def actMatrix (terms : List (α × Word)) (bases : List (List Word)) (is js : List Nat) : α :=
  scaleInt (siteSign bases is * siteSign bases js) (fockMatrixAt terms bases is js)

/-- **hermitian_action**: Hermitian term sets give a Hermitian action matrix `D·H·D` -/
theorem actMatrix_hermitian (cj : α → α) (hcj : ∀ a b, cj (a + b) = cj a + cj b)
    (terms : List (α × Word)) (bases : List (List Word))
    (hclosed : (terms.map (fun ct => (cj ct.1, dagWord ct.2))).Perm terms) (is js : List Nat) :
    actMatrix terms bases is js = cj (actMatrix terms bases js is) := by
  unfold actMatrix
  rw [cj_scaleInt cj hcj, ← fockMatrixAt_hermitian cj hcj terms bases hclosed is js, Int.mul_comm]

/-- one site: `τ = 1`, the action matrix is the Fock matrix itself -/
theorem actMatrix_one (terms : List (α × Word)) (b : List Word) (i j : Nat) :
    actMatrix terms [b] [i] [j] = fockMatrixAt terms [b] [i] [j] := by
  unfold actMatrix siteSign
  simp [ketBlocks, pairCount, sumN, sgn, scaleInt]

end fock
/-! ### index maps that are charge maps: `from_dense` discards nothing -/

/-- the group element carried by integer particle numbers `(x, y)` -/
def symRed : Sym → Int × Int → Charge
  | .Z2, p => (p.1 % 2, 0)
  | .Z4, p => (p.1 % 4, 0)
  | .U1, p => (p.1, 0)
  | .Z2Z2, p => (p.1 % 2, p.2 % 2)
  | .U1U1, p => p

/-- the integer charges `(q₁, q₂)` of a basis state -/
def stateCharge (q1 q2 : Int → Int) (w : Word) : Int × Int := (wordCharge q1 w, wordCharge q2 w)

/-- every index map labels every basis state with the group element of its charges -/
def ChargeMaps (sym : Sym) (q1 q2 : Int → Int) (bases : List (List Word))
    (maps : List (List Charge)) : Prop :=
  maps = bases.map (fun b => b.map (fun w => symRed sym (stateCharge q1 q2 w)))

open Sym in
theorem sum_red (sym : Sym) (X Y : List (Int × Int)) :
    sym.combine (X.map (fun p => sym.sign (symRed sym p) false)
        ++ Y.map (fun p => sym.sign (symRed sym p) true))
      = symRed sym (sum1 X - sum1 Y, sum2 X - sum2 Y) := by
  have hX1 : ∀ (k : Int), k = 2 ∨ k = 4 → ∀ (f : Int × Int → Int), ∀ X : List (Int × Int),
      sum1 (X.map (fun p => (p.1 % k, f p))) % k = sum1 X % k := by
    intro k hk f X
    induction X with
    | nil => rfl
    | cons x X ih =>
      simp only [List.map_cons, sum1_cons]
      rcases hk with rfl | rfl <;> omega
  have hX2 : ∀ (f : Int × Int → Int), ∀ X : List (Int × Int),
      sum2 (X.map (fun p => (f p, p.2 % 2))) % 2 = sum2 X % 2 := by
    intro f X
    induction X with
    | nil => rfl
    | cons x X ih => simp only [List.map_cons, sum2_cons]; omega
  have hY4 : ∀ Y : List (Int × Int),
      sum1 (Y.map (fun p => ((4 - p.1 % 4) % 4, (0 : Int)))) % 4 = (- sum1 Y) % 4 := by
    intro Y
    induction Y with
    | nil => rfl
    | cons x Y ih => simp only [List.map_cons, sum1_cons]; omega
  have hN1 : ∀ (f : Int × Int → Int), ∀ Y : List (Int × Int),
      sum1 (Y.map (fun p => (-p.1, f p))) = - sum1 Y := by
    intro f Y
    induction Y with
    | nil => rfl
    | cons x Y ih => simp only [List.map_cons, sum1_cons, ih]; omega
  have hN2 : ∀ (f : Int × Int → Int), ∀ Y : List (Int × Int),
      sum2 (Y.map (fun p => (f p, -p.2))) = - sum2 Y := by
    intro f Y
    induction Y with
    | nil => rfl
    | cons x Y ih => simp only [List.map_cons, sum2_cons, ih]; omega
  have hI1 : ∀ X : List (Int × Int), sum1 (X.map (fun p => p)) = sum1 X := by intro X; simp
  have hZ1 : ∀ X : List (Int × Int), sum1 (X.map (fun p => (p.1, (0 : Int)))) = sum1 X := by
    intro X
    induction X with
    | nil => rfl
    | cons x X ih => simp only [List.map_cons, sum1_cons, ih]
  cases sym
  · -- Z2
    rw [combine_Z2, sum1_append]
    have a := hX1 2 (Or.inl rfl) (fun _ => 0) X
    have b := hX1 2 (Or.inl rfl) (fun _ => 0) Y
    simp only [Sym.sign, symRed] at a b ⊢
    congr 1; omega
  · -- Z4
    rw [combine_Z4, sum1_append]
    have a := hX1 4 (Or.inr rfl) (fun _ => 0) X
    have b := hY4 Y
    simp only [Sym.sign, symRed, if_true, Bool.false_eq_true, if_false] at a b ⊢
    congr 1; omega
  · -- U1
    rw [combine_U1, sum1_append]
    have a := hZ1 X
    have b := hN1 (fun _ => 0) Y
    simp only [Sym.sign, symRed, if_true, Bool.false_eq_true, if_false] at a b ⊢
    congr 1; omega
  · -- Z2Z2
    rw [combine_Z2Z2, sum1_append, sum2_append]
    have a1 := hX1 2 (Or.inl rfl) (fun p => p.2 % 2) X
    have b1 := hX1 2 (Or.inl rfl) (fun p => p.2 % 2) Y
    have a2 := hX2 (fun p => p.1 % 2) X
    have b2 := hX2 (fun p => p.1 % 2) Y
    simp only [Sym.sign, symRed] at a1 b1 a2 b2 ⊢
    congr 1 <;> omega
  · -- U1U1
    rw [combine_U1U1, sum1_append, sum2_append]
    have b1 := hN1 (fun p => -p.2) Y
    have b2 := hN2 (fun p => -p.1) Y
    simp only [Sym.sign, symRed, if_true, Bool.false_eq_true, if_false, List.map_id'] at b1 b2 ⊢
    congr 1 <;> omega

theorem symRed_zero (sym : Sym) : symRed sym (0, 0) = sym.zero := by cases sym <;> rfl

theorem wordCharge_flatten1 (q : Int → Int) (f : Word → Int) (Bs : List Word) :
    wordCharge q Bs.flatten = Sym.sum1 (Bs.map (fun w => (wordCharge q w, f w))) := by
  induction Bs with
  | nil => rfl
  | cons B Bs ih => rw [List.flatten_cons, wordCharge_append, ih, List.map_cons, Sym.sum1_cons]

theorem wordCharge_flatten2 (q : Int → Int) (f : Word → Int) (Bs : List Word) :
    wordCharge q Bs.flatten = Sym.sum2 (Bs.map (fun w => (f w, wordCharge q w))) := by
  induction Bs with
  | nil => rfl
  | cons B Bs ih => rw [List.flatten_cons, wordCharge_append, ih, List.map_cons, Sym.sum2_cons]

theorem labelsAt_chargeMaps {sym : Sym} {q1 q2 : Int → Int} {bases : List (List Word)}
    {maps : List (List Charge)} (h : ChargeMaps sym q1 q2 bases maps) (is : List Nat) :
    labelsAt maps is
      = (ketBlocks bases is).map (fun w => symRed sym (stateCharge q1 q2 w)) := by
  unfold ChargeMaps at h
  subst h
  unfold labelsAt ketBlocks
  rw [List.zipWith_map_left, List.map_zipWith]
  congr 1
  funext b i
  have h0 : symRed sym (stateCharge q1 q2 []) = (0, 0) := by cases sym <;> rfl
  rw [← h0, List.getD_eq_getElem?_getD, List.getD_eq_getElem?_getD, List.getElem?_map]
  cases b[i]? <;> rfl

theorem zipWith_replicate {β γ δ : Type} (f : β → γ → δ) (l : List β) (x : γ) :
    List.zipWith f l (List.replicate l.length x) = l.map (fun a => f a x) := by
  induction l with
  | nil => rfl
  | cons a l ih => simp [List.replicate_succ, ih]

section nd
variable {α : Type} [Ring α] [DecidableEq α]

/-- **nothing is discarded**: when the index maps are the charge maps of a charge assignment
    `(q₁, q₂)` of the modes for which every term is neutral, the conservation mask of the
    operator array is vacuous — every entry is the specified element. -/
theorem opEntry_eq_specAt (terms : List (α × Word)) (bases : List (List Word)) (sym : Sym)
    (maps : List (List Charge)) (q1 q2 : Int → Int)
    (hcm : ChargeMaps sym q1 q2 bases maps)
    (hn1 : ∀ ct ∈ terms, wordCharge q1 ct.2 = 0) (hn2 : ∀ ct ∈ terms, wordCharge q2 ct.2 = 0)
    (idx : List Nat) :
    opEntry terms bases sym maps idx = specAt terms bases idx := by
  unfold opEntry
  split
  · rfl
  · rename_i hmask
    by_contra hne
    have hne' : specAt terms bases idx ≠ 0 := fun e => hne e.symm
    apply hmask
    have hbox : inBox (bases.map List.length ++ bases.map List.length) idx = true := by
      by_contra hb
      rw [specAt_eq', if_neg hb] at hne'
      exact hne' rfl
    have hlen : idx.length = bases.length + bases.length := by
      have := inBox_length hbox; simpa using this
    have c1 := specAt_charge q1 terms bases hn1 idx hne'
    have c2 := specAt_charge q2 terms bases hn2 idx hne'
    have hmaps : maps.length = bases.length := by rw [hcm]; simp
    have htake : (idx.take bases.length).length = bases.length := by simp; omega
    have hsplit : idx = idx.take bases.length ++ idx.drop bases.length := (List.take_append_drop _ _).symm
    have hlab : labelsAt (maps ++ maps) idx
        = labelsAt maps (idx.take bases.length) ++ labelsAt maps (idx.drop bases.length) := by
      conv => lhs; rw [hsplit]
      unfold labelsAt
      rw [List.zipWith_append (by rw [hmaps, htake])]
    have hkl : ∀ is : List Nat, is.length = bases.length → (ketBlocks bases is).length = bases.length := by
      intro is h; simp [ketBlocks, h]
    have hdl : (idx.drop bases.length).length = bases.length := by simp; omega
    rw [hlab, labelsAt_chargeMaps hcm, labelsAt_chargeMaps hcm]
    unfold Arr.sectorCharge opDuals
    rw [List.zipWith_append (by simp [hkl _ htake])]
    have e1 := zipWith_replicate (fun c d => sym.sign c d)
      ((ketBlocks bases (idx.take bases.length)).map (fun w => symRed sym (stateCharge q1 q2 w))) false
    have e2 := zipWith_replicate (fun c d => sym.sign c d)
      ((ketBlocks bases (idx.drop bases.length)).map (fun w => symRed sym (stateCharge q1 q2 w))) true
    simp only [List.length_map, hkl _ htake, hkl _ hdl] at e1 e2
    rw [e1, e2, List.map_map, List.map_map]
    have := sum_red sym ((ketBlocks bases (idx.take bases.length)).map (stateCharge q1 q2))
      ((ketBlocks bases (idx.drop bases.length)).map (stateCharge q1 q2))
    simp only [List.map_map] at this
    simp only [Function.comp_def]
    simp only [Function.comp_def] at this
    rw [this]
    rw [ketOf_eq, ketOf_eq, wordCharge_flatten1 q1 (wordCharge q2), wordCharge_flatten1 q1 (wordCharge q2)] at c1
    rw [ketOf_eq, ketOf_eq, wordCharge_flatten2 q2 (wordCharge q1), wordCharge_flatten2 q2 (wordCharge q1)] at c2
    unfold stateCharge
    rw [c1, c2, Int.sub_self, Int.sub_self, symRed_zero]
    exact beq_self_eq_true _

end nd

section one
variable {α : Type} [Ring α] [DecidableEq α]

theorem sitesDisjoint_one (b : List Word) : SitesDisjoint [b] := by
  unfold SitesDisjoint; simp

theorem siteSign_one (b : List Word) (i : Nat) : siteSign [b] [i] = 1 := by
  simp [siteSign, ketBlocks, pairCount, sumN, sgn]

/-- one site, charge maps, neutral terms: the entry of the operator array is the Fock matrix -/
theorem opEntry_one_eq_fock (terms : List (α × Word)) (b : List Word) (sym : Sym) (m : List Charge)
    (q1 q2 : Int → Int) (hcm : ChargeMaps sym q1 q2 [b] [m])
    (hn1 : ∀ ct ∈ terms, wordCharge q1 ct.2 = 0) (hn2 : ∀ ct ∈ terms, wordCharge q2 ct.2 = 0)
    (i j : Nat) (hi : i < b.length) (hj : j < b.length) :
    opEntry terms [b] sym [m] [i, j] = fockMatrixAt terms [b] [i] [j] := by
  rw [opEntry_eq_specAt terms [b] sym [m] q1 q2 hcm hn1 hn2]
  have := specAt_eq_DH terms [b] (sitesDisjoint_one b) [i] [j] rfl (by simp [inBox, hi, hj])
  rw [siteSign_one, scaleInt_one] at this
  exact this

end one

end FermiActP
end SymmModel
