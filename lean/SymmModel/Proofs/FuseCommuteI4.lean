/-
  SymmModel.Proofs.FuseCommuteI4 — the address layouts of "fuse a free-leg group, then contract" and
  "contract, then fuse the corresponding legs" coincide OUTSIDE the fused leg, and the fused leg sits
  at the same position.  Namespace `SymmModel.TdotP`.
-/
import SymmModel.Proofs.FuseCommuteI3

namespace SymmModel
namespace TdotP
open AssocP RoutesP
variable {R : Type}

theorem nodup_of_pairwise_lt {L : List Nat} (hs : L.Pairwise (· < ·)) : L.Nodup :=
  hs.imp (fun h => Nat.ne_of_lt h)

theorem idxOf_inj_of_mem {L : List Nat} {y z : Nat} (hy : y ∈ L) (hz : z ∈ L)
    (e : L.idxOf y = L.idxOf z) : y = z := by
  have hiy := List.idxOf_lt_length_of_mem hy
  have hiz := List.idxOf_lt_length_of_mem hz
  have e1 : L[L.idxOf y]? = some y := by rw [List.getElem?_eq_getElem hiy, List.getElem_idxOf hiy]
  have e2 : L[L.idxOf z]? = some z := by rw [List.getElem?_eq_getElem hiz, List.getElem_idxOf hiz]
  rw [e, e2] at e1
  exact (Option.some.inj e1).symm

/-- index of an element of a strictly increasing list = number of smaller elements -/
theorem idxOf_eq_count_lt {L : List Nat} (hs : L.Pairwise (· < ·)) {v : Nat} (hv : v ∈ L) :
    L.idxOf v = (L.filter (fun y => decide (y < v))).length := by
  induction L with
  | nil => simp at hv
  | cons y ys ih =>
    have hp := List.pairwise_cons.mp hs
    by_cases hyv : y = v
    · subst hyv
      have : (y :: ys).filter (fun z => decide (z < y)) = [] := by
        rw [List.filter_eq_nil_iff]
        intro z hz
        rcases List.mem_cons.mp hz with rfl | hz'
        · simp
        · have := hp.1 z hz'; simp; omega
      rw [this]; simp
    · have hv' : v ∈ ys := by
        rcases List.mem_cons.mp hv with h | h
        · exact absurd h.symm hyv
        · exact h
      have hlt : y < v := hp.1 v hv'
      rw [List.idxOf_cons_ne _ hyv, ih hp.2 hv', List.filter_cons_of_pos (by simpa using hlt)]
      rfl

/-- reading a strictly increasing list through the positions NOT occupied by `G` removes `G` -/
theorem permuted_complement {L : List Nat} (hs : L.Pairwise (· < ·)) (G : List Nat) (hG : ∀ y ∈ G, y ∈ L) :
    permuted L (freeAxes L.length (G.map (fun y => L.idxOf y))) = L.filter (fun y => !G.contains y) := by
  have hq : ∀ i ∈ freeAxes L.length (G.map (fun y => L.idxOf y)), i < L.length :=
    fun i hi => (mem_freeAxes.mp hi).1
  have hgd : ∀ i (hi : i < L.length), L.getD i 0 = L[i] := by
    intro i hi; rw [List.getD_eq_getElem?_getD, List.getElem?_eq_getElem hi]; rfl
  rw [permuted_eq_map _ _ hq 0]
  apply List.Pairwise.eq_of_mem_iff (r := (· < ·))
  · rw [List.pairwise_map]
    refine (freeAxes_pairwise _ _).imp_of_mem ?_
    intro i j hi hj hij
    rw [hgd i (hq i hi), hgd j (hq j hj)]
    exact List.pairwise_iff_getElem.mp hs _ _ (hq i hi) (hq j hj) hij
  · exact hs.filter _
  · intro z
    simp only [List.mem_map, List.mem_filter, Bool.not_eq_eq_eq_not, Bool.not_true, List.contains_eq_mem,
      decide_eq_false_iff_not]
    constructor
    · rintro ⟨i, hi, rfl⟩
      obtain ⟨hil, hin⟩ := mem_freeAxes.mp hi
      rw [hgd i hil]
      refine ⟨List.getElem_mem hil, ?_⟩
      intro hm
      exact hin (List.mem_map.mpr ⟨L[i], hm, (nodup_of_pairwise_lt hs).idxOf_getElem i hil⟩)
    · rintro ⟨hz, hzG⟩
      have hi := List.idxOf_lt_length_of_mem hz
      refine ⟨L.idxOf z, mem_freeAxes.mpr ⟨hi, ?_⟩, by rw [hgd _ hi, List.getElem_idxOf hi]⟩
      intro hm
      obtain ⟨y, hy, e⟩ := List.mem_map.mp hm
      exact hzG (idxOf_inj_of_mem (hG y hy) hz e ▸ hy)

theorem getD_eq_getElem' (L : List Nat) {i : Nat} (hi : i < L.length) : L.getD i 0 = L[i] := by
  rw [List.getD_eq_getElem?_getD, List.getElem?_eq_getElem hi]; rfl

section Layout
variable {X : Arr R} {g xa : List Nat}

/-- the legs of the fused operand that are neither contracted nor the fused one are the renumbered
    free legs of the original outside the group, in the same order -/
theorem free_shift_image (h : OneOk X g) (hxaF : ∀ x ∈ xa, x < X.ndim ∧ x ∉ g) :
    ((freeAxes X.ndim xa).filter (fun y => !g.contains y)).map (shiftAxes X g)
      = (freeAxes (FuseP.ndimM X [g]) (xa.map (shiftAxes X g))).filter
          (fun y => !([(FuseP.giM X [g]).position] : List Nat).contains y) := by
  have hmemL : ∀ x, x ∈ (freeAxes X.ndim xa).filter (fun y => !g.contains y) ↔ (x < X.ndim ∧ x ∉ xa) ∧ x ∉ g := by
    intro x
    simp only [List.mem_filter, mem_freeAxes, Bool.not_eq_eq_eq_not, Bool.not_true, List.contains_eq_mem,
      decide_eq_false_iff_not]
  apply List.Pairwise.eq_of_mem_iff (r := (· < ·))
  · rw [List.pairwise_map]
    refine ((freeAxes_pairwise _ _).filter _).imp_of_mem ?_
    intro x y hx hy hxy
    have hx' := (hmemL x).mp hx
    have hy' := (hmemL y).mp hy
    exact shiftAxes_strictMono h ⟨hx'.1.1, hx'.2⟩ ⟨hy'.1.1, hy'.2⟩ hxy
  · exact (freeAxes_pairwise _ _).filter _
  · intro z
    simp only [List.mem_map, List.mem_filter, mem_freeAxes, Bool.not_eq_eq_eq_not, Bool.not_true,
      List.contains_eq_mem, decide_eq_false_iff_not, List.mem_cons, List.not_mem_nil, or_false]
    constructor
    · rintro ⟨x, ⟨⟨hx1, hx2⟩, hx3⟩, rfl⟩
      refine ⟨⟨shiftAxes_lt h ⟨hx1, hx3⟩, ?_⟩, shiftAxes_ne_pos h ⟨hx1, hx3⟩⟩
      rintro ⟨x2, hx2', e⟩
      exact hx2 (shiftAxes_inj h (hxaF x2 hx2') ⟨hx1, hx3⟩ e ▸ hx2')
    · rintro ⟨⟨hz1, hz2⟩, hz3⟩
      have hm : z ∈ freeAxes (FuseP.ndimM X [g]) [(FuseP.giM X [g]).position] :=
        mem_freeAxes.mpr ⟨hz1, by simpa using hz3⟩
      obtain ⟨j, hj, rfl⟩ := List.mem_iff_getElem.mp hm
      have hj' : j < (freeAxes X.ndim g).length := by rw [← one_free_length h]; exact hj
      have hsa := shiftAxes_at h hj'
      rw [getD_eq_getElem' _ hj', getD_eq_getElem' _ hj] at hsa
      have hxm := mem_freeAxes.mp (List.getElem_mem hj')
      refine ⟨(freeAxes X.ndim g)[j], ⟨⟨hxm.1, ?_⟩, hxm.2⟩, hsa⟩
      intro hxa
      exact hz2 ⟨_, hxa, hsa⟩

/-- below the fused position the free legs of the original and of the fused operand are the same -/
theorem free_below_pos (h : OneOk X g) (hxaF : ∀ x ∈ xa, x < X.ndim ∧ x ∉ g) :
    (freeAxes X.ndim xa).filter (fun y => decide (y < (FuseP.giM X [g]).position))
      = (freeAxes (FuseP.ndimM X [g]) (xa.map (shiftAxes X g))).filter
          (fun y => decide (y < (FuseP.giM X [g]).position)) := by
  have hp := one_pos_lt h
  have hpF := one_pos_lt_ndimM h
  have hpg := one_pos_mem h
  apply List.Pairwise.eq_of_mem_iff (r := (· < ·))
  · exact (freeAxes_pairwise _ _).filter _
  · exact (freeAxes_pairwise _ _).filter _
  · intro z
    simp only [List.mem_filter, mem_freeAxes, decide_eq_true_eq, List.mem_map, not_exists, not_and]
    constructor
    · rintro ⟨⟨_, hz2⟩, hz3⟩
      refine ⟨⟨by omega, ?_⟩, hz3⟩
      intro x hx e
      have hxF := hxaF x hx
      rcases Nat.lt_trichotomy x (FuseP.giM X [g]).position with hlt | heq | hgt
      · rw [shiftAxes_of_lt_pos h hlt] at e; exact hz2 (e ▸ hx)
      · exact hxF.2 (heq ▸ hpg)
      · have := shiftAxes_of_pos_lt h hxF hgt; omega
    · rintro ⟨⟨_, hz2⟩, hz3⟩
      refine ⟨⟨by omega, ?_⟩, hz3⟩
      intro hx
      exact hz2 z hx (shiftAxes_of_lt_pos h hz3)

/-- the fused leg sits at the same place among the free legs -/
theorem idxOf_pos_eq (h : OneOk X g) (hxaF : ∀ x ∈ xa, x < X.ndim ∧ x ∉ g) :
    (freeAxes (FuseP.ndimM X [g]) (xa.map (shiftAxes X g))).idxOf (FuseP.giM X [g]).position
      = (freeAxes X.ndim xa).idxOf (FuseP.giM X [g]).position := by
  have hpg := one_pos_mem h
  have m1 : (FuseP.giM X [g]).position ∈ freeAxes X.ndim xa :=
    mem_freeAxes.mpr ⟨one_pos_lt h, fun hm => (hxaF _ hm).2 hpg⟩
  have m2 : (FuseP.giM X [g]).position ∈ freeAxes (FuseP.ndimM X [g]) (xa.map (shiftAxes X g)) := by
    refine mem_freeAxes.mpr ⟨one_pos_lt_ndimM h, ?_⟩
    intro hm
    obtain ⟨x, hx, e⟩ := List.mem_map.mp hm
    exact shiftAxes_ne_pos h (hxaF x hx) e
  rw [idxOf_eq_count_lt (freeAxes_pairwise _ _) m1, idxOf_eq_count_lt (freeAxes_pairwise _ _) m2,
    free_below_pos h hxaF]

/-- the legs of the plain result that correspond to the group: a valid group whose smallest member
    is the place of the group's smallest axis among the free legs -/
theorem bondPos_map_idxOf {C : Arr R} (h : OneOk X g) (hdisj : ∀ x ∈ g, x ∉ xa)
    (hC : (freeAxes X.ndim xa).length ≤ C.ndim) :
    ∃ _ : OneOk C (g.map (fun x => (freeAxes X.ndim xa).idxOf x)),
      (FuseP.giM C [g.map (fun x => (freeAxes X.ndim xa).idxOf x)]).position
        = (freeAxes X.ndim xa).idxOf (FuseP.giM X [g]).position := by
  have hmem : ∀ x ∈ g, x ∈ freeAxes X.ndim xa := fun x hx => mem_freeAxes.mpr ⟨h.lt x hx, hdisj x hx⟩
  have h' : OneOk C (g.map (fun x => (freeAxes X.ndim xa).idxOf x)) := by
    refine ⟨by simpa using h.ne, ?_, ?_⟩
    · exact h.nd.map_on (fun x hx y hy e => idxOf_inj_of_mem (hmem x hx) (hmem y hy) e)
    · intro i hi
      obtain ⟨x, hx, rfl⟩ := List.mem_map.mp hi
      exact Nat.lt_of_lt_of_le (List.idxOf_lt_length_of_mem (hmem x hx)) hC
  refine ⟨h', ?_⟩
  have m1 := one_pos_mem h'
  have m2 := one_pos_le h'
  have hpg := one_pos_mem h
  obtain ⟨y, hy, e⟩ := List.mem_map.mp m1
  have hle : (FuseP.giM X [g]).position ≤ y := one_pos_le h y hy
  have a1 : (FuseP.giM C [g.map (fun x => (freeAxes X.ndim xa).idxOf x)]).position
      ≤ (freeAxes X.ndim xa).idxOf (FuseP.giM X [g]).position :=
    m2 _ (List.mem_map.mpr ⟨_, hpg, rfl⟩)
  have a2 : (freeAxes X.ndim xa).idxOf (FuseP.giM X [g]).position
      ≤ (FuseP.giM C [g.map (fun x => (freeAxes X.ndim xa).idxOf x)]).position := by
    rw [← e]
    rcases Nat.lt_or_eq_of_le hle with hlt | heq
    · exact Nat.le_of_lt (idxOf_lt_of_lt (freeAxes_pairwise _ _) (hmem _ hpg) (hmem y hy) hlt)
    · rw [heq]
  omega

/-- **the two address layouts coincide outside the fused leg.** -/
theorem layout_left {α : Type} (d : α) (h : OneOk X g) (hxaF : ∀ x ∈ xa, x < X.ndim ∧ x ∉ g)
    {V' V : List α} (Rs : List α) (hV' : V'.length = FuseP.ndimM X [g]) (hV : V.length = X.ndim)
    (hf : permuted V' (freeAxes (FuseP.ndimM X [g]) [(FuseP.giM X [g]).position])
      = permuted V (freeAxes X.ndim g)) :
    permuted (permuted V' (freeAxes (FuseP.ndimM X [g]) (xa.map (shiftAxes X g))) ++ Rs)
        (freeAxes ((freeAxes (FuseP.ndimM X [g]) (xa.map (shiftAxes X g))).length + Rs.length)
          [(freeAxes (FuseP.ndimM X [g]) (xa.map (shiftAxes X g))).idxOf (FuseP.giM X [g]).position])
      = permuted (permuted V (freeAxes X.ndim xa) ++ Rs)
          (freeAxes ((freeAxes X.ndim xa).length + Rs.length)
            (g.map (fun x => (freeAxes X.ndim xa).idxOf x))) := by
  have hpg := one_pos_mem h
  have hmem : ∀ x ∈ g, x ∈ freeAxes X.ndim xa :=
    fun x hx => mem_freeAxes.mpr ⟨h.lt x hx, fun hm => (hxaF x hm).2 hx⟩
  have m2 : (FuseP.giM X [g]).position ∈ freeAxes (FuseP.ndimM X [g]) (xa.map (shiftAxes X g)) := by
    refine mem_freeAxes.mpr ⟨one_pos_lt_ndimM h, ?_⟩
    intro hm
    obtain ⟨x, hx, e⟩ := List.mem_map.mp hm
    exact shiftAxes_ne_pos h (hxaF x hx) e
  have hFFlt : ∀ i ∈ freeAxes (FuseP.ndimM X [g]) (xa.map (shiftAxes X g)), i < V'.length := by
    intro i hi; rw [hV']; exact (mem_freeAxes.mp hi).1
  have hFAlt : ∀ i ∈ freeAxes X.ndim xa, i < V.length := by
    intro i hi; rw [hV]; exact (mem_freeAxes.mp hi).1
  have lU' := permuted_length V' _ hFFlt
  have lU := permuted_length V _ hFAlt
  have q1 : ∀ i ∈ ([(freeAxes (FuseP.ndimM X [g]) (xa.map (shiftAxes X g))).idxOf (FuseP.giM X [g]).position]
      : List Nat), i < (freeAxes (FuseP.ndimM X [g]) (xa.map (shiftAxes X g))).length := by
    intro i hi
    simp only [List.mem_cons, List.not_mem_nil, or_false] at hi
    rw [hi]; exact List.idxOf_lt_length_of_mem m2
  have q2 : ∀ i ∈ g.map (fun x => (freeAxes X.ndim xa).idxOf x), i < (freeAxes X.ndim xa).length := by
    intro i hi
    obtain ⟨x, hx, rfl⟩ := List.mem_map.mp hi
    exact List.idxOf_lt_length_of_mem (hmem x hx)
  rw [freeAxes_low _ _ _ q1, freeAxes_low _ _ _ q2]
  have e1 := permuted_append_low_id (permuted V' (freeAxes (FuseP.ndimM X [g]) (xa.map (shiftAxes X g)))) Rs
    (freeAxes (freeAxes (FuseP.ndimM X [g]) (xa.map (shiftAxes X g))).length
      [(freeAxes (FuseP.ndimM X [g]) (xa.map (shiftAxes X g))).idxOf (FuseP.giM X [g]).position])
    (by intro i hi; rw [lU']; exact (mem_freeAxes.mp hi).1)
  have e2 := permuted_append_low_id (permuted V (freeAxes X.ndim xa)) Rs
    (freeAxes (freeAxes X.ndim xa).length (g.map (fun x => (freeAxes X.ndim xa).idxOf x)))
    (by intro i hi; rw [lU]; exact (mem_freeAxes.mp hi).1)
  rw [lU'] at e1
  rw [lU] at e2
  rw [e1, e2]
  congr 1
  rw [← permuted_permuted_ax V' _ _ hFFlt, ← permuted_permuted_ax V _ _ hFAlt]
  have s1 := permuted_complement (freeAxes_pairwise (FuseP.ndimM X [g]) (xa.map (shiftAxes X g)))
    [(FuseP.giM X [g]).position] (by
      intro y hy
      simp only [List.mem_cons, List.not_mem_nil, or_false] at hy
      rw [hy]; exact m2)
  have s2 := permuted_complement (freeAxes_pairwise X.ndim xa) g hmem
  simp only [List.map_cons, List.map_nil] at s1
  rw [s1, s2, ← free_shift_image h hxaF]
  apply permuted_shift h d hV' hV hf
  intro x hx
  simp only [List.mem_filter, mem_freeAxes, Bool.not_eq_eq_eq_not, Bool.not_true, List.contains_eq_mem,
    decide_eq_false_iff_not] at hx
  exact ⟨hx.1.1, hx.2⟩

/-- the entry on the fused leg of the result address is the entry on the fused leg of the operand -/
theorem layout_left_pos {α : Type} (d : α) (h : OneOk X g) (hxaF : ∀ x ∈ xa, x < X.ndim ∧ x ∉ g)
    {V' : List α} (Rs : List α) (hV' : V'.length = FuseP.ndimM X [g]) :
    (permuted V' (freeAxes (FuseP.ndimM X [g]) (xa.map (shiftAxes X g))) ++ Rs).getD
        ((freeAxes (FuseP.ndimM X [g]) (xa.map (shiftAxes X g))).idxOf (FuseP.giM X [g]).position) d
      = V'.getD (FuseP.giM X [g]).position d := by
  have m2 : (FuseP.giM X [g]).position ∈ freeAxes (FuseP.ndimM X [g]) (xa.map (shiftAxes X g)) := by
    refine mem_freeAxes.mpr ⟨one_pos_lt_ndimM h, ?_⟩
    intro hm
    obtain ⟨x, hx, e⟩ := List.mem_map.mp hm
    exact shiftAxes_ne_pos h (hxaF x hx) e
  have hFFlt : ∀ i ∈ freeAxes (FuseP.ndimM X [g]) (xa.map (shiftAxes X g)), i < V'.length := by
    intro i hi; rw [hV']; exact (mem_freeAxes.mp hi).1
  have hi := List.idxOf_lt_length_of_mem m2
  rw [List.getD_eq_getElem?_getD, List.getElem?_append_left (by rw [permuted_length _ _ hFFlt]; exact hi),
    permuted_getElem? V' _ hFFlt, List.getElem?_eq_getElem hi, List.getElem_idxOf hi,
    List.getD_eq_getElem?_getD]
  rfl

end Layout

end TdotP
end SymmModel
