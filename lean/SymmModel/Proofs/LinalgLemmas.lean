/-
  SymmModel.Proofs.LinalgLemmas — helper lemmas for properties C11 / C12 about
  `Model/Linalg.lean` (`qrA`, `svdA`, `applyCounts`, `eighA`, `solveA`).
  Nothing here changes a model definition.
-/
import SymmModel.Model.Linalg
import SymmModel.Model.Valid
import SymmModel.Proofs.SymLemmas
import Mathlib.Data.List.Nodup
import Mathlib.Data.List.Perm.Basic

namespace SymmModel
namespace LinalgLemmas

/-! ## A. association lists -/
section Assoc
variable {κ β γ : Type} [BEq κ] [LawfulBEq κ]

omit [LawfulBEq κ] in
theorem alookup_cons (k : κ) (v : β) (l : List (κ × β)) (k0 : κ) :
    alookup ((k, v) :: l) k0 = if k == k0 then some v else alookup l k0 := rfl

theorem alookup_eq_none_iff (l : List (κ × β)) (k : κ) :
    alookup l k = none ↔ k ∉ l.map (·.1) := by
  induction l with
  | nil => simp [alookup]
  | cons p l ih =>
    obtain ⟨k1, v1⟩ := p
    rw [alookup_cons]
    by_cases h : k1 = k
    · subst h; simp
    · have : (k1 == k) = false := by simp [h]
      simp only [this, Bool.false_eq_true, if_false, ih, List.map_cons, List.mem_cons, not_or]
      exact ⟨fun h' => ⟨fun e => h e.symm, h'⟩, fun h' => h'.2⟩

theorem alookup_some_mem {l : List (κ × β)} {k : κ} {v : β} (h : alookup l k = some v) :
    (k, v) ∈ l := by
  induction l with
  | nil => simp [alookup] at h
  | cons p l ih =>
    obtain ⟨k1, v1⟩ := p
    rw [alookup_cons] at h
    by_cases hk : k1 = k
    · subst hk; simp at h; subst h; simp
    · have : (k1 == k) = false := by simp [hk]
      simp only [this, Bool.false_eq_true, if_false] at h
      exact List.mem_cons_of_mem _ (ih h)

theorem alookup_of_mem_nodup {l : List (κ × β)} (hnd : (l.map (·.1)).Nodup) {k : κ} {v : β}
    (h : (k, v) ∈ l) : alookup l k = some v := by
  induction l with
  | nil => simp at h
  | cons p l ih =>
    obtain ⟨k1, v1⟩ := p
    simp only [List.map_cons, List.nodup_cons] at hnd
    rw [alookup_cons]
    rcases List.mem_cons.mp h with e | h'
    · cases e; simp
    · have hk : k1 ≠ k := by
        intro e; subst e
        exact hnd.1 (List.mem_map.mpr ⟨(k1, v), h', rfl⟩)
      have : (k1 == k) = false := by simp [hk]
      simp only [this, Bool.false_eq_true, if_false]
      exact ih hnd.2 h'

theorem alookup_isSome_iff (l : List (κ × β)) (k : κ) :
    (alookup l k).isSome = true ↔ k ∈ l.map (·.1) := by
  rw [← not_iff_not, ← alookup_eq_none_iff]
  cases alookup l k <;> simp

theorem ainsert_of_not_mem (l : List (κ × β)) (k : κ) (v : β) (h : k ∉ l.map (·.1)) :
    ainsert l k v = l ++ [(k, v)] := by
  induction l with
  | nil => rfl
  | cons p l ih =>
    obtain ⟨k1, v1⟩ := p
    simp only [List.map_cons, List.mem_cons, not_or] at h
    have : (k1 == k) = false := by simp; exact fun e => h.1 e.symm
    simp only [ainsert, this, Bool.false_eq_true, if_false, List.cons_append, ih h.2]

theorem foldl_ainsert_of_nodup (ps acc : List (κ × β))
    (hnd : ((acc ++ ps).map (·.1)).Nodup) :
    ps.foldl (fun acc p => ainsert acc p.1 p.2) acc = acc ++ ps := by
  induction ps generalizing acc with
  | nil => simp
  | cons p ps ih =>
    have hp : p.1 ∉ acc.map (·.1) := by
      simp only [List.map_append, List.map_cons] at hnd
      have := (List.nodup_append.mp hnd).2.2
      intro hmem
      exact this _ hmem _ (List.mem_cons_self) rfl
    simp only [List.foldl_cons]
    rw [ainsert_of_not_mem acc p.1 p.2 hp, ih (acc ++ [(p.1, p.2)]) (by simpa using hnd)]
    simp

/-- Python `dict(pairs)` of pairs with distinct keys is the list of pairs itself -/
theorem adict_of_nodup (ps : List (κ × β)) (hnd : (ps.map (·.1)).Nodup) : adict ps = ps := by
  unfold adict
  rw [foldl_ainsert_of_nodup ps [] (by simpa using hnd)]
  simp

theorem allDistinct_iff_nodup {α : Type} [BEq α] [LawfulBEq α] (l : List α) :
    allDistinct l = true ↔ l.Nodup := by
  induction l with
  | nil => simp [allDistinct]
  | cons a l ih =>
    simp only [allDistinct, Bool.and_eq_true, Bool.not_eq_true', List.nodup_cons, ih]
    rw [← Bool.not_eq_true, List.contains_iff_mem]

theorem alookup_perm {l l' : List (κ × β)} (hp : l.Perm l') (hnd : (l.map (·.1)).Nodup) (k : κ) :
    alookup l k = alookup l' k := by
  have hnd' : (l'.map (·.1)).Nodup := (hp.map _).nodup_iff.mp hnd
  cases h : alookup l k with
  | none =>
    have := (alookup_eq_none_iff l k).mp h
    have h2 : k ∉ l'.map (·.1) := fun hm => this ((hp.map _).mem_iff.mpr hm)
    exact ((alookup_eq_none_iff l' k).mpr h2).symm
  | some v =>
    exact (alookup_of_mem_nodup hnd' (hp.mem_iff.mp (alookup_some_mem h))).symm

end Assoc


/-! ## B. sorted charge maps -/
section SortCm

theorem Charge.lt_trans {a b c : Charge} (h1 : Charge.lt a b = true) (h2 : Charge.lt b c = true) :
    Charge.lt a c = true := by
  obtain ⟨a1, a2⟩ := a; obtain ⟨b1, b2⟩ := b; obtain ⟨c1, c2⟩ := c
  simp only [Charge.lt, Bool.or_eq_true, Bool.and_eq_true, decide_eq_true_eq, beq_iff_eq] at *
  omega

theorem Charge.lt_of_not_lt {a b : Charge} (h1 : Charge.lt b a = false) (h2 : a ≠ b) :
    Charge.lt a b = true := by
  obtain ⟨a1, a2⟩ := a; obtain ⟨b1, b2⟩ := b
  have : ¬ (a1 = b1 ∧ a2 = b2) := fun h => h2 (by rw [h.1, h.2])
  simp only [Charge.lt, Bool.or_eq_true, Bool.and_eq_true, decide_eq_true_eq, beq_iff_eq,
    Bool.or_eq_false_iff, Bool.and_eq_false_iff, decide_eq_false_iff_not, beq_eq_false_iff_ne] at *
  omega

theorem Charge.lt_irrefl (a : Charge) : Charge.lt a a = false := by
  obtain ⟨a1, a2⟩ := a
  simp [Charge.lt]

theorem insertSorted_perm {α : Type} (lt : α → α → Bool) (a : α) (l : List α) :
    (insertSorted lt a l).Perm (a :: l) := by
  induction l with
  | nil => exact List.Perm.refl _
  | cons b bs ih =>
    simp only [insertSorted]
    split
    · exact ((List.Perm.cons b ih).trans (List.Perm.swap a b bs))
    · exact List.Perm.refl _

theorem isort_perm {α : Type} (lt : α → α → Bool) (l : List α) : (isort lt l).Perm l := by
  induction l with
  | nil => exact List.Perm.refl _
  | cons a as ih => exact (insertSorted_perm lt a _).trans (List.Perm.cons a ih)

theorem sortCm_perm (cm : List (Charge × Nat)) : (Index.sortCm cm).Perm cm := isort_perm _ cm

/-- strictly increasing keys -/
def StrictCm (cm : List (Charge × Nat)) : Prop :=
  cm.Pairwise (fun a b => Charge.lt a.1 b.1 = true)

theorem insertSorted_strict (a : Charge × Nat) (l : List (Charge × Nat)) (hl : StrictCm l)
    (ha : a.1 ∉ l.map (·.1)) :
    StrictCm (insertSorted (fun a b => Charge.lt a.1 b.1) a l) := by
  induction l with
  | nil => simp [insertSorted, StrictCm]
  | cons b bs ih =>
    simp only [List.map_cons, List.mem_cons, not_or] at ha
    have hb := List.pairwise_cons.mp hl
    simp only [insertSorted]
    split
    next hlt =>
      refine List.pairwise_cons.mpr ⟨?_, ih hb.2 ha.2⟩
      intro x hx
      rcases List.mem_cons.mp ((insertSorted_perm _ a bs).mem_iff.mp hx) with rfl | hx
      · exact hlt
      · exact hb.1 x hx
    next hlt =>
      have hab : Charge.lt a.1 b.1 = true :=
        Charge.lt_of_not_lt (by simpa using hlt) ha.1
      refine List.pairwise_cons.mpr ⟨?_, hl⟩
      intro x hx
      rcases List.mem_cons.mp hx with rfl | hx
      · exact hab
      · exact Charge.lt_trans hab (hb.1 x hx)

theorem sortCm_strict (cm : List (Charge × Nat)) (hnd : (cm.map (·.1)).Nodup) :
    StrictCm (Index.sortCm cm) := by
  induction cm with
  | nil => simp [Index.sortCm, isort, StrictCm]
  | cons a as ih =>
    simp only [List.map_cons, List.nodup_cons] at hnd
    refine insertSorted_strict a _ (ih hnd.2) ?_
    intro hm
    exact hnd.1 (((sortCm_perm as).map _).mem_iff.mp hm)

theorem isSortedStrict_of_pairwise (l : List Charge) (h : l.Pairwise (fun a b => Charge.lt a b = true)) :
    isSortedStrict Charge.lt l = true := by
  induction l with
  | nil => rfl
  | cons a l ih =>
    cases l with
    | nil => rfl
    | cons b rest =>
      have h' := List.pairwise_cons.mp h
      simp only [isSortedStrict, Bool.and_eq_true]
      exact ⟨h'.1 b (by simp), ih h'.2⟩

theorem pairwise_of_isSortedStrict (l : List Charge) (h : isSortedStrict Charge.lt l = true) :
    l.Pairwise (fun a b => Charge.lt a b = true) := by
  induction l with
  | nil => exact List.Pairwise.nil
  | cons a l ih =>
    cases l with
    | nil => simp
    | cons b rest =>
      simp only [isSortedStrict, Bool.and_eq_true] at h
      have ih' := ih h.2
      refine List.pairwise_cons.mpr ⟨?_, ih'⟩
      intro x hx
      rcases List.mem_cons.mp hx with rfl | hx
      · exact h.1
      · exact Charge.lt_trans h.1 ((List.pairwise_cons.mp ih').1 x hx)

theorem nodup_of_isSortedStrict (l : List Charge) (h : isSortedStrict Charge.lt l = true) :
    l.Nodup := by
  refine (pairwise_of_isSortedStrict l h).imp ?_
  intro a b hab e
  subst e
  rw [Charge.lt_irrefl] at hab
  exact Bool.false_ne_true hab

theorem sortCm_sorted (cm : List (Charge × Nat)) (hnd : (cm.map (·.1)).Nodup) :
    isSortedStrict Charge.lt ((Index.sortCm cm).map (·.1)) = true := by
  apply isSortedStrict_of_pairwise
  rw [List.pairwise_map]
  exact sortCm_strict cm hnd

theorem alookup_sortCm (cm : List (Charge × Nat)) (hnd : (cm.map (·.1)).Nodup) (c : Charge) :
    alookup (Index.sortCm cm) c = alookup cm c :=
  (alookup_perm (sortCm_perm cm).symm hnd c).symm

theorem sortCm_keys_nodup (cm : List (Charge × Nat)) (hnd : (cm.map (·.1)).Nodup) :
    ((Index.sortCm cm).map (·.1)).Nodup :=
  ((sortCm_perm cm).map _).nodup_iff.mpr hnd

end SortCm

/-! ## C. index well-formedness -/
section IndexWf

theorem wfB_cm {sym : Sym} {i : Index} (h : i.wfB sym = true) :
    isSortedStrict Charge.lt (i.cm.map (·.1)) = true
    ∧ ∀ c d, (c, d) ∈ i.cm → 0 < d ∧ sym.valid c = true := by
  obtain ⟨cm, d, sub⟩ := i
  cases sub with
  | none =>
    simp only [Index.wfB, Bool.and_eq_true, List.all_eq_true, decide_eq_true_eq] at h
    exact ⟨h.1.1, fun c d hm => h.1.2 (c, d) hm⟩
  | some p =>
    obtain ⟨subs, e⟩ := p
    simp only [Index.wfB, Bool.and_eq_true, List.all_eq_true, decide_eq_true_eq] at h
    exact ⟨h.1.1, fun c d hm => h.1.2 (c, d) hm⟩

theorem wfB_plain {sym : Sym} (cm : List (Charge × Nat)) (d : Bool)
    (h1 : isSortedStrict Charge.lt (cm.map (·.1)) = true)
    (h2 : ∀ c n, (c, n) ∈ cm → 0 < n ∧ sym.valid c = true) :
    (Index.mk cm d none).wfB sym = true := by
  simp only [Index.wfB, Bool.and_eq_true, Bool.and_true, List.all_eq_true, decide_eq_true_eq]
  exact ⟨h1, fun p hp => h2 p.1 p.2 hp⟩

theorem wfB_keys_nodup {sym : Sym} {i : Index} (h : i.wfB sym = true) :
    (i.cm.map (·.1)).Nodup := nodup_of_isSortedStrict _ (wfB_cm h).1

theorem wfListB_pair {sym : Sym} (i j : Index) :
    Index.wfListB sym [i, j] = true ↔ i.wfB sym = true ∧ j.wfB sym = true := by
  simp only [Index.wfListB, Bool.and_eq_true, Bool.and_true]

theorem wfListB_single {sym : Sym} (i : Index) :
    Index.wfListB sym [i] = true ↔ i.wfB sym = true := by
  simp only [Index.wfListB, Bool.and_true]

@[simp] theorem cm_mk (c d s) : (Index.mk c d s).cm = c := rfl
@[simp] theorem dual_mk (c d s) : (Index.mk c d s).dual = d := rfl

theorem conj_dual (i : Index) : i.conj.dual = !i.dual := by
  obtain ⟨c, d, s⟩ := i
  cases s with
  | none => simp only [Index.conj, Index.dual]
  | some p => obtain ⟨subs, e⟩ := p; simp only [Index.conj, Index.dual]

theorem conj_cm (i : Index) : i.conj.cm = i.cm := by
  obtain ⟨c, d, s⟩ := i
  cases s with
  | none => simp only [Index.conj, Index.cm]
  | some p => obtain ⟨subs, e⟩ := p; simp only [Index.conj, Index.cm]

theorem conjList_eq_map (l : List Index) : Index.conjList l = l.map Index.conj := by
  induction l with
  | nil => simp only [Index.conjList, List.map_nil]
  | cons i is ih => simp only [Index.conjList, List.map_cons, ih]

theorem blockShape?_conjList (subs : List Index) (ss : Sector) :
    Arr.blockShape? (Index.conjList subs) ss = Arr.blockShape? subs ss := by
  unfold Arr.blockShape?
  rw [conjList_eq_map, List.length_map]
  congr 2
  rw [List.zipWith_map_left]
  congr 1
  funext ix c
  simp only [Index.sizeOf?, conj_cm]

theorem extentOk_conjList (sym : Sym) (d : Bool) (subs : List Index) (c : Charge) (n : Nat)
    (ext : Extent) :
    extentOk sym (!d) (Index.conjList subs) c n ext = extentOk sym d subs c n ext := by
  unfold extentOk
  congr 2
  funext p
  obtain ⟨ss, sz⟩ := p
  simp only [blockShape?_conjList]
  rw [conjList_eq_map, List.length_map, List.zipWith_map_right]
  congr 4
  funext c' sub
  rw [conj_dual]
  cases d <;> cases sub.dual <;> rfl

mutual
  theorem conj_wfB (sym : Sym) : (i : Index) → i.wfB sym = true → i.conj.wfB sym = true
    | .mk c d none, h => by
      simpa only [Index.conj, Index.wfB] using h
    | .mk c d (some (subs, ext)), h => by
      simp only [Index.conj, Index.wfB, Bool.and_eq_true] at h ⊢
      obtain ⟨⟨hs, hc⟩, ⟨⟨hsub, hd⟩, hall⟩, hex⟩ := h
      refine ⟨⟨hs, hc⟩, ⟨⟨conjList_wfB sym subs hsub, hd⟩, ?_⟩, hex⟩
      rw [List.all_eq_true] at hall ⊢
      intro p hp
      have := hall p hp
      obtain ⟨c', n⟩ := p
      simp only at this ⊢
      split
      next ext' he =>
        rw [he] at this
        simpa only [extentOk_conjList] using this
      next he => rw [he] at this; exact this
  theorem conjList_wfB (sym : Sym) : (l : List Index) → Index.wfListB sym l = true →
      Index.wfListB sym (Index.conjList l) = true
    | [], _ => by simp only [Index.conjList, Index.wfListB]
    | i :: is, h => by
      simp only [Index.conjList, Index.wfListB, Bool.and_eq_true] at h ⊢
      exact ⟨conj_wfB sym i h.1, conjList_wfB sym is h.2⟩
end

end IndexWf

/-! ## D. validity of arrays, matrices -/
section ValidMat
variable {R : Type}

/-- the fermionic clause of `validB` -/
def fermiOk (a : Arr R) : Bool :=
  if a.fermi then
    allDistinct (a.phases.map (·.1))
    && a.phases.all (fun (s, p) => s.length == a.ndim && a.isValidSector s && (p == 1 || p == -1))
    && (a.oddpos.length % 2 == 1) == a.parity
  else a.phases.isEmpty && a.oddpos.isEmpty

theorem validB_iff (a : Arr R) :
    a.validB = true ↔
      Index.wfListB a.sym a.indices = true ∧ a.sym.valid a.charge = true ∧ a.sectors.Nodup ∧
      (∀ s b, (s, b) ∈ a.blocks → s.length = a.ndim ∧ a.isValidSector s = true
          ∧ Arr.blockShape? a.indices s = some b.shape ∧ b.wf = true) ∧
      fermiOk a = true := by
  unfold Arr.validB fermiOk
  simp only [Bool.and_eq_true, allDistinct_iff_nodup, List.all_eq_true, beq_iff_eq]
  constructor
  · rintro ⟨⟨⟨⟨h1, h2⟩, h3⟩, h4⟩, h5⟩
    exact ⟨h1, h2, h3, fun s b hm => by
      have := h4 (s, b) hm
      exact ⟨this.1.1.1, this.1.1.2, this.1.2, this.2⟩, h5⟩
  · rintro ⟨h1, h2, h3, h4, h5⟩
    exact ⟨⟨⟨⟨h1, h2⟩, h3⟩, fun p hm => by
      obtain ⟨s, b⟩ := p
      have := h4 s b hm
      exact ⟨⟨⟨this.1, this.2.1⟩, this.2.2.1⟩, this.2.2.2⟩⟩, h5⟩

theorem blockShape?_pair (i0 i1 : Index) (r c : Charge) (shp : List Nat) :
    Arr.blockShape? [i0, i1] [r, c] = some shp ↔
      ∃ m n, alookup i0.cm r = some m ∧ alookup i1.cm c = some n ∧ shp = [m, n] := by
  simp only [Arr.blockShape?, List.length_cons, List.length_nil, bne_self_eq_false,
    Bool.false_eq_true, if_false, List.zipWith_cons_cons, List.zipWith_nil_left, Index.sizeOf?]
  cases h0 : alookup i0.cm r <;> cases h1 : alookup i1.cm c <;>
    simp [List.mapM_cons, List.mapM_nil, eq_comm]

theorem blockShape?_single (i0 : Index) (c : Charge) (shp : List Nat) :
    Arr.blockShape? [i0] [c] = some shp ↔ ∃ n, alookup i0.cm c = some n ∧ shp = [n] := by
  simp only [Arr.blockShape?, List.length_cons, List.length_nil, bne_self_eq_false,
    Bool.false_eq_true, if_false, List.zipWith_cons_cons, List.zipWith_nil_left, Index.sizeOf?]
  cases h0 : alookup i0.cm c <;> simp [List.mapM_cons, List.mapM_nil, eq_comm]

theorem length_two {α : Type} {l : List α} (h : l.length = 2) : ∃ a b, l = [a, b] := by
  match l, h with
  | [a, b], _ => exact ⟨a, b, rfl⟩

theorem length_one {α : Type} {l : List α} (h : l.length = 1) : ∃ a, l = [a] := by
  match l, h with
  | [a], _ => exact ⟨a, rfl⟩

/-- group cancellation on the column charge -/
theorem cancel_col (s : Sym) (d0 d1 : Bool) (r c c' : Charge)
    (hc : s.valid c = true) (hc' : s.valid c' = true)
    (h : s.combine [s.sign r d0, s.sign c d1] = s.combine [s.sign r d0, s.sign c' d1]) : c = c' := by
  obtain ⟨r1, r2⟩ := r; obtain ⟨c1, c2⟩ := c; obtain ⟨e1, e2⟩ := c'
  cases s <;> cases d0 <;> cases d1 <;> sym_arith

/-- group cancellation on the row charge -/
theorem cancel_row (s : Sym) (d0 d1 : Bool) (r r' c : Charge)
    (hr : s.valid r = true) (hr' : s.valid r' = true)
    (h : s.combine [s.sign r d0, s.sign c d1] = s.combine [s.sign r' d0, s.sign c d1]) : r = r' := by
  obtain ⟨r1, r2⟩ := r; obtain ⟨c1, c2⟩ := c; obtain ⟨e1, e2⟩ := r'
  cases s <;> cases d0 <;> cases d1 <;> sym_arith

/-- everything `validB` says about one stored block `(s, b)` of a matrix with indices `[i0, i1]` -/
structure MatBlock (a : Arr R) (i0 i1 : Index) (s : Sector) (b : Blk R)
    (r c : Charge) (m n : Nat) : Prop where
  hs : s = [r, c]
  hr : alookup i0.cm r = some m
  hc : alookup i1.cm c = some n
  hshape : b.shape = [m, n]
  hwf : b.wf = true
  hm : 0 < m
  hn : 0 < n
  vr : a.sym.valid r = true
  vc : a.sym.valid c = true
  hcharge : a.sym.combine [a.sym.sign r i0.dual, a.sym.sign c i1.dual] = a.charge

theorem ndim_two {a : Arr R} (h : a.ndim = 2) : ∃ i0 i1, a.indices = [i0, i1] := length_two h

theorem mat_block {a : Arr R} (hv : a.validB = true) {i0 i1 : Index} (hi : a.indices = [i0, i1])
    {s : Sector} {b : Blk R} (hmem : (s, b) ∈ a.blocks) :
    ∃ r c m n, MatBlock a i0 i1 s b r c m n := by
  obtain ⟨hwf, _, _, hb, _⟩ := (validB_iff a).mp hv
  obtain ⟨hlen, hvs, hshp, hbwf⟩ := hb s b hmem
  rw [hi, wfListB_pair] at hwf
  have hnd : a.ndim = 2 := by simp [Arr.ndim, hi]
  rw [hnd] at hlen
  obtain ⟨r, c, rfl⟩ := length_two hlen
  rw [hi] at hshp
  obtain ⟨m, n, h0, h1, hs⟩ := (blockShape?_pair i0 i1 r c b.shape).mp hshp
  have m0 := (wfB_cm hwf.1).2 r m (alookup_some_mem h0)
  have m1 := (wfB_cm hwf.2).2 c n (alookup_some_mem h1)
  refine ⟨r, c, m, n, rfl, h0, h1, hs, hbwf, m0.1, m1.1, m0.2, m1.2, ?_⟩
  simpa [Arr.isValidSector, Arr.sectorCharge, Arr.duals, hi] using hvs

/-- C12.1: in a valid matrix the row charge of a stored sector determines its column charge
    and vice versa -/
theorem sector_inj {a : Arr R} (hv : a.validB = true) (h2 : a.ndim = 2)
    {s s' : Sector} (hs : s ∈ a.sectors) (hs' : s' ∈ a.sectors) :
    (s.getD 0 (0, 0) = s'.getD 0 (0, 0) → s = s') ∧ (s.getD 1 (0, 0) = s'.getD 1 (0, 0) → s = s') := by
  obtain ⟨i0, i1, hi⟩ := ndim_two h2
  obtain ⟨⟨_, b⟩, hm, rfl⟩ := List.mem_map.mp hs
  obtain ⟨⟨_, b'⟩, hm', rfl⟩ := List.mem_map.mp hs'
  obtain ⟨r, c, m, n, B⟩ := mat_block hv hi hm
  obtain ⟨r', c', m', n', B'⟩ := mat_block hv hi hm'
  have e1 := B.hs; have e2 := B'.hs
  subst e1 e2
  simp only [List.getD_cons_zero, List.getD_cons_succ]
  constructor
  · intro e; subst e
    rw [cancel_col a.sym i0.dual i1.dual r c c' B.vc B'.vc (B.hcharge.trans B'.hcharge.symm)]
  · intro e; subst e
    rw [cancel_row a.sym i0.dual i1.dual r r' c B.vr B'.vr (B.hcharge.trans B'.hcharge.symm)]

theorem sectors_nodup {a : Arr R} (hv : a.validB = true) : a.sectors.Nodup :=
  ((validB_iff a).mp hv).2.2.1

theorem nodup_map_of_inj {α β : Type} (l : List α) (f : α → β) (hnd : l.Nodup)
    (hinj : ∀ x ∈ l, ∀ y ∈ l, f x = f y → x = y) : (l.map f).Nodup := by
  induction l with
  | nil => simp
  | cons a l ih =>
    rw [List.nodup_cons] at hnd
    rw [List.map_cons, List.nodup_cons]
    refine ⟨?_, ih hnd.2 (fun x hx y hy => hinj x (List.mem_cons_of_mem _ hx) y (List.mem_cons_of_mem _ hy))⟩
    intro hm
    obtain ⟨y, hy, e⟩ := List.mem_map.mp hm
    have := hinj y (List.mem_cons_of_mem _ hy) a List.mem_cons_self e
    subst this
    exact hnd.1 hy

/-- the column charges of the stored sectors of a valid matrix are pairwise distinct -/
theorem colCharges_nodup {a : Arr R} (hv : a.validB = true) (h2 : a.ndim = 2) :
    (a.sectors.map (fun s => s.getD 1 (0, 0))).Nodup :=
  nodup_map_of_inj _ _ (sectors_nodup hv) (fun _ hx _ hy e => (sector_inj hv h2 hx hy).2 e)

theorem rowCharges_nodup {a : Arr R} (hv : a.validB = true) (h2 : a.ndim = 2) :
    (a.sectors.map (fun s => s.getD 0 (0, 0))).Nodup :=
  nodup_map_of_inj _ _ (sectors_nodup hv) (fun _ hx _ hy e => (sector_inj hv h2 hx hy).1 e)

end ValidMat

/-! ## E. blocks -/
section BlkLemmas
variable {R : Type}

theorem flatMap_range_length {α : Type} (f : Nat → List α) (L d : Nat)
    (h : ∀ k, (f k).length = L) : ((List.range d).flatMap f).length = d * L := by
  induction d with
  | zero => simp
  | succ d ih =>
    rw [List.range_succ, List.flatMap_append, List.length_append, ih]
    simp [h, Nat.succ_mul]

theorem allIdx_length (s : List Nat) : (allIdx s).length = prod s := by
  induction s with
  | nil => rfl
  | cons d ds ih =>
    simp only [allIdx, prod]
    rw [flatMap_range_length _ (prod ds) d (fun k => by simp [ih])]

theorem range_mul_flatMap (d P : Nat) :
    (List.range d).flatMap (fun k => (List.range P).map (fun j => k * P + j)) = List.range (d * P) := by
  induction d with
  | zero => simp
  | succ d ih =>
    rw [List.range_succ, List.flatMap_append, ih, Nat.succ_mul, List.range_add]
    simp

theorem allIdx_map_ravel (s : List Nat) : (allIdx s).map (ravel s) = List.range (prod s) := by
  induction s with
  | nil => rfl
  | cons d ds ih =>
    simp only [allIdx, prod, List.map_flatMap, List.map_map]
    rw [← range_mul_flatMap]
    congr 1
    funext k
    rw [← ih, List.map_map]
    rfl

theorem mem_allIdx {s i : List Nat} (h : inBox s i = true) : i ∈ allIdx s := by
  induction s generalizing i with
  | nil =>
    cases i with
    | nil => simp [allIdx]
    | cons _ _ => simp [inBox] at h
  | cons d ds ih =>
    cases i with
    | nil => simp [inBox] at h
    | cons k r =>
      simp only [inBox, Bool.and_eq_true, decide_eq_true_eq] at h
      simp only [allIdx, List.mem_flatMap, List.mem_range, List.mem_map]
      exact ⟨k, h.1, r, ih h.2, rfl⟩

theorem allIdx_getElem?_ravel {s i : List Nat} (h : inBox s i = true) :
    (allIdx s)[ravel s i]? = some i := by
  obtain ⟨p, hp, e⟩ := List.getElem_of_mem (mem_allIdx h)
  have hr : ((allIdx s).map (ravel s))[p]? = (List.range (prod s))[p]? := by
    rw [allIdx_map_ravel]
  rw [allIdx_length] at hp
  rw [List.getElem?_map, List.getElem?_range hp, List.getElem?_eq_getElem (by rw [allIdx_length]; exact hp),
    Option.map_some, e] at hr
  have := Option.some.inj hr
  rw [this, List.getElem?_eq_getElem (by rw [allIdx_length]; exact hp), e]

@[simp] theorem ofFn_shape (s : List Nat) (f : List Nat → R) : (Blk.ofFn s f).shape = s := rfl

theorem ofFn_wf (s : List Nat) (f : List Nat → R) : (Blk.ofFn s f).wf = true := by
  simp [Blk.wf, Blk.ofFn, allIdx_length]

theorem ofFn_get [Zero R] (s : List Nat) (f : List Nat → R) {i : List Nat} (h : inBox s i = true) :
    (Blk.ofFn s f).get i = f i := by
  simp only [Blk.get, Blk.ofFn, Array.getD_eq_getD_getElem?, List.getElem?_toArray, List.getElem?_map,
    allIdx_getElem?_ravel h, Option.map_some, Option.getD_some]

theorem zeros_wf [Zero R] (s : List Nat) : (Blk.zeros s : Blk R).wf = true := ofFn_wf s _

@[simp] theorem zeros_shape [Zero R] (s : List Nat) : (Blk.zeros s : Blk R).shape = s := rfl

@[simp] theorem sliceK_shape [Zero R] (b : Blk R) (st ln : List Nat) : (b.sliceK st ln).shape = ln := rfl

theorem sliceK_wf [Zero R] (b : Blk R) (st ln : List Nat) : (b.sliceK st ln).wf = true := ofFn_wf _ _

@[simp] theorem negK_shape [Neg R] (b : Blk R) : b.negK.shape = b.shape := rfl

theorem negK_wf [Neg R] (b : Blk R) : b.negK.wf = b.wf := by
  simp [Blk.wf, Blk.negK, Blk.map]

theorem negK_get [Zero R] [Neg R] (hneg : -(0 : R) = 0) (b : Blk R) (i : List Nat) :
    b.negK.get i = - b.get i := by
  simp only [Blk.get, Blk.negK, Blk.map, Array.getD_eq_getD_getElem?, Array.getElem?_map]
  cases b.data[ravel b.shape i]? <;> simp [hneg]

theorem inBox_pair (m n i j : Nat) : inBox [m, n] [i, j] = true ↔ i < m ∧ j < n := by
  simp [inBox]

theorem inBox_single (m i : Nat) : inBox [m] [i] = true ↔ i < m := by
  simp [inBox]

end BlkLemmas

/-! ## F. pending signs -/
section Phases
variable {R : Type}

theorem phaseFlip_fields (a : Arr R) (axs : List Nat) :
    (a.phaseFlip axs).sym = a.sym ∧ (a.phaseFlip axs).fermi = a.fermi
    ∧ (a.phaseFlip axs).indices = a.indices ∧ (a.phaseFlip axs).charge = a.charge
    ∧ (a.phaseFlip axs).blocks = a.blocks ∧ (a.phaseFlip axs).oddpos = a.oddpos := by
  unfold Arr.phaseFlip
  split <;> exact ⟨rfl, rfl, rfl, rfl, rfl, rfl⟩

theorem flip_fold_nil (odd : Sector → Bool) (ss : List Sector) (acc : List (Sector × Int))
    (hnd : (acc.map (·.1) ++ ss).Nodup) :
    ss.foldl (fun ph s =>
      if odd s then
        let np := - (alookup ph s).getD 1
        if np == 1 then aerase ph s else ainsert ph s np
      else ph) acc = acc ++ (ss.filter odd).map (fun s => (s, (-1 : Int))) := by
  induction ss generalizing acc with
  | nil => simp
  | cons s ss ih =>
    have hs : s ∉ acc.map (·.1) := by
      intro hm
      exact (List.nodup_append.mp hnd).2.2 _ hm _ List.mem_cons_self rfl
    simp only [List.foldl_cons]
    by_cases ho : odd s = true
    · have hl : alookup acc s = none := (alookup_eq_none_iff acc s).mpr hs
      simp only [ho, if_true, hl, Option.getD_none]
      have : ((-1 : Int) == 1) = false := by decide
      simp only [this, Bool.false_eq_true, if_false]
      rw [ainsert_of_not_mem acc s (-1) hs, ih _ (by simpa using hnd)]
      simp [ho]
    · simp only [ho, Bool.false_eq_true, if_false]
      rw [ih acc (by
        have := hnd
        rw [List.nodup_append] at this ⊢
        exact ⟨this.1, (List.nodup_cons.mp this.2.1).2,
          fun a ha b hb => this.2.2 a ha b (List.mem_cons_of_mem _ hb)⟩)]
      simp [ho]

/-- `phase_flip(0)` on an array without pending signs records `-1` exactly on the stored
    sectors whose first charge is odd -/
theorem phaseFlip0_phases (a : Arr R) (hp : a.phases = []) (hnd : a.sectors.Nodup) :
    (a.phaseFlip [0]).phases
      = (a.sectors.filter (fun s => a.sym.parity (s.getD 0 (0, 0)))).map (fun s => (s, (-1 : Int))) := by
  unfold Arr.phaseFlip
  simp only [List.isEmpty_cons, Bool.false_eq_true, if_false, hp]
  have h := flip_fold_nil (fun s => a.sym.parity (s.getD 0 (0, 0))) a.sectors [] (by simpa using hnd)
  simp only [List.nil_append] at h
  rw [← h]
  congr 1
  funext ph s
  simp only [List.filter_cons, List.filter_nil]
  cases a.sym.parity (s.getD 0 (0, 0)) <;> simp

theorem phaseSync_sectors [Neg R] (a : Arr R) : a.phaseSync.sectors = a.sectors := by
  simp only [Arr.phaseSync, Arr.sectors, List.map_map]
  apply List.map_congr_left
  intro p _
  obtain ⟨s, b⟩ := p
  simp only [Function.comp]
  split <;> rfl

theorem phaseSync_mem [Neg R] {a : Arr R} {s : Sector} {b' : Blk R}
    (h : (s, b') ∈ a.phaseSync.blocks) :
    ∃ b, (s, b) ∈ a.blocks ∧ (b' = b ∨ b' = b.negK) := by
  simp only [Arr.phaseSync, List.mem_map] at h
  obtain ⟨⟨s0, b0⟩, hm, e⟩ := h
  simp only at e
  split at e
  · have e1 := (Prod.mk.inj e).1; have e2 := (Prod.mk.inj e).2
    subst e1 e2; exact ⟨b0, hm, Or.inr rfl⟩
  · have e1 := (Prod.mk.inj e).1; have e2 := (Prod.mk.inj e).2
    subst e1 e2; exact ⟨b0, hm, Or.inl rfl⟩

theorem phaseSync_valid [Neg R] (a : Arr R) (hv : a.validB = true) : a.phaseSync.validB = true := by
  obtain ⟨h1, h2, h3, h4, h5⟩ := (validB_iff a).mp hv
  refine (validB_iff _).mpr ⟨h1, h2, by rw [phaseSync_sectors]; exact h3, ?_, ?_⟩
  · intro s b' hm
    obtain ⟨b, hb, hor⟩ := phaseSync_mem hm
    obtain ⟨g1, g2, g3, g4⟩ := h4 s b hb
    rcases hor with rfl | rfl
    · exact ⟨g1, g2, g3, g4⟩
    · exact ⟨g1, g2, g3, by rw [negK_wf]; exact g4⟩
  · unfold fermiOk at h5 ⊢
    by_cases hf : a.fermi = true
    · have hf' : a.phaseSync.fermi = true := hf
      rw [if_pos hf] at h5
      rw [if_pos hf']
      simp only [Bool.and_eq_true] at h5
      simp only [Arr.phaseSync, List.map_nil, allDistinct, List.all_nil, Bool.true_and]
      exact h5.2
    · have hf' : ¬ a.phaseSync.fermi = true := hf
      rw [if_neg hf] at h5
      rw [if_neg hf']
      simp only [Bool.and_eq_true] at h5
      simp only [Arr.phaseSync, List.isEmpty_nil, Bool.true_and]
      exact h5.2

end Phases

end LinalgLemmas
end SymmModel
