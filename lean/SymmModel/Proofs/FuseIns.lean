/-
  SymmModel.Proofs.FuseIns — the accumulation loops of `_fuse_blocks_via_insert` and `unfuse`
  in abstract form: a fold of "look up or create a zero block, write a slice into it".
-/
import SymmModel.Proofs.FuseAddr
namespace SymmModel
namespace FuseP
set_option linter.unusedSectionVars false

variable {R : Type} [Zero R]

/-- an item to insert: (key of the target block, start of the region, source block) -/
abbrev Item (R : Type) := Sector × List Nat × Blk R

/-- one iteration of `_fuse_blocks_via_insert` -/
def insStep (shapeOf : Sector → List Nat) (acc : List (Sector × Blk R)) (it : Item R) :
    List (Sector × Blk R) :=
  ainsert acc it.1 (((alookup acc it.1).getD (Blk.zeros (shapeOf it.1))).setSliceK it.2.1 it.2.2)

/-- two items never write the same position of the same block -/
def Disj (shapeOf : Sector → List Nat) (x y : Item R) : Prop :=
  x.1 = y.1 → ∀ i, inBox (shapeOf x.1) i = true →
    inRegion x.2.1 x.2.2.shape i = true → inRegion y.2.1 y.2.2.shape i = true → False

structure InsInv (shapeOf : Sector → List Nat) (done : List (Item R)) (acc : List (Sector × Blk R)) :
    Prop where
  keys : ∀ k, k ∈ acc.map (·.1) ↔ k ∈ done.map (·.1)
  nodup : (acc.map (·.1)).Nodup
  shape : ∀ k B, alookup acc k = some B → B.shape = shapeOf k
  hit : ∀ k B, alookup acc k = some B → ∀ it ∈ done, it.1 = k → ∀ i, inBox (shapeOf k) i = true →
    inRegion it.2.1 it.2.2.shape i = true → B.get i = it.2.2.get (List.zipWith (· - ·) i it.2.1)
  miss : ∀ k B, alookup acc k = some B → ∀ i, inBox (shapeOf k) i = true →
    (∀ it ∈ done, it.1 = k → inRegion it.2.1 it.2.2.shape i = false) → B.get i = 0

theorem insInv_nil (shapeOf : Sector → List Nat) : InsInv (R := R) shapeOf [] [] :=
  ⟨by simp, by simp, by simp [alookup], by simp [alookup], by simp [alookup]⟩

theorem insInv_step {shapeOf : Sector → List Nat} {done : List (Item R)} {acc : List (Sector × Blk R)}
    (hinv : InsInv shapeOf done acc) (it : Item R) (hd : ∀ x ∈ done, Disj shapeOf x it) :
    InsInv shapeOf (done ++ [it]) (insStep shapeOf acc it) := by
  obtain ⟨k0, st, src⟩ := it
  -- the target block before writing
  have hT : ∀ T, T = (alookup acc k0).getD (Blk.zeros (shapeOf k0)) → T.shape = shapeOf k0 := by
    intro T hT
    cases hl : alookup acc k0 with
    | none => rw [hT, hl]; rfl
    | some B => rw [hT, hl]; exact hinv.shape k0 B hl
  refine ⟨?_, ?_, ?_, ?_, ?_⟩
  · intro k
    simp only [insStep, mem_keys_ainsert, hinv.keys k, List.map_append, List.mem_append, List.map_cons,
      List.map_nil, List.mem_singleton]
  · exact ainsert_keys_nodup _ _ hinv.nodup
  · intro k B hB
    simp only [insStep, alookup_ainsert] at hB
    split at hB
    · rename_i hk; have := eq_of_beq hk; subst this
      simp only [Option.some.injEq] at hB; subst hB
      rw [setSliceK_shape]; exact hT _ rfl
    · exact hinv.shape k B hB
  · intro k B hB it' hit' hk' i hi hreg
    simp only [insStep, alookup_ainsert] at hB
    split at hB
    · rename_i hk; have := eq_of_beq hk; subst this
      simp only [Option.some.injEq] at hB; subst hB
      rw [setSliceK_get _ _ _ (by rw [hT _ rfl]; exact hi)]
      rcases List.mem_append.1 hit' with hm | hm
      · -- an earlier item: the new write does not touch `i`
        have hdis : inRegion st src.shape i = false := by
          cases hr : inRegion st src.shape i
          · rfl
          · exact absurd hr (fun hr => hd it' hm hk' i (by rw [hk']; exact hi) hreg hr)
        simp only [hdis, Bool.false_eq_true, if_false]
        have hsome : (alookup acc k0).isSome = true := by
          rw [alookup_isSome_iff, hinv.keys]; exact List.mem_map.2 ⟨it', hm, hk'⟩
        cases hl : alookup acc k0 with
        | none => rw [hl] at hsome; cases hsome
        | some B0 =>
          simp only [Option.getD_some]
          exact hinv.hit k0 B0 hl it' hm hk' i hi hreg
      · simp only [List.mem_singleton] at hm; subst hm
        simp only [hreg, if_true]
    · rename_i hk
      rcases List.mem_append.1 hit' with hm | hm
      · exact hinv.hit k B hB it' hm hk' i hi hreg
      · simp only [List.mem_singleton] at hm; subst hm
        simp only at hk'; subst hk'; simp at hk
  · intro k B hB i hi hno
    simp only [insStep, alookup_ainsert] at hB
    split at hB
    · rename_i hk; have := eq_of_beq hk; subst this
      simp only [Option.some.injEq] at hB; subst hB
      rw [setSliceK_get _ _ _ (by rw [hT _ rfl]; exact hi)]
      have hdis : inRegion st src.shape i = false := hno (k0, st, src) (by simp) rfl
      simp only [hdis, Bool.false_eq_true, if_false]
      cases hl : alookup acc k0 with
      | none => simp only [Option.getD_none]; exact zeros_get _ _
      | some B0 =>
        simp only [Option.getD_some]
        exact hinv.miss k0 B0 hl i hi (fun it' hm hk' => hno it' (List.mem_append_left _ hm) hk')
    · exact hinv.miss k B hB i hi (fun it' hm hk' => hno it' (List.mem_append_left _ hm) hk')

theorem insInv_foldl {shapeOf : Sector → List Nat} {done : List (Item R)} {acc : List (Sector × Blk R)}
    (hinv : InsInv shapeOf done acc) (items : List (Item R))
    (hd : (done ++ items).Pairwise (Disj shapeOf)) :
    InsInv shapeOf (done ++ items) (items.foldl (insStep shapeOf) acc) := by
  induction items generalizing done acc with
  | nil => simpa using hinv
  | cons it items ih =>
    have h1 : ∀ x ∈ done, Disj shapeOf x it := by
      intro x hx
      rw [List.pairwise_append] at hd
      exact hd.2.2 x hx it (by simp)
    have := ih (insInv_step hinv it h1) (by simpa using hd)
    simpa using this

/-- the blocks produced by inserting `items` one after the other into an empty dictionary -/
def insFold (shapeOf : Sector → List Nat) (items : List (Item R)) : List (Sector × Blk R) :=
  items.foldl (insStep shapeOf) []

theorem insFold_inv (shapeOf : Sector → List Nat) (items : List (Item R)) (hd : items.Pairwise (Disj shapeOf)) :
    InsInv shapeOf items (insFold shapeOf items) := by
  have := insInv_foldl (insInv_nil shapeOf) items (by simpa using hd)
  simpa [insFold] using this

/-! ### `foldlM` in `Except` when every step succeeds -/

theorem foldlM_ok {ε α β : Type} (f : β → α → Except ε β) (g : β → α → β) (l : List α) (init : β)
    (h : ∀ acc, ∀ x ∈ l, f acc x = .ok (g acc x)) : l.foldlM f init = .ok (l.foldl g init) := by
  induction l generalizing init with
  | nil => rfl
  | cons x xs ih =>
    rw [List.foldlM_cons, h init x (by simp)]
    exact ih _ (fun acc y hy => h acc y (List.mem_cons_of_mem _ hy))

theorem foldl_ainsertAll_flatMap {κ α β : Type} [BEq κ] (l : List α) (f : α → List (κ × β))
    (acc : List (κ × β)) :
    l.foldl (fun m x => (f x).foldl (fun m p => ainsert m p.1 p.2) m) acc
      = (l.flatMap f).foldl (fun m p => ainsert m p.1 p.2) acc := by
  induction l generalizing acc with
  | nil => rfl
  | cons x xs ih => simp [List.flatMap_cons, List.foldl_append, ih]

/-- lookup in `adict` when all values inserted under the key agree -/
theorem alookup_adict_unique {κ β : Type} [BEq κ] [LawfulBEq κ] {l : List (κ × β)} {k : κ} {v : β}
    (hm : (k, v) ∈ l) (hu : ∀ v', (k, v') ∈ l → v' = v) : alookup (adict l) k = some v := by
  have hk : k ∈ (adict l).map (·.1) := mem_keys_adict.2 (List.mem_map.2 ⟨_, hm, rfl⟩)
  cases hl : alookup (adict l) k with
  | none => rw [alookup_eq_none_iff] at hl; exact absurd hk hl
  | some v' => rw [hu v' (mem_adict (alookup_some_mem hl))]

end FuseP
end SymmModel
