/-
  SymmModel.Proofs.Dense4a — the dense form of a fused array, complete (property C08, fourth part):
  every position of the fused dense box either holds `0` or is the image — through the fused
  indices' own tables — of a position of a stored sector of the original, with the same entry.
  Together with `Dense3.fuse_dense_stored_main` (every stored position has such an image) this
  determines the dense form of the fused array.

  New names live in `SymmModel.Dense4`.
-/
import SymmModel.Proofs.Dense3d

namespace SymmModel
namespace Dense4
open FuseP DenseP Dense3

variable {R : Type}

/-! ## un-permuting a list -/

/-- the list `m` with `permuted m perm = l` (for a permutation `perm` of `0 … n-1`) -/
def unperm {α : Type} (perm : List Nat) (n : Nat) (d : α) (l : List α) : List α :=
  (List.range n).map (fun ax => l.getD ((indexOf? perm ax).getD 0) d)

theorem length_unperm {α : Type} (perm : List Nat) (n : Nat) (d : α) (l : List α) :
    (unperm perm n d l).length = n := by simp [unperm]

theorem permuted_unperm {α : Type} {perm : List Nat} {n : Nat} (hnd : perm.Nodup)
    (hpl : perm.length = n) (hlt : ∀ p ∈ perm, p < n) (d : α) (l : List α) (hl : l.length = n) :
    permuted (unperm perm n d l) perm = l := by
  rw [permuted_eq_map _ d _ (by simpa [unperm] using hlt)]
  apply List.ext_getElem (by simp [hpl, hl])
  intro t h1 h2
  simp only [List.length_map] at h1
  simp only [List.getElem_map, unperm]
  rw [getD_range_map _ _ _ _ (hlt _ (List.getElem_mem h1)), indexOf?_getElem_nodup hnd h1]
  simp [List.getD_eq_getElem?_getD, List.getElem?_eq_getElem h2]

/-- a multi-index whose permuted image lies in the permuted box lies in the box -/
theorem inBox_of_permuted {perm shp offs : List Nat} {n : Nat} (hlt : ∀ p ∈ perm, p < n)
    (hcover : ∀ ax, ax < n → ax ∈ perm) (hs : shp.length = n) (ho : offs.length = n)
    (h : inBox (permuted shp perm) (permuted offs perm) = true) : inBox shp offs = true := by
  rw [inBox_iff]
  refine ⟨by rw [hs, ho], fun ax hax => ?_⟩
  rw [hs] at hax
  obtain ⟨t, _, ht2⟩ := FuseP.indexOf?_of_mem (hcover ax hax)
  have htl := getElem?_lt ht2
  have hb := (inBox_iff.1 h).2 t (by rw [permuted_length _ _ (by rw [hs]; exact hlt)]; exact htl)
  rw [permuted_eq_map shp 0 perm (by rw [hs]; exact hlt),
    permuted_eq_map offs 0 perm (by rw [ho]; exact hlt)] at hb
  simpa [List.getD_eq_getElem?_getD, List.getElem?_map, ht2] using hb

/-! ## the fused dense array, position by position -/

section Multi
variable {a : Arr R} {groups : List (List Nat)} [Zero R]

/-- lengths of the segments `splitAddr` produces inside a stored fused block -/
theorem seg_lengths (hv : ValidArr a) (hok : GroupsOk groups a.ndim) {ns : Sector} {B : Blk R}
    (hB : alookup (fusedBlocksM a groups) ns = some B) {i : List Nat} (hi : inBox B.shape i = true)
    (g : Nat) (hg : g < groups.length) :
    (segM a groups ns i g).1.length = (groups.getD g []).length
    ∧ (segM a groups ns i g).2.length = (groups.getD g []).length := by
  have hgg : groups[g]? = some groups[g] := List.getElem?_eq_getElem hg
  have hgd : groups.getD g [] = groups[g] := by simp [List.getD_eq_getElem?_getD, hgg]
  by_cases hm : multiB groups g = true
  · obtain ⟨gaxes, hgg', hlen⟩ := multiB_iff.1 hm
    have hge : groups[g] = gaxes := by rw [hgg] at hgg'; exact Option.some.inj hgg'
    have hsp := (fused_getM hv hok hB hi).1 g hg hm
    rcases hse : segM a groups ns i g with ⟨ss, so⟩
    rw [hse] at hsp
    obtain ⟨_, subs, exts, shp, hsub, hbs, hbox, _⟩ :=
      joinAddr_splitAddr (ixM_wf hv hok hgg' hlen) hsp
    rw [ixM_sub hok hgg' hlen] at hsub
    simp only [Option.some.injEq, Prod.mk.injEq] at hsub
    obtain ⟨rfl, _⟩ := hsub
    have hl := FuseP.blockShape?_length hbs
    simp only [List.length_map] at hl
    rw [hgd, hge]
    exact ⟨hl.1.symm, by rw [inBox_length hbox, hl.2, ← hl.1]⟩
  · have hm' : multiB groups g = false := by simpa using hm
    have hlen : groups[g].length = 1 := by
      by_contra hne; exact hm (multiB_iff.2 ⟨_, hgg, hne⟩)
    rw [hgd, hlen]
    simp [segM, hm']

theorem expand_lengths (hv : ValidArr a) (hok : GroupsOk groups a.ndim) {ns : Sector} {B : Blk R}
    (hB : alookup (fusedBlocksM a groups) ns = some B) {i : List Nat} (hi : inBox B.shape i = true)
    (hnl : ns.length = ndimM a groups) (hil : i.length = ndimM a groups) :
    (expandK a groups ns i).length = a.ndim ∧ (expandJ a groups ns i).length = a.ndim := by
  have hperm := perm_length (hokD (a := a) hok)
  rw [perm_eq, axesBefore_eq (hokD hok), duals_length] at hperm
  simp only [List.length_append, List.length_range] at hperm
  have hgr : (List.range groups.length).map (fun g => groups.getD g []) = groups :=
    (map_eq_range_map groups [] id).symm.trans (by simp)
  have h1 := flatten_map_length_eq (List.range groups.length)
    (fun g => (segM a groups ns i g).1) (fun g => groups.getD g [])
    (fun g hg => (seg_lengths hv hok hB hi g (List.mem_range.1 hg)).1)
  have h2 := flatten_map_length_eq (List.range groups.length)
    (fun g => (segM a groups ns i g).2) (fun g => groups.getD g [])
    (fun g hg => (seg_lengths hv hok hB hi g (List.mem_range.1 hg)).2)
  rw [hgr] at h1 h2
  constructor
  · rw [expandK_parts ns i hnl]
    simp only [List.length_append, List.length_map, List.length_range]
    rw [h1]; omega
  · rw [expandJ_parts ns i hil]
    simp only [List.length_append, List.length_map, List.length_range]
    rw [h2]; omega

end Multi

/-- **every non-zero entry of the fused dense array comes from a stored position.**  For every
    position `P` of the fused dense box with address `(ns, i)`: the entry is `0`, or there are a
    position `p` of a stored sector of the original, with address `(s, offs)`, and per-group
    segments `segs` read from the fused indices' own tables (`splitAddr` on a multi-axis group,
    the charge and offset themselves on a single-axis group) such that expanding `(ns, i)` by the
    segments gives `(permuted s perm, permuted offs perm)`, and the two entries are equal. -/
theorem fuse_dense_back_main [Zero R] [Neg R] (a : Arr R) (groups : List (List Nat))
    (hv : a.validB = true) (hg : groupsOkB groups a.ndim = true) (hnf : a.fermi = false)
    (hne : a.indices.any (fun ix => ix.cm.isEmpty) = false)
    (x : Arr R) (hx : fuseCore a groups .insert = .ok x)
    (hnex : x.indices.any (fun ix => ix.cm.isEmpty) = false)
    (dA dX : Blk R) (hdA : Arr.toDenseA a = .ok dA) (hdX : Arr.toDenseA x = .ok dX) :
    let gi := calcFuseGroupInfo groups a.duals
    ∀ P, inBox x.shape P = true → ∀ ns i, Arr.locateAll x.indices P = some (ns, i) →
      dX.get P = 0 ∨
      ∃ p s offs, ∃ segs : List (Sector × List Nat), inBox a.shape p = true
        ∧ Arr.locateAll a.indices p = some (s, offs) ∧ s ∈ a.sectors ∧ ns ∈ x.sectors
        ∧ segs.length = groups.length
        ∧ (∀ g gaxes, groups[g]? = some gaxes →
            (gaxes.length = 1 →
              segs[g]? = some ([ns.getD (gi.position + g) (0, 0)], [i.getD (gi.position + g) 0]))
            ∧ (gaxes.length ≠ 1 →
                splitAddr (x.indices.getD (gi.position + g) default) (ns.getD (gi.position + g) (0, 0))
                  (i.getD (gi.position + g) 0) = segs[g]?))
        ∧ permuted s gi.perm = ns.take gi.position ++ (segs.map (·.1)).flatten
            ++ ns.drop (gi.position + groups.length)
        ∧ permuted offs gi.perm = i.take gi.position ++ (segs.map (·.2)).flatten
            ++ i.drop (gi.position + groups.length)
        ∧ dX.get P = dA.get p := by
  intro gi P hP ns i hlP
  have hva := validArr_of_validB hv
  have hok := groupsOk_iff.1 hg
  have hx' := fuseCore_multi_eq hva hok
  rw [hx] at hx'
  injection hx' with hx'
  subst hx'
  have hadm : ValidP.fuseAdmissibleB groups a.ndim = true := by
    simp only [groupsOkB, Bool.and_eq_true] at hg
    simp only [ValidP.fuseAdmissibleB, Bool.and_eq_true]
    exact ⟨hg.2, hg.1.2⟩
  have hxv : (fusedArrM a groups).validB = true :=
    ValidP.fuseCore_insert_validB a _ groups hv hnf hadm hx
  obtain ⟨hshx, _, _, _, _, hphx⟩ := validB_facts _ hxv
  obtain ⟨hsha, hnda, _, _, _, hpha⟩ := validB_facts a hv
  have hpa : a.phases = [] := hpha hnf
  have hpx : (fusedArrM a groups).phases = [] := hphx hnf
  obtain ⟨dA', hdA', _, hgA⟩ := Arr.toDenseA_get a hne
  rw [hdA] at hdA'; injection hdA' with hdA'; subst hdA'
  obtain ⟨dX', hdX', _, hgX⟩ := Arr.toDenseA_get (fusedArrM a groups) hnex
  rw [hdX] at hdX'; injection hdX' with hdX'; subst hdX'
  obtain ⟨sec', off', hl', hvX⟩ := hgX P hP
  rw [hlP] at hl'
  simp only [Option.some.injEq, Prod.mk.injEq] at hl'
  obtain ⟨rfl, rfl⟩ := hl'
  rw [hvX, Arr.elem_abelian _ hpx]
  cases hB : alookup (fusedArrM a groups).blocks ns with
  | none => exact Or.inl rfl
  | some B =>
    have hB' : alookup (fusedBlocksM a groups) ns = some B := hB
    have hi : inBox B.shape i = true := hshx.inBox hP hlP hB
    have hPl : P.length = (fusedArrM a groups).indices.length := by
      simpa [Arr.shape] using inBox_length hP
    obtain ⟨hnl0, hil0⟩ := Arr.locateAll_length hlP hPl
    have hxl : (fusedArrM a groups).indices.length = ndimM a groups := newIdxM_length hok
    have hnl : ns.length = ndimM a groups := by rw [hnl0, hxl]
    have hil : i.length = ndimM a groups := by rw [hil0, hxl]
    obtain ⟨hKl, hJl⟩ := expand_lengths hva hok hB' hi hnl hil
    -- the un-permuted address
    have hpnd := perm_nodup (hokD (a := a) hok)
    have hpl : (giM a groups).perm.length = a.ndim := by
      rw [perm_length (hokD hok), duals_length]
    have hplt : ∀ q ∈ (giM a groups).perm, q < a.ndim := by
      intro q hq; rw [← duals_length]; exact (mem_perm (hokD hok)).1 hq
    have hcover : ∀ ax, ax < a.ndim → ax ∈ (giM a groups).perm := by
      intro ax hax; exact (mem_perm (hokD hok)).2 (by rw [duals_length]; exact hax)
    let s := unperm (giM a groups).perm a.ndim ((0, 0) : Charge) (expandK a groups ns i)
    let offs := unperm (giM a groups).perm a.ndim (0 : Nat) (expandJ a groups ns i)
    have hsl : s.length = a.ndim := length_unperm _ _ _ _
    have hol : offs.length = a.ndim := length_unperm _ _ _ _
    have hK : permuted s (giM a groups).perm = expandK a groups ns i :=
      permuted_unperm hpnd hpl hplt _ _ hKl
    have hJ : permuted offs (giM a groups).perm = expandJ a groups ns i :=
      permuted_unperm hpnd hpl hplt _ _ hJl
    obtain ⟨hs1, hget⟩ := fused_getM hva hok hB' hi
    obtain ⟨hval, hbox⟩ := hget s offs hsl hol hK hJ
    cases hb : alookup a.blocks s with
    | none =>
      left
      rw [hb] at hval
      exact hval
    | some b =>
      right
      rw [hb] at hval
      have hbs := hsha.2 s b hb
      have hbl : b.shape.length = a.ndim := by
        simpa [Arr.ndim] using Arr.blockShape?_shape_length hbs
      have ho : inBox b.shape offs = true :=
        inBox_of_permuted hplt hcover hbl hol (hbox b hb)
      obtain ⟨p, hp, hlp⟩ := locateAll_surj hsha.1 hbs ho
      have hp' : inBox a.shape p = true := hp
      obtain ⟨sec'', off'', hl'', hvA⟩ := hgA p hp'
      rw [hlp] at hl''
      simp only [Option.some.injEq, Prod.mk.injEq] at hl''
      obtain ⟨rfl, rfl⟩ := hl''
      refine ⟨p, s, offs, (List.range groups.length).map (segM a groups ns i), hp', hlp, ?_, ?_,
        by simp, ?_, ?_, ?_, ?_⟩
      · rw [Arr.sectors, ← alookup_isSome_iff, hb]; rfl
      · rw [Arr.sectors, ← alookup_isSome_iff, hB]; rfl
      · intro g gaxes hgg
        have hgl := getElem?_lt hgg
        have hseg : ((List.range groups.length).map (segM a groups ns i))[g]?
            = some (segM a groups ns i g) := by
          simp [List.getElem?_map, List.getElem?_range hgl]
        constructor
        · intro hlen
          have hm : multiB groups g = false := by simp [multiB, hgg, hlen]
          rw [hseg]; simp only [segM, hm, Bool.false_eq_true, if_false]; rfl
        · intro hlen
          have hm : multiB groups g = true := multiB_iff.2 ⟨_, hgg, hlen⟩
          rw [hseg]
          exact hs1 g hgl hm
      · rw [hK]; simp only [expandK, List.map_map]; rfl
      · rw [hJ]; simp only [expandJ, List.map_map]; rfl
      · rw [hvA, Arr.elem_abelian a hpa, hb]
        exact hval

end Dense4
end SymmModel
