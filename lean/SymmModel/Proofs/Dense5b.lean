/-
  SymmModel.Proofs.Dense5b — single-operand einsum with traced labels at dense level, part 1:
  the assembly of an operand index / sector / offset list from the output part and the traced
  part (`asm`), its inverse on the stored sectors, and the assembly of addresses (`Located`).

  New names live in `SymmModel.Dense5`.
-/
import SymmModel.Proofs.Dense5a
import SymmModel.Proofs.TdotMore
import SymmModel.Proofs.Dense4c

namespace SymmModel
namespace Dense5
open TdotP DenseP

variable {R : Type}

/-- the operand list assembled from the output list `i` and the traced list `t`
    (`einIdx` for an arbitrary element type) -/
def asm {α : Type} (d : α) (lhs rhs : List Nat) (i t : List α) : List α :=
  lhs.map (fun q =>
    match indexOf? rhs q with
    | some j => i.getD j d
    | none => match indexOf? (einTraced lhs rhs) q with
              | some j => t.getD j d
              | none => d)

theorem einIdx_eq_asm (lhs rhs : List Nat) (i t : List Nat) : einIdx lhs rhs i t = asm 0 lhs rhs i t := rfl

@[simp] theorem length_asm {α : Type} (d : α) (lhs rhs : List Nat) (i t : List α) :
    (asm d lhs rhs i t).length = lhs.length := by simp [asm]

/-- first position of a label -/
def fpos (lhs : List Nat) (lab : Nat) : Nat := (indexOf? lhs lab).getD 0

/-- the hypotheses on an einsum equation `lhs -> rhs`: output labels distinct, each occurring
    exactly once on the left; every other label of `lhs` is traced -/
structure EqOk (lhs rhs : List Nat) : Prop where
  rnd : rhs.Nodup
  rsub : ∀ q ∈ rhs, q ∈ lhs
  once : ∀ (k : Nat) (hk : k < lhs.length), lhs[k] ∈ rhs → indexOf? lhs lhs[k] = some k

theorem indexOf?_eq_none_of_not_mem {l : List Nat} {a : Nat} (h : a ∉ l) : indexOf? l a = none := by
  induction l with
  | nil => rfl
  | cons x xs ih =>
    simp only [List.mem_cons, not_or] at h
    simp only [indexOf?]
    have : (x == a) = false := by simpa using fun e => h.1 e.symm
    simp [this, ih h.2]

theorem indexOf?_spec {l : List Nat} {a k : Nat} (h : indexOf? l a = some k) : l[k]? = some a := by
  induction l generalizing k with
  | nil => simp [indexOf?] at h
  | cons x xs ih =>
    simp only [indexOf?] at h
    by_cases hx : x == a
    · simp only [hx, if_true, Option.some.injEq] at h
      subst h; simp [eq_of_beq hx]
    · simp only [hx, Bool.false_eq_true, if_false] at h
      cases hr : indexOf? xs a with
      | none => simp [hr] at h
      | some j =>
        simp only [hr, Option.map_some, Option.some.injEq] at h
        subst h
        simpa using ih hr

theorem mem_einTraced {lhs rhs : List Nat} {q : Nat} : q ∈ einTraced lhs rhs ↔ q ∈ lhs ∧ q ∉ rhs := by
  simp [einTraced, List.mem_eraseDups, List.mem_filter]

theorem einTraced_nodup (lhs rhs : List Nat) : (einTraced lhs rhs).Nodup := by
  unfold einTraced; exact nodup_eraseDups _

/-- the entry of the assembled list at a kept axis -/
theorem asm_kept {α : Type} (d : α) {lhs rhs : List Nat} (i t : List α) {k j : Nat}
    (hk : k < lhs.length) (hj : indexOf? rhs lhs[k] = some j) :
    (asm d lhs rhs i t)[k]? = some (i.getD j d) := by
  simp [asm, List.getElem?_map, List.getElem?_eq_getElem hk, hj]

/-- the entry of the assembled list at a traced axis -/
theorem asm_traced {α : Type} (d : α) {lhs rhs : List Nat} (i t : List α) {k j : Nat}
    (hk : k < lhs.length) (hr : lhs[k] ∉ rhs) (hj : indexOf? (einTraced lhs rhs) lhs[k] = some j) :
    (asm d lhs rhs i t)[k]? = some (t.getD j d) := by
  simp [asm, List.getElem?_map, List.getElem?_eq_getElem hk, indexOf?_eq_none_of_not_mem hr, hj]

/-- every axis is kept or traced -/
theorem axis_cases {lhs rhs : List Nat} {k : Nat} (hk : k < lhs.length) :
    (∃ j, indexOf? rhs lhs[k] = some j ∧ rhs[j]? = some lhs[k])
    ∨ (lhs[k] ∉ rhs ∧ ∃ j, indexOf? (einTraced lhs rhs) lhs[k] = some j
        ∧ (einTraced lhs rhs)[j]? = some lhs[k]) := by
  by_cases h : lhs[k] ∈ rhs
  · left
    obtain ⟨j, h1, h2⟩ := FuseP.indexOf?_of_mem h
    exact ⟨j, h1, h2⟩
  · right
    refine ⟨h, ?_⟩
    obtain ⟨j, h1, h2⟩ := FuseP.indexOf?_of_mem (mem_einTraced.mpr ⟨List.getElem_mem hk, h⟩)
    exact ⟨j, h1, h2⟩

/-- the output permutation read through `getElem?` -/
theorem einPermOf_getElem? {lhs rhs : List Nat} {j : Nat} {lab : Nat} (h : rhs[j]? = some lab) :
    (Dense4.einPermOf lhs rhs)[j]? = some (fpos lhs lab) := by
  simp [Dense4.einPermOf, List.getElem?_map, h, fpos]

/-- permuting the assembled list by the output permutation gives the output list back -/
theorem permuted_asm {α : Type} (d : α) {lhs rhs : List Nat} (hok : EqOk lhs rhs) (i t : List α)
    (hi : i.length = rhs.length) :
    permuted (asm d lhs rhs i t) (Dense4.einPermOf lhs rhs) = i := by
  have hlt := Dense4.einPermOf_lt hok.rsub
  apply List.ext_getElem?
  intro j
  rw [getElem?_permuted _ _ (by simpa using hlt)]
  by_cases hj : j < rhs.length
  · have hr : rhs[j]? = some rhs[j] := List.getElem?_eq_getElem hj
    rw [einPermOf_getElem? hr]
    simp only [Option.bind_some]
    obtain ⟨k, hk1, hk2⟩ := FuseP.indexOf?_of_mem (hok.rsub _ (List.getElem_mem hj))
    have hkl := FuseP.getElem?_lt hk2
    have hkk : lhs[k] = rhs[j] := by
      rw [List.getElem?_eq_getElem hkl] at hk2; exact Option.some.inj hk2
    have hjj : indexOf? rhs lhs[k] = some j := by
      rw [hkk]; exact FuseP.indexOf?_getElem_nodup hok.rnd hj
    simp only [fpos, hk1, Option.getD_some]
    rw [asm_kept d i t hkl hjj]
    simp [List.getD_eq_getElem?_getD, List.getElem?_eq_getElem (by rw [hi]; exact hj : j < i.length)]
  · rw [List.getElem?_eq_none (by simp [Dense4.einPermOf]; omega)]
    rw [List.getElem?_eq_none (by omega)]
    rfl

/-! ## assembling addresses -/

/-- the index of every traced label (the index at its first position) -/
def tracedIdx (a : Arr R) (lhs rhs : List Nat) : List Index :=
  (einTraced lhs rhs).map (fun lab => a.indices.getD (fpos lhs lab) default)

/-- axes carrying the same label have the same (sorted) charge table -/
def TabOk (a : Arr R) (lhs : List Nat) : Prop :=
  ∀ (k k' : Nat) (hk : k < lhs.length) (hk' : k' < lhs.length), lhs[k] = lhs[k'] →
    Index.sortCm (a.indices.getD k default).cm = Index.sortCm (a.indices.getD k' default).cm

theorem fpos_spec {lhs : List Nat} {lab : Nat} (h : lab ∈ lhs) :
    ∃ hk : fpos lhs lab < lhs.length, lhs[fpos lhs lab] = lab := by
  obtain ⟨k, h1, h2⟩ := FuseP.indexOf?_of_mem h
  have hkl := FuseP.getElem?_lt h2
  refine ⟨by simp [fpos, h1, hkl], ?_⟩
  simp only [fpos, h1, Option.getD_some]
  rw [List.getElem?_eq_getElem hkl] at h2
  exact Option.some.inj h2

theorem located_asm (a : Arr R) {lhs rhs : List Nat} (hl : lhs.length = a.indices.length)
    (hok : EqOk lhs rhs) (htab : TabOk a lhs) {q t : List Nat} {s' cs : Sector} {o' u : List Nat}
    (h1 : Located (permuted a.indices (Dense4.einPermOf lhs rhs)) q s' o')
    (h2 : Located (tracedIdx a lhs rhs) t cs u) :
    Located a.indices (asm 0 lhs rhs q t) (asm (0, 0) lhs rhs s' cs) (asm 0 lhs rhs o' u) := by
  have hlt : ∀ p ∈ Dense4.einPermOf lhs rhs, p < a.indices.length := by
    intro p hp; rw [← hl]; exact Dense4.einPermOf_lt hok.rsub p hp
  have hpl : (permuted a.indices (Dense4.einPermOf lhs rhs)).length = rhs.length := by
    rw [length_permuted _ _ hlt]; simp [Dense4.einPermOf]
  obtain ⟨q1, q2, q3, q4⟩ := h1
  obtain ⟨t1, t2, t3, t4⟩ := h2
  rw [hpl] at q1 q2 q3
  have hTl : (tracedIdx a lhs rhs).length = (einTraced lhs rhs).length := by simp [tracedIdx]
  rw [hTl] at t1 t2 t3
  refine ⟨by simp [hl], by simp [hl], by simp [hl], ?_⟩
  intro k ix p0 c o hix hp0 hc ho
  have hk : k < lhs.length := by rw [hl]; exact FuseP.getElem?_lt hix
  have hixd : a.indices.getD k default = ix := by simp [List.getD_eq_getElem?_getD, hix]
  rcases axis_cases (rhs := rhs) hk with ⟨j, hj1, hj2⟩ | ⟨hnr, j, hj1, hj2⟩
  · have hjl := FuseP.getElem?_lt hj2
    rw [asm_kept 0 q t hk hj1] at hp0
    rw [asm_kept (0, 0) s' cs hk hj1] at hc
    rw [asm_kept 0 o' u hk hj1] at ho
    simp only [Option.some.injEq] at hp0 hc ho
    subst hp0; subst hc; subst ho
    have hmem : lhs[k] ∈ rhs := List.mem_of_getElem? hj2
    have hfp : fpos lhs lhs[k] = k := by simp [fpos, hok.once k hk hmem]
    refine q4 j ix _ _ _ ?_ ?_ ?_ ?_
    · rw [getElem?_permuted _ _ hlt, einPermOf_getElem? hj2, hfp]; exact hix
    · simp [List.getD_eq_getElem?_getD, List.getElem?_eq_getElem (by rw [q1]; exact hjl : j < q.length)]
    · simp [List.getD_eq_getElem?_getD, List.getElem?_eq_getElem (by rw [q2]; exact hjl : j < s'.length)]
    · simp [List.getD_eq_getElem?_getD, List.getElem?_eq_getElem (by rw [q3]; exact hjl : j < o'.length)]
  · have hjl := FuseP.getElem?_lt hj2
    rw [asm_traced 0 q t hk hnr hj1] at hp0
    rw [asm_traced (0, 0) s' cs hk hnr hj1] at hc
    rw [asm_traced 0 o' u hk hnr hj1] at ho
    simp only [Option.some.injEq] at hp0 hc ho
    subst hp0; subst hc; subst ho
    obtain ⟨hfl, hfe⟩ := fpos_spec (List.getElem_mem hk : lhs[k] ∈ lhs)
    have htabk := htab k (fpos lhs lhs[k]) hk hfl hfe.symm
    rw [hixd] at htabk
    rw [htabk]
    refine t4 j _ _ _ _ ?_ ?_ ?_ ?_
    · simp [tracedIdx, List.getElem?_map, hj2]
    · simp [List.getD_eq_getElem?_getD, List.getElem?_eq_getElem (by rw [t1]; exact hjl : j < t.length)]
    · simp [List.getD_eq_getElem?_getD, List.getElem?_eq_getElem (by rw [t2]; exact hjl : j < cs.length)]
    · simp [List.getD_eq_getElem?_getD, List.getElem?_eq_getElem (by rw [t3]; exact hjl : j < u.length)]


end Dense5
end SymmModel
