/-
  SymmModel.Proofs.Net4Star — the legs of `A·B·C` bonded to a fourth tensor have the same positions
  whether `A·B·C` was formed as `(A·B)·C` or as `A·(B·C)`: the two nested `positions` expressions
  coincide (`axes_star`).  Namespace `SymmModel.Net4P`.
-/
import SymmModel.Proofs.Net4K4

namespace SymmModel
namespace Net4P
open TdotP GradedP RoutesP KoszulP AssocP Assoc2P Assoc3P
set_option linter.unusedSectionVars false

/-- free axes of a two-block axis list -/
theorem freeAxes_two (n1 n2 : Nat) (u v : List Nat) (hu : ∀ i ∈ u, i < n1) :
    freeAxes (n1 + n2) (u ++ v.map (n1 + ·))
      = freeAxes n1 u ++ (freeAxes n2 v).map (n1 + ·) := by
  unfold freeAxes
  rw [List.range_add, List.filter_append, List.filter_map]
  congr 1
  · apply List.filter_congr
    intro x hx
    have hx' := List.mem_range.mp hx
    have : (List.map (fun x => n1 + x) v).contains x = false := by
      rw [List.contains_eq_mem, decide_eq_false_iff_not, List.mem_map]
      rintro ⟨y, _, e⟩
      omega
    simp only [List.contains_append, this, Bool.or_false]
  · congr 1
    apply List.filter_congr
    intro x _
    have h1 : u.contains (n1 + x) = false := by
      rw [List.contains_eq_mem, decide_eq_false_iff_not]
      intro h; have := hu _ h; omega
    have h2 : (List.map (fun x => n1 + x) v).contains (n1 + x) = v.contains x := by
      rw [Bool.eq_iff_iff]
      simp only [List.contains_eq_mem, decide_eq_true_eq, List.mem_map]
      constructor
      · rintro ⟨y, hy, e⟩
        have : y = x := by omega
        exact this ▸ hy
      · intro h; exact ⟨x, h, rfl⟩
    simp only [Function.comp, List.contains_append, h1, h2, Bool.false_or]

/-- positions of unshifted entries in a two-block list -/
theorem positions_append_left (F G u : List Nat) (hu : ∀ e ∈ u, e ∈ F) :
    positions (F ++ G) u = positions F u := by
  unfold positions
  induction u with
  | nil => rfl
  | cons y ys ih =>
    have hy : y ∈ F := hu y (by simp)
    cases hj : indexOf? F y with
    | none => exact absurd hy (indexOf?_eq_none_iff.mp hj)
    | some j =>
      rw [List.filterMap_cons, List.filterMap_cons, indexOf?_append_left F G y j hj, hj,
        ih (fun e he => hu e (List.mem_cons_of_mem _ he))]

/-- positions in a two-block list of a two-block list -/
theorem positions_two (F G u v : List Nat) (b : Nat) (hF : ∀ i ∈ F, i < b) (hu : ∀ e ∈ u, e ∈ F) :
    positions (F ++ G.map (b + ·)) (u ++ v.map (b + ·))
      = positions F u ++ (positions G v).map (F.length + ·) := by
  rw [Net4P.positions_append, positions_append_left F _ u hu, positions_append_shift F G v b hF]

theorem indexOf?_permuted (F L : List Nat) (hF : F.Nodup) (hL : ∀ i ∈ L, i < F.length) (j : Nat)
    (hj : j < F.length) : indexOf? (permuted F L) F[j] = indexOf? L j := by
  induction L with
  | nil => rfl
  | cons i is ih =>
    have hi : i < F.length := hL i (by simp)
    have e : permuted F (i :: is) = F[i] :: permuted F is := by
      unfold permuted
      rw [List.filterMap_cons, List.getElem?_eq_getElem hi]
    rw [e]
    simp only [indexOf?]
    have hb : (F[i] == F[j]) = (i == j) := by
      rw [Bool.eq_iff_iff]
      simp only [beq_iff_eq]
      constructor
      · intro h; exact (List.Nodup.getElem_inj_iff hF).mp h
      · intro h; subst h; rfl
    rw [hb, ih (fun k hk => hL k (List.mem_cons_of_mem _ hk))]

/-- positions of positions -/
theorem positions_positions (F L z : List Nat) (hF : F.Nodup) (hL : ∀ i ∈ L, i < F.length) :
    positions L (positions F z) = positions (permuted F L) z := by
  induction z with
  | nil => rfl
  | cons e es ih =>
    unfold positions at ih ⊢
    rw [List.filterMap_cons, List.filterMap_cons]
    cases hj : indexOf? F e with
    | none =>
      have he : e ∉ F := indexOf?_eq_none_iff.mp hj
      have he' : e ∉ permuted F L := by
        intro h
        unfold permuted at h
        obtain ⟨i, _, hi⟩ := List.mem_filterMap.mp h
        exact he (List.mem_of_getElem? hi)
      rw [indexOf?_eq_none_iff.mpr he']
      exact ih
    | some j =>
      have hje := indexOf?_eq_some hj
      have hjl : j < F.length := (List.getElem?_eq_some_iff.mp hje).1
      have hFj : F[j] = e := (List.getElem?_eq_some_iff.mp hje).2
      simp only []
      rw [List.filterMap_cons, ← hFj, indexOf?_permuted F L hF hL j hjl]
      cases indexOf? L j with
      | none => exact ih
      | some k => simp only []; rw [ih]

/-- the position of `z` among the free axes of `x ++ y`, computed in two steps -/
theorem positions_nested {n : Nat} {x y : List Nat} (h : Mid n x y) (z : List Nat) :
    positions (freeAxes (freeAxes n x).length (positions (freeAxes n x) y)) (positions (freeAxes n x) z)
      = positions (freeAxes n (x ++ y)) z := by
  rw [positions_positions _ _ z (freeAxes_nodup _ _) (fun i hi => (mem_freeAxes.mp hi).1), h.free_spec]

/-- positions of `z` avoid the positions of `y` -/
theorem pos_sub {n : Nat} {x y z : List Nat} (h : Mid n x (y ++ z)) :
    ∀ e ∈ positions (freeAxes n x) z,
      e ∈ freeAxes (freeAxes n x).length (positions (freeAxes n x) y) := by
  intro e he
  have hn := h.pos_nodup
  have hlt := h.pos_lt
  rw [Net4P.positions_append] at hn hlt
  refine mem_freeAxes.mpr ⟨hlt e (List.mem_append_right _ he), fun hy => ?_⟩
  exact (List.nodup_append.mp hn).2.2 e hy e he rfl

/-- one layer: the legs `u ~ s` (of `A`, `B`) seen in `A·B` minus the legs `v ~ t` -/
theorem layer (nA nB : Nat) (xa u v xb s t : List Nat) (mA : Mid nA xa u) (mA2 : Mid nA xa (u ++ v))
    (mB : Mid nB xb s) :
    positions (freeAxes ((freeAxes nA xa).length + (freeAxes nB xb).length)
        (positions (freeAxes nA xa) u ++ (positions (freeAxes nB xb) s).map ((freeAxes nA xa).length + ·)))
      (positions (freeAxes nA xa) v ++ (positions (freeAxes nB xb) t).map ((freeAxes nA xa).length + ·))
    = positions (freeAxes nA (xa ++ u)) v
        ++ (positions (freeAxes nB (xb ++ s)) t).map ((freeAxes nA (xa ++ u)).length + ·)
    ∧ (freeAxes ((freeAxes nA xa).length + (freeAxes nB xb).length)
        (positions (freeAxes nA xa) u
          ++ (positions (freeAxes nB xb) s).map ((freeAxes nA xa).length + ·))).length
      = (freeAxes nA (xa ++ u)).length + (freeAxes nB (xb ++ s)).length := by
  rw [freeAxes_two _ _ _ _ mA.pos_lt]
  constructor
  · rw [positions_two _ _ _ _ _ (fun i hi => (mem_freeAxes.mp hi).1) (pos_sub mA2),
      positions_nested mA v, positions_nested mB t, mA.free_len]
  · rw [List.length_append, List.length_map, mA.free_len, mB.free_len]

/-- **the star identity**: the legs `ad`, `bd`, `cd` of `A·B·C` in the layout of `(A·B)·C` and
    in the layout of `A·(B·C)` -/
theorem axes_star (nA nB nC : Nat) (ab ac ad ba bc bd ca cb cd : List Nat)
    (mA : Mid nA ab ac) (mA2 : Mid nA ab (ac ++ ad)) (mB : Mid nB ba bc)
    (mB' : Mid nB bc ba) (mB2' : Mid nB bc (ba ++ bd)) (mC : Mid nC cb ca) :
    Assoc2P.axesAB ((freeAxes nA ab).length + (freeAxes nB ba).length) nC
        (Assoc2P.axesAB nA nB ab ac ba bc) (Assoc2P.axesAB nA nB ab ad ba bd) (ca ++ cb) cd
      = Assoc2P.axesAB nA ((freeAxes nB bc).length + (freeAxes nC cb).length) (ab ++ ac) ad
          (Assoc2P.axesBC nB nC ba bc cb ca) (Assoc2P.axesAB nB nC bc bd cb cd) := by
  obtain ⟨l1, l2⟩ := layer nA nB ab ac ad ba bc bd mA mA2 mB
  obtain ⟨r1, r2⟩ := layer nB nC bc ba bd cb ca cd mB' mB2' mC
  unfold Assoc2P.axesAB Assoc2P.axesBC
  rw [l1, l2, r1]
  have eB : freeAxes nB (bc ++ ba) = freeAxes nB (ba ++ bc) :=
    freeAxes_congr nB (by intro x; simp only [List.mem_append]; exact Or.comm)
  have eC : freeAxes nC (cb ++ ca) = freeAxes nC (ca ++ cb) :=
    freeAxes_congr nC (by intro x; simp only [List.mem_append]; exact Or.comm)
  rw [eB, eC]
  simp only [List.map_append, List.map_map, List.append_assoc]
  congr 2
  apply List.map_congr_left
  intro a _
  simp only [Function.comp]
  omega

end Net4P
end SymmModel
