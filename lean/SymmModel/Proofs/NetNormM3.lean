/-
  SymmModel.Proofs.NetNormM3 — network form of the norm (property C10), mirror images of the
  ket-bra-first bracketings, part 3: the routes that contract the ket-first piece `X' = a·ā` with `b̄`
  alone and then with `b`:
        `(X'·b̄)·b`,   `(b̄·X')·b`
  give the scalar of the hub (`mirror_tri`).  `X'·b̄` is `Eqv` to `X·b̄` (S6 as an equivalence, `pre_eqv`,
  for the exchange of the two leg blocks of `X`: the free block keeps its order, so the induced
  transposition of the result is the identity, `transposeF_range_eqv`), `b̄·X'` is reached by S5.
-/
import SymmModel.Proofs.NetNormM2

namespace SymmModel.NormNet
open SymmModel SymmModel.Lazy SymmModel.Norm SymmModel.TdotP SymmModel.GradedP SymmModel.RoutesP
open SymmModel.KoszulP
open SymmModel.AssocP SymmModel.Assoc3P SymmModel.Assoc4P SymmModel.Assoc5P SymmModel.Net4P
open SymmModel.OddposP (mergeOddpos)
set_option linter.unusedSectionVars false

/-! ## lists -/

theorem permuted_rot_low (k : Nat) (q : List Nat) (hq : ∀ i ∈ q, i < k) :
    permuted (rotB k k) q = q.map (k + ·) := by
  have h1 := permuted_rotB_axes k k q [] hq (by simp)
  simpa using h1

theorem permuted_rot_high (k : Nat) (q : List Nat) (hq : ∀ i ∈ q, i < k) :
    permuted (rotB k k) (q.map (k + ·)) = q := by
  have h2 := permuted_rotB_axes k k [] q (by simp) hq
  simpa using h2

/-! ## the identity transposition -/

section ident
variable {R : Type} [AddCommMonoid R] [Mul R] [Neg R] [SignRing R]

/-- transposing along the identity gives an equivalent array -/
theorem transposeF_range_eqv (T : Arr R) (hv : T.validB = true) (hf : T.fermi = true) :
    Eqv (T.transposeF (List.range T.ndim)) T := by
  have hid : Arr.isPerm (List.range T.ndim) T.ndim = true := KoszulP.isPerm_of_perm (List.Perm.refl _)
  have TT := transOf_transposeF T (List.range T.ndim) hv hf hid
  have hsT := Arr.shapesOk_of_validB hv
  have eidx : permuted T.indices (List.range T.ndim) = T.indices := ValidP.permuted_range T.indices
  refine ⟨TT.sym, rfl, rfl, rfl, by rw [TT.indices]; exact eidx, ?_, ?_⟩
  · intro s
    rw [TT.sectors, List.mem_map]
    constructor
    · rintro ⟨s0, h0, rfl⟩
      rw [← Arr.sector_length hsT h0, ValidP.permuted_range]; exact h0
    · intro h0
      exact ⟨s, h0, by rw [← Arr.sector_length hsT h0, ValidP.permuted_range]⟩
  · intro s o ho
    by_cases hs : s ∈ (T.transposeF (List.range T.ndim)).sectors
    · have hbox := ho hs
      rw [TT.sectors, List.mem_map] at hs
      obtain ⟨s0, h0, e0⟩ := hs
      have hl0 := Arr.sector_length hsT h0
      rw [← hl0, ValidP.permuted_range] at e0
      subst e0
      obtain ⟨shp, h1, h2, h3, h4⟩ := shape_of_mem hsT h0
      rw [TT.indices, eidx, h2] at hbox
      have hol : o.length = T.ndim := by rw [inBox_length hbox, h3]
      have e1 : permuted s0 (List.range T.ndim) = s0 := by
        rw [← hl0]; exact ValidP.permuted_range s0
      have e2 : permuted o (List.range T.ndim) = o := by
        rw [← hol]; exact ValidP.permuted_range o
      have := TT.elem s0 h0 o (by rw [h2]; exact hbox)
      rw [e1, e2] at this
      rw [this]
      have hk : koszul (T.parities s0) (some (List.range T.ndim)) = 1 := by
        have hlen : (T.parities s0).length = T.ndim := by
          unfold Arr.parities; rw [List.length_map, hl0]
        have := koszul_id_block_left (T.parities s0) [] [] (List.Perm.refl _)
        simp only [List.append_nil, List.map_nil] at this
        rw [← hlen, this]
        rfl
      rw [hk, Lazy.sgnI_one]
    · rw [Arr.elem_of_not_mem hs]
      rw [TT.sectors, List.mem_map] at hs
      rw [Arr.elem_of_not_mem]
      intro h0
      exact hs ⟨s, h0, by rw [← Arr.sector_length hsT h0, ValidP.permuted_range]⟩

end ident

section main
variable {R : Type} [AddCommMonoid R] [Mul R] [Neg R] [Conj R] [NetLaws R] [AssocLaws R]

/-- the routes through `X' = a·ā` that end on `b` -/
structure MirrorTri (a b : Arr R) (xa xb : List Nat) (X' : Arr R) (v : R) : Prop where
  /-- `(X'·b̄)·b` -/
  rXB : ∃ XB c, tdF X' (braOf b xb) ((kbQ a.ndim xa).map (xa.length + ·)) xb = .ok XB
    ∧ tdF XB b (kbQ a.ndim xa ++ (List.range (freeAxes b.ndim xb).length).map (xa.length + ·))
        (xb ++ freeAxes b.ndim xb) = .ok c ∧ Scal c v
  /-- `(b̄·X')·b` -/
  rBX : ∃ BX c, tdF (braOf b xb) X' xb ((kbQ a.ndim xa).map (xa.length + ·)) = .ok BX
    ∧ tdF BX b ((kbQ a.ndim xa).map ((freeAxes b.ndim xb).length + ·)
        ++ List.range (freeAxes b.ndim xb).length) (xb ++ freeAxes b.ndim xb) = .ok c ∧ Scal c v

theorem mirror_tri (hmul : ∀ x y : R, x * y = y * x) {a b : Arr R} {xa xb : List Nat}
    {X Y X' : Arr R} {v : R} (h : Adm a b xa xb)
    (hdB : b.oddpos.Pairwise (fun x y => x.1 ≠ y.1)) (PX : Piece a xa X)
    (H : HubHalf a b xa xb X Y v) (MX : MPiece a xa X') : MirrorTri a b xa xb X' v := by
  obtain ⟨sX, IX⟩ := PX.inter
  obtain ⟨WbX, _⟩ := piece_guards (xb := xb) h PX
  have WXb := admW_swap WbX
  have hq := kbQ_perm h.nA h.ltA
  have hqlt := kbQ_lt h.nA h.ltA
  have hqn := kbQ_nodup h.nA h.ltA
  have hoBb : (braOf b xb).oddpos = Arr.oddposDag b.oddpos := (braOf_frame b xb).2.2.2.2.1
  have hdd := oddposDag_distinct b.oddpos hdB
  have hdX : OddposP.LabelsDistinct (X.oddpos ++ (braOf b xb).oddpos) := by
    rw [PX.odd, hoBb]; exact hdd
  have hdX' : OddposP.LabelsDistinct (X'.oddpos ++ (braOf b xb).oddpos) := by
    rw [MX.odd, hoBb]; exact hdd
  set k := xa.length with hk
  set nfB := (freeAxes b.ndim xb).length with hnfB
  set q := kbQ a.ndim xa with hqd
  obtain ⟨XB, c, eXB, ec, Sc⟩ := H.rXB
  have WXBb := H.wXB XB eXB
  have hfq : freeAxes X.ndim q = (List.range k).map (k + ·) := by rw [PX.nd]; exact free_kbQ h.nA h.ltA
  have hfq' : freeAxes X.ndim (q.map (k + ·)) = List.range k := by
    rw [PX.nd]; exact free_kbQ_shift h.nA h.ltA
  have hrotp : (rotB k k).Perm (List.range X.ndim) := by
    rw [PX.nd]; exact KoszulP.perm_of_isPerm (rotB_isPerm _ _)
  have hrot : Arr.isPerm (rotB k k) X.ndim = true := KoszulP.isPerm_of_perm hrotp
  have hT : PreT X.ndim (rotB k k) q (q.map (k + ·)) (List.range k) := by
    refine ⟨hrotp, hqn, fun i hi => by rw [PX.nd]; have := hqlt i hi; omega,
      hqn.map (fun x y hxy => by omega), ?_, permuted_rot_high k q hqlt, ?_, ?_⟩
    · intro i hi
      obtain ⟨j, hj, rfl⟩ := List.mem_map.mp hi
      have := hqlt j hj
      rw [PX.nd]; omega
    · rw [hfq, List.length_map, List.length_range]
    · rw [hfq, hfq', permuted_rot_low k _ (fun i hi => List.mem_range.mp hi)]
      have := ValidP.permuted_range ((List.range k).map (k + ·))
      rw [List.length_map, List.length_range] at this
      exact this
  -- S6 as an equivalence: (X^T)·b̄ ≈ X·b̄
  obtain ⟨c1, ec1, vc1, vXB, _, hE1⟩ := pre_eqv X (braOf b xb) (rotB k k) q (q.map (k + ·))
    (List.range k) xb WXb hrot hT hdX XB eXB
  have W1 := admW_pre WXb hrot hT
  have hXBn : XB.ndim = k + nfB := by
    have e0 : X.tensordotF (braOf b xb) (.pair (q.map Int.ofNat) (xb.map Int.ofNat)) .blockwise = .ok XB := eXB
    rw [ndim_of_call_w WXb e0, hfq, List.length_map, List.length_range, braOf_ndim]
  have hbp : blockP (List.range k) (freeAxes X.ndim q).length (freeAxes (braOf b xb).ndim xb).length
      = List.range XB.ndim := by
    unfold blockP
    rw [hfq, List.length_map, List.length_range, braOf_ndim, hXBn, List.range_add]
  rw [hbp] at hE1
  have fXB : XB.fermi = true := by
    obtain ⟨_, _, e', I', _⟩ := call_pack X (braOf b xb) q xb WXb hdX
    have e0 : X.tensordotF (braOf b xb) (.pair (q.map Int.ofNat) (xb.map Int.ofNat)) .blockwise = .ok XB := eXB
    rw [e0] at e'
    obtain rfl := Except.ok.inj e'
    exact I'.fermi
  have hE2 : Eqv XB c1 := (transposeF_range_eqv XB vXB fXB).symm.trans hE1
  -- congruence: X^T ≈ X'
  obtain ⟨XB', eXB', hE3⟩ := tdotF_congr W1 (MX.eqv X PX) (Eqv.refl _) MX.valid W1.vb c1 ec1
  have W1' : AdmW X' (braOf b xb) (q.map (k + ·)) xb :=
    admW_congr W1 (MX.eqv X PX) (Eqv.refl _) MX.valid W1.vb
  obtain ⟨_, _, e', IXB', _⟩ := call_pack X' (braOf b xb) _ xb W1' hdX'
  rw [eXB'] at e'
  obtain rfl := Except.ok.inj e'
  have hE4 : Eqv XB XB' := hE2.trans hE3
  -- the second call
  obtain ⟨r1, er1, n1, o1, v1⟩ := scalar_congr WXBb hE4 IXB'.valid ec Sc.1
  have S1 : Scal r1 v := ⟨n1, o1.trans Sc.2.1, v1.trans Sc.2.2⟩
  have WXB'b := admW_congr WXBb hE4 (Eqv.refl b) IXB'.valid h.vb
  refine ⟨⟨XB', r1, eXB', er1, S1⟩, ?_⟩
  -- b̄·X' and S5
  have Wb' := admW_swap W1'
  have hdb' : OddposP.LabelsDistinct ((braOf b xb).oddpos ++ X'.oddpos) := by
    rw [MX.odd, hoBb, List.append_nil]; exact hdd
  obtain ⟨BX', _, eBX', IBX', _⟩ := call_pack (braOf b xb) X' xb _ Wb' hdb'
  obtain ⟨c', ec', _, _, hEs⟩ := Assoc5P.swap_eqv hmul Wb' hdb' BX' eBX'
  unfold tdF at ec'
  obtain rfl : XB' = c' := by rw [eXB'] at ec'; exact Except.ok.inj ec'
  have hfX' : (freeAxes X'.ndim (q.map (k + ·))).length = k := by
    rw [MX.nd, free_kbQ_shift h.nA h.ltA, List.length_range]
  rw [hfX', braOf_ndim] at hEs
  -- relist the pairs of XB'·b, S6, congruence, relist back
  have hlen : q.length = xb.length := by
    rw [hqd, kbQ_len h.nA h.ltA]; exact h.len
  have hcomm := tdotF_axes_comm_w XB' b q ((List.range nfB).map (k + ·)) xb (freeAxes b.ndim xb) hlen
    WXB'b
  have WXB'bc := AdmW.comm hlen WXB'b
  have er1c : tdF XB' b ((List.range nfB).map (k + ·) ++ q) (freeAxes b.ndim xb ++ xb) = .ok r1 :=
    hcomm.trans er1
  have hXB'n : XB'.ndim = k + nfB := by rw [← hE4.ndim]; exact hXBn
  have hUc : ((List.range nfB).map (k + ·) ++ q).Perm (List.range XB'.ndim) := by
    rw [hXB'n, List.range_add]
    exact List.perm_append_comm.trans (hq.append_right _)
  have hU' : (List.range nfB ++ q.map (nfB + ·)).Perm (List.range XB'.ndim) := by
    rw [hXB'n, Nat.add_comm, List.range_add]
    exact (hq.map _).append_left _
  have hrot2 : (rotB k nfB).Perm (List.range XB'.ndim) := by
    rw [hXB'n]; exact KoszulP.perm_of_isPerm (rotB_isPerm _ _)
  have hvB : freeAxes b.ndim (freeAxes b.ndim xb ++ xb) = [] :=
    freeAxes_all _ _ (fun i hi => (perm_left h.nB h.ltB).mem_iff.mpr (List.mem_range.mpr hi))
  obtain ⟨r2, er2, S2, W2⟩ := scal_pre_congr (u' := List.range nfB ++ q.map (nfB + ·)) WXB'bc hrot2
    (freeAxes_all _ _ (fun i hi => hUc.mem_iff.mpr (List.mem_range.mpr hi))) hvB hU'
    (permuted_rotB_axes k nfB (List.range nfB) q (fun i hi => List.mem_range.mp hi) hqlt)
    hEs IBX'.valid er1c S1
  have hlen2 : (List.range nfB).length = (freeAxes b.ndim xb).length := by rw [List.length_range]
  have hcomm2 := tdotF_axes_comm_w BX' b (List.range nfB) (q.map (nfB + ·)) (freeAxes b.ndim xb) xb
    hlen2 W2
  exact ⟨BX', r2, eBX', hcomm2.trans er2, S2⟩

/-- both families of routes through the ket-first pieces that end on a single ket tensor -/
theorem mirror_tris_of (hmul : ∀ x y : R, x * y = y * x) {a b : Arr R} {xa xb : List Nat}
    {X Y X' Y' : Arr R} {v : R} (h : Adm a b xa xb)
    (hdA : a.oddpos.Pairwise (fun x y => x.1 ≠ y.1))
    (hdB : b.oddpos.Pairwise (fun x y => x.1 ≠ y.1)) (M : MirrorHub a b xa xb X Y X' Y' v) :
    MirrorTri a b xa xb X' v ∧ MirrorTri b a xb xa Y' v := by
  obtain ⟨⟨PX, PY, H, H'⟩, MX, MY, _, _⟩ := M
  exact ⟨mirror_tri hmul h hdB PX H MX, mirror_tri hmul (adm_swap h) hdA PY H' MY⟩

end main

end SymmModel.NormNet
