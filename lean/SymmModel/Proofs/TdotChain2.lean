/-
  SymmModel.Proofs.TdotChain2 — chains of `n` tensors contracted along an arbitrary bracketing
  with every call in fused / auto mode: the result is a zero-padded copy (`Pad`) of the blockwise
  result of the same bracketing, with the same open-bond positions.  Namespace `SymmModel.TdotP`.
-/
import SymmModel.Proofs.TdotChain1
import SymmModel.Proofs.Assoc4Tree

namespace SymmModel
namespace TdotP
open GradedP RoutesP AssocP Assoc3P Assoc4P
variable {R : Type}

/-- `Seg.comp` with the contraction in `mode` -/
def compM [Zero R] [Add R] [Mul R] [Neg R] (mode : TdotMode) (S1 S2 : Seg R) : Except Err (Seg R) :=
  (S1.arr.tensordotF S2.arr (.pair (S1.r.map Int.ofNat) (S2.l.map Int.ofNat)) mode).map (fun z =>
    ⟨z, positions (freeAxes S1.arr.ndim S1.r) S1.l,
      AssocP.axesAB S1.arr.ndim S2.arr.ndim S1.r S2.l S2.r⟩)

/-- `STree.eval` with every contraction in `mode` -/
def evalM [Zero R] [Add R] [Mul R] [Neg R] (mode : TdotMode) : STree R → Except Err (Seg R)
  | .leaf S => .ok S
  | .node a b =>
    match evalM mode a, evalM mode b with
    | .ok s1, .ok s2 => compM mode s1 s2
    | .error e, _ => .error e
    | .ok _, .error e => .error e

theorem compM_blockwise [Zero R] [Add R] [Mul R] [Neg R] (S1 S2 : Seg R) :
    compM .blockwise S1 S2 = S1.comp S2 := rfl

/-- the left open legs of `T` are prunings (same directions) of those of the tensor `F` -/
def LeftIfM (T F : Seg R) : Prop :=
  T.l.length = F.l.length ∧ ∀ j, j < F.l.length →
    SizeLe (T.arr.indices.getD (T.l.getD j 0) default) (F.arr.indices.getD (F.l.getD j 0) default)

/-- the right open legs of `T` are prunings (same directions) of those of the tensor `La` -/
def RightIfM (T La : Seg R) : Prop :=
  T.r.length = La.r.length ∧ ∀ j, j < La.r.length →
    SizeLe (T.arr.indices.getD (T.r.getD j 0) default) (La.arr.indices.getD (La.r.getD j 0) default)

/-- `Tm` (a piece contracted in fused / auto mode, from tensor `F` to tensor `La`) is a zero-padded
    copy of the blockwise piece `T` -/
structure PadSeg [Zero R] [Neg R] (F La Tm T : Seg R) : Prop where
  pad : Pad Tm.arr T.arr
  l : Tm.l = T.l
  r : Tm.r = T.r
  valid : Tm.arr.validB = true
  fermi : Tm.arr.fermi = true
  oddpos : Tm.arr.oddpos = T.arr.oddpos
  charge : Tm.arr.charge = T.arr.charge
  left : LeftIfM Tm F
  right : RightIfM Tm La

theorem PadSeg.leaf [Zero R] [Neg R] {S : Seg R} (h : LeafOK S) : PadSeg S S S S :=
  ⟨Pad.refl h.valid, rfl, rfl, h.valid, h.fermi, rfl, rfl,
    ⟨rfl, fun _ _ => SizeLe.refl _⟩, ⟨rfl, fun _ _ => SizeLe.refl _⟩⟩

section step
variable [AddCommMonoid R] [Mul R] [Neg R] [SignRing R] [AssocLaws R]

/-- the weak guard between two fused / auto pieces whose end tensors are linked -/
theorem admW_of_padseg {F1 L1 F2 L2 T1 T2 T1m T2m : Seg R} {labs1 labs2 : List (Int × Bool)}
    (g1 : Good F1 L1 labs1 T1) (g2 : Good F2 L2 labs2 T2)
    (p1 : PadSeg F1 L1 T1m T1) (p2 : PadSeg F2 L2 T2m T2) (lk : Link L1 F2) :
    AdmW T1m.arr T2m.arr T1m.r T2m.l := by
  have W := admW_of_good g1 g2 lk
  have n1 : T1m.arr.ndim = T1.arr.ndim := p1.pad.ndim
  have n2 : T2m.arr.ndim = T2.arr.ndim := p2.pad.ndim
  refine ⟨p1.valid, p2.valid, p1.fermi, p2.fermi, by rw [p1.pad.sym, p2.pad.sym]; exact W.sym, ?_,
    by rw [p1.r]; exact W.nA, by rw [p2.l]; exact W.nB,
    by rw [p1.r, n1]; exact W.ltA, by rw [p2.l, n2]; exact W.ltB⟩
  have c1 : contractibleCommonB T1m.arr F2.arr T1m.r F2.l = true := by
    refine commonB_sizeLe_left (a := L1.arr) (xa := L1.r) p1.right.1 ?_ lk.con
    intro j hj
    refine ⟨p1.right.2 j hj, ?_⟩
    have hjr : j < T1m.r.length := by rw [p1.right.1]; exact hj
    have hlt : T1m.r.getD j 0 < T1m.arr.indices.length := by
      rw [List.getD_eq_getElem?_getD, List.getElem?_eq_getElem hjr]
      have : T1m.r[j] ∈ T1.r := by rw [← p1.r]; exact List.getElem_mem hjr
      have := W.ltA _ this
      show _ < T1m.arr.ndim
      rw [n1]; exact this
    rw [List.getD_eq_getElem?_getD, List.getElem?_eq_getElem hlt]
    exact keys_nodup_of_validB p1.valid _ (List.getElem_mem hlt)
  exact commonB_sizeLe_right (b := F2.arr) (xb := F2.l) p2.left.1 p2.left.2 c1

/-- **one composition step**: composing two fused / auto pieces in fused / auto mode gives a
    zero-padded copy of the blockwise composition of the blockwise pieces -/
theorem compM_pad (hz1 : ∀ x : R, 0 * x = 0) (hz2 : ∀ x : R, x * 0 = 0)
    {F1 L1 F2 L2 T1 T2 T1m T2m T : Seg R} {labs1 labs2 : List (Int × Bool)}
    (g1 : Good F1 L1 labs1 T1) (g2 : Good F2 L2 labs2 T2)
    (p1 : PadSeg F1 L1 T1m T1) (p2 : PadSeg F2 L2 T2m T2) (lk : Link L1 F2)
    (mode : TdotMode) (hmode : mode = .fused ∨ mode = .auto)
    (hT : T1.comp T2 = .ok T) :
    ∃ Tm, compM mode T1m T2m = .ok Tm ∧ PadSeg F1 L2 Tm T := by
  have W := admW_of_good g1 g2 lk
  have Wm := admW_of_padseg g1 g2 p1 p2 lk
  have n1 : T1m.arr.ndim = T1.arr.ndim := p1.pad.ndim
  have n2 : T2m.arr.ndim = T2.arr.ndim := p2.pad.ndim
  unfold Seg.comp at hT
  cases hz : tdF T1.arr T2.arr T1.r T2.l with
  | error err => rw [hz] at hT; cases hT
  | ok Z =>
    rw [hz] at hT
    simp only [Except.map, Except.ok.injEq] at hT
    subst hT
    have hq : T1.arr.tensordotF T2.arr (.pair (T1m.r.map Int.ofNat) (T2m.l.map Int.ofNat)) .blockwise
        = .ok Z := by rw [p1.r, p2.l]; exact hz
    have Wq : AdmW T1.arr T2.arr T1m.r T2m.l := by rw [p1.r, p2.l]; exact W
    obtain ⟨Z', hZ', pZ', oZ', cZ'⟩ := pad_blockwise hz1 hz2 p1.pad p2.pad Wm Wq p1.oddpos p1.charge
      p2.oddpos p2.charge Z hq
    obtain ⟨Zm, hZm, pZm, Im, _, oZm, cZm⟩ := call_w hz1 hz2 T1m.arr T2m.arr T1m.r T2m.l Wm mode hmode Z' hZ'
    have mid1 : Mid T1m.arr.ndim T1m.r T1m.l := (Mid.of (by rw [p1.l, p1.r]; exact g1.ok.nd) (by
      intro i hi
      rw [n1]
      rcases List.mem_append.mp hi with h | h
      · exact g1.ok.ltl i (by rw [← p1.l]; exact h)
      · exact g1.ok.ltr i (by rw [← p1.r]; exact h))).symm
    have mid2 : Mid T2m.arr.ndim T2m.l T2m.r := Mid.of (by rw [p2.l, p2.r]; exact g2.ok.nd) (by
      intro i hi
      rw [n2]
      rcases List.mem_append.mp hi with h | h
      · exact g2.ok.ltl i (by rw [← p2.l]; exact h)
      · exact g2.ok.ltr i (by rw [← p2.r]; exact h))
    refine ⟨⟨Zm, positions (freeAxes T1m.arr.ndim T1m.r) T1m.l,
      AssocP.axesAB T1m.arr.ndim T2m.arr.ndim T1m.r T2m.l T2m.r⟩, ?_, ⟨pZm.trans pZ', ?_, ?_, Im.valid,
      Im.fermi, oZm.trans oZ', cZm.trans cZ', ?_, ?_⟩⟩
    · unfold compM; rw [hZm]; rfl
    · show positions _ _ = positions _ _
      rw [n1, p1.l, p1.r]
    · show AssocP.axesAB _ _ _ _ _ = AssocP.axesAB _ _ _ _ _
      rw [n1, n2, p1.r, p2.l, p2.r]
    · refine ⟨by show (positions _ _).length = _; rw [mid1.pos_len]; exact p1.left.1, ?_⟩
      intro j hj
      have hj' : j < T1m.l.length := by rw [p1.left.1]; exact hj
      obtain ⟨e2, e3⟩ := Assoc2P.pos_getD mid1 j hj'
      have := Im.leg_left _ e2
      rw [e3] at this
      exact this.trans (p1.left.2 j hj)
    · refine ⟨by show (AssocP.axesAB _ _ _ _ _).length = _; rw [AssocP.axesAB_len mid2]; exact p2.right.1, ?_⟩
      intro j hj
      have hj' : j < T2m.r.length := by rw [p2.right.1]; exact hj
      obtain ⟨e1, e2, e3⟩ := AssocP.axesAB_getD (nA := T1m.arr.ndim) (xa := T1m.r) mid2 j hj'
      have := Im.leg_right _ e2
      rw [e3, ← e1] at this
      exact this.trans (p2.right.2 j hj)

/-- **every bracketing, every call in fused / auto mode**: the contraction along `t` succeeds and
    is a zero-padded copy of the blockwise contraction along `t` -/
theorem tree_pad (hz1 : ∀ x : R, 0 * x = 0) (hz2 : ∀ x : R, x * 0 = 0) (t : STree R) (hok : t.OK)
    (hd : OddposP.LabelsDistinct t.labels) (mode : TdotMode) (hmode : mode = .fused ∨ mode = .auto) :
    ∃ Tm T, evalM mode t = .ok Tm ∧ t.eval = .ok T ∧ Good t.first t.last t.labels T
      ∧ PadSeg t.first t.last Tm T := by
  induction t with
  | leaf S => exact ⟨S, S, rfl, rfl, Good.leaf hok, PadSeg.leaf hok⟩
  | node a b iha ihb =>
    obtain ⟨oa, ob, lk⟩ := hok
    have hda : OddposP.LabelsDistinct a.labels :=
      dist_of hd _ (List.Perm.refl _) (List.sublist_append_left _ _)
    have hdb : OddposP.LabelsDistinct b.labels :=
      dist_of hd _ (List.Perm.refl _) (List.sublist_append_right _ _)
    obtain ⟨Tam, Ta, eam, ea, ga, pa⟩ := iha oa hda
    obtain ⟨Tbm, Tb, ebm, eb, gb, pb⟩ := ihb ob hdb
    obtain ⟨T, eT, gT⟩ := comp_good ga gb lk hd
    obtain ⟨Tm, eTm, pT⟩ := compM_pad hz1 hz2 ga gb pa pb lk mode hmode eT
    refine ⟨Tm, T, ?_, ?_, gT, pT⟩
    · show (match evalM mode a, evalM mode b with
        | .ok s1, .ok s2 => compM mode s1 s2
        | .error e, _ => .error e
        | .ok _, .error e => .error e) = _
      rw [eam, ebm]
      exact eTm
    · show (match a.eval, b.eval with
        | .ok s1, .ok s2 => s1.comp s2
        | .error e, _ => .error e
        | .ok _, .error e => .error e) = _
      rw [ea, eb]
      exact eT

end step

end TdotP
end SymmModel
