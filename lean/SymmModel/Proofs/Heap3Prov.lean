/-
  SymmModel.Proofs.Heap3Prov — denotation of `phase_sync` and `_binary_blockwise_op` (property C14), and
  the self-aliased fermionic `x ∘= x` with pending signs: in place and out of place produce block
  dicts with the SAME DENOTATION under every interpretation of the kernels, although the buffer tables
  differ (out of place the pending signs are multiplied in twice, into two copies).
-/
import SymmModel.Proofs.Heap3Sem
import SymmModel.Proofs.Heap2Inplace
namespace SymmModel.Heap

theorem flatMap_congr_mem {α β : Type} {l : List α} {f g : α → List β} (h : ∀ e ∈ l, f e = g e) :
    l.flatMap f = l.flatMap g := by
  induction l with
  | nil => rfl
  | cons a r ih =>
    simp only [List.flatMap_cons]
    rw [h a (List.mem_cons_self ..), ih (fun e he => h e (List.mem_cons_of_mem _ he))]

theorem foldl_act_mut (l : List Act) (s : PState) (td : Dict) :
    (l.map (Mut.act 0)).foldl (fun s m => m.pure s) (s, td) = (l.foldl (fun s a => a.pure s) s, td) := by
  induction l generalizing s with
  | nil => rfl
  | cons a r ih => simp only [List.map_cons, List.foldl_cons, Mut.pure]; exact ih _

theorem mem_dict_update {l src : Dict} {e : Key × Val} (h : e ∈ Dict.update l src) : e ∈ l ∨ e ∈ src := by
  induction src generalizing l with
  | nil => exact Or.inl h
  | cons a r ih =>
    simp only [Dict.update, List.foldl_cons] at h ih
    rcases ih h with h1 | h1
    · rcases mem_dict_set h1 with h2 | h2
      · exact Or.inl h2
      · exact Or.inr (by rw [h2]; exact List.mem_cons_self ..)
    · exact Or.inr (List.mem_cons_of_mem _ h1)

/-! ### `phase_sync` -/

/-- the effects of `phase_sync(inplace=True)` on an array with content `c` -/
def psActs (c : Content) : List SAct :=
  (c.phases.getD []).reverse.flatMap fun e =>
    .ppop :: (if e.2 == -1 then
      (match c.blocks.get? e.1 with | some b => [SAct.kern e.1 tNeg [b.toNat]] | none => []) else [])

theorem phaseSync_pure_eq (c : Content) (T : Bufs) :
    S.phaseSync.pure (c, T) = ((psActs c).foldl (fun s a => a.mut.pure s) ((c, T), [])).1 := by
  have hmap : (psActs c).map SAct.mut =
      (((c.phases.getD []).reverse.flatMap fun e =>
        Act.pPopItem :: (if e.2 == -1 then
          (match c.blocks.get? e.1 with | some b => [Act.bKern e.1 tNeg [b.toNat]] | none => []) else [])).map
        (Mut.act 0)) := by
    simp only [psActs, List.map_flatMap]
    congr 1; funext e
    split
    · split <;> rfl
    · rfl
  have h1 : (psActs c).foldl (fun s a => a.mut.pure s) ((c, T), []) =
      ((psActs c).map SAct.mut).foldl (fun s m => m.pure s) ((c, T), []) := by rw [List.foldl_map]
  rw [h1, hmap, foldl_act_mut]
  simp only [S.phaseSync, Script.pure]
  rfl

theorem psActs_ok {n : Nat} {c : Content} (h : DictOK n c.blocks) : ∀ a ∈ psActs c, a.ok n := by
  intro a ha
  simp only [psActs, List.mem_flatMap] at ha
  obtain ⟨e, _, ha⟩ := ha
  simp only [List.mem_cons] at ha
  rcases ha with rfl | ha
  · trivial
  · split at ha
    · split at ha
      · rename_i b hb
        simp only [List.mem_cons, List.not_mem_nil, or_false] at ha
        subst ha
        intro a' ha'
        simp only [List.mem_cons, List.not_mem_nil, or_false] at ha'
        subst ha'
        obtain ⟨e', he', rfl⟩ := dict_get?_mem hb
        exact h e' he'
      · simp at ha
    · simp at ha

/-- after `phase_sync` no sign is pending -/
theorem psActs_ph (c : Content) : ((psActs c).foldl SAct.ph c.phases).getD [] = [] := by
  have key : ∀ (Q P : Dict), Q.length = P.length →
      ((Q.flatMap fun e => SAct.ppop :: (if e.2 == -1 then
        (match c.blocks.get? e.1 with | some b => [SAct.kern e.1 tNeg [b.toNat]] | none => []) else [])).foldl
        SAct.ph (some P)) = some [] := by
    intro Q
    induction Q with
    | nil => intro P hP; simp at hP; simp [List.length_eq_zero_iff.mp hP.symm]
    | cons q r ih =>
      intro P hP
      simp only [List.flatMap_cons, List.cons_append, List.foldl_cons, List.foldl_append, SAct.ph, Option.map_some]
      have hmid : ∀ p : Option Dict, (if q.2 == -1 then
          (match c.blocks.get? q.1 with | some b => [SAct.kern q.1 tNeg [b.toNat]] | none => []) else []).foldl
          SAct.ph p = p := by
        intro p
        split
        · split <;> rfl
        · rfl
      rw [hmid]
      apply ih
      simp only [Dict.popItem, List.length_dropLast, ← hP, List.length_cons]; omega
  unfold psActs
  cases hp : c.phases with
  | none => simp
  | some P =>
    simp only [Option.getD_some]
    rw [key P.reverse P (by simp)]; rfl

section sem
variable {V : Type} (I : Nat → List V → V) (d : V)

/-- the denotation of the block dict after `phase_sync`, from the denotation before -/
def psSem (B : Bufs) (c : Content) : SDict V :=
  ((psActs c).foldl (fun s a => (a.toS I d B).run s) (semDict I d B c.blocks, ([] : SDict V))).1

/-- **`phase_sync` at the level of values**: run from any table `B ++ X` extending a table `B` in which
    the array's buffers live, it extends the table, keeps indices / charge / labels, leaves no pending
    sign, and the denotation of the new block dict is `psSem B c` — it does not depend on `X` -/
theorem phaseSync_abs (B : Bufs) (c : Content) (X : Bufs) (hok : DictOK B.length c.blocks) :
    (∃ Y, (S.phaseSync.pure (c, B ++ X)).2 = B ++ X ++ Y) ∧
    DictOK (S.phaseSync.pure (c, B ++ X)).2.length (S.phaseSync.pure (c, B ++ X)).1.blocks ∧
    semDict I d (S.phaseSync.pure (c, B ++ X)).2 (S.phaseSync.pure (c, B ++ X)).1.blocks = psSem I d B c ∧
    (S.phaseSync.pure (c, B ++ X)).1.indices = c.indices ∧
    (S.phaseSync.pure (c, B ++ X)).1.charge = c.charge ∧
    (S.phaseSync.pure (c, B ++ X)).1.oddpos = c.oddpos ∧
    (S.phaseSync.pure (c, B ++ X)).1.phases = (psActs c).foldl SAct.ph c.phases := by
  obtain ⟨hY, h2, _, h4, h5, h6, h7, h8⟩ := sacts_abs I d B (psActs c) (psActs_ok hok) c X []
    (hok.mono (by simp)) (by intro e he; cases he)
  rw [phaseSync_pure_eq]
  refine ⟨hY, h2, ?_, h5, h6, h7, h8⟩
  have := congrArg Prod.fst h4
  simp only at this
  rw [this, semDict_append I d B X hok]
  rfl

/-! ### `_binary_blockwise_op` -/

def binSActs (m : Missing) (xb ob : Dict) : List SAct :=
  let both (e : Key × Val) : List SAct :=
    [.tpop e.1, .kern e.1 tFn [e.2.toNat, (ob.getD e.1 0).toNat]]
  match m with
  | .strict => (xb.takeWhile fun e => ob.has e.1).flatMap both
  | .outer => xb.flatMap fun e => if ob.has e.1 then both e else [.put e.1 e.2.toNat]
  | .inner => xb.flatMap fun e => if ob.has e.1 then both e else [.pop e.1]

theorem binMuts_eq (m : Missing) (xb ob : Dict) : binMuts 0 0 m xb ob = (binSActs m xb ob).map SAct.mut := by
  cases m <;> simp only [binMuts, binSActs, List.map_flatMap]
  · rfl
  all_goals
    congr 1; funext e; split <;> rfl

theorem binSActs_ok {n : Nat} {m : Missing} {xb ob : Dict} (hx : DictOK n xb) (ho : DictOK n ob) :
    ∀ a ∈ binSActs m xb ob, a.ok n := by
  have both : ∀ e ∈ xb, ob.has e.1 = true →
      ∀ a ∈ [SAct.tpop e.1, .kern e.1 tFn [e.2.toNat, (ob.getD e.1 0).toNat]], a.ok n := by
    intro e he hh a ha
    simp only [List.mem_cons, List.not_mem_nil, or_false] at ha
    rcases ha with rfl | rfl
    · trivial
    · intro a' ha'
      simp only [List.mem_cons, List.not_mem_nil, or_false] at ha'
      rcases ha' with rfl | rfl
      · exact hx e he
      · obtain ⟨b, hb, hg⟩ := dict_has_getD hh
        obtain ⟨e', he', rfl⟩ := dict_get?_mem hb
        rw [hg]; exact ho e' he'
  intro a ha
  cases m <;> simp only [binSActs, List.mem_flatMap] at ha <;> obtain ⟨e, he, ha⟩ := ha
  · exact both e (List.takeWhile_subset _ he) (List.all_eq_true.mp List.all_takeWhile e he) a ha
  all_goals
    by_cases hh : ob.has e.1 = true
    · rw [if_pos hh] at ha; exact both e he hh a ha
    · rw [if_neg hh] at ha
      simp only [List.mem_cons, List.not_mem_nil, or_false] at ha
      subst ha
      first
        | exact hx e he
        | trivial

theorem binSActs_ph (m : Missing) (xb ob : Dict) (p : Option Dict) : (binSActs m xb ob).foldl SAct.ph p = p := by
  have nop : ∀ l : List SAct, (∀ a ∈ l, a ≠ .ppop) → l.foldl SAct.ph p = p := by
    intro l
    induction l with
    | nil => intro _; rfl
    | cons a r ih =>
      intro h
      have ha := h a (List.mem_cons_self ..)
      simp only [List.foldl_cons]
      have : SAct.ph p a = p := by cases a <;> first | rfl | exact absurd rfl ha
      rw [this]; exact ih (fun a' h' => h a' (List.mem_cons_of_mem _ h'))
  apply nop
  intro a ha
  cases m <;> simp only [binSActs, List.mem_flatMap] at ha <;> obtain ⟨e, _, ha⟩ := ha
  · simp only [List.mem_cons, List.not_mem_nil, or_false] at ha
    rcases ha with rfl | rfl <;> intro h <;> cases h
  all_goals
    split at ha <;> simp only [List.mem_cons, List.not_mem_nil, or_false] at ha
    · rcases ha with rfl | rfl <;> intro h <;> cases h
    · subst ha; intro h; cases h

/-- the loop of `_binary_blockwise_op` on dicts of values -/
def binSSteps (m : Missing) (xs os : SDict V) : List (SStep V) :=
  let both (e : Key × V) : List (SStep V) :=
    [.tpop e.1, .set e.1 (I tFn [e.2, (SD.get? os e.1).getD d])]
  match m with
  | .strict => (xs.takeWhile fun e => SD.has os e.1).flatMap both
  | .outer => xs.flatMap fun e => if SD.has os e.1 then both e else [.set e.1 e.2]
  | .inner => xs.flatMap fun e => if SD.has os e.1 then both e else [.pop e.1]

/-- **`_binary_blockwise_op` on dicts of values**: `xs` = left blocks, `os` = right blocks -/
def binSem (m : Missing) (xs os : SDict V) : SDict V :=
  let r := (binSSteps I d m xs os).foldl (fun s a => a.run s) (xs, os)
  match m with
  | .outer => SD.update r.1 r.2
  | _ => r.1

theorem binSActs_toS_aux (T : Bufs) (m : Missing) (xb ob : Dict) (os : SDict V)
    (hhas : ∀ k, SD.has os k = ob.has k)
    (hget : ∀ k, ob.has k = true → look I d T (ob.getD k 0).toNat = (SD.get? os k).getD d) :
    (binSActs m xb ob).map (SAct.toS I d T) =
      binSSteps I d m (xb.map fun e => (e.1, look I d T e.2.toNat)) os := by
  have both : ∀ e : Key × Val, ob.has e.1 = true →
      ([SAct.tpop e.1, .kern e.1 tFn [e.2.toNat, (ob.getD e.1 0).toNat]] : List SAct).map (SAct.toS I d T) =
      [SStep.tpop e.1, .set e.1 (I tFn [look I d T e.2.toNat, (SD.get? os e.1).getD d])] := by
    intro e hh
    simp only [List.map_cons, List.map_nil, SAct.toS, hget e.1 hh]
  cases m <;> simp only [binSActs, binSSteps, List.map_flatMap, List.flatMap_map, List.takeWhile_map]
  · have hp : ((fun e : Key × V => SD.has os e.1) ∘ fun e : Key × Val => (e.1, look I d T e.2.toNat)) =
        fun e => ob.has e.1 := by
      funext e; simp only [Function.comp_def, hhas]
    rw [hp]
    apply flatMap_congr_mem
    intro e he
    exact both e (List.all_eq_true.mp List.all_takeWhile e he)
  · apply flatMap_congr_mem
    intro e _
    simp only [hhas]
    by_cases hh : ob.has e.1 = true
    · rw [if_pos hh, if_pos hh]; exact both e hh
    · rw [if_neg hh, if_neg hh]; rfl
  · apply flatMap_congr_mem
    intro e _
    simp only [hhas]
    by_cases hh : ob.has e.1 = true
    · rw [if_pos hh, if_pos hh]; exact both e hh
    · rw [if_neg hh, if_neg hh]; rfl

theorem binSActs_toS (T : Bufs) (m : Missing) (xb ob : Dict) :
    (binSActs m xb ob).map (SAct.toS I d T) = binSSteps I d m (semDict I d T xb) (semDict I d T ob) := by
  refine binSActs_toS_aux I d T m xb ob (semDict I d T ob) (fun k => has_mapV _ ob k) ?_
  intro k hh
  obtain ⟨b, hb, hg⟩ := dict_has_getD hh
  simp only [semDict, get?_mapV, hb, hg, Option.map_some, Option.getD_some]

/-- **`_binary_blockwise_op` at the level of values**: the denotation of the new left block dict is
    `binSem` of the denotations of the left and right block dicts — whatever the buffer ids are -/
theorem binPure_abs (m : Missing) (c : Content) (T : Bufs) (ob : Dict) (hc : DictOK T.length c.blocks)
    (ho : DictOK T.length ob) :
    (∃ Y, (binPure m (c, T) ob).2 = T ++ Y) ∧
    DictOK (binPure m (c, T) ob).2.length (binPure m (c, T) ob).1.blocks ∧
    semDict I d (binPure m (c, T) ob).2 (binPure m (c, T) ob).1.blocks =
      binSem I d m (semDict I d T c.blocks) (semDict I d T ob) ∧
    (binPure m (c, T) ob).1.indices = c.indices ∧ (binPure m (c, T) ob).1.charge = c.charge ∧
    (binPure m (c, T) ob).1.oddpos = c.oddpos ∧ (binPure m (c, T) ob).1.phases = c.phases := by
  obtain ⟨⟨Y, hY⟩, h2, h3, h4, h5, h6, h7, h8⟩ := sacts_abs I d T (binSActs m c.blocks ob)
    (binSActs_ok hc ho) c [] ob (by simpa using hc) ho
  simp only [List.append_nil] at hY h2 h3 h4 h5 h6 h7 h8
  rw [binSActs_ph] at h8
  have hfold : (binMuts 0 0 m c.blocks ob).foldl (fun s m => m.pure s) ((c, T), ob) =
      (binSActs m c.blocks ob).foldl (fun s a => a.mut.pure s) ((c, T), ob) := by
    rw [binMuts_eq, List.foldl_map]
  have hsem : (binSActs m c.blocks ob).foldl (fun s a => (a.toS I d T).run s)
      (semDict I d T c.blocks, semDict I d T ob) =
      (binSSteps I d m (semDict I d T c.blocks) (semDict I d T ob)).foldl (fun s a => a.run s)
        (semDict I d T c.blocks, semDict I d T ob) := by
    rw [← binSActs_toS, List.foldl_map]
  rw [hsem] at h4
  generalize hr : (binSActs m c.blocks ob).foldl (fun s a => a.mut.pure s) ((c, T), ob) = r at *
  have hbp : binPure m (c, T) ob = (match m with
      | .outer => (Act.bUpdate r.2).pure r.1
      | _ => r.1) := by
    simp only [binPure]; rw [hfold]; cases m <;> rfl
  cases m with
  | outer =>
    rw [hbp]
    simp only [Act.pure]
    refine ⟨⟨Y, hY⟩, ?_, ?_, h5, h6, h7, h8⟩
    · intro e he
      rcases mem_dict_update he with h1 | h1
      · exact h2 e h1
      · refine Nat.lt_of_lt_of_le (h3 e h1) ?_
        rw [hY]; simp
    · rw [semDict, mapV_update]
      have e1 : mapV (fun v => look I d r.1.2 v.toNat) r.2 = semDict I d T r.2 := by
        rw [hY]; exact semDict_append I d T Y h3
      rw [e1]
      simp only [binSem]
      rw [← h4]; rfl
  | strict =>
    rw [hbp]
    refine ⟨⟨Y, hY⟩, h2, ?_, h5, h6, h7, h8⟩
    simp only [binSem]; rw [← h4]
  | inner =>
    rw [hbp]
    refine ⟨⟨Y, hY⟩, h2, ?_, h5, h6, h7, h8⟩
    simp only [binSem]; rw [← h4]

/-! ### `x ∘= x` for a fermionic array, pending signs or not -/

/-- **the pure core of the PLANNED item.**  `bodyFPure m cx cy B` is the value of the body of
    `FermionicArray._binary_blockwise_op` for a left operand with content `cx` and a right operand that
    looks like `cy` after the left one has been synchronised.  For `x ∘= x`, in place `cy` is the
    synchronised `x` itself, out of place it is the untouched `x`: the two results have the same
    denotation under EVERY interpretation of the kernels, and the same indices, charge, signs, labels. -/
theorem bodyF_self_sem (m : Missing) (cx : Content) (B : Bufs) (hok : DictOK B.length cx.blocks) :
    semDict I d (bodyFPure m cx (S.phaseSync.pure (cx, B)).1 B).2
        (bodyFPure m cx (S.phaseSync.pure (cx, B)).1 B).1.blocks =
      semDict I d (bodyFPure m cx cx B).2 (bodyFPure m cx cx B).1.blocks ∧
    (bodyFPure m cx (S.phaseSync.pure (cx, B)).1 B).1.indices = (bodyFPure m cx cx B).1.indices ∧
    (bodyFPure m cx (S.phaseSync.pure (cx, B)).1 B).1.charge = (bodyFPure m cx cx B).1.charge ∧
    (bodyFPure m cx (S.phaseSync.pure (cx, B)).1 B).1.phases = (bodyFPure m cx cx B).1.phases ∧
    (bodyFPure m cx (S.phaseSync.pure (cx, B)).1 B).1.oddpos = (bodyFPure m cx cx B).1.oddpos := by
  by_cases hclean : cx.phases.getD [] = []
  · -- no pending sign: `phase_sync` does nothing, the two runs are literally the same
    rw [phaseSync_pure_clean cx B hclean]
    exact ⟨rfl, rfl, rfl, rfl, rfl⟩
  · -- first synchronisation (of `x` in place / of the copy out of place)
    obtain ⟨⟨Y1, hY1⟩, ok1, sem1, i1, c1, o1, p1⟩ := phaseSync_abs I d B cx [] hok
    simp only [List.append_nil] at hY1 ok1 sem1 i1 c1 o1 p1
    generalize hs1 : S.phaseSync.pure (cx, B) = s1 at *
    have hclean1 : s1.1.phases.getD [] = [] := by rw [p1]; exact psActs_ph cx
    -- second synchronisation (out of place only): of a copy of the untouched `x`
    obtain ⟨⟨Y2, hY2⟩, ok2, sem2, _, _, _, _⟩ := phaseSync_abs I d B cx Y1 hok
    rw [← hY1] at hY2 ok2 sem2
    generalize hs2 : S.phaseSync.pure (cx, s1.2) = s2 at *
    have hI : bodyFPure m cx s1.1 B = binPure m (s1.1, s1.2) s1.1.blocks := by
      simp only [bodyFPure, hs1, syncedPure, hclean1, List.isEmpty_nil, Bool.not_true, Bool.and_false,
        Bool.false_eq_true, if_false]
    have hO : bodyFPure m cx cx B = binPure m (s1.1, s2.2) s2.1.blocks := by
      have : (cx.phases.getD []).isEmpty = false := by
        cases h : cx.phases.getD [] with
        | nil => exact absurd h hclean
        | cons _ _ => rfl
      simp only [bodyFPure, hs1, syncedPure, this, Bool.not_false, Bool.and_true, if_true, hs2]
    have ok1' : DictOK s2.2.length s1.1.blocks := ok1.mono (by rw [hY2]; simp)
    obtain ⟨_, _, semI, iI, cI, oI, pI⟩ := binPure_abs I d m s1.1 s1.2 s1.1.blocks ok1 ok1
    obtain ⟨_, _, semO, iO, cO, oO, pO⟩ := binPure_abs I d m s1.1 s2.2 s2.1.blocks ok1' ok2
    rw [hI, hO]
    refine ⟨?_, by rw [iI, iO], by rw [cI, cO], by rw [pI, pO], by rw [oI, oO]⟩
    rw [semI, semO, sem2, sem1]
    have : semDict I d s2.2 s1.1.blocks = semDict I d s1.2 s1.1.blocks := by
      rw [hY2]; exact semDict_append I d s1.2 Y2 ok1
    rw [this, sem1]

end sem

/-! ### the two runs of `x ∘= x` on the heap -/

/-- in place `other` is the synchronised `x`, out of place the untouched `x` -/
theorem binaryF_self_runs (m : Missing) {h : Heap} {x : ObjId} {a : ArrObj} {bd : Dict} {pd : Option Dict}
    (wx : WFArr h x a bd pd) :
    ∃ hi ho r e1 e2 ci co, ((Op.binaryF m).prog true).run h [x, x] = (hi, [x, x] ++ e1) ∧
      ((Op.binaryF m).prog false).run h [x, x] = (ho, [x, x, r] ++ e2) ∧
      content hi x = some ci ∧ content ho r = some co ∧
      (ci, hi.bufs) = bodyFPure m (cont a bd pd) (S.phaseSync.pure (cont a bd pd, h.bufs)).1 h.bufs ∧
      (co, ho.bufs) = bodyFPure m (cont a bd pd) (cont a bd pd) h.bufs := by
  have cs := copyArr_spec h x
  obtain ⟨hi, e1, ai, bi, pi, ri, wi, ei⟩ := bodyF_refines 0 m (env := [x, x]) (by simp) (by simp)
    (by simpa [envGet] using wx) (S.phaseSync.pure (cont a bd pd, h.bufs)).1 (by
      intro h1 a1 b1 p1 w1 _ e
      exact ⟨a1, b1, p1, by simpa [envGet] using w1, e⟩)
  obtain ⟨ac, bc, pc, wc, ec, hbc⟩ := copyArr_refines wx
  obtain ⟨ho, e2, ao, bo, po, ro, wo, eo⟩ := bodyF_refines 2 m (h := (copyArr h x).1)
    (env := [x, x, (copyArr h x).2]) (by simp) (by simp) (by simpa [envGet] using wc) (cont a bd pd)
    (by
      intro h1 a1 b1 p1 _ t1 _
      simp only [envGet, List.getD_cons_succ, List.getD_cons_zero] at t1 ⊢
      exact ⟨a, bd, pd, t1.wf_old cs.2 cs.1 wx, rfl⟩)
  rw [ec, hbc] at eo
  refine ⟨hi, ho, (copyArr h x).2, e1, e2, cont ai bi pi, cont ao bo po, ?_, ?_, ?_, ?_, ei, eo⟩
  · rw [binaryF_prog_true]; exact ri
  · rw [binaryF_prog_false]
    simp only [Prog.run, runCmd, envGet, List.getD_cons_zero, List.cons_append, List.nil_append]
    exact ro
  · simpa [envGet] using wi.content
  · simpa [envGet] using wo.content

end SymmModel.Heap
