/-
  SymmModel.Proofs.TruncLemmas — helper lemmas for C13 (selection logic of `svd_truncated`).
-/
import SymmModel.Model.Trunc
import Mathlib.Tactic.Linarith
import Mathlib.Tactic.Ring
import Mathlib.Algebra.Order.Field.Rat
import Mathlib.Data.List.Perm.Basic
import Mathlib.Data.List.Forall2

namespace SymmModel.TruncLemmas
open SymmModel

/-! ### insertion sort: permutation and sortedness -/

theorem insertSorted_perm {α : Type} (lt : α → α → Bool) (a : α) (l : List α) :
    (insertSorted lt a l).Perm (a :: l) := by
  induction l with
  | nil => simp [insertSorted]
  | cons b bs ih =>
    simp only [insertSorted]
    split
    · exact (List.Perm.cons b ih).trans (List.Perm.swap a b bs)
    · exact List.Perm.refl _

theorem isort_perm {α : Type} (lt : α → α → Bool) (l : List α) : (isort lt l).Perm l := by
  induction l with
  | nil => simp [isort]
  | cons a as ih =>
    simp only [isort]
    exact (insertSorted_perm lt a _).trans (List.Perm.cons a ih)

theorem insertSorted_sorted (a : Rat) (l : List Rat) (h : l.Pairwise (· ≤ ·)) :
    (insertSorted ltRat a l).Pairwise (· ≤ ·) := by
  induction l with
  | nil => simp [insertSorted]
  | cons b bs ih =>
    simp only [insertSorted]
    rw [List.pairwise_cons] at h
    split
    · rename_i hlt
      have hba : b < a := by simpa [ltRat] using hlt
      rw [List.pairwise_cons]
      refine ⟨?_, ih h.2⟩
      intro x hx
      have := (insertSorted_perm ltRat a bs).mem_iff.mp hx
      rcases List.mem_cons.mp this with rfl | hx'
      · exact le_of_lt hba
      · exact h.1 x hx'
    · rename_i hlt
      have hab : a ≤ b := by
        have : ¬ b < a := by simpa [ltRat] using hlt
        exact not_lt.mp this
      rw [List.pairwise_cons]
      refine ⟨?_, List.pairwise_cons.mpr h⟩
      intro x hx
      rcases List.mem_cons.mp hx with rfl | hx'
      · exact hab
      · exact le_trans hab (h.1 x hx')

theorem sortAsc_sorted (l : List Rat) : (sortAsc l).Pairwise (· ≤ ·) := by
  unfold sortAsc
  induction l with
  | nil => simp [isort]
  | cons a as ih => simp only [isort]; exact insertSorted_sorted a _ ih

theorem sortAsc_perm (l : List Rat) : (sortAsc l).Perm l := isort_perm _ l

theorem toDense_perm (s : List (Charge × List Rat)) : (toDense s).Perm (s.flatMap (·.2)) := by
  unfold toDense
  exact (isort_perm _ s).flatMap_right _

theorem sall_perm (s : List (Charge × List Rat)) : (sall s).Perm (s.flatMap (·.2)) :=
  (sortAsc_perm _).trans (toDense_perm s)

theorem sall_sorted (s : List (Charge × List Rat)) : (sall s).Pairwise (· ≤ ·) :=
  sortAsc_sorted _

/-! ### a predicate that is monotone along a list -/

/-- along a list on which `p` can only switch from true to false, the `p`-elements are a prefix -/
theorem filter_eq_take_of_desc {α : Type} (p : α → Bool) (l : List α)
    (h : l.Pairwise (fun a b => p b = true → p a = true)) :
    l.filter p = l.take (l.countP p) ∧ l.filter (fun x => !p x) = l.drop (l.countP p) := by
  induction l with
  | nil => simp
  | cons a as ih =>
    rw [List.pairwise_cons] at h
    obtain ⟨ih1, ih2⟩ := ih h.2
    by_cases ha : p a = true
    · simp [ha, ih1, ih2]
    · have hall : ∀ x ∈ as, p x = false := by
        intro x hx
        by_contra hc
        exact ha (h.1 x hx (by simpa using hc))
      have hc0 : as.countP p = 0 := by
        rw [List.countP_eq_zero]; intro x hx; simp [hall x hx]
      have hf : as.filter p = [] := by
        rw [List.filter_eq_nil_iff]; intro x hx; simp [hall x hx]
      have hf2 : as.filter (fun x => !p x) = as := by
        rw [List.filter_eq_self]; intro x hx; simp [hall x hx]
      simp [ha, hc0, hf, hf2]

/-- along a list on which `p` can only switch from false to true, the `p`-elements are a suffix -/
theorem filter_eq_drop_of_asc {α : Type} (p : α → Bool) (l : List α)
    (h : l.Pairwise (fun a b => p a = true → p b = true)) :
    l.filter p = l.drop (l.length - l.countP p) ∧
      ∀ x ∈ l.take (l.length - l.countP p), p x = false := by
  induction l with
  | nil => simp
  | cons a as ih =>
    rw [List.pairwise_cons] at h
    obtain ⟨ih1, ih2⟩ := ih h.2
    by_cases ha : p a = true
    · have hall : ∀ x ∈ as, p x = true := fun x hx => h.1 x hx ha
      have hc : as.countP p = as.length := by
        rw [List.countP_eq_length]; exact hall
      have hf : as.filter p = as := by
        rw [List.filter_eq_self]; exact hall
      simp [ha, hc, hf]
    · have hle : as.countP p ≤ as.length := List.countP_le_length
      have e : (a :: as).length - (a :: as).countP p = (as.length - as.countP p) + 1 := by
        simp [ha]; omega
      rw [e]
      refine ⟨by simp [ha, ih1], ?_⟩
      intro x hx
      rw [List.take_succ_cons] at hx
      rcases List.mem_cons.mp hx with rfl | hx'
      · simpa using ha
      · exact ih2 x hx'


/-! ### counting -/

theorem countGe_le_length (t : Rat) (l : List Rat) : countGe t l ≤ l.length :=
  List.countP_le_length

theorem countGe_anti {t1 t2 : Rat} (h : t1 ≤ t2) (l : List Rat) : countGe t2 l ≤ countGe t1 l := by
  unfold countGe
  apply List.countP_mono_left
  intro x _ hx
  simp only [leRat, decide_eq_true_eq] at hx ⊢
  exact le_trans h hx

theorem sumNat_map_countGe (t : Rat) (s : List (Charge × List Rat)) :
    sumNat (s.map (fun p => countGe t p.2)) = countGe t (s.flatMap (·.2)) := by
  induction s with
  | nil => simp [sumNat, countGe]
  | cons p ps ih =>
    simp only [List.map_cons, List.flatMap_cons]
    unfold sumNat at ih ⊢
    simp only [List.foldr_cons]
    rw [ih]
    simp [countGe, List.countP_append]

theorem sumNat_map_countGe_sall (t : Rat) (s : List (Charge × List Rat)) :
    sumNat (s.map (fun p => countGe t p.2)) = countGe t (sall s) := by
  rw [sumNat_map_countGe]
  exact ((sall_perm s).countP_eq _).symm

/-- in an ascending list the values `≥ a[k]` are at least the `len - k` last ones -/
theorem countGe_getElem_ge (a : List Rat) (hs : a.Pairwise (· ≤ ·)) (k : Nat) (hk : k < a.length) :
    a.length - k ≤ countGe a[k] a := by
  have h1 : countGe a[k] a = countGe a[k] (a.take k) + countGe a[k] (a.drop k) := by
    unfold countGe
    rw [← List.countP_append, List.take_append_drop]
  have h2 : countGe a[k] (a.drop k) = (a.drop k).length := by
    unfold countGe
    rw [List.countP_eq_length]
    intro x hx
    simp only [leRat, decide_eq_true_eq]
    obtain ⟨j, hj, rfl⟩ := List.mem_iff_getElem.mp hx
    rw [List.getElem_drop]
    rcases Nat.eq_zero_or_pos j with rfl | hpos
    · simp
    · exact List.pairwise_iff_getElem.mp hs k (k + j) hk (by simp at hj; omega) (by omega)
  rw [h1, h2, List.length_drop]
  omega

/-- if moreover `a[k-1] < a[k]`, exactly the `len - k` last ones -/
theorem countGe_getElem_eq (a : List Rat) (hs : a.Pairwise (· ≤ ·)) (k : Nat) (hk : k < a.length)
    (hstep : ∀ j (hj : j < k), a[j]'(by omega) < a[k]) :
    countGe a[k] a = a.length - k := by
  have h1 : countGe a[k] a = countGe a[k] (a.take k) + countGe a[k] (a.drop k) := by
    unfold countGe
    rw [← List.countP_append, List.take_append_drop]
  have h2 : countGe a[k] (a.drop k) = (a.drop k).length := by
    unfold countGe
    rw [List.countP_eq_length]
    intro x hx
    simp only [leRat, decide_eq_true_eq]
    obtain ⟨j, hj, rfl⟩ := List.mem_iff_getElem.mp hx
    rw [List.getElem_drop]
    rcases Nat.eq_zero_or_pos j with rfl | hpos
    · simp
    · exact List.pairwise_iff_getElem.mp hs k (k + j) hk (by simp at hj; omega) (by omega)
  have h3 : countGe a[k] (a.take k) = 0 := by
    unfold countGe
    rw [List.countP_eq_zero]
    intro x hx
    simp only [leRat, decide_eq_true_eq, not_le]
    obtain ⟨j, hj, rfl⟩ := List.mem_take_iff_getElem.mp hx
    exact hstep j (by omega)
  rw [h1, h2, h3, List.length_drop]
  omega

/-! ### cumulative sums -/

theorem cumsumFrom_length (acc : Rat) (l : List Rat) : (cumsumFrom acc l).length = l.length := by
  induction l generalizing acc with
  | nil => rfl
  | cons x xs ih => simp [cumsumFrom, ih]

theorem cumsum_length (l : List Rat) : (cumsum l).length = l.length := cumsumFrom_length 0 l

theorem cumsumFrom_ge (acc : Rat) (l : List Rat) (h : NonNeg l) :
    ∀ x ∈ cumsumFrom acc l, acc ≤ x := by
  induction l generalizing acc with
  | nil => intro x hx; simp [cumsumFrom] at hx
  | cons y ys ih =>
    intro x hx
    have hy : 0 ≤ y := h y (by simp)
    have hys : NonNeg ys := fun z hz => h z (by simp [hz])
    simp only [cumsumFrom, List.mem_cons] at hx
    rcases hx with rfl | hx
    · linarith
    · have := ih (acc + y) hys x hx
      linarith

theorem cumsumFrom_sorted (acc : Rat) (l : List Rat) (h : NonNeg l) :
    (cumsumFrom acc l).Pairwise (· ≤ ·) := by
  induction l generalizing acc with
  | nil => simp [cumsumFrom]
  | cons y ys ih =>
    have hys : NonNeg ys := fun z hz => h z (by simp [hz])
    simp only [cumsumFrom, List.pairwise_cons]
    exact ⟨cumsumFrom_ge _ ys hys, ih _ hys⟩

theorem cumsumFrom_getElem (acc : Rat) (l : List Rat) (j : Nat) (hj : j < l.length) :
    (cumsumFrom acc l)[j]'(by rw [cumsumFrom_length]; exact hj) = acc + (l.take (j + 1)).sum := by
  induction l generalizing acc j with
  | nil => simp at hj
  | cons y ys ih =>
    cases j with
    | zero => simp [cumsumFrom]
    | succ j =>
      simp only [cumsumFrom, List.getElem_cons_succ]
      rw [ih (acc + y) j (by simpa using hj)]
      simp [List.take_succ_cons, List.sum_cons]
      ring

theorem weights_length (mode : Nat) (sa : List Rat) : (weights mode sa).length = sa.length := by
  unfold weights; split <;> simp

theorem weights_nonneg (mode : Nat) (sa : List Rat) (h : NonNeg sa) : NonNeg (weights mode sa) := by
  unfold weights
  split
  · intro x hx
    obtain ⟨y, _, rfl⟩ := List.mem_map.mp hx
    exact mul_self_nonneg y
  · exact h

/-! ### Python negative indexing -/

theorem negIndex_eq (a : List Rat) (n : Nat) (h1 : 1 ≤ n) (h2 : n ≤ a.length) :
    negIndex a n = .ok (a[a.length - n]'(by omega)) := by
  unfold negIndex
  have : ¬ a.length < n := by omega
  have hn : n ≠ 0 := by omega
  simp only [this, if_false, hn]
  rw [List.getElem?_eq_getElem (by omega)]

theorem negIndex_zero (a : List Rat) (h : 0 < a.length) : negIndex a 0 = .ok (a[0]'h) := by
  unfold negIndex
  simp [List.getElem?_eq_getElem h]

theorem negIndex_ok_of_le (a : List Rat) (n : Nat) (hne : 0 < a.length) (h : n ≤ a.length) :
    ∃ v, negIndex a n = .ok v := by
  rcases Nat.eq_zero_or_pos n with rfl | hpos
  · exact ⟨_, negIndex_zero a hne⟩
  · exact ⟨_, negIndex_eq a n hpos h⟩

theorem negIndex_mem {a : List Rat} {n : Nat} {v : Rat} (h : negIndex a n = .ok v) : v ∈ a := by
  unfold negIndex at h
  split at h
  · cases h
  · split at h
    · rename_i w hw
      cases h
      exact List.mem_of_getElem? hw
    · cases h

theorem negIndex_nil (n : Nat) : negIndex [] n = .error .index := by
  unfold negIndex
  split <;> simp

theorem negIndex_mono (a : List Rat) (hs : a.Pairwise (· ≤ ·)) {n1 n2 : Nat} {v1 v2 : Rat}
    (h21 : n2 ≤ n1) (hpos : 1 ≤ n2) (h1 : negIndex a n1 = .ok v1) (h2 : negIndex a n2 = .ok v2) :
    v1 ≤ v2 := by
  have hl1 : n1 ≤ a.length := by
    by_contra hc
    unfold negIndex at h1
    simp [show a.length < n1 by omega] at h1
  rw [negIndex_eq a n1 (by omega) hl1] at h1
  rw [negIndex_eq a n2 hpos (by omega)] at h2
  cases h1; cases h2
  rcases Nat.lt_or_ge n2 n1 with hlt | hge
  · exact List.pairwise_iff_getElem.mp hs _ _ (by omega) (by omega) (by omega)
  · have : n1 = n2 := by omega
    subst this; exact le_refl _


/-! ### the rule threshold -/

theorem nChiAdjust_mono (fix : Bool) {n m : Nat} (h : n ≤ m) : nChiAdjust fix n ≤ nChiAdjust fix m := by
  unfold nChiAdjust; split <;> omega

theorem nChiAdjust_le (fix : Bool) {n len : Nat} (h : n ≤ len) (hl : 1 ≤ len) :
    nChiAdjust fix n ≤ len := by
  unfold nChiAdjust; split <;> omega

theorem nChiAdjust_true_pos (n : Nat) : 1 ≤ nChiAdjust true n := by
  unfold nChiAdjust; simp

/-- shape of `condRhs` -/
theorem condRhs_inv {mode : Nat} {cum : List Rat} {c rhs : Rat} (h : condRhs mode cum c = .ok rhs) :
    ((mode = 4 ∨ mode = 6) ∧ ∃ tot, negIndex cum 1 = .ok tot ∧ rhs = c * tot) ∨
    (¬ (mode = 4 ∨ mode = 6) ∧ rhs = c) := by
  unfold condRhs at h
  split at h
  · rename_i hm
    left
    refine ⟨hm, ?_⟩
    split at h
    · rename_i tot htot
      cases h
      exact ⟨tot, htot, rfl⟩
    · cases h
  · rename_i hm
    right
    cases h
    exact ⟨hm, rfl⟩

theorem condRhs_ok_of_ne_nil (mode : Nat) (cum : List Rat) (c : Rat) (h : 0 < cum.length) :
    ∃ rhs, condRhs mode cum c = .ok rhs := by
  unfold condRhs
  split
  · rw [negIndex_eq cum 1 (le_refl _) h]
    exact ⟨_, rfl⟩
  · exact ⟨_, rfl⟩

/-- shape of `ruleThreshold` for the cumulative modes -/
theorem ruleThreshold_cum_inv {fix : Bool} {sa : List Rat} {c t : Rat} {mode : Nat}
    (hm : mode = 3 ∨ mode = 4 ∨ mode = 5 ∨ mode = 6)
    (h : ruleThreshold fix sa c mode = .ok t) :
    ∃ rhs, condRhs mode (cumsum (weights mode sa)) c = .ok rhs ∧
      negIndex sa (nChiAdjust fix (countGe rhs (cumsum (weights mode sa)))) = .ok t := by
  have h1 : mode ≠ 1 := by omega
  have h2 : mode ≠ 2 := by omega
  unfold ruleThreshold at h
  simp only [h1, h2, if_false, hm, if_true] at h
  unfold nChiAll at h
  simp only at h
  cases hc : condRhs mode (cumsum (weights mode sa)) c with
  | error e => rw [hc] at h; simp at h
  | ok rhs =>
    rw [hc] at h
    exact ⟨rhs, rfl, h⟩

theorem ruleThreshold_cum_of {fix : Bool} {sa : List Rat} {c rhs : Rat} {mode : Nat}
    (hm : mode = 3 ∨ mode = 4 ∨ mode = 5 ∨ mode = 6)
    (hc : condRhs mode (cumsum (weights mode sa)) c = .ok rhs) :
    ruleThreshold fix sa c mode =
      negIndex sa (nChiAdjust fix (countGe rhs (cumsum (weights mode sa)))) := by
  have h1 : mode ≠ 1 := by omega
  have h2 : mode ≠ 2 := by omega
  unfold ruleThreshold
  simp only [h1, h2, if_false, hm, if_true]
  unfold nChiAll
  simp only [hc]

theorem ruleThreshold_ok_of_ne_nil (fix : Bool) (sa : List Rat) (c : Rat) (mode : Nat)
    (hne : 0 < sa.length) (hm : 1 ≤ mode ∧ mode ≤ 6) : ∃ t, ruleThreshold fix sa c mode = .ok t := by
  by_cases h1 : mode = 1
  · exact ⟨c, by simp [ruleThreshold, h1]⟩
  by_cases h2 : mode = 2
  · simp only [ruleThreshold, h2]
    rw [negIndex_eq sa 1 (le_refl _) hne]
    exact ⟨_, rfl⟩
  have hm' : mode = 3 ∨ mode = 4 ∨ mode = 5 ∨ mode = 6 := by omega
  have hcl : (cumsum (weights mode sa)).length = sa.length := by
    rw [cumsum_length, weights_length]
  obtain ⟨rhs, hrhs⟩ := condRhs_ok_of_ne_nil mode (cumsum (weights mode sa)) c (by omega)
  rw [ruleThreshold_cum_of hm' hrhs]
  apply negIndex_ok_of_le sa _ hne
  apply nChiAdjust_le fix _ hne
  rw [← hcl]
  exact countGe_le_length _ _

/-- whether `ruleThreshold` raises does not depend on the cutoff -/
theorem ruleThreshold_error_indep {fix : Bool} {sa : List Rat} {c1 c2 : Rat} {mode : Nat}
    {e : TruncErr} (h : ruleThreshold fix sa c1 mode = .error e) :
    ruleThreshold fix sa c2 mode = .error e := by
  by_cases hm : 1 ≤ mode ∧ mode ≤ 6
  · rcases Nat.eq_zero_or_pos sa.length with h0 | hpos
    · have : sa = [] := List.eq_nil_of_length_eq_zero h0
      subst this
      by_cases h1 : mode = 1
      · simp [ruleThreshold, h1] at h
      by_cases h2 : mode = 2
      · simp only [ruleThreshold, h2, negIndex_nil] at h ⊢
        exact h
      have hm' : mode = 3 ∨ mode = 4 ∨ mode = 5 ∨ mode = 6 := by omega
      have hw0 : cumsum (weights mode []) = [] := by
        unfold weights; split <;> rfl
      have key : ∀ c, ruleThreshold fix [] c mode = .error .index := by
        intro c
        unfold ruleThreshold
        simp only [h1, h2, if_false, hm', if_true]
        unfold nChiAll
        simp only
        cases hc : condRhs mode (cumsum (weights mode [])) c with
        | error e' =>
          simp only
          unfold condRhs at hc
          split at hc
          · rw [hw0, negIndex_nil] at hc
            simp only at hc; cases hc; rfl
          · cases hc
        | ok rhs => simp only [negIndex_nil]
      rw [key c1] at h
      rw [key c2]
      exact h
    · obtain ⟨t, ht⟩ := ruleThreshold_ok_of_ne_nil fix sa c1 mode hpos hm
      rw [ht] at h; cases h
  · have h1 : mode ≠ 1 := by omega
    have h2 : mode ≠ 2 := by omega
    have h3 : ¬ (mode = 3 ∨ mode = 4 ∨ mode = 5 ∨ mode = 6) := by omega
    simp only [ruleThreshold, h1, h2, h3, if_false] at h ⊢
    exact h

/-- the cutoff-rule threshold is monotone in the cutoff (no wrap-around at the larger one) -/
theorem ruleThreshold_mono {fix : Bool} {sa : List Rat} (hs : sa.Pairwise (· ≤ ·)) (hnn : NonNeg sa)
    {c1 c2 t1 t2 : Rat} {mode : Nat} (hc : c1 ≤ c2)
    (h1 : ruleThreshold fix sa c1 mode = .ok t1) (h2 : ruleThreshold fix sa c2 mode = .ok t2)
    (hnowrap : ∀ n, nChiAll mode sa c2 = .ok n → 1 ≤ nChiAdjust fix n) :
    t1 ≤ t2 := by
  by_cases hm1 : mode = 1
  · simp only [ruleThreshold, hm1, if_true] at h1 h2
    cases h1; cases h2; exact hc
  by_cases hm2 : mode = 2
  · simp only [ruleThreshold, hm2] at h1 h2
    cases htop : negIndex sa 1 with
    | error e => rw [htop] at h1; simp at h1
    | ok top =>
      rw [htop] at h1 h2
      simp only [Nat.reduceEqDiff, if_false, if_true] at h1 h2
      cases h1; cases h2
      have : 0 ≤ top := hnn top (negIndex_mem htop)
      exact mul_le_mul_of_nonneg_left hc this
  by_cases hm : mode = 3 ∨ mode = 4 ∨ mode = 5 ∨ mode = 6
  · obtain ⟨rhs1, hr1, hn1⟩ := ruleThreshold_cum_inv hm h1
    obtain ⟨rhs2, hr2, hn2⟩ := ruleThreshold_cum_inv hm h2
    have hw : NonNeg (weights mode sa) := weights_nonneg mode sa hnn
    have hrhs : rhs1 ≤ rhs2 := by
      rcases condRhs_inv hr1 with ⟨hm46, tot, htot, rfl⟩ | ⟨hm46, rfl⟩
      · rcases condRhs_inv hr2 with ⟨_, tot', htot', rfl⟩ | ⟨hm46', _⟩
        · rw [htot] at htot'; cases htot'
          have hmem := negIndex_mem htot
          have : (0 : Rat) ≤ tot := cumsumFrom_ge 0 _ hw tot hmem
          exact mul_le_mul_of_nonneg_right hc this
        · exact absurd hm46 hm46'
      · rcases condRhs_inv hr2 with ⟨hm46', _⟩ | ⟨_, rfl⟩
        · exact absurd hm46' hm46
        · exact hc
    have hcnt : countGe rhs2 (cumsum (weights mode sa)) ≤ countGe rhs1 (cumsum (weights mode sa)) :=
      countGe_anti hrhs _
    have hpos : 1 ≤ nChiAdjust fix (countGe rhs2 (cumsum (weights mode sa))) := by
      apply hnowrap
      unfold nChiAll
      simp only [hr2]
    exact negIndex_mono sa hs (nChiAdjust_mono fix hcnt) hpos hn1 hn2
  · simp only [ruleThreshold, hm1, hm2, hm, if_false] at h1
    cases h1

/-! ### the bond clamp -/

theorem bondClamp_ge (sa : List Rat) (t : Rat) (mb : Int) : t ≤ bondClamp sa t mb := by
  unfold bondClamp
  split
  · split
    · split
      · rename_i h; exact le_of_lt h
      · exact le_refl _
    · exact le_refl _
  · exact le_refl _

theorem bondClamp_mono (sa : List Rat) {t1 t2 : Rat} (h : t1 ≤ t2) (mb : Int) :
    bondClamp sa t1 mb ≤ bondClamp sa t2 mb := by
  unfold bondClamp
  split
  · split
    · rename_i b _
      split <;> split
      · exact le_refl _
      · rename_i h2; exact not_lt.mp h2
      · rename_i h1 h2; exact le_trans h (le_of_lt h2)
      · exact h
    · exact h
  · exact h

/-- with an effective bond limit the final threshold is at least the `mb`-th largest value -/
theorem bondClamp_ge_bond (sa : List Rat) (t : Rat) (mb : Nat) (h0 : 0 < mb) (h1 : mb < sa.length) :
    sa[sa.length - mb]'(by omega) ≤ bondClamp sa t (mb : Int) := by
  unfold bondClamp
  have hc : 0 < (mb : Int) ∧ (mb : Int) < (sa.length : Int) := by omega
  simp only [hc, and_self, if_true, Int.toNat_natCast]
  rw [negIndex_eq sa mb h0 (by omega)]
  simp only
  split
  · exact le_refl _
  · rename_i h; exact not_lt.mp h

theorem forall2_counts (s : List (Charge × List Rat)) {t1 t2 : Rat} (h : t1 ≤ t2) :
    List.Forall₂ (· ≤ ·) (s.map (fun p => countGe t2 p.2)) (s.map (fun p => countGe t1 p.2)) := by
  induction s with
  | nil => exact List.Forall₂.nil
  | cons p ps ih => exact List.Forall₂.cons (countGe_anti h _) ih


/-! ### `calc_sub_max_bonds` -/

theorem sumNat_cons (a : Nat) (l : List Nat) : sumNat (a :: l) = a + sumNat l := rfl

theorem sumNat_bump (l : List Nat) (i : Nat) (h : i < l.length) : sumNat (bump l i) = sumNat l + 1 := by
  unfold bump
  induction l generalizing i with
  | nil => simp at h
  | cons a as ih =>
    cases i with
    | zero => simp only [List.modify_zero_cons, sumNat_cons]; omega
    | succ i =>
      simp only [List.modify_succ_cons, sumNat_cons]
      rw [ih i (by simpa using h)]
      omega

theorem length_bump (l : List Nat) (i : Nat) : (bump l i).length = l.length := by
  unfold bump; exact List.length_modify _ _ _

theorem length_foldl_bump (idxs : List Nat) (l : List Nat) : (idxs.foldl bump l).length = l.length := by
  induction idxs generalizing l with
  | nil => rfl
  | cons j js ih => simp only [List.foldl_cons]; rw [ih, length_bump]

theorem sumNat_foldl_bump (idxs : List Nat) (l : List Nat) (h : ∀ i ∈ idxs, i < l.length) :
    sumNat (idxs.foldl bump l) = sumNat l + idxs.length := by
  induction idxs generalizing l with
  | nil => rfl
  | cons j js ih =>
    simp only [List.foldl_cons, List.length_cons]
    rw [ih (bump l j) (by intro i hi; rw [length_bump]; exact h i (by simp [hi]))]
    rw [sumNat_bump l j (h j (by simp))]
    omega

theorem getElem?_bump (l : List Nat) (j i : Nat) :
    (bump l j)[i]? = (l[i]?).map (fun x => if j = i then x + 1 else x) := by
  unfold bump
  rw [List.getElem?_modify]
  rfl

theorem getElem?_foldl_bump (idxs : List Nat) (l : List Nat) (hnd : idxs.Nodup) (i : Nat) :
    (idxs.foldl bump l)[i]? = (l[i]?).map (fun x => if i ∈ idxs then x + 1 else x) := by
  induction idxs generalizing l with
  | nil => simp
  | cons j js ih =>
    rw [List.nodup_cons] at hnd
    simp only [List.foldl_cons]
    rw [ih (bump l j) hnd.2, getElem?_bump]
    cases l[i]? with
    | none => rfl
    | some x =>
      simp only [Option.map_some, Option.some.injEq, List.mem_cons]
      by_cases hji : j = i
      · subst hji
        simp [hnd.1]
      · have : ¬ i = j := fun h => hji h.symm
        simp [hji, this]

theorem argsortNat_perm (l : List Nat) : (argsortNat l).Perm (List.range l.length) :=
  isort_perm _ _

theorem baseSplit_length (sizes : List Nat) (mb : Nat) : (baseSplit sizes mb).length = sizes.length := by
  simp [baseSplit]

theorem base_sum_le (l : List Nat) (mb T : Nat) :
    sumNat (l.map (fun sz => mb * sz / T)) * T ≤ mb * sumNat l := by
  induction l with
  | nil => simp [sumNat]
  | cons a as ih =>
    simp only [List.map_cons, sumNat_cons]
    have := Nat.div_mul_le_self (mb * a) T
    rw [Nat.add_mul, Nat.mul_add]
    omega

theorem base_sum_ge (l : List Nat) (mb T : Nat) (hT : 0 < T) :
    mb * sumNat l ≤ (sumNat (l.map (fun sz => mb * sz / T)) + l.length) * T := by
  induction l with
  | nil => simp [sumNat]
  | cons a as ih =>
    simp only [List.map_cons, sumNat_cons, List.length_cons]
    have h1 : mb * a < (mb * a / T + 1) * T := by
      have := Nat.div_add_mod (mb * a) T
      have := Nat.mod_lt (mb * a) hT
      rw [Nat.add_mul, Nat.mul_comm (mb * a / T) T]
      omega
    have e : (mb * a / T + sumNat (List.map (fun sz => mb * sz / T) as) + (as.length + 1)) * T
        = (mb * a / T + 1) * T + (sumNat (List.map (fun sz => mb * sz / T) as) + as.length) * T := by
      ring
    rw [e, Nat.mul_add]
    omega

/-- the three facts about the proportional split that everything else uses -/
theorem split_facts (sizes : List Nat) (mb : Nat) (h : mb < sumNat sizes) :
    sumNat (baseSplit sizes mb) ≤ mb ∧ mb - sumNat (baseSplit sizes mb) ≤ sizes.length := by
  have hT : 0 < sumNat sizes := by omega
  have h1 := base_sum_le sizes mb (sumNat sizes)
  have h2 := base_sum_ge sizes mb (sumNat sizes) hT
  have a1 : sumNat (baseSplit sizes mb) ≤ mb := by
    unfold baseSplit
    exact Nat.le_of_mul_le_mul_right h1 hT
  have a2 : mb ≤ sumNat (baseSplit sizes mb) + sizes.length := by
    unfold baseSplit
    exact Nat.le_of_mul_le_mul_right h2 hT
  exact ⟨a1, by omega⟩

theorem calcSubMaxBonds_eq (sizes : List Nat) (mb : Nat) (h : mb < sumNat sizes) :
    calcSubMaxBonds sizes (mb : Int) =
      ((argsortNat (baseSplit sizes mb)).take (mb - sumNat (baseSplit sizes mb))).foldl bump
        (baseSplit sizes mb) := by
  unfold calcSubMaxBonds
  have h1 : ¬ ((mb : Int) < 0) := by omega
  have h2 : ¬ (sumNat sizes ≤ mb) := by omega
  simp only [h1, if_false, Int.toNat_natCast, h2]

/-! ### shape of the result -/

theorem keepCountsG_eq {fix : Bool} {s : List (Charge × List Rat)} {cutoff : Rat} {mode : Nat}
    {mb : Int} {t : Rat} (ht : threshold fix s cutoff mode mb = .ok t) :
    keepCountsG fix s cutoff mode mb = s.map (fun p => countGe t p.2) := by
  unfold keepCountsG; rw [ht]

theorem keptValues_map (s : List (Charge × List Rat)) (g : Charge × List Rat → Nat) :
    keptValues s (s.map g) = s.map (fun p => p.2.take (g p)) := by
  unfold keptValues
  induction s with
  | nil => rfl
  | cons p ps ih => simp only [List.map_cons, List.zipWith_cons_cons, ih]

theorem droppedValues_map (s : List (Charge × List Rat)) (g : Charge × List Rat → Nat) :
    droppedValues s (s.map g) = s.map (fun p => p.2.drop (g p)) := by
  unfold droppedValues
  induction s with
  | nil => rfl
  | cons p ps ih => simp only [List.map_cons, List.zipWith_cons_cons, ih]

theorem sortedDesc_mono_pred {l : List Rat} (hs : SortedDesc l) (t : Rat) :
    l.Pairwise (fun a b => leRat t b = true → leRat t a = true) := by
  unfold SortedDesc at hs
  refine hs.imp ?_
  intro a b hba hb
  simp only [leRat, decide_eq_true_eq] at hb ⊢
  exact le_trans hb hba


/-- `cum_spow[-1]` is the total weight -/
theorem cumsum_last (w : List Rat) (h : 0 < w.length) : negIndex (cumsum w) 1 = .ok w.sum := by
  have hcl : (cumsum w).length = w.length := cumsum_length w
  rw [negIndex_eq _ 1 (le_refl _) (by omega)]
  have := cumsumFrom_getElem 0 w (w.length - 1) (by omega)
  have e : w.length - 1 + 1 = w.length := by omega
  rw [e, List.take_length, zero_add] at this
  simp only [hcl]
  unfold cumsum
  rw [this]

/-- `count_nonzero(cumsum(w) >= rhs)` for non-negative weights: the cumulative weights are below
    `rhs` exactly on the first `len - n` positions -/
theorem cum_split (w : List Rat) (hwn : NonNeg w) (rhs : Rat) :
    (∀ j, j < w.length - countGe rhs (cumsum w) → (w.take (j + 1)).sum < rhs) ∧
    (∀ j, w.length - countGe rhs (cumsum w) ≤ j → j < w.length → rhs ≤ (w.take (j + 1)).sum) := by
  have hcl : (cumsum w).length = w.length := cumsum_length w
  have hsorted : (cumsum w).Pairwise (· ≤ ·) := cumsumFrom_sorted 0 w hwn
  have hmono : (cumsum w).Pairwise (fun a b => leRat rhs a = true → leRat rhs b = true) := by
    refine hsorted.imp ?_
    intro a b hab ha
    simp only [leRat, decide_eq_true_eq] at ha ⊢
    exact le_trans ha hab
  obtain ⟨f1, f2⟩ := filter_eq_drop_of_asc (fun v => leRat rhs v) (cumsum w) hmono
  have hcum : ∀ j (hj : j < w.length), (cumsum w)[j]'(by omega) = (w.take (j + 1)).sum := by
    intro j hj
    have := cumsumFrom_getElem 0 w j hj
    unfold cumsum
    rw [this, zero_add]
  have hc : (cumsum w).countP (fun v => leRat rhs v) = countGe rhs (cumsum w) := rfl
  rw [hc, hcl] at f1 f2
  constructor
  · intro j hj
    have hm' : (cumsum w)[j]'(by omega) ∈ (cumsum w).take (w.length - countGe rhs (cumsum w)) :=
      List.mem_take_iff_getElem.mpr ⟨j, by omega, rfl⟩
    have := f2 _ hm'
    rw [hcum j (by omega)] at this
    simpa [leRat] using this
  · intro j hj1 hj2
    have hm' : (cumsum w)[j]'(by omega) ∈ (cumsum w).drop (w.length - countGe rhs (cumsum w)) := by
      rw [List.mem_iff_getElem]
      refine ⟨j - (w.length - countGe rhs (cumsum w)), ?_, ?_⟩
      · simp only [List.length_drop]; omega
      · rw [List.getElem_drop]; congr 1; omega
    rw [← f1] at hm'
    have := (List.mem_filter.mp hm').2
    rw [hcum j hj2] at this
    simpa [leRat] using this


theorem nonNeg_sall {s : List (Charge × List Rat)} (h : ∀ p ∈ s, NonNeg p.2) : NonNeg (sall s) := by
  intro x hx
  have := (sall_perm s).mem_iff.mp hx
  obtain ⟨p, hp, hxp⟩ := List.mem_flatMap.mp this
  exact h p hp x hxp


end SymmModel.TruncLemmas
