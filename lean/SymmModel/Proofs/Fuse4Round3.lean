/-
  SymmModel.Proofs.Fuse4Round3 — one step of the fermionic unfuse against the abelian unfuse of a
  sign-free array with the same sectors: values agree up to the explicit sign of the step.
-/
import SymmModel.Proofs.Fuse4Round2
namespace SymmModel
namespace FuseP
set_option linter.unusedSectionVars false
open SymmModel.KoszulP SymmModel.Lazy

variable {R : Type} [Zero R] [Neg R] [LawfulNeg R]

/-- `Z` (fermionic, valid) carries, up to signs, the values of the sign-free array `X` -/
structure FRel (Z X : Arr R) : Prop where
  zvalid : Z.validB = true
  zfermi : Z.fermi = true
  xcore : ValidP.Core X
  xph : X.phases = []
  shape : ShapeEq Z X
  zero : ∀ K V, alookup X.blocks K = some V → ∀ J, inBox V.shape J = true → X.elem K J = 0 → Z.elem K J = 0

theorem shapeEq_phaseSync (Z : Arr R) : ShapeEq Z.phaseSync Z := by
  refine ⟨rfl, fun K => ?_⟩
  rw [phaseSync_blocks_eq, Lazy.alookup_map_val (syncBlk Z)]
  cases alookup Z.blocks K with
  | none => rfl
  | some b =>
    simp only [Option.map_some, Option.some.injEq, syncBlk]
    split <;> rfl

theorem ShapeEq.trans {A B C : Arr R} (h1 : ShapeEq A B) (h2 : ShapeEq B C) : ShapeEq A C :=
  ⟨h1.1.trans h2.1, fun K => (h1.2 K).trans (h2.2 K)⟩

theorem stepF {Z X X' : Arr R} (h : FRel Z X) {p : Nat} {ix : Index} {subs : List Index} {exts : Extents}
    (hix : X.indices[p]? = some ix) (hsub : ix.sub = some (subs, exts)) (hX : unfuseA X p = .ok X') :
    ∃ Z', Arr.unfuseF Z p = .ok Z' ∧ FRel Z' X' ∧ Z'.sym = Z.sym
      ∧ (Z'.charge = Z.charge ∧ Z'.oddpos = Z.oddpos)
      ∧ ∀ ns B, alookup X.blocks ns = some B → ∀ e ss st d, alookup exts (ns.getD p (0, 0)) = some e →
          startOf e ss = some (st, d) → ∀ σ : Int, (σ = 1 ∨ σ = -1) →
          (∀ J, inBox B.shape J = true → Z.elem ns J = sgnI σ (X.elem ns J)) →
          ∃ subshape, Arr.blockShape? subs ss = some subshape
            ∧ ∀ J, inBox (replaceWithSeq B.shape p subshape) J = true →
                Z'.elem (replaceWithSeq ns p ss) J
                  = sgnI (unfuseSign Z ix subs p (replaceWithSeq ns p ss) * σ)
                      (X'.elem (replaceWithSeq ns p ss) J) := by
  have hvX : ValidArr X := validArr_of_core h.xcore
  have hixZ : Z.indices[p]? = some ix := by rw [h.shape.1]; exact hix
  obtain ⟨y, hy, hyidx, hA, hB'⟩ := unfuseF_elemM Z p ix subs exts h.zvalid hixZ hsub
  obtain ⟨x, hx, hxidx, _, _, _, hxph, _, hAx, hBx⟩ := unfuseU hvX hix hsub
  rw [hX] at hx; simp only [Except.ok.injEq] at hx; subst hx
  have hxph' : X'.phases = [] := by rw [hxph]; exact h.xph
  -- the abelian unfuse of the synchronised fermionic array
  have hVZ := (ValidP.validB_iff Z).1 h.zvalid
  have hVs := ValidP.phaseSync_valid Z hVZ
  have hvs : ValidArr Z.phaseSync := validArr_of_core hVs.core
  have hixs : Z.phaseSync.indices[p]? = some ix := hixZ
  obtain ⟨new, hnew, _⟩ := unfuseU hvs hixs hsub
  have hyeq := unfuseF_eq Z p hixZ hsub hnew
  rw [hy] at hyeq
  simp only [Except.ok.injEq] at hyeq
  have hSnew : ShapeEq new X' :=
    shapeEq_unfuse ((shapeEq_phaseSync Z).trans h.shape) hvs hvX hix hsub hnew hX
  have hSy : ShapeEq y X' := by
    rw [hyeq]
    split
    · refine ⟨?_, ?_⟩
      · show ((new.phaseFlip _).phaseTranspose _).indices = _
        rw [← hSnew.1]; exact (ValidP.phaseFlip_fields _ _).1
      · intro K
        show (alookup (new.phaseFlip _).blocks K).map _ = _
        rw [phaseFlip_blocks]; exact hSnew.2 K
    · exact hSnew
  have hysym : y.sym = Z.sym := by
    rw [hyeq]
    split
    · show (new.phaseFlip _).sym = _
      rw [(ValidP.phaseFlip_fields _ _).2.1]
      have := (unfuseU hvs hixs hsub)
      obtain ⟨n2, hn2, _, hs2, _⟩ := this
      rw [hnew] at hn2; simp only [Except.ok.injEq] at hn2; subst hn2
      exact hs2
    · have := (unfuseU hvs hixs hsub)
      obtain ⟨n2, hn2, _, hs2, _⟩ := this
      rw [hnew] at hn2; simp only [Except.ok.injEq] at hn2; subst hn2
      exact hs2
  have hylab : y.charge = Z.charge ∧ y.oddpos = Z.oddpos := by
    obtain ⟨n2, hn2, _, _, _, hc2, _, ho2, _⟩ := unfuseU hvs hixs hsub
    rw [hnew] at hn2; simp only [Except.ok.injEq] at hn2; subst hn2
    rw [hyeq]
    split
    · exact ⟨by
        show (new.phaseFlip _).charge = _
        rw [(ValidP.phaseFlip_fields _ _).2.2.1]; exact hc2, by
        show (new.phaseFlip _).oddpos = _
        rw [(ValidP.phaseFlip_fields _ _).2.2.2.1]; exact ho2⟩
    · exact ⟨hc2, ho2⟩
  obtain ⟨hVy, hfy⟩ := ValidP.unfuseF_valid' Z y p hVZ h.zfermi hy
  -- value of `X'` at a piece
  have hXval : ∀ ns B, alookup X.blocks ns = some B → ∀ e ss st d, alookup exts (ns.getD p (0, 0)) = some e →
      startOf e ss = some (st, d) →
      ∃ subshape, Arr.blockShape? subs ss = some subshape ∧ prod subshape = d
        ∧ alookup X'.blocks (replaceWithSeq ns p ss) = some (pieceU B p st d subshape)
        ∧ ∀ J, inBox (replaceWithSeq B.shape p subshape) J = true →
            X'.elem (replaceWithSeq ns p ss) J
              = X.elem ns (J.take p ++ [st + ravel subshape ((J.drop p).take subshape.length)]
                  ++ J.drop (p + subshape.length)) := by
    intro ns B hl e ss st d he hst
    obtain ⟨subshape, h1, h2, h3, h4⟩ := hAx (ns, B) (alookup_some_mem hl) e ss st d he hst
    refine ⟨subshape, h1, h2, h3, ?_⟩
    intro J hJ
    rw [elem_of_synced _ hxph', h3, elem_of_synced _ h.xph, hl]
    exact h4 J hJ
  refine ⟨y, hy, ⟨(ValidP.validB_iff y).2 hVy, hfy, ValidP.unfuseA_core X X' p h.xcore hX, hxph', hSy, ?_⟩,
    hysym, hylab, ?_⟩
  · -- zeros stay zeros
    intro K' V' hl' J hJ h0
    obtain ⟨nsB, hm, e, ss, st, d, he, hst, hK, hV⟩ := hBx K' V' hl'
    have hlk : alookup X.blocks nsB.1 = some nsB.2 := alookup_of_mem_nodup hvX.nodup hm
    obtain ⟨subshape, h1, h2, h3, h4⟩ := hXval nsB.1 nsB.2 hlk e ss st d he hst
    have hsub' : (Arr.blockShape? subs ss).getD [] = subshape := by rw [h1]; rfl
    rw [hsub'] at hV
    subst hV
    have hJ' : inBox (replaceWithSeq nsB.2.shape p subshape) J = true := hJ
    -- the matching block of `Z`
    have hs := h.shape.2 nsB.1
    rw [hlk] at hs
    cases hz : alookup Z.blocks nsB.1 with
    | none => rw [hz] at hs; simp at hs
    | some bz =>
      rw [hz] at hs
      simp only [Option.map_some, Option.some.injEq] at hs
      obtain ⟨subshape2, g1, _, g3⟩ := hA nsB.1 bz (alookup_some_mem hz) e ss st d he hst
      rw [h1] at g1; simp only [Option.some.injEq] at g1; subst g1
      rw [hK, g3 J (by rw [hs]; exact hJ')]
      obtain ⟨_, _, _, e', he', hext⟩ := block_at_axis hvX hix hsub hm
      rw [he] at he'; simp only [Option.some.injEq] at he'; subst he'
      have hpB : p < nsB.2.shape.length := by
        have := block_at_axis hvX hix hsub hm
        omega
      have hbound : st + d ≤ nsB.2.shape.getD p 0 := by
        have := startOf_bound hst; rw [hext.total] at this; exact this
      obtain ⟨hcbox, _⟩ := collapse_inBox hpB h2 hbound hJ'
      rw [hK, h4 J hJ'] at h0
      rw [h.zero nsB.1 nsB.2 hlk _ hcbox h0]
      exact sgnI_zero _
  · -- signs multiply
    intro ns B hl e ss st d he hst σ hσ hrel
    obtain ⟨subshape, h1, h2, h3, h4⟩ := hXval ns B hl e ss st d he hst
    refine ⟨subshape, h1, ?_⟩
    intro J hJ
    have hs := h.shape.2 ns
    rw [hl] at hs
    cases hz : alookup Z.blocks ns with
    | none => rw [hz] at hs; simp at hs
    | some bz =>
      rw [hz] at hs
      simp only [Option.map_some, Option.some.injEq] at hs
      obtain ⟨subshape2, g1, _, g3⟩ := hA ns bz (alookup_some_mem hz) e ss st d he hst
      rw [h1] at g1; simp only [Option.some.injEq] at g1; subst g1
      rw [g3 J (by rw [hs]; exact hJ), h4 J hJ]
      have hm : (ns, B) ∈ X.blocks := alookup_some_mem hl
      obtain ⟨_, _, _, e', he', hext⟩ := block_at_axis hvX hix hsub hm
      rw [he] at he'; simp only [Option.some.injEq] at he'; subst he'
      have hpB : p < B.shape.length := by
        have := block_at_axis hvX hix hsub hm
        simp only at this
        omega
      have hbound : st + d ≤ B.shape.getD p 0 := by
        have := startOf_bound hst; rw [hext.total] at this; exact this
      obtain ⟨hcbox, _⟩ := collapse_inBox hpB h2 hbound hJ
      rw [hrel _ hcbox, sgnI_mul (unfuseSign_pm _ _ _ _ _) hσ]

end FuseP
end SymmModel
