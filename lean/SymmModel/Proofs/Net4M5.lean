/-
  SymmModel.Proofs.Net4M5 — "several indices at once or one after another": the frame part.
  Contracting the pairs `xa ~ xb` by `tensordotF` and then the remaining pairs by the single-array
  `einsumF` gives the labels, total charge, symmetry and kind of contracting `xa ++ ya ~ xb ++ yb`
  at once.  (The values are NOT compared here.)  Namespace `SymmModel.Net4P`.
-/
import SymmModel.Proofs.Net4M1
import SymmModel.Proofs.LazyMore
import SymmModel.Proofs.ValidMore2Einsum

namespace SymmModel
namespace Net4P
open TdotP GradedP RoutesP KoszulP AssocP Assoc2P Assoc3P
set_option linter.unusedSectionVars false

variable {R : Type}

/-- the frame of a blockwise call under the weak guard -/
theorem call_frame [AddCommMonoid R] [Mul R] [Neg R] [SignRing R] {a b c : Arr R} {xa xb : List Nat}
    (W : AdmW a b xa xb) (h : tdM .blockwise a b xa xb = .ok c) :
    ∃ r, OddposP.mergeOddpos a.parity a.oddpos b.oddpos = .ok r ∧ c.oddpos = r.1
      ∧ c.charge = a.sym.combine [a.charge, b.charge] ∧ c.sym = a.sym ∧ c.fermi = a.fermi := by
  have F := coreT_frame_w a b xa xb W
  unfold tdM at h
  rw [tensordotF_eq_core_w a b xa xb W] at h
  cases hmo : OddposP.mergeOddpos a.parity a.oddpos b.oddpos with
  | error e => rw [hmo] at h; cases h
  | ok r =>
    rw [hmo] at h
    simp only [Except.map, Except.ok.injEq] at h
    subst h
    obtain ⟨k1, k2, k3, _, _, k6⟩ := AssocP.finish_fields (coreT a b xa xb) r
    exact ⟨r, rfl, k6, by rw [k1, F.charge], by rw [k2, F.sym], by rw [k3, F.fermi]⟩

/-- the single-array fermionic einsum keeps labels, charge, symmetry and kind -/
theorem einsumF_frame [Zero R] [Add R] [Neg R] {c e : Arr R} {lhs rhs : List Nat}
    (h : c.einsumF lhs rhs = .ok e) :
    e.oddpos = c.oddpos ∧ e.charge = c.charge ∧ e.sym = c.sym ∧ e.fermi = c.fermi := by
  rw [Lazy.einsumF_eq] at h
  split at h
  · cases h
  · obtain ⟨perm, _, _, rfl⟩ := ValidP.einsumA_ok h
    exact ⟨rfl, rfl, rfl, rfl⟩

/-- **two steps versus at once, frame part** -/
theorem two_step_frame [AddCommMonoid R] [Mul R] [Neg R] [SignRing R] {a b c e c' : Arr R}
    {xa xb ya yb lhs rhs : List Nat}
    (W : AdmW a b xa xb) (W' : AdmW a b (xa ++ ya) (xb ++ yb))
    (h1 : tdM .blockwise a b xa xb = .ok c) (h2 : c.einsumF lhs rhs = .ok e)
    (h3 : tdM .blockwise a b (xa ++ ya) (xb ++ yb) = .ok c') :
    e.oddpos = c'.oddpos ∧ e.charge = c'.charge ∧ e.sym = c'.sym ∧ e.fermi = c'.fermi := by
  obtain ⟨r, m, o, ch, s, f⟩ := call_frame W h1
  obtain ⟨r', m', o', ch', s', f'⟩ := call_frame W' h3
  obtain ⟨eo, ec, es, ef⟩ := einsumF_frame h2
  rw [m] at m'
  obtain rfl := Except.ok.inj m'
  exact ⟨by rw [eo, o, o'], by rw [ec, ch, ch'], by rw [es, s, s'], by rw [ef, f, f']⟩

end Net4P
end SymmModel
