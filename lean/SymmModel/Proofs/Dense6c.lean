/-
  SymmModel.Proofs.Dense6c — reshape at position level for every plan (unfuse calls, fuse calls,
  expand calls), and the dense round trip (property C08, sixth part).

  `Img a y Rel` : the dense form of `y` is the image of the dense form of `a` under the position
  relation `Rel` — every non-zero entry of `dense a` has a `Rel`-image in `dense y` with the same
  entry, and every entry of `dense y` is `0` or such an image.  It composes (`Img.comp`), and each
  step of a reshape plan gives one (`img_fuse`, `img_unfuse`, `img_expand`).

  New names live in `SymmModel.Dense6`.
-/
import SymmModel.Proofs.Dense6b
import SymmModel.Props.C07g

namespace SymmModel
namespace Dense6
open Arr DenseP Dense3 Dense4 Dense5 FuseP

variable {R : Type}

/-! ## equal value views have equal dense forms -/

theorem toDenseA_of_veq [Zero R] [Neg R] [Lazy.LawfulNeg R] {a b : Arr R} (h : VEq a b) :
    toDenseA a = toDenseA b := by
  unfold toDenseA
  rw [h.indices]
  have hs : a.shape = b.shape := by simp [Arr.shape, h.indices]
  rw [hs]
  split
  · rfl
  · congr 2
    funext p
    cases locateAll b.indices p with
    | none => rfl
    | some so => simp [h.elem]

/-! ## images -/

section
variable [Zero R] [Neg R]

def Img (a y : Arr R) (Rel : List Nat → List Nat → Prop) : Prop :=
  ∃ dA dY, toDenseA a = .ok dA ∧ toDenseA y = .ok dY ∧ dA.shape = a.shape ∧ dY.shape = y.shape
    ∧ (∀ p, inBox a.shape p = true → dA.get p ≠ 0 →
        ∃ P, inBox y.shape P = true ∧ Rel p P ∧ dY.get P = dA.get p)
    ∧ (∀ P, inBox y.shape P = true → dY.get P = 0 ∨
        ∃ p, inBox a.shape p = true ∧ Rel p P ∧ dY.get P = dA.get p)

theorem Img.refl (a : Arr R) (hne : C08.NoEmpty a) : Img a a (fun p P => p = P) := by
  obtain ⟨d, hd, hs, _⟩ := C08.toDenseA_get a hne
  exact ⟨d, d, hd, hd, hs, hs, fun p hp _ => ⟨p, hp, rfl, rfl⟩, fun P hP => Or.inr ⟨P, hP, rfl, rfl⟩⟩

theorem Img.comp {a x y : Arr R} {R1 R2 : List Nat → List Nat → Prop} (h1 : Img a x R1)
    (h2 : Img x y R2) : Img a y (fun p P => ∃ P1, R1 p P1 ∧ R2 P1 P) := by
  obtain ⟨dA, dX, e1, e2, s1, s2, f1, b1⟩ := h1
  obtain ⟨dX', dY, e3, e4, s3, s4, f2, b2⟩ := h2
  rw [e2] at e3; injection e3 with e3; subst e3
  refine ⟨dA, dY, e1, e4, s1, s4, ?_, ?_⟩
  · intro p hp hnz
    obtain ⟨P1, hP1, r1, v1⟩ := f1 p hp hnz
    obtain ⟨P, hP, r2, v2⟩ := f2 P1 hP1 (by rw [v1]; exact hnz)
    exact ⟨P, hP, ⟨P1, r1, r2⟩, by rw [v2, v1]⟩
  · intro P hP
    rcases b2 P hP with h0 | ⟨P1, hP1, r2, v2⟩
    · exact Or.inl h0
    · rcases b1 P1 hP1 with h0 | ⟨p, hp, r1, v1⟩
      · left; rw [v2, h0]
      · exact Or.inr ⟨p, hp, ⟨P1, r1, r2⟩, by rw [v2, v1]⟩

/-- a non-zero dense entry lies in a stored sector -/
theorem stored_of_ne_zero (a : Arr R) (hpa : a.phases = []) (hne : C08.NoEmpty a) (d : Blk R)
    (hd : toDenseA a = .ok d) (p : List Nat) (hp : inBox a.shape p = true) (hnz : d.get p ≠ 0) :
    ∃ s offs, locateAll a.indices p = some (s, offs) ∧ s ∈ a.sectors := by
  obtain ⟨d0, e0, _, hg⟩ := C08.toDenseA_get a hne
  rw [hd] at e0; injection e0 with e0; subst e0
  obtain ⟨s, offs, hl, hv⟩ := hg p hp
  refine ⟨s, offs, hl, ?_⟩
  by_contra hs
  apply hnz
  rw [hv, Arr.elem_abelian a hpa, alookup_eq_none_iff.mpr hs]

/-- the position relation of one unfuse call -/
def UPosRel (x y : Arr R) (axis : Nat) (P q : List Nat) : Prop :=
  ∃ (ix : Index) (ns : Sector) (i : List Nat) (ss : Sector) (so : List Nat),
    x.indices[axis]? = some ix ∧ locateAll x.indices P = some (ns, i) ∧ ns ∈ x.sectors
    ∧ splitAddr ix (ns.getD axis (0, 0)) (i.getD axis 0) = some (ss, so)
    ∧ locateAll y.indices q = some (replaceWithSeq ns axis ss, replaceWithSeq i axis so)

theorem img_fuse (a x : Arr R) (g : List (List Nat)) (hv : a.validB = true) (hf : a.fermi = false)
    (hne : C08.NoEmpty a) (hg : C05.groupsOkB g a.ndim = true) (hx : fuseCore a g .insert = .ok x)
    (hnex : C08.NoEmpty x) : Img a x (PosRel a x g) := by
  obtain ⟨dA, dX, e1, e2, s1, s2, fwd, bwd⟩ := C08.fuse_toDense a g hv hg hf hne x hx hnex
  have hpa : a.phases = [] := (C08.hypotheses_of_validB a hv).2.2.2 hf
  refine ⟨dA, dX, e1, e2, s1, s2, ?_, ?_⟩
  · intro p hp hnz
    obtain ⟨s, offs, hl, hs⟩ := stored_of_ne_zero a hpa hne dA e1 p hp hnz
    obtain ⟨P, ns, i, hP, hlP, hns, r1, r2, r3, r4, hval⟩ := fwd p hp s offs hl hs
    exact ⟨P, hP, posRel_of_fuseRel hl hs hlP hns ⟨r1, r2, r3, r4⟩, hval⟩
  · intro P hP
    obtain ⟨ns, i, hlP⟩ := locateAll_isSome (idx := x.indices) (p := P) hP
    rcases bwd P hP ns i hlP with h0 | ⟨p, s, offs, segs, hp, hl, hs, hnsx, q1, q2, q3, q4, hval⟩
    · exact Or.inl h0
    · exact Or.inr ⟨p, hp, ⟨s, offs, ns, i, segs, hl, hs, hlP, hnsx, q1, q2, q3, q4⟩, hval⟩

theorem img_unfuse (x y : Arr R) (axis : Nat) (ix : Index) (subs : List Index) (exts : Extents)
    (hv : x.validB = true) (hf : x.fermi = false) (hix : x.indices[axis]? = some ix)
    (hsub : ix.sub = some (subs, exts)) (hnex : C08.NoEmpty x) (hy : unfuseA x axis = .ok y)
    (hney : C08.NoEmpty y) : Img x y (UPosRel x y axis) := by
  obtain ⟨dX, dY, e1, e2, s1, s2, _, fwd, bwd⟩ :=
    C08.unfuse_toDense x axis ix subs exts hv hf hix hsub hnex y hy hney
  have hpx : x.phases = [] := (C08.hypotheses_of_validB x hv).2.2.2 hf
  refine ⟨dX, dY, e1, e2, s1, s2, ?_, ?_⟩
  · intro P hP hnz
    obtain ⟨ns, i, hl, hs⟩ := stored_of_ne_zero x hpx hnex dX e1 P hP hnz
    obtain ⟨q, ss, so, hq, hsp, hlq, hval⟩ := fwd P hP ns i hl hs
    exact ⟨q, hq, ⟨ix, ns, i, ss, so, hix, hl, hs, hsp, hlq⟩, hval⟩
  · intro q hq
    obtain ⟨K, J, hlq⟩ := locateAll_isSome (idx := y.indices) (p := q) hq
    rcases bwd q hq K J hlq with h0 | ⟨P, ns, i, ss, so, hP, hlP, hns, hsp, hK, hJ, hval⟩
    · exact Or.inl h0
    · exact Or.inr ⟨P, hP, ⟨ix, ns, i, ss, so, hix, hlP, hns, hsp, by rw [← hK, ← hJ]; exact hlq⟩, hval⟩

theorem img_expand (a : Arr R) (axis : Nat) (c : Option Charge) (dual : Option Bool)
    (ha : axis ≤ a.ndim) (hv : a.validB = true) (hf : a.fermi = false) (hne : C08.NoEmpty a) :
    Img a (a.expandDims axis c dual) (fun p P => P = ins axis 0 p) := by
  obtain ⟨h1, h2, h3, h4⟩ := C08.hypotheses_of_validB a hv
  obtain ⟨d, d', e1, e2, s1, s2, hg⟩ := expandDims_toDense_any a axis c dual ha (h4 hf) h1 h2 h3 hne
  have hys : (a.expandDims axis c dual).shape = ins axis 1 a.shape := by
    obtain ⟨d0, e0, s0, _⟩ := C08.toDenseA_get (a.expandDims axis c dual) (by
      by_contra hc
      have : toDenseA (a.expandDims axis c dual) = .error Err.value :=
        toDenseA_error _ false (by simpa using hc)
      rw [e2] at this; cases this)
    rw [e2] at e0; injection e0 with e0; subst e0
    rw [← s0, s2]
  refine ⟨d, d', e1, e2, s1, by rw [s2, hys], ?_, ?_⟩
  · intro p hp _
    exact ⟨ins axis 0 p, by rw [hys]; exact inBox_ins hp axis (by simpa [Arr.shape, Arr.ndim] using ha),
      rfl, hg p hp⟩
  · intro P hP
    rw [hys] at hP
    obtain ⟨p, hp, rfl⟩ := inBox_ins_surj axis (by simpa [Arr.shape, Arr.ndim] using ha) hP
    exact Or.inr ⟨p, hp, rfl, hg p hp⟩

/-! ## plans -/

/-- one step of a reshape plan -/
inductive PStep where
  | unfuse (ax : Nat)
  | fuse (g : List (List Nat))
  | expand (ax : Nat)

/-- the steps of the plan `(unfuse axes, fuse calls, expand axes)` in execution order -/
def stepsOf (t : List Nat × List (List (List Nat)) × List Nat) : List PStep :=
  t.1.map PStep.unfuse ++ t.2.1.map PStep.fuse ++ t.2.2.map PStep.expand

/-- a step on an abelian array -/
def PStep.apply : PStep → Arr R → Except Err (Arr R)
  | .unfuse ax, a => unfuseA a ax
  | .fuse g, a => fuseCore a g .insert
  | .expand ax, a => pure (a.expandDims ax none none)

def runSteps (steps : List PStep) (a : Arr R) : Except Err (Arr R) :=
  steps.foldlM (fun x st => st.apply x) a

/-- every step is admissible for the array it is applied to, and no intermediate array has an
    empty charge table -/
def StepsOk : List PStep → Arr R → Prop
  | [], _ => True
  | .unfuse ax :: rest, a =>
      (∃ ix subs exts, a.indices[ax]? = some ix ∧ ix.sub = some (subs, exts))
      ∧ ∀ y, unfuseA a ax = .ok y → C08.NoEmpty y ∧ StepsOk rest y
  | .fuse g :: rest, a => C05.groupsOkB g a.ndim = true
      ∧ ∀ x, fuseCore a g .insert = .ok x → C08.NoEmpty x ∧ StepsOk rest x
  | .expand ax :: rest, a => ax ≤ a.ndim ∧ StepsOk rest (a.expandDims ax none none)

/-- the position relation of one step -/
def stepRel (st : PStep) (a y : Arr R) (p P : List Nat) : Prop :=
  match st with
  | .unfuse ax => UPosRel a y ax p P
  | .fuse g => PosRel a y g p P
  | .expand ax => P = ins ax 0 p

/-- the composed position relation of a list of steps -/
def stepsRel : List PStep → Arr R → List Nat → List Nat → Prop
  | [], _, p, P => p = P
  | st :: rest, a, p, P => ∃ y P1, st.apply a = .ok y ∧ stepRel st a y p P1 ∧ stepsRel rest y P1 P

/-- **dense form along a list of plan steps** -/
theorem steps_img (steps : List PStep) (a : Arr R) (hv : a.validB = true) (hf : a.fermi = false)
    (hne : C08.NoEmpty a) (hok : StepsOk steps a) (y : Arr R) (hy : runSteps steps a = .ok y) :
    y.validB = true ∧ y.fermi = false ∧ Img a y (stepsRel steps a) := by
  induction steps generalizing a with
  | nil =>
    simp only [runSteps, List.foldlM_nil, pure, Except.pure, Except.ok.injEq] at hy
    subst hy
    exact ⟨hv, hf, Img.refl a hne⟩
  | cons st rest ih =>
    simp only [runSteps, List.foldlM_cons, bind, Except.bind] at hy
    cases hx : st.apply a with
    | error e => rw [hx] at hy; cases hy
    | ok x =>
      rw [hx] at hy
      simp only at hy
      have hstep : x.validB = true ∧ x.fermi = false ∧ C08.NoEmpty x ∧ StepsOk rest x
          ∧ Img a x (stepRel st a x) := by
        cases st with
        | unfuse ax =>
          obtain ⟨⟨ix, subs, exts, hix, hsub⟩, hrest⟩ := hok
          have hx' : unfuseA a ax = .ok x := hx
          obtain ⟨hnex, hokx⟩ := hrest x hx'
          obtain ⟨y', hy', _, _, hyf, _⟩ := unfuseU (validArr_of_validB hv) hix hsub
          rw [hx'] at hy'; injection hy' with hy'; subst hy'
          exact ⟨ValidP.unfuseA_validB a x ax hv hf hx', by rw [hyf]; exact hf, hnex, hokx,
            img_unfuse a x ax ix subs exts hv hf hix hsub hne hx' hnex⟩
        | fuse g =>
          obtain ⟨hg, hrest⟩ := hok
          have hx' : fuseCore a g .insert = .ok x := hx
          obtain ⟨hnex, hokx⟩ := hrest x hx'
          obtain ⟨hxv, hxf⟩ := fuseCore_keeps hv hf hg hx'
          exact ⟨hxv, hxf, hnex, hokx, img_fuse a x g hv hf hne hg hx' hnex⟩
        | expand ax =>
          obtain ⟨ha, hokx⟩ := hok
          simp only [PStep.apply, pure, Except.pure, Except.ok.injEq] at hx
          subst hx
          obtain ⟨hidx, _, _, hfer, _, _, _⟩ := expandDims_fields a ax none none
          refine ⟨C01.expandDims_none_valid a ax none hv, by rw [hfer]; exact hf, ?_, hokx,
            img_expand a ax none none ha hv hf hne⟩
          show (a.expandDims ax none none).indices.any _ = false
          rw [hidx]
          have hne' : a.indices.any (fun ix => ix.cm.isEmpty) = false := hne
          rw [List.any_eq_false] at hne' ⊢
          intro ix hix
          rcases mem_ins hix with rfl | hix
          · simp [Index.cm]
          · exact hne' ix hix
      obtain ⟨hxv, hxf, hnex, hokx, himg⟩ := hstep
      obtain ⟨hyv, hyf, himg'⟩ := ih x hxv hxf hnex hokx hy
      refine ⟨hyv, hyf, ?_⟩
      obtain ⟨dA, dY, e1, e2, s1, s2, f, b⟩ := himg.comp himg'
      refine ⟨dA, dY, e1, e2, s1, s2, ?_, ?_⟩
      · intro p hp hnz
        obtain ⟨P, hP, ⟨P1, r1, r2⟩, v⟩ := f p hp hnz
        exact ⟨P, hP, ⟨x, P1, hx, r1, r2⟩, v⟩
      · intro P hP
        rcases b P hP with h0 | ⟨p, hp, ⟨P1, r1, r2⟩, v⟩
        · exact Or.inl h0
        · exact Or.inr ⟨p, hp, ⟨x, P1, hx, r1, r2⟩, v⟩

end

end Dense6
end SymmModel
