/-
  SymmModel.Proofs.FuseCommute4 — C06's first clause at the level of `_tensordot_blockwise`:
  for aligned operands `A`, `B` (`Ctx0`), fusing the contracted legs `xa` of `A` into ONE leg and
  the contracted legs `xb` of `B` into ONE leg (each where `_fuse_core` puts it: at the smallest
  contracted axis, free legs untouched) and contracting that single fused pair gives, at EVERY
  address of the free legs' table box, the element of the contraction over the original pairs.
  Namespace `SymmModel.TdotP`.
-/
import SymmModel.Proofs.FuseCommute3

namespace SymmModel
namespace TdotP
variable {R : Type}

namespace Ctx0
variable {A B : Arr R} {xa xb : List Nat}

theorem oneA (h : Ctx0 A B xa xb) (hne : xa ≠ []) : OneOk A xa := ⟨hne, h.nA, h.rA⟩

theorem oneB (h : Ctx0 A B xa xb) (hne : xa ≠ []) : OneOk B xb :=
  ⟨by intro e; have := h.len; rw [e] at this; exact hne (List.eq_nil_of_length_eq_zero this), h.nB, h.rB⟩

end Ctx0

/-- position of the fused contracted leg of `X` after `fuse(X, g)` -/
def bondPos (X : Arr R) (g : List Nat) : Nat := (FuseP.giM X [g]).position

/-- every stored sector of the fused operand carries, on the fused axis, a charge of the fused
    index -/
theorem one_cover [Zero R] {X : Arr R} {g : List Nat} (hvF : (FuseP.fusedArrM X [g]).validB = true)
    (h : OneOk X g) :
    ∀ sF ∈ (FuseP.fusedArrM X [g]).sectors,
      permuted sF [bondPos X g] ∈ (FuseP.ixM X [g] 0).cm.map (fun cd => [cd.1]) := by
  intro sF hsF
  obtain ⟨p, hp, rfl⟩ := List.mem_map.mp hsF
  have hsh := Arr.shapesOk_of_validB hvF p hp
  have hch := charges_of_blockShape? hsh
  have hl : p.1.length = FuseP.ndimM X [g] := by
    rw [(blockShape?_length hsh).1]; exact FuseP.newIdxM_length h.groupsOk
  have hpl := one_pos_lt_ndimM h
  have := forall₂_getD (r := fun (c : Charge × Index) (ix : Charge × Index) => c.1 ∈ ix.2.charges)
    (l := p.1.map (fun c => (c, (default : Index)))) (m := (FuseP.fusedArrM X [g]).indices.map (fun ix => ((0, 0), ix)))
  clear this
  -- read the Forall₂ at the fused position
  have key : p.1.getD (bondPos X g) (0, 0) ∈ ((FuseP.fusedArrM X [g]).indices.getD (bondPos X g) default).charges := by
    rw [List.forall₂_iff_get] at hch
    obtain ⟨hlen, hget⟩ := hch
    have h1 : bondPos X g < p.1.length := by rw [hl]; exact hpl
    have h2 : bondPos X g < (FuseP.fusedArrM X [g]).indices.length := by rw [← hlen]; exact h1
    have := hget (bondPos X g) h1 h2
    simp only [List.get_eq_getElem] at this
    rw [List.getD_eq_getElem?_getD, List.getD_eq_getElem?_getD, List.getElem?_eq_getElem h1,
      List.getElem?_eq_getElem h2]
    exact this
  have hix : (FuseP.fusedArrM X [g]).indices.getD (bondPos X g) default = FuseP.ixM X [g] 0 := rfl
  rw [hix] at key
  obtain ⟨cd, hcd, hcd'⟩ := List.mem_map.mp key
  refine List.mem_map.mpr ⟨cd, hcd, ?_⟩
  rw [permuted_eq_map _ _ (by
    intro x hx
    simp only [List.mem_cons, List.not_mem_nil, or_false] at hx
    rw [hx, hl]; exact hpl) ((0, 0) : Charge)]
  simp [hcd']

/-- **contracting the single fused pair = contracting the original pairs** (aligned abelian
    operands, blockwise level). -/
theorem bond_fuse_core [AddCommMonoid R] [Mul R] [Neg R]
    (hz1 : ∀ x : R, 0 * x = 0) (hz2 : ∀ x : R, x * 0 = 0) {A B : Arr R} {xa xb : List Nat}
    (h : Ctx0 A B xa xb) (hne : xa ≠ [])
    {Ls Rs : Sector} {oL oR shpL shpR : List Nat}
    (hshpL : Arr.blockShape? (permuted A.indices (freeAxes A.ndim xa)) Ls = some shpL)
    (hboxL : inBox shpL oL = true)
    (hshpR : Arr.blockShape? (permuted B.indices (freeAxes B.ndim xb)) Rs = some shpR)
    (hboxR : inBox shpR oR = true) :
    (tensordotBlockwise (FuseP.fusedArrM A [xa]) (FuseP.fusedArrM B [xb])
        (freeAxes (FuseP.fusedArrM A [xa]).ndim [bondPos A xa]) [bondPos A xa] [bondPos B xb]
        (freeAxes (FuseP.fusedArrM B [xb]).ndim [bondPos B xb])).elem (Ls ++ Rs) (oL ++ oR)
      = (tensordotBlockwise A B (freeAxes A.ndim xa) xa xb (freeAxes B.ndim xb)).elem (Ls ++ Rs) (oL ++ oR) := by
  have oA := h.oneA hne
  have oB := h.oneB hne
  have hokA := oA.groupsOk
  have hokB := oB.groupsOk
  have hvA := h.vaA
  have hvB := h.vaB
  have gA0 : ([xa] : List (List Nat))[0]? = some xa := rfl
  have gB0 : ([xb] : List (List Nat))[0]? = some xb := rfl
  have ean : A.indices.length = A.ndim := rfl
  have ebn : B.indices.length = B.ndim := rfl
  have hvaf := one_validB h.vA h.fA oA
  have hvbf := one_validB h.vB h.fB oB
  have nFA := one_ndim (R := R) oA
  have nFB := one_ndim (R := R) oB
  have hpA : (FuseP.fusedArrM A [xa]).phases = [] := h.phA
  have hpB : (FuseP.fusedArrM B [xb]).phases = [] := h.phB
  have hndK := cm_keys_nodup (ixM_wfB hvA hokA gA0)
  have hn1A : ([bondPos A xa] : List Nat).Nodup := by simp
  have hn1B : ([bondPos B xb] : List Nat).Nodup := by simp
  have hr1A : ∀ x ∈ ([bondPos A xa] : List Nat), x < (FuseP.fusedArrM A [xa]).ndim := by
    intro x hx
    simp only [List.mem_cons, List.not_mem_nil, or_false] at hx
    rw [hx, nFA]; exact one_pos_lt_ndimM oA
  have hr1B : ∀ x ∈ ([bondPos B xb] : List Nat), x < (FuseP.fusedArrM B [xb]).ndim := by
    intro x hx
    simp only [List.mem_cons, List.not_mem_nil, or_false] at hx
    rw [hx, nFB]; exact one_pos_lt_ndimM oB
  -- free parts
  have hLlen : Ls.length = (freeAxes A.ndim xa).length := by
    rw [(blockShape?_length hshpL).1, permuted_length _ _ (by simpa [ean] using mem_freeAxes_lt)]
  have hRlen : Rs.length = (freeAxes B.ndim xb).length := by
    rw [(blockShape?_length hshpR).1, permuted_length _ _ (by simpa [ebn] using mem_freeAxes_lt)]
  have hoLlen : oL.length = (freeAxes A.ndim xa).length := by
    rw [inBox_length hboxL, (blockShape?_length hshpL).2,
      permuted_length _ _ (by simpa [ean] using mem_freeAxes_lt)]
  have hLlenF : Ls.length = (freeAxes (FuseP.fusedArrM A [xa]).ndim [bondPos A xa]).length := by
    rw [nFA]; exact hLlen.trans (one_free_length oA).symm
  have hRlenF : Rs.length = (freeAxes (FuseP.fusedArrM B [xb]).ndim [bondPos B xb]).length := by
    rw [nFB]; exact hRlen.trans (one_free_length oB).symm
  have hoLlenF : oL.length = (freeAxes (FuseP.fusedArrM A [xa]).ndim [bondPos A xa]).length := by
    rw [nFA]; exact hoLlen.trans (one_free_length oA).symm
  -- the free tables of the fused operands are those of the originals
  have hLf : Arr.blockShape? (permuted (FuseP.fusedArrM A [xa]).indices
      (freeAxes (FuseP.fusedArrM A [xa]).ndim [bondPos A xa])) Ls = some shpL := by
    rw [nFA]
    show Arr.blockShape? (permuted (FuseP.newIdxM A [xa]) _) Ls = _
    rw [show bondPos A xa = (FuseP.giM A [xa]).position from rfl, one_free_indices oA]; exact hshpL
  have hRf : Arr.blockShape? (permuted (FuseP.fusedArrM B [xb]).indices
      (freeAxes (FuseP.fusedArrM B [xb]).ndim [bondPos B xb])) Rs = some shpR := by
    rw [nFB]
    show Arr.blockShape? (permuted (FuseP.newIdxM B [xb]) _) Rs = _
    rw [show bondPos B xb = (FuseP.giM B [xb]).position from rfl, one_free_indices oB]; exact hshpR
  have hboxF : inBox (Arr.blockShapeD (without (FuseP.fusedArrM A [xa]).indices [bondPos A xa]
      ++ without (FuseP.fusedArrM B [xb]).indices [bondPos B xb]) (Ls ++ Rs)) (oL ++ oR) = true := by
    have eFA : (FuseP.fusedArrM A [xa]).indices.length = (FuseP.fusedArrM A [xa]).ndim := rfl
    have eFB : (FuseP.fusedArrM B [xb]).indices.length = (FuseP.fusedArrM B [xb]).ndim := rfl
    rw [without_eq_permuted_freeAxes, without_eq_permuted_freeAxes, Arr.blockShapeD, eFA, eFB,
      blockShape?_append hLf hRf]
    simp only [Option.getD_some]
    rw [inBox_append (inBox_length hboxL), hboxL, hboxR]; rfl
  -- step 1: the contraction of the fused operands as a double sum over the fused bond
  rw [tensordotBlockwise_elem_dense' hz1 hz2 (FuseP.fusedArrM A [xa]) (FuseP.fusedArrM B [xb])
    [bondPos A xa] [bondPos B xb] hpA hpB (Arr.allDistinct_of_validB hvaf) (Arr.allDistinct_of_validB hvbf)
    (Arr.shapesOk_of_validB hvaf) (Arr.shapesOk_of_validB hvbf) hn1A hr1A hn1B hr1B rfl
    ((FuseP.ixM A [xa] 0).cm.map (fun cd => [cd.1]))
    (by
      have : (FuseP.ixM A [xa] 0).cm.map (fun cd => [cd.1])
          = ((FuseP.ixM A [xa] 0).cm.map (·.1)).map (fun c => [c]) := by rw [List.map_map]; rfl
      rw [this]; exact hndK.map (fun x y h => by simpa using h))
    (by intro K hK; obtain ⟨cd, _, rfl⟩ := List.mem_map.mp hK; rfl)
    (one_cover hvaf oA) Ls Rs hLlenF hRlenF (oL ++ oR) hboxF]
  have etake : (oL ++ oR).take (freeAxes (FuseP.fusedArrM A [xa]).ndim [bondPos A xa]).length = oL := by
    rw [← hoLlenF]; simp
  have edrop : (oL ++ oR).drop (freeAxes (FuseP.fusedArrM A [xa]).ndim [bondPos A xa]).length = oR := by
    rw [← hoLlenF]; simp
  rw [etake, edrop, List.map_map]
  -- the entries of the two fused operands as functions of the bond position
  let FA : Charge → Nat → R := fun c k =>
    (FuseP.fusedArrM A [xa]).elem (mergeSec (FuseP.fusedArrM A [xa]).ndim [bondPos A xa] [c] Ls)
      (mergeIdx 0 (FuseP.fusedArrM A [xa]).ndim [bondPos A xa]
        (freeAxes (FuseP.fusedArrM A [xa]).ndim [bondPos A xa]) [k] oL)
  let FB : Charge → Nat → R := fun c k =>
    (FuseP.fusedArrM B [xb]).elem (mergeSec (FuseP.fusedArrM B [xb]).ndim [bondPos B xb] [c] Rs)
      (mergeIdx 0 (FuseP.fusedArrM B [xb]).ndim [bondPos B xb]
        (freeAxes (FuseP.fusedArrM B [xb]).ndim [bondPos B xb]) [k] oR)
  have hstep : ∀ cd ∈ (FuseP.ixM A [xa] 0).cm,
      ((fun K => contractPair (FuseP.fusedArrM A [xa]) (FuseP.fusedArrM B [xb]) [bondPos A xa] [bondPos B xb]
          oL oR (mergeSec (FuseP.fusedArrM A [xa]).ndim [bondPos A xa] K Ls,
            mergeSec (FuseP.fusedArrM B [xb]).ndim [bondPos B xb] K Rs)) ∘ fun cd => [cd.1]) cd
        = ((List.range cd.2).map (fun k => FA cd.1 k * FB cd.1 k)).sum := by
    rintro ⟨c, D⟩ hcd
    have hsz : (FuseP.ixM A [xa] 0).sizeOf? c = some D := alookup_of_mem_nodup hndK hcd
    have hKf : Arr.blockShape? (permuted (FuseP.fusedArrM A [xa]).indices [bondPos A xa]) [c] = some [D] := by
      show Arr.blockShape? (permuted (FuseP.newIdxM A [xa]) [(FuseP.giM A [xa]).position]) [c] = _
      rw [one_fused_index oA]
      simp only [Arr.blockShape?_cons, Arr.blockShape?_nil_nil, hsz]
      rfl
    simp only [Function.comp, contractPair]
    rw [contracted_box (A := FuseP.fusedArrM A [xa]) hn1A hr1A hKf hLf, allIdx_single, List.map_map]
    rfl
  rw [sum_map_congr hstep]
  -- step 2: the bond double sum is the blockwise contraction of the original operands
  exact core_generic hz1 hz2 h hokA hokB gA0 gB0 hshpL hboxL hshpR hboxR FA FB
    (fun c D k K ok hsz hk hdec => one_merge_elem h.vA h.fA oA hsz hk hdec hshpL hboxL)
    (fun c D k K ok hsz hk hdec => one_merge_elem h.vB h.fB oB hsz hk hdec hshpR hboxR)

end TdotP
end SymmModel
