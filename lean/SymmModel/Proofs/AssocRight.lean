/-
  SymmModel.Proofs.AssocRight — towards S7 of property C04: the expansion of route `A·(B·C)` into
  the canonical three-operand form of `AssocLeft`.  Namespace `SymmModel.AssocP`.
-/
import SymmModel.Proofs.AssocLeft

namespace SymmModel
namespace AssocP
open TdotP GradedP RoutesP KoszulP
open Lazy (sgnI)
set_option linter.unusedSectionVars false

variable {R : Type}

/-- the stored sector triples of route `A·(B·C)`, in visiting order -/
def triplesR (A B C BC : Arr R) (xa xb1 xb2 xc : List Nat) (s : Sector) :
    List (Sector × Sector × Sector) :=
  (storedPairs A BC (freeAxes A.ndim xa) xa (axesBC B.ndim xb1 xb2)
      (freeAxes BC.ndim (axesBC B.ndim xb1 xb2)) s).flatMap (fun p =>
    (storedPairs B C (freeAxes B.ndim xb2) xb2 xc (freeAxes C.ndim xc) p.2).map
      (fun q => (p.1, q.1, q.2)))

/-! ### geometry of the intermediate result `B·C` -/

section geomR
variable {nB : Nat} {xb1 xb2 : List Nat} {α : Type}

theorem freeM_comm (nB : Nat) (xb1 xb2 : List Nat) :
    freeAxes nB (xb2 ++ xb1) = freeAxes nB (xb1 ++ xb2) :=
  freeAxes_congr nB (by intro x; simp only [List.mem_append]; exact Or.comm)

theorem readBC_ax (h : Mid nB xb1 xb2) (z v : List α) (hz : z.length = nB) :
    permuted (permuted z (freeAxes nB xb2) ++ v) (axesBC nB xb1 xb2) = permuted z xb1 := by
  unfold axesBC
  have hl : (permuted z (freeAxes nB xb2)).length = (freeAxes nB xb2).length :=
    permuted_length _ _ (by rw [hz]; exact h.symm.flt)
  rw [permuted_append_of_lt _ _ _ (by rw [hl]; exact h.symm.pos_lt), h.symm.read_ax z hz]

theorem readBC_free (h : Mid nB xb1 xb2) (z v : List α) (hz : z.length = nB) :
    permuted (permuted z (freeAxes nB xb2) ++ v)
        (freeAxes ((freeAxes nB xb2).length + v.length) (axesBC nB xb1 xb2))
      = permuted z (freeAxes nB (xb1 ++ xb2)) ++ v := by
  unfold axesBC
  have hl : (permuted z (freeAxes nB xb2)).length = (freeAxes nB xb2).length :=
    permuted_length _ _ (by rw [hz]; exact h.symm.flt)
  rw [freeAxes_low _ _ _ h.symm.pos_lt]
  have := permuted_append_low_id (permuted z (freeAxes nB xb2)) v
    (freeAxes (freeAxes nB xb2).length (positions (freeAxes nB xb2) xb1))
    (by rw [hl]; exact fun x hx => (mem_freeAxes.mp hx).1)
  rw [hl] at this
  rw [this, h.symm.read_free z hz, freeM_comm]

end geomR

/-! ### the sign of a triple on route `A·(B·C)` -/

section signR
variable [AddMonoid R] [Mul R] [Neg R]
variable {A B C BC : Arr R} {xa xb1 xb2 xc : List Nat} {ph : Int}

theorem parities_BC (I : Inter B C xb2 xc BC ph) (hsym : B.sym = C.sym) (sb sc : Sector) :
    BC.parities (permuted sb (freeAxes B.ndim xb2) ++ permuted sc (freeAxes C.ndim xc))
      = permuted (B.parities sb) (freeAxes B.ndim xb2) ++ permuted (C.parities sc) (freeAxes C.ndim xc) := by
  unfold Arr.parities
  rw [I.sym, List.map_append, ← permuted_map, ← permuted_map, hsym]

/-- **sign of a triple, route `A·(B·C)`** -/
theorem sign_right (I : Inter B C xb2 xc BC ph) (hsym : B.sym = C.sym) (h : Mid B.ndim xb1 xb2)
    (sa sb sc : Sector) (hsb : sb.length = B.ndim) (hsc : sc.length = C.ndim) :
    gradedSign A BC xa (axesBC B.ndim xb1 xb2) sa
        (permuted sb (freeAxes B.ndim xb2) ++ permuted sc (freeAxes C.ndim xc))
      * gradedSign B C xb2 xc sb sc
      = S3 A B C xa xb1 xb2 xc (sa, sb, sc) := by
  have hpB : (permuted (B.parities sb) (freeAxes B.ndim xb2)).length = (freeAxes B.ndim xb2).length :=
    permuted_length _ _ (by
      intro x hx; unfold Arr.parities; rw [List.length_map, hsb]; exact (mem_freeAxes.mp hx).1)
  have hpC : (permuted (C.parities sc) (freeAxes C.ndim xc)).length = (freeAxes C.ndim xc).length :=
    permuted_length _ _ (by
      intro x hx; unfold Arr.parities; rw [List.length_map, hsc]; exact (mem_freeAxes.mp hx).1)
  have hparB : (B.parities sb).length = B.ndim := by unfold Arr.parities; rw [List.length_map, hsb]
  have k1 : koszul (BC.parities (permuted sb (freeAxes B.ndim xb2) ++ permuted sc (freeAxes C.ndim xc)))
      (some (axesBC B.ndim xb1 xb2 ++ freeAxes BC.ndim (axesBC B.ndim xb1 xb2)))
      = koszul (permuted (B.parities sb) (freeAxes B.ndim xb2))
          (some (positions (freeAxes B.ndim xb2) xb1
            ++ freeAxes (freeAxes B.ndim xb2).length (positions (freeAxes B.ndim xb2) xb1))) := by
    rw [parities_BC I hsym, I.ndim]
    unfold axesBC
    rw [freeAxes_low _ _ _ h.symm.pos_lt]
    have hq := perm_right h.symm.pos_nodup h.symm.pos_lt
    have := koszul_id_block_right (permuted (B.parities sb) (freeAxes B.ndim xb2))
      (permuted (C.parities sc) (freeAxes C.ndim xc))
      (positions (freeAxes B.ndim xb2) xb1
        ++ freeAxes (freeAxes B.ndim xb2).length (positions (freeAxes B.ndim xb2) xb1)) (hpB.symm ▸ hq)
    rw [hpB, hpC] at this
    rw [← List.append_assoc]
    exact this
  have k2 := h.koszul_right (B.parities sb) hparB
  unfold gradedSign S3
  rw [k1, ← k2]
  simp only []
  ring

end signR

/-! ### the value on route `A·(B·C)` -/

section valueR
variable [AddCommMonoid R] [Mul R] [Neg R] [SignRing R] [AssocLaws R]
variable {A B C BC : Arr R} {xa xb1 xb2 xc : List Nat} {ph : Int}

/-- splitting the free part of a stored sector of `B·C` on the second call -/
theorem right_split (I : Inter B C xb2 xc BC ph) (h : Mid B.ndim xb1 xb2)
    {LA LM LC X : Sector} (lA : LA.length = X.length)
    (lM : LM.length = (freeAxes B.ndim (xb1 ++ xb2)).length)
    {sb sc : Sector} (hsb : sb.length = B.ndim) (hsc : sc.length = C.ndim)
    (hs : X ++ permuted (permuted sb (freeAxes B.ndim xb2) ++ permuted sc (freeAxes C.ndim xc))
        (freeAxes BC.ndim (axesBC B.ndim xb1 xb2)) = LA ++ LM ++ LC) :
    X = LA ∧ permuted sb (freeAxes B.ndim (xb1 ++ xb2)) = LM
      ∧ permuted sc (freeAxes C.ndim xc) = LC := by
  have hlC : (permuted sc (freeAxes C.ndim xc)).length = (freeAxes C.ndim xc).length :=
    permuted_length _ _ (by intro x hx; rw [hsc]; exact (mem_freeAxes.mp hx).1)
  have hlM : (permuted sb (freeAxes B.ndim (xb1 ++ xb2))).length
      = (freeAxes B.ndim (xb1 ++ xb2)).length :=
    permuted_length _ _ (by intro x hx; rw [hsb]; exact (mem_freeAxes.mp hx).1)
  have := readBC_free h sb (permuted sc (freeAxes C.ndim xc)) hsb
  rw [hlC] at this
  rw [I.ndim, this, List.append_assoc LA LM LC] at hs
  obtain ⟨e1, e2⟩ := List.append_inj hs lA.symm
  obtain ⟨e3, e4⟩ := List.append_inj e2 (by rw [hlM, lM])
  exact ⟨e1, e3, e4⟩

/-- the value of `B·C` at the address the second call reads -/
theorem right_inner (I : Inter B C xb2 xc BC ph) (hAB : Adm A B xa xb1) (hBC : Adm B C xb2 xc)
    (h : Mid B.ndim xb1 xb2)
    {LA LM LC : Sector} {oA oM oC : List Nat} (fa : FreeAddr A B C xa xb1 xb2 xc LA LM LC oA oM oC)
    {sa sb sc : Sector} (hA : sa ∈ A.sectors) (hB : sb ∈ B.sectors) (hC : sc ∈ C.sectors)
    (hal1 : permuted sb xb1 = permuted sa xa) (hal2 : permuted sc xc = permuted sb xb2)
    (hLM : permuted sb (freeAxes B.ndim (xb1 ++ xb2)) = LM)
    (hLC : permuted sc (freeAxes C.ndim xc) = LC)
    (k1 : List Nat) (hk1 : inBox (permuted (Arr.blockShapeD A.indices sa) xa) k1 = true) :
    BC.elem (permuted sb (freeAxes B.ndim xb2) ++ permuted sc (freeAxes C.ndim xc))
        (mergeIdx 0 BC.ndim (axesBC B.ndim xb1 xb2)
          (freeAxes BC.ndim (axesBC B.ndim xb1 xb2)) k1 (oM ++ oC))
      = sgnI ph (gradedContract B C xb2 xc
          (permuted sb (freeAxes B.ndim xb2) ++ permuted sc (freeAxes C.ndim xc))
          (mergeIdx 0 (freeAxes B.ndim xb2).length (positions (freeAxes B.ndim xb2) xb1)
            (freeAxes (freeAxes B.ndim xb2).length (positions (freeAxes B.ndim xb2) xb1)) k1 oM) oC) := by
  have hsa := Arr.shapesOk_of_validB hAB.va
  have hsb := Arr.shapesOk_of_validB hAB.vb
  have hsc := Arr.shapesOk_of_validB hBC.vb
  obtain ⟨shpA, hA1, hA2, hA3, hA4⟩ := shape_of_mem hsa hA
  obtain ⟨shpB, hB1, hB2, hB3, hB4⟩ := shape_of_mem hsb hB
  obtain ⟨shpC, hC1, hC2, hC3, hC4⟩ := shape_of_mem hsc hC
  have hmatch := shapes_match hsa hsb hAB.con hAB.ltA hAB.ltB sa hA sb hB hal1
  have hk1' : inBox (permuted (Arr.blockShapeD B.indices sb) xb1) k1 = true := by
    rw [hmatch]; exact hk1
  have hk1l : k1.length = (positions (freeAxes B.ndim xb2) xb1).length := by
    rw [inBox_length hk1', h.symm.pos_len, permuted_length _ _ (by rw [hB2, hB3]; exact h.lt1)]
  have hoMl : oM.length
      = (freeAxes (freeAxes B.ndim xb2).length (positions (freeAxes B.ndim xb2) xb1)).length := by
    rw [fa.loM, h.symm.free_len, freeM_comm]
  have e : mergeIdx 0 BC.ndim (axesBC B.ndim xb1 xb2)
        (freeAxes BC.ndim (axesBC B.ndim xb1 xb2)) k1 (oM ++ oC)
      = mergeIdx 0 (freeAxes B.ndim xb2).length (positions (freeAxes B.ndim xb2) xb1)
          (freeAxes (freeAxes B.ndim xb2).length (positions (freeAxes B.ndim xb2) xb1)) k1 oM ++ oC := by
    rw [I.ndim]
    unfold axesBC
    exact mergeIdx_low 0 _ _ _ k1 oM oC h.symm.pos_nodup h.symm.pos_lt hk1l fa.loC hoMl
  rw [e]
  apply I.elem _ _ _ (mergeIdx_length _ _ _ _ _ _)
  rw [Arr.blockShapeD, I.shapeU hsb hsc hB hC hal2]
  show inBox (permuted (Arr.blockShapeD B.indices sb) (freeAxes B.ndim xb2)
    ++ permuted (Arr.blockShapeD C.indices sc) (freeAxes C.ndim xc)) _ = true
  have hlsB : (permuted (Arr.blockShapeD B.indices sb) (freeAxes B.ndim xb2)).length
      = (freeAxes B.ndim xb2).length :=
    permuted_length _ _ (by intro x hx; rw [hB2, hB3]; exact h.symm.flt x hx)
  rw [inBox_append (by rw [mergeIdx_length, hlsB]), Bool.and_eq_true]
  constructor
  · have hshape := inBox_mergeIdx
      (shape := permuted (Arr.blockShapeD B.indices sb) (freeAxes B.ndim xb2))
      (axes := positions (freeAxes B.ndim xb2) xb1) (k := k1) (f := oM)
      (by rw [hlsB]; exact h.symm.pos_lt)
      (by rw [h.symm.read_ax _ (by rw [hB2, hB3])]; exact hk1')
      (by
        rw [hlsB, h.symm.read_free _ (by rw [hB2, hB3]), freeM_comm]
        have := fa.bM
        rw [← hLM, shapeD_free hsb hB _ (fun x hx => (mem_freeAxes.mp hx).1)] at this
        exact this)
    rw [hlsB] at hshape
    exact hshape
  · have := fa.bC
    rw [← hLC, without_eq_permuted_freeAxes] at this
    have e2 := shapeD_free hsc hC (freeAxes C.ndim xc) (fun x hx => (mem_freeAxes.mp hx).1)
    have e3 : C.indices.length = C.ndim := rfl
    rw [e3, e2] at this
    exact this

/-- **route `A·(B·C)`**: the graded contraction of `A` with the intermediate result is the label
    sign of the first call times the canonical signed sum over the stored sector triples -/
theorem route_right (I : Inter B C xb2 xc BC ph) (hAB : Adm A B xa xb1) (hBC : Adm B C xb2 xc)
    (h : Mid B.ndim xb1 xb2)
    {LA LM LC : Sector} {oA oM oC : List Nat} (fa : FreeAddr A B C xa xb1 xb2 xc LA LM LC oA oM oC) :
    gradedContract A BC xa (axesBC B.ndim xb1 xb2) (LA ++ LM ++ LC) oA (oM ++ oC)
      = sgnI ph (((triplesR A B C BC xa xb1 xb2 xc (LA ++ LM ++ LC)).map
          (fun t => sgnI (S3 A B C xa xb1 xb2 xc t) (W3 A B C xa xb1 xb2 xc oA oM oC t))).sum) := by
  have hsa := Arr.shapesOk_of_validB hAB.va
  have hsb := Arr.shapesOk_of_validB hAB.vb
  have hsc := Arr.shapesOk_of_validB hBC.vb
  let oB2 : List Nat → List Nat := fun k1 =>
    mergeIdx 0 (freeAxes B.ndim xb2).length (positions (freeAxes B.ndim xb2) xb1)
      (freeAxes (freeAxes B.ndim xb2).length (positions (freeAxes B.ndim xb2) xb1)) k1 oM
  let g : Sector × Sector → Sector × Sector → R := fun p q =>
    sgnI (gradedSign A BC xa (axesBC B.ndim xb1 xb2) p.1 p.2 * gradedSign B C xb2 xc q.1 q.2)
      (((allIdx (permuted (Arr.blockShapeD A.indices p.1) xa)).map
        (fun k1 => ((allIdx (permuted (Arr.blockShapeD B.indices q.1) xb2)).map (fun k2 =>
          A.elem p.1 (mergeIdx 0 A.ndim xa (freeAxes A.ndim xa) k1 oA)
            * (B.elem q.1 (mergeIdx 0 B.ndim xb2 (freeAxes B.ndim xb2) k2 (oB2 k1))
              * C.elem q.2 (mergeIdx 0 C.ndim xc (freeAxes C.ndim xc) k2 oC)))).sum)).sum)
  have hlA : ∀ sa ∈ A.sectors, LA.length = (permuted sa (freeAxes A.ndim xa)).length := by
    intro sa hA
    rw [fa.lA, permuted_length _ _ (by
      intro x hx; rw [Arr.sector_length hsa hA]; exact (mem_freeAxes.mp hx).1)]
  unfold gradedContract triplesR
  refine Eq.trans ?_ (sum_flat _ _ (fun p q => (p.1, q.1, q.2)) ph g _ ?_)
  · congr 1
    apply List.map_congr_left
    rintro ⟨sa, sbc⟩ hp
    obtain ⟨hA, hsbcM, hal, hs⟩ := mem_storedPairs.mp hp
    obtain ⟨sb, hB, sc, hC, hal2, hsbc⟩ := I.mem_sectors.mp hsbcM
    simp only at hsbc hs hal ⊢
    subst hsbc
    obtain ⟨_, hLM, hLC⟩ := right_split I h (hlA sa hA) fa.lM (Arr.sector_length hsb hB)
      (Arr.sector_length hsc hC) hs
    have hal1 : permuted sb xb1 = permuted sa xa := by
      rw [← hal, readBC_ax h sb _ (Arr.sector_length hsb hB)]
    have hcp : contractPair A BC xa (axesBC B.ndim xb1 xb2) oA (oM ++ oC)
          (sa, permuted sb (freeAxes B.ndim xb2) ++ permuted sc (freeAxes C.ndim xc))
        = ((allIdx (permuted (Arr.blockShapeD A.indices sa) xa)).map (fun k1 =>
            A.elem sa (mergeIdx 0 A.ndim xa (freeAxes A.ndim xa) k1 oA) *
            sgnI ph (((storedPairs B C (freeAxes B.ndim xb2) xb2 xc (freeAxes C.ndim xc)
                (permuted sb (freeAxes B.ndim xb2) ++ permuted sc (freeAxes C.ndim xc))).map (fun q =>
              sgnI (gradedSign B C xb2 xc q.1 q.2)
                (((allIdx (permuted (Arr.blockShapeD B.indices q.1) xb2)).map (fun k2 =>
                  B.elem q.1 (mergeIdx 0 B.ndim xb2 (freeAxes B.ndim xb2) k2 (oB2 k1))
                    * C.elem q.2 (mergeIdx 0 C.ndim xc (freeAxes C.ndim xc) k2 oC))).sum))).sum))).sum := by
      unfold contractPair
      congr 1
      apply List.map_congr_left
      intro k1 hk1
      unfold contractTerm
      rw [right_inner I hAB hBC h fa hA hB hC hal1 hal2 hLM hLC k1 (mem_allIdx_iff.mp hk1)]
      rfl
    rw [hcp]
    exact expand_right _ _ _ _ ph _ (gradedSign_pm _ _ _ _ _ _) I.pm
      (fun q => gradedSign_pm _ _ _ _ _ _) _ _ _
  · rintro ⟨sa, sbc⟩ hp ⟨sb, sc⟩ hq
    obtain ⟨hA, _, hal, hs⟩ := mem_storedPairs.mp hp
    obtain ⟨hB, hC, hal2, hsbc⟩ := mem_storedPairs.mp hq
    simp only at hsbc hs hal hA hB hC hal2 ⊢
    subst hsbc
    have hal1 : permuted sb xb1 = permuted sa xa := by
      rw [← hal, readBC_ax h sb _ (Arr.sector_length hsb hB)]
    obtain ⟨shpA, hA1, hA2, hA3, hA4⟩ := shape_of_mem hsa hA
    obtain ⟨shpB, hB1, hB2, hB3, hB4⟩ := shape_of_mem hsb hB
    show sgnI _ _ = sgnI _ _
    rw [sign_right I hBC.sym h sa sb sc (Arr.sector_length hsb hB) (Arr.sector_length hsc hC)]
    congr 1
    unfold W3
    apply sum_map_congr
    intro k1 hk1
    apply sum_map_congr
    intro k2 hk2
    have hk1l : k1.length = xb1.length := by
      rw [inBox_length (mem_allIdx_iff.mp hk1),
        permuted_length _ _ (by rw [hA2, hA3]; exact hAB.ltA), hAB.len]
    have hk2l : k2.length = xb2.length := by
      rw [inBox_length (mem_allIdx_iff.mp hk2),
        permuted_length _ _ (by rw [hB2, hB3]; exact h.lt2)]
    show _ * (B.elem sb (mergeIdx 0 B.ndim xb2 (freeAxes B.ndim xb2) k2 (oB2 k1)) * _) = _
    rw [show oB2 k1 = mergeIdx 0 (freeAxes B.ndim xb2).length (positions (freeAxes B.ndim xb2) xb1)
      (freeAxes (freeAxes B.ndim xb2).length (positions (freeAxes B.ndim xb2) xb1)) k1 oM from rfl,
      h.nest_right 0 k1 k2 oM hk1l hk2l fa.loM]

end valueR

end AssocP
end SymmModel
