import SymmModel.Proofs.TdotFuseC5
import SymmModel.Proofs.TdotChain1
import SymmModel.Proofs.ValidFuseF
import SymmModel.Proofs.Assoc3Valid

/-!
# C06 — fermionic: fusing the leading free legs before the contraction = fusing the leading legs of
the result afterwards

Assembly of `lead_commute_graded` (the graded contraction does not see the fusion of the leading
free legs), `signAdj_lead`/`gradedContract_twist` (the fuse sign of the operand factors out of the
contraction), `fuseSignT_lead_congr` (operand and result carry the same fuse sign), the refinement of
`tensordotF` by the graded contraction (`coreT_frame_w`) and `lead_elem` for the result.
-/

namespace SymmModel.TdotP
open SymmModel SymmModel.GradedP SymmModel.Lazy SymmModel.AssocP SymmModel.RoutesP

variable {R : Type}

/-- the boxes of the two addresses of `lead_commute` -/
theorem lead_boxes [AddCommMonoid R] [Mul R] [Neg R]
    (hz1 : ∀ x : R, 0 * x = 0) (hz2 : ∀ x : R, x * 0 = 0) (a b : Arr R) (xa xb : List Nat) (k : Nat)
    (ha : a.validB = true) (hb : b.validB = true) (hpa : a.phases = [])
    (hvF : (FuseP.fusedArrM a [List.range k]).validB = true)
    (hnA : xa.Nodup) (hnB : xb.Nodup) (hA : ∀ x ∈ xa, x < a.ndim) (hB : ∀ x ∈ xb, x < b.ndim)
    (hlen : xa.length = xb.length) (hk1 : 1 ≤ k) (hk : k ≤ a.ndim) (hxa : ∀ x ∈ xa, k ≤ x)
    {c0 : Charge} {i0 d : Nat} {S : Sector} {O : List Nat}
    (hdec : decAx a [List.range k] 0 c0 i0 = some (S, O))
    (hz : (FuseP.ixM a [List.range k] 0).sizeOf? c0 = some d) (hi : i0 < d)
    {Lr Rs : Sector} {oLr oR shpLr shpR : List Nat}
    (hLr : Arr.blockShape? (permuted a.indices (freeTail a.ndim k xa)) Lr = some shpLr)
    (hbLr : inBox shpLr oLr = true)
    (hR : Arr.blockShape? (permuted b.indices (freeAxes b.ndim xb)) Rs = some shpR)
    (hbR : inBox shpR oR = true) :
    inBox (Arr.blockShapeD (without a.indices xa ++ without b.indices xb) ((S ++ Lr) ++ Rs))
        ((O ++ oLr) ++ oR) = true
    ∧ inBox (Arr.blockShapeD (without (FuseP.fusedArrM a [List.range k]).indices (xa.map (sh k))
        ++ without b.indices xb) ((c0 :: Lr) ++ Rs)) ((i0 :: oLr) ++ oR) = true
    ∧ (i0 :: oLr).length = (freeAxes (FuseP.fusedArrM a [List.range k]).ndim (xa.map (sh k))).length
    ∧ (O ++ oLr).length = (freeAxes a.ndim xa).length
    ∧ S.length = k := by
  have hva := FuseP.validArr_of_validB ha
  have hok := lead_groupsOk (X := a) hk1 hk
  have e0 : ([List.range k] : List (List Nat))[0]? = some (List.range k) := rfl
  have ean : a.indices.length = a.ndim := rfl
  have ebn : b.indices.length = b.ndim := rfl
  have hsa := Arr.shapesOk_of_validB ha
  have hsb := Arr.shapesOk_of_validB hb
  have hsF := Arr.shapesOk_of_validB hvF
  have iF : (FuseP.fusedArrM a [List.range k]).indices
      = FuseP.ixM a [List.range k] 0 :: a.indices.drop k := lead_newIdx hk1 hk
  have nF : (FuseP.fusedArrM a [List.range k]).ndim = 1 + (a.ndim - k) := by
    show (FuseP.fusedArrM a [List.range k]).indices.length = _
    rw [iF, List.length_cons, List.length_drop, ean]; omega
  have hpF : (FuseP.fusedArrM a [List.range k]).phases = [] := hpa
  -- the shifted contracted axes
  have hnA' : (xa.map (sh k)).Nodup := by
    refine hnA.map_on ?_
    intro x hx y hy e
    have := hxa x hx; have := hxa y hy
    unfold sh at e; omega
  have hA' : ∀ x ∈ xa.map (sh k), x < (FuseP.fusedArrM a [List.range k]).ndim := by
    intro y hy
    obtain ⟨x, hx, rfl⟩ := List.mem_map.mp hy
    have := hA x hx; have := hxa x hx
    rw [nF]; unfold sh; omega
  have hlen' : (xa.map (sh k)).length = xb.length := by rw [List.length_map]; exact hlen
  -- the decoded leading block
  obtain ⟨shpS, hshpS, hboxS⟩ := decAx_facts hva hok e0 hdec hz hi
  have hpk : (permuted a.indices (List.range k)).length = k := by
    rw [ValidP.permuted_range_take, List.length_take, ean]; omega
  have hSl : S.length = k := by rw [(blockShape?_length hshpS).1, hpk]
  have hOl : O.length = k := by rw [inBox_length hboxS, (blockShape?_length hshpS).2, hpk]
  have hFTlt : ∀ x ∈ freeTail a.ndim k xa, x < a.indices.length := fun x hx => (mem_freeTail hx).2.1
  have hLrl : Lr.length = (freeTail a.ndim k xa).length := by
    rw [(blockShape?_length hLr).1, permuted_length _ _ hFTlt]
  have hoLrl : oLr.length = (freeTail a.ndim k xa).length := by
    rw [inBox_length hbLr, (blockShape?_length hLr).2, permuted_length _ _ hFTlt]
  have hRl : Rs.length = (freeAxes b.ndim xb).length := by
    rw [(blockShape?_length hR).1, permuted_length _ _ (by simpa [ebn] using mem_freeAxes_lt)]
  -- shapes of the two left free parts
  have hLshape : Arr.blockShape? (permuted a.indices (freeAxes a.ndim xa)) (S ++ Lr) = some (shpS ++ shpLr) := by
    rw [freeAxes_lead a.ndim k xa hk hxa, ValidP.permuted_append]
    exact blockShape?_append hshpS hLr
  have hFidx : permuted (FuseP.fusedArrM a [List.range k]).indices
      (freeAxes (FuseP.fusedArrM a [List.range k]).ndim (xa.map (sh k)))
      = FuseP.ixM a [List.range k] 0 :: permuted a.indices (freeTail a.ndim k xa) := by
    rw [nF, freeAxes_shift a.ndim k xa hk1 hk hxa, iF, permuted_zero_cons,
      permuted_cons_drop_shift _ a.indices k hk1 _ (fun x hx => (mem_freeTail hx).1)]
  have hLfshape : Arr.blockShape? (permuted (FuseP.fusedArrM a [List.range k]).indices
      (freeAxes (FuseP.fusedArrM a [List.range k]).ndim (xa.map (sh k)))) (c0 :: Lr) = some (d :: shpLr) := by
    rw [hFidx, Arr.blockShape?_cons, hz, hLr]; rfl
  have hKidx : permuted (FuseP.fusedArrM a [List.range k]).indices (xa.map (sh k)) = permuted a.indices xa := by
    rw [iF, permuted_cons_drop_shift _ a.indices k hk1 xa hxa]
  -- the common list of contracted sub-sectors
  let Ks : List Sector := (a.sectors.map (fun s => permuted s xa)).eraseDups
  have hKn : Ks.Nodup := nodup_eraseDups _
  have hKl : ∀ K ∈ Ks, K.length = xa.length := by
    intro K hK
    obtain ⟨s, hs, rfl⟩ := List.mem_map.mp (List.mem_eraseDups.mp hK)
    exact permuted_length _ _ (by rw [Arr.sector_length hsa hs]; exact hA)
  have hKc : ∀ sa ∈ a.sectors, permuted sa xa ∈ Ks := fun sa hs =>
    List.mem_eraseDups.mpr (List.mem_map.mpr ⟨sa, hs, rfl⟩)
  have hKcF : ∀ sF ∈ (FuseP.fusedArrM a [List.range k]).sectors, permuted sF (xa.map (sh k)) ∈ Ks := by
    intro sF hsF'
    obtain ⟨p, hp, rfl⟩ := List.mem_map.mp hsF'
    have hl : alookup (FuseP.fusedBlocksM a [List.range k]) p.1 = some p.2 :=
      alookup_of_mem (Arr.allDistinct_of_validB hvF) hp
    obtain ⟨sb0, hsb0, hns0, _⟩ := FuseP.fusedBlockM_info hva hok hl
    have hsl0 : sb0.1.length = a.ndim := (hva.blk sb0 hsb0).1
    rw [← hns0, lead_newSector hk1 hk sb0 hsl0, permuted_cons_drop_shift _ sb0.1 k hk1 xa hxa]
    exact hKc _ (List.mem_map.mpr ⟨sb0, hsb0, rfl⟩)
  -- boxes
  have hboxA : inBox (Arr.blockShapeD (without a.indices xa ++ without b.indices xb) ((S ++ Lr) ++ Rs))
      ((O ++ oLr) ++ oR) = true := by
    rw [without_eq_permuted_freeAxes, without_eq_permuted_freeAxes, Arr.blockShapeD, ean, ebn,
      blockShape?_append hLshape hR]
    simp only [Option.getD_some]
    rw [inBox_append (by rw [List.length_append, List.length_append, inBox_length hboxS, inBox_length hbLr]),
      inBox_append (inBox_length hboxS), hboxS, hbLr, hbR]
    rfl
  have hboxF : inBox (Arr.blockShapeD (without (FuseP.fusedArrM a [List.range k]).indices (xa.map (sh k))
      ++ without b.indices xb) ((c0 :: Lr) ++ Rs)) ((i0 :: oLr) ++ oR) = true := by
    have eF : (FuseP.fusedArrM a [List.range k]).indices.length = (FuseP.fusedArrM a [List.range k]).ndim := rfl
    rw [without_eq_permuted_freeAxes, without_eq_permuted_freeAxes, Arr.blockShapeD, ebn, eF,
      blockShape?_append hLfshape hR]
    simp only [Option.getD_some]
    rw [inBox_append (by simp [inBox_length hbLr]), hbR]
    simp [inBox, hi, hbLr]
  have hLfl : (c0 :: Lr).length = (freeAxes (FuseP.fusedArrM a [List.range k]).ndim (xa.map (sh k))).length := by
    rw [nF, freeAxes_shift a.ndim k xa hk1 hk hxa, List.length_cons, List.length_cons, List.length_map, hLrl]
  have hoLfl : (i0 :: oLr).length = (freeAxes (FuseP.fusedArrM a [List.range k]).ndim (xa.map (sh k))).length := by
    rw [nF, freeAxes_shift a.ndim k xa hk1 hk hxa, List.length_cons, List.length_cons, List.length_map, hoLrl]
  have hLl : (S ++ Lr).length = (freeAxes a.ndim xa).length := by
    rw [freeAxes_lead a.ndim k xa hk hxa, List.length_append, List.length_append, hSl, hLrl, List.length_range]
  have hoLl : (O ++ oLr).length = (freeAxes a.ndim xa).length := by
    rw [freeAxes_lead a.ndim k xa hk hxa, List.length_append, List.length_append, hOl, hoLrl, List.length_range]
  exact ⟨hboxA, hboxF, hoLfl, hoLl, hSl⟩

theorem getD_append_take {α : Type} (l m : List α) {k ax : Nat} (hax : ax < k) (hk : k ≤ l.length) (d : α) :
    (l.take k ++ m).getD ax d = l.getD ax d := by
  rw [List.getD_eq_getElem?_getD, List.getD_eq_getElem?_getD,
    List.getElem?_append_left (by rw [List.length_take]; omega), List.getElem?_take]
  simp [hax]

theorem sgnI_swap [Neg R] (σ τ : Int) (x : R) : sgnI σ (sgnI τ x) = sgnI τ (sgnI σ x) := by
  unfold sgnI; split <;> split <;> rfl

/-- **fermionic: fusing the leading free legs of the left operand before the contraction = fusing
    the leading legs of the result afterwards**, at decoded addresses (blockwise mode, weak guard).
    Both fermionic fuse signs are those of C05 (`signAdj`); they coincide because the leading legs
    of operand and result have the same directions and the same charges. -/
theorem lead_commute_fermi [AddCommMonoid R] [Mul R] [Neg R] [SignRing R]
    (hz1 : ∀ x : R, 0 * x = 0) (hz2 : ∀ x : R, x * 0 = 0) (a b c : Arr R) (xa xb : List Nat) (k : Nat)
    (e : Bool)
    (ha : a.validB = true) (hb : b.validB = true) (hfa : a.fermi = true) (hfb : b.fermi = true)
    (hadm : tdotAdmissibleCommonB a b xa xb = true)
    (hk1 : 1 ≤ k) (hk : k ≤ a.ndim) (hxa : ∀ x ∈ xa, k ≤ x)
    (hc : a.tensordotF b (.pair (xa.map Int.ofNat) (xb.map Int.ofNat)) .blockwise = .ok c) :
    a.fuseF [List.range k] .insert e
        = .ok (FuseP.fusedArrM (FuseP.signAdj a [List.range k]) [List.range k])
    ∧ c.fuseF [List.range k] .insert e
        = .ok (FuseP.fusedArrM (FuseP.signAdj c [List.range k]) [List.range k])
    ∧ k ≤ c.ndim
    ∧ ∃ cP, (FuseP.fusedArrM (FuseP.signAdj a [List.range k]) [List.range k]).tensordotF b
          (.pair ((xa.map (sh k)).map Int.ofNat) (xb.map Int.ofNat)) .blockwise = .ok cP
      ∧ ∀ (c0 c2 : Charge) (i0 d0 i2 d2 : Nat) (S rest : Sector) (O orest shp : List Nat),
        decAx (FuseP.signAdj a [List.range k]) [List.range k] 0 c0 i0 = some (S, O) →
        (FuseP.ixM (FuseP.signAdj a [List.range k]) [List.range k] 0).sizeOf? c0 = some d0 → i0 < d0 →
        decAx (FuseP.signAdj c [List.range k]) [List.range k] 0 c2 i2 = some (S, O) →
        (FuseP.ixM (FuseP.signAdj c [List.range k]) [List.range k] 0).sizeOf? c2 = some d2 → i2 < d2 →
        Arr.blockShape? (c.indices.drop k) rest = some shp → inBox shp orest = true →
        cP.elem (c0 :: rest) (i0 :: orest)
          = (FuseP.fusedArrM (FuseP.signAdj c [List.range k]) [List.range k]).elem
              (c2 :: rest) (i2 :: orest) := by
  have W := AdmW.of ha hb hfa hfb hadm
  have hnA := W.nA
  have hnB := W.nB
  have hA := W.ltA
  have hB := W.ltB
  have hlen := commonB_len W.con
  have hok := lead_groupsOk (X := a) hk1 hk
  have ean : a.indices.length = a.ndim := rfl
  have ebn : b.indices.length = b.ndim := rfl
  -- the result `c`
  have F := coreT_frame_w a b xa xb W
  have hc0 := hc
  rw [tensordotF_eq_core_w a b xa xb W] at hc0
  cases hm : OddposP.mergeOddpos a.parity a.oddpos b.oddpos with
  | error e' => rw [hm] at hc0; cases hc0
  | ok r =>
  rw [hm] at hc0
  simp only [Except.map, Except.ok.injEq] at hc0
  obtain ⟨g1, g2, g3, g4, g5, g6⟩ := finish_fields (coreT a b xa xb) r
  rw [hc0] at g1 g2 g3 g4 g5 g6
  have cSym : c.sym = a.sym := g2.trans F.sym
  have cF : c.fermi = true := (g3.trans F.fermi).trans hfa
  have cI : c.indices = dropUnused (without a.indices xa ++ without b.indices xb) c.sectors := by
    rw [g4, g5]; exact F.indices
  have cV : c.validB = true := (ValidP.validB_iff c).mpr
    (ValidP.tensordotF_valid_of_opposite .blockwise (ValidP.tdotASpec_all .blockwise) a b c xa xb
      ((ValidP.validB_iff a).mp ha) ((ValidP.validB_iff b).mp hb) hfa hfb W.sym
      (Assoc3P.opposite_of_commonB W.con) hnA hnB hA hB hc)
  have cE : ∀ s oL oR, oL.length = (freeAxes a.ndim xa).length →
      inBox (Arr.blockShapeD (without a.indices xa ++ without b.indices xb) s) (oL ++ oR) = true →
      c.elem s (oL ++ oR) = sgnI r.2 (gradedContract a b xa xb s oL oR) := by
    intro s oL oR h1 h2
    rw [← hc0, finish_elem _ _ (coreFrame_signOk F), F.elem s oL oR h1 h2]
  have hfr0 : List.Forall₂ SizeLe c.indices (without a.indices xa ++ without b.indices xb) := by
    rw [cI]; exact dropUnused_sizeLe _ _
  have hFTlt : ∀ x ∈ freeTail a.ndim k xa, x < a.indices.length := fun x hx => (mem_freeTail hx).2.1
  have hpk : (permuted a.indices (List.range k)).length = k := by
    rw [ValidP.permuted_range_take, List.length_take, ean]; omega
  have hWeq : without a.indices xa ++ without b.indices xb
      = a.indices.take k ++ (permuted a.indices (freeTail a.ndim k xa)
          ++ permuted b.indices (freeAxes b.ndim xb)) := by
    rw [without_eq_permuted_freeAxes, without_eq_permuted_freeAxes, ean, ebn,
      freeAxes_lead a.ndim k xa hk hxa, ValidP.permuted_append, List.append_assoc,
      ValidP.permuted_range_take]
  have htk : (a.indices.take k).length = k := by rw [List.length_take, ean]; omega
  have hkc : k ≤ c.ndim := by
    show k ≤ c.indices.length
    rw [hfr0.length_eq, hWeq, List.length_append, htk]; omega
  have hdual : ∀ ax, ax < k → (a.indices.getD ax default).dual = (c.indices.getD ax default).dual := by
    intro ax hax
    have := forall₂_getD hfr0 ax (by show ax < c.ndim; omega) default default
    rw [hWeq, getD_append_take _ _ hax (by rw [ean]; exact hk)] at this
    exact this.1.symm
  have hsg : ∀ T, FuseP.fuseSignT a [List.range k] T = FuseP.fuseSignT c [List.range k] T :=
    fun T => fuseSignT_lead_congr a c hk1 hk hkc cSym.symm hdual rfl
  -- the two fuses
  have hfuseA := (FuseP.fuseF_elemT a [List.range k] e ha hfa hok).1
  rw [lead_newGroupsF a hk1 hk] at hfuseA
  have hokc := lead_groupsOk (X := c) hk1 hkc
  have hfuseC := (FuseP.fuseF_elemT c [List.range k] e cV cF hokc).1
  rw [lead_newGroupsF c hk1 hkc] at hfuseC
  have hadmF : ValidP.fuseAdmissibleB [List.range k] a.ndim = true := by
    simp only [ValidP.fuseAdmissibleB, Bool.and_eq_true, List.all_eq_true, decide_eq_true_eq]
    exact ⟨allDistinct_iff_nodup.mpr hok.nodup, hok.lt⟩
  have hvP : (FuseP.fusedArrM (FuseP.signAdj a [List.range k]) [List.range k]).validB = true :=
    (ValidP.validB_iff _).mpr
      (ValidP.fuseF_valid a _ _ e ((ValidP.validB_iff a).mp ha) hfa hadmF hfuseA)
  obtain ⟨xI, xS, xSec, xPh, xV, xF, xCh, xOd, xE⟩ := signAdj_lead a ha hfa hk1 hk
  obtain ⟨yI, yS, ySec, yPh, yV, yF, yCh, yOd, yE⟩ := signAdj_lead c cV cF hk1 hkc
  refine ⟨hfuseA, hfuseC, hkc, ?_⟩
  clear hfuseA hfuseC
  generalize FuseP.signAdj a [List.range k] = X at *
  generalize FuseP.signAdj c [List.range k] = Y at *
  have hXn : X.ndim = a.ndim := by show X.indices.length = a.indices.length; rw [xI]
  have hYn : Y.ndim = c.ndim := by show Y.indices.length = c.indices.length; rw [yI]
  have hkX : k ≤ X.ndim := by rw [hXn]; exact hk
  have hkY : k ≤ Y.ndim := by rw [hYn]; exact hkc
  have hAX : ∀ x ∈ xa, x < X.ndim := by rw [hXn]; exact hA
  have iP : (FuseP.fusedArrM X [List.range k]).indices
      = FuseP.ixM X [List.range k] 0 :: X.indices.drop k := lead_newIdx hk1 hkX
  have nP : (FuseP.fusedArrM X [List.range k]).ndim = 1 + (a.ndim - k) := by
    show (FuseP.fusedArrM X [List.range k]).indices.length = _
    rw [iP, xI, List.length_cons, List.length_drop, ean]; omega
  have hnA' : (xa.map (sh k)).Nodup := by
    refine hnA.map_on ?_
    intro x hx y hy e
    have := hxa x hx; have := hxa y hy
    unfold sh at e; omega
  have hA' : ∀ x ∈ xa.map (sh k), x < (FuseP.fusedArrM X [List.range k]).ndim := by
    intro y hy
    obtain ⟨x, hx, rfl⟩ := List.mem_map.mp hy
    have := hA x hx; have := hxa x hx
    rw [nP]; unfold sh; omega
  have W' : AdmW (FuseP.fusedArrM X [List.range k]) b (xa.map (sh k)) xb := by
    refine ⟨hvP, hb, xF.trans hfa, hfb, xS.trans W.sym, ?_, hnA', hnB, hA', hB⟩
    have hcon := W.con
    unfold contractibleCommonB at hcon ⊢
    rw [Bool.and_eq_true, List.all_eq_true] at hcon ⊢
    refine ⟨by simp only [beq_iff_eq, List.length_map]; exact hlen, ?_⟩
    intro p hp
    rw [List.zip_map_left] at hp
    obtain ⟨q, hq, rfl⟩ := List.mem_map.mp hp
    have hqa : q.1 ∈ xa := (List.of_mem_zip hq).1
    have h0 := hcon.2 q hq
    simp only [Prod.map_fst, Prod.map_snd, id]
    rw [iP, getD_cons_drop_shift _ X.indices k q.1 hk1 (hxa _ hqa), xI]
    exact h0
  have F' := coreT_frame_w _ b _ xb W'
  have hPpar : (FuseP.fusedArrM X [List.range k]).parity = a.parity := by
    show X.sym.parity X.charge = a.sym.parity a.charge
    rw [xS, xCh]
  have hcP : (FuseP.fusedArrM X [List.range k]).tensordotF b
      (.pair ((xa.map (sh k)).map Int.ofNat) (xb.map Int.ofNat)) .blockwise
      = .ok (finish (coreT (FuseP.fusedArrM X [List.range k]) b (xa.map (sh k)) xb) r) := by
    rw [tensordotF_eq_core_w _ b _ xb W', hPpar]
    show (OddposP.mergeOddpos a.parity X.oddpos b.oddpos).map _ = _
    rw [xOd, hm]
    rfl
  refine ⟨_, hcP, ?_⟩
  intro c0 c2 i0 d0 i2 d2 S rest O orest shp hdec hz hi hdec2 hz2' hi2 hshp hbox
  -- the result side
  rw [lead_elem (FuseP.validArr_of_validB yV) yPh hk1 hkY hdec2 hz2' hi2 (by rw [yI]; exact hshp) hbox, yE]
  -- split the tail address
  have hT : (without a.indices xa ++ without b.indices xb).drop k
      = permuted a.indices (freeTail a.ndim k xa) ++ permuted b.indices (freeAxes b.ndim xb) := by
    rw [hWeq]; exact List.drop_left' htk
  have hfr : List.Forall₂ SizeLe (c.indices.drop k)
      (permuted a.indices (freeTail a.ndim k xa) ++ permuted b.indices (freeAxes b.ndim xb)) := by
    rw [← hT]; exact forall₂_drop hfr0 k
  have hw := blockShape?_weaken hfr rest shp hshp
  have hrl : rest.length = (freeTail a.ndim k xa).length + (freeAxes b.ndim xb).length := by
    rw [(blockShape?_length hw).1, List.length_append, permuted_length _ _ hFTlt,
      permuted_length _ _ (by simpa [ebn] using mem_freeAxes_lt)]
  have hrs : rest = rest.take (freeTail a.ndim k xa).length ++ rest.drop (freeTail a.ndim k xa).length :=
    (List.take_append_drop _ _).symm
  rw [hrs] at hw
  obtain ⟨shpLr, shpR, rfl, hLr, hR⟩ := blockShape?_split (by
    rw [List.length_take, permuted_length _ _ hFTlt]; omega) hw
  have hol : orest.length = shpLr.length + shpR.length := by rw [inBox_length hbox, List.length_append]
  have hLrl : shpLr.length = (freeTail a.ndim k xa).length := by
    rw [(blockShape?_length hLr).2, permuted_length _ _ hFTlt]
  have hos : orest = orest.take shpLr.length ++ orest.drop shpLr.length := (List.take_append_drop _ _).symm
  have hbox' := hbox
  rw [hos, inBox_append (by rw [List.length_take]; omega)] at hbox'
  simp only [Bool.and_eq_true] at hbox'
  generalize rest.take (freeTail a.ndim k xa).length = Lr at *
  generalize rest.drop (freeTail a.ndim k xa).length = Rs at *
  generalize orest.take shpLr.length = oLr at *
  generalize orest.drop shpLr.length = oR at *
  subst hrs hos
  have hLrX : Arr.blockShape? (permuted X.indices (freeTail X.ndim k xa)) Lr = some shpLr := by
    rw [xI, hXn]; exact hLr
  obtain ⟨bA, bF, lF, lA, hSl⟩ := lead_boxes hz1 hz2 X b xa xb k xV hb xPh hvP hnA hnB hAX hB hlen hk1 hkX
    hxa hdec hz hi hLrX hbox'.1 hR hbox'.2
  rw [xI] at bA
  rw [hXn] at lA
  have e1 : c0 :: (Lr ++ Rs) = (c0 :: Lr) ++ Rs := rfl
  have e2 : i0 :: (oLr ++ oR) = (i0 :: oLr) ++ oR := rfl
  have e3 : S ++ (Lr ++ Rs) = (S ++ Lr) ++ Rs := (List.append_assoc _ _ _).symm
  have e4 : O ++ (oLr ++ oR) = (O ++ oLr) ++ oR := (List.append_assoc _ _ _).symm
  rw [e1, e2, e3, e4, finish_elem _ _ (coreFrame_signOk F'), F'.elem _ _ _ lF bF,
    lead_commute_graded hz1 hz2 X b xa xb k xV hb xPh hvP hnA hnB hAX hB hlen hk1 hkX hxa hdec hz hi
      hLrX hbox'.1 hR hbox'.2,
    cE _ _ _ lA bA]
  have hσ : ∀ p ∈ storedPairs a b (freeAxes a.ndim xa) xa xb (freeAxes b.ndim xb) ((S ++ Lr) ++ Rs),
      FuseP.fuseSignT a [List.range k] p.1 = FuseP.fuseSignT a [List.range k] ((S ++ Lr) ++ Rs) := by
    rintro ⟨sa, sb⟩ hp
    obtain ⟨hA1, _, _, hs⟩ := mem_storedPairs.mp hp
    have hsl := Arr.sector_length (Arr.shapesOk_of_validB ha) hA1
    rw [freeAxes_lead a.ndim k xa hk hxa, ValidP.permuted_append, ValidP.permuted_range_take,
      List.append_assoc, List.append_assoc] at hs
    have hl : (sa.take k).length = S.length := by rw [List.length_take, hsl, hSl]; omega
    have hS := (List.append_inj hs hl).1
    apply fuseSignT_lead_congr a a hk1 hk hk rfl (fun _ _ => rfl)
    show sa.take k = ((S ++ Lr) ++ Rs).take k
    rw [List.append_assoc, List.take_left' hSl]
    exact hS
  rw [gradedContract_twist X a b xa xb (FuseP.fuseSignT a [List.range k])
    (FuseP.fuseSignT_pm a [List.range k]) xI xS xSec xE _ _ hσ, ← hsg]
  exact sgnI_swap _ _ _

end SymmModel.TdotP
