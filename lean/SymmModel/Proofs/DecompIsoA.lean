/-
  SymmModel.Proofs.DecompIsoA — the ABELIAN array-level Gram statements of Proofs/Recon3Iso.lean
  (`Q† · Q`, `VH · VH†` with the blockwise contraction) through `tensordot_abelian` in EVERY mode
  (`DecompP.tensordotA_all_modes_table`).  Namespace `SymmModel.DecompP`.
  Nothing here changes a model definition.
-/
import SymmModel.Proofs.DecompTdot

namespace SymmModel
namespace DecompP
set_option linter.unusedSectionVars false
open LinalgLemmas ReconP Recon2P Recon3P TdotP

variable {R : Type}

section array
variable [CommRing R] [Conj R] {x : Arr R} {L Rt : Blk R → Blk R}

/-- the abelian adjoint of a valid abelian matrix is valid, with the reversed conjugated indices -/
theorem adjA_valid2 {e : Arr R} (hv : e.validB = true) (hf : e.fermi = false) {i0 i1 : Index}
    (hi : e.indices = [i0, i1]) :
    e.adjA.validB = true ∧ e.adjA.indices = [i1.conj, i0.conj] ∧ e.adjA.fermi = false
      ∧ e.adjA.sym = e.sym := by
  have hn : e.ndim = 2 := by simp [Arr.ndim, hi]
  refine ⟨?_, ?_, hf, rfl⟩
  · apply (ValidP.validB_iff _).mpr
    unfold Arr.adjA
    apply ValidP.transposeA_valid _ _ (ValidP.conjA_valid e ((ValidP.validB_iff e).mp hv) hf) hf
    show Arr.isPerm (Arr.reversedAxes e.ndim) (e.indices.map Index.conj).length = true
    rw [hn, hi]; rfl
  · show permuted (e.indices.map Index.conj) (Arr.reversedAxes e.ndim) = _
    rw [hn, hi]; rfl

/-- **`L† · L`, abelian, every mode** -/
theorem gram_left_array_modes (conj : R →+* R) (hcj : ∀ v : R, Conj.conj v = conj v)
    (hv : x.validB = true) (h2 : x.ndim = 2) (hf : x.fermi = false) (hL : FacShape L Rt)
    (tm : TdotMode) :
    ∃ c, tensordotA (leftF x L).adjA (leftF x L) (.pair [1] [0]) tm = .ok c
      ∧ ∀ s b, (s, b) ∈ x.blocks → ∀ m n, b.shape = [m, n] → ∀ t t', t < min m n → t' < min m n →
          c.elem (diagOf s) [t, t']
            = (List.range m).foldl
                (fun acc i => acc + conj ((L b).get [i, t]) * (L b).get [i, t']) 0 := by
  obtain ⟨i0, i1, hi⟩ := ndim_two h2
  have hi0 : x.indices.getD 0 default = i0 := by rw [hi]; rfl
  have hQv : (leftF x L).validB = true := leftF_valid hv h2 hi hL
  have hQf : (leftF x L).fermi = false := hf
  have hQi : (leftF x L).indices = [i0, bondIx x L] := by
    show [x.indices.getD 0 default, bondIx x L] = _
    rw [hi0]
  have hQn : (leftF x L).ndim = 2 := rfl
  obtain ⟨hAv, hAi, hAf, hAs⟩ := adjA_valid2 hQv hQf hQi
  have hAn : (leftF x L).adjA.ndim = 2 := by simp [Arr.ndim, hAi]
  have hparse : parseAxes (leftF x L).adjA.ndim (leftF x L).ndim (.pair [1] [0])
      = .ok ([1], [0]) := by rw [hAn, hQn]; rfl
  obtain ⟨c, h1, h4⟩ := tensordotA_all_modes_table zero_mul mul_zero (leftF x L).adjA (leftF x L)
    (.pair [1] [0]) [1] [0] hparse hAv hQv hAf hQf hAs
    (by
      unfold ValidP.contractibleB
      rw [hAi, hQi]
      simp)
    (by decide) (by decide) (by intro y hy; simp at hy; subst hy; rw [hAn]; decide)
    (by intro y hy; simp at hy; subst hy; rw [hQn]; decide) tm
  obtain ⟨_, _, g3⟩ := gram_left_array conj hcj hv h2 hf hL
  refine ⟨c, h1, ?_⟩
  intro s b hmem m n hs t t' ht ht'
  obtain ⟨r, c', m', n', B⟩ := mat_block hv hi hmem
  have hmm : m' = m := by
    have := B.hshape; rw [hs] at this; exact (List.cons.inj this).1.symm
  have hnn : n' = n := by
    have := B.hshape; rw [hs] at this; exact (List.cons.inj (List.cons.inj this).2).1.symm
  subst hmm hnn
  obtain ⟨l1, _, _, _⟩ := hL b m' n' hs B.hwf
  have hcol : colOf s = c' := by rw [B.hs]; rfl
  have hdg : diagOf s = [c', c'] := by simp [diagOf, hcol]
  have hQm : (s, L b) ∈ (leftF x L).blocks := List.mem_map.mpr ⟨(s, b), hmem, rfl⟩
  have hQsh := (((validB_iff _).mp hQv).2.2.2.1 s (L b) hQm).2.2.1
  rw [hQi, B.hs, l1] at hQsh
  obtain ⟨m0, k0, e1, e2, e3⟩ := (blockShape?_pair _ _ r c' _).mp hQsh
  have hk0 : k0 = min m' n' := (List.cons.inj (List.cons.inj e3).2).1.symm
  subst hk0
  have hbox : inBox (Arr.blockShapeD (without (leftF x L).adjA.indices [1]
      ++ without (leftF x L).indices [0]) (diagOf s)) [t, t'] = true := by
    have hidx : without (leftF x L).adjA.indices [1] ++ without (leftF x L).indices [0]
        = [(bondIx x L).conj, bondIx x L] := by rw [hAi, hQi]; rfl
    rw [hidx, hdg]
    unfold Arr.blockShapeD
    rw [(blockShape?_pair _ _ c' c' [min m' n', min m' n']).mpr
      ⟨min m' n', min m' n', by rw [conj_cm]; exact e2, e2, rfl⟩]
    exact (inBox_pair _ _ t t').mpr ⟨ht, ht'⟩
  rw [h4 _ _ hbox, hAn, hQn]
  exact g3 s b hmem m' n' hs t t' ht ht'

/-- **`Rt · Rt†`, abelian, every mode** -/
theorem gram_right_array_modes (conj : R →+* R) (hcj : ∀ v : R, Conj.conj v = conj v)
    (hv : x.validB = true) (h2 : x.ndim = 2) (hf : x.fermi = false) (hL : FacShape L Rt)
    (tm : TdotMode) :
    ∃ c, tensordotA (rightF x L Rt) (rightF x L Rt).adjA (.pair [1] [0]) tm = .ok c
      ∧ ∀ s b, (s, b) ∈ x.blocks → ∀ m n, b.shape = [m, n] → ∀ t t', t < min m n → t' < min m n →
          c.elem (diagOf s) [t, t']
            = (List.range n).foldl
                (fun acc j => acc + conj ((Rt b).get [t', j]) * (Rt b).get [t, j]) 0 := by
  obtain ⟨i0, i1, hi⟩ := ndim_two h2
  have hi1 : x.indices.getD 1 default = i1 := by rw [hi]; rfl
  obtain ⟨f1, f2, f3, f4, f5, f6⟩ := rightF_fields (x := x) (L := L) (Rt := Rt)
  have hVv : (rightF x L Rt).validB = true := rightF_valid hv h2 hi hL
  have hVf : (rightF x L Rt).fermi = false := f2.trans hf
  have hVi : (rightF x L Rt).indices = [(bondIx x L).conj, i1] := by rw [f3, hi1]
  have hVn : (rightF x L Rt).ndim = 2 := rightF_ndim
  obtain ⟨hBv, hBi, hBf, hBs⟩ := adjA_valid2 hVv hVf hVi
  have hBn : (rightF x L Rt).adjA.ndim = 2 := by simp [Arr.ndim, hBi]
  have hparse : parseAxes (rightF x L Rt).ndim (rightF x L Rt).adjA.ndim (.pair [1] [0])
      = .ok ([1], [0]) := by rw [hVn, hBn]; rfl
  obtain ⟨c, h1, h4⟩ := tensordotA_all_modes_table zero_mul mul_zero (rightF x L Rt)
    (rightF x L Rt).adjA (.pair [1] [0]) [1] [0] hparse hVv hBv hVf hBf hBs.symm
    (by
      unfold ValidP.contractibleB
      rw [hVi, hBi]
      simp)
    (by decide) (by decide) (by intro y hy; simp at hy; subst hy; rw [hVn]; decide)
    (by intro y hy; simp at hy; subst hy; rw [hBn]; decide) tm
  obtain ⟨_, _, g3⟩ := gram_right_array conj hcj hv h2 hf hL
  refine ⟨c, h1, ?_⟩
  intro s b hmem m n hs t t' ht ht'
  obtain ⟨r, c', m', n', B⟩ := mat_block hv hi hmem
  have hmm : m' = m := by
    have := B.hshape; rw [hs] at this; exact (List.cons.inj this).1.symm
  have hnn : n' = n := by
    have := B.hshape; rw [hs] at this; exact (List.cons.inj (List.cons.inj this).2).1.symm
  subst hmm hnn
  obtain ⟨_, _, l3, _⟩ := hL b m' n' hs B.hwf
  have hcol : colOf s = c' := by rw [B.hs]; rfl
  have hdg : diagOf s = [c', c'] := by simp [diagOf, hcol]
  have hVm : ([c', c'], Rt b) ∈ (rightF x L Rt).blocks := by
    rw [f5]; exact List.mem_map.mpr ⟨(s, b), hmem, by simp [hcol]⟩
  have hVsh := (((validB_iff _).mp hVv).2.2.2.1 [c', c'] (Rt b) hVm).2.2.1
  rw [hVi, l3] at hVsh
  obtain ⟨k0, n0, e1, e2, e3⟩ := (blockShape?_pair _ _ c' c' _).mp hVsh
  have hk0 : k0 = min m' n' := (List.cons.inj e3).1.symm
  subst hk0
  have hbox : inBox (Arr.blockShapeD (without (rightF x L Rt).indices [1]
      ++ without (rightF x L Rt).adjA.indices [0]) (diagOf s)) [t, t'] = true := by
    have hidx : without (rightF x L Rt).indices [1] ++ without (rightF x L Rt).adjA.indices [0]
        = [(bondIx x L).conj, (bondIx x L).conj.conj] := by rw [hVi, hBi]; rfl
    rw [hidx, hdg]
    unfold Arr.blockShapeD
    rw [(blockShape?_pair _ _ c' c' [min m' n', min m' n']).mpr
      ⟨min m' n', min m' n', e1, by rw [conj_cm]; exact e1, rfl⟩]
    exact (inBox_pair _ _ t t').mpr ⟨ht, ht'⟩
  rw [h4 _ _ hbox, hVn, hBn]
  exact g3 s b hmem m' n' hs t t' ht ht'

end array

end DecompP
end SymmModel
