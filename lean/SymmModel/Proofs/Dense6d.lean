/-
  SymmModel.Proofs.Dense6d — `reshape` runs the steps of its plan (abelian arrays); Boolean form of
  `StepsOk`.
-/
import SymmModel.Proofs.Dense6c

namespace SymmModel
namespace Dense6
open Arr DenseP Dense3 Dense4 Dense5 FuseP

variable {R : Type} [Zero R] [Neg R]

/-- a step with Python's method resolution (as `applyPlan` performs it) -/
def PStep.dispatch : PStep → Arr R → Except Err (Arr R)
  | .unfuse ax, x => unfuseDispatch x ax
  | .fuse g, x => fuseDispatch x g
  | .expand ax, x => expandDispatch x ax

theorem applyPlan_eq_dispatch (a : Arr R) (t : List Nat × List (List (List Nat)) × List Nat) :
    applyPlan a t = (stepsOf t).foldlM (fun x st => st.dispatch x) a := by
  obtain ⟨us, fs, es⟩ := t
  have e1 : (fun (x : Arr R) (y : Nat) => (PStep.unfuse y).dispatch x) = unfuseDispatch := rfl
  have e2 : (fun (x : Arr R) (y : List (List Nat)) => (PStep.fuse y).dispatch x) = fuseDispatch := rfl
  have e3 : (fun (x : Arr R) (y : Nat) => (PStep.expand y).dispatch x) = expandDispatch := rfl
  simp only [applyPlan, stepsOf, List.foldlM_append, List.foldlM_map, bind, Except.bind]
  rw [e1, e2, e3]
  cases List.foldlM unfuseDispatch a us <;> rfl

theorem dispatch_eq_run (steps : List PStep) (a : Arr R) (hv : a.validB = true)
    (hf : a.fermi = false) (hok : StepsOk steps a) :
    steps.foldlM (fun x st => st.dispatch x) a = runSteps steps a := by
  induction steps generalizing a with
  | nil => rfl
  | cons st rest ih =>
    simp only [runSteps, List.foldlM_cons, bind, Except.bind]
    have hsame : st.dispatch a = st.apply a := by
      cases st with
      | unfuse ax => simp [PStep.dispatch, PStep.apply, unfuseDispatch, hf]
      | fuse g =>
        obtain ⟨hg, _⟩ := hok
        simp only [PStep.dispatch, PStep.apply, fuseDispatch, hf, Bool.false_eq_true, if_false]
        exact C05.fuseA_eq_fuseCore a g .insert true a.ndim hg
      | expand ax =>
        obtain ⟨ha, _⟩ := hok
        simp only [PStep.dispatch, PStep.apply, expandDispatch]
        rw [if_neg (by omega)]
    rw [hsame]
    cases hx : st.apply a with
    | error e => rfl
    | ok x =>
      simp only
      have hnext : x.validB = true ∧ x.fermi = false ∧ StepsOk rest x := by
        cases st with
        | unfuse ax =>
          obtain ⟨⟨ix, subs, exts, hix, hsub⟩, hrest⟩ := hok
          have hx' : unfuseA a ax = .ok x := hx
          obtain ⟨y', hy', _, _, hyf, _⟩ := unfuseU (validArr_of_validB hv) hix hsub
          rw [hx'] at hy'; injection hy' with hy'; subst hy'
          exact ⟨ValidP.unfuseA_validB a x ax hv hf hx', by rw [hyf]; exact hf, (hrest x hx').2⟩
        | fuse g =>
          obtain ⟨hg, hrest⟩ := hok
          have hx' : fuseCore a g .insert = .ok x := hx
          obtain ⟨hxv, hxf⟩ := fuseCore_keeps hv hf hg hx'
          exact ⟨hxv, hxf, (hrest x hx').2⟩
        | expand ax =>
          obtain ⟨ha, hokx⟩ := hok
          simp only [PStep.apply, pure, Except.pure, Except.ok.injEq] at hx
          subst hx
          obtain ⟨_, _, _, hfer, _, _, _⟩ := expandDims_fields a ax none none
          exact ⟨C01.expandDims_none_valid a ax none hv, by rw [hfer]; exact hf, hokx⟩
      exact ih x hnext.1 hnext.2.1 hnext.2.2

/-- `StepsOk` by running the steps (a decidable sufficient condition) -/
def stepsOkB : List PStep → Arr R → Bool
  | [], _ => true
  | .unfuse ax :: rest, a =>
      (match a.indices[ax]? with
        | some ix => ix.sub.isSome
        | none => false)
      && (match unfuseA a ax with
          | .ok y => !(y.indices.any (fun ix => ix.cm.isEmpty)) && stepsOkB rest y
          | .error _ => true)
  | .fuse g :: rest, a => FuseP.groupsOkB g a.ndim
      && (match fuseCore a g .insert with
          | .ok x => !(x.indices.any (fun ix => ix.cm.isEmpty)) && stepsOkB rest x
          | .error _ => true)
  | .expand ax :: rest, a => decide (ax ≤ a.ndim) && stepsOkB rest (a.expandDims ax none none)

omit [Neg R] in
theorem stepsOk_of_B (steps : List PStep) (a : Arr R) (h : stepsOkB steps a = true) :
    StepsOk steps a := by
  induction steps generalizing a with
  | nil => trivial
  | cons st rest ih =>
    cases st with
    | unfuse ax =>
      simp only [stepsOkB, Bool.and_eq_true] at h
      obtain ⟨h1, h2⟩ := h
      refine ⟨?_, fun y hy => ?_⟩
      · cases hix : a.indices[ax]? with
        | none => simp [hix] at h1
        | some ix =>
          simp only [hix] at h1
          obtain ⟨se, hse⟩ := Option.isSome_iff_exists.mp h1
          exact ⟨ix, se.1, se.2, rfl, hse⟩
      · rw [hy] at h2
        simp only [Bool.and_eq_true, Bool.not_eq_true'] at h2
        exact ⟨h2.1, ih y h2.2⟩
    | fuse g =>
      simp only [stepsOkB, Bool.and_eq_true] at h
      refine ⟨h.1, fun x hx => ?_⟩
      have h2 := h.2
      rw [hx] at h2
      simp only [Bool.and_eq_true, Bool.not_eq_true'] at h2
      exact ⟨h2.1, ih x h2.2⟩
    | expand ax =>
      simp only [stepsOkB, Bool.and_eq_true, decide_eq_true_eq] at h
      exact ⟨h.1, ih _ h.2⟩

end Dense6
end SymmModel
