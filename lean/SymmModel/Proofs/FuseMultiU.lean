/-
  SymmModel.Proofs.FuseMultiU — `unfuseA` in certificate form: for ANY array whose index at
  `axis` is a well-formed fused index, the blocks of `unfuse x axis` are exactly the slices of the
  blocks of `x` along the extents of the table, and their entries are the entries of `x` at the
  joined offsets.
-/
import SymmModel.Proofs.FuseMulti7
namespace SymmModel
namespace FuseP
set_option linter.unusedSectionVars false

variable {R : Type}

theorem zipWith_add_set {i : List Nat} {n p st : Nat} (hl : i.length = n) :
    List.zipWith (· + ·) i ((List.replicate n 0).set p st) = i.set p (i.getD p 0 + st) := by
  apply List.ext_getElem?
  intro k
  simp only [List.getElem?_zipWith, List.getElem?_set, List.getElem?_replicate, List.length_replicate]
  by_cases hk : k < n
  · have hk' : k < i.length := by omega
    rw [List.getElem?_eq_getElem hk']
    by_cases hpk : p = k
    · subst hpk
      simp [hk, hk', List.getD_eq_getElem?_getD]
    · simp [hpk, hk]
  · have hk' : ¬ k < i.length := by omega
    rw [List.getElem?_eq_none (Nat.le_of_not_lt hk')]
    by_cases hpk : p = k
    · subst hpk; simp [hk']
    · simp [hpk]

theorem replaceWithSeq_split {α : Type} (l : List α) (p : Nat) (seq : List α) :
    replaceWithSeq l p seq = l.take p ++ seq ++ l.drop (p + 1) := rfl

/-- the other reading of `Index.wfB`: every chargemap entry has its extent -/
theorem wfB_cm_extent {sym : Sym} {ix : Index} (hw : Index.wfB sym ix = true) {subs : List Index}
    {exts : Extents} (hs : ix.sub = some (subs, exts)) {c : Charge} {D : Nat} (hc : ix.sizeOf? c = some D) :
    ∃ e, alookup exts c = some e ∧ ExtentOk sym ix.dual subs c D e := by
  obtain ⟨cm, dual, sub⟩ := ix
  simp only [Index.sub] at hs
  subst hs
  rw [Index.wfB.eq_def] at hw
  simp only [Bool.and_eq_true, List.all_eq_true] at hw
  obtain ⟨_, ⟨⟨_, h3⟩, _⟩⟩ := hw
  have h6 := h3 (c, D) (alookup_some_mem hc)
  simp only at h6
  cases he : alookup exts c with
  | none => rw [he] at h6; simp at h6
  | some ext =>
    rw [he] at h6
    exact ⟨ext, rfl, extentOk_iff.1 h6⟩

section U
variable [Zero R] {x : Arr R} {p : Nat} {ix : Index} {subs : List Index} {exts : Extents}

/-- what validity says about a block at the fused axis -/
theorem block_at_axis (hv : ValidArr x) (hix : x.indices[p]? = some ix) (hsub : ix.sub = some (subs, exts))
    {nsB : Sector × Blk R} (h : nsB ∈ x.blocks) :
    p < nsB.1.length ∧ nsB.1.length = x.indices.length ∧ nsB.2.shape.length = x.indices.length
      ∧ ∃ e, alookup exts (nsB.1.getD p (0, 0)) = some e
          ∧ ExtentOk x.sym ix.dual subs (nsB.1.getD p (0, 0)) (nsB.2.shape.getD p 0) e := by
  have hb := hv.blk nsB h
  have hl := blockShape?_length hb.2.1
  have hp : p < x.indices.length := getElem?_lt hix
  obtain ⟨ix', c, h1, h2, h3, h4, h5⟩ := blockShape?_get hb.2.1 hp
  rw [hix] at h1; simp only [Option.some.injEq] at h1; subst h1
  have hw := hv.idx ix (getElem?_mem' hix)
  obtain ⟨e, he, hok⟩ := wfB_cm_extent hw hsub h3
  refine ⟨by omega, hl.1.symm, by omega, e, by rw [h5]; exact he, by rw [h5]; exact hok⟩

/-- one piece of `unfuse` -/
def pieceU (B : Blk R) (p st d : Nat) (subshape : List Nat) : Blk R :=
  (B.sliceK ((List.replicate B.shape.length 0).set p st) (B.shape.set p d)).reshapeK
    (replaceWithSeq B.shape p subshape)

/-- entries of a piece: the entries of the block at the joined offset -/
theorem pieceU_get (B : Blk R) {p st d : Nat} {subshape : List Nat} (hp : p < B.shape.length)
    (hd : prod subshape = d) (hb : st + d ≤ B.shape.getD p 0) {J : List Nat}
    (hJ : inBox (replaceWithSeq B.shape p subshape) J = true) :
    (pieceU B p st d subshape).get J
      = B.get (J.take p ++ [st + ravel subshape ((J.drop p).take subshape.length)]
          ++ J.drop (p + subshape.length)) := by
  -- split `J`
  have hJl := inBox_length hJ
  simp only [replaceWithSeq_split, List.length_append, List.length_take, List.length_drop] at hJl
  have hmin : min p B.shape.length = p := by omega
  rw [hmin] at hJl
  have hJsplit : J = J.take p ++ (J.drop p).take subshape.length ++ J.drop (p + subshape.length) := by
    rw [List.append_assoc, ← List.drop_drop, List.take_append_drop, List.take_append_drop]
  have htl : (J.take p).length = (B.shape.take p).length := by
    simp only [List.length_take]; omega
  have hsl : ((J.drop p).take subshape.length).length = subshape.length := by
    simp only [List.length_take, List.length_drop]; omega
  rw [hJsplit, replaceWithSeq_split, inBox_append (by rw [List.length_append, htl, hsl, List.length_append]),
    inBox_append htl] at hJ
  simp only [Bool.and_eq_true] at hJ
  obtain ⟨⟨hJ1, hJ2⟩, hJ3⟩ := hJ
  -- the collapsed multi-index inside the slice
  have hr : ravel subshape ((J.drop p).take subshape.length) < prod subshape := ravel_lt hJ2
  have hlens : B.shape.set p d = B.shape.take p ++ [d] ++ B.shape.drop (p + 1) := set_split_at _ _ _ hp
  have hIbox : inBox (B.shape.set p d)
      (J.take p ++ [ravel subshape ((J.drop p).take subshape.length)] ++ J.drop (p + subshape.length)) = true := by
    rw [hlens, inBox_append (by simp [htl]), inBox_append htl, hJ1, hJ3]
    simp only [inBox, Bool.and_true, Bool.true_and, decide_eq_true_eq]
    omega
  have hrav : ravel (replaceWithSeq B.shape p subshape) J
      = ravel (B.shape.set p d)
          (J.take p ++ [ravel subshape ((J.drop p).take subshape.length)] ++ J.drop (p + subshape.length)) := by
    rw [hlens, ← hd, replaceWithSeq_split]
    conv_lhs => rw [hJsplit]
    have := ravel_group (A := B.shape.take p) (M := subshape) (C := B.shape.drop (p + 1))
      (ia := J.take p) (ic := J.drop (p + subshape.length))
      (r := ravel subshape ((J.drop p).take subshape.length)) htl hr
    rw [unravel_ravel hJ2] at this
    exact this.symm
  show (Blk.reshapeK _ _).get J = _
  rw [reshapeK_get, hrav]
  have hsl' : (B.sliceK ((List.replicate B.shape.length 0).set p st) (B.shape.set p d)).get
      (J.take p ++ [ravel subshape ((J.drop p).take subshape.length)] ++ J.drop (p + subshape.length))
      = B.get (List.zipWith (· + ·)
          (J.take p ++ [ravel subshape ((J.drop p).take subshape.length)] ++ J.drop (p + subshape.length))
          ((List.replicate B.shape.length 0).set p st)) := sliceK_get _ _ _ hIbox
  have hget : (B.sliceK ((List.replicate B.shape.length 0).set p st) (B.shape.set p d)).get
      (J.take p ++ [ravel subshape ((J.drop p).take subshape.length)] ++ J.drop (p + subshape.length))
      = (B.sliceK ((List.replicate B.shape.length 0).set p st) (B.shape.set p d)).data.getD
          (ravel (B.shape.set p d)
            (J.take p ++ [ravel subshape ((J.drop p).take subshape.length)] ++ J.drop (p + subshape.length))) 0 := rfl
  rw [← hget, hsl']
  congr 1
  have hIl : (J.take p ++ [ravel subshape ((J.drop p).take subshape.length)] ++ J.drop (p + subshape.length)).length
      = B.shape.length := by
    have := inBox_length hIbox
    simpa using this
  rw [zipWith_add_set hIl]
  have hpl : (J.take p).length = p := by simp only [List.length_take]; omega
  have hgetp : (J.take p ++ [ravel subshape ((J.drop p).take subshape.length)] ++ J.drop (p + subshape.length)).getD p 0
      = ravel subshape ((J.drop p).take subshape.length) := by
    have := getD_mid (J.take p) [ravel subshape ((J.drop p).take subshape.length)] (J.drop (p + subshape.length))
      0 0 (by simp)
    rw [hpl] at this
    simpa using this
  rw [hgetp]
  have := set_mid (J.take p) (J.drop (p + subshape.length)) (ravel subshape ((J.drop p).take subshape.length))
    (ravel subshape ((J.drop p).take subshape.length) + st)
  rw [hpl] at this
  rw [this, Nat.add_comm]

/-- membership in the list of pieces of `unfuse` -/
theorem mem_piecesU (hv : ValidArr x) (hix : x.indices[p]? = some ix) (hsub : ix.sub = some (subs, exts))
    {K : Sector} {V : Blk R} :
    (K, V) ∈ x.blocks.flatMap (piecesOf subs exts p)
    ↔ ∃ nsB ∈ x.blocks, ∃ e ss st d, alookup exts (nsB.1.getD p (0, 0)) = some e ∧ startOf e ss = some (st, d)
        ∧ K = replaceWithSeq nsB.1 p ss
        ∧ V = pieceU nsB.2 p st d ((Arr.blockShape? subs ss).getD []) := by
  simp only [List.mem_flatMap, piecesOf, List.mem_map]
  constructor
  · rintro ⟨nsB, hnsB, q, hq, heq⟩
    obtain ⟨_, _, _, e, he, hok⟩ := block_at_axis hv hix hsub hnsB
    rw [he] at hq
    simp only [Option.getD_some] at hq
    obtain ⟨⟨ss, d⟩, st⟩ := q
    have hst := (mem_zip_offsets hok.nodup).1 hq
    simp only [Prod.mk.injEq] at heq
    exact ⟨nsB, hnsB, e, ss, st, d, he, hst, heq.1.symm, heq.2.symm⟩
  · rintro ⟨nsB, hnsB, e, ss, st, d, he, hst, rfl, rfl⟩
    obtain ⟨_, _, _, e', he', hok⟩ := block_at_axis hv hix hsub hnsB
    rw [he] at he'; simp only [Option.some.injEq] at he'; subst he'
    refine ⟨nsB, hnsB, ((ss, d), st), ?_, rfl⟩
    simp only [he, Option.getD_some]
    exact (mem_zip_offsets hok.nodup).2 hst

/-- the key of a piece determines the block and the sub-sector it was cut from -/
theorem keyU_inj (hv : ValidArr x) (hix : x.indices[p]? = some ix) (hsub : ix.sub = some (subs, exts))
    {n1 n2 : Sector × Blk R} (h1 : n1 ∈ x.blocks) (h2 : n2 ∈ x.blocks)
    {e1 e2 : Extent} {s1 s2 : Sector} {st1 d1 st2 d2 : Nat}
    (he1 : alookup exts (n1.1.getD p (0, 0)) = some e1) (hs1 : startOf e1 s1 = some (st1, d1))
    (he2 : alookup exts (n2.1.getD p (0, 0)) = some e2) (hs2 : startOf e2 s2 = some (st2, d2))
    (hk : replaceWithSeq n1.1 p s1 = replaceWithSeq n2.1 p s2) : n1 = n2 ∧ s1 = s2 := by
  obtain ⟨hp1, hl1, _, e1', he1', hok1⟩ := block_at_axis hv hix hsub h1
  obtain ⟨hp2, hl2, _, e2', he2', hok2⟩ := block_at_axis hv hix hsub h2
  rw [he1] at he1'; simp only [Option.some.injEq] at he1'; subst he1'
  rw [he2] at he2'; simp only [Option.some.injEq] at he2'; subst he2'
  obtain ⟨hsl1, _, hc1⟩ := hok1.entry s1 d1 (startOf_mem hs1)
  obtain ⟨hsl2, _, hc2⟩ := hok2.entry s2 d2 (startOf_mem hs2)
  simp only [replaceWithSeq_split, List.append_assoc] at hk
  have ha := List.append_inj hk (by simp only [List.length_take]; omega)
  have hb := List.append_inj ha.2 (by rw [hsl1, hsl2])
  have hss : s1 = s2 := hb.1
  subst hss
  have hcc : n1.1.getD p (0, 0) = n2.1.getD p (0, 0) := by rw [← hc1, ← hc2]
  have hns : n1.1 = n2.1 := by
    rw [list_split_at n1.1 p (0, 0) hp1, list_split_at n2.1 p (0, 0) hp2, ha.1, hb.2, hcc]
  refine ⟨?_, rfl⟩
  have l1 := alookup_of_mem_nodup hv.nodup h1
  have l2 := alookup_of_mem_nodup hv.nodup h2
  rw [hns, l2] at l1
  simp only [Option.some.injEq] at l1
  exact Prod.ext hns l1.symm

/-- **unfuse in certificate form** -/
theorem unfuseU (hv : ValidArr x) (hix : x.indices[p]? = some ix) (hsub : ix.sub = some (subs, exts)) :
    ∃ y, unfuseA x p = .ok y ∧ y.indices = replaceWithSeq x.indices p subs
      ∧ y.sym = x.sym ∧ y.fermi = x.fermi ∧ y.charge = x.charge ∧ y.phases = x.phases ∧ y.oddpos = x.oddpos
      ∧ (∀ nsB ∈ x.blocks, ∀ e ss st d, alookup exts (nsB.1.getD p (0, 0)) = some e →
          startOf e ss = some (st, d) →
          ∃ subshape, Arr.blockShape? subs ss = some subshape ∧ prod subshape = d
            ∧ alookup y.blocks (replaceWithSeq nsB.1 p ss) = some (pieceU nsB.2 p st d subshape)
            ∧ ∀ J, inBox (replaceWithSeq nsB.2.shape p subshape) J = true →
                (pieceU nsB.2 p st d subshape).get J
                  = nsB.2.get (J.take p ++ [st + ravel subshape ((J.drop p).take subshape.length)]
                      ++ J.drop (p + subshape.length)))
      ∧ (∀ K V, alookup y.blocks K = some V →
          ∃ nsB ∈ x.blocks, ∃ e ss st d, alookup exts (nsB.1.getD p (0, 0)) = some e
            ∧ startOf e ss = some (st, d) ∧ K = replaceWithSeq nsB.1 p ss
            ∧ V = pieceU nsB.2 p st d ((Arr.blockShape? subs ss).getD [])) := by
  have hy := unfuseA_eq x p ix subs exts hix hsub (by
    intro sb hsb
    obtain ⟨_, _, _, e, he, hok⟩ := block_at_axis hv hix hsub hsb
    refine ⟨e, he, ?_⟩
    intro q hq
    obtain ⟨_, ⟨shp, hshp, _⟩, _⟩ := hok.entry q.1 q.2 hq
    exact ⟨shp, hshp⟩)
  refine ⟨_, hy, rfl, rfl, rfl, rfl, rfl, rfl, ?_, ?_⟩
  · intro nsB hnsB e ss st d he hst
    obtain ⟨hp, _, hBl, e', he', hok⟩ := block_at_axis hv hix hsub hnsB
    rw [he] at he'; simp only [Option.some.injEq] at he'; subst he'
    obtain ⟨_, ⟨subshape, hshp, hprod⟩, _⟩ := hok.entry ss d (startOf_mem hst)
    have hpB : p < nsB.2.shape.length := by omega
    refine ⟨subshape, hshp, hprod, ?_, ?_⟩
    · apply alookup_adict_unique
      · rw [mem_piecesU hv hix hsub]
        exact ⟨nsB, hnsB, e, ss, st, d, he, hst, rfl, by rw [hshp]; rfl⟩
      · intro V' hV'
        rw [mem_piecesU hv hix hsub] at hV'
        obtain ⟨n2, hn2, e2, s2, st2, d2, he2, hs2, hk, rfl⟩ := hV'
        obtain ⟨rfl, rfl⟩ := keyU_inj hv hix hsub hnsB hn2 he hst he2 hs2 hk
        rw [he] at he2; simp only [Option.some.injEq] at he2; subst he2
        rw [hst] at hs2
        simp only [Option.some.injEq, Prod.mk.injEq] at hs2
        obtain ⟨rfl, rfl⟩ := hs2
        rw [hshp]; rfl
    · intro J hJ
      apply pieceU_get nsB.2 hpB hprod _ hJ
      have := startOf_bound hst
      rw [hok.total] at this
      exact this
  · intro K V hl
    have := mem_adict (alookup_some_mem hl)
    exact (mem_piecesU hv hix hsub).1 this

end U

end FuseP
end SymmModel
