/-
  SymmModel.Proofs.Fuse9Cor — when the legs of every group share one direction no axis contributes to
  the sign: `unfuseAllF (conjF (fuseF a groups))` and `conjF (transposeF a perm)` have equal value views.
-/
import SymmModel.Proofs.Fuse9Main
namespace SymmModel
namespace FuseP
set_option linter.unusedSectionVars false
open SymmModel.Lazy SymmModel.KoszulP SymmModel.LinalgLemmas

theorem mmRec_nil (idx : List Index) (groups : List (List Nat)) (pos : Nat) : ∀ g : Nat,
    (∀ g', g' < g → multiB groups g' = true → ∀ ix subs exts, idx[pos + g']? = some ix →
      ix.sub = some (subs, exts) → mismatchLegs ix subs = []) →
    mmRec idx groups pos g [] = [] := by
  intro g
  induction g with
  | zero => intro _; rfl
  | succ g ih =>
    intro h
    have ih' := ih (fun g' hg' => h g' (by omega))
    simp only [mmRec]
    split
    · rename_i hm
      cases hq : idx[pos + g]? with
      | none => exact ih'
      | some ix =>
        simp only
        cases hs : ix.sub with
        | none => exact ih'
        | some q =>
          obtain ⟨subs, exts⟩ := q
          simp only
          rw [h g (by omega) hm ix subs exts hq hs]
          exact ih'
    · exact ih'

theorem mismatchLegs_nil (ix : Index) (subs : List Index)
    (h : ∀ t, t < subs.length → (subs.getD t default).dual = ix.dual) : mismatchLegs ix subs = [] := by
  unfold mismatchLegs
  rw [List.filter_eq_nil_iff]
  intro t ht
  rw [h t (List.mem_range.1 ht)]
  simp

/-- the index a group axis has after the transposition of `fuseF` -/
theorem permuted_newAxis {α : Type} {groups : List (List Nat)} {duals : List Bool} (hok : GroupsOk groups duals.length)
    (l : List α) (d : α) (hl : l.length = duals.length) {ax : Nat} (hax : ax ∈ groups.flatten) :
    (permuted l (calcFuseGroupInfo groups duals).perm).getD
        ((indexOf? (calcFuseGroupInfo groups duals).perm ax).getD 0) d = l.getD ax d := by
  obtain ⟨t, ht, rfl⟩ := List.mem_iff_getElem.1 hax
  rw [indexOf?_perm_flatten hok ht, Option.getD_some]
  have hall : ∀ p ∈ (calcFuseGroupInfo groups duals).perm, p < l.length := by
    intro p hp; rw [hl]; exact (mem_perm hok).1 hp
  rw [permuted_eq_map l d _ hall]
  have h1 : (calcFuseGroupInfo groups duals).perm[(calcFuseGroupInfo groups duals).position + t]?
      = some groups.flatten[t] := by
    rw [perm_eq, axesBefore_eq hok, List.append_assoc, List.getElem?_append_right (by simp),
      List.getElem?_append_left (by simpa using ht)]
    simp [List.getElem?_eq_getElem ht]
  simp [List.getD_eq_getElem?_getD, List.getElem?_map, h1]

section
variable {R : Type} [Zero R] [Neg R] [Conj R] [LawfulNegConj R]

/-- legs of one direction in every group: no axis contributes -/
theorem mmAxes_nil (a : Arr R) (groups : List (List Nat)) (hv : a.validB = true) (hf : a.fermi = true)
    (hok : GroupsOk groups a.ndim)
    (hdir : ∀ g ∈ groups, ∀ ax ∈ g, a.duals.getD ax false = a.duals.getD (g.headD 0) false) :
    mmAxes a groups = [] := by
  have hfld := signAdj_fields a groups
  have hnd4 : (signAdj a groups).ndim = a.ndim := by
    show (signAdj a groups).indices.length = a.ndim
    rw [hfld.2.1]; exact permutedM_length hok a.indices rfl
  have hd4 : (signAdj a groups).duals.length = a.duals.length := by
    rw [duals_length, duals_length, hnd4]
  have hok4 : GroupsOk (newGroupsF groups a.duals) (signAdj a groups).ndim := by
    rw [hnd4, ← duals_length]; exact newGroupsF_ok (hokD hok)
  obtain ⟨hpos, _, _⟩ := newGroups_plan (hokD hok) hd4
  have hposM : (giM (signAdj a groups) (newGroupsF groups a.duals)).position
      = (calcFuseGroupInfo groups a.duals).position := hpos
  unfold mmAxes
  apply mmRec_nil
  intro g' hg' hm ix subs exts hix hsub
  apply mismatchLegs_nil
  intro t ht
  have hgg : groups[g']? = some groups[g'] := List.getElem?_eq_getElem hg'
  have hm4 : multiB (newGroupsF groups a.duals) g' = true := by rw [multiB_newGroupsF]; exact hm
  obtain ⟨gx, hgx, hlen⟩ := multiB_iff.1 hm4
  have hgx' : gx = groups[g'].map (fun ax => (indexOf? (calcFuseGroupInfo groups a.duals).perm ax).getD 0) := by
    rw [newGroupsF_getElem?, hgg] at hgx
    simpa using hgx.symm
  -- the index at the group's position
  have hixM : ix = ixM (signAdj a groups) (newGroupsF groups a.duals) g' := by
    have hlt : (calcFuseGroupInfo groups a.duals).position + g'
        < (newIdxM (signAdj a groups) (newGroupsF groups a.duals)).length := getElem?_lt hix
    simp only [ixM, hposM, List.getD_eq_getElem?_getD, hix, Option.getD_some]
  have hs := ixM_sub hok4 hgx hlen
  rw [← hixM, hsub] at hs
  simp only [Option.some.injEq, Prod.mk.injEq] at hs
  have hsubs := hs.1
  have hgne : groups[g'] ≠ [] := hok.gne _ (List.getElem_mem hg')
  have hmemF : ∀ ax ∈ groups[g'], ax ∈ groups.flatten :=
    fun ax hax => List.mem_flatten.2 ⟨_, List.getElem_mem hg', hax⟩
  have hal : a.indices.length = a.duals.length := (duals_length a).symm
  -- direction of the fused index: the first leg
  have hdual : ix.dual = a.duals.getD (groups[g'].headD 0) false := by
    rw [hixM, ixM_dual hok4 hgx hlen, groupDuals_getD _ _ _ _ hgx]
    show ((signAdj a groups).indices.map Index.dual).getD _ false = _
    rw [getD_map_dual, hfld.2.1, hgx']
    have hhead : (groups[g'].map (fun ax => (indexOf? (calcFuseGroupInfo groups a.duals).perm ax).getD 0)).headD 0
        = (indexOf? (calcFuseGroupInfo groups a.duals).perm (groups[g'].headD 0)).getD 0 := by
      cases hq : groups[g'] with
      | nil => exact absurd hq hgne
      | cons x xs => rfl
    rw [hhead, permuted_newAxis (hokD hok) a.indices default hal (hmemF _ (by
      cases hq : groups[g'] with
      | nil => exact absurd hq hgne
      | cons x xs => simp))]
    show _ = (a.indices.map Index.dual).getD _ false
    rw [getD_map_dual]
  -- direction of the legs
  rw [hsubs] at ht ⊢
  simp only [List.length_map] at ht
  have hgl : gx.length = groups[g'].length := by rw [hgx', List.length_map]
  have ht' : t < groups[g'].length := by rw [← hgl]; exact ht
  have hleg : ((gx.map (fun ax => (signAdj a groups).indices.getD ax default)).getD t default).dual
      = a.duals.getD (groups[g'][t]) false := by
    have e1 : (gx.map (fun ax => (signAdj a groups).indices.getD ax default)).getD t default
        = (signAdj a groups).indices.getD (gx.getD t 0) default := by
      simp [List.getD_eq_getElem?_getD, List.getElem?_map, List.getElem?_eq_getElem ht]
    have e2 : gx.getD t 0 = (indexOf? (calcFuseGroupInfo groups a.duals).perm groups[g'][t]).getD 0 := by
      rw [hgx']
      simp [List.getD_eq_getElem?_getD, List.getElem?_map, List.getElem?_eq_getElem ht']
    rw [e1, e2, hfld.2.1, permuted_newAxis (hokD hok) a.indices default hal (hmemF _ (List.getElem_mem ht'))]
    show _ = (a.indices.map Index.dual).getD _ false
    rw [getD_map_dual]
  rw [hleg, hdual]
  exact hdir _ (List.getElem_mem hg') _ (List.getElem_mem ht')

end

end FuseP
end SymmModel
