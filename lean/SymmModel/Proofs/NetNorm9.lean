/-
  SymmModel.Proofs.NetNorm9 — network form of the norm (property C10), continuation part 9:
  the three-tensor chain, halves route, with EVERY contraction call in its own mode (`blockwise`,
  `fused`, `auto`): `a·b`, `ā·b̄`, `(a·b)·c`, `(ā·b̄)·c̄` and the two final calls.  Fused / auto results are
  zero-padded copies (`TdotP.Pad`) of the blockwise ones; the weak guards of the later calls come from
  the frames (`InterW`) of the intermediates (`admW_left_chain_w`, `full_common`).
-/
import SymmModel.Proofs.NetNorm8
namespace SymmModel.NormNet
open SymmModel SymmModel.Lazy SymmModel.Norm SymmModel.TdotP SymmModel.GradedP SymmModel.RoutesP
open SymmModel.AssocP
set_option linter.unusedSectionVars false

section frames
variable {R : Type}

theorem forall₂_sizeLe_refl (l : List Index) : List.Forall₂ SizeLe l l := by
  induction l with
  | nil => exact .nil
  | cons x xs ih => exact .cons (SizeLe.refl x) ih

theorem forall₂_sizeLe_trans {l m n : List Index} (h1 : List.Forall₂ SizeLe l m)
    (h2 : List.Forall₂ SizeLe m n) : List.Forall₂ SizeLe l n := by
  induction h1 generalizing n with
  | nil => cases h2; exact .nil
  | cons hx _ ih =>
    cases h2 with
    | cons hy h2' => exact .cons (hx.trans hy) (ih h2')

/-- pruning the tables of an operand prunes the frame of a contraction result -/
theorem frame_mono {Z : Arr R} {F2 W Cc : List Index} (x2 : List Nat)
    (hZ : List.Forall₂ SizeLe Z.indices F2)
    (hW : List.Forall₂ SizeLe W (without Z.indices x2 ++ Cc)) :
    List.Forall₂ SizeLe W (without F2 x2 ++ Cc) := by
  refine forall₂_sizeLe_trans hW (forall₂_append ?_ (forall₂_sizeLe_refl Cc))
  rw [without_eq_permuted_freeAxes, without_eq_permuted_freeAxes, hZ.length_eq]
  exact forall₂_permuted hZ _

/-- two arrays whose table frames are leg-wise opposite satisfy the weak guard over all legs -/
theorem full_common {Z X : Arr R} {F G : List Index}
    (hZ : List.Forall₂ SizeLe Z.indices G) (hX : List.Forall₂ SizeLe X.indices F)
    (hFG : List.Forall₂ Opp F G)
    (hnZ : ∀ ix ∈ Z.indices, (ix.cm.map (·.1)).Nodup)
    (hnF : ∀ ix ∈ F, (ix.cm.map (·.1)).Nodup) :
    contractibleCommonB Z X (List.range F.length) (List.range F.length) = true := by
  rw [commonB_iff]
  refine ⟨rfl, fun j hj => ?_⟩
  rw [List.length_range] at hj
  rw [getD_range _ _ hj]
  have hlG : G.length = F.length := hFG.length_eq.symm
  have sZ := forall₂_getD hZ j (by rw [hZ.length_eq, hlG]; exact hj) default default
  have sX := forall₂_getD hX j (by rw [hX.length_eq]; exact hj) default default
  have hopp := forall₂_getD hFG j hj default default
  have hmZ : Z.indices.getD j default ∈ Z.indices :=
    getD_mem_idx (by rw [hZ.length_eq, hlG]; exact hj)
  have hmF : F.getD j default ∈ F := getD_mem_idx hj
  have c0 : cmAgree (G.getD j default).cm (F.getD j default).cm = true := by
    rw [hopp.1]; exact cmAgree_self (hnF _ hmF)
  refine ⟨cmAgree_of_sizeLe_right sX (cmAgree_of_sizeLe_left sZ (hnZ _ hmZ) c0), ?_⟩
  rw [sX.1, sZ.1, hopp.2]; simp

end frames

section chainM
variable {R : Type} [AddCommMonoid R] [Mul R] [Neg R] [Conj R] [NetLaws R]

/-- the conclusion of `network_norm_chain3M`: `K3` the blockwise `(a·b)·c` (reference for `normSq`) -/
def Chain3M (a b c : Arr R) (xa xb1 xb2 xc : List Nat) (md : Nat → TdotMode) : Prop :=
  ∃ K2 K3 K2m Kb2m K3m Kb3m,
    a.tensordotF b (.pair (xa.map Int.ofNat) (xb1.map Int.ofNat)) .blockwise = .ok K2
    ∧ K2.tensordotF c (.pair ((AssocP.axesAB a.ndim b.ndim xa xb1 xb2).map Int.ofNat)
        (xc.map Int.ofNat)) .blockwise = .ok K3
    ∧ a.tensordotF b (.pair (xa.map Int.ofNat) (xb1.map Int.ofNat)) (md 0) = .ok K2m
    ∧ (braOf a xa).tensordotF (braOf b (xb1 ++ xb2))
        (.pair (xa.map Int.ofNat) (xb1.map Int.ofNat)) (md 1) = .ok Kb2m
    ∧ K2m.tensordotF c (.pair ((AssocP.axesAB a.ndim b.ndim xa xb1 xb2).map Int.ofNat)
        (xc.map Int.ofNat)) (md 2) = .ok K3m
    ∧ Kb2m.tensordotF (braOf c xc) (.pair ((AssocP.axesAB a.ndim b.ndim xa xb1 xb2).map Int.ofNat)
        (xc.map Int.ofNat)) (md 3) = .ok Kb3m
    ∧ (∃ r, Kb3m.tensordotF K3m (allAxes K3.ndim) (md 4) = .ok r
        ∧ r.ndim = 0 ∧ r.oddpos = [] ∧ r.elem [] [] = normSq K3)
    ∧ (∃ r, K3m.tensordotF Kb3m (allAxes K3.ndim) (md 5) = .ok r
        ∧ r.ndim = 0 ∧ r.oddpos = [] ∧ r.elem [] [] = normSq' K3)

/-- **three-tensor chain, halves route, every call in any mode** -/
theorem network_norm_chain3M (hz1 : ∀ x : R, 0 * x = 0) (hz2 : ∀ x : R, x * 0 = 0)
    (a b c : Arr R) (xa xb1 xb2 xc : List Nat)
    (ha : a.validB = true) (hb : b.validB = true) (hc : c.validB = true)
    (hfa : a.fermi = true) (hfb : b.fermi = true) (hfc : c.fermi = true)
    (hadm1 : tdotAdmissibleCommonB a b xa xb1 = true)
    (hadm2 : tdotAdmissibleCommonB b c xb2 xc = true)
    (hnd : (xb1 ++ xb2).Nodup)
    (hoA : KetLabels a.oddpos) (hoB : KetLabels b.oddpos) (hoC : KetLabels c.oddpos)
    (hd : ((a.oddpos ++ b.oddpos) ++ c.oddpos).Pairwise (fun x y => x.1 ≠ y.1))
    (md : Nat → TdotMode) : Chain3M a b c xa xb1 xb2 xc md := by
  obtain ⟨K2, Kb2, K3, Kb3, eK2, eKb2, eK3, eKb3, hobs1, hobs2, hnd3, hperm, hK3v, hK3f, hKb3v,
    hKb3f, ⟨r, e1, n1, o1, v1⟩, ⟨r', e2, n2, o2, v2⟩⟩ :=
    network_norm_chain3 a b c xa xb1 xb2 xc ha hb hc hfa hfb hfc hadm1 hadm2 hnd hoA hoB hoC hd
  have W1 := AdmW.of ha hb hfa hfb hadm1
  have Wbc := AdmW.of hb hc hfb hfc hadm2
  have hM : Mid b.ndim xb1 xb2 := Mid.of hnd (by
    intro i hi
    rcases List.mem_append.mp hi with h | h
    · exact W1.ltB i h
    · exact Wbc.ltA i h)
  have W1b := braOf_admW' W1 xa (xb1 ++ xb2)
  have Wbcb := braOf_admW' Wbc (xb1 ++ xb2) xc
  have hMb : Mid (braOf b (xb1 ++ xb2)).ndim xb1 xb2 := by rw [braOf_ndim]; exact hM
  -- the first calls
  obtain ⟨K2m, e1m, pK2, IK2m, IK2, oK2, cK2⟩ := call_any2 hz1 hz2 a b xa xb1 W1 (md 0) K2 eK2
  obtain ⟨Kb2m, e2m, pKb2, IKb2m, IKb2, oKb2, cKb2⟩ :=
    call_any2 hz1 hz2 (braOf a xa) (braOf b (xb1 ++ xb2)) xa xb1 W1b (md 1) Kb2 eKb2
  -- the second calls
  have W2q := admW_left_chain_w IK2 W1 Wbc hM
  have W2p := admW_left_chain_w IK2m W1 Wbc hM
  obtain ⟨zp, ezp, pz, oz, cz⟩ :=
    pad_blockwise hz1 hz2 pK2 (Pad.refl hc) W2p W2q oK2 cK2 rfl rfl K3 eK3
  obtain ⟨K3m, e3m, pK3m, IK3m, _, oK3m, cK3m⟩ := call_any2 hz1 hz2 K2m c _ _ W2p (md 2) zp ezp
  obtain ⟨_, _, _, _, IK3, _, _⟩ := call_any2 hz1 hz2 K2 c _ _ W2q .blockwise K3 eK3
  have W2bq := admW_left_chain_w IKb2 W1b Wbcb hMb
  have W2bp := admW_left_chain_w IKb2m W1b Wbcb hMb
  simp only [braOf_ndim] at W2bq W2bp
  obtain ⟨zpb, ezpb, pzb, ozb, czb⟩ :=
    pad_blockwise hz1 hz2 pKb2 (Pad.refl Wbcb.vb) W2bp W2bq oKb2 cKb2 rfl rfl Kb3 eKb3
  obtain ⟨Kb3m, e4m, pKb3m, IKb3m, _, oKb3m, cKb3m⟩ :=
    call_any2 hz1 hz2 Kb2m (braOf c xc) _ _ W2bp (md 3) zpb ezpb
  obtain ⟨_, _, _, _, IKb3, _, _⟩ := call_any2 hz1 hz2 Kb2 (braOf c xc) _ _ W2bq .blockwise Kb3 eKb3
  -- the common frame of the two halves
  have hwi : without (braOf a xa).indices xa ++ without (braOf b (xb1 ++ xb2)).indices xb1
      = (without a.indices xa ++ without b.indices xb1).map Index.conj := by
    rw [(braOf_frame a xa).2.2.1, (braOf_frame b (xb1 ++ xb2)).2.2.1, without_map, without_map,
      List.map_append]
  have hF3c : without ((without a.indices xa ++ without b.indices xb1).map Index.conj)
        (AssocP.axesAB a.ndim b.ndim xa xb1 xb2) ++ without (braOf c xc).indices xc
      = (without (without a.indices xa ++ without b.indices xb1)
          (AssocP.axesAB a.ndim b.ndim xa xb1 xb2) ++ without c.indices xc).map Index.conj := by
    rw [(braOf_frame c xc).2.2.1, without_map, without_map, List.map_append]
  have fK3 := frame_mono _ IK2.frame IK3.frame
  have fK3m := frame_mono _ IK2m.frame IK3m.frame
  have fKb3 := frame_mono _ (by have := IKb2.frame; rwa [hwi] at this) IKb3.frame
  have fKb3m := frame_mono _ (by have := IKb2m.frame; rwa [hwi] at this) IKb3m.frame
  rw [hF3c] at fKb3 fKb3m
  generalize hF3 : without (without a.indices xa ++ without b.indices xb1)
      (AssocP.axesAB a.ndim b.ndim xa xb1 xb2) ++ without c.indices xc = F3
      at fK3 fK3m fKb3 fKb3m
  have nF3 : ∀ ix ∈ F3, (ix.cm.map (·.1)).Nodup := by
    intro ix hix
    rw [← hF3] at hix
    rcases List.mem_append.mp hix with h | h
    · rw [without_eq_permuted_freeAxes] at h
      exact nodup_keys_frame ha hb xa xb1 ix (mem_permuted h)
    · rw [without_eq_permuted_freeAxes] at h
      exact keys_nodup_of_validB hc ix (mem_permuted h)
  have nF3c := nodup_keys_conj nF3
  have hn : K3.ndim = F3.length := fK3.length_eq
  have hnc : (F3.map Index.conj).length = F3.length := List.length_map _
  have ndK3m : K3m.ndim = F3.length := fK3m.length_eq
  have ndKb3 : Kb3.ndim = F3.length := fKb3.length_eq.trans hnc
  have ndKb3m : Kb3m.ndim = F3.length := fKb3m.length_eq.trans hnc
  have ltR : ∀ (Y : Arr R), Y.ndim = F3.length → ∀ i ∈ List.range F3.length, i < Y.ndim := by
    intro Y hY i hi; rw [hY]; exact List.mem_range.mp hi
  -- symmetries
  have sK3 : K3.sym = a.sym := IK3.sym.trans IK2.sym
  have sK3m : K3m.sym = a.sym := IK3m.sym.trans IK2m.sym
  have sKb3 : Kb3.sym = a.sym := IKb3.sym.trans (IKb2.sym.trans (braOf_frame a xa).1)
  have sKb3m : Kb3m.sym = a.sym := IKb3m.sym.trans (IKb2m.sym.trans (braOf_frame a xa).1)
  -- the guards of the final calls
  have c1q := full_common fKb3 fK3 (forall₂_opp_conj F3) (keys_nodup_of_validB hKb3v) nF3
  have c1p := full_common fKb3m fK3m (forall₂_opp_conj F3) (keys_nodup_of_validB IKb3m.valid) nF3
  have c2q := full_common fK3 fKb3 (forall₂_opp_conj' F3) (keys_nodup_of_validB hK3v) nF3c
  have c2p := full_common fK3m fKb3m (forall₂_opp_conj' F3) (keys_nodup_of_validB IK3m.valid) nF3c
  rw [hnc] at c2q c2p
  have Wq1 : AdmW Kb3 K3 (List.range F3.length) (List.range F3.length) :=
    ⟨hKb3v, hK3v, hKb3f, hK3f, sKb3.trans sK3.symm, c1q, List.nodup_range, List.nodup_range,
      ltR Kb3 ndKb3, ltR K3 hn⟩
  have Wp1 : AdmW Kb3m K3m (List.range F3.length) (List.range F3.length) :=
    ⟨IKb3m.valid, IK3m.valid, IKb3m.fermi, IK3m.fermi, sKb3m.trans sK3m.symm, c1p,
      List.nodup_range, List.nodup_range, ltR Kb3m ndKb3m, ltR K3m ndK3m⟩
  have Wq2 : AdmW K3 Kb3 (List.range F3.length) (List.range F3.length) :=
    ⟨hK3v, hKb3v, hK3f, hKb3f, sK3.trans sKb3.symm, c2q, List.nodup_range, List.nodup_range,
      ltR K3 hn, ltR Kb3 ndKb3⟩
  have Wp2 : AdmW K3m Kb3m (List.range F3.length) (List.range F3.length) :=
    ⟨IK3m.valid, IKb3m.valid, IK3m.fermi, IKb3m.fermi, sK3m.trans sKb3m.symm, c2p,
      List.nodup_range, List.nodup_range, ltR K3m ndK3m, ltR Kb3m ndKb3m⟩
  rw [hn] at e1 e2
  -- pads of the halves
  have pK3 : Pad K3m K3 := pK3m.trans pz
  have pKb3 : Pad Kb3m Kb3 := pKb3m.trans pzb
  have oK3 : K3m.oddpos = K3.oddpos := oK3m.trans oz
  have cK3 : K3m.charge = K3.charge := cK3m.trans cz
  have oKb3 : Kb3m.oddpos = Kb3.oddpos := oKb3m.trans ozb
  have cKb3 : Kb3m.charge = Kb3.charge := cKb3m.trans czb
  refine ⟨K2, K3, K2m, Kb2m, K3m, Kb3m, eK2, eK3, e1m, e2m, e3m, e4m, ?_, ?_⟩
  · rw [hn]
    obtain ⟨zf, ezf, pzf, ozf, _⟩ := pad_blockwise hz1 hz2 pKb3 pK3 Wp1 Wq1 oKb3 cKb3 oK3 cK3 r e1
    obtain ⟨rm, erm, prm, _, orm, _⟩ := call_any hz1 hz2 Kb3m K3m _ _ Wp1 (md 4) zf ezf
    have nrm : rm.ndim = 0 := prm.ndim.trans (pzf.ndim.trans n1)
    exact ⟨rm, erm, nrm, by rw [orm, ozf, o1],
      by rw [pad_elem_nil prm nrm, pad_elem_nil pzf (pzf.ndim.trans n1), v1]⟩
  · rw [hn]
    obtain ⟨zf, ezf, pzf, ozf, _⟩ := pad_blockwise hz1 hz2 pK3 pKb3 Wp2 Wq2 oK3 cK3 oKb3 cKb3 r' e2
    obtain ⟨rm, erm, prm, _, orm, _⟩ := call_any hz1 hz2 K3m Kb3m _ _ Wp2 (md 5) zf ezf
    have nrm : rm.ndim = 0 := prm.ndim.trans (pzf.ndim.trans n2)
    exact ⟨rm, erm, nrm, by rw [orm, ozf, o2],
      by rw [pad_elem_nil prm nrm, pad_elem_nil pzf (pzf.ndim.trans n2), v2]⟩

end chainM

end SymmModel.NormNet
