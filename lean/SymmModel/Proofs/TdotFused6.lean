/-
  SymmModel.Proofs.TdotFused6 — unfusing the product of the fused matrices: one `unfuse` step in
  "decode" form, pruned indices, and the composition with `fused_core`.
  Namespace `SymmModel.TdotP`.
-/
import SymmModel.Proofs.TdotFused5

namespace SymmModel
namespace TdotP
variable {R : Type}

/-! ### one `unfuse` step, read backwards -/

/-- **unfuse, decode form** (from `C05.unfuse_elem`).  Every stored block `(K, V)` of the unfused
    array comes from a stored block `(ns, B)` of the input and a sub-sector `ss` of the extent of
    `ns[axis]`: `K` is `ns` with that charge replaced by `ss`, and `V`'s entry at `J` is `B`'s
    entry at the position `i` of the fused axis that `splitAddr` decodes to `(ss, J's segment)`.
    Conversely every such `(ns, B, ss)` gives a stored block. -/
theorem unfuse_step [Zero R] (x : Arr R) (axis : Nat) (ix : Index) (subs : List Index)
    (exts : Extents) (hv : x.validB = true) (hix : x.indices[axis]? = some ix)
    (hsub : ix.sub = some (subs, exts)) :
    ∃ y, unfuseA x axis = .ok y ∧ y.indices = replaceWithSeq x.indices axis subs
      ∧ (∀ ns B, (ns, B) ∈ x.blocks → ∀ e ss st d, alookup exts (ns.getD axis (0, 0)) = some e →
          FuseP.startOf e ss = some (st, d) →
          ∃ V, alookup y.blocks (replaceWithSeq ns axis ss) = some V)
      ∧ (∀ K V, alookup y.blocks K = some V →
          ∃ ns B ss subshape, (ns, B) ∈ x.blocks ∧ K = replaceWithSeq ns axis ss
            ∧ Arr.blockShape? subs ss = some subshape
            ∧ V.shape = replaceWithSeq B.shape axis subshape
            ∧ ∀ J, inBox V.shape J = true →
                ∃ i, FuseP.splitAddr ix (ns.getD axis (0, 0)) i
                      = some (ss, (J.drop axis).take subshape.length)
                  ∧ V.get J = B.get (J.take axis ++ [i] ++ J.drop (axis + subshape.length))) := by
  obtain ⟨y, h1, h2, hA, hB⟩ := C05.unfuse_elem x axis ix subs exts hv hix hsub
  refine ⟨y, h1, h2, ?_, ?_⟩
  · intro ns B hm e ss st d he hst
    obtain ⟨subshape, _, _, e3, _⟩ := hA ns B hm e ss st d he hst
    exact ⟨_, e3⟩
  · intro K V hl
    obtain ⟨ns, B, e, ss, st, d, hm, he, hst, rfl, rfl⟩ := hB K V hl
    obtain ⟨subshape, e1, _, _, e4, e5⟩ := hA ns B hm e ss st d he hst
    refine ⟨ns, B, ss, subshape, hm, rfl, e1, ?_, ?_⟩
    · rw [e1]; exact e4
    · intro J hJ
      rw [e1] at hJ ⊢
      simp only [Option.getD_some] at hJ ⊢
      rw [e4] at hJ
      obtain ⟨hj, hg⟩ := e5 J hJ
      exact ⟨_, FuseP.splitAddr_joinAddr hj, hg⟩

/-! ### pruned indices -/

theorem dropTo_sizeOf? (ix : Index) (S : List Charge) {c : Charge} (hc : c ∈ S) :
    (dropTo ix S).sizeOf? c = ix.sizeOf? c := by
  simp only [Index.sizeOf?, dropTo_cm]
  rw [alookup_filter_key ix.cm (fun k => S.contains k) c]
  simp [hc]

theorem dropTo_sub (ix : Index) (S : List Charge) {subs : List Index} {exts : Extents}
    (h : ix.sub = some (subs, exts)) :
    (dropTo ix S).sub = some (subs, exts.filter (fun p =>
      !(ix.charges.filter (fun c => !S.contains c)).contains p.1)) := by
  rw [dropTo_eq_dropCharges]
  obtain ⟨c, d, s⟩ := ix
  simp only [Index.sub] at h
  subst h
  rfl

theorem dropTo_splitAddr (ix : Index) (S : List Charge) {c : Charge} (hc : c ∈ S) (i : Nat) :
    FuseP.splitAddr (dropTo ix S) c i = FuseP.splitAddr ix c i := by
  cases hs : ix.sub with
  | none =>
    have : (dropTo ix S).sub = none := by
      rw [dropTo_eq_dropCharges]
      obtain ⟨cm, d, s⟩ := ix
      simp only [Index.sub] at hs
      subst hs; rfl
    simp [FuseP.splitAddr, hs, this]
  | some se =>
    obtain ⟨subs, exts⟩ := se
    simp only [FuseP.splitAddr, dropTo_sub ix S hs, hs]
    rw [alookup_filter_key exts
      (fun k => !(ix.charges.filter (fun c => !S.contains c)).contains k) c]
    have : (!(ix.charges.filter (fun c => !S.contains c)).contains c) = true := by
      simp [hc]
    rw [if_pos this]

/-! ### the product of the fused matrices -/

/-- the product of the two fused matrices -/
def cfOf [Zero R] [Add R] [Mul R] (A B : Arr R) (xa xb : List Nat) : Arr R :=
  tensordotBlockwise (FuseP.fusedArrM A [freeAxes A.ndim xa, xa])
    (FuseP.fusedArrM B [xb, freeAxes B.ndim xb]) [0] [1] [0] [1]

namespace FusedCtx
variable {A B : Arr R} {xa xb : List Nat}

theorem cf_validB [Zero R] [Add R] [Mul R] (h : FusedCtx A B xa xb) : (cfOf A B xa xb).validB = true := by
  have hvaf := fused_pair_validB h.vA h.fA h.pairA
  have hvbf := fused_pair_validB h.vB h.fB h.pairB
  have e1 : (FuseP.fusedArrM A [freeAxes A.ndim xa, xa]).ndim = 2 := by
    show (FuseP.newIdxM A _).length = 2
    rw [pair_newIdx h.pairA]; rfl
  have e2 : (FuseP.fusedArrM B [xb, freeAxes B.ndim xb]).ndim = 2 := by
    show (FuseP.newIdxM B _).length = 2
    rw [pair_newIdx h.pairB]; rfl
  have := ValidP.tensordotBlockwise_valid (FuseP.fusedArrM A [freeAxes A.ndim xa, xa])
    (FuseP.fusedArrM B [xb, freeAxes B.ndim xb]) [1] [0]
    ((ValidP.validB_iff _).mp hvaf) ((ValidP.validB_iff _).mp hvbf) h.sym h.fA
    (by
      unfold ValidP.oppositeDualsB
      simp only [List.length_cons, List.length_nil, BEq.rfl, List.zip_cons_cons, List.zip_nil_right,
        List.all_cons, List.all_nil, Bool.and_true, Bool.true_and, bne_iff_ne, ne_eq]
      have e3 : (FuseP.fusedArrM A [freeAxes A.ndim xa, xa]).indices.getD 1 default
          = FuseP.ixM A [freeAxes A.ndim xa, xa] 1 := by
        show (FuseP.newIdxM A _).getD 1 default = _
        rw [pair_newIdx h.pairA]; rfl
      have e4 : (FuseP.fusedArrM B [xb, freeAxes B.ndim xb]).indices.getD 0 default
          = FuseP.ixM B [xb, freeAxes B.ndim xb] 0 := by
        show (FuseP.newIdxM B _).getD 0 default = _
        rw [pair_newIdx h.pairB]; rfl
      rw [e3, e4, h.bond_match.2.2]
      cases (FuseP.ixM B [xb, freeAxes B.ndim xb] 0).dual <;> simp)
    (by simp) (by simp) (by simp [e1]) (by simp [e2])
  rw [e1, e2, without_range, without_range, freeAxes_2_1, freeAxes_2_0] at this
  exact (ValidP.validB_iff _).mpr this

theorem cf_indices [Zero R] [Add R] [Mul R] (h : FusedCtx A B xa xb) :
    (cfOf A B xa xb).indices =
      [dropTo (FuseP.ixM A [freeAxes A.ndim xa, xa] 0) ((cfOf A B xa xb).sectors.filterMap (fun s => s[0]?)),
       dropTo (FuseP.ixM B [xb, freeAxes B.ndim xb] 1) ((cfOf A B xa xb).sectors.filterMap (fun s => s[1]?))] := by
  unfold cfOf
  rw [tensordotBlockwise_indices]
  have e1 : without (FuseP.fusedArrM A [freeAxes A.ndim xa, xa]).indices [1]
      = [FuseP.ixM A [freeAxes A.ndim xa, xa] 0] := by
    show without (FuseP.newIdxM A _) [1] = _
    rw [pair_newIdx h.pairA]; rfl
  have e2 : without (FuseP.fusedArrM B [xb, freeAxes B.ndim xb]).indices [0]
      = [FuseP.ixM B [xb, freeAxes B.ndim xb] 1] := by
    show without (FuseP.newIdxM B _) [0] = _
    rw [pair_newIdx h.pairB]; rfl
  rw [e1, e2]
  rfl

/-- stored sectors of the product have two charges, both kept by the pruning, and the block has
    the shape the (un-pruned) fused free indices give -/
theorem cf_block [Zero R] [Add R] [Mul R] (h : FusedCtx A B xa xb) {ns : Sector} {Bx : Blk R}
    (hm : (ns, Bx) ∈ (cfOf A B xa xb).blocks) :
    ∃ cL cR dL dR, ns = [cL, cR]
      ∧ cL ∈ (cfOf A B xa xb).sectors.filterMap (fun s => s[0]?)
      ∧ cR ∈ (cfOf A B xa xb).sectors.filterMap (fun s => s[1]?)
      ∧ (FuseP.ixM A [freeAxes A.ndim xa, xa] 0).sizeOf? cL = some dL
      ∧ (FuseP.ixM B [xb, freeAxes B.ndim xb] 1).sizeOf? cR = some dR
      ∧ Bx.shape = [dL, dR] := by
  have hv := h.cf_validB
  have hsh := Arr.shapesOk_of_validB hv (ns, Bx) hm
  have hsec : ns ∈ (cfOf A B xa xb).sectors := List.mem_map.mpr ⟨_, hm, rfl⟩
  rw [h.cf_indices] at hsh
  obtain ⟨hl, _⟩ := blockShape?_length hsh
  match ns, hl with
  | [cL, cR], _ =>
    have hcL : cL ∈ (cfOf A B xa xb).sectors.filterMap (fun s => s[0]?) :=
      List.mem_filterMap.mpr ⟨_, hsec, rfl⟩
    have hcR : cR ∈ (cfOf A B xa xb).sectors.filterMap (fun s => s[1]?) :=
      List.mem_filterMap.mpr ⟨_, hsec, rfl⟩
    simp only [Arr.blockShape?_cons, Arr.blockShape?_nil_nil, dropTo_sizeOf? _ _ hcL,
      dropTo_sizeOf? _ _ hcR] at hsh
    cases hzL : (FuseP.ixM A [freeAxes A.ndim xa, xa] 0).sizeOf? cL with
    | none => simp [hzL] at hsh
    | some dL =>
      cases hzR : (FuseP.ixM B [xb, freeAxes B.ndim xb] 1).sizeOf? cR with
      | none => simp [hzL, hzR] at hsh
      | some dR =>
        simp only [hzL, hzR, Option.bind_some, Option.map_some, Option.some.injEq] at hsh
        exact ⟨cL, cR, dL, dR, rfl, hcL, hcR, hzL, hzR, hsh.symm⟩

end FusedCtx

/-! ### one optional `unfuse` stage -/

/-- decoder of one axis of an array: identity, or `splitAddr` of the axis' index -/
def decIx (m : Bool) (ix : Index) (c : Charge) (i : Nat) : Option (Sector × List Nat) :=
  if m then FuseP.splitAddr ix c i else some ([c], [i])

/-- being a segment of the charge `c`: a sub-sector listed in the extent of `c`, or `[c]` itself -/
def SegOf (m : Bool) (ix : Index) (c : Charge) (seg : Sector) : Prop :=
  if m then ∃ subs exts e st d, ix.sub = some (subs, exts) ∧ alookup exts c = some e
      ∧ FuseP.startOf e seg = some (st, d)
  else seg = [c]

/-- **one stage** (`if m then unfuse(axis p) else keep`), for a valid abelian array whose index
    at `p` is fused when `m` holds.  Every stored block of the result comes from a stored block
    `(ns, Bx)` of the input and a segment `seg` of `ns[p]`; its entry at `J` is `Bx`'s entry at
    the position that decodes to `(seg, J's segment)`, which lies in `Bx`'s box.  Conversely each
    segment of each stored sector gives a stored sector. -/
theorem stage [Zero R] (x : Arr R) (p : Nat) (m : Bool) (ix : Index) (hv : x.validB = true)
    (hf : x.fermi = false) (hix : x.indices[p]? = some ix) (hm : m = true → ix.sub.isSome = true) :
    ∃ y, (if m then unfuseA x p else pure x) = .ok y ∧ y.validB = true ∧ y.fermi = false
      ∧ y.sym = x.sym ∧ y.charge = x.charge ∧ y.phases = x.phases ∧ y.oddpos = x.oddpos
      ∧ y.indices = x.indices.take p ++
          (if m then (ix.sub.map (·.1)).getD [] else [ix]) ++ x.indices.drop (p + 1)
      ∧ (∀ K V, alookup y.blocks K = some V →
          ∃ ns Bx seg n, (ns, Bx) ∈ x.blocks ∧ K = ns.take p ++ seg ++ ns.drop (p + 1)
            ∧ seg.length = n
            ∧ V.shape.length = Bx.shape.length - 1 + n
            ∧ ∀ J, inBox V.shape J = true →
                ∃ i, decIx m ix (ns.getD p (0, 0)) i = some (seg, (J.drop p).take n)
                  ∧ V.get J = Bx.get (J.take p ++ [i] ++ J.drop (p + n))
                  ∧ inBox Bx.shape (J.take p ++ [i] ++ J.drop (p + n)) = true)
      ∧ (∀ ns Bx, (ns, Bx) ∈ x.blocks → ∀ seg, SegOf m ix (ns.getD p (0, 0)) seg →
          (ns.take p ++ seg ++ ns.drop (p + 1)) ∈ y.sectors) := by
  have hva := FuseP.validArr_of_validB hv
  have hpl : p < x.indices.length := FuseP.getElem?_lt hix
  cases m with
  | false =>
    refine ⟨x, rfl, hv, hf, rfl, rfl, rfl, rfl, ?_, ?_, ?_⟩
    · simp only [Bool.false_eq_true, if_false]
      have : x.indices = x.indices.take p ++ [ix] ++ x.indices.drop (p + 1) := by
        conv_lhs => rw [← List.take_append_drop p x.indices]
        rw [List.append_assoc]
        congr 1
        rw [List.drop_eq_getElem_cons hpl]
        have := List.getElem?_eq_getElem hpl
        rw [hix] at this
        simp [Option.some.inj this]
      exact this
    · intro K V hl
      have hm' : (K, V) ∈ x.blocks := alookup_mem hl
      have hKl : K.length = x.indices.length := (hva.blk _ hm').1
      have hVl : V.shape.length = x.indices.length := by
        have := FuseP.blockShape?_length (hva.blk _ hm').2.1
        simp only at this hKl
        omega
      have hpK : p < K.length := by omega
      refine ⟨K, V, [K.getD p (0, 0)], 1, hm', ?_, rfl, by omega, ?_⟩
      · conv_lhs => rw [← List.take_append_drop p K]
        rw [List.append_assoc]
        congr 1
        rw [List.drop_eq_getElem_cons hpK]
        simp [List.getD_eq_getElem?_getD, List.getElem?_eq_getElem hpK]
      · intro J hJ
        have hJl : J.length = V.shape.length := inBox_length hJ
        have hpJ : p < J.length := by omega
        have hsplit : J.take p ++ [J.getD p 0] ++ J.drop (p + 1) = J := by
          conv_rhs => rw [← List.take_append_drop p J]
          rw [List.append_assoc]
          congr 1
          rw [List.drop_eq_getElem_cons hpJ]
          simp [List.getD_eq_getElem?_getD, List.getElem?_eq_getElem hpJ]
        refine ⟨J.getD p 0, ?_, by rw [hsplit], by rw [hsplit]; exact hJ⟩
        simp only [decIx, Bool.false_eq_true, if_false, Option.some.injEq, Prod.mk.injEq, true_and]
        rw [List.drop_eq_getElem_cons hpJ, List.take_succ_cons, List.take_zero]
        simp [List.getD_eq_getElem?_getD, List.getElem?_eq_getElem hpJ]
    · intro ns Bx hm' seg hseg
      simp only [SegOf, Bool.false_eq_true, if_false] at hseg
      subst hseg
      have hKl : ns.length = x.indices.length := (hva.blk _ hm').1
      have hpK : p < ns.length := by omega
      have : ns.take p ++ [ns.getD p (0, 0)] ++ ns.drop (p + 1) = ns := by
        conv_rhs => rw [← List.take_append_drop p ns]
        rw [List.append_assoc]
        congr 1
        rw [List.drop_eq_getElem_cons hpK]
        simp [List.getD_eq_getElem?_getD, List.getElem?_eq_getElem hpK]
      rw [this]
      exact List.mem_map.mpr ⟨_, hm', rfl⟩
  | true =>
    obtain ⟨se, hse⟩ := Option.isSome_iff_exists.mp (hm rfl)
    obtain ⟨subs, exts⟩ := se
    obtain ⟨y, h1, h2, hF, hBk⟩ := unfuse_step x p ix subs exts hv hix hse
    obtain ⟨e1, e2, e3, e4, e5⟩ := ValidP.unfuseA_fields h1
    refine ⟨y, by simpa using h1, ValidP.unfuseA_validB x y p hv hf h1, by rw [e2]; exact hf, e1, e3,
      e4, e5, ?_, ?_, ?_⟩
    · rw [h2, hse]; rfl
    · intro K V hl
      obtain ⟨ns, B, ss, subshape, hmem, hK, hshp, hVs, hget⟩ := hBk K V hl
      obtain ⟨hpn, hnl, hBl, e, he, hok⟩ := FuseP.block_at_axis hva hix hse hmem
      simp only at hpn hnl hBl he hok
      have hssl : ss.length = subshape.length := by
        have := FuseP.blockShape?_length hshp; omega
      refine ⟨ns, B, ss, subshape.length, hmem, hK, hssl, ?_, ?_⟩
      · rw [hVs, FuseP.replaceWithSeq_split]
        simp only [List.length_append, List.length_take, List.length_drop]
        omega
      · intro J hJ
        obtain ⟨i, hsp, hg⟩ := hget J hJ
        refine ⟨i, by simpa [decIx] using hsp, hg, ?_⟩
        -- the joined position lies in the box of `B`
        have hi : i < B.shape.getD p 0 := by
          simp only [FuseP.splitAddr, hse, he] at hsp
          cases hso : FuseP.splitOffset e i with
          | none => simp [hso] at hsp
          | some q =>
            obtain ⟨ss', r⟩ := q
            obtain ⟨st, d, hst, hr, hio⟩ := FuseP.splitOffset_startOf hok.nodup hso
            have := FuseP.startOf_bound hst
            rw [hok.total] at this
            omega
        rw [hVs, FuseP.replaceWithSeq_split] at hJ
        have hJl := inBox_length hJ
        simp only [List.length_append, List.length_take, List.length_drop] at hJl
        have hpB : p < B.shape.length := by omega
        have hJsplit : J = J.take p ++ (J.drop p).take subshape.length ++ J.drop (p + subshape.length) := by
          rw [List.append_assoc, ← List.drop_drop, List.take_append_drop, List.take_append_drop]
        have htl : (J.take p).length = (B.shape.take p).length := by
          simp only [List.length_take]; omega
        have hsl : ((J.drop p).take subshape.length).length = subshape.length := by
          simp only [List.length_take, List.length_drop]; omega
        rw [hJsplit, inBox_append (by rw [List.length_append, htl, hsl, List.length_append]),
          inBox_append htl] at hJ
        simp only [Bool.and_eq_true] at hJ
        obtain ⟨⟨hJ1, _⟩, hJ3⟩ := hJ
        have hBsplit : B.shape = B.shape.take p ++ [B.shape.getD p 0] ++ B.shape.drop (p + 1) := by
          conv_lhs => rw [← List.take_append_drop p B.shape]
          rw [List.append_assoc]
          congr 1
          rw [List.drop_eq_getElem_cons hpB]
          simp [List.getD_eq_getElem?_getD, List.getElem?_eq_getElem hpB]
        rw [hBsplit, inBox_append (by simp [htl]), inBox_append htl, hJ1, hJ3]
        have hi' := hi
        rw [List.getD_eq_getElem?_getD] at hi'
        simp [inBox, hi']
    · intro ns Bx hmem seg hseg
      simp only [SegOf, if_true] at hseg
      obtain ⟨subs', exts', e, st, d, hs', he, hst⟩ := hseg
      rw [hse] at hs'
      simp only [Option.some.injEq, Prod.mk.injEq] at hs'
      obtain ⟨rfl, rfl⟩ := hs'
      obtain ⟨V, hV⟩ := hF ns Bx hmem e seg st d he hst
      rw [FuseP.replaceWithSeq_split] at hV
      exact List.mem_map.mpr ⟨_, alookup_mem hV, rfl⟩

/-! ### the decoders of the pruned result indices are those of the fused operands -/

theorem multiB_eq {G : List (List Nat)} {g : Nat} {gaxes : List Nat} (hg : G[g]? = some gaxes) :
    FuseP.multiB G g = (gaxes.length != 1) := by simp [FuseP.multiB, hg]

theorem decIx_dropTo {A : Arr R} {G : List (List Nat)} {g : Nat} {gaxes : List Nat}
    (hg : G[g]? = some gaxes) (S : List Charge) {c : Charge} (hc : c ∈ S) (i : Nat) :
    decIx (gaxes.length != 1) (dropTo (FuseP.ixM A G g) S) c i = decAx A G g c i := by
  unfold decIx decAx
  rw [multiB_eq hg]
  cases (gaxes.length != 1)
  · rfl
  · simp only [if_true]; exact dropTo_splitAddr _ _ hc i

theorem segOf_stored {A : Arr R} {G : List (List Nat)} (hv : FuseP.ValidArr A)
    (hok : FuseP.GroupsOk G A.ndim) {g : Nat} {gaxes : List Nat} (hg : G[g]? = some gaxes)
    {sb : Sector × Blk R} (hsb : sb ∈ A.blocks) (S : List Charge)
    (hc : FuseP.cM (a := A) (groups := G) sb g ∈ S) :
    SegOf (gaxes.length != 1) (dropTo (FuseP.ixM A G g) S) (FuseP.cM (a := A) (groups := G) sb g)
      (permuted sb.1 gaxes) := by
  unfold SegOf
  by_cases hlen : gaxes.length = 1
  · have : (gaxes.length != 1) = false := by simp [hlen]
    rw [this]
    simp only [Bool.false_eq_true, if_false]
    exact (single_group_charge hv hok hg hlen hsb).symm
  · have : (gaxes.length != 1) = true := by simpa using hlen
    rw [this]
    simp only [if_true]
    have hlt : ∀ x ∈ gaxes, x < A.indices.length := FuseP.groupM_lt hok hg
    have hsl : sb.1.length = A.indices.length := (hv.blk sb hsb).1
    have hss : FuseP.ssM (a := A) (groups := G) sb g = permuted sb.1 gaxes := by
      rw [FuseP.ssM_eq hg, permuted_eq_map _ _ (by rw [hsl]; exact hlt) (0, 0)]
    obtain ⟨e, D, st, h1, h2, _, _⟩ := FuseP.stored_in_tableM hv hok hg hlen hsb
    refine ⟨_, _, e, st, _, dropTo_sub _ S (FuseP.ixM_sub hok hg hlen), ?_, by rw [← hss]; exact h2⟩
    rw [alookup_filter_key (FuseP.extsM A G g)
      (fun k => !((FuseP.ixM A G g).charges.filter (fun c => !S.contains c)).contains k)]
    have : (!((FuseP.ixM A G g).charges.filter (fun c => !S.contains c)).contains
        (FuseP.cM (a := A) (groups := G) sb g)) = true := by simp [hc]
    rw [if_pos this]; exact h1

end TdotP
end SymmModel
