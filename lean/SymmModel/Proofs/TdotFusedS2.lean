/-
  SymmModel.Proofs.TdotFusedS2 — towards S7 for fused / auto mode: the intermediate result of a
  fused / auto call (`InterW`: valid, fermionic, tables that are prunings with the same directions
  of the operands' free legs) satisfies the weak guard against the third operand, and it is a
  zero-padded copy (`Pad`) of the blockwise intermediate result.  Namespace `SymmModel.TdotP`.
-/
import SymmModel.Proofs.TdotFusedS1
import SymmModel.Proofs.Assoc2Main

namespace SymmModel
namespace TdotP
open GradedP RoutesP AssocP
variable {R : Type}

theorem forall₂_getD {α : Type} {r : α → α → Prop} {l m : List α} (h : List.Forall₂ r l m) :
    ∀ (i : Nat), i < l.length → ∀ d d', r (l.getD i d) (m.getD i d') := by
  induction h with
  | nil => intro i hi; simp at hi
  | cons hx _ ih =>
    intro i hi d d'
    cases i with
    | zero => simpa using hx
    | succ i =>
      simp only [List.getD_cons_succ]
      exact ih i (by simpa using hi) d d'

theorem cmAgree_of_sizeLe_left {i' i : Index} (h : SizeLe i' i) (hn : (i'.cm.map (·.1)).Nodup)
    {c2 : List (Charge × Nat)} (hag : cmAgree i.cm c2 = true) : cmAgree i'.cm c2 = true := by
  unfold cmAgree at hag ⊢
  rw [List.all_eq_true] at hag ⊢
  rintro ⟨c, d⟩ hp
  have h1 : i'.sizeOf? c = some d := alookup_of_mem_nodup hn hp
  have h2 := h.2 c d h1
  exact hag (c, d) (alookup_mem h2)

theorem cmAgree_of_sizeLe_right {j' j : Index} (h : SizeLe j' j) {c1 : List (Charge × Nat)}
    (hag : cmAgree c1 j.cm = true) : cmAgree c1 j'.cm = true := by
  unfold cmAgree at hag ⊢
  rw [List.all_eq_true] at hag ⊢
  rintro ⟨c, d⟩ hp
  have := hag (c, d) hp
  simp only at this ⊢
  cases hl : alookup j'.cm c with
  | none => rfl
  | some d' =>
    have h2 : alookup j.cm c = some d' := h.2 c d' hl
    rw [h2] at this
    exact this

/-- pruning (`SizeLe`) the left operand's matched legs keeps the weak guard -/
theorem commonB_sizeLe_left {a a' b : Arr R} {xa xa' xb : List Nat} (hl : xa'.length = xa.length)
    (hp : ∀ j, j < xa.length →
      SizeLe (a'.indices.getD (xa'.getD j 0) default) (a.indices.getD (xa.getD j 0) default)
      ∧ ((a'.indices.getD (xa'.getD j 0) default).cm.map (·.1)).Nodup)
    (h : contractibleCommonB a b xa xb = true) : contractibleCommonB a' b xa' xb = true := by
  rw [commonB_iff] at h ⊢
  refine ⟨hl.trans h.1, fun j hj => ?_⟩
  obtain ⟨h1, h2⟩ := h.2 j (hl ▸ hj)
  obtain ⟨p, pn⟩ := hp j (hl ▸ hj)
  exact ⟨cmAgree_of_sizeLe_left p pn h1, by rw [h2, p.1]⟩

/-- pruning (`SizeLe`) the right operand's matched legs keeps the weak guard -/
theorem commonB_sizeLe_right {a b b' : Arr R} {xa xb xb' : List Nat} (hl : xb'.length = xb.length)
    (hp : ∀ j, j < xb.length →
      SizeLe (b'.indices.getD (xb'.getD j 0) default) (b.indices.getD (xb.getD j 0) default))
    (h : contractibleCommonB a b xa xb = true) : contractibleCommonB a b' xa xb' = true := by
  rw [commonB_iff] at h ⊢
  refine ⟨h.1.trans hl.symm, fun j hj => ?_⟩
  obtain ⟨h1, h2⟩ := h.2 j hj
  have p := hp j (h.1 ▸ hj)
  exact ⟨cmAgree_of_sizeLe_right p h1, by rw [p.1, h2]⟩

/-- what the second contraction needs to know about the result `ab` of a first contraction in
    ANY mode -/
structure InterW (a b : Arr R) (xa xb : List Nat) (ab : Arr R) : Prop where
  valid : ab.validB = true
  fermi : ab.fermi = true
  sym : ab.sym = a.sym
  frame : List.Forall₂ SizeLe ab.indices (without a.indices xa ++ without b.indices xb)

section interw
variable {a b ab : Arr R} {xa xb : List Nat}

theorem InterW.ndim (I : InterW a b xa xb ab) :
    ab.ndim = (freeAxes a.ndim xa).length + (freeAxes b.ndim xb).length := by
  show ab.indices.length = _
  rw [I.frame.length_eq, List.length_append, without_eq_permuted_freeAxes,
    without_eq_permuted_freeAxes, permuted_length _ _ (fun x hx => (mem_freeAxes.mp hx).1),
    permuted_length _ _ (fun x hx => (mem_freeAxes.mp hx).1)]
  rfl

theorem InterW.leg_nodup (I : InterW a b xa xb ab) (p : Nat) (hp : p < ab.ndim) :
    ((ab.indices.getD p default).cm.map (·.1)).Nodup := by
  rw [List.getD_eq_getElem?_getD, List.getElem?_eq_getElem hp]
  exact keys_nodup_of_validB I.valid _ (List.getElem_mem hp)

theorem InterW.leg_right (I : InterW a b xa xb ab) (p : Nat) (hp : p < (freeAxes b.ndim xb).length) :
    SizeLe (ab.indices.getD ((freeAxes a.ndim xa).length + p) default)
      (b.indices.getD ((freeAxes b.ndim xb).getD p 0) default) := by
  have hla : (without a.indices xa).length = (freeAxes a.ndim xa).length := by
    rw [without_eq_permuted_freeAxes]
    exact permuted_length _ _ (fun x hx => (mem_freeAxes.mp hx).1)
  have hlb : (without b.indices xb).length = (freeAxes b.ndim xb).length := by
    rw [without_eq_permuted_freeAxes]
    exact permuted_length _ _ (fun x hx => (mem_freeAxes.mp hx).1)
  have := forall₂_getD I.frame ((freeAxes a.ndim xa).length + p)
    (by rw [I.frame.length_eq, List.length_append, hla, hlb]; omega) default default
  have e : (without a.indices xa ++ without b.indices xb).getD ((freeAxes a.ndim xa).length + p) default
      = b.indices.getD ((freeAxes b.ndim xb).getD p 0) default := by
    rw [List.getD_eq_getElem?_getD, List.getElem?_append_right (by rw [hla]; omega), hla,
      Nat.add_sub_cancel_left, ← List.getD_eq_getElem?_getD, without_eq_permuted_freeAxes]
    exact getD_permuted_ax b.indices _ (fun x hx => (mem_freeAxes.mp hx).1) p hp default
  rw [e] at this
  exact this

theorem InterW.leg_left (I : InterW a b xa xb ab) (p : Nat) (hp : p < (freeAxes a.ndim xa).length) :
    SizeLe (ab.indices.getD p default) (a.indices.getD ((freeAxes a.ndim xa).getD p 0) default) := by
  have hla : (without a.indices xa).length = (freeAxes a.ndim xa).length := by
    rw [without_eq_permuted_freeAxes]
    exact permuted_length _ _ (fun x hx => (mem_freeAxes.mp hx).1)
  have := forall₂_getD I.frame p
    (by rw [I.frame.length_eq, List.length_append, hla]; omega) default default
  have e : (without a.indices xa ++ without b.indices xb).getD p default
      = a.indices.getD ((freeAxes a.ndim xa).getD p 0) default := by
    rw [List.getD_eq_getElem?_getD, List.getElem?_append_left (by rw [hla]; omega),
      ← List.getD_eq_getElem?_getD, without_eq_permuted_freeAxes]
    exact getD_permuted_ax a.indices _ (fun x hx => (mem_freeAxes.mp hx).1) p hp default
  rw [e] at this
  exact this

end interw

/-! ### the second calls satisfy the weak guard (intermediate result of ANY mode) -/

section admw
set_option linter.unusedSectionVars false
variable [AddMonoid R] [Mul R] [Neg R] [SignRing R]
variable {A B C AB BC : Arr R}

theorem admW_left_chain {xa xb1 xb2 xc : List Nat} (I : InterW A B xa xb1 AB) (hAB : Adm A B xa xb1)
    (hBC : Adm B C xb2 xc) (h : Mid B.ndim xb1 xb2) :
    AdmW AB C (AssocP.axesAB A.ndim B.ndim xa xb1 xb2) xc := by
  refine ⟨I.valid, hBC.vb, I.fermi, hBC.fb, by rw [I.sym, hAB.sym, hBC.sym], ?_, AssocP.axesAB_nodup h,
    hBC.nB, ?_, hBC.ltB⟩
  · refine commonB_sizeLe_left (a := B) (xa := xb2) (AssocP.axesAB_len h) ?_
      (commonB_of_contractibleB hBC.va hBC.ltA hBC.con)
    intro j hj
    obtain ⟨e1, e2, e3⟩ := AssocP.axesAB_getD (nA := A.ndim) (xa := xa) h j hj
    have := I.leg_right _ e2
    rw [e3, ← e1] at this
    refine ⟨this, I.leg_nodup _ ?_⟩
    rw [e1, I.ndim]; omega
  · rw [I.ndim]; exact AssocP.axesAB_lt h

theorem admW_right_chain {xa xb1 xb2 xc : List Nat} (I : InterW B C xb2 xc BC) (hAB : Adm A B xa xb1)
    (h : Mid B.ndim xb1 xb2) : AdmW A BC xa (AssocP.axesBC B.ndim xb1 xb2) := by
  refine ⟨hAB.va, I.valid, hAB.fa, I.fermi, by rw [I.sym]; exact hAB.sym, ?_, hAB.nA,
    h.symm.pos_nodup, hAB.ltA, ?_⟩
  · refine commonB_sizeLe_right (b := B) (xb := xb1) h.symm.pos_len ?_
      (commonB_of_contractibleB hAB.va hAB.ltA hAB.con)
    intro j hj
    have hjp : j < (positions (freeAxes B.ndim xb2) xb1).length := by rw [h.symm.pos_len]; exact hj
    have e2 : (positions (freeAxes B.ndim xb2) xb1).getD j 0 < (freeAxes B.ndim xb2).length := by
      rw [List.getD_eq_getElem?_getD, List.getElem?_eq_getElem hjp]
      exact h.symm.pos_lt _ (List.getElem_mem hjp)
    have e3 : (freeAxes B.ndim xb2).getD ((positions (freeAxes B.ndim xb2) xb1).getD j 0) 0
        = xb1.getD j 0 := by
      rw [← getD_permuted_ax (freeAxes B.ndim xb2) _ h.symm.pos_lt j hjp 0, h.symm.pos_spec]
    have := I.leg_left _ e2
    rw [e3] at this
    exact this
  · intro i hi
    rw [I.ndim]
    have := h.symm.pos_lt i hi
    omega

open Assoc2P in
theorem admW_left_tri {xa1 xa3 xb1 xb2 xc2 xc3 : List Nat} (I : InterW A B xa1 xb1 AB)
    (T : Tri A B C xa1 xa3 xb1 xb2 xc2 xc3) :
    AdmW AB C (Assoc2P.axesAB A.ndim B.ndim xa1 xa3 xb1 xb2) (xc3 ++ xc2) := by
  refine ⟨I.valid, T.hBC.vb, I.fermi, T.hBC.fb, by rw [I.sym, T.hAB.sym, T.hBC.sym], ?_,
    Assoc2P.axesAB_nodup T.mA T.mB,
    List.nodup_append.mpr ⟨T.mC.n2, T.mC.n1, fun x hx y hy e => T.mC.disj y hy (e ▸ hx)⟩, ?_, ?_⟩
  · unfold Assoc2P.axesAB
    refine commonB_append (by rw [T.mA.pos_len, contractible_len T.conAC]) ?_
      (admW_left_chain I T.hAB T.hBC T.mB).con
    refine commonB_sizeLe_left (a := A) (xa := xa3) T.mA.pos_len ?_
      (commonB_of_contractibleB T.hAB.va T.mA.lt2 T.conAC)
    intro j hj
    obtain ⟨e2, e3⟩ := pos_getD T.mA j hj
    have := I.leg_left _ e2
    rw [e3] at this
    refine ⟨this, I.leg_nodup _ ?_⟩
    rw [I.ndim]; omega
  · rw [I.ndim]; exact Assoc2P.axesAB_lt T.mA T.mB
  · intro i hi
    rcases List.mem_append.mp hi with h | h
    · exact T.mC.lt2 i h
    · exact T.mC.lt1 i h

open Assoc2P in
theorem admW_right_tri {xa1 xa3 xb1 xb2 xc2 xc3 : List Nat} (I : InterW B C xb2 xc2 BC)
    (T : Tri A B C xa1 xa3 xb1 xb2 xc2 xc3) :
    AdmW A BC (xa1 ++ xa3) (Assoc2P.axesBC B.ndim C.ndim xb1 xb2 xc2 xc3) := by
  refine ⟨T.hAB.va, I.valid, T.hAB.fa, I.fermi, by rw [I.sym]; exact T.hAB.sym, ?_,
    List.nodup_append.mpr ⟨T.mA.n1, T.mA.n2, fun x hx y hy e => T.mA.disj x hx (e ▸ hy)⟩,
    Assoc2P.axesAB_nodup T.mB.symm T.mC, ?_, ?_⟩
  · unfold Assoc2P.axesBC
    refine commonB_append (by rw [T.mB.symm.pos_len, T.hAB.len])
      (admW_right_chain I T.hAB T.mB).con ?_
    refine commonB_sizeLe_right (b := C) (xb := xc3) (by rw [List.length_map, T.mC.pos_len]) ?_
      (commonB_of_contractibleB T.hAB.va T.mA.lt2 T.conAC)
    intro j hj
    obtain ⟨e1, e2, e3⟩ := AssocP.axesAB_getD (nA := B.ndim) (xa := xb2) T.mC j hj
    have := I.leg_right _ e2
    rw [e3, ← e1] at this
    exact this
  · intro i hi
    rcases List.mem_append.mp hi with h | h
    · exact T.mA.lt1 i h
    · exact T.mA.lt2 i h
  · rw [I.ndim]; exact Assoc2P.axesAB_lt T.mB.symm T.mC

end admw

/-! ### a first-level call in fused / auto mode -/

/-- **a first-level call in fused / auto mode**: it comes with the blockwise call; its result is a
    zero-padded copy of the blockwise result and can serve as the intermediate of a chain -/
theorem first_call [AddCommMonoid R] [Mul R] [Neg R] [SignRing R]
    (hz1 : ∀ x : R, 0 * x = 0) (hz2 : ∀ x : R, x * 0 = 0) (a b : Arr R) (xa xb : List Nat)
    (ha : a.validB = true) (hb : b.validB = true) (hfa : a.fermi = true) (hfb : b.fermi = true)
    (hadm : ValidP.tdotAdmissibleB a b xa xb = true)
    (mode : TdotMode) (hmode : mode = .fused ∨ mode = .auto) (rm : Arr R)
    (hm : a.tensordotF b (.pair (xa.map Int.ofNat) (xb.map Int.ofNat)) mode = .ok rm) :
    ∃ rb, a.tensordotF b (.pair (xa.map Int.ofNat) (xb.map Int.ofNat)) .blockwise = .ok rb
      ∧ Pad rm rb ∧ InterW a b xa xb rm ∧ InterW a b xa xb rb
      ∧ rm.oddpos = rb.oddpos ∧ rm.charge = rb.charge ∧ rm.fermi = rb.fermi
      ∧ rm.validB = true ∧ rb.validB = true := by
  have h := Adm.of ha hb hfa hfb hadm
  obtain ⟨he, hk⟩ := tensordotF_modes_all hz1 hz2 a b xa xb h mode hmode
  have F := coreT_frame a b xa xb h
  cases hmo : OddposP.mergeOddpos a.parity a.oddpos b.oddpos with
  | error e => rw [(he e hmo).1] at hm; cases hm
  | ok r =>
    obtain ⟨rm', rb, h1, h2, f1, f2, f3, f4, f5, hsec, hnd, hframe, hshape, hel⟩ := hk r hmo
    rw [h1] at hm
    cases hm
    have hrb : rb = finish (coreT a b xa xb) r := by
      have := h2
      rw [tensordotF_eq_core a b xa xb h, hmo] at this
      simp only [Except.map, Except.ok.injEq] at this
      exact this.symm
    obtain ⟨k1, k2, k3, k4, k5, k6⟩ := AssocP.finish_fields (coreT a b xa xb) r
    have vm : rm.validB = true := (ValidP.validB_iff _).mpr
      (ValidP.tensordotF_valid_all mode a b rm xa xb ((ValidP.validB_iff a).mp ha)
        ((ValidP.validB_iff b).mp hb) hfa hfb hadm h1)
    have vb : rb.validB = true := (ValidP.validB_iff _).mpr
      (ValidP.tensordotF_valid_all .blockwise a b rb xa xb ((ValidP.validB_iff a).mp ha)
        ((ValidP.validB_iff b).mp hb) hfa hfb hadm h2)
    have hdm := Arr.allDistinct_of_validB vm
    have hdb := Arr.allDistinct_of_validB vb
    have hsm := Arr.shapesOk_of_validB vm
    have hsb := Arr.shapesOk_of_validB vb
    have hidxb : rb.indices = dropUnused (without a.indices xa ++ without b.indices xb) rb.sectors := by
      rw [hrb, k4, k5, F.indices]
    -- block shapes
    have hblkm : ∀ s ∈ rm.sectors, ∃ V, alookup rm.blocks s = some V
        ∧ Arr.blockShapeD rm.indices s = V.shape
        ∧ Arr.blockShape? (without a.indices xa ++ without b.indices xb) s = some V.shape := by
      intro s hs
      obtain ⟨p, hp, rfl⟩ := List.mem_map.mp hs
      have hl : alookup rm.blocks p.1 = some p.2 := alookup_of_mem hdm hp
      refine ⟨p.2, hl, ?_, hshape _ _ hl⟩
      rw [Arr.blockShapeD, hsm p hp]; rfl
    have hblkb : ∀ s ∈ rb.sectors, ∃ V : Blk R, Arr.blockShapeD rb.indices s = V.shape
        ∧ Arr.blockShape? (without a.indices xa ++ without b.indices xb) s = some V.shape := by
      intro s hs
      obtain ⟨p, hp, rfl⟩ := List.mem_map.mp hs
      have hl : alookup rb.blocks p.1 = some p.2 := alookup_of_mem hdb hp
      refine ⟨p.2, by rw [Arr.blockShapeD, hsb p hp]; rfl, ?_⟩
      rw [hrb, finish_blocks] at hl
      exact coreFrame_block_shape F (Arr.shapesOk_of_validB ha) (Arr.shapesOk_of_validB hb) _ _ hl
    refine ⟨rb, h2, ⟨f3, f5, ?_, hnd, allDistinct_iff_nodup.mp hdb, hsec, hsm, hsb, ?_, ?_⟩,
      ⟨vm, by rw [f4, hrb, k3, F.fermi]; exact hfa, by rw [f3, hrb, k2, F.sym], hframe⟩,
      ⟨vb, by rw [hrb, k3, F.fermi]; exact hfa, by rw [hrb, k2, F.sym],
        by rw [hidxb]; exact dropUnused_sizeLe _ _⟩,
      f1, f2, f4, vm, vb⟩
    · -- directions
      intro i
      by_cases hi : i < rm.indices.length
      · have d1 := (forall₂_getD hframe i hi default default).1
        have hi' : i < (without a.indices xa ++ without b.indices xb).length := by
          rw [← hframe.length_eq]; exact hi
        rw [d1, hidxb, dropUnused_getD _ _ hi', dropTo_dual]
      · have hi2 : ¬ i < rb.indices.length := by rw [← f5]; exact hi
        rw [List.getD_eq_getElem?_getD, List.getD_eq_getElem?_getD,
          List.getElem?_eq_none (by omega), List.getElem?_eq_none (by omega)]
    · intro s hs
      obtain ⟨Vm, _, e1, e2⟩ := hblkm s (hsec s hs)
      obtain ⟨Vb, e3, e4⟩ := hblkb s hs
      rw [e1, e3]
      rw [e2] at e4
      exact Option.some.inj e4
    · intro s hs o ho
      obtain ⟨Vm, hl, e1, _⟩ := hblkm s hs
      rw [e1] at ho
      exact hel s Vm hl o ho

/-- a fused / auto call succeeds when the blockwise call does -/
theorem call_exists [AddCommMonoid R] [Mul R] [Neg R] [SignRing R]
    (hz1 : ∀ x : R, 0 * x = 0) (hz2 : ∀ x : R, x * 0 = 0) (a b : Arr R) (xa xb : List Nat)
    (h : Adm a b xa xb) (mode : TdotMode) (hmode : mode = .fused ∨ mode = .auto) (rb : Arr R)
    (hb : a.tensordotF b (.pair (xa.map Int.ofNat) (xb.map Int.ofNat)) .blockwise = .ok rb) :
    ∃ rm, a.tensordotF b (.pair (xa.map Int.ofNat) (xb.map Int.ofNat)) mode = .ok rm := by
  obtain ⟨he, hk⟩ := tensordotF_modes_all hz1 hz2 a b xa xb h mode hmode
  cases hmo : OddposP.mergeOddpos a.parity a.oddpos b.oddpos with
  | error e => rw [(he e hmo).2] at hb; cases hb
  | ok r =>
    obtain ⟨rm, _, h1, _⟩ := hk r hmo
    exact ⟨rm, h1⟩

end TdotP
end SymmModel
