/-
  SymmModel.Proofs.TdotFusedW2 — fused strategy = blockwise under the WEAK guard
  (`AssocP.contractibleCommonB` / `AssocP.AdmW`: what holds between an intermediate contraction
  result, whose tables are pruned, and the next operand): the kernel call, and
  `tensordot_fermionic` in fused / auto mode.  Namespace `SymmModel.TdotP`.
-/
import SymmModel.Proofs.TdotFusedW1

namespace SymmModel
namespace TdotP
variable {R : Type}

/-- **fused = blockwise for every call under the weak guard** (operands of any kind, synced
    signs) -/
theorem kernelOk_all_w [AddCommMonoid R] [Mul R] [Neg R]
    (hz1 : ∀ x : R, 0 * x = 0) (hz2 : ∀ x : R, x * 0 = 0) (X Y : Arr R) (xa xb : List Nat)
    (hvX : ValidP.Valid X) (hvY : ValidP.Valid Y) (hpX : X.phases = []) (hpY : Y.phases = [])
    (hsym : X.sym = Y.sym) (hc : AssocP.contractibleCommonB X Y xa xb = true)
    (hnA : xa.Nodup) (hnB : xb.Nodup) (hA : ∀ x ∈ xa, x < X.ndim) (hB : ∀ x ∈ xb, x < Y.ndim) :
    KernelOk X Y xa xb :=
  kernelOk_of_abOk X Y xa xb (fun hbl =>
    abOk_all_ctx hz1 hz2 (ab X) (ab Y) xa xb (ab_validB hvX hpX) rfl
      (ctx0_of_dropMisaligned_w (ab X) (ab Y) xa xb (ab_validB hvX hpX) (ab_validB hvY hpY) rfl rfl
        hsym hc hnA hnB hA hB) hbl)

open GradedP RoutesP AssocP in
/-- the prepared operands of `tensordot_fermionic` under the weak guard: valid, synced, and still
    satisfying the weak guard along the last `k` / first `k` axes; their free legs are the free
    legs of the original operands -/
theorem prepared_ok_w [AddMonoid R] [Mul R] [Neg R] [SignRing R] (a b : Arr R) (xa xb : List Nat)
    (h : AdmW a b xa xb) :
    let X := (ValidP.tdF34 a b xa xb).1.phaseSync
    let Y := (ValidP.tdF34 a b xa xb).2.phaseSync
    ValidP.Valid X ∧ ValidP.Valid Y ∧ X.phases = [] ∧ Y.phases = [] ∧ X.sym = Y.sym
    ∧ X.ndim = a.ndim ∧ Y.ndim = b.ndim
    ∧ contractibleCommonB X Y ((List.range a.ndim).drop (a.ndim - xa.length)) (List.range xa.length) = true
    ∧ without X.indices ((List.range a.ndim).drop (a.ndim - xa.length)) = without a.indices xa
    ∧ without Y.indices (List.range xa.length) = without b.indices xb := by
  obtain ⟨ha, hb, hfa, hfb, hsym, hc, hnA, hnB, hA, hB⟩ := h
  have hlen := commonB_len hc
  have props := ValidP.tdF34_props a b xa xb ((ValidP.validB_iff a).mp ha) ((ValidP.validB_iff b).mp hb)
    hfa hfb hnA hnB hA hB
  have hXi : (ValidP.tdF34 a b xa xb).1.phaseSync.indices = permuted a.indices (freeAxes a.ndim xa ++ xa) := by
    show (ValidP.tdF34 a b xa xb).1.indices = _
    rw [props.ia, without_range]
  have hYi : (ValidP.tdF34 a b xa xb).2.phaseSync.indices = permuted b.indices (xb ++ freeAxes b.ndim xb) := by
    show (ValidP.tdF34 a b xa xb).2.indices = _
    rw [props.ib, without_range]
  have hXn : (ValidP.tdF34 a b xa xb).1.phaseSync.indices.length = a.ndim := by
    rw [hXi]; exact left_lengths hnA hA a.indices rfl
  have hYn : (ValidP.tdF34 a b xa xb).2.phaseSync.indices.length = b.ndim := by
    rw [hYi]; exact right_lengths hnB hB b.indices rfl
  have hk : xa.length ≤ a.ndim := by have := freeAxes_length hnA hA; omega
  have hk' : xb.length ≤ b.ndim := by have := freeAxes_length hnB hB; omega
  refine ⟨ValidP.phaseSync_valid _ props.va, ValidP.phaseSync_valid _ props.vb, rfl, rfl, ?_, hXn, hYn,
    ?_, ?_, ?_⟩
  · show (ValidP.tdF34 a b xa xb).1.sym = (ValidP.tdF34 a b xa xb).2.sym
    rw [props.sa, props.sb]; exact hsym
  · rw [commonB_iff]
    have hl1 : ((List.range a.ndim).drop (a.ndim - xa.length)).length = xa.length := by simp; omega
    refine ⟨by rw [hl1]; simp, ?_⟩
    intro j hj
    rw [hl1] at hj
    have hltA : ∀ i ∈ (List.range a.ndim).drop (a.ndim - xa.length),
        i < (ValidP.tdF34 a b xa xb).1.phaseSync.indices.length := by
      intro i hi; rw [hXn]; exact List.mem_range.mp (List.mem_of_mem_drop hi)
    have hltB : ∀ i ∈ List.range xa.length,
        i < (ValidP.tdF34 a b xa xb).2.phaseSync.indices.length := by
      intro i hi; rw [hYn]; have := List.mem_range.mp hi; omega
    have eA := getD_permuted_ax (ValidP.tdF34 a b xa xb).1.phaseSync.indices _ hltA j (by rw [hl1]; exact hj) default
    have eB := getD_permuted_ax (ValidP.tdF34 a b xa xb).2.phaseSync.indices _ hltB j (by simpa using hj) default
    rw [hXi, left_newA hnA hA a.indices rfl, getD_permuted_ax a.indices xa (fun i hi => hA i hi) j hj default] at eA
    have hjb : j < xb.length := by omega
    rw [hYi, hlen, right_newB hnB hB b.indices rfl,
      getD_permuted_ax b.indices xb (fun i hi => hB i hi) j hjb default] at eB
    rw [← hlen] at eB
    rw [hXi, hYi, ← eA, ← eB]
    exact commonB_at hc j hj
  · rw [without_eq_permuted_freeAxes, without_eq_permuted_freeAxes, hXn, hXi]
    exact left_free hnA hA a.indices rfl
  · rw [without_eq_permuted_freeAxes, without_eq_permuted_freeAxes, hYn, hYi, hlen]
    exact right_free hnB hB b.indices rfl

open GradedP RoutesP AssocP in
/-- **fused / auto = blockwise for `tensordot_fermionic` under the weak guard** (`AdmW`), block
    shapes of the result included.  This is the form that applies to a chain of contractions: the
    left or right operand may be the (pruned) result of an earlier contraction. -/
theorem tensordotF_modes_all_w [AddCommMonoid R] [Mul R] [Neg R] [SignRing R]
    (hz1 : ∀ x : R, 0 * x = 0) (hz2 : ∀ x : R, x * 0 = 0) (a b : Arr R) (xa xb : List Nat)
    (h : AdmW a b xa xb) (mode : TdotMode) (hmode : mode = .fused ∨ mode = .auto) :
    (∀ e, OddposP.mergeOddpos a.parity a.oddpos b.oddpos = .error e →
        a.tensordotF b (.pair (xa.map Int.ofNat) (xb.map Int.ofNat)) mode = .error e
        ∧ a.tensordotF b (.pair (xa.map Int.ofNat) (xb.map Int.ofNat)) .blockwise = .error e)
    ∧ (∀ r, OddposP.mergeOddpos a.parity a.oddpos b.oddpos = .ok r →
        ∃ rm rb, a.tensordotF b (.pair (xa.map Int.ofNat) (xb.map Int.ofNat)) mode = .ok rm
          ∧ a.tensordotF b (.pair (xa.map Int.ofNat) (xb.map Int.ofNat)) .blockwise = .ok rb
          ∧ rm.oddpos = rb.oddpos ∧ rm.charge = rb.charge ∧ rm.sym = rb.sym ∧ rm.fermi = rb.fermi
          ∧ rm.indices.length = rb.indices.length
          ∧ (∀ s ∈ rb.sectors, s ∈ rm.sectors)
          ∧ rm.sectors.Nodup
          ∧ List.Forall₂ SizeLe rm.indices (without a.indices xa ++ without b.indices xb)
          ∧ (∀ K V, alookup rm.blocks K = some V →
              Arr.blockShape? (without a.indices xa ++ without b.indices xb) K = some V.shape)
          ∧ (∀ K V, alookup rm.blocks K = some V → ∀ J, inBox V.shape J = true →
              rm.elem K J = rb.elem K J)) := by
  have hbw := tensordotF_eq_core_w a b xa xb h
  have F := coreT_frame_w a b xa xb h
  by_cases hcase : mode = .auto ∧ xa = []
  · obtain ⟨rfl, rfl⟩ := hcase
    have hxb : xb = [] := List.eq_nil_of_length_eq_zero h.len.symm
    subst hxb
    rw [tensordotF_auto_nil]
    rw [hbw]
    constructor
    · intro e he; rw [he]; exact ⟨rfl, rfl⟩
    · intro r hr
      rw [hr]
      obtain ⟨_, _, _, k4, k5, _⟩ := AssocP.finish_fields (coreT a b [] []) r
      refine ⟨_, _, rfl, rfl, rfl, rfl, rfl, rfl, rfl, fun _ hs => hs, ?_, ?_, ?_, fun _ _ _ _ _ => rfl⟩
      · rw [k5, F.sectors]; exact nodup_eraseDups _
      · rw [k4, F.indices]; exact dropUnused_sizeLe _ _
      intro K V hl
      rw [finish_blocks] at hl
      exact coreFrame_block_shape F (Arr.shapesOk_of_validB h.va) (Arr.shapesOk_of_validB h.vb) K V hl
  · have hm' : mode = .fused ∨ (mode = .auto ∧ xa ≠ []) := by
      rcases hmode with hm | hm
      · exact Or.inl hm
      · exact Or.inr ⟨hm, fun e => hcase ⟨hm, e⟩⟩
    obtain ⟨vX, vY, pX, pY, hsymXY, hXn, hYn, hcXY, e1, e2⟩ := prepared_ok_w a b xa xb h
    have hlen := h.len
    have hk : xa.length ≤ a.ndim := by have := freeAxes_length h.nA h.ltA; omega
    have hk' : xb.length ≤ b.ndim := by have := freeAxes_length h.nB h.ltB; omega
    have props := ValidP.tdF34_props a b xa xb ((ValidP.validB_iff a).mp h.va) ((ValidP.validB_iff b).mp h.vb)
      h.fa h.fb h.nA h.nB h.ltA h.ltB
    have hXpar : (ValidP.tdF34 a b xa xb).1.phaseSync.parity = a.parity := by
      show Sym.parity (ValidP.tdF34 a b xa xb).1.sym (ValidP.tdF34 a b xa xb).1.charge = _
      rw [props.sa, props.ca]; rfl
    have hXodd : (ValidP.tdF34 a b xa xb).1.phaseSync.oddpos = a.oddpos := props.oa
    have hYodd : (ValidP.tdF34 a b xa xb).2.phaseSync.oddpos = b.oddpos := props.ob
    have hcT : coreT a b xa xb = tensordotBlockwise (ValidP.tdF34 a b xa xb).1.phaseSync
        (ValidP.tdF34 a b xa xb).2.phaseSync
        (freeAxes (ValidP.tdF34 a b xa xb).1.phaseSync.ndim ((List.range a.ndim).drop (a.ndim - xa.length)))
        ((List.range a.ndim).drop (a.ndim - xa.length)) (List.range xa.length)
        (freeAxes (ValidP.tdF34 a b xa xb).2.phaseSync.ndim (List.range xa.length)) := rfl
    have hcall0 := ValidP.tensordotF_eq a b xa xb mode hlen h.ltA h.ltB
    generalize (ValidP.tdF34 a b xa xb).1.phaseSync = X at *
    generalize (ValidP.tdF34 a b xa xb).2.phaseSync = Y at *
    have hnA' : ((List.range a.ndim).drop (a.ndim - xa.length)).Nodup :=
      (List.drop_sublist _ _).nodup List.nodup_range
    have hA' : ∀ i ∈ (List.range a.ndim).drop (a.ndim - xa.length), i < X.ndim := by
      intro i hi; rw [hXn]; exact List.mem_range.mp (List.mem_of_mem_drop hi)
    have hB' : ∀ i ∈ List.range xa.length, i < Y.ndim := by
      intro i hi; rw [hYn]; have := List.mem_range.mp hi; omega
    obtain ⟨cm, hcm, hsv, hnd, hframe, hshape⟩ := kernelOk_all_w hz1 hz2 X Y _ _ vX vY pX pY hsymXY hcXY hnA'
      List.nodup_range hA' hB'
    have hparse := ValidP.parseAxes_nat X.ndim Y.ndim ((List.range a.ndim).drop (a.ndim - xa.length))
      (List.range xa.length) (by simp; omega) hA' hB'
    have hcall : tensordotA X Y (.pair (((List.range a.ndim).drop (a.ndim - xa.length)).map Int.ofNat)
        ((List.range xa.length).map Int.ofNat)) mode = .ok cm := by
      rcases hm' with rfl | ⟨rfl, hne⟩
      · rw [tensordotA_fused' X Y _ _ _ hparse]; exact hcm
      · have hneK : (List.range a.ndim).drop (a.ndim - xa.length) ≠ [] := by
          intro e
          have := congrArg List.length e
          have hxl := List.length_pos_iff.mpr hne
          simp at this; omega
        rw [tensordotA_auto_fused X Y _ _ _ hparse hneK]; exact hcm
    have hmodeq : a.tensordotF b (.pair (xa.map Int.ofNat) (xb.map Int.ofNat)) mode
        = (OddposP.mergeOddpos a.parity a.oddpos b.oddpos).map (finish cm) := by
      rw [hcall0, hcall]
      simp only [bind, Except.bind]
      rw [OddposP.resolveCombinedOddpos_eq, hXpar, hXodd, hYodd]
      rfl
    have hsv' : SameView cm (coreT a b xa xb) := by rw [hcT]; exact hsv
    rw [hmodeq, hbw]
    constructor
    · intro e he; rw [he]; exact ⟨rfl, rfl⟩
    · intro r hr
      rw [hr]
      refine ⟨finish cm r, finish (coreT a b xa xb) r, rfl, rfl, ?_⟩
      obtain ⟨g1, g2, g3, g4, g5, g6⟩ := AssocP.finish_fields cm r
      obtain ⟨k1, k2, k3, k4, k5, k6⟩ := AssocP.finish_fields (coreT a b xa xb) r
      have hSm : Lazy.SignOk cm := ⟨hnd, by rw [hsv'.phases, F.phases]; exact Lazy.PhOk.nil⟩
      have hSb : Lazy.SignOk (coreT a b xa xb) := AssocP.coreFrame_signOk F
      refine ⟨by rw [g6, k6], by rw [g1, k1, hsv'.charge], by rw [g2, k2, hsv'.sym],
        by rw [g3, k3, hsv'.fermi], by rw [g4, k4, hsv'.rank], ?_, by rw [g5]; exact hnd,
        by rw [g4]; rwa [e1, e2] at hframe, ?_, ?_⟩
      · intro s hs; rw [k5] at hs; rw [g5]; exact hsv'.sectors s hs
      · intro K V hl
        rw [finish_blocks] at hl
        have := hshape K V hl
        rwa [e1, e2] at this
      · intro K V hl J hJ
        rw [finish_blocks] at hl
        rw [AssocP.finish_elem cm r hSm, AssocP.finish_elem _ r hSb, hsv'.elem K V hl J hJ]

end TdotP
end SymmModel
