/-
  SymmModel.Proofs.ValidTdot — the block-wise contraction returns a valid array
  (property C01, item 5).
-/
import SymmModel.Proofs.ValidOps

namespace SymmModel
namespace ValidP
open Sym

variable {R : Type}

/-- the documented precondition of a contraction: contracted indices have the same charge
    table and opposite directions -/
def contractibleB (a b : Arr R) (axesA axesB : List Nat) : Bool :=
  axesA.length == axesB.length
  && (axesA.zip axesB).all (fun p =>
      (a.indices.getD p.1 default).cm == (b.indices.getD p.2 default).cm
      && ((a.indices.getD p.1 default).dual != (b.indices.getD p.2 default).dual))

/-- only this part of `contractibleB` is needed for validity -/
def oppositeDualsB (a b : Arr R) (axesA axesB : List Nat) : Bool :=
  axesA.length == axesB.length
  && (axesA.zip axesB).all (fun p =>
      ((a.indices.getD p.1 default).dual != (b.indices.getD p.2 default).dual))

theorem contractible_opposite {a b : Arr R} {axesA axesB : List Nat}
    (h : contractibleB a b axesA axesB = true) : oppositeDualsB a b axesA axesB = true := by
  unfold contractibleB at h
  unfold oppositeDualsB
  simp only [Bool.and_eq_true, List.all_eq_true] at h ⊢
  exact ⟨h.1, fun p hp => (h.2 p hp).2⟩

theorem permuted_cons {α : Type} (l : List α) (i : Nat) (p : List Nat) (hi : i < l.length) :
    permuted l (i :: p) = l[i] :: permuted l p := by
  unfold permuted
  rw [List.filterMap_cons, List.getElem?_eq_getElem hi]

/-- the directions of the contracted indices of `b` are the flipped ones of `a` -/
theorem opposite_duals_permuted (ia ib : List Index) :
    ∀ (axesA axesB : List Nat), axesA.length = axesB.length →
      (∀ i ∈ axesA, i < ia.length) → (∀ i ∈ axesB, i < ib.length) →
      (∀ p ∈ axesA.zip axesB, ((ia.getD p.1 default).dual != (ib.getD p.2 default).dual) = true) →
      (permuted ib axesB).map Index.dual = (permuted ia axesA).map (fun ix => !ix.dual)
  | [], [], _, _, _, _ => rfl
  | [], _ :: _, h, _, _, _ => by simp at h
  | _ :: _, [], h, _, _, _ => by simp at h
  | i :: axesA, j :: axesB, hl, hA, hB, hd => by
    have hi : i < ia.length := hA i (by simp)
    have hj : j < ib.length := hB j (by simp)
    rw [permuted_cons _ _ _ hi, permuted_cons _ _ _ hj, List.map_cons, List.map_cons]
    have h0 := hd (i, j) (by simp)
    simp only [List.getD_eq_getElem?_getD, List.getElem?_eq_getElem hi, List.getElem?_eq_getElem hj,
      Option.getD_some] at h0
    have ih := opposite_duals_permuted ia ib axesA axesB (by simpa using hl)
      (fun k hk => hA k (by simp [hk])) (fun k hk => hB k (by simp [hk]))
      (fun p hp => hd p (by simp [hp]))
    rw [ih]
    congr 1
    revert h0
    cases ia[i].dual <;> cases ib[j].dual <;> simp

/-- the group computation behind charge conservation of a contraction -/
theorem combine_contract (s : Sym) (L K Rr : List Charge) :
    s.combine [s.combine [s.combine L, s.combine K],
               s.combine [s.sign (s.combine K) true, s.combine Rr]]
      = s.combine [s.combine L, s.combine Rr] := by
  cases s <;> sym_arith

/-- one aligned pair of blocks gives a charge-conserving sector of the result -/
theorem secOk_contract {sym : Sym} {ia ib : List Index} {cha chb : Charge} {sa sb : Sector}
    {axesA axesB : List Nat}
    (ha : SecOk sym ia cha sa) (hb : SecOk sym ib chb sb)
    (hnA : axesA.Nodup) (hnB : axesB.Nodup)
    (hA : ∀ i ∈ axesA, i < ia.length) (hB : ∀ i ∈ axesB, i < ib.length)
    (hk : permuted sb axesB = permuted sa axesA)
    (hd : (permuted ib axesB).map Index.dual = (permuted ia axesA).map (fun ix => !ix.dual)) :
    SecOk sym (without ia axesA ++ without ib axesB) (sym.combine [cha, chb])
      (permuted sa (without (List.range ia.length) axesA)
        ++ permuted sb (without (List.range ib.length) axesB)) := by
  obtain ⟨Pa, rfl, rfl, hca⟩ := secOk_iff.mp ha
  obtain ⟨Pb, rfl, rfl, hcb⟩ := secOk_iff.mp hb
  simp only [List.length_map] at hA hB ⊢
  set left := without (List.range Pa.length) axesA with hleft
  set right := without (List.range Pb.length) axesB with hright
  refine secOk_iff.mpr ⟨permuted Pa left ++ permuted Pb right, ?_, ?_, ?_⟩
  · rw [List.map_append, ← permuted_map, ← permuted_map,
      without_eq_permuted' (List.map (fun x : Index × Charge => x.1) Pa),
      without_eq_permuted' (List.map (fun x : Index × Charge => x.1) Pb)]
    simp only [List.length_map, hleft, hright]
  · rw [List.map_append, ← permuted_map, ← permuted_map]
  · -- charge
    have hpa : (permuted Pa left ++ permuted Pa axesA).Perm Pa := by
      rw [← permuted_append]
      exact permuted_perm (without_append_perm hnA hA)
    have hpb : (permuted Pb right ++ permuted Pb axesB).Perm Pb := by
      rw [← permuted_append]
      exact permuted_perm (without_append_perm hnB hB)
    have e1 : cha = sym.combine [sym.combine (sgn sym (permuted Pa left)),
                                 sym.combine (sgn sym (permuted Pa axesA))] := by
      rw [← hca, ← Sym.combine_append]
      unfold sgn
      rw [← List.map_append]
      exact (combine_perm' sym (List.Perm.map _ hpa)).symm
    have e2 : chb = sym.combine [sym.combine (sgn sym (permuted Pb axesB)),
                                 sym.combine (sgn sym (permuted Pb right))] := by
      rw [← hcb, ← Sym.combine_append]
      unfold sgn
      rw [← List.map_append]
      exact (combine_perm' sym (List.Perm.map _ (List.perm_append_comm.trans hpb))).symm
    have e3 : sgn sym (permuted Pb axesB)
        = (permuted Pa axesA).map (fun p => sym.sign p.2 (!p.1.dual)) := by
      have hk' : (permuted Pb axesB).map (·.2) = (permuted Pa axesA).map (·.2) := by
        rw [← permuted_map, ← permuted_map]; exact hk
      have hd' : ((permuted Pb axesB).map (·.1)).map Index.dual
          = ((permuted Pa axesA).map (·.1)).map (fun ix => !ix.dual) := by
        rw [← permuted_map (fun x : Index × Charge => x.1) Pb,
          ← permuted_map (fun x : Index × Charge => x.1) Pa]; exact hd
      unfold sgn
      have f1 : (permuted Pb axesB).map (fun p => sym.sign p.2 p.1.dual)
          = List.zipWith (fun c d => sym.sign c d) ((permuted Pb axesB).map (·.2))
              (((permuted Pb axesB).map (·.1)).map Index.dual) := by
        rw [List.map_map, zipWith_map_map]; rfl
      have f2 : (permuted Pa axesA).map (fun p => sym.sign p.2 (!p.1.dual))
          = List.zipWith (fun c d => sym.sign c d) ((permuted Pa axesA).map (·.2))
              (((permuted Pa axesA).map (·.1)).map (fun ix => !ix.dual)) := by
        rw [List.map_map, zipWith_map_map]; rfl
      rw [f1, f2, hk', hd']
    rw [e1, e2, e3, combine_flip, combine_contract]
    unfold sgn
    rw [List.map_append, Sym.combine_append]

/-! ### the accumulation loop -/

/-- aligned pairs (copy of the model text) -/
def tdPairs (a b : Arr R) (leftAxes axesA axesB rightAxes : List Nat) :
    List (Sector × Blk R × Blk R) :=
  a.blocks.flatMap (fun (sa, ba) =>
    let ka := permuted sa axesA
    (b.blocks.filter (fun (sb, _) => permuted sb axesB == ka)).map (fun (sb, bb) =>
      (permuted sa leftAxes ++ permuted sb rightAxes, ba, bb)))

/-- accumulated blocks (copy of the model text) -/
def tdBlocks [Zero R] [Add R] [Mul R] (pairs : List (Sector × Blk R × Blk R))
    (axesA axesB : List Nat) : List (Sector × Blk R) :=
  pairs.foldl (fun acc (s, ba, bb) =>
    let t := ba.tensordotK bb axesA axesB
    match alookup acc s with
    | none => acc ++ [(s, t)]
    | some cur => ainsert acc s (Blk.zipWith (· + ·) cur t)) []

theorem tensordotBlockwise_eq [Zero R] [Add R] [Mul R] (a b : Arr R)
    (leftAxes axesA axesB rightAxes : List Nat) :
    tensordotBlockwise a b leftAxes axesA axesB rightAxes =
      { a with indices := dropUnused (without a.indices axesA ++ without b.indices axesB)
                 ((tdBlocks (tdPairs a b leftAxes axesA axesB rightAxes) axesA axesB).map (·.1)),
               charge := a.sym.combine [a.charge, b.charge],
               blocks := tdBlocks (tdPairs a b leftAxes axesA axesB rightAxes) axesA axesB } := rfl

theorem mem_tdPairs {a b : Arr R} {leftAxes axesA axesB rightAxes : List Nat}
    {x : Sector × Blk R × Blk R} (h : x ∈ tdPairs a b leftAxes axesA axesB rightAxes) :
    ∃ sa sb, (sa, x.2.1) ∈ a.blocks ∧ (sb, x.2.2) ∈ b.blocks
      ∧ permuted sb axesB = permuted sa axesA
      ∧ x.1 = permuted sa leftAxes ++ permuted sb rightAxes := by
  unfold tdPairs at h
  obtain ⟨⟨sa, ba⟩, hsa, hx⟩ := List.mem_flatMap.mp h
  obtain ⟨⟨sb, bb⟩, hsb, rfl⟩ := List.mem_map.mp hx
  obtain ⟨hsb1, hsb2⟩ := List.mem_filter.mp hsb
  exact ⟨sa, sb, hsa, hsb1, by simpa using hsb2, rfl⟩

/-- dict accumulation keeps keys distinct and every entry a good block -/
theorem tdBlocks_inv [Zero R] [Add R] [Mul R] (sym : Sym) (idx : List Index) (ch : Charge)
    (pairs : List (Sector × Blk R × Blk R)) (axesA axesB : List Nat)
    (hp : ∀ x ∈ pairs, BlockOk sym idx ch (x.1, x.2.1.tensordotK x.2.2 axesA axesB)) :
    ((tdBlocks pairs axesA axesB).map (·.1)).Nodup
    ∧ ∀ sb ∈ tdBlocks pairs axesA axesB, BlockOk sym idx ch sb := by
  unfold tdBlocks
  apply foldl_inv (fun acc : List (Sector × Blk R) =>
    (acc.map (·.1)).Nodup ∧ ∀ sb ∈ acc, BlockOk sym idx ch sb)
  · exact ⟨by simp, by simp⟩
  · rintro acc ⟨s, ba, bb⟩ hx ⟨hn, hall⟩
    have hok := hp _ hx
    simp only at hok ⊢
    split
    · rename_i hnone
      have hs : s ∉ acc.map (·.1) := alookup_eq_none_iff.mp hnone
      refine ⟨?_, ?_⟩
      · rw [List.map_append]
        refine List.nodup_append.mpr ⟨hn, by simp, ?_⟩
        intro x hx1 y hy
        simp only [List.map_cons, List.map_nil, List.mem_singleton] at hy
        subst hy
        intro hxy; subst hxy; exact hs hx1
      · intro sb hsb
        rcases List.mem_append.mp hsb with h | h
        · exact hall sb h
        · simp only [List.mem_singleton] at h
          subst h; exact hok
    · rename_i cur hsome
      refine ⟨ainsert_keys_nodup _ _ hn, ?_⟩
      intro sb hsb
      rcases mem_ainsert hsb with rfl | h
      · obtain ⟨h1, h2, _⟩ := hall (s, cur) (alookup_some_mem hsome)
        exact ⟨h1, h2, ofFn_wf _ _⟩
      · exact hall sb h

/-! ### the theorem -/

/-- core statement with the direction hypothesis in list form -/
theorem tensordotBlockwise_core' [Zero R] [Add R] [Mul R] (a b : Arr R) (axesA axesB : List Nat)
    (ha : Core a) (hb : Core b) (hsym : a.sym = b.sym)
    (hd : (permuted b.indices axesB).map Index.dual
      = (permuted a.indices axesA).map (fun ix => !ix.dual))
    (hnA : axesA.Nodup) (hnB : axesB.Nodup)
    (hA : ∀ i ∈ axesA, i < a.ndim) (hB : ∀ i ∈ axesB, i < b.ndim) :
    Core (tensordotBlockwise a b (without (List.range a.ndim) axesA) axesA axesB
      (without (List.range b.ndim) axesB)) := by
  rw [tensordotBlockwise_eq]
  set left := without (List.range a.ndim) axesA with hleft
  set right := without (List.range b.ndim) axesB with hright
  set idx0 := without a.indices axesA ++ without b.indices axesB with hidx0
  have hpairs : ∀ x ∈ tdPairs a b left axesA axesB right,
      BlockOk a.sym idx0 (a.sym.combine [a.charge, b.charge])
        (x.1, x.2.1.tensordotK x.2.2 axesA axesB) := by
    rintro ⟨s, ba, bb⟩ hx
    obtain ⟨sa, sb, hsa, hsb, hk, hs⟩ := mem_tdPairs hx
    simp only at hsa hsb hs ⊢
    obtain ⟨a1, a2, _⟩ := ha.blk _ hsa
    obtain ⟨b1, b2, _⟩ := hb.blk _ hsb
    rw [← hsym] at b1
    subst hs
    refine ⟨secOk_contract a1 b1 hnA hnB hA hB hk hd, ?_, ofFn_wf _ _⟩
    have hla : ba.shape.length = a.ndim := (blockShape?_length a2).1
    have hlb : bb.shape.length = b.ndim := (blockShape?_length b2).1
    show Arr.blockShape? idx0 _ = some (permuted ba.shape
        ((List.range ba.shape.length).filter (fun ax => !axesA.contains ax))
      ++ permuted bb.shape ((List.range bb.shape.length).filter (fun ax => !axesB.contains ax)))
    rw [hla, hlb, ← without_range, ← without_range, hidx0, without_eq_permuted' a.indices,
      without_eq_permuted' b.indices]
    exact blockShape?_append (blockShape?_natT (natT_permuted _) a2)
      (blockShape?_natT (natT_permuted _) b2)
  obtain ⟨hn, hall⟩ := tdBlocks_inv a.sym idx0 (a.sym.combine [a.charge, b.charge])
    (tdPairs a b left axesA axesB right) axesA axesB hpairs
  refine ⟨?_, Sym.combine_valid _ _, hn, ?_⟩
  · apply dropUnused_wf
    intro i hi
    rcases List.mem_append.mp hi with h | h
    · exact ha.idx i (mem_without h)
    · rw [hsym]; exact hb.idx i (mem_without h)
  · intro sb hsb
    obtain ⟨h1, h2, h3⟩ := hall sb hsb
    refine ⟨secOk_dropUnused _ h1, ?_, h3⟩
    show Arr.blockShape? (dropUnused idx0 _) sb.1 = some sb.2.shape
    rw [dropUnused_blockShape _ _ _ (List.mem_map.mpr ⟨sb, hsb, rfl⟩)]
    exact h2

theorem tensordotBlockwise_core [Zero R] [Add R] [Mul R] (a b : Arr R) (axesA axesB : List Nat)
    (ha : Core a) (hb : Core b) (hsym : a.sym = b.sym)
    (hc : oppositeDualsB a b axesA axesB = true)
    (hnA : axesA.Nodup) (hnB : axesB.Nodup)
    (hA : ∀ i ∈ axesA, i < a.ndim) (hB : ∀ i ∈ axesB, i < b.ndim) :
    Core (tensordotBlockwise a b (without (List.range a.ndim) axesA) axesA axesB
      (without (List.range b.ndim) axesB)) := by
  unfold oppositeDualsB at hc
  simp only [Bool.and_eq_true, beq_iff_eq, List.all_eq_true] at hc
  exact tensordotBlockwise_core' a b axesA axesB ha hb hsym
    (opposite_duals_permuted a.indices b.indices axesA axesB hc.1 hA hB hc.2) hnA hnB hA hB

/-- abelian operands: the contraction is a valid array -/
theorem tensordotBlockwise_valid [Zero R] [Add R] [Mul R] (a b : Arr R) (axesA axesB : List Nat)
    (ha : Valid a) (hb : Valid b) (hsym : a.sym = b.sym) (hfa : a.fermi = false)
    (hc : oppositeDualsB a b axesA axesB = true)
    (hnA : axesA.Nodup) (hnB : axesB.Nodup)
    (hA : ∀ i ∈ axesA, i < a.ndim) (hB : ∀ i ∈ axesB, i < b.ndim) :
    Valid (tensordotBlockwise a b (without (List.range a.ndim) axesA) axesA axesB
      (without (List.range b.ndim) axesB)) := by
  refine Valid.of (tensordotBlockwise_core a b axesA axesB ha.core hb.core hsym hc hnA hnB hA hB) ?_
  have := ha.sgn
  unfold SignsOk at this ⊢
  simp only [hfa, Bool.false_eq_true, if_false] at this
  rw [tensordotBlockwise_eq]
  show if a.fermi = true then _ else _
  simp only [hfa, Bool.false_eq_true, if_false]
  exact this

end ValidP
end SymmModel
