/-
  SymmModel.Proofs.NormNet6 — network form of the norm (property C10), part 6:
  the norm of a two-tensor network conjugated tensor by tensor, along the routes that contract
  the ket half and the bra half first (bra half left / ket half left), with the axis pairs of the
  final contraction listed in any order.
-/
import SymmModel.Proofs.NormNet5
namespace SymmModel.NormNet
open SymmModel SymmModel.Lazy SymmModel.Norm SymmModel.TdotP SymmModel.GradedP SymmModel.RoutesP
set_option linter.unusedSectionVars false

section norm
variable {R : Type} [AddMonoid R] [Mul R] [Neg R] [Conj R] [NetLaws R]

theorem full_guard (n : Nat) (axesA axesB : List Nat)
    (h : parseAxes n n (allAxes n) = .ok (axesA, axesB)) :
    Arr.isPerm (without (List.range n) axesA ++ axesA) n = true
      ∧ Arr.isPerm (axesB ++ without (List.range n) axesB) n = true := by
  rw [parseAxes_all] at h
  simp only [Except.ok.injEq, Prod.mk.injEq] at h
  obtain ⟨rfl, rfl⟩ := h
  rw [without_range_self, List.nil_append, List.append_nil]
  exact ⟨isPerm_range n, isPerm_range n⟩

/-- **the norm of a two-tensor network, halves first.**  With `K = a·b` and `Kb` the contraction of
    the two bra tensors: `Kb·K` over all legs is `Σ |K|²` (`normSq K`), and `K·Kb` is the same sum
    with the factors of each product in the other order (`normSq' K`); no label remains. -/
theorem network_norm_halves (a b : Arr R) (xa xb : List Nat)
    (ha : a.validB = true) (hb : b.validB = true) (hfa : a.fermi = true) (hfb : b.fermi = true)
    (hadm : ValidP.tdotAdmissibleB a b xa xb = true)
    (hoA : KetLabels a.oddpos) (hoB : KetLabels b.oddpos)
    (hd : (a.oddpos ++ b.oddpos).Pairwise (fun x y => x.1 ≠ y.1)) :
    ∃ K Kb r r', a.tensordotF b (.pair (xa.map Int.ofNat) (xb.map Int.ofNat)) .blockwise = .ok K
      ∧ (braOf a xa).tensordotF (braOf b xb) (.pair (xa.map Int.ofNat) (xb.map Int.ofNat)) .blockwise
          = .ok Kb
      ∧ Kb.ndim = K.ndim
      ∧ Kb.tensordotF K (allAxes K.ndim) .blockwise = .ok r
      ∧ r.ndim = 0 ∧ r.oddpos = [] ∧ r.elem [] [] = normSq K
      ∧ K.tensordotF Kb (allAxes K.ndim) .blockwise = .ok r'
      ∧ r'.ndim = 0 ∧ r'.oddpos = [] ∧ r'.elem [] [] = normSq' K := by
  obtain ⟨K, Kb, eK, eKb, hobs, hKv, hKf, hKbv, hKbf, hk, hs, hdl⟩ :=
    conj_tensordot a b xa xb ha hb hfa hfb hadm hoA hoB hd
  have hN := NormOk.of_valid hKv hKf
  have fK : Full K := Full.of_valid hKv hKf
  have fKb : Full Kb := Full.of_valid hKbv hKbf
  have fC : Full (K.conjF true true) := Full.conjF' fK true true
  have hnd : Kb.ndim = K.ndim := by
    unfold Arr.ndim; rw [hobs.indices]; exact conjF_ndim K true true
  obtain ⟨r, h1, h2, h3, h4⟩ := norm_left_labels hN true (Or.inl rfl) hk hs hdl
  obtain ⟨r', g1, g2, g3, g4⟩ := norm_right_labels hN true (Or.inl rfl) hk hs hdl
  refine ⟨K, Kb, r, r', eK, eKb, hnd, ?_, h2, h3, h4, ?_, g2, g3, g4⟩
  · rw [← h1]
    exact tensordotF_congr hobs (ObsEq.refl K) fKb fC fK fK _ _
      (by rw [hnd]; exact full_guard K.ndim)
  · rw [← g1]
    exact tensordotF_congr (ObsEq.refl K) hobs fK fK fKb fC _ _
      (by rw [hnd]; exact full_guard K.ndim)

end norm

/-! ## the axis pairs of the final contraction in any order -/
section anyorder
variable {R : Type} [AddCommMonoid R] [Mul R] [Neg R] [Conj R] [NetLaws R]

/-- an array and an observational copy of its conjugate are contractible over all legs -/
theorem adm_full {K Kb : Arr R} (hKv : K.validB = true) (hKf : K.fermi = true)
    (hKbv : Kb.validB = true) (hKbf : Kb.fermi = true)
    (hs : Kb.sym = K.sym) (hi : Kb.indices = K.indices.map Index.conj) :
    Adm Kb K (List.range K.ndim) (List.range K.ndim)
      ∧ Adm K Kb (List.range K.ndim) (List.range K.ndim) := by
  have hnd : Kb.ndim = K.ndim := by unfold Arr.ndim; rw [hi, List.length_map]
  have hlt : ∀ i ∈ List.range K.ndim, i < K.ndim := fun i hi => List.mem_range.mp hi
  have hc1 : ValidP.contractibleB Kb K (List.range K.ndim) (List.range K.ndim) = true := by
    unfold ValidP.contractibleB
    simp only [Bool.and_eq_true, beq_iff_eq, List.all_eq_true, true_and]
    intro p hp
    have e : p.1 = p.2 := by
      have := List.mem_iff_getElem.mp hp
      obtain ⟨i, hi, rfl⟩ := this
      simp
    have hp1 : p.1 < K.indices.length := hlt _ (List.of_mem_zip hp).1
    rw [hi, ← e, getD_map_conj _ _ hp1, Index.conj_cm, Lazy.Index.conj_dual]
    exact ⟨rfl, by cases (K.indices.getD p.1 default).dual <;> rfl⟩
  have hc2 : ValidP.contractibleB K Kb (List.range K.ndim) (List.range K.ndim) = true := by
    unfold ValidP.contractibleB
    simp only [Bool.and_eq_true, beq_iff_eq, List.all_eq_true, true_and]
    intro p hp
    have e : p.1 = p.2 := by
      have := List.mem_iff_getElem.mp hp
      obtain ⟨i, hi, rfl⟩ := this
      simp
    have hp1 : p.1 < K.indices.length := hlt _ (List.of_mem_zip hp).1
    rw [hi, ← e, getD_map_conj _ _ hp1, Index.conj_cm, Lazy.Index.conj_dual]
    exact ⟨rfl, by cases (K.indices.getD p.1 default).dual <;> rfl⟩
  exact ⟨⟨hKbv, hKv, hKbf, hKf, hs, hc1, List.nodup_range, List.nodup_range,
      fun i hi => hnd ▸ hlt i hi, hlt⟩,
    ⟨hKv, hKbv, hKf, hKbf, hs.symm, hc2, List.nodup_range, List.nodup_range, hlt,
      fun i hi => hnd ▸ hlt i hi⟩⟩

theorem allAxes_eq_pair (n : Nat) :
    allAxes n = .pair ((List.range n).map Int.ofNat) ((List.range n).map Int.ofNat) := rfl

/-- the final contraction of `network_norm_halves` with the leg pairs listed in any order `π` -/
theorem network_norm_halves_any_order (a b : Arr R) (xa xb : List Nat)
    (ha : a.validB = true) (hb : b.validB = true) (hfa : a.fermi = true) (hfb : b.fermi = true)
    (hadm : ValidP.tdotAdmissibleB a b xa xb = true)
    (hoA : KetLabels a.oddpos) (hoB : KetLabels b.oddpos)
    (hd : (a.oddpos ++ b.oddpos).Pairwise (fun x y => x.1 ≠ y.1)) :
    ∃ K Kb r r', a.tensordotF b (.pair (xa.map Int.ofNat) (xb.map Int.ofNat)) .blockwise = .ok K
      ∧ (braOf a xa).tensordotF (braOf b xb) (.pair (xa.map Int.ofNat) (xb.map Int.ofNat)) .blockwise
          = .ok Kb
      ∧ r.ndim = 0 ∧ r.oddpos = [] ∧ r.elem [] [] = normSq K
      ∧ r'.ndim = 0 ∧ r'.oddpos = [] ∧ r'.elem [] [] = normSq' K
      ∧ ∀ π : List Nat, π.Perm (List.range K.ndim) →
          Kb.tensordotF K (.pair (π.map Int.ofNat) (π.map Int.ofNat)) .blockwise = .ok r
          ∧ K.tensordotF Kb (.pair (π.map Int.ofNat) (π.map Int.ofNat)) .blockwise = .ok r' := by
  obtain ⟨K, Kb, eK, eKb, hobs, hKv, hKf, hKbv, hKbf, hk, hs, hdl⟩ :=
    conj_tensordot a b xa xb ha hb hfa hfb hadm hoA hoB hd
  obtain ⟨K', Kb', r, r', eK', eKb', hnd, h1, h2, h3, h4, g1, g2, g3, g4⟩ :=
    network_norm_halves a b xa xb ha hb hfa hfb hadm hoA hoB hd
  obtain rfl : K' = K := by rw [eK] at eK'; exact (Except.ok.inj eK').symm
  obtain rfl : Kb' = Kb := by rw [eKb] at eKb'; exact (Except.ok.inj eKb').symm
  refine ⟨K', Kb', r, r', eK, eKb, h2, h3, h4, g2, g3, g4, ?_⟩
  intro π hπ
  obtain ⟨A1, A2⟩ := adm_full hKv hKf hKbv hKbf
    (hobs.sym.trans (conjF_frame K' true true).1)
    (hobs.indices.trans (conjF_frame K' true true).2.2.1)
  have hπ' : π.Perm (List.range (List.range K'.ndim).length) := by rw [List.length_range]; exact hπ
  have hpm : permuted (List.range K'.ndim) π = π := by
    rw [permuted_eq_map _ _ (by
      intro x hx; rw [List.length_range]; exact List.mem_range.mp (hπ.mem_iff.mp hx)) 0]
    conv_rhs => rw [← List.map_id π]
    apply List.map_congr_left
    intro x hx
    have : x < K'.ndim := List.mem_range.mp (hπ.mem_iff.mp hx)
    simp [List.getD_eq_getElem?_getD, List.getElem?_range this]
  have s1 := tdotF_axes_perm_eq Kb' K' (List.range K'.ndim) (List.range K'.ndim) π A1 hπ'
  have s2 := tdotF_axes_perm_eq K' Kb' (List.range K'.ndim) (List.range K'.ndim) π A2 hπ'
  rw [hpm] at s1 s2
  rw [allAxes_eq_pair] at h1 g1
  exact ⟨s1.trans h1, s2.trans g1⟩

/-- the bond legs may be listed in any order, independently for the ket half and the bra half: the
    two half contractions return the IDENTICAL arrays, and the bra tensors do not depend on the
    order either (S4 of C04) -/
theorem halves_bond_order (a b : Arr R) (xa xb : List Nat)
    (ha : a.validB = true) (hb : b.validB = true) (hfa : a.fermi = true) (hfb : b.fermi = true)
    (hadm : ValidP.tdotAdmissibleB a b xa xb = true) (π : List Nat)
    (hπ : π.Perm (List.range xa.length)) :
    a.tensordotF b (.pair ((permuted xa π).map Int.ofNat) ((permuted xb π).map Int.ofNat)) .blockwise
        = a.tensordotF b (.pair (xa.map Int.ofNat) (xb.map Int.ofNat)) .blockwise
      ∧ (braOf a xa).tensordotF (braOf b xb)
          (.pair ((permuted xa π).map Int.ofNat) ((permuted xb π).map Int.ofNat)) .blockwise
        = (braOf a xa).tensordotF (braOf b xb) (.pair (xa.map Int.ofNat) (xb.map Int.ofNat)) .blockwise
      ∧ braOf a (permuted xa π) = braOf a xa ∧ braOf b (permuted xb π) = braOf b xb := by
  have h := Adm.of ha hb hfa hfb hadm
  have hB := braOf_adm h
  have hπb : π.Perm (List.range xb.length) := h.len ▸ hπ
  refine ⟨tdotF_axes_perm_eq a b xa xb π h hπ, tdotF_axes_perm_eq _ _ xa xb π hB hπ, ?_, ?_⟩
  · unfold braOf dangDual
    rw [freeAxes_congr a.ndim (fun x => (permuted_perm xa π hπ).mem_iff)]
  · unfold braOf dangDual
    rw [freeAxes_congr b.ndim (fun x => (permuted_perm xb π hπb).mem_iff)]

end anyorder

end SymmModel.NormNet
