/-
  SymmModel.Proofs.FuseFermi7 — **unfuseF in certificate form**: for any valid fermionic array with
  a fused axis, the value of `unfuseF` at an expanded address is the value of the array at the
  joined address times the explicit sign of the unfuse (flip of the non-dual legs and virtual
  reversal of the new legs when the fused index is dual).
-/
import SymmModel.Proofs.FuseFermi6
namespace SymmModel
namespace FuseP
set_option linter.unusedSectionVars false
open SymmModel.Lazy

variable {R : Type}

section F
variable [Zero R] [Neg R] [LawfulNeg R]

/-- the non-dual legs among the new axes -/
def unfuseFlipAxes (subs : List Index) (axis : Nat) : List Nat :=
  (subs.zipIdx.filter (fun p => !p.1.dual)).map (fun p => axis + p.2)

/-- the virtual permutation reversing the new axes -/
def unfuseVperm (ndim : Nat) (nnew axis : Nat) : List Nat :=
  (List.range (ndim + nnew - 1)).map (fun ax =>
    if axis ≤ ax && ax < axis + nnew then axis + nnew - (ax - axis) - 1 else ax)

/-- the sign `unfuseF` applies to the sector `K` of its result -/
def unfuseSign (a : Arr R) (ix : Index) (subs : List Index) (axis : Nat) (K : Sector) : Int :=
  if ix.dual then
    flipSign a.sym (unfuseFlipAxes subs axis) K
      * koszul (K.map a.sym.parity) (some (unfuseVperm a.ndim subs.length axis))
  else 1

theorem unfuseSign_pm (a : Arr R) (ix : Index) (subs : List Index) (axis : Nat) (K : Sector) :
    unfuseSign a ix subs axis K = 1 ∨ unfuseSign a ix subs axis K = -1 := by
  unfold unfuseSign
  split
  · exact mul_pm (flipSign_pm _ _ _) (koszul_pm _ _)
  · exact Or.inl rfl

theorem unfuseF_eq (a : Arr R) (axis : Nat) {ix : Index} {subs : List Index} {exts : Extents}
    (hix : a.indices[axis]? = some ix) (hsub : ix.sub = some (subs, exts)) {new : Arr R}
    (hnew : unfuseA a.phaseSync axis = .ok new) :
    Arr.unfuseF a axis = .ok (if ix.dual then
      (new.phaseFlip (unfuseFlipAxes subs axis)).phaseTranspose (some (unfuseVperm a.ndim subs.length axis))
      else new) := by
  unfold Arr.unfuseF
  simp only [hix, hnew, bind, Except.bind, pure, Except.pure, hsub]
  split <;> rfl

/-- value of a synchronised array: the stored number -/
theorem sync_get (a : Arr R) {ns : Sector} {B' : Blk R} (hB' : alookup a.phaseSync.blocks ns = some B')
    (off : List Nat) : B'.get off = a.elem ns off := by
  rw [← phaseSync_elem a ns off, elem_of_synced _ (phaseSync_phases a), hB']

/-- **unfuseF_elem** -/
theorem unfuseF_elemM (a : Arr R) (axis : Nat) (ix : Index) (subs : List Index) (exts : Extents)
    (hv : a.validB = true) (hix : a.indices[axis]? = some ix) (hsub : ix.sub = some (subs, exts)) :
    ∃ y, Arr.unfuseF a axis = .ok y ∧ y.indices = replaceWithSeq a.indices axis subs
      ∧ (∀ ns B, (ns, B) ∈ a.blocks → ∀ e ss st d, alookup exts (ns.getD axis (0, 0)) = some e →
          startOf e ss = some (st, d) →
          ∃ subshape, Arr.blockShape? subs ss = some subshape ∧ prod subshape = d
            ∧ ∀ J, inBox (replaceWithSeq B.shape axis subshape) J = true →
                y.elem (replaceWithSeq ns axis ss) J
                  = sgnI (unfuseSign a ix subs axis (replaceWithSeq ns axis ss))
                      (a.elem ns (J.take axis ++ [st + ravel subshape ((J.drop axis).take subshape.length)]
                        ++ J.drop (axis + subshape.length))))
      ∧ (∀ K, (∀ ns B e ss st d, (ns, B) ∈ a.blocks → alookup exts (ns.getD axis (0, 0)) = some e →
            startOf e ss = some (st, d) → K ≠ replaceWithSeq ns axis ss) → ∀ J, y.elem K J = 0) := by
  have hVa := (ValidP.validB_iff a).1 hv
  have hVs := ValidP.phaseSync_valid a hVa
  have hvs : ValidArr a.phaseSync := validArr_of_core hVs.core
  have hixs : a.phaseSync.indices[axis]? = some ix := hix
  obtain ⟨new, hnew, hnidx, hnsym, _, _, hnph, _, hA, hB⟩ := unfuseU hvs hixs hsub
  have hnph' : new.phases = [] := by rw [hnph]; rfl
  have hnsym' : new.sym = a.sym := by rw [hnsym]; rfl
  have hcore := ValidP.unfuseA_core a.phaseSync new axis hVs.core hnew
  have hso : SignOk new := ⟨hcore.nodup, by rw [hnph']; exact PhOk.nil⟩
  have hso2 := hso.phaseFlip (unfuseFlipAxes subs axis)
  -- value of the result in terms of `new`
  have hval : ∀ K J, (if ix.dual then
      (new.phaseFlip (unfuseFlipAxes subs axis)).phaseTranspose (some (unfuseVperm a.ndim subs.length axis))
      else new).elem K J = sgnI (unfuseSign a ix subs axis K) (new.elem K J) := by
    intro K J
    unfold unfuseSign
    split
    · rw [phaseTranspose_elem _ _ hso2, phaseFlip_elem _ _ hso, hnsym',
        sgnI_mul (flipSign_pm _ _ _) (koszul_pm _ _)]
      have hp : (new.phaseFlip (unfuseFlipAxes subs axis)).parities K = K.map a.sym.parity := by
        simp only [Arr.parities, (ValidP.phaseFlip_fields _ _).2.1, hnsym']
      rw [hp]
      rcases flipSign_pm a.sym (unfuseFlipAxes subs axis) K with e1 | e1 <;>
        rcases koszul_pm (K.map a.sym.parity) (some (unfuseVperm a.ndim subs.length axis)) with e2 | e2 <;>
        simp [e1, e2]
    · simp
  have hidx : (if ix.dual then
      (new.phaseFlip (unfuseFlipAxes subs axis)).phaseTranspose (some (unfuseVperm a.ndim subs.length axis))
      else new).indices = new.indices := by
    split
    · exact (ValidP.phaseFlip_fields _ _).1
    · rfl
  refine ⟨_, unfuseF_eq a axis hix hsub hnew, by rw [hidx, hnidx]; rfl, ?_, ?_⟩
  · intro ns B hm e ss st d he hst
    -- the synchronised block
    have hmem : (ns, syncBlk a ns B) ∈ a.phaseSync.blocks := by
      rw [phaseSync_blocks_eq]; exact List.mem_map.2 ⟨(ns, B), hm, rfl⟩
    obtain ⟨subshape, h1, h2, h3, h4⟩ := hA (ns, syncBlk a ns B) hmem e ss st d he hst
    refine ⟨subshape, h1, h2, ?_⟩
    intro J hJ
    rw [hval, elem_of_synced _ hnph', h3]
    simp only
    have hsh : (syncBlk a ns B).shape = B.shape := by
      simp only [syncBlk]; split <;> rfl
    rw [h4 J (by rw [hsh]; exact hJ)]
    congr 1
    exact sync_get a (alookup_of_mem_nodup hvs.nodup hmem) _
  · intro K hK J
    rw [hval, elem_of_synced _ hnph']
    cases hl : alookup new.blocks K with
    | none => exact sgnI_zero _
    | some V =>
      exfalso
      obtain ⟨nsB, hm, e, ss, st, d, h3, h4, h5, _⟩ := hB K V hl
      rw [phaseSync_blocks_eq] at hm
      obtain ⟨p, hp, rfl⟩ := List.mem_map.1 hm
      exact hK p.1 p.2 e ss st d hp h3 h4 h5

end F

end FuseP
end SymmModel
