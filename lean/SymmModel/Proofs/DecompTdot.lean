/-
  SymmModel.Proofs.DecompTdot — `eigh` and `solve` reconstruction through `tensordot` (every mode)
  instead of `@`, fermionic arrays: transfer of `ReconP.eigh_recon_fermi_labels` and
  `ReconP.solve_recon_fermi_labels` with `DecompP.matmulF_to_tensordotF`.
  Namespace `SymmModel.DecompP`.  Nothing here changes a model definition.
-/
import SymmModel.Proofs.DecompTransfer
import SymmModel.Props.C11f

namespace SymmModel
namespace DecompP
set_option linter.unusedSectionVars false
open LinalgLemmas ReconP TdotP GradedP RoutesP OddposP
open Lazy (sgnI)

variable {R : Type}

/-- fields of `FermionicArray.dagger()` that no branch touches -/
theorem daggerF_fields [Zero R] [Conj R] (e : Arr R) :
    (e.daggerF).sym = e.sym ∧ (e.daggerF).fermi = e.fermi
    ∧ (e.daggerF).indices = e.indices.reverse.map Index.conj
    ∧ (e.daggerF).charge = e.sym.sign e.charge true
    ∧ (e.daggerF).oddpos = Arr.oddposDag e.oddpos := by
  rw [ValidP.daggerF_eq]
  simp only [Bool.false_eq_true, if_false]
  unfold ValidP.daggerMid
  split <;> exact ⟨rfl, rfl, rfl, rfl, rfl⟩

theorem zipWith_sizeOf_congr : ∀ (I J : List Index) (s : Sector),
    I.map Index.cm = J.map Index.cm →
      List.zipWith (fun (ix : Index) c => ix.sizeOf? c) I s
        = List.zipWith (fun (ix : Index) c => ix.sizeOf? c) J s := by
  intro I
  induction I with
  | nil =>
    intro J s h
    cases J with
    | nil => rfl
    | cons _ _ => cases h
  | cons i I ih =>
    intro J s h
    cases J with
    | nil => cases h
    | cons j J =>
      have h1 : i.cm = j.cm := (List.cons.inj h).1
      have h2 : I.map Index.cm = J.map Index.cm := (List.cons.inj h).2
      cases s with
      | nil => rfl
      | cons c s =>
        rw [List.zipWith_cons_cons, List.zipWith_cons_cons, ih J s h2]
        simp only [Index.sizeOf?, h1]

/-- the table box depends on the charge tables only -/
theorem blockShape?_congr_cm (I J : List Index) (s : Sector)
    (h : I.map Index.cm = J.map Index.cm) : Arr.blockShape? I s = Arr.blockShape? J s := by
  have hl : I.length = J.length := by simpa using congrArg List.length h
  unfold Arr.blockShape?
  rw [hl, zipWith_sizeOf_congr I J s h]

theorem blockShapeD_congr_cm (I J : List Index) (s : Sector)
    (h : I.map Index.cm = J.map Index.cm) : Arr.blockShapeD I s = Arr.blockShapeD J s := by
  unfold Arr.blockShapeD
  rw [blockShape?_congr_cm I J s h]

/-- a table address of a valid array is an `AddrOf` address -/
theorem addrOf_of_table {a : Arr R} (hv : a.validB = true) {s : Sector} {off : List Nat}
    (h : inBox (Arr.blockShapeD a.indices s) off = true) : AddrOf a s off := by
  by_cases hs : s ∈ a.sectors
  · obtain ⟨⟨s0, b⟩, hm, e⟩ := List.mem_map.mp hs
    have e' : s0 = s := e
    subst e'
    refine Or.inr ⟨b, hm, ?_⟩
    have := (((validB_iff a).mp hv).2.2.2.1 s0 b hm).2.2.1
    unfold Arr.blockShapeD at h
    rw [this] at h
    exact h
  · exact Or.inl hs

section eigh
variable [AddCommMonoid R] [Mul R] [Neg R] [SignRing R] [Conj R]

/-- **eigh through `tensordot`, every mode** (fermionic) -/
theorem eigh_tdotF_all_modes (hz1 : ∀ x : R, 0 * x = 0) (hz2 : ∀ x : R, x * 0 = 0)
    (hc0 : Conj.conj (0 : R) = 0) {K : Kernels R} (hK : K.ShapeOk) {a : Arr R} (H : EighInput a)
    (hf : a.fermi = true) (hlab : SortedLabels a.oddpos) (hket : ∀ l ∈ a.oddpos, l.2 = false)
    (hE : ∀ p ∈ a.phaseSync.blocks, K.EighBlock p.2) (tm : TdotMode) :
    ∃ w ev c, eighA K a = .ok (w, ev)
      ∧ (multiplyDiagonal ev w 1).tensordotF ev.daggerF (.pair [1] [0]) tm = .ok c
      ∧ c.oddpos = [] ∧ c.charge = a.sym.combine [a.charge, a.sym.sign a.charge true]
      ∧ ∀ s i j, inBox (Arr.blockShapeD a.indices s) [i, j] = true →
          c.elem s [i, j] = a.elem s [i, j] := by
  have : SignLaws R := signLaws_of_signRing
  obtain ⟨w, ev, y, he, hm, hyo, hel⟩ := eigh_recon_fermi_labels hc0 hK H hf hlab hket hE
  obtain ⟨_, _, hvv, hvs, hvf, hvi, hvc, _, _, _, _, _⟩ := C11.eighA_valid K hK a H.hv w ev he
  obtain ⟨i0, i1, hi⟩ := ndim_two H.h2
  obtain ⟨d1, d2, d3, d4, d5⟩ := daggerF_fields ev
  have hA : (multiplyDiagonal ev w 1).validB = true := (ValidP.validB_iff _).mpr (ValidP.multiplyDiagonal_valid ev w 1 ((ValidP.validB_iff ev).mp hvv))
  have hB : ev.daggerF.validB = true := (ValidP.validB_iff _).mpr (ValidP.daggerF_valid ev false ((ValidP.validB_iff ev).mp hvv) (hvf.trans hf))
  have hAi : (multiplyDiagonal ev w 1).indices = [i0, i1] := hvi.trans hi
  have hBi : ev.daggerF.indices = [i1.conj, i0.conj] := by rw [d3, hvi, hi]; rfl
  have hAn : (multiplyDiagonal ev w 1).ndim = 2 := by simp [Arr.ndim, hAi]
  have hBn : ev.daggerF.ndim = 2 := by simp [Arr.ndim, hBi]
  have hadm : ValidP.tdotAdmissibleB (multiplyDiagonal ev w 1) ev.daggerF
      [(multiplyDiagonal ev w 1).ndim - 1] [0] = true := by
    rw [hAn]
    unfold ValidP.tdotAdmissibleB ValidP.contractibleB
    rw [hAn, hBn, hAi, hBi]
    have hs : (multiplyDiagonal ev w 1).sym = ev.daggerF.sym := d1.symm
    simp [hs, allDistinct]
  obtain ⟨c, h1, h2, h3, h4⟩ := matmulF_to_tensordotF hz1 hz2 _ _ y hA hB (hvf.trans hf)
    (d2.trans (hvf.trans hf)) (Or.inr hAn) (Or.inr hBn) hadm hm tm
  rw [hAn] at h1 h4
  refine ⟨w, ev, c, he, h1, h2.trans hyo, ?_, ?_⟩
  · obtain ⟨out, ph, _, _, hc, _⟩ := C03.matmulF_refines_graded _ _ y hA hB (hvf.trans hf)
      (d2.trans (hvf.trans hf)) (Or.inr hAn) (Or.inr hBn) hadm hm
    rw [h3, hc, d4]
    show ev.sym.combine [ev.charge, ev.sym.sign ev.charge true] = _
    rw [hvs, hvc]
  · intro s i j hbox
    have hidx : without (multiplyDiagonal ev w 1).indices [2 - 1] ++ without ev.daggerF.indices [0]
        = [i0, i0.conj] := by rw [hAi, hBi]; rfl
    have hcm : i0.cm = i1.cm := by
      have := H.hcm; rw [hi] at this; exact this
    have hbox' : inBox (Arr.blockShapeD (without (multiplyDiagonal ev w 1).indices [2 - 1]
        ++ without ev.daggerF.indices [0]) s) ([i] ++ [j]) = true := by
      rw [hidx, blockShapeD_congr_cm [i0, i0.conj] [i0, i1] s (by simp [hcm]), ← hi]
      exact hbox
    have := h4 s [i] [j] rfl hbox'
    rw [show [i] ++ [j] = [i, j] from rfl] at this
    rw [this]
    exact hel s [i, j] (addrOf_of_table H.hv hbox)

end eigh

section solve
variable [AddCommMonoid R] [Mul R] [Neg R] [SignRing R]

/-- **solve through `tensordot`, every mode** (fermionic) -/
theorem solve_tdotF_all_modes (hz1 : ∀ x : R, 0 * x = 0) (hz2 : ∀ x : R, x * 0 = 0)
    {K : Kernels R} (hK : K.ShapeOk) {a b x : Arr R} (hva : a.validB = true)
    (hvb : b.validB = true) (hfa : a.fermi = true) (hfb : b.fermi = true)
    (hsym : a.sym = b.sym)
    (hdir : (b.indices.getD 0 default).dual = (a.indices.getD 0 default).dual)
    (heven : a.parity = false) (hao : a.oddpos = []) (hbo : SortedLabels b.oddpos)
    (hS : K.SolvesOn a.phaseSync b.phaseSync) (h : solveA K a b = .ok x) (tm : TdotMode) :
    ∃ c, a.tensordotF x (.pair [1] [0]) tm = .ok c ∧ c.oddpos = b.oddpos
      ∧ c.charge = a.sym.combine [a.charge, x.charge] ∧
      ∀ s arr, (s, arr) ∈ a.blocks → [s.getD 0 (0, 0)] ∈ b.sectors →
        ∀ i, i < arr.shape.getD 0 0 →
          c.elem [s.getD 0 (0, 0)] [i] = b.elem [s.getD 0 (0, 0)] [i] := by
  obtain ⟨y, hm, hyo, hel⟩ := solve_recon_fermi_labels SignRing.neg_zero hK hva hvb hfa hfb heven
    hao hbo hS h
  obtain ⟨h2, _, hvx, _, hxi, hxs, hxf, _⟩ := C11.solveA_valid K hK a b hva hvb hsym
    (hfa.trans hfb.symm) hdir (fun _ => heven) x h
  obtain ⟨i0, i1, hi⟩ := ndim_two h2
  have hxi' : x.indices = [i1.conj] := by rw [hxi, hi]; rfl
  have hxn : x.ndim = 1 := by simp [Arr.ndim, hxi']
  have hadm : ValidP.tdotAdmissibleB a x [a.ndim - 1] [0] = true := by
    rw [h2]
    unfold ValidP.tdotAdmissibleB ValidP.contractibleB
    rw [h2, hxn, hi, hxi']
    have hs : a.sym = x.sym := hsym.trans hxs.symm
    simp [hs, allDistinct]
  obtain ⟨c, h1, h2', h3, h4⟩ := matmulF_to_tensordotF hz1 hz2 a x y hva hvx hfa
    (hxf.trans hfb) (Or.inr h2) (Or.inl hxn) hadm hm tm
  rw [h2] at h1 h4
  refine ⟨c, h1, h2'.trans hyo, ?_, ?_⟩
  · obtain ⟨out, ph, _, _, hc, _⟩ := C03.matmulF_refines_graded a x y hva hvx hfa
      (hxf.trans hfb) (Or.inr h2) (Or.inl hxn) hadm hm
    rw [h3, hc]
  · intro s arr hmem hsb i hi'
    obtain ⟨r, c', m, n, B⟩ := mat_block hva hi hmem
    have hr : s.getD 0 (0, 0) = r := by rw [B.hs]; rfl
    rw [hr] at hsb ⊢
    have hidx : without a.indices [2 - 1] ++ without x.indices [0] = [i0] := by
      rw [hi, hxi']; rfl
    have hsh : Arr.blockShapeD [i0] [r] = [m] := by
      unfold Arr.blockShapeD
      rw [(blockShape?_single i0 r [m]).mpr ⟨m, B.hr, rfl⟩]; rfl
    have hbox : inBox (Arr.blockShapeD (without a.indices [2 - 1] ++ without x.indices [0]) [r])
        ([i] ++ []) = true := by
      rw [hidx, hsh]
      have : i < m := by simpa [B.hshape] using hi'
      simp [inBox, this]
    have := h4 [r] [i] [] rfl hbox
    rw [show [i] ++ ([] : List Nat) = [i] from rfl] at this
    rw [this]
    have := hel s arr hmem (by rw [hr]; exact hsb) i hi'
    rw [hr] at this
    exact this

end solve

section abelian
variable [AddCommMonoid R] [Mul R] [Neg R]

/-- **eigh through `tensordot`, every mode** (abelian): `tensordot(ev·diag w, ev†, ([1],[0]), mode)` -/
theorem eigh_tdotA_all_modes [Conj R] (hz1 : ∀ x : R, 0 * x = 0) (hz2 : ∀ x : R, x * 0 = 0)
    (hc0 : Conj.conj (0 : R) = 0) {K : Kernels R} (hK : K.ShapeOk) {a : Arr R} (H : EighInput a)
    (hf : a.fermi = false) (hE : ∀ p ∈ a.blocks, K.EighBlock p.2) (tm : TdotMode) :
    ∃ w ev c, eighA K a = .ok (w, ev)
      ∧ tensordotA (multiplyDiagonal ev w 1) ev.adjA (.pair [1] [0]) tm = .ok c
      ∧ ∀ s off, inBox (Arr.blockShapeD a.indices s) off = true → c.elem s off = a.elem s off := by
  obtain ⟨w, ev, he, hel⟩ := eigh_recon_abelian hc0 hK H hf hE
  obtain ⟨_, _, hvv, hvs, hvf, hvi, hvc, _, _, _, _, _⟩ := C11.eighA_valid K hK a H.hv w ev he
  obtain ⟨i0, i1, hi⟩ := ndim_two H.h2
  have hevf : ev.fermi = false := hvf.trans hf
  have hevn : ev.ndim = 2 := by simp [Arr.ndim, hvi, hi]
  have hA : (multiplyDiagonal ev w 1).validB = true :=
    (ValidP.validB_iff _).mpr (ValidP.multiplyDiagonal_valid ev w 1 ((ValidP.validB_iff ev).mp hvv))
  have hB : ev.adjA.validB = true := by
    apply (ValidP.validB_iff _).mpr
    unfold Arr.adjA
    apply ValidP.transposeA_valid _ _ (ValidP.conjA_valid ev ((ValidP.validB_iff ev).mp hvv) hevf) hevf
    show Arr.isPerm (Arr.reversedAxes ev.ndim) (ev.indices.map Index.conj).length = true
    rw [hevn, hvi, hi]; rfl
  have hAi : (multiplyDiagonal ev w 1).indices = [i0, i1] := hvi.trans hi
  have hBi : ev.adjA.indices = [i1.conj, i0.conj] := by
    show permuted (ev.indices.map Index.conj) (Arr.reversedAxes ev.ndim) = _
    rw [hevn, hvi, hi]; rfl
  have hAn : (multiplyDiagonal ev w 1).ndim = 2 := by simp [Arr.ndim, hAi]
  have hBn : ev.adjA.ndim = 2 := by simp [Arr.ndim, hBi]
  have hparse : parseAxes (multiplyDiagonal ev w 1).ndim ev.adjA.ndim (.pair [1] [0])
      = .ok ([1], [0]) := by rw [hAn, hBn]; rfl
  obtain ⟨c, h1, h2⟩ := tensordotA_all_modes_table hz1 hz2 (multiplyDiagonal ev w 1) ev.adjA
    (.pair [1] [0]) [1] [0] hparse hA hB hevf hevf rfl
    (by
      unfold ValidP.contractibleB
      rw [hAi, hBi]
      simp)
    (by decide) (by decide) (by intro x hx; simp at hx; subst hx; rw [hAn]; decide)
    (by intro x hx; simp at hx; subst hx; rw [hBn]; decide) tm
  refine ⟨w, ev, c, he, h1, ?_⟩
  intro s off hbox
  have hcm : i0.cm = i1.cm := by
    have := H.hcm; rw [hi] at this; exact this
  have hidx : without (multiplyDiagonal ev w 1).indices [1] ++ without ev.adjA.indices [0]
      = [i0, i0.conj] := by rw [hAi, hBi]; rfl
  have hbox' : inBox (Arr.blockShapeD (without (multiplyDiagonal ev w 1).indices [1]
      ++ without ev.adjA.indices [0]) s) off = true := by
    rw [hidx, blockShapeD_congr_cm [i0, i0.conj] [i0, i1] s (by simp [hcm]), ← hi]
    exact hbox
  rw [h2 s off hbox', hAn, hBn]
  exact hel s off (addrOf_of_table H.hv hbox)

/-- **solve through `tensordot`, every mode** (abelian): `tensordot(a, x, ([1],[0]), mode)` -/
theorem solve_tdotA_all_modes (hz1 : ∀ x : R, 0 * x = 0) (hz2 : ∀ x : R, x * 0 = 0)
    {K : Kernels R} (hK : K.ShapeOk) {a b x : Arr R} (hva : a.validB = true)
    (hvb : b.validB = true) (hfa : a.fermi = false) (hfb : b.fermi = false) (hsym : a.sym = b.sym)
    (hdir : (b.indices.getD 0 default).dual = (a.indices.getD 0 default).dual)
    (hS : K.SolvesOn a b) (h : solveA K a b = .ok x) (tm : TdotMode) :
    ∃ c, tensordotA a x (.pair [1] [0]) tm = .ok c ∧
      ∀ s arr, (s, arr) ∈ a.blocks → [s.getD 0 (0, 0)] ∈ b.sectors →
        ∀ i, i < arr.shape.getD 0 0 →
          c.elem [s.getD 0 (0, 0)] [i] = b.elem [s.getD 0 (0, 0)] [i] := by
  obtain ⟨h2, _, hvx, _, hxi, hxs, hxf, _⟩ := C11.solveA_valid K hK a b hva hvb hsym
    (hfa.trans hfb.symm) hdir (fun h => by rw [hfa] at h; cases h) x h
  obtain ⟨i0, i1, hi⟩ := ndim_two h2
  have hxi' : x.indices = [i1.conj] := by rw [hxi, hi]; rfl
  have hxn : x.ndim = 1 := by simp [Arr.ndim, hxi']
  have hparse : parseAxes a.ndim x.ndim (.pair [1] [0]) = .ok ([1], [0]) := by rw [h2, hxn]; rfl
  obtain ⟨c, h1, h4⟩ := tensordotA_all_modes_table hz1 hz2 a x (.pair [1] [0]) [1] [0] hparse hva hvx
    hfa (hxf.trans hfb) (hsym.trans hxs.symm)
    (by
      unfold ValidP.contractibleB
      rw [hi, hxi']
      simp)
    (by decide) (by decide) (by intro y hy; simp at hy; subst hy; rw [h2]; decide)
    (by intro y hy; simp at hy; subst hy; rw [hxn]; decide) tm
  refine ⟨c, h1, ?_⟩
  intro s arr hmem hsb i hi'
  obtain ⟨r, c', m, n, B⟩ := mat_block hva hi hmem
  have hr : s.getD 0 (0, 0) = r := by rw [B.hs]; rfl
  have hidx : without a.indices [1] ++ without x.indices [0] = [i0] := by
    rw [hi, hxi']; rfl
  have hsh : Arr.blockShapeD [i0] [r] = [m] := by
    unfold Arr.blockShapeD
    rw [(blockShape?_single i0 r [m]).mpr ⟨m, B.hr, rfl⟩]; rfl
  have hbox : inBox (Arr.blockShapeD (without a.indices [1] ++ without x.indices [0]) [r]) [i]
      = true := by
    rw [hidx, hsh]
    have : i < m := by simpa [B.hshape] using hi'
    simp [inBox, this]
  have hbp : b.phases = [] := abelian_phases hvb hfb
  obtain ⟨⟨s0, bb⟩, hbm, e⟩ := List.mem_map.mp hsb
  have e' : s0 = [s.getD 0 (0, 0)] := e
  subst e'
  have hl : alookup b.blocks [s.getD 0 (0, 0)] = some bb :=
    alookup_of_mem_nodup (sectors_nodup hvb) hbm
  have := solve_recon hK hva hfa hbp hS h hmem hl hi'
  rw [hr] at this ⊢
  rw [h4 [r] [i] hbox, h2, hxn]
  exact this

end abelian

end DecompP
end SymmModel
