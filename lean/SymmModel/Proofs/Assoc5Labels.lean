/-
  SymmModel.Proofs.Assoc5Labels — the label scan `resolveScan` only depends on the ORDER TYPE of the
  labels: it commutes with every relabelling that is an order embedding on the labels present.
  Consequence: the label check `netLabelsB` of the norm network for symbolic labels follows from its
  value on the order-isomorphic list of small integers (decidable).  Used for at most two labels
  per tensor.  Namespace `SymmModel.Assoc5P`.
-/
import SymmModel.Proofs.NormNet15
import Mathlib.Tactic.Tauto

namespace SymmModel
namespace Assoc5P
open OddposP
set_option linter.unusedSectionVars false

/-- relabel by `f`, keep dualness -/
def relab (f : Int → Int) (a : Int × Bool) : Int × Bool := (f a.1, a.2)

/-- `f` is an order embedding on the labels satisfying `P` -/
def Emb (f : Int → Int) (P : Int → Prop) : Prop :=
  ∀ x y, P x → P y → ((f x = f y ↔ x = y) ∧ (f x < f y ↔ x < y))

theorem oddLt_relab {f : Int → Int} {P : Int → Prop} (hf : Emb f P) (a b : Int × Bool)
    (ha : P a.1) (hb : P b.1) : oddLt (relab f a) (relab f b) = oddLt a b := by
  obtain ⟨_, h1⟩ := hf a.1 b.1 ha hb
  obtain ⟨_, h2⟩ := hf b.1 a.1 hb ha
  unfold oddLt relab
  simp only []
  cases a.2 <;> cases b.2 <;> simp [h1, h2, GT.gt]

theorem resolveScan_relab {f : Int → Int} {P : Int → Prop} (hf : Emb f P) :
    ∀ (fuel : Nat) (pre post : List (Int × Bool)) (ph : Int),
      (∀ a ∈ pre ++ post, P a.1) →
      resolveScan fuel (pre.map (relab f)) (post.map (relab f)) ph
        = (resolveScan fuel pre post ph).map (fun r => (r.1.map (relab f), r.2)) := by
  intro fuel
  induction fuel with
  | zero => intro pre post ph _; rfl
  | succ fuel ih =>
    intro pre post ph hP
    match post, hP with
    | [], _ =>
      simp only [List.map_nil, resolveScan, pure, Except.pure, Except.map, List.map_reverse]
    | [a], _ =>
      simp only [List.map_cons, List.map_nil, resolveScan, pure, Except.pure, Except.map,
        List.map_reverse]
    | a :: b :: rest, hP =>
      have ha : P a.1 := hP a (by simp)
      have hb : P b.1 := hP b (by simp)
      have heq : ((relab f a).1 == (relab f b).1) = (a.1 == b.1) := by
        rw [Bool.eq_iff_iff]
        simp only [beq_iff_eq, relab]
        exact (hf a.1 b.1 ha hb).1
      have hlt := oddLt_relab hf b a hb ha
      simp only [List.map_cons, resolveScan, heq, hlt]
      have h2 : (relab f a).2 = a.2 := rfl
      have h3 : (relab f b).2 = b.2 := rfl
      rw [h2, h3]
      split
      · split
        · cases pre with
          | nil => exact ih [] rest _ (fun x hx => hP x (by simp only [List.mem_append, List.mem_cons] at hx ⊢; tauto))
          | cons p pre' =>
            have := ih pre' (p :: rest) (if b.2 = true then -ph else ph) (fun x hx => hP x (by simp only [List.mem_append, List.mem_cons] at hx ⊢; tauto))
            simpa using this
        · rfl
      · split
        · cases pre with
          | nil =>
            have := ih [] (b :: a :: rest) (-ph) (fun x hx => hP x (by simp only [List.mem_append, List.mem_cons] at hx ⊢; tauto))
            simpa using this
          | cons p pre' =>
            have := ih pre' (p :: b :: a :: rest) (-ph) (fun x hx => hP x (by simp only [List.mem_append, List.mem_cons] at hx ⊢; tauto))
            simpa using this
        · have := ih (a :: pre) (b :: rest) ph (fun x hx => hP x (by simp only [List.mem_append, List.mem_cons] at hx ⊢; tauto))
          simpa using this

/-- the scan only returns entries of its input -/
theorem resolveScan_subset : ∀ (fuel : Nat) (pre post : List (Int × Bool)) (ph : Int)
    (out : List (Int × Bool)) (ph' : Int), resolveScan fuel pre post ph = .ok (out, ph') →
    ∀ x ∈ out, x ∈ pre ++ post := by
  intro fuel
  induction fuel with
  | zero => intro pre post ph out ph' h; simp [resolveScan, throw, throwThe, MonadExceptOf.throw] at h
  | succ fuel ih =>
    intro pre post ph out ph' h
    match post, h with
    | [], h =>
      simp only [resolveScan, pure, Except.pure, Except.ok.injEq, Prod.mk.injEq] at h
      intro x hx; rw [← h.1] at hx; simpa using hx
    | [a], h =>
      simp only [resolveScan, pure, Except.pure, Except.ok.injEq, Prod.mk.injEq] at h
      intro x hx; rw [← h.1] at hx
      simp only [List.mem_reverse, List.mem_cons] at hx
      simp only [List.mem_append, List.mem_cons, List.mem_nil_iff, or_false]; tauto
    | a :: b :: rest, h =>
      simp only [resolveScan] at h
      intro x hx
      split at h
      · split at h
        · cases pre with
          | nil =>
            have := ih _ _ _ _ _ h x hx
            simp only [List.mem_append, List.mem_cons] at this ⊢; tauto
          | cons p pre' =>
            have := ih _ _ _ _ _ h x hx
            simp only [List.mem_append, List.mem_cons] at this ⊢; tauto
        · simp [throw, throwThe, MonadExceptOf.throw] at h
      · split at h
        · cases pre with
          | nil =>
            have := ih _ _ _ _ _ h x hx
            simp only [List.mem_append, List.mem_cons] at this ⊢; tauto
          | cons p pre' =>
            have := ih _ _ _ _ _ h x hx
            simp only [List.mem_append, List.mem_cons] at this ⊢; tauto
        · have := ih _ _ _ _ _ h x hx
          simp only [List.mem_append, List.mem_cons] at this ⊢; tauto

theorem mergeOddpos_subset {pa : Bool} {la lb out : List (Int × Bool)} {s : Int}
    (h : mergeOddpos pa la lb = .ok (out, s)) : ∀ x ∈ out, x ∈ la ++ lb := by
  unfold mergeOddpos at h
  intro x hx
  simpa using resolveScan_subset _ _ _ _ _ _ h x hx

theorem mergeOddpos_relab {f : Int → Int} {P : Int → Prop} (hf : Emb f P) (pa : Bool)
    (la lb : List (Int × Bool)) (hP : ∀ a ∈ la ++ lb, P a.1) :
    mergeOddpos pa (la.map (relab f)) (lb.map (relab f))
      = (mergeOddpos pa la lb).map (fun r => (r.1.map (relab f), r.2)) := by
  unfold mergeOddpos
  have := resolveScan_relab hf ((la ++ lb).length * (la ++ lb).length + 2 * (la ++ lb).length + 4) []
    (la ++ lb) (if pa && lb.length % 2 == 1 then -1 else 1) (by simpa using hP)
  simpa [List.map_append] using this

theorem oddposDag_relab (f : Int → Int) (l : List (Int × Bool)) :
    Arr.oddposDag (l.map (relab f)) = (Arr.oddposDag l).map (relab f) := by
  unfold Arr.oddposDag
  rw [← List.map_reverse, List.map_map, List.map_map]
  rfl

/-- the label-route check transfers along an order embedding -/
theorem labelRoutesB_relab {f : Int → Int} {P : Int → Prop} (hf : Emb f P) (pa pb : Bool)
    (la lb lc : List (Int × Bool)) (hP : ∀ a ∈ la ++ lb ++ lc, P a.1)
    (h : C04.labelRoutesB pa pb la lb lc = true) :
    C04.labelRoutesB pa pb (la.map (relab f)) (lb.map (relab f)) (lc.map (relab f)) = true := by
  have hPab : ∀ a ∈ la ++ lb, P a.1 := fun a ha => hP a (by
    simp only [List.mem_append] at ha ⊢; tauto)
  have hPbc : ∀ a ∈ lb ++ lc, P a.1 := fun a ha => hP a (by
    simp only [List.mem_append] at ha ⊢; tauto)
  unfold C04.labelRoutesB at h ⊢
  rw [mergeOddpos_relab hf pa la lb hPab, mergeOddpos_relab hf pb lb lc hPbc]
  cases m1 : mergeOddpos pa la lb with
  | error e => simp [m1] at h
  | ok r1 =>
    cases m3 : mergeOddpos pb lb lc with
    | error e => simp [m1, m3] at h
    | ok r3 =>
      obtain ⟨lab, sab⟩ := r1
      obtain ⟨lbc, sbc⟩ := r3
      simp only [m1, m3] at h
      simp only [Except.map]
      have hPabc : ∀ a ∈ lab ++ lc, P a.1 := by
        intro a ha
        rcases List.mem_append.mp ha with h' | h'
        · exact hPab a (mergeOddpos_subset m1 a h')
        · exact hP a (by simp only [List.mem_append]; tauto)
      have hPabc' : ∀ a ∈ la ++ lbc, P a.1 := by
        intro a ha
        rcases List.mem_append.mp ha with h' | h'
        · exact hP a (by simp only [List.mem_append]; tauto)
        · exact hPbc a (mergeOddpos_subset m3 a h')
      rw [mergeOddpos_relab hf _ lab lc hPabc, mergeOddpos_relab hf pa la lbc hPabc']
      cases m2 : mergeOddpos (xor pa pb) lab lc with
      | error e => simp [m2] at h
      | ok r2 =>
        cases m4 : mergeOddpos pa la lbc with
        | error e => simp [m2, m4] at h
        | ok r4 =>
          obtain ⟨o1, s1⟩ := r2
          obtain ⟨o2, s2⟩ := r4
          simp only [m2, m4, Bool.and_eq_true, Bool.or_eq_true, beq_iff_eq] at h
          simp only [Except.map, Bool.and_eq_true, Bool.or_eq_true, beq_iff_eq]
          obtain ⟨⟨⟨⟨⟨e, hs⟩, q1⟩, q2⟩, q3⟩, q4⟩ := h
          exact ⟨⟨⟨⟨⟨by rw [e], hs⟩, q1⟩, q2⟩, q3⟩, q4⟩

/-- the label check of the norm network transfers along an order embedding -/
theorem netLabelsB_relab {f : Int → Int} {P : Int → Prop} (hf : Emb f P) (pA pB : Bool)
    (oA oB : List (Int × Bool)) (hP : ∀ a ∈ oA ++ oB, P a.1)
    (h : NormNet.netLabelsB pA pB oA oB = true) :
    NormNet.netLabelsB pA pB (oA.map (relab f)) (oB.map (relab f)) = true := by
  unfold NormNet.netLabelsB at h ⊢
  rw [mergeOddpos_relab hf pA oA oB hP]
  cases m : mergeOddpos pA oA oB with
  | error e => simp [m] at h
  | ok r =>
    obtain ⟨out, s⟩ := r
    simp only [m, Bool.and_eq_true] at h
    simp only [Except.map, Bool.and_eq_true, oddposDag_relab]
    have hout : ∀ a ∈ out, P a.1 := fun a ha => hP a (mergeOddpos_subset m a ha)
    have hdag : ∀ (l : List (Int × Bool)), (∀ a ∈ l, P a.1) → ∀ a ∈ Arr.oddposDag l, P a.1 := by
      intro l hl a ha
      unfold Arr.oddposDag at ha
      obtain ⟨b, hb, rfl⟩ := List.mem_map.mp ha
      exact hl b (List.mem_reverse.mp hb)
    have hA : ∀ a ∈ oA, P a.1 := fun a ha => hP a (List.mem_append_left _ ha)
    have hB : ∀ a ∈ oB, P a.1 := fun a ha => hP a (List.mem_append_right _ ha)
    have mem3 : ∀ (x y z : List (Int × Bool)), (∀ a ∈ x, P a.1) → (∀ a ∈ y, P a.1) →
        (∀ a ∈ z, P a.1) → ∀ a ∈ x ++ y ++ z, P a.1 := by
      intro x y z hx hy hz a ha
      rcases List.mem_append.mp ha with h' | h'
      · rcases List.mem_append.mp h' with h'' | h''
        · exact hx a h''
        · exact hy a h''
      · exact hz a h'
    exact ⟨⟨⟨labelRoutesB_relab hf _ _ _ _ _ (mem3 _ _ _ hout (hdag _ hA) (hdag _ hB)) h.1.1.1,
      labelRoutesB_relab hf _ _ _ _ _ (mem3 _ _ _ hA hB (hdag _ hout)) h.1.1.2⟩,
      labelRoutesB_relab hf _ _ _ _ _ (mem3 _ _ _ (hdag _ hA) (hdag _ hB) hout) h.1.2⟩,
      labelRoutesB_relab hf _ _ _ _ _ (mem3 _ _ _ (hdag _ hout) hA hB) h.2⟩

end Assoc5P
end SymmModel
