/-
  SymmModel.Proofs.FermiAction7 — product law of built operator arrays, any number of sites
  (property C18): `tensordot(G₂, G₁)` over the inner bra/ket legs is the array of `O₂·O₁`.
-/
import SymmModel.Proofs.FermiAction6

namespace SymmModel
namespace FermiActP
open FermiOpsP GradedP TdotP
open Lazy (sgnI)

section lawn
variable {R : Type} [Ring R] [DecidableEq R]

theorem mem_zip_axes {n a b : Nat}
    (h : (a, b) ∈ ((List.range (2 * n)).drop n).zip (List.range n)) : a = n + b ∧ b < n := by
  obtain ⟨i, hi, e⟩ := List.mem_iff_getElem.mp h
  simp only [List.length_zip, List.length_drop, List.length_range] at hi
  simp only [List.getElem_zip, List.getElem_drop, List.getElem_range, Prod.mk.injEq] at e
  omega

theorem fdIndices_getD (maps : List (List Charge)) (ds : List Bool) (s : Nat)
    (hs : s < maps.length) (hd : ds.length = maps.length) :
    (fdIndices maps ds).getD s default
      = Index.plain (gsizes (maps.getD s [])) (ds.getD s false) := by
  unfold fdIndices
  rw [List.getD_eq_getElem?_getD, List.getElem?_zipWith]
  rw [List.getElem?_eq_getElem hs, List.getElem?_eq_getElem (by omega)]
  simp [List.getD_eq_getElem?_getD, List.getElem?_eq_getElem hs,
    List.getElem?_eq_getElem (show s < ds.length by omega)]

/-- two built arrays on the same bases and index maps can be contracted bras-to-kets -/
theorem ops_admissible_n (t2 t1 : List (R × Word)) (bases : List (List Word)) (sym : Sym)
    (maps : List (List Charge)) (hlen : maps.length = bases.length) :
    ValidP.tdotAdmissibleB (opArray t2 bases sym maps) (opArray t1 bases sym maps)
      ((List.range (2 * bases.length)).drop bases.length) (List.range bases.length) = true := by
  have hn2 := (opArray_take_drop t2 bases sym maps hlen).1
  have hn1 := (opArray_take_drop t1 bases sym maps hlen).1
  unfold ValidP.tdotAdmissibleB ValidP.contractibleB
  simp only [Bool.and_eq_true, decide_eq_true_eq, List.all_eq_true, ValidP.allDistinct_iff]
  refine ⟨⟨⟨⟨⟨rfl, ?_, ?_⟩, ?_⟩, ?_⟩, ?_⟩, ?_⟩
  · simp; omega
  · rintro ⟨a, b⟩ hab
    obtain ⟨rfl, hb⟩ := mem_zip_axes hab
    simp only [Bool.and_eq_true, beq_iff_eq, bne_iff_ne, ne_eq]
    rw [opArray_indices t2 bases sym maps hlen, opArray_indices t1 bases sym maps hlen]
    have l1 : (fdIndices maps (List.replicate bases.length false)).length = bases.length := by
      rw [fdIndices_length _ _ (by simp [hlen]), hlen]
    have g2 : ∀ A B : List Index, A.length = bases.length →
        (A ++ B).getD (bases.length + b) default = B.getD b default := by
      intro A B hA
      rw [List.getD_eq_getElem?_getD, List.getElem?_append_right (by omega), hA,
        Nat.add_sub_cancel_left, ← List.getD_eq_getElem?_getD]
    have g1 : ∀ A B : List Index, A.length = bases.length →
        (A ++ B).getD b default = A.getD b default := by
      intro A B hA
      rw [List.getD_eq_getElem?_getD, List.getElem?_append_left (by omega),
        ← List.getD_eq_getElem?_getD]
    rw [g2 _ _ l1, g1 _ _ l1, fdIndices_getD maps _ b (by omega) (by simp [hlen]),
      fdIndices_getD maps _ b (by omega) (by simp [hlen])]
    simp [Index.plain, Index.cm, Index.dual, List.getD_eq_getElem?_getD, hb]
  · exact (List.nodup_range).sublist (List.drop_sublist _ _)
  · exact List.nodup_range
  · intro i hi
    rw [hn2]; exact (mem_drop_range.mp hi).2
  · intro i hi
    rw [hn1]; have := List.mem_range.mp hi; omega

/-- **product law** (any number of sites, complete bases): contracting the built array of `O₂`
    with the built array of `O₁` over the inner bra/ket legs gives, address by address, the built
    array of `O₂·O₁` — the fixed signs `D` cancel (`D² = 1`). -/
theorem product_law_n (t2 t1 : List (R × Word)) (bases : List (List Word)) (sym : Sym)
    (maps : List (List Charge)) (hmaps : maps.map List.length = bases.map List.length)
    (hv : ∀ m ∈ maps, ∀ c ∈ m, sym.valid c = true) (hd : SitesDisjoint bases)
    (q1 q2 : Int → Int) (hcm : ChargeMaps sym q1 q2 bases maps)
    (hn1 : ∀ ct ∈ t1, wordCharge q1 ct.2 = 0 ∧ wordCharge q2 ct.2 = 0)
    (hn2 : ∀ ct ∈ t2, wordCharge q1 ct.2 = 0 ∧ wordCharge q2 ct.2 = 0)
    (hpf : ParityFaithful sym bases maps)
    (M : List Int)
    (hc : CompleteKets M ((allIdx (bases.map List.length)).map (ketOf bases)))
    (ht1 : ∀ ct ∈ t1, ∀ o ∈ ct.2, o.label ∈ M)
    (hb : ∀ b ∈ bases, ∀ w ∈ b, ∀ o ∈ w, o.label ∈ M)
    (c : Arr R)
    (h : (opArray t2 bases sym maps).tensordotF (opArray t1 bases sym maps)
        (.pair (((List.range (2 * bases.length)).drop bases.length).map Int.ofNat)
          ((List.range bases.length).map Int.ofNat)) .blockwise = .ok c) :
    c.oddpos = [] ∧ c.charge = sym.combine [sym.zero, sym.zero]
    ∧ ∀ is js, inBox (bases.map List.length) is = true → inBox (bases.map List.length) js = true →
        c.elem (labelsAt maps is ++ labelsAt maps js) (ranksOf maps is ++ ranksOf maps js)
          = (opArray (mulTerms t2 t1) bases sym maps).elem
              (labelsAt maps is ++ labelsAt maps js) (ranksOf maps is ++ ranksOf maps js) := by
  have hlen : maps.length = bases.length := by
    have := congrArg List.length hmaps; simpa using this
  have hG1 := opArray_valid t1 bases sym maps hmaps hv
  obtain ⟨out, ph, h1, h2, h3, h4⟩ := action_DHD t2 bases sym maps hmaps hv hd q1 q2 hcm
    (fun ct hct => (hn2 ct hct).1) (fun ct hct => (hn2 ct hct).2) hpf
    (opArray t1 bases sym maps) c hG1 rfl (ops_admissible_n t2 t1 bases sym maps hlen) h
  have hodd : (opArray t1 bases sym maps).oddpos = [] := rfl
  rw [hodd] at h1
  have hph : out = [] ∧ ph = 1 := by
    have : OddposP.mergeOddpos false [] [] = .ok ([], 1) := rfl
    rw [this] at h1
    simp only [Except.ok.injEq, Prod.mk.injEq] at h1
    exact ⟨h1.1.symm, h1.2.symm⟩
  obtain ⟨rfl, rfl⟩ := hph
  refine ⟨h2, h3, ?_⟩
  intro is js his hjs
  have hisM : inBox (maps.map List.length) is = true := by rw [hmaps]; exact his
  have hjsM : inBox (maps.map List.length) js = true := by rw [hmaps]; exact hjs
  obtain ⟨i1, i2, i3⟩ := fdOrig_of_index maps is hisM
  obtain ⟨j1, j2, j3⟩ := fdOrig_of_index maps js hjsM
  have hil : is.length = bases.length := by have := inBox_length his; simpa using this
  have hshp : Arr.blockShape? ((opArray t1 bases sym maps).indices.drop bases.length) (labelsAt maps js)
      = some ((fdPos maps (labelsAt maps js)).map List.length) := by
    rw [(opArray_take_drop t1 bases sym maps hlen).2.2]
    exact blockShape_fdIndices maps _ _ (by simp [hlen]) j1
  rw [h4 is _ _ _ his hshp j2, Lazy.sgnI_one]
  have hn21 := mulTerms_neutral q1 t2 t1 (fun ct h => (hn2 ct h).1) (fun ct h => (hn1 ct h).1)
  have hn21' := mulTerms_neutral q2 t2 t1 (fun ct h => (hn2 ct h).2) (fun ct h => (hn1 ct h).2)
  rw [opArray_elem_split (mulTerms t2 t1) bases sym maps hmaps _ _ _ _ i1 j1 i2 j2, i3, j3,
    opEntry_eq_specAt (mulTerms t2 t1) bases sym maps q1 q2 hcm hn21 hn21',
    specAt_eq_DH (mulTerms t2 t1) bases hd is js hil (inBox_append_of his hjs),
    fock_mul M bases _ hc t2 t1 ht1 is js (by
      intro o ho
      rw [ketOf_eq] at ho
      obtain ⟨w, hw, how⟩ := List.mem_flatten.mp ho
      rcases mem_ketBlocks bases js w hw with rfl | ⟨b, hbm, hwb⟩
      · cases how
      · exact hb b hbm w hwb o how)]
  -- the signs: τ(is)τ(ks) · τ(ks) = τ(is)
  have hσ := siteSign_cases bases is
  rw [show ∀ x : R, scaleInt (siteSign bases is) x = sgnI (siteSign bases is) x from fun x => by
    rcases hσ with e | e <;> rw [e] <;> simp [scaleInt, sgnI]]
  rw [← sgnI_sum]
  congr 1
  apply List.map_congr_left
  intro ks hks
  have hks' : inBox (bases.map List.length) ks = true := mem_allIdx.mp hks
  have hksM : inBox (maps.map List.length) ks = true := by rw [hmaps]; exact hks'
  obtain ⟨k1, k2, k3⟩ := fdOrig_of_index maps ks hksM
  have hkl : ks.length = bases.length := by have := inBox_length hks'; simpa using this
  rw [opArray_elem_split t1 bases sym maps hmaps _ _ _ _ k1 j1 k2 j2, k3, j3,
    opEntry_eq_specAt t1 bases sym maps q1 q2 hcm (fun ct h => (hn1 ct h).1) (fun ct h => (hn1 ct h).2),
    specAt_eq_DH t1 bases hd ks js hkl (inBox_append_of hks' hjs)]
  unfold actMatrix
  rcases hσ with e | e <;> rcases siteSign_cases bases ks with e' | e' <;>
    rw [e, e'] <;> simp [scaleInt, sgnI]

end lawn
end FermiActP
end SymmModel
