/-
  SymmModel.Proofs.Reshape7b — `reshape` to the current shape, fused axes allowed: the planner returns
  the empty plan if and only if no fused axis has sub-sizes equal to the window of the shape that
  starts at its own position (`selfWin = false`); otherwise it unfuses (known finding
  reshape-fused-window-match).
-/
import SymmModel.Proofs.Reshape7a
namespace SymmModel.Reshape5
open SymmModel SymmModel.Reshape SymmModel.C07 SymmModel.Reshape4

/-- some fused axis carries sub-sizes equal to the window of the shape starting at that axis -/
def selfWin : List Nat → List (Option (List Nat)) → Bool
  | [], _ => false
  | _ :: _, [] => false
  | d :: sh, some subs :: ss => beqNats subs ((d :: sh).take subs.length) || selfWin sh ss
  | _ :: sh, none :: ss => selfWin sh ss

theorem getElem?_mid {α : Type} (pre : List α) (x : α) (rest : List α) : (pre ++ x :: rest)[pre.length]? = some x := by
  simp

/-- no self-window: the first loop only appends "o" -/
theorem mainLoop_selfshape (shape : List Nat) (subsizes : List (Option (List Nat))) :
    ∀ (rest : List Nat) (rs : List (Option (List Nat))) (pre : List Nat) (ps : List (Option (List Nat)))
      (fuel k : Nat) (term : List Lbl) (sq us fs ex : List Nat) (a1 a2 : Bool),
      shape = pre ++ rest → subsizes = ps ++ rs → ps.length = pre.length → rs.length = rest.length →
      selfWin rest rs = false → rest.length ≤ fuel →
      mainLoop shape shape subsizes fuel ⟨pre.length, pre.length, k, term, sq, us, fs, ex, a1, a2⟩
        = .ok ⟨shape.length, shape.length, k + rest.length, term ++ List.replicate rest.length Lbl.o,
               sq, us, fs, ex, a1, a2⟩ := by
  intro rest
  induction rest with
  | nil =>
    intro rs pre ps fuel k term sq us fs ex a1 a2 hs _ _ _ _ _
    have : shape = pre := by simp [hs]
    subst this
    rw [mainLoop_done _ _ _ _ _ (Nat.le_refl _)]
    simp
  | cons d rest ih =>
    intro rs pre ps fuel k term sq us fs ex a1 a2 hs hss hpl hrl hw hf
    obtain ⟨f, rfl⟩ : ∃ f, fuel = f + 1 := ⟨fuel - 1, by simp at hf; omega⟩
    cases rs with
    | nil => simp at hrl
    | cons sub rs =>
      have g1 : shape[pre.length]? = some d := by rw [hs]; exact getElem?_mid _ _ _
      have g3 : subsizes[pre.length]? = some sub := by rw [hss, ← hpl]; exact getElem?_mid _ _ _
      have hm : unfuseMatch shape pre.length sub = none ∧ selfWin rest rs = false := by
        cases sub with
        | none => exact ⟨rfl, by simpa [selfWin] using hw⟩
        | some subs =>
          simp only [selfWin, Bool.or_eq_false_iff] at hw
          refine ⟨?_, hw.2⟩
          simp only [unfuseMatch]
          have : shape.drop pre.length = d :: rest := by rw [hs, List.drop_left' rfl]
          rw [this, hw.1]; rfl
      have := ih rs (pre ++ [d]) (ps ++ [sub]) f (k + 1) (term ++ [Lbl.o]) sq us fs ex a1 a2 (by simp [hs])
        (by simp [hss]) (by simp [hpl]) (by simpa using hrl) hm.2 (by simpa using hf)
      simp only [List.length_append, List.length_cons, List.length_nil] at this
      simp only [mainLoop, g1, g3, hm.1, Nat.beq_refl, if_true]
      rw [this]
      simp [List.replicate_succ, Nat.add_comm, Nat.add_left_comm]

/-- **no self-window ⇒ the empty plan** -/
theorem selfshape_plan_empty (shape : List Nat) (subsizes : List (Option (List Nat)))
    (hlen : shape.length = subsizes.length) (hw : selfWin shape subsizes = false) :
    calcReshapeArgs shape shape subsizes = .ok ([], [], []) := by
  have h := mainLoop_selfshape shape subsizes shape subsizes [] [] (shape.length + shape.length) 0 []
    [] [] [] [] false false rfl rfl rfl hlen.symm hw (by omega)
  simp only [List.length_nil] at h
  unfold calcReshapeArgs
  have : ({} : RState) = ⟨0, 0, 0, [], [], [], [], [], false, false⟩ := rfl
  rw [this, h]
  simp [unfusePhase, pure, Except.pure]

/-! ### a self-window makes the planner unfuse -/

theorem mainLoop_us_mono (shape newshape : List Nat) (subsizes : List (Option (List Nat))) :
    ∀ (fuel : Nat) (st st' : RState), st.unfuseSizes ≠ [] →
      mainLoop shape newshape subsizes fuel st = .ok st' → st'.unfuseSizes ≠ [] := by
  intro fuel
  induction fuel with
  | zero =>
    intro st st' h0 h
    simp only [mainLoop] at h
    split at h
    · cases h
    · simp only [pure, Except.pure] at h; injection h with h; subst h; exact h0
  | succ fuel ih =>
    intro st st' h0 h
    simp only [mainLoop] at h
    split at h
    · split at h
      · cases h
      · split at h
        · split at h
          · cases h
          · exact ih _ _ (by simp) h
        · split at h
          · (refine ih _ _ ?_ h; exact h0)
          · split at h
            · (refine ih _ _ ?_ h; exact h0)
            · split at h
              · (refine ih _ _ ?_ h; exact h0)
              · split at h
                · split at h
                  · cases h
                  · split at h
                    · cases h
                    · (refine ih _ _ ?_ h; exact h0)
                · cases h
    · simp only [pure, Except.pure] at h; injection h with h; subst h; exact h0

theorem mainLoop_selfwin (shape : List Nat) (subsizes : List (Option (List Nat))) :
    ∀ (rest : List Nat) (rs : List (Option (List Nat))) (pre : List Nat) (ps : List (Option (List Nat)))
      (fuel k : Nat) (term : List Lbl) (sq us fs ex : List Nat) (a1 a2 : Bool) (st' : RState),
      shape = pre ++ rest → subsizes = ps ++ rs → ps.length = pre.length →
      selfWin rest rs = true →
      mainLoop shape shape subsizes fuel ⟨pre.length, pre.length, k, term, sq, us, fs, ex, a1, a2⟩ = .ok st' →
      st'.unfuseSizes ≠ [] ∨ rest.length > fuel := by
  intro rest
  induction rest with
  | nil => intro rs pre ps fuel k term sq us fs ex a1 a2 st' _ _ _ hw _; simp [selfWin] at hw
  | cons d rest ih =>
    intro rs pre ps fuel k term sq us fs ex a1 a2 st' hs hss hpl hw h
    cases fuel with
    | zero => right; simp
    | succ f =>
    cases rs with
    | nil => simp [selfWin] at hw
    | cons sub rs =>
      have g1 : shape[pre.length]? = some d := by rw [hs]; exact getElem?_mid _ _ _
      have g3 : subsizes[pre.length]? = some sub := by rw [hss, ← hpl]; exact getElem?_mid _ _ _
      have hdrop : shape.drop pre.length = d :: rest := by rw [hs, List.drop_left' rfl]
      simp only [mainLoop, g1, g3] at h
      cases hm : unfuseMatch shape pre.length sub with
      | some subs =>
        rw [hm] at h
        simp only [] at h
        split at h
        · cases h
        · left
          exact mainLoop_us_mono _ _ _ _ _ _ (by simp) h
      | none =>
        rw [hm] at h
        simp only [Nat.beq_refl, if_true] at h
        have hw' : selfWin rest rs = true := by
          cases sub with
          | none => simpa [selfWin] using hw
          | some subs =>
            simp only [selfWin, Bool.or_eq_true] at hw
            rcases hw with hw | hw
            · simp only [unfuseMatch, hdrop, hw, if_true] at hm; cases hm
            · exact hw
        have := ih rs (pre ++ [d]) (ps ++ [sub]) f (k + 1) (term ++ [Lbl.o]) sq us fs ex a1 a2 st'
          (by simp [hs]) (by simp [hss]) (by simp [hpl]) hw'
          (by simpa [List.length_append] using h)
        rcases this with h1 | h1
        · exact Or.inl h1
        · right; simp; omega

theorem unfusePhase_len : ∀ (us : List Nat) (k : Nat) (term : List Lbl) (axs : List Nat) (r : List Lbl × List Nat),
    unfusePhase us k term axs = .ok r → r.2.length = axs.length + us.length := by
  intro us
  induction us with
  | nil => intro k term axs r h; simp only [unfusePhase, pure, Except.pure] at h; injection h with h; subst h; simp
  | cons s us ih =>
    intro k term axs r h
    simp only [unfusePhase] at h
    split at h
    · cases h
    · rw [ih _ _ _ _ h]; simp; omega

/-- **a self-window ⇒ the plan contains an unfuse step** (or the planner raises) -/
theorem selfshape_plan_unfuses (shape : List Nat) (subsizes : List (Option (List Nat)))
    (hw : selfWin shape subsizes = true) (t : List Nat × List (List (List Nat)) × List Nat)
    (h : calcReshapeArgs shape shape subsizes = .ok t) : t.1 ≠ [] := by
  unfold calcReshapeArgs at h
  split at h
  · cases h
  · rename_i st hst
    have e0 : ({} : RState) = ⟨0, 0, 0, [], [], [], [], [], false, false⟩ := rfl
    rw [e0] at hst
    have hus := mainLoop_selfwin shape subsizes shape subsizes [] [] _ 0 [] [] [] [] [] false false st rfl rfl
      rfl hw hst
    have hus' : st.unfuseSizes ≠ [] := by
      rcases hus with h1 | h1
      · exact h1
      · omega
    simp only [] at h
    split at h
    · cases h
    · rename_i term2 axsU hu
      have hl := unfusePhase_len _ _ _ _ _ hu
      simp only [List.length_nil, Nat.zero_add] at hl
      split at h
      · cases h
      · split at h
        · cases h
        · simp only [pure, Except.pure] at h
          injection h with h
          rw [← h]
          intro hc
          simp only at hc
          rw [hc] at hl
          exact hus' (List.length_eq_zero_iff.mp hl.symm)

end SymmModel.Reshape5
