/-
  SymmModel.Proofs.FuseCommuteI5 — mirror image of the layout lemmas of FuseCommuteI4: the group of
  free legs belongs to the RIGHT operand, so its legs in the result are offset by the number of the
  left operand's free legs.  Namespace `SymmModel.TdotP`.
-/
import SymmModel.Proofs.FuseCommuteI4

namespace SymmModel
namespace TdotP
open AssocP RoutesP
variable {R : Type}

section Layout
variable {X : Arr R} {g xa : List Nat}

theorem layout_core {α : Type} (d : α) (h : OneOk X g) (hxaF : ∀ x ∈ xa, x < X.ndim ∧ x ∉ g)
    {V' V : List α} (hV' : V'.length = FuseP.ndimM X [g]) (hV : V.length = X.ndim)
    (hf : permuted V' (freeAxes (FuseP.ndimM X [g]) [(FuseP.giM X [g]).position])
      = permuted V (freeAxes X.ndim g)) :
    permuted (permuted V' (freeAxes (FuseP.ndimM X [g]) (xa.map (shiftAxes X g))))
        (freeAxes (freeAxes (FuseP.ndimM X [g]) (xa.map (shiftAxes X g))).length
          [(freeAxes (FuseP.ndimM X [g]) (xa.map (shiftAxes X g))).idxOf (FuseP.giM X [g]).position])
      = permuted (permuted V (freeAxes X.ndim xa))
          (freeAxes (freeAxes X.ndim xa).length (g.map (fun x => (freeAxes X.ndim xa).idxOf x))) := by
  have := layout_left d h hxaF ([] : List α) hV' hV hf
  simp only [List.append_nil, List.length_nil, Nat.add_zero] at this
  exact this

/-- the two address layouts coincide outside the fused leg — group of the RIGHT operand -/
theorem layout_right {α : Type} (d : α) (h : OneOk X g) (hxaF : ∀ x ∈ xa, x < X.ndim ∧ x ∉ g)
    {V' V : List α} (Ls : List α) (hV' : V'.length = FuseP.ndimM X [g]) (hV : V.length = X.ndim)
    (hf : permuted V' (freeAxes (FuseP.ndimM X [g]) [(FuseP.giM X [g]).position])
      = permuted V (freeAxes X.ndim g)) :
    permuted (Ls ++ permuted V' (freeAxes (FuseP.ndimM X [g]) (xa.map (shiftAxes X g))))
        (freeAxes (Ls.length + (freeAxes (FuseP.ndimM X [g]) (xa.map (shiftAxes X g))).length)
          [Ls.length
            + (freeAxes (FuseP.ndimM X [g]) (xa.map (shiftAxes X g))).idxOf (FuseP.giM X [g]).position])
      = permuted (Ls ++ permuted V (freeAxes X.ndim xa))
          (freeAxes (Ls.length + (freeAxes X.ndim xa).length)
            (g.map (fun x => Ls.length + (freeAxes X.ndim xa).idxOf x))) := by
  have e1 : ([Ls.length
      + (freeAxes (FuseP.ndimM X [g]) (xa.map (shiftAxes X g))).idxOf (FuseP.giM X [g]).position] : List Nat)
      = [(freeAxes (FuseP.ndimM X [g]) (xa.map (shiftAxes X g))).idxOf (FuseP.giM X [g]).position].map
          (Ls.length + ·) := rfl
  have e2 : g.map (fun x => Ls.length + (freeAxes X.ndim xa).idxOf x)
      = (g.map (fun x => (freeAxes X.ndim xa).idxOf x)).map (Ls.length + ·) := by
    rw [List.map_map]; rfl
  rw [e1, e2, AssocP.freeAxes_shift, AssocP.freeAxes_shift, AssocP.permuted_append_id_shift,
    AssocP.permuted_append_id_shift,
    layout_core d h hxaF hV' hV hf]

theorem layout_right_pos {α : Type} (d : α) (h : OneOk X g) (hxaF : ∀ x ∈ xa, x < X.ndim ∧ x ∉ g)
    {V' : List α} (Ls : List α) (hV' : V'.length = FuseP.ndimM X [g]) :
    (Ls ++ permuted V' (freeAxes (FuseP.ndimM X [g]) (xa.map (shiftAxes X g)))).getD
        (Ls.length
          + (freeAxes (FuseP.ndimM X [g]) (xa.map (shiftAxes X g))).idxOf (FuseP.giM X [g]).position) d
      = V'.getD (FuseP.giM X [g]).position d := by
  have := layout_left_pos d h hxaF ([] : List α) hV'
  rw [List.append_nil] at this
  rw [← this, List.getD_eq_getElem?_getD, List.getD_eq_getElem?_getD,
    List.getElem?_append_right (by omega), Nat.add_sub_cancel_left]

/-- the legs of the plain result that correspond to a group of the RIGHT operand -/
theorem bondPos_map_idxOf_off {C : Arr R} (off : Nat) (h : OneOk X g) (hdisj : ∀ x ∈ g, x ∉ xa)
    (hC : off + (freeAxes X.ndim xa).length ≤ C.ndim) :
    ∃ _ : OneOk C (g.map (fun x => off + (freeAxes X.ndim xa).idxOf x)),
      (FuseP.giM C [g.map (fun x => off + (freeAxes X.ndim xa).idxOf x)]).position
        = off + (freeAxes X.ndim xa).idxOf (FuseP.giM X [g]).position := by
  have hmem : ∀ x ∈ g, x ∈ freeAxes X.ndim xa := fun x hx => mem_freeAxes.mpr ⟨h.lt x hx, hdisj x hx⟩
  have h' : OneOk C (g.map (fun x => off + (freeAxes X.ndim xa).idxOf x)) := by
    refine ⟨by simpa using h.ne, ?_, ?_⟩
    · exact h.nd.map_on (fun x hx y hy e =>
        idxOf_inj_of_mem (hmem x hx) (hmem y hy) (Nat.add_left_cancel e))
    · intro i hi
      obtain ⟨x, hx, rfl⟩ := List.mem_map.mp hi
      have := List.idxOf_lt_length_of_mem (hmem x hx)
      omega
  refine ⟨h', ?_⟩
  have m1 := one_pos_mem h'
  have m2 := one_pos_le h'
  have hpg := one_pos_mem h
  obtain ⟨y, hy, e⟩ := List.mem_map.mp m1
  have hle : (FuseP.giM X [g]).position ≤ y := one_pos_le h y hy
  have a1 : (FuseP.giM C [g.map (fun x => off + (freeAxes X.ndim xa).idxOf x)]).position
      ≤ off + (freeAxes X.ndim xa).idxOf (FuseP.giM X [g]).position :=
    m2 _ (List.mem_map.mpr ⟨_, hpg, rfl⟩)
  have a2 : off + (freeAxes X.ndim xa).idxOf (FuseP.giM X [g]).position
      ≤ (FuseP.giM C [g.map (fun x => off + (freeAxes X.ndim xa).idxOf x)]).position := by
    rw [← e]
    rcases Nat.lt_or_eq_of_le hle with hlt | heq
    · have := idxOf_lt_of_lt (freeAxes_pairwise _ _) (hmem _ hpg) (hmem y hy) hlt
      omega
    · rw [heq]
  omega

end Layout

end TdotP
end SymmModel
