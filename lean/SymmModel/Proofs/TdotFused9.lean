/-
  SymmModel.Proofs.TdotFused9 — the fused strategy on operands of any kind whose pending signs are
  synced (`phases = []`), and `tensordot_fermionic` in fused / auto mode.
  Namespace `SymmModel.TdotP`.
-/
import SymmModel.Proofs.TdotFused8
import SymmModel.Proofs.AssocFrame

namespace SymmModel
namespace TdotP
variable {R : Type}

/-- a valid array with synced signs, with kind flag and labels erased, is a valid abelian array -/
theorem ab_validB {x : Arr R} (hv : ValidP.Valid x) (hp : x.phases = []) : (ab x).validB = true := by
  refine (ValidP.validB_iff _).mpr (ValidP.Valid.of ⟨hv.idx, hv.chg, hv.nodup, hv.blk⟩ ?_)
  unfold ValidP.SignsOk
  show (if false = true then _ else _)
  simp only [Bool.false_eq_true, if_false]
  exact ⟨hp, rfl⟩

/-- **value-view agreement** of a contraction result `c` with the blockwise result `bw`: same
    symmetry, charge, kind, labels, pending signs and rank; `c` stores every sector of `bw`; every
    stored entry of `c` is `bw`'s element at that address (so extra blocks are zero). -/
structure SameView [Zero R] [Neg R] (c bw : Arr R) : Prop where
  sym : c.sym = bw.sym
  fermi : c.fermi = bw.fermi
  charge : c.charge = bw.charge
  phases : c.phases = bw.phases
  oddpos : c.oddpos = bw.oddpos
  rank : c.indices.length = bw.indices.length
  sectors : ∀ s ∈ bw.sectors, s ∈ c.sectors
  elem : ∀ K V, alookup c.blocks K = some V → ∀ J, inBox V.shape J = true → c.elem K J = bw.elem K J

theorem SameView.refl [Zero R] [Neg R] (c : Arr R) : SameView c c :=
  ⟨rfl, rfl, rfl, rfl, rfl, rfl, fun _ h => h, fun _ _ _ _ _ => rfl⟩

/-- **fused = blockwise for operands of any kind with synced signs** (left, contracted and right
    group non-empty, at least one aligned block) -/
theorem viaFused_synced [AddCommMonoid R] [Mul R] [Neg R]
    (hz1 : ∀ x : R, 0 * x = 0) (hz2 : ∀ x : R, x * 0 = 0) (X Y : Arr R) (xa xb : List Nat)
    (hvX : ValidP.Valid X) (hvY : ValidP.Valid Y) (hpX : X.phases = []) (hpY : Y.phases = [])
    (hsym : X.sym = Y.sym) (hc : ValidP.contractibleB X Y xa xb = true)
    (hnA : xa.Nodup) (hnB : xb.Nodup) (hA : ∀ x ∈ xa, x < X.ndim) (hB : ∀ x ∈ xb, x < Y.ndim)
    (hneK : xa ≠ []) (hneL : freeAxes X.ndim xa ≠ []) (hneR : freeAxes Y.ndim xb ≠ [])
    (hbl : ((dropMisaligned X Y xa xb).1.blocks.isEmpty || (dropMisaligned X Y xa xb).2.blocks.isEmpty) = false) :
    ∃ c, tensordotViaFused X Y (freeAxes X.ndim xa) xa xb (freeAxes Y.ndim xb) = .ok c
      ∧ SameView c (tensordotBlockwise X Y (freeAxes X.ndim xa) xa xb (freeAxes Y.ndim xb))
      ∧ c.sectors.Nodup := by
  obtain ⟨c0, h0, hvc, f1, f2, f3, f4, f5, hrank, hsec, hval⟩ :=
    viaFused_general hz1 hz2 (ab X) (ab Y) xa xb (ab_validB hvX hpX) (ab_validB hvY hpY) rfl rfl hsym hc
      hnA hnB hA hB hneK hneL hneR hbl
  have e := tensordotViaFused_ab X Y (freeAxes X.ndim xa) xa xb (freeAxes Y.ndim xb)
  have nX : (ab X).ndim = X.ndim := rfl
  have nY : (ab Y).ndim = Y.ndim := rfl
  rw [nX, nY] at h0 hrank hsec hval
  rw [h0] at e
  cases hc' : tensordotViaFused X Y (freeAxes X.ndim xa) xa xb (freeAxes Y.ndim xb) with
  | error err => rw [hc'] at e; cases e
  | ok c =>
    rw [hc'] at e
    simp only [Except.map, Except.ok.injEq] at e
    subst e
    have hfields := tensordotViaFused_fields hc'
    refine ⟨c, rfl, ⟨f1, hfields.1, f3, f4, hfields.2, hrank, hsec, hval⟩, ?_⟩
    exact allDistinct_iff_nodup.mp (Arr.allDistinct_of_validB (a := ab c) hvc)

/-- when no sector aligns both strategies give a block-less result: the value views agree
    (no hypothesis on the groups) -/
theorem viaFused_empty_sameView [Zero R] [Add R] [Mul R] [Neg R] (X Y : Arr R) (xa xb : List Nat)
    (hbl : ((dropMisaligned X Y xa xb).1.blocks.isEmpty || (dropMisaligned X Y xa xb).2.blocks.isEmpty) = true) :
    ∃ c, tensordotViaFused X Y (freeAxes X.ndim xa) xa xb (freeAxes Y.ndim xb) = .ok c
      ∧ SameView c (tensordotBlockwise X Y (freeAxes X.ndim xa) xa xb (freeAxes Y.ndim xb))
      ∧ c.sectors.Nodup := by
  obtain ⟨h1, h2, _⟩ := viaFused_empty X Y (freeAxes X.ndim xa) xa xb (freeAxes Y.ndim xb) hbl
  obtain ⟨n1, n2⟩ := dropMisaligned_ndim X Y xa xb
  refine ⟨_, h1, ⟨rfl, rfl, rfl, rfl, rfl, ?_, ?_, ?_⟩, List.nodup_nil⟩
  · show (without (dropMisaligned X Y xa xb).1.indices xa ++ without (dropMisaligned X Y xa xb).2.indices xb).length = _
    rw [tensordotBlockwise_rank, List.length_append, without_length, without_length]
    show (freeAxes (dropMisaligned X Y xa xb).1.ndim xa).length + (freeAxes (dropMisaligned X Y xa xb).2.ndim xb).length = _
    rw [n1, n2]
  · intro s hs
    rw [Arr.sectors, h2] at hs
    simp at hs
  · intro K V hl
    simp [alookup] at hl

/-- **fused = blockwise for operands of any kind with synced signs**, aligned blocks or not -/
theorem viaFused_synced_all [AddCommMonoid R] [Mul R] [Neg R]
    (hz1 : ∀ x : R, 0 * x = 0) (hz2 : ∀ x : R, x * 0 = 0) (X Y : Arr R) (xa xb : List Nat)
    (hvX : ValidP.Valid X) (hvY : ValidP.Valid Y) (hpX : X.phases = []) (hpY : Y.phases = [])
    (hsym : X.sym = Y.sym) (hc : ValidP.contractibleB X Y xa xb = true)
    (hnA : xa.Nodup) (hnB : xb.Nodup) (hA : ∀ x ∈ xa, x < X.ndim) (hB : ∀ x ∈ xb, x < Y.ndim)
    (hneK : xa ≠ []) (hneL : freeAxes X.ndim xa ≠ []) (hneR : freeAxes Y.ndim xb ≠ []) :
    ∃ c, tensordotViaFused X Y (freeAxes X.ndim xa) xa xb (freeAxes Y.ndim xb) = .ok c
      ∧ SameView c (tensordotBlockwise X Y (freeAxes X.ndim xa) xa xb (freeAxes Y.ndim xb))
      ∧ c.sectors.Nodup := by
  cases hbl : ((dropMisaligned X Y xa xb).1.blocks.isEmpty || (dropMisaligned X Y xa xb).2.blocks.isEmpty) with
  | true => exact viaFused_empty_sameView X Y xa xb hbl
  | false => exact viaFused_synced hz1 hz2 X Y xa xb hvX hvY hpX hpY hsym hc hnA hnB hA hB hneK hneL hneR hbl

/-- `contractibleB` from the lists of matched legs -/
theorem contractibleB_of_lists {a b : Arr R} {xa xb : List Nat} (hlen : xa.length = xb.length)
    (hA : ∀ x ∈ xa, x < a.ndim) (hB : ∀ x ∈ xb, x < b.ndim)
    (hcm : (permuted a.indices xa).map Index.cm = (permuted b.indices xb).map Index.cm)
    (hd : (permuted b.indices xb).map Index.dual = (permuted a.indices xa).map (fun ix => !ix.dual)) :
    ValidP.contractibleB a b xa xb = true := by
  unfold ValidP.contractibleB
  simp only [Bool.and_eq_true, beq_iff_eq, List.all_eq_true, bne_iff_ne, ne_eq]
  refine ⟨hlen, ?_⟩
  intro p hp
  obtain ⟨t, ht1, ht2⟩ := mem_zip_getElem? hp
  have e1 := permuted_getElem?_of a.indices (fun x hx => hA x hx) ht1
  have e2 := permuted_getElem?_of b.indices (fun x hx => hB x hx) ht2
  have hi : p.1 < a.indices.length := hA _ (List.mem_of_getElem? ht1)
  have hj : p.2 < b.indices.length := hB _ (List.mem_of_getElem? ht2)
  have c1 := congrArg (fun l => l[t]?) hcm
  have c2 := congrArg (fun l => l[t]?) hd
  simp only [List.getElem?_map, e1, e2, List.getElem?_eq_getElem hi, List.getElem?_eq_getElem hj,
    Option.map_some, Option.some.injEq] at c1 c2
  simp only [List.getD_eq_getElem?_getD, List.getElem?_eq_getElem hi, List.getElem?_eq_getElem hj,
    Option.getD_some]
  refine ⟨c1, ?_⟩
  rw [c2]; cases a.indices[p.1].dual <;> simp

/-! ### `tensordot_fermionic` in fused / auto mode -/

open GradedP RoutesP in
/-- the prepared operands of `tensordot_fermionic` are valid, synced and contractible along the
    last `k` axes of the left and the first `k` axes of the right one -/
theorem prepared_ok [AddMonoid R] [Mul R] [Neg R] [SignRing R] (a b : Arr R) (xa xb : List Nat)
    (h : Adm a b xa xb) :
    let X := (ValidP.tdF34 a b xa xb).1.phaseSync
    let Y := (ValidP.tdF34 a b xa xb).2.phaseSync
    ValidP.Valid X ∧ ValidP.Valid Y ∧ X.phases = [] ∧ Y.phases = [] ∧ X.sym = Y.sym
    ∧ X.ndim = a.ndim ∧ Y.ndim = b.ndim
    ∧ ValidP.contractibleB X Y ((List.range a.ndim).drop (a.ndim - xa.length)) (List.range xa.length) = true := by
  obtain ⟨ha, hb, hfa, hfb, hsym, hc, hnA, hnB, hA, hB⟩ := h
  have hlen := contractible_len hc
  have props := ValidP.tdF34_props a b xa xb ((ValidP.validB_iff a).mp ha) ((ValidP.validB_iff b).mp hb)
    hfa hfb hnA hnB hA hB
  have hXi : (ValidP.tdF34 a b xa xb).1.phaseSync.indices = permuted a.indices (freeAxes a.ndim xa ++ xa) := by
    show (ValidP.tdF34 a b xa xb).1.indices = _
    rw [props.ia, without_range]
  have hYi : (ValidP.tdF34 a b xa xb).2.phaseSync.indices = permuted b.indices (xb ++ freeAxes b.ndim xb) := by
    show (ValidP.tdF34 a b xa xb).2.indices = _
    rw [props.ib, without_range]
  have hXn : (ValidP.tdF34 a b xa xb).1.phaseSync.ndim = a.ndim := by
    show (ValidP.tdF34 a b xa xb).1.phaseSync.indices.length = _
    rw [hXi]; exact left_lengths hnA hA a.indices rfl
  have hYn : (ValidP.tdF34 a b xa xb).2.phaseSync.ndim = b.ndim := by
    show (ValidP.tdF34 a b xa xb).2.phaseSync.indices.length = _
    rw [hYi]; exact right_lengths hnB hB b.indices rfl
  have hk : xa.length ≤ a.ndim := by have := freeAxes_length hnA hA; omega
  have hk' : xb.length ≤ b.ndim := by have := freeAxes_length hnB hB; omega
  refine ⟨ValidP.phaseSync_valid _ props.va, ValidP.phaseSync_valid _ props.vb, rfl, rfl, ?_, hXn, hYn, ?_⟩
  · show (ValidP.tdF34 a b xa xb).1.sym = (ValidP.tdF34 a b xa xb).2.sym
    rw [props.sa, props.sb]; exact hsym
  · apply contractibleB_of_lists (by simp; omega)
      (by intro i hi; rw [hXn]; exact List.mem_range.mp (List.mem_of_mem_drop hi))
      (by intro i hi; rw [hYn]; have := List.mem_range.mp hi; omega)
    · rw [hXi, hYi, left_newA hnA hA a.indices rfl, hlen, right_newB hnB hB b.indices rfl]
      exact (cm_eq_of_contractibleB hc hA hB).2
    · rw [hXi, hYi, left_newA hnA hA a.indices rfl, hlen, right_newB hnB hB b.indices rfl]
      have hd := ValidP.contractible_opposite hc
      unfold ValidP.oppositeDualsB at hd
      simp only [Bool.and_eq_true, beq_iff_eq, List.all_eq_true] at hd
      exact ValidP.opposite_duals_permuted a.indices b.indices xa xb hlen hA hB hd.2

open GradedP RoutesP in
/-- **structure of `tensordot_fermionic` in fused / auto mode**: the label sort followed by
    attaching labels and label sign to a core `cm` that has the value view of the blockwise core
    `coreT` (non-empty contraction, each operand keeps at least one free axis) -/
theorem tensordotF_eq_core_mode [AddCommMonoid R] [Mul R] [Neg R] [SignRing R]
    (hz1 : ∀ x : R, 0 * x = 0) (hz2 : ∀ x : R, x * 0 = 0) (a b : Arr R) (xa xb : List Nat)
    (h : Adm a b xa xb) (hne : xa ≠ []) (hL : xa.length < a.ndim) (hR : xb.length < b.ndim)
    (mode : TdotMode) (hmode : mode = .fused ∨ mode = .auto) :
    ∃ cm, SameView cm (coreT a b xa xb) ∧ cm.sectors.Nodup
      ∧ a.tensordotF b (.pair (xa.map Int.ofNat) (xb.map Int.ofNat)) mode
          = (OddposP.mergeOddpos a.parity a.oddpos b.oddpos).map (finish cm) := by
  obtain ⟨vX, vY, pX, pY, hsymXY, hXn, hYn, hcXY⟩ := prepared_ok a b xa xb h
  obtain ⟨ha, hb, hfa, hfb, hsym, hc, hnA, hnB, hA, hB⟩ := h
  have hlen := contractible_len hc
  have props := ValidP.tdF34_props a b xa xb ((ValidP.validB_iff a).mp ha) ((ValidP.validB_iff b).mp hb)
    hfa hfb hnA hnB hA hB
  rw [ValidP.tensordotF_eq a b xa xb mode hlen hA hB]
  generalize hX : (ValidP.tdF34 a b xa xb).1.phaseSync = X at vX pX hsymXY hXn hcXY
  generalize hY : (ValidP.tdF34 a b xa xb).2.phaseSync = Y at vY pY hsymXY hYn hcXY
  have hnA' : ((List.range a.ndim).drop (a.ndim - xa.length)).Nodup :=
    (List.drop_sublist _ _).nodup List.nodup_range
  have hA' : ∀ i ∈ (List.range a.ndim).drop (a.ndim - xa.length), i < X.ndim := by
    intro i hi; rw [hXn]; exact List.mem_range.mp (List.mem_of_mem_drop hi)
  have hB' : ∀ i ∈ List.range xa.length, i < Y.ndim := by
    intro i hi; rw [hYn]; have := List.mem_range.mp hi; omega
  have hneK : (List.range a.ndim).drop (a.ndim - xa.length) ≠ [] := by
    intro e
    have := congrArg List.length e
    have hxl := List.length_pos_iff.mpr hne
    simp at this; omega
  have hneL : freeAxes X.ndim ((List.range a.ndim).drop (a.ndim - xa.length)) ≠ [] := by
    rw [hXn, freeAxes_drop a.ndim (a.ndim - xa.length) (by omega)]
    intro e
    have := congrArg List.length e
    simp at this; omega
  have hneR : freeAxes Y.ndim (List.range xa.length) ≠ [] := by
    intro e
    have := freeAxes_length (n := Y.ndim) List.nodup_range hB'
    rw [e, hYn] at this
    simp at this; omega
  obtain ⟨cm, hcm, hsv, hnd⟩ := viaFused_synced_all hz1 hz2 X Y _ _ vX vY pX pY hsymXY hcXY hnA'
    List.nodup_range hA' hB' hneK hneL hneR
  have hparse := ValidP.parseAxes_nat X.ndim Y.ndim ((List.range a.ndim).drop (a.ndim - xa.length))
    (List.range xa.length) (by simp; omega) hA' hB'
  have hcall : tensordotA X Y (.pair (((List.range a.ndim).drop (a.ndim - xa.length)).map Int.ofNat)
      ((List.range xa.length).map Int.ofNat)) mode = .ok cm := by
    rcases hmode with rfl | rfl
    · rw [tensordotA_fused' X Y _ _ _ hparse]; exact hcm
    · rw [tensordotA_auto_fused X Y _ _ _ hparse hneK]; exact hcm
  have hcT : coreT a b xa xb = tensordotBlockwise X Y
      (freeAxes X.ndim ((List.range a.ndim).drop (a.ndim - xa.length)))
      ((List.range a.ndim).drop (a.ndim - xa.length)) (List.range xa.length)
      (freeAxes Y.ndim (List.range xa.length)) := by
    unfold coreT; simp only [hX, hY]
  refine ⟨cm, by rw [hcT]; exact hsv, ?_, ?_⟩
  · exact hnd
  · rw [hcall]
    simp only [bind, Except.bind]
    rw [OddposP.resolveCombinedOddpos_eq]
    have hXpar : X.parity = a.parity := by
      subst hX
      show Sym.parity (ValidP.tdF34 a b xa xb).1.sym (ValidP.tdF34 a b xa xb).1.charge = _
      rw [props.sa, props.ca]; rfl
    have hXodd : X.oddpos = a.oddpos := by subst hX; exact props.oa
    have hYodd : Y.oddpos = b.oddpos := by subst hY; exact props.ob
    rw [hXpar, hXodd, hYodd]
    rfl

theorem finish_blocks (T : Arr R) (r : List (Int × Bool) × Int) :
    (RoutesP.finish T r).blocks = T.blocks := by
  unfold RoutesP.finish
  split <;> rfl

open GradedP RoutesP in
/-- **tensordotF_modes_agree** (non-empty contraction, each operand keeps a free axis).  For
    admissible fermionic operands, `mode = fused` and `mode = auto` succeed exactly when
    `mode = blockwise` does (the label sort is the same), and then the result `rm` and the
    blockwise result `rb` have the same labels, charge, symmetry, kind and rank, `rm` stores every
    sector of `rb`, and every stored entry of `rm` — pending sign included — equals `rb`'s
    element at that address (extra blocks are zero). -/
theorem tensordotF_modes_agree' [AddCommMonoid R] [Mul R] [Neg R] [SignRing R]
    (hz1 : ∀ x : R, 0 * x = 0) (hz2 : ∀ x : R, x * 0 = 0) (a b : Arr R) (xa xb : List Nat)
    (h : Adm a b xa xb) (hne : xa ≠ []) (hL : xa.length < a.ndim) (hR : xb.length < b.ndim)
    (mode : TdotMode) (hmode : mode = .fused ∨ mode = .auto) :
    (∀ e, OddposP.mergeOddpos a.parity a.oddpos b.oddpos = .error e →
        a.tensordotF b (.pair (xa.map Int.ofNat) (xb.map Int.ofNat)) mode = .error e
        ∧ a.tensordotF b (.pair (xa.map Int.ofNat) (xb.map Int.ofNat)) .blockwise = .error e)
    ∧ (∀ r, OddposP.mergeOddpos a.parity a.oddpos b.oddpos = .ok r →
        ∃ rm rb, a.tensordotF b (.pair (xa.map Int.ofNat) (xb.map Int.ofNat)) mode = .ok rm
          ∧ a.tensordotF b (.pair (xa.map Int.ofNat) (xb.map Int.ofNat)) .blockwise = .ok rb
          ∧ rm.oddpos = rb.oddpos ∧ rm.charge = rb.charge ∧ rm.sym = rb.sym ∧ rm.fermi = rb.fermi
          ∧ rm.indices.length = rb.indices.length
          ∧ (∀ s ∈ rb.sectors, s ∈ rm.sectors)
          ∧ (∀ K V, alookup rm.blocks K = some V → ∀ J, inBox V.shape J = true →
              rm.elem K J = rb.elem K J)) := by
  obtain ⟨cm, hsv, hnd, hcall⟩ := tensordotF_eq_core_mode hz1 hz2 a b xa xb h hne hL hR mode hmode
  have hbw := tensordotF_eq_core a b xa xb h
  have F := coreT_frame a b xa xb h
  rw [hcall, hbw]
  constructor
  · intro e he; rw [he]; exact ⟨rfl, rfl⟩
  · intro r hr
    rw [hr]
    refine ⟨finish cm r, finish (coreT a b xa xb) r, rfl, rfl, ?_⟩
    obtain ⟨g1, g2, g3, g4, g5, g6⟩ := AssocP.finish_fields cm r
    obtain ⟨k1, k2, k3, k4, k5, k6⟩ := AssocP.finish_fields (coreT a b xa xb) r
    have hSm : Lazy.SignOk cm := ⟨hnd, by rw [hsv.phases, F.phases]; exact Lazy.PhOk.nil⟩
    have hSb : Lazy.SignOk (coreT a b xa xb) := AssocP.coreFrame_signOk F
    refine ⟨by rw [g6, k6], by rw [g1, k1, hsv.charge], by rw [g2, k2, hsv.sym],
      by rw [g3, k3, hsv.fermi], by rw [g4, k4, hsv.rank], ?_, ?_⟩
    · intro s hs; rw [k5] at hs; rw [g5]; exact hsv.sectors s hs
    · intro K V hl J hJ
      rw [finish_blocks] at hl
      rw [AssocP.finish_elem cm r hSm, AssocP.finish_elem _ r hSb, hsv.elem K V hl J hJ]

/-- the agreement at EVERY sector key: if `rm` stores every sector of `rb` and agrees with it on
    its stored entries, then `rm.elem s o = rb.elem s o` whenever `o` lies in the box of `rm`'s block
    for `s` (no condition when `rm` does not store `s`: both elements are `0`) -/
theorem elem_everywhere [Zero R] [Neg R] {rm rb : Arr R}
    (hsec : ∀ s ∈ rb.sectors, s ∈ rm.sectors)
    (hel : ∀ K V, alookup rm.blocks K = some V → ∀ J, inBox V.shape J = true → rm.elem K J = rb.elem K J)
    (s : Sector) (o : List Nat) (hbox : ∀ V, alookup rm.blocks s = some V → inBox V.shape o = true) :
    rm.elem s o = rb.elem s o := by
  cases hl : alookup rm.blocks s with
  | some V => exact hel s V hl o (hbox V hl)
  | none =>
    have hns : s ∉ rm.sectors := alookup_eq_none_iff.mp hl
    rw [Arr.elem_of_not_mem hns, Arr.elem_of_not_mem (fun h => hns (hsec s h))]

end TdotP
end SymmModel
