/-
  SymmModel.Proofs.Reshape3c — the unbounded planner theorem of C07, part c: the inner loops of the
  squeeze phase on flat label lists (`bump`, `absorb`, `skipS`, `markLeft`, skipping non-"s" labels).
-/
import SymmModel.Proofs.Reshape3b
namespace SymmModel.Reshape3
open SymmModel SymmModel.Reshape SymmModel.C07

/-- `fs'` is `fs` with `n` added at key `k` -/
structure Bumped (fs fs' : List Nat) (k n : Nat) : Prop where
  lt : k < fs.length
  len : fs'.length = fs.length
  at_k : fs'[k]? = fs[k]?.map (· + n)
  other : ∀ k', k' ≠ k → fs'[k']? = fs[k']?

theorem Bumped.zero {fs : List Nat} {k : Nat} (h : k < fs.length) : Bumped fs fs k 0 :=
  ⟨h, rfl, by cases fs[k]? <;> simp, fun _ _ => rfl⟩

theorem Bumped.trans {fs fs1 fs2 : List Nat} {k a b : Nat} (h1 : Bumped fs fs1 k a)
    (h2 : Bumped fs1 fs2 k b) : Bumped fs fs2 k (a + b) where
  lt := h1.lt
  len := h2.len.trans h1.len
  at_k := by
    rw [h2.at_k, h1.at_k]
    cases fs[k]? <;> simp [Nat.add_assoc]
  other := fun k' hk => (h2.other k' hk).trans (h1.other k' hk)

theorem bump_ok : ∀ (fs : List Nat) (k : Nat) (fs' : List Nat), bump fs k = .ok fs' →
    Bumped fs fs' k 1 := by
  intro fs
  induction fs with
  | nil => intro k fs' h; simp [bump, throw, throwThe, MonadExceptOf.throw] at h
  | cons x xs ih =>
    intro k fs' h
    cases k with
    | zero =>
      simp only [bump, pure, Except.pure] at h
      injection h with h; subst h
      exact ⟨by simp, by simp, by simp, fun k' hk => by
        cases k' with
        | zero => exact (hk rfl).elim
        | succ k' => simp⟩
    | succ k =>
      simp only [bump] at h
      split at h
      · rename_i r hr
        simp only [pure, Except.pure] at h
        injection h with h; subst h
        have := ih k r hr
        exact ⟨by simp; exact this.lt, by simp [this.len], by simpa using this.at_k, fun k' hk => by
          cases k' with
          | zero => simp
          | succ k' => simpa using this.other k' (by omega)⟩
      · cases h

theorem set_append_cons {α : Type} (T1 : List α) (a b : α) (T2 : List α) :
    (T1 ++ a :: T2).set T1.length b = T1 ++ b :: T2 := by
  induction T1 with
  | nil => rfl
  | cons x T1 ih => simp [ih]

theorem getElem?_append_cons {α : Type} (T1 : List α) (a : α) (T2 : List α) :
    (T1 ++ a :: T2)[T1.length]? = some a := by
  simp

/-- `absorb`: the block of `m+1` "s" labels starting at `T1.length` becomes `g{gk}` -/
theorem absorb_spec (gk : Nat) : ∀ (m fuel : Nat) (T1 T2 : List Lbl) (fs : List Nat)
    (r : Nat × List Lbl × List Nat),
    (∀ l T2', T2 = l :: T2' → l.isS = false) →
    absorb (some gk) fuel T1.length (T1 ++ List.replicate (m + 1) Lbl.s ++ T2) fs = .ok r →
    ∃ fs', r = (T1.length + (m + 1), T1 ++ List.replicate (m + 1) (Lbl.g gk) ++ T2, fs')
      ∧ Bumped fs fs' gk (m + 1) := by
  intro m
  induction m with
  | zero =>
    intro fuel T1 T2 fs r hT2 h
    cases fuel with
    | zero => simp [absorb, throw, throwThe, MonadExceptOf.throw] at h
    | succ fuel =>
      have e0 : T1 ++ List.replicate (0 + 1) Lbl.s ++ T2 = T1 ++ Lbl.s :: T2 := by simp
      rw [e0] at h
      simp only [absorb, useG, pure, Except.pure, set_append_cons] at h
      split at h
      · cases h
      · rename_i fs1 hb
        have hB := bump_ok _ _ _ hb
        split at h
        · injection h with h
          exact ⟨fs1, by simp [← h], hB⟩
        · rename_i l hl
          have hl' : T2[0]? = some l := by
            have : (T1 ++ Lbl.g gk :: T2)[T1.length + 1]? = T2[0]? := by
              rw [List.getElem?_append_right (by omega)]
              simp
            rw [← this]; exact hl
          cases T2 with
          | nil => simp at hl'
          | cons l0 T2' =>
            simp at hl'; subst hl'
            rw [hT2 _ _ rfl] at h
            simp only [Bool.false_eq_true, if_false] at h
            injection h with h
            exact ⟨fs1, by simp [← h], hB⟩
  | succ m ih =>
    intro fuel T1 T2 fs r hT2 h
    cases fuel with
    | zero => simp [absorb, throw, throwThe, MonadExceptOf.throw] at h
    | succ fuel =>
      have e0 : T1 ++ List.replicate (m + 1 + 1) Lbl.s ++ T2
          = T1 ++ Lbl.s :: (List.replicate (m + 1) Lbl.s ++ T2) := by simp [List.replicate_succ]
      rw [e0] at h
      simp only [absorb, useG, pure, Except.pure, set_append_cons] at h
      split at h
      · cases h
      · rename_i fs1 hb
        have hB := bump_ok _ _ _ hb
        have hnext : (T1 ++ Lbl.g gk :: (List.replicate (m + 1) Lbl.s ++ T2))[T1.length + 1]?
            = some Lbl.s := by
          rw [List.getElem?_append_right (by omega)]
          simp [List.replicate_succ]
        rw [hnext] at h
        simp only [Lbl.isS, if_true] at h
        have e : T1 ++ Lbl.g gk :: (List.replicate (m + 1) Lbl.s ++ T2)
            = (T1 ++ [Lbl.g gk]) ++ List.replicate (m + 1) Lbl.s ++ T2 := by simp
        have e2 : T1.length + 1 = (T1 ++ [Lbl.g gk]).length := by simp
        rw [e, e2] at h
        obtain ⟨fs', hr, hB'⟩ := ih fuel (T1 ++ [Lbl.g gk]) T2 fs1 r hT2 h
        refine ⟨fs', ?_, ?_⟩
        · rw [hr]
          simp [List.replicate_succ]
          omega
        · have := hB.trans hB'
          rwa [Nat.add_comm] at this

/-- `skipS`: entered at an "s" followed by `n` more "s"; returns the first other label -/
theorem skipS_spec : ∀ (n fuel : Nat) (T1 T2 : List Lbl) (r : Nat × Lbl),
    (∀ l T2', T2 = l :: T2' → l.isS = false) →
    skipS (T1 ++ Lbl.s :: List.replicate n Lbl.s ++ T2) fuel T1.length = .ok r →
    ∃ l T2', T2 = l :: T2' ∧ r = (T1.length + 1 + n, l) := by
  intro n
  induction n with
  | zero =>
    intro fuel T1 T2 r hT2 h
    cases fuel with
    | zero => simp [skipS, throw, throwThe, MonadExceptOf.throw] at h
    | succ fuel =>
      have e0 : T1 ++ Lbl.s :: List.replicate 0 Lbl.s ++ T2 = T1 ++ Lbl.s :: T2 := by simp
      rw [e0] at h
      simp only [skipS] at h
      have hnext : (T1 ++ Lbl.s :: T2)[T1.length + 1]? = T2[0]? := by
        rw [List.getElem?_append_right (by omega)]; simp
      rw [hnext] at h
      cases T2 with
      | nil => simp [throw, throwThe, MonadExceptOf.throw] at h
      | cons l T2' =>
        simp only [List.getElem?_cons_zero, hT2 l T2' rfl, Bool.false_eq_true, if_false, pure,
          Except.pure] at h
        injection h with h
        exact ⟨l, T2', rfl, by simp [← h]⟩
  | succ n ih =>
    intro fuel T1 T2 r hT2 h
    cases fuel with
    | zero => simp [skipS, throw, throwThe, MonadExceptOf.throw] at h
    | succ fuel =>
      simp only [skipS] at h
      have hnext : (T1 ++ Lbl.s :: List.replicate (n + 1) Lbl.s ++ T2)[T1.length + 1]? = some Lbl.s := by
        rw [List.append_assoc, List.getElem?_append_right (by omega)]
        simp [List.replicate_succ]
      rw [hnext] at h
      simp only [Lbl.isS, if_true] at h
      have e : T1 ++ Lbl.s :: List.replicate (n + 1) Lbl.s ++ T2
          = (T1 ++ [Lbl.s]) ++ Lbl.s :: List.replicate n Lbl.s ++ T2 := by
        simp [List.replicate_succ]
      have e2 : T1.length + 1 = (T1 ++ [Lbl.s]).length := by simp
      rw [e, e2] at h
      obtain ⟨l, T2', h1, h2⟩ := ih fuel (T1 ++ [Lbl.s]) T2 r hT2 h
      exact ⟨l, T2', h1, by rw [h2]; simp; omega⟩

/-- `markLeft`: the `n` labels from position `T0.length` on become `g{gk}` -/
theorem markLeft_spec (gk : Nat) : ∀ (L T0 T3 : List Lbl) (fs : List Nat) (r : List Lbl × List Nat),
    gk < fs.length →
    markLeft gk L.length T0.length (T0 ++ L ++ T3) fs = .ok r →
    ∃ fs', r = (T0 ++ List.replicate L.length (Lbl.g gk) ++ T3, fs') ∧ Bumped fs fs' gk L.length := by
  intro L
  induction L with
  | nil =>
    intro T0 T3 fs r hk h
    simp only [List.length_nil, markLeft, pure, Except.pure] at h
    injection h with h
    exact ⟨fs, by simp [← h], Bumped.zero hk⟩
  | cons a L ih =>
    intro T0 T3 fs r hk h
    simp only [List.length_cons, markLeft] at h
    split at h
    · cases h
    · rename_i fs1 hb
      have hB := bump_ok _ _ _ hb
      have e : (T0 ++ a :: L ++ T3).set T0.length (Lbl.g gk) = (T0 ++ [Lbl.g gk]) ++ L ++ T3 := by
        rw [List.append_assoc, List.cons_append, set_append_cons]; simp
      have e2 : T0.length + 1 = (T0 ++ [Lbl.g gk]).length := by simp
      rw [e, e2] at h
      obtain ⟨fs', hr, hB'⟩ := ih (T0 ++ [Lbl.g gk]) T3 fs1 r (by rw [hB.len]; exact hk) h
      refine ⟨fs', ?_, ?_⟩
      · rw [hr]; simp [List.replicate_succ]
      · have := hB.trans hB'
        rwa [Nat.add_comm] at this

/-- `sqLoop` steps over labels that are not "s" -/
theorem sqLoop_skip : ∀ (n fuel i : Nat) (term : List Lbl) (fs : List Nat) (g : Option Nat)
    (r : List Lbl × List Nat),
    (∀ p, i ≤ p → p < i + n → ∃ l, term[p]? = some l ∧ l.isS = false) →
    sqLoop fuel i term fs g = .ok r →
    ∃ fuel', fuel' ≤ fuel ∧ sqLoop fuel' (i + n) term fs g = .ok r := by
  intro n
  induction n with
  | zero => intro fuel i term fs g r _ h; exact ⟨fuel, Nat.le_refl _, h⟩
  | succ n ih =>
    intro fuel i term fs g r hp h
    cases fuel with
    | zero => simp [sqLoop, throw, throwThe, MonadExceptOf.throw] at h
    | succ fuel =>
      obtain ⟨l, hl, hls⟩ := hp i (Nat.le_refl _) (by omega)
      simp only [sqLoop, hl, hls, Bool.false_eq_true, if_false] at h
      obtain ⟨f', hf', h'⟩ := ih fuel (i + 1) term fs g r
        (fun p h1 h2 => hp p (by omega) (by omega)) h
      exact ⟨f', by omega, by rw [← h']; congr 1; omega⟩

end SymmModel.Reshape3
