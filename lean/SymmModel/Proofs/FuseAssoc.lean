/-
  SymmModel.Proofs.FuseAssoc — layer L0 for property C05: insertion-ordered dictionaries
  (`alookup`/`ainsert`/`adict`), the stable insertion sort `isort`, the orders `Charge.lt` /
  `sectorLt`, `allDistinct`/`isSortedStrict` as `Nodup`/`Pairwise`.  Core Lean only.
-/
import SymmModel.Proofs.FuseBase
namespace SymmModel
namespace FuseP
set_option linter.unusedSectionVars false

variable {κ β : Type} [BEq κ] [LawfulBEq κ]

/-! ### alookup / ainsert -/

theorem alookup_cons (k : κ) (v : β) (l : List (κ × β)) (k0 : κ) :
    alookup ((k, v) :: l) k0 = if k == k0 then some v else alookup l k0 := rfl

theorem alookup_ainsert (l : List (κ × β)) (k : κ) (v : β) (k' : κ) :
    alookup (ainsert l k v) k' = if k == k' then some v else alookup l k' := by
  induction l with
  | nil => simp [ainsert, alookup]
  | cons p l ih =>
    obtain ⟨a, b⟩ := p
    simp only [ainsert]
    by_cases h : a == k
    · have := eq_of_beq h; subst this
      simp only [BEq.rfl, if_true, alookup_cons]
      split <;> rfl
    · simp only [h, Bool.false_eq_true, if_false, alookup_cons, ih]
      by_cases h2 : a == k'
      · have := eq_of_beq h2; subst this
        have : (k == a) = false := by
          cases hk : k == a
          · rfl
          · exact absurd (by rw [eq_of_beq hk]; exact BEq.rfl) h
        simp [this]
      · simp [h2]

theorem alookup_ainsert_self (l : List (κ × β)) (k : κ) (v : β) :
    alookup (ainsert l k v) k = some v := by simp [alookup_ainsert]

theorem alookup_ainsert_ne (l : List (κ × β)) {k k' : κ} (v : β) (h : k ≠ k') :
    alookup (ainsert l k v) k' = alookup l k' := by
  rw [alookup_ainsert]; simp [h]

theorem alookup_some_mem {l : List (κ × β)} {k : κ} {v : β} (h : alookup l k = some v) :
    (k, v) ∈ l := by
  induction l with
  | nil => simp [alookup] at h
  | cons p l ih =>
    obtain ⟨a, b⟩ := p
    rw [alookup_cons] at h
    split at h
    · rename_i hk; have := eq_of_beq hk; subst this
      simp only [Option.some.injEq] at h; subst h; simp
    · exact List.mem_cons_of_mem _ (ih h)

theorem alookup_isSome_iff {l : List (κ × β)} {k : κ} :
    (alookup l k).isSome = true ↔ k ∈ l.map (·.1) := by
  induction l with
  | nil => simp [alookup]
  | cons p l ih =>
    obtain ⟨a, b⟩ := p
    rw [alookup_cons]
    by_cases hk : a == k
    · have := eq_of_beq hk; subst this; simp
    · have : a ≠ k := fun e => hk (by rw [e]; exact BEq.rfl)
      simp only [hk, Bool.false_eq_true, if_false, ih, List.map_cons, List.mem_cons]
      constructor
      · exact Or.inr
      · rintro (h | h)
        · exact absurd h.symm this
        · exact h

theorem alookup_eq_none_iff {l : List (κ × β)} {k : κ} :
    alookup l k = none ↔ k ∉ l.map (·.1) := by
  rw [← alookup_isSome_iff]; cases alookup l k <;> simp

theorem alookup_of_mem_nodup {l : List (κ × β)} (hnd : (l.map (·.1)).Nodup) {k : κ} {v : β}
    (h : (k, v) ∈ l) : alookup l k = some v := by
  induction l with
  | nil => simp at h
  | cons p l ih =>
    obtain ⟨a, b⟩ := p
    simp only [List.map_cons, List.nodup_cons] at hnd
    rw [alookup_cons]
    rcases List.mem_cons.1 h with h | h
    · simp only [Prod.mk.injEq] at h; obtain ⟨rfl, rfl⟩ := h; simp
    · have : a ≠ k := by
        rintro rfl; exact hnd.1 (List.mem_map.2 ⟨(a, v), h, rfl⟩)
      have : (a == k) = false := by
        cases hk : a == k
        · rfl
        · exact absurd (eq_of_beq hk) this
      simp only [this, Bool.false_eq_true, if_false]
      exact ih hnd.2 h

theorem alookup_append (l1 l2 : List (κ × β)) (k : κ) :
    alookup (l1 ++ l2) k = match alookup l1 k with
      | some v => some v
      | none => alookup l2 k := by
  induction l1 with
  | nil => simp [alookup]
  | cons p l ih =>
    obtain ⟨a, b⟩ := p
    simp only [List.cons_append, alookup_cons]
    split
    · rfl
    · exact ih

theorem alookup_map_val {γ : Type} (f : κ → β → γ) (l : List (κ × β)) (k : κ) :
    alookup (l.map (fun p => (p.1, f p.1 p.2))) k = (alookup l k).map (f k) := by
  induction l with
  | nil => simp [alookup]
  | cons p l ih =>
    obtain ⟨a, b⟩ := p
    simp only [List.map_cons, alookup_cons]
    split
    · rename_i hk; have := eq_of_beq hk; subst this; rfl
    · exact ih

theorem ainsert_keys_of_mem {l : List (κ × β)} {k : κ} (v : β) (h : k ∈ l.map (·.1)) :
    (ainsert l k v).map (·.1) = l.map (·.1) := by
  induction l with
  | nil => simp at h
  | cons p l ih =>
    obtain ⟨a, b⟩ := p
    simp only [ainsert]
    split
    · rfl
    · rename_i hk
      have : a ≠ k := fun e => hk (by rw [e]; exact BEq.rfl)
      simp only [List.map_cons, List.mem_cons] at h
      rcases h with h | h
      · exact absurd h.symm this
      · simp [ih h]

theorem ainsert_of_not_mem {l : List (κ × β)} {k : κ} (v : β) (h : k ∉ l.map (·.1)) :
    ainsert l k v = l ++ [(k, v)] := by
  induction l with
  | nil => rfl
  | cons p l ih =>
    obtain ⟨a, b⟩ := p
    simp only [List.map_cons, List.mem_cons, not_or] at h
    have : (a == k) = false := by
      cases hk : a == k
      · rfl
      · exact absurd (eq_of_beq hk).symm h.1
    simp [ainsert, this, ih h.2]

theorem ainsert_keys_nodup {l : List (κ × β)} (k : κ) (v : β) (h : (l.map (·.1)).Nodup) :
    ((ainsert l k v).map (·.1)).Nodup := by
  by_cases hk : k ∈ l.map (·.1)
  · rw [ainsert_keys_of_mem v hk]; exact h
  · rw [ainsert_of_not_mem v hk, List.map_append, List.nodup_append]
    refine ⟨h, by simp, ?_⟩
    intro a ha b hb
    simp only [List.map_cons, List.map_nil, List.mem_singleton] at hb
    subst hb; rintro rfl; exact hk ha

theorem mem_ainsert {l : List (κ × β)} {k : κ} {v : β} {p : κ × β} (h : p ∈ ainsert l k v) :
    p ∈ l ∨ p = (k, v) := by
  induction l with
  | nil => simp [ainsert] at h; exact Or.inr h
  | cons q l ih =>
    obtain ⟨a, b⟩ := q
    simp only [ainsert] at h
    split at h
    · rename_i hk; have := eq_of_beq hk; subst this
      rcases List.mem_cons.1 h with h | h
      · exact Or.inr h
      · exact Or.inl (List.mem_cons_of_mem _ h)
    · rcases List.mem_cons.1 h with h | h
      · exact Or.inl (by simp [h])
      · rcases ih h with h | h
        · exact Or.inl (List.mem_cons_of_mem _ h)
        · exact Or.inr h

theorem mem_keys_ainsert {l : List (κ × β)} {k : κ} {v : β} {k' : κ} :
    k' ∈ (ainsert l k v).map (·.1) ↔ k' ∈ l.map (·.1) ∨ k' = k := by
  by_cases hk : k ∈ l.map (·.1)
  · rw [ainsert_keys_of_mem v hk]
    constructor
    · exact Or.inl
    · rintro (h | rfl)
      · exact h
      · exact hk
  · rw [ainsert_of_not_mem v hk]; simp

/-! ### folds of `ainsert`, `adict` -/

/-- `foldl` of `ainsert` starting from any accumulator -/
def ainsertAll (acc ps : List (κ × β)) : List (κ × β) :=
  ps.foldl (fun acc p => ainsert acc p.1 p.2) acc

theorem adict_eq (ps : List (κ × β)) : adict ps = ainsertAll [] ps := rfl

theorem ainsertAll_keys_nodup {acc : List (κ × β)} (ps : List (κ × β)) (h : (acc.map (·.1)).Nodup) :
    ((ainsertAll acc ps).map (·.1)).Nodup := by
  induction ps generalizing acc with
  | nil => exact h
  | cons p ps ih => exact ih (ainsert_keys_nodup _ _ h)

theorem mem_ainsertAll {acc ps : List (κ × β)} {p : κ × β} (h : p ∈ ainsertAll acc ps) :
    p ∈ acc ∨ p ∈ ps := by
  induction ps generalizing acc with
  | nil => exact Or.inl h
  | cons q ps ih =>
    rcases ih (acc := ainsert acc q.1 q.2) h with h | h
    · rcases mem_ainsert h with h | h
      · exact Or.inl h
      · exact Or.inr (by simp [h])
    · exact Or.inr (List.mem_cons_of_mem _ h)

theorem mem_keys_ainsertAll {acc ps : List (κ × β)} {k : κ} :
    k ∈ (ainsertAll acc ps).map (·.1) ↔ k ∈ acc.map (·.1) ∨ k ∈ ps.map (·.1) := by
  induction ps generalizing acc with
  | nil => simp [ainsertAll]
  | cons q ps ih =>
    show k ∈ (ainsertAll (ainsert acc q.1 q.2) ps).map (·.1) ↔ _
    rw [ih, mem_keys_ainsert]
    simp only [List.map_cons, List.mem_cons]
    constructor
    · rintro ((h | h) | h)
      · exact Or.inl h
      · exact Or.inr (Or.inl h)
      · exact Or.inr (Or.inr h)
    · rintro (h | h | h)
      · exact Or.inl (Or.inl h)
      · exact Or.inl (Or.inr h)
      · exact Or.inr h

theorem adict_keys_nodup (ps : List (κ × β)) : ((adict ps).map (·.1)).Nodup :=
  ainsertAll_keys_nodup ps (by simp)

theorem mem_adict {ps : List (κ × β)} {p : κ × β} (h : p ∈ adict ps) : p ∈ ps := by
  rcases mem_ainsertAll (acc := []) h with h | h
  · simp at h
  · exact h

theorem mem_keys_adict {ps : List (κ × β)} {k : κ} :
    k ∈ (adict ps).map (·.1) ↔ k ∈ ps.map (·.1) := by
  rw [adict_eq, mem_keys_ainsertAll]; simp

/-- with distinct keys, inserting one by one is appending -/
theorem ainsertAll_of_nodup {acc ps : List (κ × β)} (h : ((acc ++ ps).map (·.1)).Nodup) :
    ainsertAll acc ps = acc ++ ps := by
  induction ps generalizing acc with
  | nil => simp [ainsertAll]
  | cons q ps ih =>
    show ainsertAll (ainsert acc q.1 q.2) ps = _
    have hq : q.1 ∉ acc.map (·.1) := by
      intro hm
      rw [List.map_append, List.nodup_append] at h
      exact h.2.2 _ hm q.1 (by simp) rfl
    rw [ainsert_of_not_mem _ hq, ih (by simpa using h)]
    simp

theorem adict_of_nodup {ps : List (κ × β)} (h : (ps.map (·.1)).Nodup) : adict ps = ps := by
  rw [adict_eq, ainsertAll_of_nodup (by simpa using h)]; simp

/-- lookup in a fold of insertions: the last matching inserted pair wins, else the accumulator -/
theorem alookup_ainsertAll (acc ps : List (κ × β)) (k : κ) :
    alookup (ainsertAll acc ps) k = match alookup ps.reverse k with
      | some v => some v
      | none => alookup acc k := by
  induction ps generalizing acc with
  | nil => simp [ainsertAll, alookup]
  | cons q ps ih =>
    show alookup (ainsertAll (ainsert acc q.1 q.2) ps) k = _
    rw [ih, List.reverse_cons, alookup_append]
    cases alookup ps.reverse k with
    | some v => rfl
    | none =>
      simp only [alookup_ainsert]
      obtain ⟨a, b⟩ := q
      simp only [alookup]
      split <;> rfl

/-! ### allDistinct / isSortedStrict -/

theorem contains_iff_mem {α : Type} [BEq α] [LawfulBEq α] (l : List α) (a : α) :
    l.contains a = true ↔ a ∈ l := by simp

theorem allDistinct_iff {α : Type} [BEq α] [LawfulBEq α] (l : List α) :
    allDistinct l = true ↔ l.Nodup := by
  induction l with
  | nil => simp [allDistinct]
  | cons a l ih => simp [allDistinct, ih]

theorem isSortedStrict_of_pairwise {α : Type} {lt : α → α → Bool} {l : List α}
    (h : l.Pairwise (fun a b => lt a b = true)) : isSortedStrict lt l = true := by
  induction l with
  | nil => rfl
  | cons a l ih =>
    cases l with
    | nil => rfl
    | cons b l =>
      simp only [isSortedStrict, Bool.and_eq_true]
      rw [List.pairwise_cons] at h
      exact ⟨h.1 b (by simp), ih h.2⟩

theorem pairwise_of_isSortedStrict {α : Type} {lt : α → α → Bool}
    (htrans : ∀ a b c, lt a b = true → lt b c = true → lt a c = true) {l : List α}
    (h : isSortedStrict lt l = true) : l.Pairwise (fun a b => lt a b = true) := by
  induction l with
  | nil => exact List.Pairwise.nil
  | cons a l ih =>
    cases l with
    | nil => simp
    | cons b l =>
      simp only [isSortedStrict, Bool.and_eq_true] at h
      have hp := ih h.2
      rw [List.pairwise_cons] at hp ⊢
      refine ⟨?_, List.pairwise_cons.2 hp⟩
      intro c hc
      rcases List.mem_cons.1 hc with rfl | hc
      · exact h.1
      · exact htrans _ _ _ h.1 (hp.1 c hc)

/-! ### the orders -/

theorem chargeLt_irrefl (a : Charge) : Charge.lt a a = false := by
  simp [Charge.lt]

theorem chargeLt_trans (a b c : Charge) (h1 : Charge.lt a b = true) (h2 : Charge.lt b c = true) :
    Charge.lt a c = true := by
  simp only [Charge.lt, Bool.or_eq_true, decide_eq_true_eq, Bool.and_eq_true, beq_iff_eq] at *
  omega

theorem chargeLt_tri (a b : Charge) : Charge.lt a b = true ∨ a = b ∨ Charge.lt b a = true := by
  obtain ⟨a1, a2⟩ := a
  obtain ⟨b1, b2⟩ := b
  simp only [Charge.lt, Bool.or_eq_true, decide_eq_true_eq, Bool.and_eq_true, beq_iff_eq,
    Prod.mk.injEq]
  omega

theorem sectorLt_irrefl (a : List Charge) : sectorLt a a = false := by
  induction a with
  | nil => rfl
  | cons x xs ih => simp [sectorLt, chargeLt_irrefl, ih]

theorem sectorLt_trans (a b c : List Charge) (h1 : sectorLt a b = true) (h2 : sectorLt b c = true) :
    sectorLt a c = true := by
  induction a generalizing b c with
  | nil =>
    cases b with
    | nil => simp [sectorLt] at h1
    | cons y ys => cases c <;> simp_all [sectorLt]
  | cons x xs ih =>
    cases b with
    | nil => simp [sectorLt] at h1
    | cons y ys =>
      cases c with
      | nil => simp [sectorLt] at h2
      | cons z zs =>
        simp only [sectorLt, Bool.or_eq_true, Bool.and_eq_true, beq_iff_eq] at h1 h2 ⊢
        rcases h1 with h1 | ⟨rfl, h1⟩
        · rcases h2 with h2 | ⟨rfl, h2⟩
          · exact Or.inl (chargeLt_trans _ _ _ h1 h2)
          · exact Or.inl h1
        · rcases h2 with h2 | ⟨rfl, h2⟩
          · exact Or.inl h2
          · exact Or.inr ⟨rfl, ih _ _ h1 h2⟩

theorem sectorLt_tri (a b : List Charge) : sectorLt a b = true ∨ a = b ∨ sectorLt b a = true := by
  induction a generalizing b with
  | nil => cases b <;> simp [sectorLt]
  | cons x xs ih =>
    cases b with
    | nil => simp [sectorLt]
    | cons y ys =>
      simp only [sectorLt, Bool.or_eq_true, Bool.and_eq_true, beq_iff_eq, List.cons.injEq]
      rcases chargeLt_tri x y with h | rfl | h
      · exact Or.inl (Or.inl h)
      · rcases ih ys with h | rfl | h
        · exact Or.inl (Or.inr ⟨rfl, h⟩)
        · exact Or.inr (Or.inl ⟨rfl, rfl⟩)
        · exact Or.inr (Or.inr (Or.inr ⟨rfl, h⟩))
      · exact Or.inr (Or.inr (Or.inl h))

/-! ### isort on keyed entries with a strict total order on the keys -/

section SortSec
variable {α γ : Type} (key : α → γ) (L : γ → γ → Bool)

theorem mem_insertSorted {lt : α → α → Bool} {a x : α} {l : List α} :
    x ∈ insertSorted lt a l ↔ x = a ∨ x ∈ l := by
  induction l with
  | nil => simp [insertSorted]
  | cons b bs ih =>
    simp only [insertSorted]
    split
    · simp only [List.mem_cons, ih]
      constructor
      · rintro (h | h | h)
        · exact Or.inr (Or.inl h)
        · exact Or.inl h
        · exact Or.inr (Or.inr h)
      · rintro (h | h | h)
        · exact Or.inr (Or.inl h)
        · exact Or.inl h
        · exact Or.inr (Or.inr h)
    · simp

theorem mem_isort {lt : α → α → Bool} {x : α} {l : List α} : x ∈ isort lt l ↔ x ∈ l := by
  induction l with
  | nil => simp [isort]
  | cons a l ih => simp [isort, mem_insertSorted, ih]

theorem insertSorted_perm (lt : α → α → Bool) (a : α) (l : List α) :
    (insertSorted lt a l).Perm (a :: l) := by
  induction l with
  | nil => simp [insertSorted]
  | cons b bs ih =>
    simp only [insertSorted]
    split
    · exact (List.Perm.cons b ih).trans (List.Perm.swap a b bs)
    · exact List.Perm.refl _

theorem isort_perm (lt : α → α → Bool) (l : List α) : (isort lt l).Perm l := by
  induction l with
  | nil => simp [isort]
  | cons a l ih => exact (insertSorted_perm lt a _).trans (List.Perm.cons a ih)

theorem insertSorted_pairwise
    (htrans : ∀ a b c, L a b = true → L b c = true → L a c = true)
    (htri : ∀ a b, L a b = true ∨ a = b ∨ L b a = true)
    (a : α) (l : List α) (hl : l.Pairwise (fun x y => L (key x) (key y) = true))
    (hne : ∀ b ∈ l, key b ≠ key a) :
    (insertSorted (fun x y => L (key x) (key y)) a l).Pairwise (fun x y => L (key x) (key y) = true) := by
  induction l with
  | nil => simp [insertSorted]
  | cons b bs ih =>
    rw [List.pairwise_cons] at hl
    simp only [insertSorted]
    split
    · rename_i hba
      rw [List.pairwise_cons]
      refine ⟨?_, ih hl.2 (fun x hx => hne x (List.mem_cons_of_mem _ hx))⟩
      intro x hx
      rcases mem_insertSorted.1 hx with rfl | hx
      · exact hba
      · exact hl.1 x hx
    · rename_i hba
      have hab : L (key a) (key b) = true := by
        rcases htri (key a) (key b) with h | h | h
        · exact h
        · exact absurd h.symm (hne b (by simp))
        · exact absurd h hba
      rw [List.pairwise_cons]
      refine ⟨?_, List.pairwise_cons.2 hl⟩
      intro x hx
      rcases List.mem_cons.1 hx with rfl | hx
      · exact hab
      · exact htrans _ _ _ hab (hl.1 x hx)

theorem isort_pairwise
    (htrans : ∀ a b c, L a b = true → L b c = true → L a c = true)
    (htri : ∀ a b, L a b = true ∨ a = b ∨ L b a = true)
    (l : List α) (hnd : (l.map key).Nodup) :
    (isort (fun x y => L (key x) (key y)) l).Pairwise (fun x y => L (key x) (key y) = true) := by
  induction l with
  | nil => simp [isort]
  | cons a l ih =>
    simp only [List.map_cons, List.nodup_cons] at hnd
    simp only [isort]
    apply insertSorted_pairwise key L htrans htri a _ (ih hnd.2)
    intro b hb hk
    exact hnd.1 (List.mem_map.2 ⟨b, mem_isort.1 hb, hk⟩)

end SortSec

theorem pairwise_lt_nodup {γ : Type} {L : γ → γ → Bool} (hirr : ∀ a, L a a = false) {l : List γ}
    (h : l.Pairwise (fun a b => L a b = true)) : l.Nodup := by
  induction l with
  | nil => simp
  | cons a l ih =>
    rw [List.pairwise_cons] at h
    rw [List.nodup_cons]
    refine ⟨fun hm => ?_, ih h.2⟩
    have := h.1 a hm
    rw [hirr] at this; cases this

end FuseP
end SymmModel
