/-
  SymmModel.Proofs.Routes2 — S6 of property C04 (pre-transposing an operand), specification level
  and model level.  Namespace `SymmModel.RoutesP`.
-/
import SymmModel.Proofs.Routes

namespace SymmModel
namespace RoutesP
open TdotP GradedP KoszulP
set_option linter.unusedSectionVars false

/-! ### positions of the entries of one list inside another -/

/-- `positions l x`: for each entry of `x` its position in `l` (entries not in `l` are dropped) -/
def positions (l x : List Nat) : List Nat := x.filterMap (fun y => indexOf? l y)

theorem positions_spec (l x : List Nat) (hx : ∀ y ∈ x, y ∈ l) :
    permuted l (positions l x) = x ∧ (positions l x).length = x.length
      ∧ ∀ i ∈ positions l x, i < l.length := by
  induction x with
  | nil => exact ⟨rfl, rfl, by simp [positions]⟩
  | cons y xs ih =>
    obtain ⟨i1, i2, i3⟩ := ih (fun z hz => hx z (List.mem_cons_of_mem _ hz))
    have hy : y ∈ l := hx y (by simp)
    cases hj : indexOf? l y with
    | none => exact absurd hy (indexOf?_eq_none_iff.mp hj)
    | some j =>
      have hlj := indexOf?_eq_some hj
      have hjl : j < l.length := by
        by_contra hc; rw [List.getElem?_eq_none (by omega)] at hlj; cases hlj
      have e : positions l (y :: xs) = j :: positions l xs := by
        unfold positions; rw [List.filterMap_cons, hj]
      rw [e]
      refine ⟨?_, by simp [i2], ?_⟩
      · unfold permuted at i1 ⊢
        rw [List.filterMap_cons, hlj, i1]
      · intro i hi
        rcases List.mem_cons.mp hi with rfl | h
        · exact hjl
        · exact i3 i h

theorem positions_nodup (l x : List Nat) (hx : ∀ y ∈ x, y ∈ l) (hn : x.Nodup) :
    (positions l x).Nodup := by
  obtain ⟨h1, _, h3⟩ := positions_spec l x hx
  rw [permuted_eq_map l _ h3 0] at h1
  rw [← h1] at hn
  exact List.Nodup.of_map _ hn

theorem positions_perm (l x : List Nat) (hp : x.Perm l) (hn : l.Nodup) :
    (positions l x).Perm (List.range l.length) := by
  have hx : ∀ y ∈ x, y ∈ l := fun y hy => hp.mem_iff.mp hy
  obtain ⟨_, h2, h3⟩ := positions_spec l x hx
  have hnd := positions_nodup l x hx (hp.nodup_iff.mpr hn)
  have hsub : positions l x ⊆ List.range l.length := fun i hi => List.mem_range.mpr (h3 i hi)
  have hsp := List.subperm_of_subset hnd hsub
  exact hsp.perm_of_length_le (by rw [h2, hp.length_eq]; simp)

/-! ### S6: the geometry of a pre-transposition -/

/-- `a` is transposed by `p` first; `xa'` are the positions of the contracted axes `xa` in the
    transposed array, and `q` is the induced permutation of the free axes:
    (free axes of `a`, re-listed along `q`) = (free axes of the transposed array, as axes of `a`) -/
structure PreT (n : Nat) (p xa xa' q : List Nat) : Prop where
  hp : p.Perm (List.range n)
  nA : xa.Nodup
  ltA : ∀ i ∈ xa, i < n
  nA' : xa'.Nodup
  ltA' : ∀ i ∈ xa', i < n
  hx : permuted p xa' = xa
  hq : q.Perm (List.range (freeAxes n xa).length)
  hL : permuted (freeAxes n xa) q = permuted p (freeAxes n xa')

section pret
variable {α : Type} {n : Nat} {p xa xa' q : List Nat}

theorem PreT.plen (h : PreT n p xa xa' q) : p.length = n := by simpa using h.hp.length_eq

theorem PreT.plt (h : PreT n p xa xa' q) : ∀ i ∈ p, i < n := mem_lt_of_perm h.hp

theorem PreT.len (h : PreT n p xa xa' q) : xa'.length = xa.length := by
  have := congrArg List.length h.hx
  rw [permuted_length _ _ (by rw [h.plen]; exact h.ltA')] at this
  exact this

theorem PreT.lenT (z : List α) (hz : z.length = n) (h : PreT n p xa xa' q) :
    (permuted z p).length = n := by
  rw [permuted_length _ _ (by rw [hz]; exact h.plt), h.plen]

/-- contracted part of the transposed list -/
theorem PreT.ax (h : PreT n p xa xa' q) (z : List α) (hz : z.length = n) :
    permuted (permuted z p) xa' = permuted z xa := by
  rw [KoszulP.permuted_permuted z p xa' (by rw [hz]; exact h.plt)]
  unfold compose
  rw [h.hx]

/-- free part of the transposed list: the free part of the original, re-listed along `q` -/
theorem PreT.free (h : PreT n p xa xa' q) (z : List α) (hz : z.length = n) :
    permuted (permuted z p) (freeAxes n xa') = permuted (permuted z (freeAxes n xa)) q := by
  rw [KoszulP.permuted_permuted z p _ (by rw [hz]; exact h.plt),
    KoszulP.permuted_permuted z (freeAxes n xa) q
      (by intro i hi; rw [hz]; exact (mem_freeAxes.mp hi).1)]
  unfold compose
  rw [h.hL]

theorem PreT.freeLen (h : PreT n p xa xa' q) : (freeAxes n xa').length = (freeAxes n xa).length := by
  have h1 := freeAxes_length h.nA h.ltA
  have h2 := freeAxes_length h.nA' h.ltA'
  have := h.len
  omega

/-- the canonical choice of `xa'` and `q` -/
theorem PreT.canonical (hp : p.Perm (List.range n)) (hn : xa.Nodup) (hlt : ∀ i ∈ xa, i < n) :
    PreT n p xa (positions p xa)
      (positions (freeAxes n xa) (permuted p (freeAxes n (positions p xa)))) := by
  have hpn : p.Nodup := hp.nodup_iff.mpr List.nodup_range
  have hplen : p.length = n := by simpa using hp.length_eq
  have hxa_mem : ∀ y ∈ xa, y ∈ p := fun y hy => hp.mem_iff.mpr (List.mem_range.mpr (hlt y hy))
  obtain ⟨s1, s2, s3⟩ := positions_spec p xa hxa_mem
  have hnA' := positions_nodup p xa hxa_mem hn
  have hltA' : ∀ i ∈ positions p xa, i < n := fun i hi => hplen ▸ s3 i hi
  -- the free axes of the transposed array, as axes of `a`, are a permutation of `a`'s free axes
  have hLt : (permuted p (freeAxes n (positions p xa))).Perm (freeAxes n xa) := by
    have hfl' : ∀ i ∈ freeAxes n (positions p xa), i < p.length := by
      intro i hi; rw [hplen]; exact (mem_freeAxes.mp hi).1
    rw [List.perm_ext_iff_of_nodup ?_ (freeAxes_nodup _ _)]
    · intro y
      constructor
      · intro hy
        rw [permuted_eq_map p _ hfl' 0] at hy
        obtain ⟨j, hj, rfl⟩ := List.mem_map.mp hy
        obtain ⟨hjn, hjx⟩ := mem_freeAxes.mp hj
        have hjp : j < p.length := by omega
        rw [List.getD_eq_getElem?_getD, List.getElem?_eq_getElem hjp, Option.getD_some]
        refine mem_freeAxes.mpr ⟨mem_lt_of_perm hp _ (List.getElem_mem hjp), ?_⟩
        intro hmem
        apply hjx
        -- `p[j] ∈ xa` means `j` is one of the positions
        obtain ⟨t, ht, hte⟩ := List.mem_iff_getElem.mp hmem
        have : (positions p xa)[t]? = some j := by
          have h1 := congrArg (fun l => l[t]?) s1
          simp only [permuted_getElem? p _ s3, List.getElem?_eq_getElem ht] at h1
          have ht' : t < (positions p xa).length := by omega
          rw [List.getElem?_eq_getElem ht'] at h1 ⊢
          simp only [Option.bind_some] at h1
          have hi := s3 _ (List.getElem_mem ht')
          rw [List.getElem?_eq_getElem hi] at h1
          have e : p[(positions p xa)[t]] = p[j] := by rw [Option.some.inj h1, hte]
          have := (List.Nodup.getElem_inj_iff hpn).mp e
          rw [this]
        exact List.mem_of_getElem? this
      · intro hy
        obtain ⟨hyn, hyx⟩ := mem_freeAxes.mp hy
        obtain ⟨j, hj, rfl⟩ := List.mem_iff_getElem.mp (hp.mem_iff.mpr (List.mem_range.mpr hyn))
        rw [permuted_eq_map p _ hfl' 0]
        refine List.mem_map.mpr ⟨j, mem_freeAxes.mpr ⟨by omega, ?_⟩, by
          rw [List.getD_eq_getElem?_getD, List.getElem?_eq_getElem hj]; rfl⟩
        intro hjpos
        apply hyx
        obtain ⟨t, ht, hte⟩ := List.mem_iff_getElem.mp hjpos
        have h1 := congrArg (fun l => l[t]?) s1
        simp only [permuted_getElem? p _ s3, List.getElem?_eq_getElem ht, Option.bind_some, hte,
          List.getElem?_eq_getElem hj] at h1
        exact List.mem_of_getElem? h1.symm
    · rw [permuted_eq_map p _ hfl' 0]
      apply List.Nodup.map_on _ (freeAxes_nodup _ _)
      intro i hi j hj e
      have hi' := hfl' i hi
      have hj' := hfl' j hj
      rw [List.getD_eq_getElem?_getD, List.getD_eq_getElem?_getD, List.getElem?_eq_getElem hi',
        List.getElem?_eq_getElem hj'] at e
      exact (List.Nodup.getElem_inj_iff hpn).mp (by simpa using e)
  have hq := positions_perm (freeAxes n xa) _ hLt (freeAxes_nodup _ _)
  obtain ⟨t1, _, _⟩ := positions_spec (freeAxes n xa) (permuted p (freeAxes n (positions p xa)))
    (fun y hy => hLt.mem_iff.mp hy)
  exact ⟨hp, hn, hlt, hnA', hltA', s1, hq, t1⟩

end pret

/-! ### S6, specification level -/

section s6spec
variable {R : Type}

/-- the free offsets of an in-box address lie in the free boxes of every contributing pair -/
theorem free_boxes {a b : Arr R} {xa xb : List Nat} (hsa : a.shapesOk) (hsb : b.shapesOk)
    {s sa sb : Sector} {oL oR : List Nat}
    (hp : (sa, sb) ∈ storedPairs a b (freeAxes a.ndim xa) xa xb (freeAxes b.ndim xb) s)
    (hoL : oL.length = (freeAxes a.ndim xa).length)
    (ho : inBox (Arr.blockShapeD (without a.indices xa ++ without b.indices xb) s) (oL ++ oR) = true) :
    inBox (permuted (Arr.blockShapeD a.indices sa) (freeAxes a.ndim xa)) oL = true
      ∧ inBox (permuted (Arr.blockShapeD b.indices sb) (freeAxes b.ndim xb)) oR = true := by
  obtain ⟨hsa', hsb', _, hs⟩ := mem_storedPairs.mp hp
  obtain ⟨shpA, hA1, hA2, hA3, _⟩ := shape_of_mem hsa hsa'
  obtain ⟨shpB, hB1, hB2, hB3, _⟩ := shape_of_mem hsb hsb'
  have hleftlt : ∀ x ∈ freeAxes a.ndim xa, x < a.ndim := fun x hx => (mem_freeAxes.mp hx).1
  have hrightlt : ∀ x ∈ freeAxes b.ndim xb, x < b.ndim := fun x hx => (mem_freeAxes.mp hx).1
  have e : Arr.blockShapeD (without a.indices xa ++ without b.indices xb) s
      = permuted shpA (freeAxes a.ndim xa) ++ permuted shpB (freeAxes b.ndim xb) := by
    have ea : a.indices.length = a.ndim := rfl
    have eb : b.indices.length = b.ndim := rfl
    rw [← hs, without_eq_permuted_freeAxes, without_eq_permuted_freeAxes, ea, eb, Arr.blockShapeD,
      blockShape?_append (blockShape?_permuted hA1 _ hleftlt) (blockShape?_permuted hB1 _ hrightlt)]
    rfl
  rw [e, inBox_append (by
    rw [hoL, permuted_length _ _ (by intro x hx; rw [hA3]; exact hleftlt x hx)])] at ho
  rw [hA2, hB2]
  simpa using ho

theorem storedPairs_pre (a a' b : Arr R) (p xa xa' q xb : List Nat)
    (hsa : a.shapesOk) (hT : PreT a.ndim p xa xa' q)
    (hsec : a'.sectors = a.sectors.map (fun s => permuted s p)) (hnd : a'.ndim = a.ndim)
    (L Rr : Sector) (hL : L.length = (freeAxes a.ndim xa).length) :
    storedPairs a' b (freeAxes a'.ndim xa') xa' xb (freeAxes b.ndim xb) (permuted L q ++ Rr)
      = (storedPairs a b (freeAxes a.ndim xa) xa xb (freeAxes b.ndim xb) (L ++ Rr)).map
          (fun pr => (permuted pr.1 p, pr.2)) := by
  unfold storedPairs
  rw [hsec, hnd]
  simp only [List.flatMap_map, List.map_flatMap, List.map_map]
  apply flatMap_congr_mem
  intro sa hsa'
  have hla := Arr.sector_length hsa hsa'
  have e : ∀ sb ∈ b.sectors,
      (permuted sb xb == permuted (permuted sa p) xa' &&
        permuted (permuted sa p) (freeAxes a.ndim xa') ++ permuted sb (freeAxes b.ndim xb)
          == permuted L q ++ Rr)
      = (permuted sb xb == permuted sa xa &&
        permuted sa (freeAxes a.ndim xa) ++ permuted sb (freeAxes b.ndim xb) == L ++ Rr) := by
    intro sb _
    rw [hT.ax sa hla, hT.free sa hla]
    congr 1
    have hl1 : (permuted sa (freeAxes a.ndim xa)).length = (freeAxes a.ndim xa).length :=
      permuted_length _ _ (by intro x hx; rw [hla]; exact (mem_freeAxes.mp hx).1)
    have hqlt : ∀ i ∈ q, i < (freeAxes a.ndim xa).length := mem_lt_of_perm hT.hq
    have hl2 : (permuted (permuted sa (freeAxes a.ndim xa)) q).length = (permuted L q).length := by
      rw [permuted_length _ _ (by rw [hl1]; exact hqlt), permuted_length _ _ (by rw [hL]; exact hqlt)]
    rw [Bool.eq_iff_iff]
    simp only [beq_iff_eq]
    constructor
    · intro h
      obtain ⟨h1, h2⟩ := List.append_inj h hl2
      have := KoszulP.permuted_injective _ _ q _ hT.hq hl1 hL h1
      rw [this, h2]
    · intro h
      obtain ⟨h1, h2⟩ := List.append_inj h (by rw [hl1, hL])
      rw [h1, h2]
  rw [List.filter_congr e]
  simp [Function.comp]

variable [AddMonoid R] [Mul R] [Neg R] [SignRing R]
open Lazy (sgnI)

/-- `a'` is `a` transposed by `p` in the value view (as `FermionicArray.transpose` produces it) -/
structure TransOf (a a' : Arr R) (p : List Nat) : Prop where
  sym : a'.sym = a.sym
  sectors : a'.sectors = a.sectors.map (fun s => permuted s p)
  indices : a'.indices = permuted a.indices p
  elem : ∀ s ∈ a.sectors, ∀ off, inBox (Arr.blockShapeD a.indices s) off = true →
    a'.elem (permuted s p) (permuted off p) = sgnI (koszul (a.parities s) (some p)) (a.elem s off)

theorem transOf_transposeF (a : Arr R) (p : List Nat) (ha : a.validB = true) (hfa : a.fermi = true)
    (hp : Arr.isPerm p a.ndim = true) : TransOf a (a.transposeF p) p := by
  have fa := Lazy.Full.of_valid ha hfa
  have hsa := Arr.shapesOk_of_validB ha
  refine ⟨rfl, Lazy.transposeF_sectors (fa.trOk hp), rfl, ?_⟩
  intro s hs off hoff
  obtain ⟨shp, h1, h2, h3, _⟩ := shape_of_mem hsa hs
  obtain ⟨b, hb⟩ := KoszulP.alookup_isSome_of_mem a.blocks s hs
  have hbs : b.shape = shp := by
    have := hsa (s, b) (Lazy.alookup_mem hb)
    rw [h1] at this
    exact (Option.some.inj this).symm
  exact KoszulP.transposeF_elem SignRing.neg_neg a p
    (allDistinct_iff_nodup.mpr fa.sign.sectors) fa.len hp s b hb (by rw [hbs, h3])
    (fa.sign.phases.phOf s) off (by rw [hbs, ← h2]; exact hoff)

theorem sgnI_mul_left' {σ : Int} (hσ : σ = 1 ∨ σ = -1) (x y : R) : sgnI σ x * y = sgnI σ (x * y) := by
  have := sgnI_mul_mul hσ (Or.inl rfl) x y
  rwa [Lazy.sgnI_one, Int.mul_one] at this

theorem contractPair_pre (a a' b : Arr R) (p xa xa' q xb : List Nat)
    (hsa : a.shapesOk) (hsb : b.shapesOk) (hT : PreT a.ndim p xa xa' q) (T : TransOf a a' p)
    (s : Sector) (oL oR : List Nat) (hoL : oL.length = (freeAxes a.ndim xa).length)
    (ho : inBox (Arr.blockShapeD (without a.indices xa ++ without b.indices xb) s) (oL ++ oR) = true)
    (sa sb : Sector)
    (hp : (sa, sb) ∈ storedPairs a b (freeAxes a.ndim xa) xa xb (freeAxes b.ndim xb) s) :
    contractPair a' b xa' xb (permuted oL q) oR (permuted sa p, sb)
      = sgnI (koszul (a.parities sa) (some p)) (contractPair a b xa xb oL oR (sa, sb)) := by
  obtain ⟨hsa', _, _, _⟩ := mem_storedPairs.mp hp
  obtain ⟨shpA, hA1, hA2, hA3, hA4⟩ := shape_of_mem hsa hsa'
  have hfree := (free_boxes hsa hsb hp hoL ho).1
  rw [hA2] at hfree
  have hnd : a'.ndim = a.ndim := by
    show a'.indices.length = _
    rw [T.indices]; exact hT.lenT a.indices rfl
  have hplt : ∀ x ∈ p, x < a.indices.length := hT.plt
  have hbox : permuted (Arr.blockShapeD a'.indices (permuted sa p)) xa' = permuted shpA xa := by
    rw [T.indices, Arr.blockShapeD, blockShape?_permuted hA1 _ hplt]
    exact hT.ax shpA hA3
  unfold contractPair
  rw [hbox, hA2, ← sgnI_sum]
  congr 1
  apply List.map_congr_left
  intro k hk
  have hkbox : inBox (permuted shpA xa) k = true := mem_allIdx_iff.mp hk
  have hklen : k.length = xa.length := by
    rw [inBox_length hkbox, permuted_length _ _ (by intro x hx; rw [hA3]; exact hT.ltA x hx)]
  unfold contractTerm
  have hleftlt : ∀ x ∈ freeAxes a.ndim xa, x < a.ndim := fun x hx => (mem_freeAxes.mp hx).1
  have hM : inBox shpA (mergeIdx 0 a.ndim xa (freeAxes a.ndim xa) k oL) = true := by
    have := inBox_mergeIdx (shape := shpA) (axes := xa) (k := k) (f := oL)
      (by intro x hx; rw [hA3]; exact hT.ltA x hx) hkbox (by rw [hA3]; exact hfree)
    rwa [hA3] at this
  have hml : (mergeIdx 0 a.ndim xa (freeAxes a.ndim xa) k oL).length = a.ndim := mergeIdx_length _ _ _ _ _ _
  have hMperm : mergeIdx 0 a'.ndim xa' (freeAxes a'.ndim xa') k (permuted oL q)
      = permuted (mergeIdx 0 a.ndim xa (freeAxes a.ndim xa) k oL) p := by
    rw [hnd]
    have e1 := hT.ax (mergeIdx 0 a.ndim xa (freeAxes a.ndim xa) k oL) hml
    have e2 := hT.free (mergeIdx 0 a.ndim xa (freeAxes a.ndim xa) k oL) hml
    rw [permuted_mergeIdx_axes 0 hT.nA hT.ltA hklen] at e1
    rw [permuted_mergeIdx_free 0 (freeAxes_nodup _ _) hleftlt
      (fun x hx => (mem_freeAxes.mp hx).2) hoL] at e2
    have := mergeIdx_permuted 0
      (x := permuted (mergeIdx 0 a.ndim xa (freeAxes a.ndim xa) k oL) p)
      (n := a.ndim) (axes := xa') (free := freeAxes a.ndim xa')
      (hT.lenT _ hml) hT.ltA' (fun y hy => (mem_freeAxes.mp hy).1)
      (by
        intro y hy
        by_cases h : y ∈ xa'
        · exact Or.inl h
        · exact Or.inr (mem_freeAxes.mpr ⟨hy, h⟩))
    rw [e1, e2] at this
    exact this
  rw [hMperm, T.elem sa hsa' _ (by rw [hA2]; exact hM), sgnI_mul_left' (Lazy.koszul_pm _ _)]

omit [AddMonoid R] [Mul R] [Neg R] [SignRing R] in
/-- re-listing the FREE axes of the left operand along `q` -/
theorem koszul_relist_free_left (par : List Bool) (n : Nat) (hpar : par.length = n) (xa q : List Nat)
    (hn : xa.Nodup) (hlt : ∀ i ∈ xa, i < n) (hq : q.Perm (List.range (freeAxes n xa).length)) :
    koszul par (some (permuted (freeAxes n xa) q ++ xa))
      = koszul par (some (freeAxes n xa ++ xa)) * koszul (permuted par (freeAxes n xa)) (some q) := by
  have hp := perm_left hn hlt
  have hfl := freeAxes_length hn hlt
  have hq' : (q ++ (List.range xa.length).map ((freeAxes n xa).length + ·)).Perm (List.range n) := by
    have : n = (freeAxes n xa).length + xa.length := by omega
    conv => rhs; rw [this, List.range_add]
    exact List.Perm.append_right _ hq
  have hc : compose (freeAxes n xa ++ xa) (q ++ (List.range xa.length).map ((freeAxes n xa).length + ·))
      = permuted (freeAxes n xa) q ++ xa := by
    unfold compose
    rw [ValidP.permuted_append, permuted_append_of_lt _ _ _ (mem_lt_of_perm hq),
      permuted_append_map_add, ValidP.permuted_range]
  have hco := koszul_cocycle' par _ _ n hpar hp hq'
  rw [hc] at hco
  rw [hco, ValidP.permuted_append]
  congr 1
  have hl : (permuted par (freeAxes n xa)).length = (freeAxes n xa).length :=
    permuted_length _ _ (by intro x hx; rw [hpar]; exact (mem_freeAxes.mp hx).1)
  have hk : (permuted par xa).length = xa.length :=
    permuted_length _ _ (by intro x hx; rw [hpar]; exact hlt x hx)
  have := koszul_id_block_right (permuted par (freeAxes n xa)) (permuted par xa) q (by rw [hl]; exact hq)
  rw [hl, hk] at this
  exact this

omit [AddMonoid R] [Mul R] [Neg R] [SignRing R] in
theorem ketOdd_pre (a a' : Arr R) (p xa xa' q : List Nat) (hT : PreT a.ndim p xa xa' q)
    (hsym : a'.sym = a.sym) (hidx : a'.indices = permuted a.indices p)
    (sa : Sector) (hla : sa.length = a.ndim) :
    ketOdd a' xa' (permuted sa p) = ketOdd a xa sa := by
  unfold ketOdd
  have hxa : xa = xa'.map (fun ax => p.getD ax 0) := by
    rw [← hT.hx, permuted_eq_map p xa' (by rw [hT.plen]; exact hT.ltA') 0]
  rw [hidx, hsym]
  conv => rhs; rw [hxa]
  simp only [List.filter_map, List.length_map, List.filter_filter]
  congr 1
  apply List.filter_congr
  intro ax hax
  have haxp : ax < p.length := by rw [hT.plen]; exact hT.ltA' ax hax
  simp only [Function.comp]
  rw [getD_permuted_ax a.indices p hT.plt ax haxp, getD_permuted_ax sa p (by rw [hla]; exact hT.plt) ax haxp]

omit [AddMonoid R] [Mul R] [Neg R] [SignRing R] in
/-- the sign of a pair after pre-transposition, times the transposition sign of `a`'s sector, is
    the original sign times the sign of `q` on the parities of the free part -/
theorem gradedSign_pre (a a' b : Arr R) (p xa xa' q xb : List Nat) (hT : PreT a.ndim p xa xa' q)
    (hsym : a'.sym = a.sym) (hidx : a'.indices = permuted a.indices p)
    (sa sb : Sector) (hla : sa.length = a.ndim) :
    gradedSign a' b xa' xb (permuted sa p) sb * koszul (a.parities sa) (some p)
      = gradedSign a b xa xb sa sb
        * koszul ((permuted sa (freeAxes a.ndim xa)).map a.sym.parity) (some q) := by
  have hnd : a'.ndim = a.ndim := by
    show a'.indices.length = _
    rw [hidx]; exact hT.lenT a.indices rfl
  have hpa : (a.parities sa).length = a.ndim := by unfold Arr.parities; rw [List.length_map, hla]
  have hpar' : a'.parities (permuted sa p) = permuted (a.parities sa) p := by
    unfold Arr.parities; rw [hsym, permuted_map]
  have hodd : oddContracted a' xa' (permuted sa p) = oddContracted a xa sa := by
    unfold oddContracted; rw [hT.ax sa hla, hsym]
  have hco := koszul_cocycle' (a.parities sa) p (freeAxes a.ndim xa' ++ xa') a.ndim hpa hT.hp
    (perm_left hT.nA' hT.ltA')
  have hcomp : compose p (freeAxes a.ndim xa' ++ xa') = permuted (freeAxes a.ndim xa) q ++ xa := by
    unfold compose
    rw [ValidP.permuted_append, hT.hx, hT.hL]
  rw [hcomp, koszul_relist_free_left _ a.ndim hpa xa q hT.nA hT.ltA hT.hq] at hco
  have hfreepar : permuted (a.parities sa) (freeAxes a.ndim xa)
      = (permuted sa (freeAxes a.ndim xa)).map a.sym.parity := by
    unfold Arr.parities; rw [permuted_map]
  unfold gradedSign
  rw [hnd, hpar', hodd, ketOdd_pre a a' p xa xa' q hT hsym hidx sa hla, ← hfreepar]
  have hk1 := Lazy.koszul_pm (a.parities sa) (some p)
  generalize koszul (a.parities sa) (some p) = t at hco hk1 ⊢
  generalize koszul (permuted (a.parities sa) p) (some (freeAxes a.ndim xa' ++ xa')) = u at hco ⊢
  have hu : u = t * (koszul (a.parities sa) (some (freeAxes a.ndim xa ++ xa))
      * koszul (permuted (a.parities sa) (freeAxes a.ndim xa)) (some q)) := by
    rcases hk1 with rfl | rfl
    · rw [hco]; ring
    · rw [hco]; ring
  rw [hu]
  rcases hk1 with rfl | rfl <;> ring

/-- **S6, specification level.**  Contracting the pre-transposed operand gives, at the address
    whose left free part is re-listed along `q`, the original graded contraction times the
    Koszul sign of `q` on the parities of the left free charges. -/
theorem gradedContract_pre (a a' b : Arr R) (p xa xa' q xb : List Nat)
    (hsa : a.shapesOk) (hsb : b.shapesOk) (hT : PreT a.ndim p xa xa' q) (T : TransOf a a' p)
    (L Rr : Sector) (hL : L.length = (freeAxes a.ndim xa).length)
    (oL oR : List Nat) (hoL : oL.length = (freeAxes a.ndim xa).length)
    (ho : inBox (Arr.blockShapeD (without a.indices xa ++ without b.indices xb) (L ++ Rr))
      (oL ++ oR) = true) :
    gradedContract a' b xa' xb (permuted L q ++ Rr) (permuted oL q) oR
      = sgnI (koszul (L.map a.sym.parity) (some q)) (gradedContract a b xa xb (L ++ Rr) oL oR) := by
  have hnd : a'.ndim = a.ndim := by
    show a'.indices.length = _
    rw [T.indices]; exact hT.lenT a.indices rfl
  unfold gradedContract
  rw [storedPairs_pre a a' b p xa xa' q xb hsa hT T.sectors hnd L Rr hL, List.map_map, ← sgnI_sum]
  congr 1
  apply List.map_congr_left
  rintro ⟨sa, sb⟩ hp
  obtain ⟨m1, m2, m3, m4⟩ := mem_storedPairs.mp hp
  have hla := Arr.sector_length hsa m1
  simp only [Function.comp]
  rw [contractPair_pre a a' b p xa xa' q xb hsa hsb hT T (L ++ Rr) oL oR hoL ho sa sb hp,
    sgnI_comp (gradedSign_pm _ _ _ _ _ _) (Lazy.koszul_pm _ _),
    sgnI_comp (Lazy.koszul_pm _ _) (gradedSign_pm _ _ _ _ _ _),
    gradedSign_pre a a' b p xa xa' q xb hT T.sym T.indices sa sb hla]
  have hLeq : permuted sa (freeAxes a.ndim xa) = L := by
    have hl1 : (permuted sa (freeAxes a.ndim xa)).length = L.length := by
      rw [permuted_length _ _ (by intro x hx; rw [hla]; exact (mem_freeAxes.mp hx).1), hL]
    exact (List.append_inj m4 hl1).1
  rw [hLeq, Int.mul_comm]

end s6spec

/-! ### S6 for the model -/

section s6
variable {R : Type}

/-- splitting a block shape along a concatenated frame -/
theorem blockShape?_split {ixs ixs' : List Index} {s s' : Sector} {shp : List Nat}
    (hl : s.length = ixs.length) (h : Arr.blockShape? (ixs ++ ixs') (s ++ s') = some shp) :
    Arr.blockShape? ixs s = some (shp.take ixs.length)
      ∧ Arr.blockShape? ixs' s' = some (shp.drop ixs.length) := by
  obtain ⟨h1, h2⟩ := (blockShape?_eq_some_iff _ _ _).mp h
  rw [List.zipWith_append hl.symm] at h2
  have hsl := blockShape?_length h
  simp only [List.length_append] at h1 hsl
  have hs : shp.map some = (shp.take ixs.length).map some ++ (shp.drop ixs.length).map some := by
    rw [← List.map_append, List.take_append_drop]
  rw [hs] at h2
  have hlen : (List.zipWith (fun (ix : Index) c => ix.sizeOf? c) ixs s).length
      = ((shp.take ixs.length).map some).length := by
    simp only [List.length_zipWith, List.length_map, List.length_take]; omega
  obtain ⟨e1, e2⟩ := List.append_inj h2 hlen
  exact ⟨(blockShape?_eq_some_iff _ _ _).mpr ⟨hl.symm, e1⟩,
    (blockShape?_eq_some_iff _ _ _).mpr ⟨by omega, e2⟩⟩

/-- the address of the pre-transposed result lies in its box when the original address does -/
theorem box_pre (a a' b : Arr R) (p xa xa' q xb : List Nat) (hT : PreT a.ndim p xa xa' q)
    (hidx : a'.indices = permuted a.indices p)
    (L Rr : Sector) (hL : L.length = (freeAxes a.ndim xa).length)
    (oL oR : List Nat) (hoL : oL.length = (freeAxes a.ndim xa).length)
    (ho : inBox (Arr.blockShapeD (without a.indices xa ++ without b.indices xb) (L ++ Rr))
      (oL ++ oR) = true) :
    inBox (Arr.blockShapeD (without a'.indices xa' ++ without b.indices xb) (permuted L q ++ Rr))
      (permuted oL q ++ oR) = true := by
  have hnd : a'.ndim = a.ndim := by
    show a'.indices.length = _
    rw [hidx]; exact hT.lenT a.indices rfl
  have hleftlt : ∀ x ∈ freeAxes a.ndim xa, x < a.indices.length := fun x hx => (mem_freeAxes.mp hx).1
  have hIL : (without a.indices xa).length = (freeAxes a.ndim xa).length := by
    rw [without_eq_permuted_freeAxes]; exact permuted_length _ _ hleftlt
  have hw : without a'.indices xa' = permuted (without a.indices xa) q := by
    rw [without_eq_permuted_freeAxes, without_eq_permuted_freeAxes]
    have : a'.indices.length = a.ndim := hnd
    rw [this, hidx]
    exact hT.free a.indices rfl
  have hqlt : ∀ i ∈ q, i < (freeAxes a.ndim xa).length := mem_lt_of_perm hT.hq
  rw [hw]
  cases hbs : Arr.blockShape? (without a.indices xa ++ without b.indices xb) (L ++ Rr) with
  | none =>
    -- the box is empty: no free axes on the left at all
    have ho0 := ho
    rw [Arr.blockShapeD, hbs] at ho
    have hnil : oL ++ oR = [] := by
      have := inBox_length ho; simpa using this
    have hoLnil : oL = [] := (List.append_eq_nil_iff.mp hnil).1
    have h0 : (freeAxes a.ndim xa).length = 0 := by rw [← hoL, hoLnil]; rfl
    have hqnil : q = [] := by
      have := hT.hq.length_eq; rw [h0] at this; simpa using this
    have hLnil : L = [] := List.length_eq_zero_iff.mp (by rw [hL, h0])
    subst hqnil hLnil hoLnil
    have hILnil : without a.indices xa = [] := List.length_eq_zero_iff.mp (by rw [hIL, h0])
    rw [hILnil] at ho0 ⊢
    exact ho0
  | some shp =>
    rw [Arr.blockShapeD, hbs] at ho
    obtain ⟨s1, s2⟩ := blockShape?_split (by rw [hL, hIL]) hbs
    have hsl := blockShape?_length s1
    have hshp : shp = shp.take (without a.indices xa).length ++ shp.drop (without a.indices xa).length :=
      (List.take_append_drop _ _).symm
    have ho' : inBox (shp.take (without a.indices xa).length ++ shp.drop (without a.indices xa).length)
        (oL ++ oR) = true := by rw [← hshp]; exact ho
    rw [inBox_append (by rw [hoL, hsl.2, hIL])] at ho'
    simp only [Bool.and_eq_true] at ho'
    have hq' : q.Perm (List.range (without a.indices xa).length) := by rw [hIL]; exact hT.hq
    have s1' := blockShape?_permuted s1 q (by rw [hIL]; exact hqlt)
    rw [Arr.blockShapeD, blockShape?_append s1' s2]
    show inBox (permuted _ q ++ _) _ = true
    rw [inBox_append (by
      rw [permuted_length _ _ (by rw [hoL]; exact hqlt),
        permuted_length _ _ (by rw [hsl.2, hIL]; exact hqlt)])]
    simp only [Bool.and_eq_true]
    exact ⟨KoszulP.inBox_permuted _ oL q _ (by rw [hsl.2]; exact hq') rfl ho'.1, ho'.2⟩

theorem contractible_pre {a a' b : Arr R} {p xa xa' q xb : List Nat}
    (hc : ValidP.contractibleB a b xa xb = true) (hT : PreT a.ndim p xa xa' q)
    (hidx : a'.indices = permuted a.indices p) :
    ValidP.contractibleB a' b xa' xb = true := by
  have hlen := contractible_len hc
  unfold ValidP.contractibleB
  simp only [Bool.and_eq_true, beq_iff_eq, List.all_eq_true]
  refine ⟨by rw [hT.len, hlen], ?_⟩
  intro pr hpr
  obtain ⟨j, hj, rfl⟩ := List.mem_iff_getElem.mp hpr
  simp only [List.length_zip] at hj
  have hj1 : j < xa'.length := by omega
  have hj2 : j < xb.length := by omega
  have hj3 : j < xa.length := by rw [← hT.len]; exact hj1
  rw [List.getElem_zip]
  have hax : xa'[j] < p.length := by rw [hT.plen]; exact hT.ltA' _ (List.getElem_mem hj1)
  have hxj : p.getD xa'[j] 0 = xa.getD j 0 := by
    have h1 := congrArg (fun l => l[j]?) hT.hx
    simp only [permuted_getElem? p xa' (by rw [hT.plen]; exact hT.ltA'), List.getElem?_eq_getElem hj1,
      Option.bind_some, List.getElem?_eq_getElem hj3, List.getElem?_eq_getElem hax] at h1
    rw [List.getD_eq_getElem?_getD, List.getD_eq_getElem?_getD, List.getElem?_eq_getElem hax,
      List.getElem?_eq_getElem hj3]
    simpa using h1
  have hat := contractible_at hc j hj3
  simp only []
  rw [hidx, getD_permuted_ax a.indices p hT.plt _ hax, hxj]
  have hxb : xb[j] = xb.getD j 0 := by
    rw [List.getD_eq_getElem?_getD, List.getElem?_eq_getElem hj2]; rfl
  rw [hxb, hat.1, hat.2]
  simp

variable [AddMonoid R] [Mul R] [Neg R] [SignRing R]
open Lazy (sgnI)

theorem Adm.pre {a b : Arr R} {p xa xa' q xb : List Nat} (h : Adm a b xa xb)
    (hp : Arr.isPerm p a.ndim = true) (hT : PreT a.ndim p xa xa' q) :
    Adm (a.transposeF p) b xa' xb := by
  have hnd : (a.transposeF p).ndim = a.ndim := hT.lenT a.indices rfl
  refine ⟨(ValidP.validB_iff _).mpr (ValidP.transposeF_valid a p true ((ValidP.validB_iff a).mp h.va)
    h.fa hp), h.vb, h.fa, h.fb, h.sym, contractible_pre h.con hT rfl, hT.nA', h.nB, ?_, h.ltB⟩
  rw [hnd]; exact hT.ltA'

/-- **S6.**  Transposing the left operand first (and renumbering the contracted axes) gives a
    result with the same labels, charge and label sign whose value, at the address with the left
    free part re-listed along the induced permutation `q`, is the original value times the Koszul
    sign of `q` on the parities of the left free charges — i.e. the value of
    `transposeF c (q ++ id)`. -/
theorem tdotF_pretranspose (a b c : Arr R) (p xa xa' q xb : List Nat) (h : Adm a b xa xb)
    (hp : Arr.isPerm p a.ndim = true) (hT : PreT a.ndim p xa xa' q)
    (hc : a.tensordotF b (.pair (xa.map Int.ofNat) (xb.map Int.ofNat)) .blockwise = .ok c) :
    ∃ c', (a.transposeF p).tensordotF b (.pair (xa'.map Int.ofNat) (xb.map Int.ofNat)) .blockwise = .ok c'
      ∧ c'.oddpos = c.oddpos ∧ c'.charge = c.charge ∧ c'.sym = c.sym ∧ c'.fermi = c.fermi
      ∧ ∀ (L Rr : Sector) (oL oR : List Nat), L.length = (freeAxes a.ndim xa).length →
          oL.length = (freeAxes a.ndim xa).length →
          inBox (Arr.blockShapeD (without a.indices xa ++ without b.indices xb) (L ++ Rr))
            (oL ++ oR) = true →
          c'.elem (permuted L q ++ Rr) (permuted oL q ++ oR)
            = sgnI (koszul (L.map a.sym.parity) (some q)) (c.elem (L ++ Rr) (oL ++ oR)) := by
  have h' := h.pre hp hT
  have hsa := Arr.shapesOk_of_validB h.va
  have hsb := Arr.shapesOk_of_validB h.vb
  have T := transOf_transposeF a p h.va h.fa hp
  have hnd : (a.transposeF p).ndim = a.ndim := hT.lenT a.indices rfl
  rw [tensordotF_eq_core a b xa xb h] at hc
  rw [tensordotF_eq_core _ b xa' xb h']
  have hpar : (a.transposeF p).parity = a.parity := rfl
  have hodd : (a.transposeF p).oddpos = a.oddpos := rfl
  rw [hpar, hodd]
  cases hm : OddposP.mergeOddpos a.parity a.oddpos b.oddpos with
  | error e => rw [hm] at hc; cases hc
  | ok r =>
    rw [hm] at hc
    simp only [Except.map, Except.ok.injEq] at hc ⊢
    subst hc
    have F := coreT_frame a b xa xb h
    have F' := coreT_frame (a.transposeF p) b xa' xb h'
    refine ⟨_, rfl, rfl, ?_, ?_, ?_, ?_⟩
    · show (if (r.2 == -1) = true then (coreT (a.transposeF p) b xa' xb).phaseGlobal
          else coreT (a.transposeF p) b xa' xb).charge
        = (if (r.2 == -1) = true then (coreT a b xa xb).phaseGlobal else coreT a b xa xb).charge
      have e1 : ∀ T : Arr R, T.phaseGlobal.charge = T.charge := fun _ => rfl
      split <;> simp only [e1, F.charge, F'.charge] <;> rfl
    · show (if (r.2 == -1) = true then (coreT (a.transposeF p) b xa' xb).phaseGlobal
          else coreT (a.transposeF p) b xa' xb).sym
        = (if (r.2 == -1) = true then (coreT a b xa xb).phaseGlobal else coreT a b xa xb).sym
      have e1 : ∀ T : Arr R, T.phaseGlobal.sym = T.sym := fun _ => rfl
      split <;> simp only [e1, F.sym, F'.sym] <;> rfl
    · show (if (r.2 == -1) = true then (coreT (a.transposeF p) b xa' xb).phaseGlobal
          else coreT (a.transposeF p) b xa' xb).fermi
        = (if (r.2 == -1) = true then (coreT a b xa xb).phaseGlobal else coreT a b xa xb).fermi
      have e1 : ∀ T : Arr R, T.phaseGlobal.fermi = T.fermi := fun _ => rfl
      split <;> simp only [e1, F.fermi, F'.fermi] <;> rfl
    · intro L Rr oL oR hL hoL ho
      have ho' := box_pre a (a.transposeF p) b p xa xa' q xb hT rfl L Rr hL oL oR hoL ho
      have hoL' : (permuted oL q).length = (freeAxes (a.transposeF p).ndim xa').length := by
        rw [hnd, hT.freeLen, permuted_length _ _ (by rw [hoL]; exact mem_lt_of_perm hT.hq),
          hT.hq.length_eq, List.length_range]
      have hsign : ∀ (T : Arr R), Lazy.SignOk T → T.phases = [] → ∀ s o,
          (finish T r).elem s o = sgnI r.2 (T.elem s o) := by
        intro T hTs _ s o
        show (if (r.2 == -1) = true then T.phaseGlobal else T).elem s o = _
        by_cases hph : r.2 = -1
        · rw [hph]
          simp only [beq_self_eq_true, if_true]
          rw [Lazy.phaseGlobal_elem _ hTs, Lazy.sgnI_neg_one]
        · have : (r.2 == -1) = false := by simpa using hph
          simp only [this, Bool.false_eq_true, if_false]
          unfold sgnI
          rw [if_neg hph]
      have hok : ∀ (a0 b0 : Arr R) (x0 y0 : List Nat), CoreFrame a0 b0 x0 y0 (coreT a0 b0 x0 y0) →
          Lazy.SignOk (coreT a0 b0 x0 y0) := by
        intro a0 b0 x0 y0 F0
        refine ⟨by rw [F0.sectors]; exact nodup_eraseDups _, ?_⟩
        rw [F0.phases]; exact Lazy.PhOk.nil
      rw [hsign _ (hok _ _ _ _ F') F'.phases, hsign _ (hok _ _ _ _ F) F.phases,
        F'.elem _ _ _ hoL' ho', F.elem _ _ _ hoL ho,
        gradedContract_pre a (a.transposeF p) b p xa xa' q xb hsa hsb hT T L Rr hL oL oR hoL ho]
      have hr : r.2 = 1 ∨ r.2 = -1 ∨ (r.2 ≠ 1 ∧ r.2 ≠ -1) := by omega
      unfold sgnI
      by_cases h1 : r.2 = -1 <;> by_cases h2 : koszul (L.map a.sym.parity) (some q) = -1 <;> simp [h1, h2]

end s6

end RoutesP
end SymmModel
