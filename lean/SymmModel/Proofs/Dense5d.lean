/-
  SymmModel.Proofs.Dense5d — single-operand einsum with traced labels at dense level, part 3:
  the main theorem `einsum_dense_main`: `dense (einsum a) = np.einsum (dense a)`.

  New names live in `SymmModel.Dense5`.
-/
import SymmModel.Proofs.Dense5c

namespace SymmModel
namespace Dense5
open TdotP DenseP

variable {R : Type}

theorem inBox_of_locateAll {idx : List Index} {p : List Nat} {s : Sector} {off : List Nat}
    (hp : p.length = idx.length) (h : Arr.locateAll idx p = some (s, off)) :
    inBox (idx.map Index.sizeTotal) p = true := by
  induction idx generalizing p s off with
  | nil =>
    cases p with
    | nil => rfl
    | cons _ _ => simp at hp
  | cons ix idx ih =>
    cases p with
    | nil => simp at hp
    | cons q p =>
      rw [Arr.locateAll_cons] at h
      cases hco : Arr.locate (Index.sortCm ix.cm) q with
      | none => simp [hco] at h
      | some co =>
        cases hso : Arr.locateAll idx p with
        | none => simp [hco, hso] at h
        | some sf =>
          obtain ⟨c, o⟩ := co
          have hlt := Arr.locate_lt hco
          rw [sumN_sortCm] at hlt
          rw [List.map_cons, inBox_cons]
          obtain ⟨sr, offr⟩ := sf
          exact ⟨hlt, ih (by simpa using hp) hso⟩

theorem traced_box_eq (a : Arr R) {lhs rhs : List Nat} (hl : lhs.length = a.indices.length) :
    (einTraced lhs rhs).map (einSize a.shape lhs) = (tracedIdx a lhs rhs).map Index.sizeTotal := by
  simp only [tracedIdx, List.map_map]
  apply List.map_congr_left
  intro lab hlab
  obtain ⟨k, h1, h2⟩ := FuseP.indexOf?_of_mem (mem_einTraced.mp hlab).1
  have hk : k < a.indices.length := by rw [← hl]; exact FuseP.getElem?_lt h2
  simp [einSize, fpos, h1, Arr.shape, List.getD_eq_getElem?_getD, List.getElem?_map,
    List.getElem?_eq_getElem hk]

theorem perm_shape_eq {lhs rhs : List Nat} (hrsub : ∀ q ∈ rhs, q ∈ lhs) (shp : List Nat)
    (hlt : ∀ p ∈ Dense4.einPermOf lhs rhs, p < shp.length) :
    rhs.map (einSize shp lhs) = permuted shp (Dense4.einPermOf lhs rhs) := by
  rw [FuseP.permuted_eq_map shp 0 _ hlt]
  simp only [Dense4.einPermOf, List.map_map]
  apply List.map_congr_left
  intro q hq
  obtain ⟨k, hk1, _⟩ := FuseP.indexOf?_of_mem (hrsub q hq)
  simp [einSize, hk1]

/-- **einsum, dense form.**  For an equation whose output labels are distinct and occur once on
    the left, whose other labels occur exactly twice, on an array whose equally-labelled axes have
    equal charge tables: `to_dense(einsum(a)) = np.einsum(to_dense(a))`. -/
theorem einsum_dense_main [AddCommMonoid R] [Neg R] (a : Arr R) (lhs rhs : List Nat)
    (hl : lhs.length = a.ndim) (hok : EqOk lhs rhs) (htab : TabOk a lhs)
    (h2 : (einTracedPos lhs rhs).any (fun js => js.length != 2) = false)
    (hv : a.validB = true) (hf : a.fermi = false)
    (hne : a.indices.any (fun ix => ix.cm.isEmpty) = false) :
    ∃ c dA dC, einsumA a lhs rhs = .ok c ∧ c.indices = permuted a.indices (Dense4.einPermOf lhs rhs)
      ∧ Arr.toDenseA a = .ok dA ∧ Arr.toDenseA c = .ok dC
      ∧ dC.shape = (dA.einsumK lhs rhs).shape
      ∧ ∀ q, inBox dC.shape q = true → dC.get q = (dA.einsumK lhs rhs).get q := by
  classical
  have hl' : lhs.length = a.indices.length := hl
  have hperm : einPerm? lhs rhs = .ok (Dense4.einPermOf lhs rhs) := einPerm?_ok lhs rhs hok.rsub
  obtain ⟨hsh, hnds, hlens, _, _, hph⟩ := validB_facts a hv
  have hpa : a.phases = [] := hph hf
  have hda : allDistinct a.sectors = true := by
    simp only [Arr.validB, Bool.and_eq_true] at hv
    exact hv.1.1.2
  have hsa : a.shapesOk := Arr.shapesOk_of_validB hv
  have hlt : ∀ p ∈ Dense4.einPermOf lhs rhs, p < a.indices.length := by
    intro p hp; rw [← hl']; exact Dense4.einPermOf_lt hok.rsub p hp
  obtain ⟨C, hc0, hCi⟩ : ∃ C : Arr R, einsumA a lhs rhs = .ok C
      ∧ C.indices = permuted a.indices (Dense4.einPermOf lhs rhs) :=
    ⟨_, TdotP.einsumA_eq a lhs rhs _ hperm h2, rfl⟩
  have hCne : C.indices.any (fun ix => ix.cm.isEmpty) = false := by
    rw [hCi]
    rw [List.any_eq_false] at hne ⊢
    exact fun ix hix => hne ix (mem_of_mem_permuted hix)
  have hCsh : C.shape = permuted a.shape (Dense4.einPermOf lhs rhs) := by
    simp only [Arr.shape, hCi, permuted_map]
  obtain ⟨dA, hdA, hsA, hgA⟩ := Arr.toDenseA_get a hne
  obtain ⟨dC, hdC, hsC, hgC⟩ := Arr.toDenseA_get C hCne
  have hKsh : (dA.einsumK lhs rhs).shape = permuted a.shape (Dense4.einPermOf lhs rhs) := by
    rw [Blk.einsumK_shape, hsA]
    exact perm_shape_eq hok.rsub a.shape (by simpa [Arr.shape] using hlt)
  refine ⟨C, dA, dC, hc0, hCi, hdA, hdC, by rw [hsC, hCsh, hKsh], fun q hq => ?_⟩
  rw [hsC] at hq
  obtain ⟨s', o', hlq, hvC⟩ := hgC q hq
  rw [hvC]
  have hql : q.length = (permuted a.indices (Dense4.einPermOf lhs rhs)).length := by
    rw [inBox_length hq, hCsh, length_permuted _ _ (by simpa [Arr.shape] using hlt),
      length_permuted _ _ hlt]
  rw [hCi] at hlq
  have hQ : Located (permuted a.indices (Dense4.einPermOf lhs rhs)) q s' o' :=
    (located_iff_locateAll hql).mp hlq
  have hs'l : s'.length = rhs.length := by
    rw [hQ.2.1, length_permuted _ _ hlt]; simp [Dense4.einPermOf]
  have ho'l : o'.length = rhs.length := by
    rw [hQ.2.2.1, length_permuted _ _ hlt]; simp [Dense4.einPermOf]
  have hndP : ∀ ix ∈ permuted a.indices (Dense4.einPermOf lhs rhs), (ix.cm.map (·.1)).Nodup :=
    fun ix hix => hsh.1 ix (mem_of_mem_permuted hix)
  -- ===== the dense side =====
  let G : Option (Sector × List Nat) → R := fun x =>
    match x with
    | some (cs, u) => a.elem (asm (0, 0) lhs rhs s' cs) (asm 0 lhs rhs o' u)
    | none => 0
  have hdense : (dA.einsumK lhs rhs).get q
      = ((allIdx ((tracedIdx a lhs rhs).map Index.sizeTotal)).map
          (fun t => G (Arr.locateAll (tracedIdx a lhs rhs) t))).sum := by
    rw [Blk.einsumK_get dA lhs rhs (by rw [hKsh, ← hCsh]; exact hq), hsA, traced_box_eq a hl']
    apply DenseP.sum_map_congr
    intro t ht
    rw [mem_allIdx] at ht
    obtain ⟨cs, u, hlt'⟩ := Arr.locateAll_isSome (idx := tracedIdx a lhs rhs) (p := t) ht
    have htl : t.length = (tracedIdx a lhs rhs).length := by simpa using inBox_length ht
    have hT : Located (tracedIdx a lhs rhs) t cs u := (located_iff_locateAll htl).mp hlt'
    have hLa := located_asm a hl' hok htab hQ hT
    have hpl : (asm 0 lhs rhs q t).length = a.indices.length := by simp [hl']
    have hloc := (located_iff_locateAll hpl).mpr hLa
    have hbox : inBox a.shape (asm 0 lhs rhs q t) = true := inBox_of_locateAll hpl hloc
    obtain ⟨sec, off, hl2, hvA⟩ := hgA _ hbox
    rw [hloc] at hl2
    simp only [Option.some.injEq, Prod.mk.injEq] at hl2
    obtain ⟨rfl, rfl⟩ := hl2
    rw [einIdx_eq_asm, hvA, hlt']
  rw [hdense, DenseP.sum_locateAll]
  -- ===== the block side =====
  have hinbox : ∀ s ∈ a.sectors, einKeep lhs rhs s = true →
      permuted s (Dense4.einPermOf lhs rhs) = s' →
      inBox (rhs.map (einSize (Arr.blockShapeD a.indices s) lhs)) o' = true := by
    intro s hs _ hps
    obtain ⟨b, hb⟩ := Option.isSome_iff_exists.mp (alookup_isSome_iff.mpr hs)
    have hbs := hsh.2 s b hb
    have hbl : b.shape.length = a.indices.length := Arr.blockShape?_shape_length hbs
    have hD : Arr.blockShapeD a.indices s = b.shape := by simp [Arr.blockShapeD, hbs]
    rw [hD, perm_shape_eq hok.rsub b.shape (by rw [hbl]; exact hlt)]
    have := blockShape?_permuted hbs (Dense4.einPermOf lhs rhs) hlt
    rw [hps] at this
    exact Arr.locateAll_inBox hndP hql hlq this
  obtain ⟨c, hc, _, _, hval⟩ := einsumA_elem' a lhs rhs _ hperm h2 hpa hda hsa s' o' hinbox
  rw [hc0] at hc; injection hc with hc; subst hc
  rw [hval]
  -- ===== matching the two sums =====
  let K0 := a.sectors.filter (fun s => einKeep lhs rhs s && permuted s (Dense4.einPermOf lhs rhs) == s')
  let h : List (Charge × Nat) → R := fun e =>
    ((allIdx (e.map (·.2))).map (fun u => G (some (e.map (·.1), u)))).sum
  have hK0 : ∀ s ∈ K0, s ∈ a.sectors ∧ einKeep lhs rhs s = true
      ∧ permuted s (Dense4.einPermOf lhs rhs) = s' := by
    intro s hs
    simp only [K0, List.mem_filter, Bool.and_eq_true, beq_iff_eq] at hs
    exact ⟨hs.1, hs.2.1, hs.2.2⟩
  -- a contributing sector is the assembly of `s'` and its traced charges
  have hasm : ∀ s ∈ K0, asm (0, 0) lhs rhs s' ((eOf a lhs rhs s).map (·.1)) = s := by
    intro s hs
    obtain ⟨hs1, hs2, hs3⟩ := hK0 s hs
    have := asm_of_sector hok h2 (by rw [hlens s hs1, hl]) hs2 ((eOf a lhs rhs s).map (·.1))
      (by simp [eOf, List.map_map, Function.comp_def])
    rw [hs3] at this
    exact this
  have hLnd : (cartesian (tables (tracedIdx a lhs rhs))).Nodup := by
    apply cartesian_nodup
    intro l hlm
    simp only [tables, tracedIdx, List.map_map, List.mem_map] at hlm
    obtain ⟨lab, hlab, rfl⟩ := hlm
    obtain ⟨hfl, _⟩ := fpos_spec (mem_einTraced.mp hlab).1
    have hix : a.indices.getD (fpos lhs lab) default ∈ a.indices := by
      rw [List.getD_eq_getElem?_getD, List.getElem?_eq_getElem (by rw [← hl']; exact hfl)]
      exact List.getElem_mem _
    exact (nodup_keys_sortCm (hsh.1 _ hix)).of_map _
  -- the table entry of a label in a sector of the tables
  have hentry : ∀ (s : Sector) (shp : List Nat), Arr.blockShape? a.indices s = some shp →
      ∀ lab ∈ einTraced lhs rhs,
        (s.getD (fpos lhs lab) (0, 0), shp.getD (fpos lhs lab) 0)
          ∈ Index.sortCm (a.indices.getD (fpos lhs lab) default).cm := by
    intro s shp hbs lab hlab
    obtain ⟨hfl, _⟩ := fpos_spec (mem_einTraced.mp hlab).1
    have hfi : fpos lhs lab < a.indices.length := by rw [← hl']; exact hfl
    have hsl : s.length = a.indices.length := Arr.blockShape?_length hbs
    obtain ⟨d, hd1, hd2⟩ := blockShape?_getElem hbs (List.getElem?_eq_getElem hfi)
      (List.getElem?_eq_getElem (by rw [hsl]; exact hfi) : s[fpos lhs lab]? = some _)
    rw [mem_sortCm]
    have := alookup_eq_some_mem hd2
    simpa [List.getD_eq_getElem?_getD, List.getElem?_eq_getElem hfi,
      List.getElem?_eq_getElem (by rw [hsl]; exact hfi : fpos lhs lab < s.length), hd1] using this
  have hKsub : ∀ e ∈ K0.map (eOf a lhs rhs), e ∈ cartesian (tables (tracedIdx a lhs rhs)) := by
    intro e he
    obtain ⟨s, hs, rfl⟩ := List.mem_map.mp he
    obtain ⟨hs1, _, _⟩ := hK0 s hs
    obtain ⟨b, hb⟩ := Option.isSome_iff_exists.mp (alookup_isSome_iff.mpr hs1)
    have hbs := hsh.2 s b hb
    rw [mem_cartesian]
    simp only [eOf, tables, tracedIdx, List.map_map, List.forall₂_map_left_iff,
      List.forall₂_map_right_iff, List.forall₂_same]
    intro lab hlab
    have := hentry s b.shape hbs lab hlab
    simpa [Arr.blockShapeD, hbs] using this
  have hKnd : (K0.map (eOf a lhs rhs)).Nodup := by
    refine List.Nodup.map_on ?_ (hnds.filter _)
    intro x hx y hy hxy
    rw [← hasm x hx, ← hasm y hy, hxy]
  -- an assembled sector that is stored contributes
  have hzero : ∀ e ∈ cartesian (tables (tracedIdx a lhs rhs)), e ∉ K0.map (eOf a lhs rhs) →
      h e = 0 := by
    intro e he hnot
    have hns : asm (0, 0) lhs rhs s' (e.map (·.1)) ∉ a.sectors := by
      intro hmem
      apply hnot
      refine List.mem_map.mpr ⟨asm (0, 0) lhs rhs s' (e.map (·.1)), ?_, ?_⟩
      · simp only [K0, List.mem_filter, Bool.and_eq_true, beq_iff_eq]
        exact ⟨hmem, keep_asm h2 _ _, permuted_asm (0, 0) hok _ _ hs'l⟩
      · -- `eOf` of the assembled sector is `e`
        obtain ⟨b, hb⟩ := Option.isSome_iff_exists.mp (alookup_isSome_iff.mpr hmem)
        have hbs := hsh.2 _ b hb
        rw [mem_cartesian] at he
        have hel : e.length = (einTraced lhs rhs).length := by
          have := he.length_eq; simpa [tables, tracedIdx] using this
        apply List.ext_getElem (by simp [eOf, hel])
        intro j hj1 hj2
        simp only [eOf, List.length_map] at hj1
        simp only [eOf, List.getElem_map]
        have hlab : (einTraced lhs rhs)[j] ∈ einTraced lhs rhs := List.getElem_mem hj1
        obtain ⟨hfl, hfe⟩ := fpos_spec (mem_einTraced.mp hlab).1
        have hjj : indexOf? (einTraced lhs rhs) lhs[fpos lhs (einTraced lhs rhs)[j]] = some j := by
          rw [hfe]; exact FuseP.indexOf?_getElem_nodup (einTraced_nodup lhs rhs) hj1
        have hat := asm_traced (0, 0) (lhs := lhs) (rhs := rhs) s' (e.map (·.1)) hfl
          (by rw [hfe]; exact (mem_einTraced.mp hlab).2) hjj
        have hfst : (asm (0, 0) lhs rhs s' (e.map (·.1))).getD (fpos lhs (einTraced lhs rhs)[j]) (0, 0)
            = e[j].1 := by
          rw [List.getD_eq_getElem?_getD, hat]
          simp [List.getD_eq_getElem?_getD, List.getElem?_map, List.getElem?_eq_getElem hj2]
        -- the table entry: `e[j]` and the entry of the assembled sector have the same key
        have h1 := hentry _ b.shape hbs _ hlab
        have h2' : e[j] ∈ Index.sortCm (a.indices.getD (fpos lhs (einTraced lhs rhs)[j]) default).cm := by
          have := List.forall₂_iff_get.mp he
          have hg := this.2 j hj2 (by simpa [tables, tracedIdx] using hj1)
          simpa [tables, tracedIdx] using hg
        have hix : a.indices.getD (fpos lhs (einTraced lhs rhs)[j]) default ∈ a.indices := by
          rw [List.getD_eq_getElem?_getD, List.getElem?_eq_getElem (by rw [← hl']; exact hfl)]
          exact List.getElem_mem _
        have hkeys := nodup_keys_sortCm (hsh.1 _ hix)
        rw [hfst] at h1
        have e1 := alookup_of_mem_nodup hkeys h1
        have e2 := alookup_of_mem_nodup hkeys (show (e[j].1, e[j].2) ∈ _ from h2')
        rw [e1] at e2
        have e3 : b.shape.getD (fpos lhs (einTraced lhs rhs)[j]) 0 = e[j].2 := Option.some.inj e2
        rw [hfst]
        simp only [Arr.blockShapeD, hbs, Option.getD_some, e3]
    simp only [h, G]
    apply List.sum_eq_zero
    intro x hx
    obtain ⟨u, _, rfl⟩ := List.mem_map.mp hx
    exact Arr.elem_of_not_mem hns _
  rw [sum_eq_sum_of_support hLnd hKnd hKsub h hzero, List.map_map]
  apply DenseP.sum_map_congr
  intro s hs
  simp only [Function.comp, h, G]
  rw [hasm s hs, eOf_snd]
  rfl

end Dense5
end SymmModel
