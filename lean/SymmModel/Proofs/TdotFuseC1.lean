/-
  SymmModel.Proofs.TdotFuseC1 — contraction commutes with fusing (abelian): fusing the free legs
  of each operand (and the contracted legs into one bond) BEFORE the contraction, versus fusing the
  corresponding legs of the contraction result AFTERWARDS.  Both fused matrices hold, at positions
  that decode (each through its own fused index tables) to the same address of the plain
  contraction result, the element of that result.  Namespace `SymmModel.TdotP`.
-/
import SymmModel.Proofs.TdotFusedS4

namespace SymmModel
namespace TdotP
variable {R : Type}

/-- the plain (blockwise) contraction of the aligned operands -/
def cPlain [Zero R] [Add R] [Mul R] (A B : Arr R) (xa xb : List Nat) : Arr R :=
  tensordotBlockwise A B (freeAxes A.ndim xa) xa xb (freeAxes B.ndim xb)

/-- the legs of the result that come from the left operand -/
def resL (A : Arr R) (xa : List Nat) : List Nat := List.range (freeAxes A.ndim xa).length
/-- the legs of the result that come from the right operand -/
def resR (A B : Arr R) (xa xb : List Nat) : List Nat :=
  (List.range ((freeAxes A.ndim xa).length + (freeAxes B.ndim xb).length)).drop (freeAxes A.ndim xa).length

namespace FusedCtx
variable {A B : Arr R} {xa xb : List Nat}

theorem cPlain_validB [Zero R] [Add R] [Mul R] (h : FusedCtx A B xa xb) : (cPlain A B xa xb).validB = true := by
  have hd : ValidP.oppositeDualsB A B xa xb = true := by
    unfold ValidP.oppositeDualsB
    simp only [Bool.and_eq_true, beq_iff_eq, List.all_eq_true]
    refine ⟨h.len, ?_⟩
    intro p hp
    obtain ⟨t, ht1, ht2⟩ := mem_zip_getElem? hp
    have c2 := congrArg (fun l => l[t]?) h.dual
    simp only [List.getElem?_map, ht1, ht2, Option.map_some, Option.some.injEq] at c2
    simp only [bne_iff_ne, ne_eq]
    rw [c2]; cases (A.indices.getD p.1 default).dual <;> simp
  have := ValidP.tensordotBlockwise_valid A B xa xb ((ValidP.validB_iff _).mp h.vA)
    ((ValidP.validB_iff _).mp h.vB) h.sym h.fA hd h.nA h.nB h.rA h.rB
  rw [without_range, without_range] at this
  exact (ValidP.validB_iff _).mpr this

theorem cPlain_ndim [Zero R] [Add R] [Mul R] (_h : FusedCtx A B xa xb) :
    (cPlain A B xa xb).ndim = (freeAxes A.ndim xa).length + (freeAxes B.ndim xb).length :=
  tensordotBlockwise_rank A B xa xb

theorem cPlain_pair [Zero R] [Add R] [Mul R] (h : FusedCtx A B xa xb) :
    PairOk (cPlain A B xa xb) (resL A xa) (resR A B xa xb) := by
  have hl := List.length_pos_iff.mpr h.neL
  have hr := List.length_pos_iff.mpr h.neR
  refine ⟨?_, ?_, ?_⟩
  · intro e; have := congrArg List.length e; simp only [resL, List.length_range, List.length_nil] at this; omega
  · intro e; have := congrArg List.length e
    simp only [resR, List.length_drop, List.length_range, List.length_nil] at this; omega
  · rw [h.cPlain_ndim]
    unfold resL resR
    have : List.range (freeAxes A.ndim xa).length
        = (List.range ((freeAxes A.ndim xa).length + (freeAxes B.ndim xb).length)).take (freeAxes A.ndim xa).length := by
      rw [List.take_range]; congr 1; omega
    rw [this, List.take_append_drop]

/-- **contraction commutes with fusing** (aligned abelian operands; left, contracted and right
    group non-empty, any number of axes each).  `P` = product of the operands fused BEFORE the
    contraction (`fuse(a, [left, contracted])`, `fuse(b, [contracted, right])`, one bond);
    `Q` = the contraction result fused AFTERWARDS (`fuse(c, [left legs, right legs])`).  If a
    position `(cL, iL | cR, iR)` of `P` and a position `(c1, i1 | c2, i2)` of `Q` decode — each
    through the index tables of its own array — to the same sub-charges and sub-offsets
    `(Ls, oL | Rs, oR)`, then both hold the element of the plain result at `(Ls ++ Rs, oL ++ oR)`. -/
theorem fuse_commute [AddCommMonoid R] [Mul R] [Neg R]
    (hz1 : ∀ x : R, 0 * x = 0) (hz2 : ∀ x : R, x * 0 = 0) (h : FusedCtx A B xa xb)
    {cL cR c1 c2 : Charge} {iL iR dL dR i1 i2 d1 d2 : Nat} {Ls Rs : Sector} {oL oR : List Nat}
    (hdL : decAx A [freeAxes A.ndim xa, xa] 0 cL iL = some (Ls, oL))
    (hdR : decAx B [xb, freeAxes B.ndim xb] 1 cR iR = some (Rs, oR))
    (hzL : (FuseP.ixM A [freeAxes A.ndim xa, xa] 0).sizeOf? cL = some dL) (hiL : iL < dL)
    (hzR : (FuseP.ixM B [xb, freeAxes B.ndim xb] 1).sizeOf? cR = some dR) (hiR : iR < dR)
    (hd1 : decAx (cPlain A B xa xb) [resL A xa, resR A B xa xb] 0 c1 i1 = some (Ls, oL))
    (hd2 : decAx (cPlain A B xa xb) [resL A xa, resR A B xa xb] 1 c2 i2 = some (Rs, oR))
    (hz1' : (FuseP.ixM (cPlain A B xa xb) [resL A xa, resR A B xa xb] 0).sizeOf? c1 = some d1) (hi1 : i1 < d1)
    (hz2' : (FuseP.ixM (cPlain A B xa xb) [resL A xa, resR A B xa xb] 1).sizeOf? c2 = some d2) (hi2 : i2 < d2) :
    (tensordotBlockwise (FuseP.fusedArrM A [freeAxes A.ndim xa, xa])
        (FuseP.fusedArrM B [xb, freeAxes B.ndim xb]) [0] [1] [0] [1]).elem [cL, cR] [iL, iR]
      = (cPlain A B xa xb).elem (Ls ++ Rs) (oL ++ oR)
    ∧ (FuseP.fusedArrM (cPlain A B xa xb) [resL A xa, resR A B xa xb]).elem [c1, c2] [i1, i2]
      = (cPlain A B xa xb).elem (Ls ++ Rs) (oL ++ oR) := by
  refine ⟨fused_core hz1 hz2 h hdL hdR hzL hiL hzR hiR, ?_⟩
  have hvc := h.cPlain_validB
  have hva := FuseP.validArr_of_validB hvc
  have hfc : (cPlain A B xa xb).fermi = false :=
    (tensordotBlockwise_fields A B _ xa xb _).2.1.trans h.fA
  have hph : (cPlain A B xa xb).phases = [] := phases_nil_of_validB hvc hfc
  have hp := h.cPlain_pair
  have ean : A.indices.length = A.ndim := rfl
  have ebn : B.indices.length = B.ndim := rfl
  -- lengths of the decoded parts
  have gA0 : ([freeAxes A.ndim xa, xa] : List (List Nat))[0]? = some (freeAxes A.ndim xa) := rfl
  have gB1 : ([xb, freeAxes B.ndim xb] : List (List Nat))[1]? = some (freeAxes B.ndim xb) := rfl
  obtain ⟨shpL, hshpL, hboxL⟩ := decAx_facts h.vaA h.pairA.groupsOk gA0 hdL hzL hiL
  obtain ⟨shpR, hshpR, hboxR⟩ := decAx_facts h.vaB h.pairB.groupsOk gB1 hdR hzR hiR
  have hLlen : Ls.length = (freeAxes A.ndim xa).length := by
    rw [(blockShape?_length hshpL).1, permuted_length _ _ (by simpa [ean] using mem_freeAxes_lt)]
  have hRlen : Rs.length = (freeAxes B.ndim xb).length := by
    rw [(blockShape?_length hshpR).1, permuted_length _ _ (by simpa [ebn] using mem_freeAxes_lt)]
  have hoLlen : oL.length = (freeAxes A.ndim xa).length := by
    rw [inBox_length hboxL, (blockShape?_length hshpL).2,
      permuted_length _ _ (by simpa [ean] using mem_freeAxes_lt)]
  have hoRlen : oR.length = (freeAxes B.ndim xb).length := by
    rw [inBox_length hboxR, (blockShape?_length hshpR).2,
      permuted_length _ _ (by simpa [ebn] using mem_freeAxes_lt)]
  have hsl : (Ls ++ Rs).length = (freeAxes A.ndim xa).length + (freeAxes B.ndim xb).length := by
    rw [List.length_append, hLlen, hRlen]
  have hol : (oL ++ oR).length = (freeAxes A.ndim xa).length + (freeAxes B.ndim xb).length := by
    rw [List.length_append, hoLlen, hoRlen]
  refine pair_elem hva hph hp hd1 hd2 hz1' hi1 hz2' hi2 (s := Ls ++ Rs) (offs := oL ++ oR)
    (by rw [h.cPlain_ndim]; exact hsl) (by rw [h.cPlain_ndim]; exact hol) ?_ ?_ ?_ ?_
  · unfold resL; rw [ValidP.permuted_range_take, ← hLlen]; simp
  · unfold resR; rw [← hsl, ValidP.permuted_range_drop, ← hLlen]; simp
  · unfold resL; rw [ValidP.permuted_range_take, ← hoLlen]; simp
  · unfold resR; rw [← hol, ValidP.permuted_range_drop, ← hoLlen]; simp

end FusedCtx

end TdotP
end SymmModel
