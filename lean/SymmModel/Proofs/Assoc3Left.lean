/-
  SymmModel.Proofs.Assoc3Left — S7 of property C04 with the WEAK guard (`contractibleCommonB`) on ALL
  calls: route `(A·B)·C`.
  The statements and proofs are those of `Assoc2Left` with `Tri` (guards `contractibleB`) replaced by
  `TriW`; definitions (`axesAB`, `S3`, `W3`, `triplesL/R`, `FreeAddr`, `IsTriple`, …) are shared.
  Namespace `SymmModel.Assoc3P`.
-/
import SymmModel.Proofs.Assoc3Frame

namespace SymmModel
namespace Assoc3P
open TdotP GradedP RoutesP KoszulP AssocP Assoc2P
open Lazy (sgnI)
set_option linter.unusedSectionVars false

variable {R : Type}

section signL
variable [AddMonoid R] [Mul R] [Neg R] [SignRing R]
variable {A B C AB : Arr R} {xa1 xa3 xb1 xb2 xc2 xc3 : List Nat} {ph : Int}

/-- **sign of a triple, route `(A·B)·C`** -/
theorem sign_left_w (I : Inter A B xa1 xb1 AB ph) (T : TriW A B C xa1 xa3 xb1 xb2 xc2 xc3)
    (sa sb sc : Sector) (hsa : sa.length = A.ndim) (hsb : sb.length = B.ndim)
    (hsc : sc.length = C.ndim)
    (hal2 : permuted sc xc2 = permuted sb xb2) (hal3 : permuted sc xc3 = permuted sa xa3) :
    gradedSign AB C (axesAB A.ndim B.ndim xa1 xa3 xb1 xb2) (xc3 ++ xc2) (permuted sa (freeAxes A.ndim xa1) ++ permuted sb (freeAxes B.ndim xb1)) sc * gradedSign A B xa1 xb1 sa sb
      = S3 A B C xa1 xa3 xb1 xb2 xc2 xc3 (sa, sb, sc) := by
  have hsym := T.hAB.sym
  have hparA : (A.parities sa).length = A.ndim := by unfold Arr.parities; rw [List.length_map, hsa]
  have hparB : (B.parities sb).length = B.ndim := by unfold Arr.parities; rw [List.length_map, hsb]
  have hpA : (permuted (A.parities sa) (freeAxes A.ndim xa1)).length = (freeAxes A.ndim xa1).length :=
    permuted_length _ _ (by rw [hparA]; exact T.mA.flt)
  have hpB : (permuted (B.parities sb) (freeAxes B.ndim xb1)).length = (freeAxes B.ndim xb1).length :=
    permuted_length _ _ (by rw [hparB]; exact T.mB.flt)
  -- the Koszul sign of the intermediate sector
  have k1 : koszul (AB.parities (permuted sa (freeAxes A.ndim xa1) ++ permuted sb (freeAxes B.ndim xb1))) (some (freeAxes AB.ndim (axesAB A.ndim B.ndim xa1 xa3 xb1 xb2) ++ (axesAB A.ndim B.ndim xa1 xa3 xb1 xb2)))
      = koszul (permuted (A.parities sa) (freeAxes A.ndim xa1)) (some ((freeAxes (freeAxes A.ndim xa1).length (positions (freeAxes A.ndim xa1) xa3)) ++ (positions (freeAxes A.ndim xa1) xa3)))
        * koszul (permuted (B.parities sb) (freeAxes B.ndim xb1)) (some ((freeAxes (freeAxes B.ndim xb1).length (positions (freeAxes B.ndim xb1) xb2)) ++ (positions (freeAxes B.ndim xb1) xb2)))
        * sgn (oddCount (A.parities sa) xa3 * oddCount (B.parities sb) (freeAxes B.ndim (xb1 ++ xb2))) := by
    rw [AssocP.parities_AB I hsym, I.ndim]
    unfold Assoc2P.axesAB
    rw [freeAxes_two _ _ _ _ T.mA.pos_lt]
    have := koszul_two_cross (permuted (A.parities sa) (freeAxes A.ndim xa1)) (permuted (B.parities sb) (freeAxes B.ndim xb1))
      (freeAxes (freeAxes A.ndim xa1).length (positions (freeAxes A.ndim xa1) xa3)) (positions (freeAxes A.ndim xa1) xa3) (freeAxes (freeAxes B.ndim xb1).length (positions (freeAxes B.ndim xb1) xb2)) (positions (freeAxes B.ndim xb1) xb2) (hpA.symm ▸ perm_left T.mA.pos_nodup T.mA.pos_lt)
      (hpB.symm ▸ perm_left T.mB.pos_nodup T.mB.pos_lt)
    rw [hpA] at this
    rw [this, oddCount_permuted _ _ _ (by rw [hparA]; exact T.mA.flt) T.mA.pos_lt, T.mA.pos_spec,
      oddCount_permuted _ _ _ (by rw [hparB]; exact T.mB.flt) (fun x hx => (mem_freeAxes.mp hx).1),
      T.mB.free_spec]
  have kA := koszul_LL T.mA (A.parities sa) hparA
  rw [koszul_swap_last T.mA] at kA
  have kB := T.mB.koszul_left (B.parities sb) hparB
  have kC : koszul (C.parities sc) (some ((xc3 ++ xc2) ++ freeAxes C.ndim (xc3 ++ xc2)))
      = koszul (C.parities sc) (some (xc2 ++ xc3 ++ (freeAxes C.ndim (xc2 ++ xc3))))
        * sgn (oddCount (C.parities sc) xc2 * oddCount (C.parities sc) xc3) := by
    rw [freeM_comm]; exact koszul_swap_first T.mC _
  have o1 : oddContracted AB (axesAB A.ndim B.ndim xa1 xa3 xb1 xb2) (permuted sa (freeAxes A.ndim xa1) ++ permuted sb (freeAxes B.ndim xb1)) = oddContracted A xa3 sa + oddContracted B xb2 sb := by
    unfold oddContracted
    rw [readAB_ax T.mA T.mB sa sb hsa hsb, List.filter_append, List.length_append, I.sym, hsym]
  have o2 : ketOdd AB (axesAB A.ndim B.ndim xa1 xa3 xb1 xb2) (permuted sa (freeAxes A.ndim xa1) ++ permuted sb (freeAxes B.ndim xb1)) = ketOdd A xa3 sa + ketOdd B xb2 sb := by
    unfold Assoc2P.axesAB
    rw [ketOdd_append, ketOdd_AB_left I T.mA sa sb hsa]
    congr 1
    exact AssocP.ketOdd_AB I hsym T.mB sa sb hsa hsb
  have c1 : oddCount (A.parities sa) xa1 = oddContracted A xa1 sa :=
    oddCount_par A sa xa1 (by rw [hsa]; exact T.mA.lt1)
  have c3 : oddCount (A.parities sa) xa3 = oddContracted A xa3 sa :=
    oddCount_par A sa xa3 (by rw [hsa]; exact T.mA.lt2)
  have d2 : oddCount (C.parities sc) xc2 = oddContracted B xb2 sb := by
    rw [oddCount_par C sc xc2 (by rw [hsc]; exact T.mC.lt1)]
    unfold oddContracted; rw [hal2, T.hBC.sym]
  have d3 : oddCount (C.parities sc) xc3 = oddContracted A xa3 sa := by
    rw [oddCount_par C sc xc3 (by rw [hsc]; exact T.mC.lt2)]
    unfold oddContracted; rw [hal3, ← T.hBC.sym, ← hsym]
  rw [gradedSign_sgn, gradedSign_sgn, k1, kC, o1, o2, d2, d3]
  unfold Assoc2P.S3
  simp only []
  rw [c1] at kA
  rw [c3] at kA ⊢
  -- names
  generalize oddContracted A xa1 sa = K1 at *
  generalize oddContracted A xa3 sa = K3 at *
  generalize oddContracted B xb2 sb = K2 at *
  generalize oddCount (B.parities sb) (freeAxes B.ndim (xb1 ++ xb2)) = m at *
  generalize ketOdd A xa1 sa = e1 at *
  generalize ketOdd A xa3 sa = e3 at *
  generalize ketOdd B xb2 sb = e2 at *
  generalize koszul (A.parities sa) (some ((freeAxes A.ndim xa1) ++ xa1)) = a1 at *
  generalize koszul (permuted (A.parities sa) (freeAxes A.ndim xa1)) (some ((freeAxes (freeAxes A.ndim xa1).length (positions (freeAxes A.ndim xa1) xa3)) ++ (positions (freeAxes A.ndim xa1) xa3))) = a2 at *
  generalize koszul (B.parities sb) (some (xb1 ++ (freeAxes B.ndim xb1))) = b1 at *
  generalize koszul (permuted (B.parities sb) (freeAxes B.ndim xb1)) (some ((freeAxes (freeAxes B.ndim xb1).length (positions (freeAxes B.ndim xb1) xb2)) ++ (positions (freeAxes B.ndim xb1) xb2))) = b2 at *
  generalize koszul (A.parities sa) (some ((freeAxes A.ndim (xa1 ++ xa3)) ++ xa1 ++ xa3)) = A' at *
  generalize koszul (B.parities sb) (some (xb1 ++ (freeAxes B.ndim (xb1 ++ xb2)) ++ xb2)) = B' at *
  generalize koszul (C.parities sc) (some (xc2 ++ xc3 ++ (freeAxes C.ndim (xc2 ++ xc3)))) = C' at *
  have key : sgn (K3 * m) * sgn (K2 * K3) * sgn (tri (K3 + K2)) * sgn (e3 + e2) * sgn (tri K1) * sgn e1
      * sgn (K1 * K3)
      = sgn (K3 * m) * sgn (tri (K1 + K3)) * sgn (tri K2) * sgn (e1 + e3 + e2) := by
    rw [← sgn_add, ← sgn_add, ← sgn_add, ← sgn_add, ← sgn_add, ← sgn_add, ← sgn_add, ← sgn_add, ← sgn_add]
    apply sgn_congr
    have t1 := tri_add K3 K2
    have t2 := tri_add K1 K3
    have e : K2 * K3 = K3 * K2 := Nat.mul_comm _ _
    generalize K3 * m = x1 at *
    generalize K3 * K2 = x2 at *
    generalize K1 * K3 = x3 at *
    omega
  calc a2 * b2 * sgn (K3 * m) * (C' * sgn (K2 * K3)) * sgn (tri (K3 + K2)) * sgn (e3 + e2)
        * (a1 * b1 * sgn (tri K1) * sgn e1)
      = (a1 * a2) * (b1 * b2) * C' * (sgn (K3 * m) * sgn (K2 * K3) * sgn (tri (K3 + K2)) * sgn (e3 + e2)
          * sgn (tri K1) * sgn e1) := by ring
    _ = A' * B' * C' * (sgn (K3 * m) * sgn (K2 * K3) * sgn (tri (K3 + K2)) * sgn (e3 + e2)
          * sgn (tri K1) * sgn e1 * sgn (K1 * K3)) := by rw [kA, kB]; ring
    _ = A' * B' * C' * sgn (K3 * m) * sgn (tri (K1 + K3)) * sgn (tri K2) * sgn (e1 + e3 + e2) := by
        rw [key]; ring

end signL

section valueL
variable [AddCommMonoid R] [Mul R] [Neg R] [SignRing R] [AssocLaws R]
variable {A B C AB : Arr R} {xa1 xa3 xb1 xb2 xc2 xc3 : List Nat} {ph : Int}

/-- shape of a stored sector of `A·B`, read at the second call's axes -/
theorem shapeAB_w (I : Inter A B xa1 xb1 AB ph) (T : TriW A B C xa1 xa3 xb1 xb2 xc2 xc3)
    {sa sb : Sector} (hA : sa ∈ A.sectors) (hB : sb ∈ B.sectors)
    (hal : permuted sb xb1 = permuted sa xa1) :
    permuted (Arr.blockShapeD AB.indices (permuted sa (freeAxes A.ndim xa1) ++ permuted sb (freeAxes B.ndim xb1))) (axesAB A.ndim B.ndim xa1 xa3 xb1 xb2)
        = permuted (Arr.blockShapeD A.indices sa) xa3 ++ permuted (Arr.blockShapeD B.indices sb) xb2
      ∧ permuted (Arr.blockShapeD (without A.indices xa1 ++ without B.indices xb1) (permuted sa (freeAxes A.ndim xa1) ++ permuted sb (freeAxes B.ndim xb1)))
          (freeAxes AB.ndim (axesAB A.ndim B.ndim xa1 xa3 xb1 xb2))
        = permuted (Arr.blockShapeD A.indices sa) (freeAxes A.ndim (xa1 ++ xa3)) ++ permuted (Arr.blockShapeD B.indices sb) (freeAxes B.ndim (xb1 ++ xb2))
      ∧ (Arr.blockShapeD (without A.indices xa1 ++ without B.indices xb1) (permuted sa (freeAxes A.ndim xa1) ++ permuted sb (freeAxes B.ndim xb1))).length = AB.ndim
      ∧ permuted (Arr.blockShapeD (without A.indices xa1 ++ without B.indices xb1) (permuted sa (freeAxes A.ndim xa1) ++ permuted sb (freeAxes B.ndim xb1))) (axesAB A.ndim B.ndim xa1 xa3 xb1 xb2)
        = permuted (Arr.blockShapeD A.indices sa) xa3 ++ permuted (Arr.blockShapeD B.indices sb) xb2 := by
  have hsa := Arr.shapesOk_of_validB T.hAB.va
  have hsb := Arr.shapesOk_of_validB T.hAB.vb
  obtain ⟨shpA, hA1, hA2, hA3, hA4⟩ := shape_of_mem hsa hA
  obtain ⟨shpB, hB1, hB2, hB3, hB4⟩ := shape_of_mem hsb hB
  have eAB : Arr.blockShapeD AB.indices (permuted sa (freeAxes A.ndim xa1) ++ permuted sb (freeAxes B.ndim xb1))
      = permuted shpA (freeAxes A.ndim xa1) ++ permuted shpB (freeAxes B.ndim xb1) := by
    show (Arr.blockShape? AB.indices _).getD [] = _
    rw [I.shape hsa hsb hA hB hal, hA2, hB2]; rfl
  have eU : Arr.blockShapeD (without A.indices xa1 ++ without B.indices xb1)
        (permuted sa (freeAxes A.ndim xa1) ++ permuted sb (freeAxes B.ndim xb1))
      = permuted shpA (freeAxes A.ndim xa1) ++ permuted shpB (freeAxes B.ndim xb1) := by
    show (Arr.blockShape? _ _).getD [] = _
    rw [I.shapeU hsa hsb hA hB hal, hA2, hB2]; rfl
  rw [eAB, eU, hA2, hB2]
  refine ⟨readAB_ax T.mA T.mB shpA shpB hA3 hB3, ?_, ?_, readAB_ax T.mA T.mB shpA shpB hA3 hB3⟩
  · rw [I.ndim]; exact readAB_free T.mA T.mB shpA shpB hA3 hB3
  · rw [I.ndim, List.length_append, permuted_length _ _ (by rw [hA3]; exact T.mA.flt),
      permuted_length _ _ (by rw [hB3]; exact T.mB.flt)]

/-- the value of `A·B` at the address the second call reads -/
theorem left_inner_w (I : Inter A B xa1 xb1 AB ph) (T : TriW A B C xa1 xa3 xb1 xb2 xc2 xc3)
    {LA LM LC : Sector} {oA oM oC : List Nat}
    (fa : FreeAddr A B C xa1 xa3 xb1 xb2 xc2 xc3 LA LM LC oA oM oC)
    {sa sb : Sector} (hA : sa ∈ A.sectors) (hB : sb ∈ B.sectors)
    (hal : permuted sb xb1 = permuted sa xa1)
    (hLA : permuted sa (freeAxes A.ndim (xa1 ++ xa3)) = LA) (hLM : permuted sb (freeAxes B.ndim (xb1 ++ xb2)) = LM)
    (k32 : List Nat)
    (hk : inBox (permuted (Arr.blockShapeD AB.indices (permuted sa (freeAxes A.ndim xa1) ++ permuted sb (freeAxes B.ndim xb1))) (axesAB A.ndim B.ndim xa1 xa3 xb1 xb2)) k32 = true) :
    AB.elem (permuted sa (freeAxes A.ndim xa1) ++ permuted sb (freeAxes B.ndim xb1)) (mergeIdx 0 AB.ndim (axesAB A.ndim B.ndim xa1 xa3 xb1 xb2) (freeAxes AB.ndim (axesAB A.ndim B.ndim xa1 xa3 xb1 xb2)) k32 (oA ++ oM))
      = sgnI ph (gradedContract A B xa1 xb1 (permuted sa (freeAxes A.ndim xa1) ++ permuted sb (freeAxes B.ndim xb1)) ((mergeIdx 0 AB.ndim (axesAB A.ndim B.ndim xa1 xa3 xb1 xb2) (freeAxes AB.ndim (axesAB A.ndim B.ndim xa1 xa3 xb1 xb2)) k32 (oA ++ oM)).take (freeAxes A.ndim xa1).length)
          ((mergeIdx 0 AB.ndim (axesAB A.ndim B.ndim xa1 xa3 xb1 xb2) (freeAxes AB.ndim (axesAB A.ndim B.ndim xa1 xa3 xb1 xb2)) k32 (oA ++ oM)).drop (freeAxes A.ndim xa1).length)) := by
  have hsa := Arr.shapesOk_of_validB T.hAB.va
  have hsb := Arr.shapesOk_of_validB T.hAB.vb
  obtain ⟨s1, s2, s3, s4⟩ := shapeAB_w I T hA hB hal
  obtain ⟨shpA, hA1, hA2, hA3, hA4⟩ := shape_of_mem hsa hA
  obtain ⟨shpB, hB1, hB2, hB3, hB4⟩ := shape_of_mem hsb hB
  have hlen : (mergeIdx 0 AB.ndim (axesAB A.ndim B.ndim xa1 xa3 xb1 xb2) (freeAxes AB.ndim (axesAB A.ndim B.ndim xa1 xa3 xb1 xb2)) k32 (oA ++ oM)).length = AB.ndim := mergeIdx_length _ _ _ _ _ _
  have hsplit : (mergeIdx 0 AB.ndim (axesAB A.ndim B.ndim xa1 xa3 xb1 xb2) (freeAxes AB.ndim (axesAB A.ndim B.ndim xa1 xa3 xb1 xb2)) k32 (oA ++ oM)) = (mergeIdx 0 AB.ndim (axesAB A.ndim B.ndim xa1 xa3 xb1 xb2) (freeAxes AB.ndim (axesAB A.ndim B.ndim xa1 xa3 xb1 xb2)) k32 (oA ++ oM)).take (freeAxes A.ndim xa1).length ++ (mergeIdx 0 AB.ndim (axesAB A.ndim B.ndim xa1 xa3 xb1 xb2) (freeAxes AB.ndim (axesAB A.ndim B.ndim xa1 xa3 xb1 xb2)) k32 (oA ++ oM)).drop (freeAxes A.ndim xa1).length :=
    (List.take_append_drop _ _).symm
  have htl : ((mergeIdx 0 AB.ndim (axesAB A.ndim B.ndim xa1 xa3 xb1 xb2) (freeAxes AB.ndim (axesAB A.ndim B.ndim xa1 xa3 xb1 xb2)) k32 (oA ++ oM)).take (freeAxes A.ndim xa1).length).length = (freeAxes A.ndim xa1).length := by
    rw [List.length_take, hlen, I.ndim]; omega
  conv => lhs; rw [hsplit]
  apply I.elem _ _ _ htl
  rw [← hsplit]
  have := inBox_mergeIdx
    (shape := Arr.blockShapeD (without A.indices xa1 ++ without B.indices xb1) (permuted sa (freeAxes A.ndim xa1) ++ permuted sb (freeAxes B.ndim xb1)))
    (axes := (axesAB A.ndim B.ndim xa1 xa3 xb1 xb2)) (k := k32) (f := oA ++ oM)
    (by rw [s3, I.ndim]; exact axesAB_lt T.mA T.mB)
    (by rw [s4, ← s1]; exact hk)
    (by
      rw [s3, s2]
      have hlsA : (permuted (Arr.blockShapeD A.indices sa) (freeAxes A.ndim (xa1 ++ xa3))).length = (freeAxes A.ndim (xa1 ++ xa3)).length :=
        permuted_length _ _ (by intro x hx; rw [hA2, hA3]; exact (mem_freeAxes.mp hx).1)
      rw [inBox_append (by rw [fa.loA, hlsA]), Bool.and_eq_true]
      constructor
      · have := fa.bA
        rw [← hLA, shapeD_free hsa hA _ (fun x hx => (mem_freeAxes.mp hx).1)] at this
        exact this
      · have := fa.bM
        rw [← hLM, shapeD_free hsb hB _ (fun x hx => (mem_freeAxes.mp hx).1)] at this
        exact this)
  rw [s3] at this
  exact this

/-- **route `(A·B)·C`** for a triangle -/
theorem route_left_w (I : Inter A B xa1 xb1 AB ph) (T : TriW A B C xa1 xa3 xb1 xb2 xc2 xc3)
    {LA LM LC : Sector} {oA oM oC : List Nat}
    (fa : FreeAddr A B C xa1 xa3 xb1 xb2 xc2 xc3 LA LM LC oA oM oC) :
    gradedContract AB C (axesAB A.ndim B.ndim xa1 xa3 xb1 xb2) (xc3 ++ xc2) (LA ++ LM ++ LC) (oA ++ oM) oC
      = sgnI ph (((triplesL A B C AB xa1 xa3 xb1 xb2 xc2 xc3 (LA ++ LM ++ LC)).map
          (fun t => sgnI (S3 A B C xa1 xa3 xb1 xb2 xc2 xc3 t)
            (W3 A B C xa1 xa3 xb1 xb2 xc2 xc3 oA oM oC t))).sum) := by
  have hsa := Arr.shapesOk_of_validB T.hAB.va
  have hsb := Arr.shapesOk_of_validB T.hAB.vb
  have hsc := Arr.shapesOk_of_validB T.hBC.vb
  have hlenAC : xa3.length = xc3.length := commonB_len T.conAC
  let g : Sector × Sector → Sector × Sector → R := fun p q =>
    sgnI (gradedSign AB C (axesAB A.ndim B.ndim xa1 xa3 xb1 xb2) (xc3 ++ xc2) p.1 p.2 * gradedSign A B xa1 xb1 q.1 q.2)
      (((allIdx (permuted (Arr.blockShapeD AB.indices p.1) (axesAB A.ndim B.ndim xa1 xa3 xb1 xb2))).map
        (fun k32 => ((allIdx (permuted (Arr.blockShapeD A.indices q.1) xa1)).map (fun k1 =>
          A.elem q.1 (mergeIdx 0 A.ndim xa1 (freeAxes A.ndim xa1) k1 ((mergeIdx 0 AB.ndim (axesAB A.ndim B.ndim xa1 xa3 xb1 xb2) (freeAxes AB.ndim (axesAB A.ndim B.ndim xa1 xa3 xb1 xb2)) k32 (oA ++ oM)).take (freeAxes A.ndim xa1).length))
            * B.elem q.2 (mergeIdx 0 B.ndim xb1 (freeAxes B.ndim xb1) k1 ((mergeIdx 0 AB.ndim (axesAB A.ndim B.ndim xa1 xa3 xb1 xb2) (freeAxes AB.ndim (axesAB A.ndim B.ndim xa1 xa3 xb1 xb2)) k32 (oA ++ oM)).drop (freeAxes A.ndim xa1).length))
            * C.elem p.2 (mergeIdx 0 C.ndim (xc3 ++ xc2) (freeAxes C.ndim (xc3 ++ xc2)) k32 oC))).sum)).sum)
  unfold gradedContract Assoc2P.triplesL
  refine Eq.trans ?_ (sum_flat _ _ (fun p q => (q.1, q.2, p.2)) ph g _ ?_)
  · congr 1
    apply List.map_congr_left
    rintro ⟨sab, sc⟩ hp
    obtain ⟨hsabM, _, _, hs⟩ := mem_storedPairs.mp hp
    obtain ⟨sa, hA, sb, hB, hal, hsab⟩ := I.mem_sectors.mp hsabM
    simp only at hsab hs ⊢
    subst hsab
    obtain ⟨hLA, hLM, _⟩ := left_split I T.mA T.mB fa.lA fa.lM (Arr.sector_length hsa hA)
      (Arr.sector_length hsb hB) hs
    have hcp : contractPair AB C (axesAB A.ndim B.ndim xa1 xa3 xb1 xb2) (xc3 ++ xc2) (oA ++ oM) oC ((permuted sa (freeAxes A.ndim xa1) ++ permuted sb (freeAxes B.ndim xb1)), sc)
        = ((allIdx (permuted (Arr.blockShapeD AB.indices (permuted sa (freeAxes A.ndim xa1) ++ permuted sb (freeAxes B.ndim xb1))) (axesAB A.ndim B.ndim xa1 xa3 xb1 xb2))).map (fun k32 =>
            sgnI ph (((storedPairs A B (freeAxes A.ndim xa1) xa1 xb1 (freeAxes B.ndim xb1) (permuted sa (freeAxes A.ndim xa1) ++ permuted sb (freeAxes B.ndim xb1))).map (fun q =>
              sgnI (gradedSign A B xa1 xb1 q.1 q.2)
                (((allIdx (permuted (Arr.blockShapeD A.indices q.1) xa1)).map (fun k1 =>
                  A.elem q.1 (mergeIdx 0 A.ndim xa1 (freeAxes A.ndim xa1) k1 ((mergeIdx 0 AB.ndim (axesAB A.ndim B.ndim xa1 xa3 xb1 xb2) (freeAxes AB.ndim (axesAB A.ndim B.ndim xa1 xa3 xb1 xb2)) k32 (oA ++ oM)).take (freeAxes A.ndim xa1).length))
                    * B.elem q.2 (mergeIdx 0 B.ndim xb1 (freeAxes B.ndim xb1) k1
                        ((mergeIdx 0 AB.ndim (axesAB A.ndim B.ndim xa1 xa3 xb1 xb2) (freeAxes AB.ndim (axesAB A.ndim B.ndim xa1 xa3 xb1 xb2)) k32 (oA ++ oM)).drop (freeAxes A.ndim xa1).length)))).sum))).sum)
              * C.elem sc (mergeIdx 0 C.ndim (xc3 ++ xc2) (freeAxes C.ndim (xc3 ++ xc2)) k32 oC))).sum := by
      unfold contractPair
      congr 1
      apply List.map_congr_left
      intro k32 hk
      unfold contractTerm
      rw [left_inner_w I T fa hA hB hal hLA hLM k32 (mem_allIdx_iff.mp hk)]
      rfl
    rw [hcp]
    exact expand_left' _ _ _ _ ph _ (gradedSign_pm _ _ _ _ _ _) I.pm
      (fun q => gradedSign_pm _ _ _ _ _ _) _ _
  · rintro ⟨sab, sc⟩ hp ⟨sa, sb⟩ hq
    obtain ⟨_, hC, hal23, hs⟩ := mem_storedPairs.mp hp
    obtain ⟨hA, hB, hal, hsab⟩ := mem_storedPairs.mp hq
    simp only at hsab hs hal23 hC ⊢
    subst hsab
    have hlsa := Arr.sector_length hsa hA
    have hlsb := Arr.sector_length hsb hB
    have hlsc := Arr.sector_length hsc hC
    rw [readAB_ax T.mA T.mB sa sb hlsa hlsb, ValidP.permuted_append] at hal23
    obtain ⟨hal3, hal2⟩ := List.append_inj hal23 (by
      rw [permuted_length _ _ (by rw [hlsc]; exact T.mC.lt2),
        permuted_length _ _ (by rw [hlsa]; exact T.mA.lt2), hlenAC])
    obtain ⟨shpA, hA1, hA2, hA3, hA4⟩ := shape_of_mem hsa hA
    obtain ⟨shpB, hB1, hB2, hB3, hB4⟩ := shape_of_mem hsb hB
    obtain ⟨hbox2, _, _, _⟩ := shapeAB_w I T hA hB hal
    show sgnI _ _ = sgnI _ _
    rw [sign_left_w I T sa sb sc hlsa hlsb hlsc hal2 hal3]
    congr 1
    rw [hbox2, allIdx_append, List.map_map, sum_pairs]
    simp only [Function.comp]
    rw [sum3_rot (allIdx (permuted (Arr.blockShapeD A.indices sa) xa1))
      (allIdx (permuted (Arr.blockShapeD B.indices sb) xb2))
      (allIdx (permuted (Arr.blockShapeD A.indices sa) xa3))
      (fun k1 k2 k3 =>
        A.elem sa (mergeIdx 0 A.ndim xa1 (freeAxes A.ndim xa1) k1 ((mergeIdx 0 AB.ndim (axesAB A.ndim B.ndim xa1 xa3 xb1 xb2) (freeAxes AB.ndim (axesAB A.ndim B.ndim xa1 xa3 xb1 xb2)) (k3 ++ k2) (oA ++ oM)).take (freeAxes A.ndim xa1).length))
          * B.elem sb (mergeIdx 0 B.ndim xb1 (freeAxes B.ndim xb1) k1 ((mergeIdx 0 AB.ndim (axesAB A.ndim B.ndim xa1 xa3 xb1 xb2) (freeAxes AB.ndim (axesAB A.ndim B.ndim xa1 xa3 xb1 xb2)) (k3 ++ k2) (oA ++ oM)).drop (freeAxes A.ndim xa1).length))
          * C.elem sc (mergeIdx 0 C.ndim (xc3 ++ xc2) (freeAxes C.ndim (xc3 ++ xc2)) (k3 ++ k2) oC))]
    unfold Assoc2P.W3
    apply sum_map_congr
    intro k1 hk1
    apply sum_map_congr
    intro k2 hk2
    apply sum_map_congr
    intro k3 hk3
    have hk1l : k1.length = xa1.length := by
      rw [inBox_length (mem_allIdx_iff.mp hk1), permuted_length _ _ (by rw [hA2, hA3]; exact T.mA.lt1)]
    have hk3l : k3.length = xa3.length := by
      rw [inBox_length (mem_allIdx_iff.mp hk3), permuted_length _ _ (by rw [hA2, hA3]; exact T.mA.lt2)]
    have hk2l : k2.length = xb2.length := by
      rw [inBox_length (mem_allIdx_iff.mp hk2), permuted_length _ _ (by rw [hB2, hB3]; exact T.mB.lt2)]
    have haddr : (mergeIdx 0 AB.ndim (axesAB A.ndim B.ndim xa1 xa3 xb1 xb2) (freeAxes AB.ndim (axesAB A.ndim B.ndim xa1 xa3 xb1 xb2)) (k3 ++ k2) (oA ++ oM))
        = mergeIdx 0 (freeAxes A.ndim xa1).length (positions (freeAxes A.ndim xa1) xa3) (freeAxes (freeAxes A.ndim xa1).length (positions (freeAxes A.ndim xa1) xa3)) k3 oA ++ mergeIdx 0 (freeAxes B.ndim xb1).length (positions (freeAxes B.ndim xb1) xb2) (freeAxes (freeAxes B.ndim xb1).length (positions (freeAxes B.ndim xb1) xb2)) k2 oM := by
      rw [I.ndim]
      unfold Assoc2P.axesAB
      exact mergeIdx_two 0 _ _ _ _ k3 k2 oA oM T.mA.pos_nodup T.mA.pos_lt T.mB.pos_nodup T.mB.pos_lt
        (by rw [hk3l, T.mA.pos_len]) (by rw [hk2l, T.mB.pos_len])
        (by rw [fa.loA, T.mA.free_len]) (by rw [fa.loM, T.mB.free_len])
    simp only []
    rw [haddr, List.take_left' (mergeIdx_length _ _ _ _ _ _), List.drop_left' (mergeIdx_length _ _ _ _ _ _),
      T.mA.nest_left 0 k1 k3 oA hk1l hk3l fa.loA,
      T.mB.nest_left 0 k1 k2 oM (by rw [hk1l, T.hAB.len]) hk2l fa.loM,
      mergeIdx_comm T.mC 0 k2 k3 oC (by rw [hk2l, T.hBC.len]) (by rw [hk3l, hlenAC]) fa.loC,
      AssocLaws.mul_assoc]

end valueL

end Assoc3P
end SymmModel
