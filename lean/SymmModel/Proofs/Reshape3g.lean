/-
  SymmModel.Proofs.Reshape3g — the unbounded planner theorem of C07, part g: the input-level
  hypotheses (all sizes positive, equal dense sizes, fused axes as large as the product of their
  sub-sizes) imply that the first loop leaves only size-one dimensions over.
-/
import SymmModel.Proofs.Reshape3f
namespace SymmModel.Reshape3
open SymmModel SymmModel.Reshape SymmModel.C07

/-- every fused axis is as large as the product of its sub-sizes (no sparse fusing) -/
def denseB (shape : List Nat) (subsizes : List (Option (List Nat))) : Bool :=
  (shape.zip subsizes).all (fun p => match p.2 with
    | none => true
    | some subs => Nat.beq p.1 (prod subs))

theorem denseB_nones (shape : List Nat) : denseB shape (nones shape) = true := by
  simp only [denseB, List.all_eq_true]
  intro p hp
  have : p.2 = none := by
    have := (List.of_mem_zip hp).2
    simp only [nones, List.mem_map] at this
    obtain ⟨_, _, h⟩ := this; exact h.symm
  rw [this]

theorem mem_flatE_u {S : List Seg} {k d : Nat} {subs : List Nat} (h : Seg.u k d subs ∈ S) :
    (d, some subs) ∈ flatE S := by
  simp only [flatE, List.mem_flatMap]
  exact ⟨_, h, by simp [Seg.ax]⟩

/-- segment by segment the old and the new sizes have the same product -/
theorem seg_prod (S : List Seg) (hu : ∀ k d subs, Seg.u k d subs ∈ S → d = prod subs)
    (hs : ∀ e, Seg.s e ∈ S → e.1 = 1) : prod (SymShape.sizes (flatE S)) = prod (flatA S) := by
  induction S with
  | nil => rfl
  | cons a S ih =>
    have ih' := ih (fun k d subs h => hu k d subs (by simp [h])) (fun e h => hs e (by simp [h]))
    rw [flatE_cons, flatA_cons, sizes_append, C07.prod_append, C07.prod_append, ih']
    congr 1
    cases a with
    | o e => simp [Seg.ax, Seg.outA, Seg.outK, SymShape.sizes]
    | u k d subs => simp [Seg.ax, Seg.outA, Seg.outK, SymShape.sizes, prod, hu k d subs (by simp)]
    | s e => simp [Seg.ax, Seg.outA, Seg.outK, SymShape.sizes, prod, hs e (by simp)]
    | g k es => simp [Seg.ax, Seg.outA, Seg.outK, prod]
    | x => simp [Seg.ax, Seg.outA, SymShape.sizes, prod]

theorem prod_pos {l : List Nat} (h : ∀ d ∈ l, 0 < d) : 0 < prod l := by
  induction l with
  | nil => simp [prod]
  | cons a l ih =>
    simp only [prod]
    exact Nat.mul_pos (h a (by simp)) (ih (fun d hd => h d (by simp [hd])))

theorem prod_eq_one {l : List Nat} (h : prod l = 1) : ∀ d ∈ l, d = 1 := by
  induction l with
  | nil => intro d hd; simp at hd
  | cons a l ih =>
    simp only [prod] at h
    have h1 : a = 1 := Nat.eq_one_of_mul_eq_one_right h
    have h2 : prod l = 1 := Nat.eq_one_of_mul_eq_one_left h
    intro d hd
    rcases List.mem_cons.mp hd with rfl | hd
    · exact h1
    · exact ih h2 d hd

theorem prod_take_drop (l : List Nat) (i : Nat) : prod l = prod (l.take i) * prod (l.drop i) := by
  rw [← C07.prod_append, List.take_append_drop]

/-- the input-level hypotheses make the dimensions left over by the first loop have size one -/
theorem trailing_of_prod (shape newshape : List Nat) (subsizes : List (Option (List Nat)))
    (hlen : shape.length = subsizes.length) (hdense : denseB shape subsizes = true)
    (hpos : ∀ d ∈ shape, 0 < d) (hprod : prod shape = prod newshape) :
    ∀ st, mainLoop shape newshape subsizes (shape.length + newshape.length) {} = .ok st →
      (∀ d ∈ shape.drop st.i, d = 1) ∧ (∀ d ∈ newshape.drop st.j, d = 1) := by
  intro st hst
  obtain ⟨S, hinv, hstop⟩ := mainLoop_inv hlen _ _ _ _ (minv_init shape newshape subsizes) hst
  have hu : ∀ k d subs, Seg.u k d subs ∈ S → d = prod subs := by
    intro k d subs hm
    have h1 := mem_flatE_u hm
    rw [hinv.ax] at h1
    have h2 := List.mem_of_mem_take h1
    simp only [denseB, List.all_eq_true] at hdense
    have := hdense _ h2
    simpa using this
  have hp := seg_prod S hu hinv.sone
  rw [hinv.ax, hinv.out] at hp
  have e := sizes_take_drop_zip hlen 0 st.i
  simp only [List.drop_zero] at e
  rw [e] at hp
  have h1 := prod_take_drop shape st.i
  have h2 := prod_take_drop newshape st.j
  have hps : 0 < prod shape := prod_pos hpos
  have hpt : 0 < prod (shape.take st.i) := by
    rcases Nat.eq_zero_or_pos (prod (shape.take st.i)) with h0 | h0
    · rw [h0, Nat.zero_mul] at h1; omega
    · exact h0
  rcases hstop with hs | hs
  · have hd : shape.drop st.i = [] := List.drop_eq_nil_of_le hs
    refine ⟨by rw [hd]; intro d hd'; simp at hd', ?_⟩
    apply prod_eq_one
    rw [hd] at h1
    simp only [prod, Nat.mul_one] at h1
    have : prod (shape.take st.i) * prod (newshape.drop st.j) = prod (shape.take st.i) * 1 := by
      rw [Nat.mul_one]
      conv => rhs; rw [← h1, hprod, h2, ← hp]
    exact Nat.eq_of_mul_eq_mul_left hpt this
  · have hd : newshape.drop st.j = [] := List.drop_eq_nil_of_le hs
    refine ⟨?_, by rw [hd]; intro d hd'; simp at hd'⟩
    apply prod_eq_one
    rw [hd] at h2
    simp only [prod, Nat.mul_one] at h2
    have : prod (shape.take st.i) * prod (shape.drop st.i) = prod (shape.take st.i) * 1 := by
      rw [Nat.mul_one, ← h1, hprod, h2, hp]
    exact Nat.eq_of_mul_eq_mul_left hpt this

/-- **the unbounded planner theorem, input-level form** -/
theorem planner_wf_of_prod (shape newshape : List Nat) (subsizes : List (Option (List Nat)))
    (hlen : shape.length = subsizes.length) (hdense : denseB shape subsizes = true)
    (hpos : ∀ d ∈ shape, 0 < d) (hprod : prod shape = prod newshape)
    (t : List Nat × List (List (List Nat)) × List Nat)
    (h : calcReshapeArgs shape newshape subsizes = .ok t) :
    (Plan.ofTriple t).wfB shape subsizes newshape = true :=
  planner_wf_of_trailing shape newshape subsizes hlen t h
    (trailing_of_prod shape newshape subsizes hlen hdense hpos hprod)

end SymmModel.Reshape3
