/-
  SymmModel.Proofs.Fuse6Comm — two unfuse steps on different axes commute, as functions on value
  views: `unfVal` at `p` after `unfVal` at `q` (`p < q`) is `unfVal` at the shifted `q` after `unfVal`
  at `p`, provided each step's sign only depends on its own segment.
-/
import SymmModel.Proofs.Fuse6Parts
namespace SymmModel
namespace FuseP
set_option linter.unusedSectionVars false
open SymmModel.Lazy

variable {R : Type} [Zero R] [Neg R] [LawfulNeg R]

theorem sgnI_comm (σ τ : Int) (x : R) : sgnI σ (sgnI τ x) = sgnI τ (sgnI σ x) := by
  unfold sgnI
  split <;> split <;> rfl

/-- **the two orders, on lists in five parts** -/
theorem unfVal_comm (sym : Sym) (ixP ixQ : Index) (subsP subsQ : List Index) (extsP extsQ : Extents)
    (sP sP1 sQ sQ2 : Sector → Int) (v : Sector → List Nat → R)
    {p m : Nat} {A S M T C : Sector} {A' S' M' T' C' : List Nat}
    (hA : A.length = p) (hS : S.length = subsP.length) (hM : M.length = m) (hT : T.length = subsQ.length)
    (hA' : A'.length = p) (hS' : S'.length = subsP.length) (hM' : M'.length = m) (hT' : T'.length = subsQ.length)
    (h1 : sP1 (A ++ S ++ M ++ T ++ C) = sP (A ++ S ++ M ++ [cmb sym ixQ subsQ T] ++ C))
    (h2 : sQ2 (A ++ S ++ M ++ T ++ C) = sQ (A ++ [cmb sym ixP subsP S] ++ M ++ T ++ C)) :
    unfVal sym ixP subsP extsP p sP1 (unfVal sym ixQ subsQ extsQ (p + 1 + m) sQ v)
        (A ++ S ++ M ++ T ++ C) (A' ++ S' ++ M' ++ T' ++ C')
      = unfVal sym ixQ subsQ extsQ (p + subsP.length + m) sQ2 (unfVal sym ixP subsP extsP p sP v)
        (A ++ S ++ M ++ T ++ C) (A' ++ S' ++ M' ++ T' ++ C') := by
  have eK : A ++ S ++ M ++ T ++ C = A ++ S ++ (M ++ T ++ C) := by simp only [List.append_assoc]
  have eJ : A' ++ S' ++ M' ++ T' ++ C' = A' ++ S' ++ (M' ++ T' ++ C') := by simp only [List.append_assoc]
  have hAQ : (A ++ S ++ M).length = p + subsP.length + m := by simp only [List.length_append, hA, hS, hM]
  have hAQ' : (A' ++ S' ++ M').length = p + subsP.length + m := by simp only [List.length_append, hA', hS', hM']
  have lhs := unfVal_parts sym ixP subsP extsP sP1 (unfVal sym ixQ subsQ extsQ (p + 1 + m) sQ v)
    (A := A) (S := S) (X := M ++ T ++ C) (A' := A') (S' := S') (X' := M' ++ T' ++ C') hA hS hA' hS'
  have rhs := unfVal_parts sym ixQ subsQ extsQ sQ2 (unfVal sym ixP subsP extsP p sP v)
    (A := A ++ S ++ M) (S := T) (X := C) (A' := A' ++ S' ++ M') (S' := T') (X' := C') hAQ hT hAQ' hT'
  rw [← eK, ← eJ] at lhs
  rw [lhs, rhs]
  -- the inner steps
  have innerQ : ∀ o : Nat, unfVal sym ixQ subsQ extsQ (p + 1 + m) sQ v
      (A ++ [cmb sym ixP subsP S] ++ (M ++ T ++ C)) (A' ++ [o] ++ (M' ++ T' ++ C'))
      = match look sym ixQ subsQ extsQ T with
        | none => 0
        | some (st, sub) => sgnI (sQ (A ++ [cmb sym ixP subsP S] ++ M ++ T ++ C))
            (v (A ++ [cmb sym ixP subsP S] ++ M ++ [cmb sym ixQ subsQ T] ++ C)
              (A' ++ [o] ++ M' ++ [st + ravel sub T'] ++ C')) := by
    intro o
    have e1 : A ++ [cmb sym ixP subsP S] ++ (M ++ T ++ C) = (A ++ [cmb sym ixP subsP S] ++ M) ++ T ++ C := by
      simp only [List.append_assoc]
    have e2 : A' ++ [o] ++ (M' ++ T' ++ C') = (A' ++ [o] ++ M') ++ T' ++ C' := by simp only [List.append_assoc]
    rw [e1, e2]
    exact unfVal_parts sym ixQ subsQ extsQ sQ v (by simp only [List.length_append, List.length_cons, List.length_nil, hA, hM]) hT (by simp only [List.length_append, List.length_cons, List.length_nil, hA', hM']) hT'
  have innerP : ∀ o : Nat, unfVal sym ixP subsP extsP p sP v
      (A ++ S ++ M ++ [cmb sym ixQ subsQ T] ++ C) (A' ++ S' ++ M' ++ [o] ++ C')
      = match look sym ixP subsP extsP S with
        | none => 0
        | some (st, sub) => sgnI (sP (A ++ S ++ M ++ [cmb sym ixQ subsQ T] ++ C))
            (v (A ++ [cmb sym ixP subsP S] ++ M ++ [cmb sym ixQ subsQ T] ++ C)
              (A' ++ [st + ravel sub S'] ++ M' ++ [o] ++ C')) := by
    intro o
    have e1 : A ++ S ++ M ++ [cmb sym ixQ subsQ T] ++ C = A ++ S ++ (M ++ [cmb sym ixQ subsQ T] ++ C) := by
      simp only [List.append_assoc]
    have e2 : A' ++ S' ++ M' ++ [o] ++ C' = A' ++ S' ++ (M' ++ [o] ++ C') := by simp only [List.append_assoc]
    have e3 : ∀ o' : Nat, A' ++ [o'] ++ M' ++ [o] ++ C' = A' ++ [o'] ++ (M' ++ [o] ++ C') := by
      intro o'; simp only [List.append_assoc]
    have e4 : A ++ [cmb sym ixP subsP S] ++ M ++ [cmb sym ixQ subsQ T] ++ C
        = A ++ [cmb sym ixP subsP S] ++ (M ++ [cmb sym ixQ subsQ T] ++ C) := by simp only [List.append_assoc]
    simp only [e3, e4]
    rw [e1, e2]
    exact unfVal_parts sym ixP subsP extsP sP v hA hS hA' hS'
  cases hP : look sym ixP subsP extsP S with
  | none =>
    simp only
    cases hQ : look sym ixQ subsQ extsQ T with
    | none => rfl
    | some q =>
      obtain ⟨stQ, subQ⟩ := q
      simp only
      rw [innerP, hP]
      simp only
      exact (sgnI_zero _).symm
  | some q =>
    obtain ⟨stP, subP⟩ := q
    simp only
    rw [innerQ]
    cases hQ : look sym ixQ subsQ extsQ T with
    | none => simp only; exact sgnI_zero _
    | some q =>
      obtain ⟨stQ, subQ⟩ := q
      simp only
      rw [innerP, hP]
      simp only
      rw [h1, h2]
      exact sgnI_comm _ _ _

end FuseP
end SymmModel
