/-
  SymmModel.Proofs.TwoStepM1 — "several pairs at once or one after another" (C04), remaining forms:
  * `two_step_core_abelian`  the Fubini core `TwoStepP.two_step_core` WITHOUT signs (all of `σ`, `w`, `ph`
                             equal to `1`): the sum, over the intermediate sectors `S` that survive the
                             trace and over the box `T s` of the remaining pairs, of the (un-graded)
                             contraction over `xa ~ xb` read at the assembled offsets is the (un-graded)
                             contraction over `xa ++ ya ~ xb ++ yb`.  This is the element-level content of
                             the abelian analogue (`tensordotA` then `einsumA`); `C02.tensordotBlockwise_elem_split`
                             identifies both inner sums with elements of `tensordotBlockwise` results.
  Namespace `SymmModel.TwoStepP`.
-/
import SymmModel.Proofs.TwoStepSum

namespace SymmModel
namespace TwoStepP
open TdotP GradedP Assoc2P Assoc3P
open Lazy (sgnI)
set_option linter.unusedSectionVars false

variable {R : Type} [AddCommMonoid R] [Mul R] [Neg R] [SignRing R]

/-- **two_step_core_abelian.**  `two_step_core` with every sign equal to `1`. -/
theorem two_step_core_abelian (a b : Arr R) (xa xb ya yb : List Nat) (S : List Sector) (s' : Sector)
    (T : Sector → List Nat) (fL fR : List Nat)
    (hS : S.Nodup) (hda : a.sectors.Nodup) (hdb : b.sectors.Nodup)
    (hmem : ∀ sa ∈ a.sectors, ∀ sb ∈ b.sectors, permuted sb xb = permuted sa xa →
      ((permuted sa (freeAxes a.ndim xa) ++ permuted sb (freeAxes b.ndim xb)) ∈ S ↔
        (permuted sb (xb ++ yb) = permuted sa (xa ++ ya)
          ∧ permuted sa (freeAxes a.ndim (xa ++ ya)) ++ permuted sb (freeAxes b.ndim (xb ++ yb)) = s')))
    (hal : ∀ sa ∈ a.sectors, ∀ sb ∈ b.sectors, permuted sb (xb ++ yb) = permuted sa (xa ++ ya) →
      permuted sb xb = permuted sa xa)
    (hT : ∀ s ∈ S, ∀ p ∈ storedPairs a b (freeAxes a.ndim xa) xa xb (freeAxes b.ndim xb) s,
      T s = permuted (Arr.blockShapeD a.indices p.1) ya)
    (hxa : ∀ sa ∈ a.sectors, ∀ i ∈ xa, i < (Arr.blockShapeD a.indices sa).length)
    (hlx : xa.length = xb.length) :
    (S.map (fun s => ((allIdx (T s)).map (fun t =>
        ((storedPairs a b (freeAxes a.ndim xa) xa xb (freeAxes b.ndim xb) s).map (fun p =>
          contractPair a b xa xb
            (asmSide (freeAxes a.ndim xa) ya (freeAxes a.ndim (xa ++ ya)) t fL)
            (asmSide (freeAxes b.ndim xb) yb (freeAxes b.ndim (xb ++ yb)) t fR) p)).sum)).sum)).sum
      = ((storedPairs a b (freeAxes a.ndim (xa ++ ya)) (xa ++ ya) (xb ++ yb)
            (freeAxes b.ndim (xb ++ yb)) s').map (fun p =>
          contractPair a b (xa ++ ya) (xb ++ yb) fL fR p)).sum := by
  have key := two_step_core a b xa xb ya yb S s' T (fun _ => 1) 1 (fun _ => 1) fL fR
    (fun _ => Or.inl rfl) (Or.inl rfl) (fun _ => Or.inl rfl) hS hda hdb hmem hal hT hxa hlx
  simpa only [Lazy.sgnI_one, Int.mul_one] using key

end TwoStepP
end SymmModel
