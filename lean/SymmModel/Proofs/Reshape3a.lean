/-
  SymmModel.Proofs.Reshape3a — the unbounded planner theorem of C07, part a.

  Vocabulary.  The loop invariant of `calc_reshape_args` is a list of *segments* `Seg`, one per
  decision the first loop takes:
    `o e`          old axis `e` kept as it is                     (label "o")
    `u k d subs`   old fused axis of size `d`, to be unfused into `subs`  (label f"u{k}")
    `s e`          old axis `e` (of size one) squeezed            (label "s")
    `g k es`       run of old axes `es` fused into one new axis   (label f"g{k}", repeated)
    `x`            a new size-one axis (an entry of `axs_expand`)
  `flatL` is the label list `term`, `flatE` the symbolic shape (old axes, in order), `flatK` the
  post-fuse / pre-expand shape, `flatA` the final shape and `expPosFrom` the expansion positions.

  This file: the definitions, the expand phase and the unfuse phase.
-/
import SymmModel.Proofs.C07
namespace SymmModel.Reshape3
open SymmModel SymmModel.Reshape SymmModel.C07

abbrev E := Nat × Option (List Nat)

inductive Seg where
  | o (e : E)
  | u (k : Nat) (d : Nat) (subs : List Nat)
  | s (e : E)
  | g (k : Nat) (es : List E)
  | x
  deriving Repr

def Seg.lbl : Seg → List Lbl
  | .o _ => [Lbl.o]
  | .u k _ _ => [Lbl.u k]
  | .s _ => [Lbl.s]
  | .g k es => List.replicate es.length (Lbl.g k)
  | .x => []

def Seg.ax : Seg → SymShape
  | .o e => [e]
  | .u _ d subs => [(d, some subs)]
  | .s e => [e]
  | .g _ es => es
  | .x => []

/-- the axes a segment contributes to the post-fuse / pre-expand shape -/
def Seg.outK : Seg → List Nat
  | .o e => [e.1]
  | .u _ _ subs => subs
  | .s _ => []
  | .g _ es => [prod (SymShape.sizes es)]
  | .x => []

/-- the axes a segment contributes to the final shape -/
def Seg.outA : Seg → List Nat
  | .x => [1]
  | sg => sg.outK

def flatL (S : List Seg) : List Lbl := S.flatMap Seg.lbl
def flatE (S : List Seg) : SymShape := S.flatMap Seg.ax
def flatK (S : List Seg) : List Nat := S.flatMap Seg.outK
def flatA (S : List Seg) : List Nat := S.flatMap Seg.outA

/-- the positions (in the post-fuse shape) of the expansions, `c` = axes before `S` -/
def expPosFrom : Nat → List Seg → List Nat
  | _, [] => []
  | c, .x :: r => c :: expPosFrom c r
  | c, sg :: r => expPosFrom (c + sg.outK.length) r

def Seg.isX : Seg → Bool
  | .x => true
  | _ => false

def Seg.uKey : Seg → Option Nat
  | .u k _ _ => some k
  | _ => none
def Seg.uLen : Seg → Option Nat
  | .u _ _ subs => some subs.length
  | _ => none
def Seg.gKey : Seg → Option Nat
  | .g k _ => some k
  | _ => none

def uKeys (S : List Seg) : List Nat := S.filterMap Seg.uKey
def uLens (S : List Seg) : List Nat := S.filterMap Seg.uLen
def gKeys (S : List Seg) : List Nat := S.filterMap Seg.gKey

@[simp] theorem flatL_nil : flatL [] = [] := rfl
@[simp] theorem flatE_nil : flatE [] = [] := rfl
@[simp] theorem flatK_nil : flatK [] = [] := rfl
@[simp] theorem flatA_nil : flatA [] = [] := rfl
@[simp] theorem flatL_append (A B : List Seg) : flatL (A ++ B) = flatL A ++ flatL B := by
  simp [flatL]
@[simp] theorem flatE_append (A B : List Seg) : flatE (A ++ B) = flatE A ++ flatE B := by
  simp [flatE]
@[simp] theorem flatK_append (A B : List Seg) : flatK (A ++ B) = flatK A ++ flatK B := by
  simp [flatK]
@[simp] theorem flatA_append (A B : List Seg) : flatA (A ++ B) = flatA A ++ flatA B := by
  simp [flatA]
@[simp] theorem flatL_cons (a : Seg) (B : List Seg) : flatL (a :: B) = a.lbl ++ flatL B := by
  simp [flatL]
@[simp] theorem flatE_cons (a : Seg) (B : List Seg) : flatE (a :: B) = a.ax ++ flatE B := by
  simp [flatE]
@[simp] theorem flatK_cons (a : Seg) (B : List Seg) : flatK (a :: B) = a.outK ++ flatK B := by
  simp [flatK]
@[simp] theorem flatA_cons (a : Seg) (B : List Seg) : flatA (a :: B) = a.outA ++ flatA B := by
  simp [flatA]
@[simp] theorem uKeys_append (A B : List Seg) : uKeys (A ++ B) = uKeys A ++ uKeys B := by
  simp [uKeys]
@[simp] theorem uLens_append (A B : List Seg) : uLens (A ++ B) = uLens A ++ uLens B := by
  simp [uLens]
@[simp] theorem gKeys_append (A B : List Seg) : gKeys (A ++ B) = gKeys A ++ gKeys B := by
  simp [gKeys]

theorem uKeys_cons (a : Seg) (S : List Seg) : uKeys (a :: S) = a.uKey.toList ++ uKeys S := by
  simp only [uKeys, List.filterMap_cons]; cases a.uKey <;> rfl
theorem uLens_cons (a : Seg) (S : List Seg) : uLens (a :: S) = a.uLen.toList ++ uLens S := by
  simp only [uLens, List.filterMap_cons]; cases a.uLen <;> rfl
theorem gKeys_cons (a : Seg) (S : List Seg) : gKeys (a :: S) = a.gKey.toList ++ gKeys S := by
  simp only [gKeys, List.filterMap_cons]; cases a.gKey <;> rfl

theorem expPosFrom_append : ∀ (A B : List Seg) (c : Nat),
    expPosFrom c (A ++ B) = expPosFrom c A ++ expPosFrom (c + (flatK A).length) B := by
  intro A
  induction A with
  | nil => intro B c; simp [expPosFrom]
  | cons a A ih =>
    intro B c
    cases a <;> simp [expPosFrom, ih, Seg.outK, Nat.add_assoc, Nat.add_comm]

theorem lbl_length_ax (a : Seg) : a.lbl.length = a.ax.length := by
  cases a <;> simp [Seg.lbl, Seg.ax]

theorem flatL_length (S : List Seg) : (flatL S).length = (flatE S).length := by
  induction S with
  | nil => rfl
  | cons a S ih => simp [ih, lbl_length_ax]

/-! ### fold with failure -/

theorem foldOpt_append {α β : Type} (f : β → α → Option β) (l1 l2 : List α) (b : β) :
    foldOpt f (l1 ++ l2) b = match foldOpt f l1 b with
      | some b' => foldOpt f l2 b'
      | none => none := by
  induction l1 generalizing b with
  | nil => simp [foldOpt]
  | cons a l1 ih =>
    simp only [List.cons_append, foldOpt]
    cases f b a with
    | none => rfl
    | some b1 => exact ih b1

/-! ### the expand phase -/

theorem sizes_split {X : SymShape} {A B : List Nat} (h : SymShape.sizes X = A ++ B) :
    ∃ X1 X2, X = X1 ++ X2 ∧ SymShape.sizes X1 = A ∧ SymShape.sizes X2 = B := by
  refine ⟨X.take A.length, X.drop A.length, (List.take_append_drop _ _).symm, ?_, ?_⟩
  · have : SymShape.sizes (X.take A.length) = (SymShape.sizes X).take A.length := by
      simp [SymShape.sizes, List.map_take]
    rw [this, h]; simp
  · have : SymShape.sizes (X.drop A.length) = (SymShape.sizes X).drop A.length := by
      simp [SymShape.sizes, List.map_drop]
    rw [this, h]; simp

/-- executing the expansions (largest position first) on the post-fuse shape inserts the
    size-one axes of the `x` segments at their places -/
theorem expand_phase : ∀ (S : List Seg) (pre X : SymShape),
    SymShape.sizes X = flatK S →
    ∃ Y, foldOpt symExpand (expPosFrom pre.length S).reverse (pre ++ X) = some (pre ++ Y)
      ∧ SymShape.sizes Y = flatA S := by
  intro S
  induction S with
  | nil =>
    intro pre X h
    refine ⟨X, by simp [expPosFrom, foldOpt], ?_⟩
    simpa using h
  | cons a S ih =>
    intro pre X h
    by_cases hx : a.isX = true
    · cases a <;> simp [Seg.isX] at hx
      simp only [flatK_cons, Seg.outK, List.nil_append] at h
      obtain ⟨Y, hY, hs⟩ := ih pre X h
      refine ⟨(1, none) :: Y, ?_, ?_⟩
      · simp only [expPosFrom, List.reverse_cons]
        rw [foldOpt_append, hY]
        simp only [foldOpt, symExpand]
        simp
      · simp [SymShape.sizes, Seg.outA] at hs ⊢
        exact hs
    · rw [flatK_cons] at h
      obtain ⟨X1, X2, rfl, h1, h2⟩ := sizes_split h
      obtain ⟨Y, hY, hs⟩ := ih (pre ++ X1) X2 h2
      have hl : X1.length = a.outK.length := by rw [← h1, sizes_length]
      refine ⟨X1 ++ Y, ?_, ?_⟩
      · have e : expPosFrom pre.length (a :: S) = expPosFrom (pre ++ X1).length S := by
          cases a <;> simp [Seg.isX] at hx <;> simp [expPosFrom, hl]
        rw [e, ← List.append_assoc, hY, List.append_assoc]
      · rw [sizes_append, h1, hs, flatA_cons]
        cases a <;> simp [Seg.isX] at hx <;> rfl

/-! ### the unfuse phase -/

/-- the segments after the unfuse phase -/
def Seg.unf : Seg → List Seg
  | .u _ _ subs => subs.map (fun d => Seg.o (d, none))
  | sg => [sg]

def unf (S : List Seg) : List Seg := S.flatMap Seg.unf

theorem unf_cons (a : Seg) (S : List Seg) : unf (a :: S) = a.unf ++ unf S := by simp [unf]

theorem flatL_map_o (subs : List Nat) :
    flatL (subs.map (fun d => Seg.o (d, none))) = List.replicate subs.length Lbl.o := by
  induction subs with
  | nil => rfl
  | cons d r ih => simp [Seg.lbl, ih, List.replicate_succ]

theorem flatE_map_o (subs : List Nat) :
    flatE (subs.map (fun d => Seg.o (d, none))) = subs.map (fun d => (d, none)) := by
  induction subs with
  | nil => rfl
  | cons d r ih => simp [Seg.ax, ih]

theorem flatK_map_o (subs : List Nat) :
    flatK (subs.map (fun d => Seg.o (d, none))) = subs := by
  induction subs with
  | nil => rfl
  | cons d r ih => simp [Seg.outK, ih]

theorem flatK_unf (S : List Seg) : flatK (unf S) = flatK S := by
  induction S with
  | nil => rfl
  | cons a S ih =>
    rw [unf_cons, flatK_append, ih, flatK_cons]
    cases a <;> simp [Seg.unf, Seg.outK, flatK_map_o]

theorem gKeys_unf (S : List Seg) : gKeys (unf S) = gKeys S := by
  induction S with
  | nil => rfl
  | cons a S ih =>
    rw [unf_cons, gKeys_append, ih]
    have hnil : gKeys [] = [] := rfl
    have hmap : ∀ subs : List Nat, gKeys (subs.map (fun d => Seg.o (d, none))) = [] := by
      intro subs
      induction subs with
      | nil => rfl
      | cons d r ih => simp [gKeys_cons, Seg.gKey]; exact ih
    cases a <;> simp [Seg.unf, gKeys_cons, Seg.gKey, hnil, hmap]

theorem mem_unf {S : List Seg} {a : Seg} (h : a ∈ unf S) :
    a ∈ S ∨ ∃ d, a = Seg.o (d, none) := by
  simp only [unf, List.mem_flatMap] at h
  obtain ⟨b, hb, hab⟩ := h
  cases b <;> simp [Seg.unf] at hab
  · left; rw [hab]; exact hb
  · right; obtain ⟨d, _, rfl⟩ := hab; exact ⟨d, rfl⟩
  · left; rw [hab]; exact hb
  · left; rw [hab]; exact hb
  · left; rw [hab]; exact hb

theorem indexOf?_append_of_not_mem {pre : List Lbl} {l : Lbl} {rest : List Lbl}
    (hpre : ∀ a ∈ pre, (a == l) = false) :
    indexOf? (pre ++ l :: rest) l = some pre.length := by
  induction pre with
  | nil =>
    have : (l == l) = true := by
      cases l <;> simp [BEq.beq, Lbl.beq]
    simp [indexOf?, this]
  | cons a pre ih =>
    have ha : (a == l) = false := hpre a (by simp)
    simp only [List.cons_append, indexOf?, ha, Bool.false_eq_true, if_false]
    rw [ih (fun b hb => hpre b (by simp [hb]))]
    simp

/-- the unfuse phase replaces every `u` label by `"o"`s, left to right, and the recorded axes
    unfuse exactly those axes of the symbolic shape -/
theorem unfuse_phase : ∀ (S : List Seg) (k : Nat) (pre : List Lbl) (preE : SymShape) (axs : List Nat),
    uKeys S = List.range' k (uLens S).length →
    (∀ a ∈ pre, ∀ j, (a == Lbl.u j) = false) → pre.length = preE.length →
    (∀ sg ∈ S, sg.isX = false) →
    ∃ axs', unfusePhase (uLens S) k (pre ++ flatL S) axs = .ok (pre ++ flatL (unf S), axs ++ axs')
      ∧ foldOpt symUnfuse axs' (preE ++ flatE S) = some (preE ++ flatE (unf S)) := by
  intro S
  induction S with
  | nil =>
    intro k pre preE axs _ _ _ _
    exact ⟨[], by simp [uLens, unfusePhase, unf, pure, Except.pure], by simp [foldOpt, unf]⟩
  | cons a S ih =>
    intro k pre preE axs hk hpre hlen hx
    have hxS : ∀ sg ∈ S, sg.isX = false := fun sg h => hx sg (by simp [h])
    have hxa := hx a (by simp)
    cases a with
    | x => simp [Seg.isX] at hxa
    | u j d subs =>
      have hk' : j = k ∧ uKeys S = List.range' (k + 1) (uLens S).length := by
        simp only [uKeys_cons, uLens_cons, Seg.uKey, Seg.uLen, Option.toList, List.cons_append,
          List.nil_append, List.length_cons, List.range'_succ, List.cons.injEq] at hk
        exact hk
      obtain ⟨rfl, hkS⟩ := hk'
      have hidx : indexOf? (pre ++ flatL (Seg.u j d subs :: S)) (Lbl.u j) = some pre.length := by
        rw [flatL_cons]
        exact indexOf?_append_of_not_mem (fun a ha => hpre a ha j)
      obtain ⟨axs', h1, h2⟩ := ih (j + 1) (pre ++ List.replicate subs.length Lbl.o)
        (preE ++ subs.map (fun d => (d, none))) (axs ++ [pre.length]) hkS
        (by
          intro a ha i
          rcases List.mem_append.mp ha with ha | ha
          · exact hpre a ha i
          · rw [(List.mem_replicate.mp ha).2]; rfl)
        (by simp [hlen]) hxS
      refine ⟨pre.length :: axs', ?_, ?_⟩
      · have e1 : uLens (Seg.u j d subs :: S) = subs.length :: uLens S := by
          simp [uLens, Seg.uLen]
        rw [e1]
        simp only [unfusePhase, hidx]
        have e2 : (pre ++ flatL (Seg.u j d subs :: S)).take pre.length = pre := by
          simp
        have e3 : (pre ++ flatL (Seg.u j d subs :: S)).drop (pre.length + 1) = flatL S := by
          rw [flatL_cons]; simp [Seg.lbl, List.drop_append]
        rw [e2, e3, h1]
        simp [unf_cons, Seg.unf, flatL_map_o]
      · simp only [foldOpt]
        have e4 : symUnfuse (preE ++ flatE (Seg.u j d subs :: S)) pre.length
            = some (preE ++ subs.map (fun d => (d, none)) ++ flatE S) := by
          unfold symUnfuse
          rw [flatE_cons]
          simp [Seg.ax, hlen, List.drop_append]
        rw [e4]
        simp only []
        rw [h2]
        simp [unf_cons, Seg.unf, flatE_map_o]
    | o e =>
      have hkS : uKeys S = List.range' k (uLens S).length := by
        simpa [uKeys_cons, uLens_cons, Seg.uKey, Seg.uLen] using hk
      obtain ⟨axs', h1, h2⟩ := ih k (pre ++ [Lbl.o]) (preE ++ [e]) axs hkS
        (by
          intro a ha i
          rcases List.mem_append.mp ha with ha | ha
          · exact hpre a ha i
          · rw [List.mem_singleton.mp ha]; rfl)
        (by simp [hlen]) hxS
      refine ⟨axs', ?_, ?_⟩
      · have : uLens (Seg.o e :: S) = uLens S := by simp [uLens_cons, Seg.uLen]
        rw [this]
        simpa [unf_cons, Seg.unf, Seg.lbl] using h1
      · simpa [unf_cons, Seg.unf, Seg.ax] using h2
    | s e =>
      have hkS : uKeys S = List.range' k (uLens S).length := by
        simpa [uKeys_cons, uLens_cons, Seg.uKey, Seg.uLen] using hk
      obtain ⟨axs', h1, h2⟩ := ih k (pre ++ [Lbl.s]) (preE ++ [e]) axs hkS
        (by
          intro a ha i
          rcases List.mem_append.mp ha with ha | ha
          · exact hpre a ha i
          · rw [List.mem_singleton.mp ha]; rfl)
        (by simp [hlen]) hxS
      refine ⟨axs', ?_, ?_⟩
      · have : uLens (Seg.s e :: S) = uLens S := by simp [uLens_cons, Seg.uLen]
        rw [this]
        simpa [unf_cons, Seg.unf, Seg.lbl] using h1
      · simpa [unf_cons, Seg.unf, Seg.ax] using h2
    | g j es =>
      have hkS : uKeys S = List.range' k (uLens S).length := by
        simpa [uKeys_cons, uLens_cons, Seg.uKey, Seg.uLen] using hk
      obtain ⟨axs', h1, h2⟩ := ih k (pre ++ List.replicate es.length (Lbl.g j)) (preE ++ es) axs hkS
        (by
          intro a ha i
          rcases List.mem_append.mp ha with ha | ha
          · exact hpre a ha i
          · rw [(List.mem_replicate.mp ha).2]; rfl)
        (by simp [hlen]) hxS
      refine ⟨axs', ?_, ?_⟩
      · have : uLens (Seg.g j es :: S) = uLens S := by simp [uLens_cons, Seg.uLen]
        rw [this]
        simpa [unf_cons, Seg.unf, Seg.lbl] using h1
      · simpa [unf_cons, Seg.unf, Seg.ax] using h2

end SymmModel.Reshape3
