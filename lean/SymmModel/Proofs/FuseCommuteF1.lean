/-
  SymmModel.Proofs.FuseCommuteF1 — C06, first clause, fermionic: the Koszul signs of a contraction
  over a group of legs at an arbitrary position, in terms of the permutation `before ++ group ++ after`
  of `_fuse_core` (`calcFuseGroupInfo`), and the same for a single (fused) leg.
  Pure sign bookkeeping (no arrays except through `calcFuseGroupInfo`).  Namespace `SymmModel.TdotP`.
-/
import SymmModel.Proofs.FuseCommute4
import SymmModel.Proofs.TdotFuseC6
import SymmModel.Proofs.Fuse4Sign2

namespace SymmModel
namespace TdotP
open SymmModel.KoszulP
variable {R : Type}

/-! ### signs -/

theorem sgn_mod_mul (m o : Nat) : sgn (m % 2 * o) = sgn (m * o) := by
  apply sgn_congr
  rw [Nat.mul_mod, Nat.mod_mod, ← Nat.mul_mod]

theorem sgn_sq (n : Nat) : sgn n * sgn n = 1 := sgn_mul_self n

theorem sgn_b2n (b : Bool) (o : Nat) : sgn ((if b then 1 else 0) * o) = if b then sgn o else 1 := by
  cases b <;> simp [sgn]

/-- moving the block `A` behind the block `B` at the end of a permutation -/
theorem koszul_move_tail (par : List Bool) (xs A B : List Nat) (n : Nat)
    (h : (xs ++ A ++ B).Perm (List.range n)) :
    koszul par (some (xs ++ B ++ A)) = koszul par (some (xs ++ A ++ B)) * sgn (oddCount par A * oddCount par B) := by
  have := koszul_block_move par xs A B [] n (by simpa using h)
  simpa using this

/-- moving the block `B` in front of the block `A` at the beginning of a permutation -/
theorem koszul_move_head (par : List Bool) (A B ys : List Nat) (n : Nat)
    (h : (A ++ B ++ ys).Perm (List.range n)) :
    koszul par (some (B ++ A ++ ys)) = koszul par (some (A ++ B ++ ys)) * sgn (oddCount par A * oddCount par B) := by
  have := koszul_block_move par [] A B ys n (by simpa using h)
  simpa using this

/-! ### one group: the permutation of `_fuse_core` -/

section One
variable {X : Arr R} {g : List Nat}

theorem one_perm (h : OneOk X g) :
    (FuseP.giM X [g]).perm = List.range (FuseP.giM X [g]).position ++ g ++ (FuseP.giM X [g]).axesAfter := by
  show (calcFuseGroupInfo [g] X.duals).perm = _
  rw [FuseP.perm_eq, FuseP.axesBefore_eq (FuseP.hokD h.groupsOk)]
  simp

theorem one_perm_perm (h : OneOk X g) : (FuseP.giM X [g]).perm.Perm (List.range X.ndim) := by
  have := FuseP.perm_isPerm (FuseP.hokD h.groupsOk)
  rw [FuseP.duals_length] at this
  exact perm_of_isPerm this

/-- left operand: `free ++ group` against `before ++ group ++ after` -/
theorem koszul_left_one (h : OneOk X g) (par : List Bool) :
    koszul par (some (freeAxes X.ndim g ++ g))
      = koszul par (some (FuseP.giM X [g]).perm)
        * sgn (oddCount par g * oddCount par (FuseP.giM X [g]).axesAfter) := by
  rw [one_free h, one_perm h]
  exact koszul_move_tail par _ g _ X.ndim (by rw [← one_perm h]; exact one_perm_perm h)

/-- right operand: `group ++ free` against `before ++ group ++ after` -/
theorem koszul_right_one (h : OneOk X g) (par : List Bool) :
    koszul par (some (g ++ freeAxes X.ndim g))
      = koszul par (some (FuseP.giM X [g]).perm)
        * sgn (oddCount par (List.range (FuseP.giM X [g]).position) * oddCount par g) := by
  rw [one_free h, one_perm h, ← List.append_assoc]
  exact koszul_move_head par _ g _ X.ndim (by rw [← one_perm h]; exact one_perm_perm h)

end One

/-! ### a single leg at position `p` of `p + 1 + m` legs -/

theorem koszul_left_single (par : List Bool) (p m : Nat) :
    koszul par (some (freeAxes (p + 1 + m) [p] ++ [p]))
      = sgn (oddCount par [p] * oddCount par ((List.range m).map (fun j => p + 1 + j))) := by
  rw [freeAxes_succ_mid]
  have hr : List.range p ++ [p] ++ (List.range m).map (fun j => p + 1 + j) = List.range (p + 1 + m) := by
    rw [List.range_add, List.range_succ]
  rw [koszul_move_tail par (List.range p) [p] _ (p + 1 + m) (by rw [hr]), hr, koszul_id', Int.one_mul]

theorem koszul_right_single (par : List Bool) (p m : Nat) :
    koszul par (some ([p] ++ freeAxes (p + 1 + m) [p]))
      = sgn (oddCount par (List.range p) * oddCount par [p]) := by
  rw [freeAxes_succ_mid, ← List.append_assoc]
  have hr : List.range p ++ [p] ++ (List.range m).map (fun j => p + 1 + j) = List.range (p + 1 + m) := by
    rw [List.range_add, List.range_succ]
  rw [koszul_move_head par (List.range p) [p] _ (p + 1 + m) (by rw [hr]), hr, koszul_id', Int.one_mul]

end TdotP
end SymmModel
