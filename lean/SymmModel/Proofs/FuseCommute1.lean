/-
  SymmModel.Proofs.FuseCommute1 — the element map of `_fuse_core` for ARBITRARY groups in the
  form the contraction lemmas need: the element of the fused array at ANY address of its table box
  (stored or not) is the original's element at the address whose group parts are the decoded
  sub-charges / sub-offsets and whose other parts are copied.  Generalises `pair_elem`
  (two groups covering every axis) and `lead_elem` (the leading axes).  Also: the public `fuse`
  with either strategy returns `fusedArrM`.  Namespace `SymmModel.TdotP`.
-/
import SymmModel.Proofs.TdotFuseC7
import SymmModel.Props.C05h

namespace SymmModel
namespace TdotP
variable {R : Type}

/-- the public abelian `fuse` (non-empty admissible groups, `expand_empty = False`) returns the
    `_fuse_core` array `fusedArrM`, with EITHER strategy -/
theorem fuseA_any_mode [Zero R] (X : Arr R) (G : List (List Nat)) (m : FuseMode) (hv : X.validB = true)
    (hok : FuseP.GroupsOk G X.ndim) : fuseA X G m false = .ok (FuseP.fusedArrM X G) := by
  have hf : G.filter (fun g => !g.isEmpty) = G := by
    rw [List.filter_eq_self]
    intro g hg
    have := hok.gne g hg
    cases g <;> simp_all
  have hins : fuseA X G .insert false = .ok (FuseP.fusedArrM X G) := by
    rw [C05.fuseA_noexpand, hf]
    have hne : G.isEmpty = false := by
      have := hok.ne; cases G <;> simp_all
    simp only [hne, Bool.false_eq_true, if_false]
    exact FuseP.fuseCore_multi_eq (FuseP.validArr_of_validB hv) hok
  cases m with
  | insert => exact hins
  | concat =>
    rw [C05.fuseA_concat_eq_insert X G false hv (by rw [hf]; exact FuseP.groupsOk_iff.2 hok)]
    exact hins

section Multi
variable {X : Arr R} {G : List (List Nat)}

/-- **element map of `_fuse_core`, arbitrary groups, every address of the table box.** -/
theorem multi_elem [Zero R] [Neg R] (hv : FuseP.ValidArr X) (hph : X.phases = [])
    (hok : FuseP.GroupsOk G X.ndim) {ns : Sector} {i shp : List Nat}
    (hshp : Arr.blockShape? (FuseP.newIdxM X G) ns = some shp) (hbox : inBox shp i = true)
    {s : Sector} {offs : List Nat} (hs : s.length = X.ndim) (ho : offs.length = X.ndim)
    (hdec : ∀ g gaxes, G[g]? = some gaxes →
      decAx X G g (ns.getD ((FuseP.giM X G).position + g) (0, 0)) (i.getD ((FuseP.giM X G).position + g) 0)
        = some (permuted s gaxes, permuted offs gaxes))
    (hbef : ∀ x, x < (FuseP.giM X G).position →
      ns.getD x (0, 0) = s.getD x (0, 0) ∧ i.getD x 0 = offs.getD x 0)
    (haft : ∀ j, j < (FuseP.giM X G).axesAfter.length →
      ns.getD ((FuseP.giM X G).position + G.length + j) (0, 0)
          = s.getD ((FuseP.giM X G).axesAfter.getD j 0) (0, 0)
      ∧ i.getD ((FuseP.giM X G).position + G.length + j) 0
          = offs.getD ((FuseP.giM X G).axesAfter.getD j 0) 0) :
    (FuseP.fusedArrM X G).elem ns i = X.elem s offs := by
  have hnl : ns.length = FuseP.ndimM X G := by
    rw [(blockShape?_length hshp).1, FuseP.newIdxM_length hok]
  have hil : i.length = FuseP.ndimM X G := by
    rw [inBox_length hbox, (blockShape?_length hshp).2, FuseP.newIdxM_length hok]
  have hlt : ∀ g gaxes, G[g]? = some gaxes → ∀ x ∈ gaxes, x < X.ndim := fun g gaxes hg =>
    FuseP.groupM_lt hok hg
  -- the segments
  have hseg : ∀ g, g < G.length →
      FuseP.segM X G ns i g = (permuted s (G.getD g []), permuted offs (G.getD g [])) := by
    intro g hg
    have hgg : G[g]? = some G[g] := List.getElem?_eq_getElem hg
    have : G.getD g [] = G[g] := by simp [List.getD_eq_getElem?_getD, hgg]
    rw [this]
    exact segM_of_dec (hdec g _ hgg)
  have hpm : ∀ {α : Type} (l : List α) (d : α), l.length = X.ndim → ∀ g, g < G.length →
      permuted l (G.getD g []) = (G.getD g []).map (fun ax => l.getD ax d) := by
    intro α l d hl g hg
    have hgg : G[g]? = some G[g] := List.getElem?_eq_getElem hg
    have : G.getD g [] = G[g] := by simp [List.getD_eq_getElem?_getD, hgg]
    rw [this]
    exact permuted_eq_map _ _ (by intro x hx; rw [hl]; exact hlt g _ hgg x hx) d
  have hK : permuted s (FuseP.giM X G).perm = FuseP.expandK X G ns i := by
    rw [FuseP.permutedM_eq hok s (0, 0) hs, FuseP.expandK_parts ns i hnl]
    congr 1
    · congr 1
      · apply List.map_congr_left
        intro x hx
        exact ((hbef x (List.mem_range.mp hx)).1).symm
      · congr 1
        apply List.map_congr_left
        intro g hg
        have hg' := List.mem_range.mp hg
        rw [hseg g hg', hpm s (0, 0) hs g hg']
    · apply List.map_congr_left
      intro j hj
      exact ((haft j (List.mem_range.mp hj)).1).symm
  have hJ : permuted offs (FuseP.giM X G).perm = FuseP.expandJ X G ns i := by
    rw [FuseP.permutedM_eq hok offs 0 ho, FuseP.expandJ_parts ns i hil]
    congr 1
    · congr 1
      · apply List.map_congr_left
        intro x hx
        exact ((hbef x (List.mem_range.mp hx)).2).symm
      · congr 1
        apply List.map_congr_left
        intro g hg
        have hg' := List.mem_range.mp hg
        rw [hseg g hg', hpm offs 0 ho g hg']
    · apply List.map_congr_left
      intro j hj
      exact ((haft j (List.mem_range.mp hj)).2).symm
  rw [Arr.elem_of_phases_nil (show (FuseP.fusedArrM X G).phases = [] from hph),
    Arr.elem_of_phases_nil hph]
  show (match alookup (FuseP.fusedBlocksM X G) ns with
    | none => 0
    | some blk => blk.get i) = _
  cases hB : alookup (FuseP.fusedBlocksM X G) ns with
  | some B =>
    simp only []
    obtain ⟨sb0, hsb0, hns0, hBs⟩ := FuseP.fusedBlockM_info hv hok hB
    have hshape := FuseP.shape_storedM hv hok hsb0
    rw [hns0, hshp] at hshape
    have hib : inBox B.shape i = true := by
      rw [hBs, ← Option.some.inj hshape]; exact hbox
    obtain ⟨_, hget⟩ := FuseP.fused_getM hv hok hB hib
    rw [(hget s offs hs ho hK hJ).1]
    cases alookup X.blocks s <;> rfl
  | none =>
    simp only []
    cases hb : alookup X.blocks s with
    | none => rfl
    | some b =>
      exfalso
      have hsb : (s, b) ∈ X.blocks := alookup_mem hb
      obtain ⟨B, hB', _⟩ := FuseP.fusedBlockM_exists hv hok hsb
      have hne : (FuseP.planM X G (s, b)).newSector = ns := by
        rw [FuseP.nsM_parts hok,
          FuseP.three_parts ns (0, 0) (FuseP.giM X G).position G.length
            (FuseP.giM X G).axesAfter.length (by rw [hnl]; rfl)]
        congr 1
        · congr 1
          · apply List.map_congr_left
            intro x hx
            exact ((hbef x (List.mem_range.mp hx)).1).symm
          · apply List.map_congr_left
            intro g hg
            have hg' := List.mem_range.mp hg
            have hgg : G[g]? = some G[g] := List.getElem?_eq_getElem hg'
            exact cM_of_dec hv hok hgg (hdec g _ hgg) (sb := (s, b)) hs rfl
        · apply List.map_congr_left
          intro j hj
          exact ((haft j (List.mem_range.mp hj)).1).symm
      rw [hne, hB] at hB'
      cases hB'

end Multi

end TdotP
end SymmModel
