/-
  SymmModel.Proofs.ReshapeHd — the element-exact forward statement of the fermionic `reshape` along a
  plan with SEVERAL fuse calls: the plan succeeds, every intermediate array is a valid fermionic
  array, and every call satisfies the one-call statement of Reshape7c (`ElemStep`) with respect to
  the array it is applied to (`ElemChain`).  Composed over stored intermediate addresses this gives
  the end-to-end formula `elemChain_value`: the product of the fuse signs of the calls.
-/
import SymmModel.Proofs.ReshapeHc
namespace SymmModel.ReshapeH
open SymmModel SymmModel.Reshape SymmModel.C07 SymmModel.Reshape5 ReshapeP FuseP SymmModel.Lazy
set_option linter.unusedSectionVars false

variable {R : Type} [Zero R] [Neg R] [LawfulNeg R]

/-- the one-call statement: every stored element of `y` is the element of `a` at the address obtained
    by splitting the fused axes `P, P+1, …` of `y`, times the fuse sign of the source sector -/
def ElemStep (a y : Arr R) (G : List (List Nat)) (P : Nat) : Prop :=
  ∀ ns B, alookup y.blocks ns = some B → ∀ i, inBox B.shape i = true →
    ∃ segs : List (Sector × List Nat), segs.length = G.length
      ∧ (∀ g gaxes, G[g]? = some gaxes →
          splitAddr (y.indices.getD (P + g) default) (ns.getD (P + g) (0, 0)) (i.getD (P + g) 0) = segs[g]?)
      ∧ ∀ s offs, s.length = a.ndim → offs.length = a.ndim →
          s = ns.take P ++ (segs.map (·.1)).flatten ++ ns.drop (P + G.length) →
          offs = i.take P ++ (segs.map (·.2)).flatten ++ i.drop (P + G.length) →
          y.elem ns i = sgnI (fuseSignT a G s) (a.elem s offs)

/-- the calls of a plan, one after the other: each call is applied to a valid fermionic array and
    satisfies the one-call statement -/
def ElemChain : Arr R → List (List (List Nat)) → Nat → Arr R → Prop
  | a, [], _, y => y = a
  | a, G :: rest, lb, y => ∃ P y1, CallOk G P lb a.ndim ∧ fuseDispatch a G = .ok y1
      ∧ y1.validB = true ∧ y1.fermi = true ∧ y1.ndim = a.ndim - G.flatten.length + G.length
      ∧ ElemStep a y1 G P ∧ ElemChain y1 rest (P + G.length) y

theorem applyPlan_calls (a : Arr R) (calls : List (List (List Nat))) :
    applyPlan a ([], calls, []) = calls.foldlM fuseDispatch a := by
  simp only [applyPlan, List.foldlM_nil, bind, Except.bind, pure, Except.pure]
  cases calls.foldlM fuseDispatch a <;> rfl

/-- one call: success, validity, number of axes, the element statement -/
theorem elem_step (a : Arr R) (G : List (List Nat)) (P lb : Nat) (hv : a.validB = true)
    (hf : a.fermi = true) (hc : CallOk G P lb a.ndim) :
    ∃ y1, fuseDispatch a G = .ok y1 ∧ y1.validB = true ∧ y1.fermi = true
      ∧ y1.ndim = a.ndim - G.flatten.length + G.length ∧ ElemStep a y1 G P := by
  have hc0 : CallOk G P 0 a.ndim := ⟨hc.ne, hc.two, hc.flat, Nat.zero_le _, hc.le⟩
  obtain ⟨y, hy, hel⟩ := forward_elem_fermionic_call a G P hv hf hc0
  rw [applyPlan_calls] at hy
  simp only [List.foldlM_cons, List.foldlM_nil, bind, Except.bind, pure, Except.pure] at hy
  have hy' : fuseDispatch a G = .ok y := by
    cases hd : fuseDispatch a G with
    | error e => rw [hd] at hy; cases hy
    | ok y0 => rw [hd] at hy; exact hy
  obtain ⟨y', mids, w, h1, g1, hidx, hml, _, _, _, _⟩ :=
    (fuseOK_F (R := R)).fuse a G P ⟨hv, hf⟩ hc.ne hc.two hc.flat hc.le
  have hfd : fuseDispatch a G = Arr.fuseF a G .insert true := by simp [fuseDispatch, hf]
  rw [hfd] at hy'
  have h1' : Arr.fuseF a G .insert true = .ok y' := h1
  rw [hy'] at h1'; injection h1' with h1'; subst h1'
  refine ⟨y, by rw [hfd]; exact hy', g1.1, g1.2, ?_, hel⟩
  have hnd : a.indices.length = a.ndim := rfl
  have hle := hc.le
  have := congrArg List.length hidx
  have hAy : (a.indices.take P).length = P := by rw [List.length_take]; omega
  simp only [List.length_append, hAy, hml, List.length_drop] at this
  have h1 : y.indices.length = y.ndim := rfl
  omega

/-- **every plan of fuse calls: success and the chain of one-call statements** -/
theorem elem_chain : ∀ (calls : List (List (List Nat))) (a : Arr R) (lb : Nat), a.validB = true →
    a.fermi = true → CallsOk calls lb a.ndim →
    ∃ y, calls.foldlM fuseDispatch a = .ok y ∧ y.validB = true ∧ y.fermi = true ∧ ElemChain a calls lb y := by
  intro calls
  induction calls with
  | nil => intro a lb hv hf _; exact ⟨a, rfl, hv, hf, rfl⟩
  | cons G rest ih =>
    intro a lb hv hf hc
    obtain ⟨P, hc1, hc2⟩ := hc
    obtain ⟨y1, hy1, hv1, hf1, hnd, hel⟩ := elem_step a G P lb hv hf hc1
    rw [← hnd] at hc2
    obtain ⟨y, hy, hvy, hfy, hch⟩ := ih y1 (P + G.length) hv1 hf1 hc2
    exact ⟨y, by rw [List.foldlM_cons, hy1]; exact hy, hvy, hfy, P, y1, hc1, hy1, hv1, hf1, hnd, hel, hch⟩

/-- an address of the result pulled back through all calls, last call first: at every intermediate
    array the address reached lies in a STORED block; `σ` is the product of the fuse signs -/
def Pulled : Arr R → List (List (List Nat)) → Nat → Arr R → Sector → List Nat → Sector → List Nat → Int → Prop
  | _, [], _, _, ns, i, s, o, σ => s = ns ∧ o = i ∧ σ = 1
  | a, G :: rest, lb, y, ns, i, s, o, σ =>
    ∃ (P : Nat) (y1 : Arr R) (s1 : Sector) (o1 : List Nat) (σ1 : Int) (B1 : Blk R)
      (segs : List (Sector × List Nat)), CallOk G P lb a.ndim ∧ fuseDispatch a G = .ok y1
      ∧ Pulled y1 rest (P + G.length) y ns i s1 o1 σ1
      ∧ alookup y1.blocks s1 = some B1 ∧ inBox B1.shape o1 = true
      ∧ segs.length = G.length
      ∧ (∀ g gaxes, G[g]? = some gaxes →
          splitAddr (y1.indices.getD (P + g) default) (s1.getD (P + g) (0, 0)) (o1.getD (P + g) 0) = segs[g]?)
      ∧ s.length = a.ndim ∧ o.length = a.ndim
      ∧ s = s1.take P ++ (segs.map (·.1)).flatten ++ s1.drop (P + G.length)
      ∧ o = o1.take P ++ (segs.map (·.2)).flatten ++ o1.drop (P + G.length)
      ∧ σ = σ1 * fuseSignT a G s

theorem splitAddr_segs_unique {G : List (List Nat)} {f : Nat → Option (Sector × List Nat)}
    {segs segs' : List (Sector × List Nat)} (h1 : segs.length = G.length) (h2 : segs'.length = G.length)
    (e1 : ∀ g gaxes, G[g]? = some gaxes → f g = segs[g]?)
    (e2 : ∀ g gaxes, G[g]? = some gaxes → f g = segs'[g]?) : segs = segs' := by
  apply List.ext_getElem?
  intro g
  by_cases hg : g < G.length
  · have : G[g]? = some G[g] := List.getElem?_eq_getElem hg
    rw [← e1 g _ this, ← e2 g _ this]
  · rw [List.getElem?_eq_none (by omega), List.getElem?_eq_none (by omega)]

theorem pulled_pm : ∀ (calls : List (List (List Nat))) (a y : Arr R) (lb : Nat) ns i s o σ,
    Pulled a calls lb y ns i s o σ → σ = 1 ∨ σ = -1 := by
  intro calls
  induction calls with
  | nil => intro a y lb ns i s o σ hp; exact Or.inl hp.2.2
  | cons G rest ih =>
    intro a y lb ns i s o σ hp
    obtain ⟨P', y1', s1, o1, σ1, B1, segs, _, _, hpr, _, _, _, _, _, _, _, _, hσ⟩ := hp
    rw [hσ]
    exact Lazy.mul_pm (ih y1' y _ ns i s1 o1 σ1 hpr) (fuseSignT_pm a G s)

/-- **the end-to-end value**: along stored intermediate addresses, the element of the result is the
    element of the input times the product of the fuse signs of all calls -/
theorem elemChain_value : ∀ (calls : List (List (List Nat))) (a y : Arr R) (lb : Nat),
    ElemChain a calls lb y → ∀ ns i s o σ, Pulled a calls lb y ns i s o σ →
    y.elem ns i = sgnI σ (a.elem s o) := by
  intro calls
  induction calls with
  | nil =>
    intro a y lb hch ns i s o σ hp
    obtain ⟨rfl, rfl, rfl⟩ := hp
    have : y = a := hch
    subst this
    simp [sgnI]
  | cons G rest ih =>
    intro a y lb hch ns i s o σ hp
    obtain ⟨P, y1, _, hy1, _, _, _, hel, hrest⟩ := hch
    obtain ⟨P', y1', s1, o1, σ1, B1, segs, hc', hy1', hpr, hB1, hin, hsl, hsp, hs, ho, hse, hoe, hσ⟩ := hp
    rw [hy1] at hy1'; injection hy1' with hy1'; subst hy1'
    -- the two descriptions of the call agree on its position
    have hPP : P = P' := by
      rename_i hc _ _ _
      have h1 := hc.flat
      have h2 := hc'.flat
      rw [h1] at h2
      exact range'_inj_start (flatten_pos hc.ne hc.two) h2
    subst hPP
    have h1 := ih y1 y (P + G.length) hrest ns i s1 o1 σ1 hpr
    obtain ⟨segs', hsl', hsp', hval⟩ := hel s1 B1 hB1 o1 hin
    have hsegs : segs' = segs := splitAddr_segs_unique (f := fun g =>
      splitAddr (y1.indices.getD (P + g) default) (s1.getD (P + g) (0, 0)) (o1.getD (P + g) 0))
      hsl' hsl hsp' hsp
    subst hsegs
    rw [h1, hval s o hs ho hse hoe, hσ,
      sgnI_mul (pulled_pm rest y1 y _ ns i s1 o1 σ1 hpr) (fuseSignT_pm a G s)]

/-- the fuse calls of `reshape` to a merge / squeeze target, fused axes allowed -/
theorem planner_calls_items_fused (a : Arr R) (items : List Item)
    (hshape : a.shape = shapeOf items) (hok : ItemsOk items) (hne : targetOf items ≠ [])
    (hpos : ∀ d ∈ a.shape, 0 < d) (hnw1 : noWinB (targetOf items) a.subsizes = true) :
    ∃ t, calcReshapeArgs a.shape (targetOf items) a.subsizes = .ok t ∧ t = ([], t.2.1, [])
      ∧ CallsOk t.2.1 0 a.ndim := by
  obtain ⟨t, ht, hu, hexp⟩ := planner_items_total items hok hne
  rw [← hshape] at ht
  have h3 : calcReshapeArgs a.shape (targetOf items) a.subsizes = .ok t := by
    rw [planner_nowin_nones a.shape _ a.subsizes (shape_subsizes_length a) hnw1]; exact ht
  have hprod : prod a.shape = prod (targetOf items) := by rw [hshape]; exact prod_items items
  have hwf := Reshape3.planner_wf_of_prod a.shape (targetOf items) (nones a.shape) (nones_length a.shape).symm
    (Reshape3.denseB_nones a.shape) hpos hprod t ht
  have hc := calls_of_planner a.shape (targetOf items) t ht hwf
  have hteq : t = ([], t.2.1, []) := by
    obtain ⟨t1, t2, t3⟩ := t
    simp only at hu hexp; subst hu; subst hexp; rfl
  have hnd : a.shape.length = a.ndim := by simp [Arr.shape, Arr.ndim]
  rw [hnd] at hc
  exact ⟨t, h3, hteq, hc⟩

/-- **fermionic `reshape` to a merge / squeeze target, several fuse calls, element by element** -/
theorem forward_elem_items (a : Arr R) (hv : a.validB = true) (hf : a.fermi = true) (items : List Item)
    (hshape : a.shape = shapeOf items) (hok : ItemsOk items) (hne : targetOf items ≠ [])
    (hpos : ∀ d ∈ a.shape, 0 < d) (hnw1 : noWinB (targetOf items) a.subsizes = true) :
    ∃ t y, calcReshapeArgs a.shape (targetOf items) a.subsizes = .ok t ∧ t.1 = [] ∧ t.2.2 = []
      ∧ reshapeArr a ((targetOf items).map Int.ofNat) = .ok y ∧ y.validB = true ∧ y.fermi = true
      ∧ ElemChain a t.2.1 0 y
      ∧ ∀ ns i s o σ, Pulled a t.2.1 0 y ns i s o σ → y.elem ns i = sgnI σ (a.elem s o) := by
  obtain ⟨t, h3, hteq, hc⟩ := planner_calls_items_fused a items hshape hok hne hpos hnw1
  obtain ⟨y, hy, hvy, hfy, hch⟩ := elem_chain t.2.1 a 0 hv hf hc
  refine ⟨t, y, h3, by rw [hteq], by rw [hteq], ?_, hvy, hfy, hch, elemChain_value t.2.1 a y 0 hch⟩
  rw [reshapeArr_eq a _ _ (targetOf items) t (findFullReshape_nat _ _) (mapM_toNat _) h3, hteq,
    applyPlan_calls]
  exact hy

end SymmModel.ReshapeH
