/-
  SymmModel.Proofs.Dense3a — `expand_dims` with an explicit charge (property C08, third part):
  fields of the result, value view, dense form, and the exact validity guard.

  New names live in `SymmModel.Dense3`.
-/
import SymmModel.Proofs.DenseMore
import SymmModel.Proofs.ValidMore

namespace SymmModel
namespace Dense3
open DenseP

variable {R : Type}

/-- the charge `expand_dims(axis, c, dual)` inserts: `c`, or the identity when `c is None` -/
def expandCharge (a : Arr R) (c : Option Charge) : Charge := c.getD a.sym.zero

/-- the total charge of the result: unchanged for `c is None`, otherwise
    `combine(charge, sign(c, dual))` with the direction the new index gets -/
def expandNewCharge (a : Arr R) (axis : Nat) (c : Option Charge) (dual : Option Bool) : Charge :=
  match c with
  | none => a.charge
  | some c => a.sym.combine [a.charge, a.sym.sign c (expandDual a axis dual)]

theorem expandDims_fields (a : Arr R) (axis : Nat) (c : Option Charge) (dual : Option Bool) :
    (a.expandDims axis c dual).indices
        = ins axis (Index.mk [(expandCharge a c, 1)] (expandDual a axis dual) none) a.indices
    ∧ (a.expandDims axis c dual).charge = expandNewCharge a axis c dual
    ∧ (a.expandDims axis c dual).sym = a.sym
    ∧ (a.expandDims axis c dual).fermi = a.fermi
    ∧ (a.expandDims axis c dual).oddpos = a.oddpos
    ∧ (a.expandDims axis c dual).blocks
        = adict (a.blocks.map (fun (sb : Sector × Blk R) =>
            (ins axis (expandCharge a c) sb.1, sb.2.expandK axis)))
    ∧ (a.phases = [] → (a.expandDims axis c dual).phases = []) := by
  cases c with
  | none =>
    refine ⟨?_, rfl, rfl, rfl, rfl, rfl, fun h => ?_⟩
    · cases dual <;> rfl
    · simp only [Arr.expandDims, Arr.mapBlocks, h]
      cases a.fermi <;> rfl
  | some c =>
    refine ⟨?_, ?_, rfl, rfl, rfl, rfl, fun h => ?_⟩
    · cases dual <;> rfl
    · cases dual <;> rfl
    · simp only [Arr.expandDims, Arr.mapBlocks, h]
      cases a.fermi <;> rfl

/-- **expand_dims with any charge, value view.**  Inserting the new charge into the sector and the
    offset 0 into the offsets gives an address of the expanded array holding the same value. -/
theorem expandDims_elem_any [Zero R] [Neg R] (a : Arr R) (axis : Nat) (c : Option Charge)
    (dual : Option Bool)
    (ha : axis ≤ a.ndim) (hab : a.phases = []) (hnd : a.sectors.Nodup)
    (hlen : ∀ t ∈ a.sectors, t.length = a.ndim)
    (hshape : ∀ t b, alookup a.blocks t = some b → b.shape.length = a.ndim)
    (s : Sector) (hs : s.length = a.ndim) (off : List Nat) (ho : off.length = a.ndim) :
    (a.expandDims axis c dual).elem (ins axis (expandCharge a c) s) (ins axis 0 off)
      = a.elem s off := by
  obtain ⟨_, _, _, _, _, hbl, hph⟩ := expandDims_fields a axis c dual
  generalize expandCharge a c = c0 at *
  have hkeys : ((a.blocks.map (fun (sb : Sector × Blk R) =>
      (ins axis c0 sb.1, sb.2.expandK axis))).map (·.1)).Nodup := by
    rw [List.map_map]
    have : ((fun x : Sector × Blk R => x.1) ∘ fun sb : Sector × Blk R =>
        (ins axis c0 sb.1, sb.2.expandK axis)) = (fun t => ins axis c0 t) ∘ (·.1) := rfl
    rw [this, ← List.map_map]
    refine List.Nodup.map_on (fun x hx y hy hxy => ?_) hnd
    exact ins_inj (by rw [hlen x hx]; exact ha) (by rw [hlen x hx, hlen y hy]) hxy
  rw [Arr.elem_abelian _ (hph hab), Arr.elem_abelian a hab, hbl, adict_of_nodup _ hkeys,
    alookup_map_inj a.blocks _ (fun t => ins axis c0 t) (fun b => b.expandK axis)
      (fun _ => rfl) s (fun k hk hkk => ins_inj (by rw [hlen k hk]; exact ha)
        (by rw [hlen k hk, hs]) hkk)]
  cases hb : alookup a.blocks s with
  | none => rfl
  | some b =>
    simp only [Option.map_some]
    exact get_expandK b axis off (by rw [hshape s b hb]; exact ha) (by rw [ho, hshape s b hb])

/-- **expand_dims with any charge, dense form.**  The dense form has a size-one axis inserted and
    its entry at a position with coordinate 0 inserted is the original entry — whatever `c` is. -/
theorem expandDims_toDense_any [Zero R] [Neg R] (a : Arr R) (axis : Nat) (c : Option Charge)
    (dual : Option Bool)
    (ha : axis ≤ a.ndim) (hab : a.phases = []) (hsh : Arr.ShapesOk a) (hnd : a.sectors.Nodup)
    (hlen : ∀ t ∈ a.sectors, t.length = a.ndim)
    (hne : a.indices.any (fun ix => ix.cm.isEmpty) = false) :
    ∃ d d', Arr.toDenseA a = .ok d ∧ Arr.toDenseA (a.expandDims axis c dual) = .ok d'
      ∧ d.shape = a.shape ∧ d'.shape = ins axis 1 a.shape
      ∧ ∀ p, inBox a.shape p = true → d'.get (ins axis 0 p) = d.get p := by
  obtain ⟨hidx, _, _, _, _, _, _⟩ := expandDims_fields a axis c dual
  have hshape : (a.expandDims axis c dual).shape = ins axis 1 a.shape := by
    rw [Arr.shape, hidx, ins_map]; rfl
  have hne' : (a.expandDims axis c dual).indices.any (fun ix => ix.cm.isEmpty) = false := by
    rw [hidx]
    rw [List.any_eq_false] at hne ⊢
    intro ix hix
    rcases mem_ins hix with rfl | hix
    · simp [Index.cm]
    · exact hne ix hix
  obtain ⟨d, hd, hs, hg⟩ := Arr.toDenseA_get a hne
  obtain ⟨d', hd', hs', hg'⟩ := Arr.toDenseA_get (a.expandDims axis c dual) hne'
  refine ⟨d, d', hd, hd', hs, hs'.trans hshape, fun p hp => ?_⟩
  have hpl : p.length = a.indices.length := by simpa [Arr.shape] using inBox_length hp
  obtain ⟨sec, off, hl, hx⟩ := hg p hp
  obtain ⟨sec', off', hl', hx'⟩ := hg' (ins axis 0 p)
    (by rw [hshape]; exact inBox_ins hp axis (by simpa [Arr.shape, Arr.ndim] using ha))
  rw [hidx, locateAll_ins hl hpl axis ha] at hl'
  simp only [Option.some.injEq, Prod.mk.injEq] at hl'
  obtain ⟨rfl, rfl⟩ := hl'
  obtain ⟨hsl, hol⟩ := Arr.locateAll_length hl hpl
  rw [hx, hx']
  exact expandDims_elem_any a axis c dual ha hab hnd hlen
    (fun t b hb => by simpa [Arr.ndim] using Arr.blockShape?_shape_length (hsh.2 t b hb))
    sec hsl off hol

/-- every in-box position of the expanded array is a position of the original with coordinate 0
    inserted (so the previous statement describes the whole dense array) -/
theorem inBox_ins_surj {shape q : List Nat} (axis : Nat) (ha : axis ≤ shape.length)
    (h : inBox (ins axis 1 shape) q = true) : ∃ p, inBox shape p = true ∧ q = ins axis 0 p := by
  induction axis generalizing shape q with
  | zero =>
    cases q with
    | nil => simp [inBox] at h
    | cons j q =>
      simp only [ins_zero, inBox_cons] at h
      exact ⟨q, h.2, by simp only [ins_zero]; congr 1; omega⟩
  | succ axis ih =>
    cases shape with
    | nil => simp at ha
    | cons d ds =>
      cases q with
      | nil => simp [inBox] at h
      | cons j q =>
        simp only [ins_succ_cons, inBox_cons] at h
        obtain ⟨p, hp, rfl⟩ := ih (by simpa using ha) h.2
        exact ⟨j :: p, by simp [inBox_cons, h.1, hp], by simp⟩

/-! ### the validity guard is exact -/

theorem expandDual_eq (a : Arr R) (axis : Nat) (dual : Option Bool) :
    ValidP.expandDual a axis dual = expandDual a axis dual := rfl

/-- for a valid array, `expand_dims(axis, c)` is valid exactly when `c` is a charge of the symmetry
    and (for a fermionic array) even -/
theorem expandDims_some_valid_iff (a : Arr R) (axis : Nat) (c : Charge) (dual : Option Bool)
    (hv : a.validB = true) :
    (a.expandDims axis (some c) dual).validB = true
      ↔ (a.sym.valid c = true ∧ (a.fermi = false ∨ a.sym.parity c = false)) := by
  constructor
  · intro h
    have hV := (ValidP.validB_iff _).mp h
    have hVa := (ValidP.validB_iff a).mp hv
    obtain ⟨hidx, hch, hsym, hfer, hodd, _, _⟩ := expandDims_fields a axis (some c) dual
    constructor
    · have := hV.idx (Index.mk [(c, 1)] (expandDual a axis dual) none) (by
        rw [hidx]; simp [ins, expandCharge])
      rw [hsym, ValidP.wfB_none] at this
      have h2 := this.2 (c, 1) (by simp)
      exact h2.2
    · by_cases hf : a.fermi = false
      · exact Or.inl hf
      · right
        have hf' : a.fermi = true := by simpa using hf
        have s1 := hV.sgn
        have s2 := hVa.sgn
        unfold ValidP.SignsOk at s1 s2
        rw [hfer] at s1
        simp only [hf', if_true] at s1 s2
        have e1 := s1.2
        have e2 := s2.2
        rw [hodd, hsym, hch] at e1
        simp only [expandNewCharge] at e1
        rw [ValidP.parity_combine_pair', ValidP.parity_sign', ← e2] at e1
        cases hp : a.sym.parity c
        · rfl
        · rw [hp] at e1
          cases hq : (a.oddpos.length % 2 == 1) <;> rw [hq] at e1 <;> simp at e1
  · rintro ⟨hc, hpar⟩
    exact (ValidP.validB_iff _).mpr
      (ValidP.expandDims_some_valid a axis c dual ((ValidP.validB_iff a).mp hv) hc hpar)

end Dense3
end SymmModel
